(** C11 — row-group copy and re-encode fast paths are indistinguishable from
    the row path.  Statements only; the models are CopyPath/Decision.v (the
    decision cascade of Writer.WriteRowGroup), CopyPath/Batches.v
    (copyColumnValues / WriteRowValues) and CopyPath/Splice.v (loadCopiedChunk
    and the byte-range splice); the proofs are in CopyPath/*Proofs.v. *)
From Coq Require Import List NArith ZArith Bool Arith Lia.
From PQ Require Import CopyPath.Decision CopyPath.DecisionProofs
                       CopyPath.Groups CopyPath.GroupsProofs
                       CopyPath.Filters CopyPath.FiltersProofs
                       CopyPath.Batches CopyPath.BatchesProofs
                       CopyPath.Splice CopyPath.SpliceProofs
                       Dremel.Model Dremel.Proofs.
Import ListNotations.

(** * The decision cascade

    [decide sw w r] is the path WriteRowGroup takes for the source row group
    [r] (its dynamic type, rows, column chunks with the destination column
    each is paired with, segments), the destination writer [w] and the
    package switches [sw].  It is a function of the finite vector
    [cond_of sw w r : rg_cond] — 11 dynamic types x 2^14 condition outcomes
    = 180 224 vectors — and each rule below was evaluated on all of them. *)
Theorem C11_decision_is_finite_cascade : forall sw w r,
  decide sw w r = decide_cond (cond_of sw w r).
Proof. exact decide_cond_of. Qed.

(** Verbatim copy is chosen only when every destination setting that shapes
    the bytes of a column chunk equals the source's: no encryption on either
    side, physical type, codec, data page version and encoding of every page,
    dictionary page present iff the destination uses a dictionary, column and
    offset index present, an equivalent bloom filter when the destination wants
    one (split-block, xxhash, uncompressed, same number of bytes), and the row
    count within MaxRowsPerRowGroup.  [rule_copy] holds on all 180 224 vectors. *)
Theorem C11_copy_implies_settings_equal : forall sw w r,
  decide sw w r = PCopy ->
  sw_disable_copy sw = false /\ w_encryption w = false /\
  (rg_rows r <= w_max_rows w)%N /\
  chunk_transparent (rg_kind r) = true /\
  length (rg_cols r) = w_ncols w /\
  rg_schema_present r = true /\ (w_schema_set w = true -> rg_schema_equal r = true) /\
  forall c, In c (rg_cols r) -> column_settings_equal c.
Proof. exact copy_implies_settings_equal. Qed.

Theorem C11_copy_rule_on_whole_space : forall q : rg_cond,
  decide_cond q = PCopy ->
  q_disable_copy q = false /\ q_w_encryption q = false /\ q_rows_le_max q = true /\
  chunk_transparent (q_kind q) = true /\ q_ncols_eq q = true /\ q_all_cols_copyable q = true.
Proof.
  intros q H. pose proof (all_cond_spec _ rule_copy_all q) as R. unfold rule_copy in R.
  rewrite H in R. cbn in R.
  repeat (apply andb_true_iff in R; destruct R as [R ?]).
  repeat split; auto; now apply negb_true_iff.
Qed.

(** The conditions of one column are exactly these (both directions, all
    4 096 vectors of [col_abs]); the last one (repair f873992): a destination
    with a dictionary size limit takes a verbatim copy only of a chunk whose
    dictionary page declares a size within the limit. *)
Theorem C11_column_copyable_iff : forall a : col_abs,
  column_copyable_abs a = true <->
  (a_file a = true /\ a_src_encrypted a = false /\ a_dst_enc_key a = false /\ a_type_eq a = true /\
   a_codec_eq a = true /\ (a_dst_filter a = true -> a_bloom_ok a = true) /\
   a_column_index a = true /\ a_offset_index a = true /\ a_stats_ok a = true /\
   (a_dict_limit a = true -> a_dict_fits a = true)).
Proof.
  intro a. split.
  - intro H. pose proof (all_col_spec _ col_rule_all a) as R. unfold col_rule in R. rewrite H in R.
    destruct a as [[] [] [] [] [] [] [] [] [] [] [] []]; cbn in *; try discriminate; repeat split; auto; discriminate.
  - intros (H1 & H2 & H3 & H4 & H5 & H6 & H7 & H8 & H9 & H10).
    pose proof (all_col_spec _ col_rule_conv_all a) as R. unfold col_rule_conv in R.
    rewrite H1, H2, H3, H4, H5, H7, H8, H9 in R.
    destruct (a_dict_limit a); [rewrite (H10 eq_refl) in R|];
      (destruct (a_dst_filter a); [rewrite (H6 eq_refl) in R|]; exact R).
Qed.

(** Column-wise re-encoding is chosen only for chunk-transparent row groups
    whose chunks are file chunks, column buffers or range views of these, with
    rows within the maximum — and only when a verbatim copy is not possible. *)
Theorem C11_reencode_implies : forall sw w r,
  decide sw w r = PReencode ->
  sw_disable_reencode sw = false /\ chunk_transparent (rg_kind r) = true /\
  (rg_rows r <= w_max_rows w)%N /\ length (rg_cols r) = w_ncols w /\ rg_cols r <> [] /\
  (forall c, In c (rg_cols r) -> column_oriented_chunk (c_class c) = true) /\
  copyable_column_chunks sw w r = false.
Proof. exact reencode_implies. Qed.

(** Wrappers that change row semantics are never bypassed: a deduplicating
    wrapper, a schema conversion, a foreign RowGroup implementation, an
    overlapping merge (and the empty row group) are read through Rows(). *)
Theorem C11_wrappers_use_row_path : forall sw w r,
  wrapper_kind (rg_kind r) = true ->
  (decide sw w r = PRows \/ decide sw w r = PReject) /\
  (rg_schema_present r = true -> (w_schema_set w = true -> rg_schema_equal r = true) ->
   decide sw w r = PRows).
Proof. exact wrappers_use_row_path. Qed.

(** Concatenations (MultiRowGroup, sorted disjoint segments of a merge) are
    never read chunk-wise as a whole: they are split into their segments, each
    written by its own WriteRowGroup, or read through Rows(). *)
Theorem C11_segmented_never_chunkwise : forall sw w r,
  segmented_kind (rg_kind r) = true -> decide sw w r <> PCopy /\ decide sw w r <> PReencode.
Proof. exact segmented_never_chunkwise. Qed.

Theorem C11_chunkwise_only_opted_in_types : forall sw w r,
  (decide sw w r = PCopy \/ decide sw w r = PReencode -> chunk_transparent (rg_kind r) = true) /\
  (decide sw w r = PPacked -> segmented_kind (rg_kind r) = true /\ 2 <= length (rg_segs r)).
Proof. exact chunkwise_only_transparent. Qed.

(** The switches force the expected paths. *)
Theorem C11_disable_switches : forall sw w r,
  (sw_disable_copy sw = true -> decide sw w r <> PCopy) /\
  (sw_disable_reencode sw = true -> decide sw w r <> PReencode) /\
  (sw_disable_copy sw = true -> sw_disable_reencode sw = true ->
   decide sw w r = PRows \/ decide sw w r = PReject).
Proof. exact disable_switches. Qed.

Theorem C11_disable_copy_no_chunk_copied_at_any_depth : forall sw w, sw_disable_copy sw = true ->
  forall fuel r, copy_count (plan fuel sw w r) = 0.
Proof. exact disable_copy_no_copy. Qed.

Theorem C11_disable_both_rows_only : forall sw w r fuel,
  sw_disable_copy sw = true -> sw_disable_reencode sw = true ->
  copy_count (plan fuel sw w r) = 0 /\ reencode_count (plan fuel sw w r) = 0.
Proof. exact disable_both_rows_only. Qed.

Theorem C11_enabled_paths : forall sw w r,
  sw_disable_copy sw = false -> sw_disable_reencode sw = false ->
  rg_schema_present r = true -> (w_schema_set w = true -> rg_schema_equal r = true) ->
  splittable sw w r = false ->
  decide sw w r = if copy_conditions w r then PCopy
                  else if column_oriented_row_group w r then PReencode else PRows.
Proof. exact enabled_paths. Qed.

(** A source larger than MaxRowsPerRowGroup is never written as one row group
    by a fast path. *)
Theorem C11_max_rows_respected : forall sw w r,
  (w_max_rows w < rg_rows r)%N -> decide sw w r <> PCopy /\ decide sw w r <> PReencode.
Proof. exact max_rows_respected. Qed.

(** Packing of segments (lists of any length): the batches are the segments in
    order; a batch of several segments holds only column-oriented segments and
    at most MaxRowsPerRowGroup rows. *)
Theorem C11_pack_preserves_order : forall w segs, concat (pack_segments w segs) = segs.
Proof. exact pack_segments_order. Qed.

Theorem C11_pack_respects_max_rows : forall w segs, Forall (batch_ok w) (pack_segments w segs).
Proof. exact pack_segments_max_rows. Qed.

(** Rows written with WriteRows and still buffered when WriteRowGroup is called
    are flushed before every elementary write of the call (the packing of
    several segments included): with [written] rows handed to WriteRows before
    the call, the row groups of the output split into a prefix holding exactly
    those rows (each within MaxRowsPerRowGroup) and one row group per non-empty
    copy / column-wise / packing action holding exactly the rows of the action;
    no row is lost or added. *)
Theorem C11_buffered_rows_flushed_first : forall w written acts l,
  out_row_groups w written acts = Some l ->
  exists pre post, l = pre ++ post /\ sum_N pre = written /\ action_row_groups acts = Some post.
Proof. exact buffered_rows_not_shared. Qed.

Theorem C11_buffered_row_groups_within_max : forall w written,
  (0 < w_max_rows w)%N ->
  Forall (fun g => (g <= w_max_rows w)%N) (full_groups w written ++ cons_nonempty (buffered_rows w written) []).
Proof. exact buffered_groups_within_max. Qed.

Theorem C11_row_groups_sum : forall w written acts l,
  out_row_groups w written acts = Some l ->
  exists la, action_row_groups acts = Some la /\ sum_N l = (written + sum_N la)%N.
Proof. exact out_row_groups_sum. Qed.

(* non-vacuity: 600 buffered rows, then two segments of 400 rows packed column-wise *)
Example C11_ex_buffered_then_packed :
  out_row_groups {| w_schema_set := true; w_encryption := false; w_max_rows := 1000; w_ncols := 2 |} 600
                 [APack 2 800] = Some [600; 800]%N.
Proof. vm_compute; reflexivity. Qed.

(** * Bloom filters of row groups written column-wise

    The filter of a column is allocated before the values are written when
    every source chunk knows its exact value count, and is left to
    flushFilterPages otherwise (CopyPath/Filters.v).  Whatever mix of whole
    row groups (exact counts) and row-range views of repeated columns (upper
    bounds) is packed into one output row group, the filter written has the
    size SplitBlockFilter.Size prescribes for the values of that row group —
    the size the row path gives the same rows.  The hypothesis is what
    chunkNumValuesIsExact promises: a chunk that claims an exact count
    delivers that many values. *)
Theorem C11_pack_filter_prescribed : forall bits chunks,
  Forall chunk_honest chunks ->
  pack_filter_bytes bits chunks = filter_size bits (sum_delivered chunks).
Proof. exact pack_filter_prescribed. Qed.

Theorem C11_rowgroup_filter_prescribed : forall bits repeated rows max_rows c,
  chunk_honest c -> (rows <= max_rows)%N ->
  rowgroup_filter_bytes bits repeated rows max_rows c = filter_size bits (sg_delivered c).
Proof. exact rowgroup_filter_prescribed. Qed.

(* non-vacuity: a whole row group of 900 values packed with a range view that declares at most 5000
   values and delivers 4378: not allocated ahead, 10 bits per value of the 5278 values written *)
Example C11_ex_pack_exact_with_inexact :
  let chunks := [ {| sg_exact := true; sg_declared := 900; sg_delivered := 900 |};
                  {| sg_exact := false; sg_declared := 5000; sg_delivered := 4378 |} ]%N in
  Forall chunk_honest chunks /\ pack_filter_values chunks = None /\ pack_filter_bytes 10 chunks = 6624%N /\ filter_size 10 900 = 1152%N.
Proof.
  split; [repeat constructor; intro H; try discriminate H; reflexivity |].
  repeat split; vm_compute; reflexivity.
Qed.

Print Assumptions C11_pack_filter_prescribed.
Print Assumptions C11_rowgroup_filter_prescribed.

Print Assumptions C11_decision_is_finite_cascade.
Print Assumptions C11_buffered_rows_flushed_first.
Print Assumptions C11_buffered_row_groups_within_max.
Print Assumptions C11_row_groups_sum.
Print Assumptions C11_copy_implies_settings_equal.
Print Assumptions C11_copy_rule_on_whole_space.
Print Assumptions C11_column_copyable_iff.
Print Assumptions C11_reencode_implies.
Print Assumptions C11_wrappers_use_row_path.
Print Assumptions C11_segmented_never_chunkwise.
Print Assumptions C11_chunkwise_only_opted_in_types.
Print Assumptions C11_disable_switches.
Print Assumptions C11_disable_copy_no_chunk_copied_at_any_depth.
Print Assumptions C11_disable_both_rows_only.
Print Assumptions C11_enabled_paths.
Print Assumptions C11_max_rows_respected.
Print Assumptions C11_pack_preserves_order.
Print Assumptions C11_pack_respects_max_rows.

(** * Column-wise re-encoding *)

(** For EVERY value stream (any repetition levels, rows of any length,
    including rows longer than the buffer), every reader behaviour (any sizes
    of the reads, io.EOF alone or together with the last values), every buffer
    size and every carried-over prefix: the batches handed to WriteRowValues,
    concatenated, are the stream, and every batch begins at a row start — so
    each also ends at a row end, the next batch or the end of the stream. *)
Theorem C11_reencode_batches_end_on_row_boundaries :
  forall (A : Type) (rep : A -> nat) (R : Type) (read : R -> nat -> nat * bool * R)
         fuel repeated rd cap stream bs,
    (repeated = false -> Forall (fun x => rep x = 0) stream) ->   (* maxRepetitionLevel = 0 *)
    wf_stream rep stream ->                                        (* the column begins at a row start *)
    copy_loop rep read fuel repeated rd cap [] stream = Some bs ->
    concat bs = stream /\ Forall (starts_row rep) bs.
Proof.
  intros A rep R read fuel repeated rd cap stream bs H1 H2 H3.
  exact (copy_loop_sound A rep R read fuel repeated rd cap [] stream bs H1 H2 H3).
Qed.

(** On a column chunk (the reader serves the values page by page) the loop
    ends, with fuel = number of values + 2. *)
Theorem C11_reencode_batches_terminate :
  forall (A : Type) (rep : A -> nat) repeated cap pages stream,
    0 < cap -> sum_pages pages = length stream ->
    (repeated = false -> Forall (fun x => rep x = 0) stream) ->
    wf_stream rep stream ->
    exists bs, copy_column_values rep repeated cap pages stream = Some bs /\
               concat bs = stream /\ Forall (starts_row rep) bs.
Proof. exact copy_column_values_whole_rows. Qed.

(** The destination may flush a page after any call of WriteRowValues
    ([should_flush] is any predicate of the buffered values): the pages hold
    the stream and no row spans two pages. *)
Theorem C11_reencode_pages :
  forall (A : Type) (rep : A -> nat) (should_flush : list A -> bool) repeated cap pages stream,
    0 < cap -> sum_pages pages = length stream ->
    (repeated = false -> Forall (fun x => rep x = 0) stream) ->
    wf_stream rep stream ->
    exists bs, copy_column_values rep repeated cap pages stream = Some bs /\
               concat (write_row_values should_flush [] bs) = stream /\
               Forall (starts_row rep) (write_row_values should_flush [] bs).
Proof. exact reencode_pages. Qed.

(** Against the Dremel model (C01): the values written column-wise for a
    column are the column of the shredded rows, in pages that begin at record
    starts (entries with r = 0). *)
Theorem C11_reencode_equiv :
  forall (V : Type) (s : schema) (rows : list (value V)) (c : column V)
         (should_flush : list (entry V) -> bool) cap pages,
    wf_schema s -> Forall (wf s) rows -> In c (shred_rows s rows) ->
    0 < cap -> sum_pages pages = length c ->
    exists bs, copy_column_values (e_r V) true cap pages c = Some bs /\
               concat (write_row_values should_flush [] bs) = c /\
               Forall (starts_row (e_r V)) (write_row_values should_flush [] bs).
Proof.
  intros V s rows c sf cap pages Hs Hr Hc Hcap Hsum.
  apply reencode_pages; auto; [discriminate|].
  rewrite (shred_rows_eq V s Hs rows Hr) in Hc.
  pose proof (rows_cols_heads V s Hs rows Hr) as Hh. unfold heads_le in Hh.
  rewrite Forall_forall in Hh. specialize (Hh c Hc).
  destruct c as [|e c']; [exact I|]. cbn. lia.
Qed.

Print Assumptions C11_reencode_batches_end_on_row_boundaries.
Print Assumptions C11_reencode_batches_terminate.
Print Assumptions C11_reencode_pages.
Print Assumptions C11_reencode_equiv.

(** * The splice of copied chunks *)

(** For every column of a copied row group, whatever was written before it and
    whatever follows: the offset index written is the source's shifted by the
    distance between the data pages' positions, every location designates in
    the output the very bytes its source location designates in the source
    file, and the dictionary page lies directly before the data pages, at the
    recorded offset. *)
Theorem C11_splice_layout_sound :
  forall (B : Type) (cols : list (list B * src_chunk)) (ccs : list (list B * copied)) (out : list B),
    Forall2 (fun sm sc => fst sc = fst sm /\ valid_layout B (fst sm) (snd sm) /\
                          load_copied_chunk (snd sm) = Some (snd sc)) cols ccs ->
    let '(out', ps) := splice_chunks out ccs in
    (exists ext, out' = out ++ ext) /\
    Forall2 (fun sm p => placed_ok B (fst sm) (snd sm) out' p) cols ps.
Proof. exact splice_chunks_sound. Qed.

(* loadCopiedChunk accepts every chunk laid out as the format prescribes *)
Theorem C11_load_accepts_valid_layout : forall (B : Type) (src : list B) m,
  valid_layout B src m -> exists cc, load_copied_chunk m = Some cc.
Proof.
  intros B src m H. destruct (load_copied_chunk_valid B src m H) as (cc & E & _). now exists cc.
Qed.

Print Assumptions C11_splice_layout_sound.
Print Assumptions C11_load_accepts_valid_layout.

(** * Non-vacuity *)

(* a file-backed source column whose settings equal the destination's:
   SNAPPY (1), INT64 (2), v2 pages, RLE_DICTIONARY (8) with its dictionary page *)
Definition ex_col : col := {|
  c_class := CFile; c_src_encrypted := false; c_dst_enc_key := false;
  c_src_type := 2; c_dst_type := 2; c_src_codec := 1; c_dst_codec := 1;
  c_dst_filter := true; c_src_bloom_offset := true; c_src_bloom_length := true;
  c_dst_bloom_codec := None; c_src_bloom_header_ok := true; c_src_bloom_split_block := true;
  c_src_bloom_xxhash := true; c_src_bloom_uncompressed := true;
  c_src_bloom_num_bytes := 64; c_dst_filter_size := 128; c_dst_filter_size_dict := 64;
  c_src_column_index := true; c_src_offset_index := true;
  c_src_encoding_stats := [(PTDict, 0%N); (PTDataV2, 8%N)];
  c_dst_page_type := PTDataV2; c_dst_encoding := 8; c_dst_dict := true;
  c_dst_dict_max := 0; c_src_dict_page := true; c_src_dict_header_ok := true; c_src_dict_uncompressed := 400;
  c_src_page_header_stats := false; c_dst_page_header_stats := true
|}.

Definition ex_col_gzip : col := {|
  c_class := CFile; c_src_encrypted := false; c_dst_enc_key := false;
  c_src_type := 2; c_dst_type := 2; c_src_codec := 1; c_dst_codec := 2;
  c_dst_filter := false; c_src_bloom_offset := false; c_src_bloom_length := false;
  c_dst_bloom_codec := None; c_src_bloom_header_ok := false; c_src_bloom_split_block := false;
  c_src_bloom_xxhash := false; c_src_bloom_uncompressed := false;
  c_src_bloom_num_bytes := 0; c_dst_filter_size := 0; c_dst_filter_size_dict := 0;
  c_src_column_index := true; c_src_offset_index := true;
  c_src_encoding_stats := [(PTDataV2, 0%N)];
  c_dst_page_type := PTDataV2; c_dst_encoding := 0; c_dst_dict := false;
  c_dst_dict_max := 0; c_src_dict_page := false; c_src_dict_header_ok := false; c_src_dict_uncompressed := 0;
  c_src_page_header_stats := true; c_dst_page_header_stats := true
|}.

Definition ex_w : writer := {| w_schema_set := true; w_encryption := false; w_max_rows := 1000; w_ncols := 1 |}.
Definition ex_sw : switches := {| sw_disable_copy := false; sw_disable_reencode := false |}.
Definition ex_file (rows : N) (c : col) : rg := RG KFile true true rows [c] [].

Example C11_ex_copy : decide ex_sw ex_w (ex_file 100 ex_col) = PCopy.
Proof. vm_compute. reflexivity. Qed.

(* repair f873992: a destination limiting its dictionaries to 300 bytes does not take the chunk
   (its dictionary page declares 400 bytes) verbatim; with a limit of 400 bytes it does *)
Definition ex_col_limit (limit : N) : col := {|
  c_class := CFile; c_src_encrypted := false; c_dst_enc_key := false;
  c_src_type := 2; c_dst_type := 2; c_src_codec := 1; c_dst_codec := 1;
  c_dst_filter := false; c_src_bloom_offset := false; c_src_bloom_length := false;
  c_dst_bloom_codec := None; c_src_bloom_header_ok := false; c_src_bloom_split_block := false;
  c_src_bloom_xxhash := false; c_src_bloom_uncompressed := false;
  c_src_bloom_num_bytes := 0; c_dst_filter_size := 0; c_dst_filter_size_dict := 0;
  c_src_column_index := true; c_src_offset_index := true;
  c_src_encoding_stats := [(PTDict, 0%N); (PTDataV2, 8%N)];
  c_dst_page_type := PTDataV2; c_dst_encoding := 8; c_dst_dict := true;
  c_dst_dict_max := limit; c_src_dict_page := true; c_src_dict_header_ok := true; c_src_dict_uncompressed := 400;
  c_src_page_header_stats := true; c_dst_page_header_stats := true
|}.

Example C11_ex_dictionary_limit_demotes : decide ex_sw ex_w (ex_file 100 (ex_col_limit 300)) = PReencode.
Proof. vm_compute. reflexivity. Qed.

Example C11_ex_dictionary_within_limit_copied : decide ex_sw ex_w (ex_file 100 (ex_col_limit 400)) = PCopy.
Proof. vm_compute. reflexivity. Qed.

(* the cascade before the repair did not read the limit: the same conditions without the last one *)
Definition column_copyable_pinned (c : col) : bool :=
  let a := col_abs_of c in
  column_copyable_abs {| a_file := a_file a; a_src_encrypted := a_src_encrypted a; a_dst_enc_key := a_dst_enc_key a;
                         a_type_eq := a_type_eq a; a_codec_eq := a_codec_eq a; a_dst_filter := a_dst_filter a;
                         a_bloom_ok := a_bloom_ok a; a_column_index := a_column_index a; a_offset_index := a_offset_index a;
                         a_stats_ok := a_stats_ok a; a_dict_limit := false; a_dict_fits := a_dict_fits a |}.

Theorem C11_pinned_copy_ignores_dictionary_limit_refuted :
  exists c, column_copyable_pinned c = true /\ c_dst_dict c = true /\
            (0 < c_dst_dict_max c < c_src_dict_uncompressed c)%N /\ column_copyable c = false.
Proof. exists (ex_col_limit 300). vm_compute. repeat split; reflexivity. Qed.

Print Assumptions C11_pinned_copy_ignores_dictionary_limit_refuted.

(* repair cc7588b: [ex_col] is a dictionary column whose filter (64 bytes) has the size the
   destination builds from the 50 values of the dictionary, not the 128 bytes the 100 values of the
   chunk would give: it is copied; a filter of 128 bytes is not.  Before the repair the sizes were
   compared the other way round. *)
Definition ex_col_filter (num_bytes : N) : col := {|
  c_class := CFile; c_src_encrypted := false; c_dst_enc_key := false;
  c_src_type := 2; c_dst_type := 2; c_src_codec := 1; c_dst_codec := 1;
  c_dst_filter := true; c_src_bloom_offset := true; c_src_bloom_length := true;
  c_dst_bloom_codec := None; c_src_bloom_header_ok := true; c_src_bloom_split_block := true;
  c_src_bloom_xxhash := true; c_src_bloom_uncompressed := true;
  c_src_bloom_num_bytes := num_bytes; c_dst_filter_size := 128; c_dst_filter_size_dict := 64;
  c_src_column_index := true; c_src_offset_index := true;
  c_src_encoding_stats := [(PTDict, 0%N); (PTDataV2, 8%N)];
  c_dst_page_type := PTDataV2; c_dst_encoding := 8; c_dst_dict := true;
  c_dst_dict_max := 0; c_src_dict_page := true; c_src_dict_header_ok := true; c_src_dict_uncompressed := 400;
  c_src_page_header_stats := true; c_dst_page_header_stats := true
|}.

Example C11_ex_dictionary_filter_copied : decide ex_sw ex_w (ex_file 100 (ex_col_filter 64)) = PCopy.
Proof. vm_compute. reflexivity. Qed.

Example C11_ex_chunk_sized_filter_of_dictionary_column_rebuilt :
  decide ex_sw ex_w (ex_file 100 (ex_col_filter 128)) = PReencode.
Proof. vm_compute. reflexivity. Qed.

(* the comparison before the repair: always with the size for the values of the chunk *)
Definition bloom_size_check_pinned (c : col) : bool := N.eqb (c_src_bloom_num_bytes c) (c_dst_filter_size c).

Theorem C11_pinned_bloom_size_of_dictionary_column_refuted :
  exists c, c_dst_dict c = true /\ bloom_size_check_pinned c = true /\
            c_dst_filter_size c <> c_dst_filter_size_dict c /\ bloom_filter_is_copyable c = false.
Proof. exists (ex_col_filter 128). vm_compute. repeat split; try reflexivity; discriminate. Qed.

Print Assumptions C11_pinned_bloom_size_of_dictionary_column_refuted.

(* the same source into a destination with another codec is re-encoded column-wise *)
Example C11_ex_reencode : decide ex_sw ex_w (ex_file 100 ex_col_gzip) = PReencode.
Proof. vm_compute. reflexivity. Qed.

(* larger than MaxRowsPerRowGroup: the row path splits it *)
Example C11_ex_too_many_rows : decide ex_sw ex_w (ex_file 1001 ex_col) = PRows.
Proof. vm_compute. reflexivity. Qed.

(* the same chunks behind a deduplicating wrapper or a foreign type: row path *)
Example C11_ex_dedup : decide ex_sw ex_w (RG KDedup true true 100 [ex_col] []) = PRows.
Proof. vm_compute. reflexivity. Qed.
Example C11_ex_foreign : decide ex_sw ex_w (RG KForeign true true 100 [ex_col] []) = PRows.
Proof. vm_compute. reflexivity. Qed.

(* a MultiRowGroup of three files is packed: the copyable one alone keeps its
   bytes, ... *)
Example C11_ex_packed :
  plan 3 ex_sw ex_w (RG KMulti true true 1700 [] [ex_file 900 ex_col; ex_file 400 ex_col_gzip; ex_file 400 ex_col_gzip])
  = [ACopy 1 900; APack 2 800].
Proof. vm_compute. reflexivity. Qed.

(** What the copy path does not compare: the destination asks for statistics
    in the page headers, the source pages have none, and the chunk is copied. *)
Example C11_ex_copy_ignores_page_header_statistics :
  decide ex_sw ex_w (ex_file 100 ex_col) = PCopy /\
  c_src_page_header_stats ex_col <> c_dst_page_header_stats ex_col.
Proof. split; [vm_compute; reflexivity|discriminate]. Qed.

(** disableWriteReencode does not reach packSegmentsByColumn: segments packed
    together are still re-encoded column-wise (writer_reencode.go:127 calls
    columnOrientedRowGroup, not reencodableRowGroup). *)
Example C11_ex_disable_reencode_still_packs :
  reencode_count (plan 3 {| sw_disable_copy := false; sw_disable_reencode := true |} ex_w
    (RG KMulti true true 1700 [] [ex_file 900 ex_col; ex_file 400 ex_col_gzip; ex_file 400 ex_col_gzip])) = 1.
Proof. vm_compute. reflexivity. Qed.

(* a repeated column: rows of 3, 1 and 5 values, source pages of 4 and 5
   values, a buffer of 4 values: the second row is carried over, the third is
   larger than the buffer *)
Definition ex_reps : list nat := [0; 1; 1; 0; 0; 1; 1; 1; 1].

Example C11_ex_batches : batch_cuts true 4 [4; 5] ex_reps = Some [3; 4; 9].
Proof. vm_compute. reflexivity. Qed.

Example C11_ex_batches_hyp : wf_stream (fun r => r) ex_reps /\ sum_pages [4; 5] = length ex_reps.
Proof. split; reflexivity. Qed.

(* a splice: a chunk with a dictionary page (10 bytes at offset 4) and two
   data pages (5 and 7 bytes) copied after 3 bytes of output *)
Definition ex_src : list nat := seq 100 40.
Definition ex_chunk : src_chunk := {|
  sc_dict_offset := 4; sc_data_offset := 14; sc_total_compressed := 22;
  sc_locs := [ {| pl_offset := 14; pl_size := 5; pl_first_row := 0 |};
               {| pl_offset := 19; pl_size := 7; pl_first_row := 3 |} ] |}.

Example C11_ex_splice_valid : valid_layout nat ex_src ex_chunk.
Proof.
  unfold valid_layout, data_length; cbn. repeat split; try lia.
  repeat constructor; cbn; lia.
Qed.

Example C11_ex_splice :
  rebased_offsets ex_chunk 3 = Some (3, 13, [13; 18])%Z.
Proof. vm_compute. reflexivity. Qed.

(** * The code before commit bdd71f3 is refuted

    copyColumnValues handed every batch of reencodeValueBufferSize = 1 024
    VALUES to WriteRowValues.  A column of two rows of 1 000 and 100 values:
    the first batch ends 24 values into the second row, the second batch — and
    the page a destination that flushes after every call makes of it — starts
    in the middle of a row. *)
Definition pinned_stream : list nat := (0 :: repeat 1 999) ++ (0 :: repeat 1 99).

Theorem C11_pinned_reencode_batches_refuted :
  exists (stream : list nat) (pages : list nat),
    wf_stream (fun r => r) stream /\ sum_pages pages = length stream /\
    exists bs, copy_column_values_pinned reencode_buffer_size pages stream = Some bs /\
               concat bs = stream /\
               ~ Forall (starts_row (fun r => r)) bs /\
               ~ Forall (starts_row (fun r => r)) (write_row_values (fun _ => true) [] bs).
Proof.
  exists pinned_stream, [1100]. split; [reflexivity|]. split; [reflexivity|].
  eexists. split; [vm_compute; reflexivity|]. split; [vm_compute; reflexivity|].
  split; intro H; inversion H as [|? ? _ H2]; inversion H2 as [|? ? H3 _]; vm_compute in H3; discriminate.
Qed.

(* the repaired loop on the same input: the second row is carried over *)
Example C11_fixed_on_pinned_witness :
  batch_cuts true reencode_buffer_size [1100] pinned_stream = Some [1000; 1100] /\
  batch_cuts_pinned reencode_buffer_size [1100] pinned_stream = Some [1024; 1100].
Proof. split; vm_compute; reflexivity. Qed.

Print Assumptions C11_pinned_reencode_batches_refuted.
