(** The layers above the page cursor of one column chunk (Cursor/Model.v):

    - rowGroupRows over SEVERAL columns whose chunks have different page
      layouts (row_group.go: rowGroupRows.ReadRows / SeekToRow / Reset,
      column_chunk.go: columnChunkValueReader);
    - multiPages: the page cursor of a column of a multiRowGroup, the
      concatenation of the chunks of the column in every row group
      (multi_row_group.go: multiPages.ReadPage / SeekToRow);
    - reader, Reader and GenericReader (reader.go): three more row counters on
      top of the rows of the (multi) row group.

    Executable, no proofs (Cursor/MultiProofs.v). *)
From Coq Require Import List Arith Bool.
From PQ Require Import Cursor.Model Cursor.Spec.
Import ListNotations.

(** * One column: columnChunkValueReader + the value buffer of rowGroupRows,
      over ANY page cursor (state type [C]).  Same functions as [fill] and
      [read_rows] of Cursor/Model.v, which are the instance [C = state]. *)
Section GenColumn.
  Variable C : Type.
  Variable cstep : C -> op -> C * out.
  Variable fuel : nat.

  (* columnChunkValueReader.ReadValues (column_chunk.go:123-150) on an
     exhausted page: read pages until one has values, or an error *)
  Fixpoint gfill (f : nat) (c : C) : C * option (nat * nat) :=
    match f with
    | O => (c, None)
    | S f' =>
        match cstep c ReadPage with
        | (c', Rows fr cnt) => if cnt =? 0 then gfill f' c' else (c', Some (fr, cnt))
        | (c', _) => (c', None)
        end
    end.

  (* the loop [for rowIndex := range rows] of rowGroupRows.ReadRows
     (row_group.go:309-352) for one column: when the values of a row reach the
     end of the buffered values the next values are read to look for the
     continuation of the row (numValuesInRow = 0), so the next page is loaded
     before the row is complete and the end of the chunk is reported together
     with the last row *)
  Fixpoint gread_rows (n : nat) (c : C) (bf bc : nat) : C * nat * nat * list nat * bool :=
    match n with
    | O => (c, bf, bc, [], false)
    | S n' =>
        let '(c1, buf) := if bc =? 0 then gfill fuel c else (c, Some (bf, bc)) in
        match buf with
        | None => (c1, bf, 0, [], true)
        | Some (fr, cnt) =>
            if cnt <=? 1 then
              match gfill fuel c1 with
              | (c2, None) => (c2, S fr, 0, [fr], true)
              | (c2, Some (fr2, cnt2)) =>
                  let '(c3, bf3, bc3, ids, eof) := gread_rows n' c2 fr2 cnt2 in
                  (c3, bf3, bc3, fr :: ids, eof)
              end
            else
              let '(c3, bf3, bc3, ids, eof) := gread_rows n' c1 (S fr) (cnt - 1) in
              (c3, bf3, bc3, fr :: ids, eof)
        end
    end.
End GenColumn.
Arguments gfill {C}.
Arguments gread_rows {C}.

(** * rowGroupRows over several columns

    [colst]: one element of rowGroupRows.columns: the page cursor of the
    column and the unread rows of its current page/value buffer (first row,
    how many), as in [rstate].  [mrow]: rowGroupRows.rowIndex ([None] = -1).

    A column is described by a parameter of type [P] (its page layout when the
    cursor is a FilePages, the layouts of its chunks when it is a multiPages);
    [cstep p] is the page cursor over that column. *)
Record colst (C : Type) := cmk { ccur : C; cbf : nat; cbc : nat }.
Arguments cmk {C}.
Arguments ccur {C}.
Arguments cbf {C}.
Arguments cbc {C}.

Record mstate (C : Type) := mmk { mcols : list (colst C); mrow : option nat }.
Arguments mmk {C}.
Arguments mcols {C}.
Arguments mrow {C}.

(** A batch of assembled rows: every row is the list of the row numbers that
    the columns contributed to it, in column order (all equal when the columns
    are aligned). *)
Inductive mout := MRows (rows : list (list nat)) (eof : bool) | MSeekOk | MOutOfRange | MDone.

Definition mout_count (o : mout) : nat :=
  match o with MRows rows _ => length rows | _ => 0 end.

(* rows[rowIndex] = append(rows[rowIndex], values...) for the rows that the
   column delivered (row_group.go:340) *)
Fixpoint append_col (rows : list (list nat)) (ids : list nat) : list (list nat) :=
  match rows, ids with
  | r :: rows', i :: ids' => (r ++ [i]) :: append_col rows' ids'
  | _, _ => rows
  end.

Section MultiColumn.
  Variables C P : Type.
  Variable cstep : P -> C -> op -> C * out.
  Variable cfuel : P -> nat.
  Variable cinit : C.                 (* column.Pages() *)
  (** [stale = true] is the seeded defect class: r.rowIndex is not advanced when
      the batch comes back with io.EOF. *)
  Variable stale : bool.

  Definition minit (ps : list P) : mstate C :=
    mmk (map (fun _ => cmk cinit 0 0) ps) None.

  (** [for i := range r.columns { r.columns[i].reader.SeekToRow(rowIndex) }]
      (row_group.go:273-277): stops at the first error.  A column whose seek
      succeeded has dropped its page (columnChunkValueReader.clear); the value
      buffers are cleared by r.clear() only when every seek succeeded. *)
  Fixpoint seek_cols (ps : list P) (cs : list (colst C)) (k : nat) : list (colst C) * bool :=
    match ps, cs with
    | p :: ps', c :: cs' =>
        match cstep p (ccur c) (SeekToRow k) with
        | (c', SeekOk) =>
            let '(cs2, ok) := seek_cols ps' cs' k in (cmk c' (cbf c) (cbc c) :: cs2, ok)
        | (c', _) => (cmk c' (cbf c) (cbc c) :: cs', false)
        end
    | _, _ => (cs, true)
    end.

  Definition clear_cols (cs : list (colst C)) : list (colst C) :=
    map (fun c => cmk (ccur c) 0 0) cs.

  (** rowGroupRows.SeekToRow (row_group.go:268-282). *)
  Definition mr_seek (ps : list P) (m : mstate C) (k : nat) : mstate C * mout :=
    if match mrow m with Some i => i =? k | None => false end then (m, MSeekOk)
    else
      match seek_cols ps (mcols m) k with
      | (cs, true) => (mmk (clear_cols cs) (Some k), MSeekOk)
      | (cs, false) => (mmk cs (mrow m), MOutOfRange)
      end.

  (** The loop [for columnIndex := range r.columns] of ReadRows
      (row_group.go:304-353): every column reads up to [n] rows and appends
      them to the rows; rowCount = max over the columns, eofCount = number of
      columns that reached their end. *)
  Fixpoint read_cols (ps : list P) (cs : list (colst C)) (n : nat)
           (rows : list (list nat)) (rowCount eofCount : nat)
    : list (colst C) * list (list nat) * nat * nat :=
    match ps, cs with
    | p :: ps', c :: cs' =>
        let '(c1, bf, bc, ids, eof) := gread_rows (cstep p) (cfuel p) n (ccur c) (cbf c) (cbc c) in
        let '(cs2, rows2, rc2, ec2) :=
          read_cols ps' cs' n (append_col rows ids) (Nat.max rowCount (length ids))
                    (if eof then S eofCount else eofCount) in
        (cmk c1 bf bc :: cs2, rows2, rc2, ec2)
    | _, _ => (cs, rows, rowCount, eofCount)
    end.

  (** rowGroupRows.ReadRows (row_group.go:284-361).  The first call seeks to
      row 0.  [r.rowIndex += int64(rowCount)] whether or not io.EOF is returned
      with the rows. *)
  Definition mr_read (ps : list P) (m : mstate C) (n : nat) : mstate C * mout :=
    let '(m1, e) := match mrow m with None => mr_seek ps m 0 | Some _ => (m, MSeekOk) end in
    match e with
    | MSeekOk =>
        let '(cs, rows, rowCount, eofCount) := read_cols ps (mcols m1) n (repeat [] n) 0 0 in
        let eof := 0 <? eofCount in
        (mmk cs (if stale && eof then mrow m1
                 else option_map (fun i => i + rowCount) (mrow m1)),
         MRows (firstn rowCount rows) eof)
    | _ => (m1, e)
    end.

  (** rowGroupRows.Reset (row_group.go:243-251): every column seeks to row 0
      (errors ignored) and drops its page; buffers cleared; rowIndex = -1. *)
  Fixpoint reset_cols (ps : list P) (cs : list (colst C)) : list (colst C) :=
    match ps, cs with
    | p :: ps', c :: cs' => cmk (fst (cstep p (ccur c) (SeekToRow 0))) 0 0 :: reset_cols ps' cs'
    | _, _ => clear_cols cs
    end.

  Definition mr_reset (ps : list P) (m : mstate C) : mstate C * mout :=
    (mmk (reset_cols ps (mcols m)) None, MDone).

  Definition mr_step (ps : list P) (m : mstate C) (o : rop) : mstate C * mout :=
    match o with
    | RRead n => mr_read ps m n
    | RSeek k => mr_seek ps m k
    | RReset => mr_reset ps m
    end.
End MultiColumn.
Arguments minit {C P}.
Arguments seek_cols {C P}.
Arguments clear_cols {C}.
Arguments mr_seek {C P}.
Arguments read_cols {C P}.
Arguments mr_read {C P}.
Arguments reset_cols {C P}.
Arguments mr_reset {C P}.
Arguments mr_step {C P}.

(** Specification: one row position over [N] rows; every assembled row holds
    its own number once per column.  [strict]: a table without rows rejects
    every seek but 0 (FilePages with an offset index on a chunk without
    pages). *)
Definition mspec_step (strict : bool) (ncols N pos : nat) (o : rop) : nat * mout :=
  match o with
  | RSeek k =>
      if (0 <? N) || (k =? 0) || negb strict then (k, MSeekOk) else (pos, MOutOfRange)
  | RRead n =>
      let left := N - pos in
      let cnt := Nat.min n left in
      (pos + cnt, MRows (map (fun i => repeat i ncols) (seq pos cnt)) ((0 <? n) && (left <=? n)))
  | RReset => (0, MDone)
  end.

Definition run_mspec (strict : bool) (ncols N : nat) (ops : list rop) : list mout :=
  run (mspec_step strict ncols N) 0 ops.

(** * multiPages (multi_row_group.go:504-570)

    [mp_pages]: m.pages, the page cursor of the chunk being read ([None] =
    nil); [mp_index]: m.index, the number of chunks opened so far: the open
    chunk is number [mp_index - 1].  Every chunk is opened afresh
    (chunks[i].Pages()).  The rows of chunk [j] are numbered from
    [mp_offset chunks j] in the outputs.  rowCounts[j] (the num_rows of row
    group [j]) is the number of rows of the pages of chunk [j]. *)
Record mpstate := mpmk { mp_pages : option state; mp_index : nat }.

Definition mpinit : mpstate := mpmk None 0.

Fixpoint mp_offset (chunks : list chunk) (j : nat) : nat :=
  match j, chunks with
  | S j', c :: rest => total_rows c + mp_offset rest j'
  | _, _ => 0
  end.

Definition shift_out (off : nat) (o : out) : out :=
  match o with Rows f c => Rows (off + f) c | _ => o end.

Section MultiPages.
  (* the page cursor of one chunk: step_indexed or step_noindex false *)
  Variable cstep : chunk -> state -> op -> state * out.

  (** multiPages.ReadPage: one unit of fuel per iteration of the [for]. *)
  Fixpoint mp_read (fuel : nat) (chunks : list chunk) (m : mpstate) : mpstate * out :=
    match fuel with
    | O => (m, EOF)
    | S f =>
        let '(m1, r) :=
          match mp_pages m with
          | Some c =>
              let j := mp_index m - 1 in
              match cstep (nth j chunks []) c ReadPage with
              | (_, EOF) => (mpmk None (mp_index m), None)       (* m.pages.Close(); m.pages = nil *)
              | (c', o) => (mpmk (Some c') (mp_index m), Some (shift_out (mp_offset chunks j) o))
              end
          | None => (m, None)
          end in
        match r with
        | Some o => (m1, o)
        | None =>
            if mp_index m1 =? length chunks then (m1, EOF)
            else mp_read f chunks (mpmk (Some init) (S (mp_index m1)))
        end
    end.

  (** The loop of multiPages.SeekToRow (549-562): the first chunk that holds
      the row, and the row number within it. *)
  Fixpoint mp_locate (counts : list nat) (idx k : nat) : nat * nat :=
    match counts with
    | [] => (idx, k)
    | n :: rest => if k <? n then (idx, k) else mp_locate rest (S idx) (k - n)
    end.

  Definition mp_seek (chunks : list chunk) (m : mpstate) (k : nat) : mpstate * out :=
    let '(idx, k') := mp_locate (map total_rows chunks) 0 k in
    if idx <? length chunks then
      let '(c', r) := cstep (nth idx chunks []) init (SeekToRow k') in
      (mpmk (Some c') (S idx), r)
    else (mpmk None idx, SeekOk).

  Definition mp_step (chunks : list chunk) (m : mpstate) (o : op) : mpstate * out :=
    match o with
    | ReadPage => mp_read (S (length chunks)) chunks m
    | SeekToRow k => mp_seek chunks m k
    end.
End MultiPages.

Definition run_mpages_indexed (chunks : list chunk) (ops : list op) : list out :=
  run (mp_step step_indexed chunks) mpinit ops.
Definition run_mpages_noindex (chunks : list chunk) (ops : list op) : list out :=
  run (mp_step (step_noindex false) chunks) mpinit ops.

(** * reader, Reader, GenericReader (reader.go)

    [M]: the state of the rows of the row group (rowGroup.Rows(), a
    rowGroupRows), [mstep] its operations, [mfresh] a new one. *)
Record rdstate (M : Type) := rdmk { rd_rows : option M; rd_index : nat }.
Arguments rdmk {M}.
Arguments rd_rows {M}.
Arguments rd_index {M}.

Record xstate (M : Type) := xmk { x_file : rdstate M; x_read : rdstate M; x_index : nat }.
Arguments xmk {M}.
Arguments x_file {M}.
Arguments x_read {M}.
Arguments x_index {M}.

(** ReadRows(n rows) | Reader.Read(one row) | GenericReader.Read(n rows) |
    SeekToRow | Reset *)
Inductive xop := XReadRows (n : nat) | XRead1 | XGRead (n : nat) | XSeek (k : nat) | XReset.

Section ReaderLayers.
  Variable M : Type.
  Variable mstep : M -> rop -> M * mout.
  Variable mfresh : M.

  (** reader.ReadRows (reader.go:524-539): the rows are created on the first
      call and positioned at r.rowIndex. *)
  Definition rd_read (r : rdstate M) (n : nat) : rdstate M * mout :=
    let '(m, e) :=
      match rd_rows r with
      | Some m => (m, MSeekOk)
      | None => if 0 <? rd_index r then mstep mfresh (RSeek (rd_index r)) else (mfresh, MSeekOk)
      end in
    match e with
    | MSeekOk =>
        let '(m', o) := mstep m (RRead n) in
        (rdmk (Some m') (rd_index r + mout_count o), o)
    | _ => (rdmk (Some m) (rd_index r), e)
    end.

  (** reader.SeekToRow (reader.go:541-554). *)
  Definition rd_seek (r : rdstate M) (k : nat) : rdstate M * mout :=
    if k =? rd_index r then (r, MSeekOk)
    else
      match rd_rows r with
      | Some m =>
          match mstep m (RSeek k) with
          | (m', MSeekOk) => (rdmk (Some m') k, MSeekOk)
          | (m', e) => (rdmk (Some m') (rd_index r), e)
          end
      | None => (rdmk None k, MSeekOk)
      end.

  (** reader.Reset (reader.go:502-522); rowGroupRows has a Reset method. *)
  Definition rd_reset (r : rdstate M) : rdstate M :=
    rdmk (option_map (fun m => fst (mstep m RReset)) (rd_rows r)) 0.

  Definition xinit : xstate M := xmk (rdmk None 0) (rdmk None 0) 0.

  (** Reader.ReadRows (reader.go:448-455). *)
  Definition x_readrows (x : xstate M) (n : nat) : xstate M * mout :=
    match rd_seek (x_file x) (x_index x) with
    | (f, MSeekOk) =>
        let '(f', o) := rd_read f n in
        (xmk f' (x_read x) (x_index x + mout_count o), o)
    | (f, e) => (xmk f (x_read x) (x_index x), e)
    end.

  (** Reader.SeekToRow (reader.go:464-470). *)
  Definition x_seek (x : xstate M) (k : nat) : xstate M * mout :=
    match rd_seek (x_file x) k with
    | (f, MSeekOk) => (xmk f (x_read x) k, MSeekOk)
    | (f, e) => (xmk f (x_read x) (x_index x), e)
    end.

  (** Reader.Reset (reader.go:383-388). *)
  Definition x_reset (x : xstate M) : xstate M * mout :=
    (xmk (rd_reset (x_file x)) (rd_reset (x_read x)) 0, MDone).

  (** Reader.Read (reader.go:394-423): one row through the second reader
      (r.read); the error of ReadRows is returned only when no row came back. *)
  Definition x_read1 (x : xstate M) : xstate M * mout :=
    match rd_seek (x_read x) (x_index x) with
    | (r, MSeekOk) =>
        let '(r', o) := rd_read r 1 in
        match o with
        | MRows (row :: _) _ => (xmk (x_file x) r' (S (x_index x)), MRows [row] false)
        | _ => (xmk (x_file x) r' (x_index x), o)
        end
    | (r, e) => (xmk (x_file x) r (x_index x), e)
    end.

  (** GenericReader.readRows (reader.go:152-185): ReadRows until the request
      is filled, nothing comes back, or an error (io.EOF included). *)
  Fixpoint x_gread_loop (fuel : nat) (x : xstate M) (want : nat) (acc : list (list nat))
    : xstate M * mout :=
    match fuel with
    | O => (x, MRows acc false)
    | S f =>
        let '(x', o) := x_readrows x want in
        match o with
        | MRows rows eof =>
            if (length rows =? 0) || (length rows =? want) || eof then (x', MRows (acc ++ rows) eof)
            else x_gread_loop f x' (want - length rows) (acc ++ rows)
        | e => (x', e)
        end
    end.

  Definition x_step (x : xstate M) (o : xop) : xstate M * mout :=
    match o with
    | XReadRows n => x_readrows x n
    | XRead1 => x_read1 x
    | XGRead n => x_gread_loop (S n) x n []
    | XSeek k => x_seek x k
    | XReset => x_reset x
    end.
End ReaderLayers.
Arguments rd_read {M}.
Arguments rd_seek {M}.
Arguments rd_reset {M}.
Arguments xinit {M}.
Arguments x_readrows {M}.
Arguments x_seek {M}.
Arguments x_reset {M}.
Arguments x_read1 {M}.
Arguments x_gread_loop {M}.
Arguments x_step {M}.

Definition xspec_step (ncols N pos : nat) (o : xop) : nat * mout :=
  match o with
  | XReadRows n | XGRead n => mspec_step false ncols N pos (RRead n)
  | XRead1 => if pos <? N then (S pos, MRows [repeat pos ncols] false) else (pos, MRows [] true)
  | XSeek k => (k, MSeekOk)
  | XReset => (0, MDone)
  end.

Definition run_xspec (ncols N : nat) (ops : list xop) : list mout :=
  run (xspec_step ncols N) 0 ops.

(** * The machines of the current code *)

Definition page_fuel (pg : chunk) : nat := S (length pg).
Definition chunks_fuel (chunks : list chunk) : nat := S (length (concat chunks)).

(** RowGroup.Rows() of a file row group: one FilePages per column;
    [cols]: the page layout of every column chunk. *)
Definition mrows_step_indexed (stale : bool) (cols : list chunk) :=
  mr_step step_indexed page_fuel stale cols.
Definition mrows_step_noindex (stale : bool) (cols : list chunk) :=
  mr_step (step_noindex false) page_fuel stale cols.

Definition run_mrows_indexed (cols : list chunk) (ops : list rop) : list mout :=
  run (mrows_step_indexed false cols) (minit init cols) ops.
Definition run_mrows_noindex (cols : list chunk) (ops : list rop) : list mout :=
  run (mrows_step_noindex false cols) (minit init cols) ops.
(* the seeded defect: rowIndex left stale on io.EOF *)
Definition run_mrows_indexed_stale (cols : list chunk) (ops : list rop) : list mout :=
  run (mrows_step_indexed true cols) (minit init cols) ops.

(** Rows of a multiRowGroup: one multiPages per column; [cols]: for every
    column, the page layout of its chunk in every row group. *)
Definition mgrows_step_indexed (cols : list (list chunk)) :=
  mr_step (mp_step step_indexed) chunks_fuel false cols.
Definition mgrows_step_noindex (cols : list (list chunk)) :=
  mr_step (mp_step (step_noindex false)) chunks_fuel false cols.

Definition run_mgrows_indexed (cols : list (list chunk)) (ops : list rop) : list mout :=
  run (mgrows_step_indexed cols) (minit mpinit cols) ops.
Definition run_mgrows_noindex (cols : list (list chunk)) (ops : list rop) : list mout :=
  run (mgrows_step_noindex cols) (minit mpinit cols) ops.

(** Reader / GenericReader over a file with several row groups
    (fileRowGroupOf: MultiRowGroup) and over a file with one row group (the row
    group itself). *)
Definition run_reader_indexed (cols : list (list chunk)) (ops : list xop) : list mout :=
  run (x_step (mgrows_step_indexed cols) (minit mpinit cols)) xinit ops.
Definition run_reader_noindex (cols : list (list chunk)) (ops : list xop) : list mout :=
  run (x_step (mgrows_step_noindex cols) (minit mpinit cols)) xinit ops.
Definition run_reader1_indexed (cols : list chunk) (ops : list xop) : list mout :=
  run (x_step (mrows_step_indexed false cols) (minit init cols)) xinit ops.
Definition run_reader1_noindex (cols : list chunk) (ops : list xop) : list mout :=
  run (x_step (mrows_step_noindex false cols) (minit init cols)) xinit ops.
