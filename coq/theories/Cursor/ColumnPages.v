(** Model of the page reader of a column of a file, Column.Pages() /
    PagesFrom (column.go: type columnPages, ReadPage, SeekToRow): one
    FilePages per row group, all created at once and kept for the life of the
    reader, and the index of the row group being read.  Unlike multiPages
    (Cursor/Multi.v), which opens the chunk it needs afresh, a row group that
    has been read from stays where the reads left it until a SeekToRow rewinds
    it.  Executable, no proofs (Cursor/ColumnPagesProofs.v). *)
From Coq Require Import List Arith Bool.
From PQ Require Import Cursor.Model Cursor.Multi.
Import ListNotations.

(** [cp_pages]: c.pages, the page cursor of the chunk of the column in every
    row group; [cp_index]: c.index.  The rows of chunk [j] are numbered from
    [mp_offset chunks j] in the outputs.  rowGroup.NumRows of row group [j] is
    the number of rows of the pages of chunk [j]. *)
Record cpstate := cpmk { cp_pages : list state; cp_index : nat }.

(* PagesFrom: r.pages[i].init(...) for every row group *)
Definition cpinit (chunks : list chunk) : cpstate := cpmk (map (fun _ => init) chunks) 0.

Fixpoint set_nth {A : Type} (l : list A) (i : nat) (x : A) : list A :=
  match l, i with
  | [], _ => []
  | _ :: rest, O => x :: rest
  | y :: rest, S i' => y :: set_nth rest i' x
  end.

Section ColumnPages.
  (* the page cursor of one chunk: step_indexed or step_noindex false *)
  Variable cstep : chunk -> state -> op -> state * out.

  (** columnPages.ReadPage (column.go:119-131): one unit of fuel per
      iteration of the [for]. *)
  Fixpoint cp_read (fuel : nat) (chunks : list chunk) (m : cpstate) : cpstate * out :=
    match fuel with
    | O => (m, EOF)
    | S f =>
        let j := cp_index m in
        if length (cp_pages m) <=? j then (m, EOF)
        else
          match cstep (nth j chunks []) (nth j (cp_pages m) init) ReadPage with
          | (c', EOF) => cp_read f chunks (cpmk (set_nth (cp_pages m) j c') (S j))
          | (c', o) => (cpmk (set_nth (cp_pages m) j c') j, shift_out (mp_offset chunks j) o)
          end
    end.

  (** The first loop of SeekToRow (136-139):
      [for c.index < len(c.pages) && NumRows < rowIndex]: the comparison is
      strict, a seek to the number of rows of a row group stops at its end. *)
  Fixpoint cp_locate (counts : list nat) (idx k : nat) : nat * nat :=
    match counts with
    | [] => (idx, k)
    | n :: rest => if n <? k then cp_locate rest (S idx) (k - n) else (idx, k)
    end.

  (** [for i := c.index + 1; i < len(c.pages); i++ { p.SeekToRow(0) }]
      (145-150) over the first [n] of the row groups that follow the target;
      stops at the first error. *)
  Fixpoint cp_rewind (n : nat) (chunks : list chunk) (cs : list state) : list state * out :=
    match n, chunks, cs with
    | S n', pg :: chunks', c :: cs' =>
        match cstep pg c (SeekToRow 0) with
        | (c', SeekOk) => let '(cs2, r) := cp_rewind n' chunks' cs' in (c' :: cs2, r)
        | (c', r) => (c' :: cs', r)
        end
    | _, _, _ => (cs, SeekOk)
    end.

  (** columnPages.SeekToRow (133-153).  [upto_last = false] is the code: every
      row group after the target is rewound.  [upto_last = true] is the seeded
      defect class: only the row groups strictly between the target and the one
      that was being read are rewound. *)
  Definition cp_seek (upto_last : bool) (chunks : list chunk) (m : cpstate) (k : nat) : cpstate * out :=
    let '(idx, k') := cp_locate (map total_rows chunks) 0 k in
    if idx <? length (cp_pages m) then
      match cstep (nth idx chunks []) (nth idx (cp_pages m) init) (SeekToRow k') with
      | (c', SeekOk) =>
          let n := if upto_last then cp_index m - S idx else length chunks in
          let '(tl, r) := cp_rewind n (skipn (S idx) chunks) (skipn (S idx) (cp_pages m)) in
          (cpmk (firstn idx (cp_pages m) ++ c' :: tl) idx, r)
      | (c', r) => (cpmk (set_nth (cp_pages m) idx c') idx, r)
      end
    else (cpmk (cp_pages m) idx, SeekOk).

  Definition cp_step (upto_last : bool) (chunks : list chunk) (m : cpstate) (o : op) : cpstate * out :=
    match o with
    | ReadPage => cp_read (S (length chunks)) chunks m
    | SeekToRow k => cp_seek upto_last chunks m k
    end.
End ColumnPages.

Definition run_cpages_indexed (chunks : list chunk) (ops : list op) : list out :=
  run (cp_step step_indexed false chunks) (cpinit chunks) ops.
Definition run_cpages_noindex (chunks : list chunk) (ops : list op) : list out :=
  run (cp_step (step_noindex false) false chunks) (cpinit chunks) ops.
(* the seeded variant: the row group that was being read is not rewound *)
Definition run_cpages_upto_last (chunks : list chunk) (ops : list op) : list out :=
  run (cp_step step_indexed true chunks) (cpinit chunks) ops.
