(** parquet.CopyRows (row.go: copyRows) over a row reader, as an operation of
    the histories of the reader.

    Without a shortcut at either end (the reader is no RowWriterTo, the
    destination no RowReaderFrom) copyRows is the loop

      for { rn, err := src.ReadRows(buf)          // len(buf) = defaultRowBufferSize = 42
            if rn > 0 { dst.WriteRows(buf[:rn]) }
            if err != nil { if err == io.EOF { err = nil }; return written, err }
            if rn == 0 { return written, io.ErrNoProgress } }

    Writer.ReadRowsFrom (writer.go) is the same loop with the row buffer of
    the writer (42 rows).  The shortcuts of the readers (rowBufferRows.WriteRowsTo,
    row_buffer.go) must be indistinguishable from the loop: the harness
    compares them with this model too.

    The loop is defined over the RUN FUNCTION of a reader model ([run ops] =
    the outputs of the history [ops] from the initial state), so that it
    applies to every reader model of Cursor/Multi.v and every theorem of the
    form [forall ops, run_model ops = run_spec ops] carries over to histories
    with copies (Cursor/CopyProofs.v).

    Executable, no proofs. *)
From Coq Require Import List Arith Bool.
From PQ Require Import Cursor.Model Cursor.Multi.
Import ListNotations.

(* row.go:11 defaultRowBufferSize *)
Definition copy_batch : nat := 42.

(** An operation of a history with copies: an operation of the reader, or
    CopyRows(dst, reader). *)
Inductive kop (A : Type) := KOp (o : A) | KCopy.
Arguments KOp {A}.
Arguments KCopy {A}.

Section Copy.
  Variable A : Type.
  Variable read : nat -> A.                 (* ReadRows(n) of the reader *)
  Variable run : list A -> list mout.

  (* the output of the last operation of a history *)
  Definition last_out (ops : list A) : mout := List.last (run ops) MDone.

  (** copyRows after the history [pre]; [acc]: the rows handed to the
      destination so far.  Returns the history made and the batch of the whole
      copy: all the rows written and whether the copy ended on io.EOF
      ([false]: io.ErrNoProgress, another error, or out of fuel). *)
  Fixpoint copy_loop (fuel : nat) (pre : list A) (acc : list (list nat)) : list A * mout :=
    match fuel with
    | O => (pre, MRows acc false)
    | S f =>
        let pre' := pre ++ [read copy_batch] in
        match last_out pre' with
        | MRows rows eof =>
            if eof then (pre', MRows (acc ++ rows) true)
            else match rows with
                 | [] => (pre', MRows acc false)
                 | _ => copy_loop f pre' (acc ++ rows)
                 end
        | _ => (pre', MRows acc false)
        end
    end.

  (** A history with copies, after the history [pre] of plain operations. *)
  Fixpoint run_k (fuel : nat) (pre : list A) (ops : list (kop A)) : list mout :=
    match ops with
    | [] => []
    | KOp o :: rest => last_out (pre ++ [o]) :: run_k fuel (pre ++ [o]) rest
    | KCopy :: rest =>
        let '(pre', out) := copy_loop fuel pre [] in
        out :: run_k fuel pre' rest
    end.
End Copy.
Arguments last_out {A}.
Arguments copy_loop {A}.
Arguments run_k {A}.

(** The reader models of Cursor/Multi.v with copies in their histories. *)
Definition run_mrows_indexed_k (cols : list chunk) fuel ops := run_k RRead (run_mrows_indexed cols) fuel [] ops.
Definition run_mrows_noindex_k (cols : list chunk) fuel ops := run_k RRead (run_mrows_noindex cols) fuel [] ops.
Definition run_mgrows_indexed_k (cols : list (list chunk)) fuel ops := run_k RRead (run_mgrows_indexed cols) fuel [] ops.
Definition run_mgrows_noindex_k (cols : list (list chunk)) fuel ops := run_k RRead (run_mgrows_noindex cols) fuel [] ops.
Definition run_mspec_k (strict : bool) (ncols N : nat) fuel ops := run_k RRead (run_mspec strict ncols N) fuel [] ops.
Definition run_reader_indexed_k (cols : list (list chunk)) fuel ops := run_k XReadRows (run_reader_indexed cols) fuel [] ops.
Definition run_reader_noindex_k (cols : list (list chunk)) fuel ops := run_k XReadRows (run_reader_noindex cols) fuel [] ops.
Definition run_reader1_indexed_k (cols : list chunk) fuel ops := run_k XReadRows (run_reader1_indexed cols) fuel [] ops.
Definition run_reader1_noindex_k (cols : list chunk) fuel ops := run_k XReadRows (run_reader1_noindex cols) fuel [] ops.
Definition run_xspec_k (ncols N : nat) fuel ops := run_k XReadRows (run_xspec ncols N) fuel [] ops.
(* GenericReader.ReadRows is ReadRows of the reader underneath; GenericReader.Read is XGRead *)
