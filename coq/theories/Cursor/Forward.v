(** Models of the row readers that seek forward only, by reading and dropping
    rows of the reader underneath:

      forwardRowSeeker            row.go    (behind ConvertRowReader)
      mergedRowGroupRows          merge.go  (Rows() of a merged row group)
      concatenatingRowsWrapper    merge.go  (Rows() of sorted segments and of
                                             deduplicated row groups)

    The reader underneath delivers the rows 0 .. N-1 in order and may cut
    every batch short: its c-th call returns at most [pol c] rows (0: no cap),
    and it reports io.EOF either together with the last rows or on the call
    after them.  A row is its number; a batch is (first row, count).
    Executable, no proofs (Cursor/ForwardProofs.v). *)
From Coq Require Import List Arith Bool.
Import ListNotations.

(** ** The reader underneath *)

Record under := mkU { upos : nat; ucalls : nat }.

Definition u0 : under := mkU 0 0.

Definition capped (cap n : nat) : nat := if cap =? 0 then n else Nat.min cap n.

(** ReadRows(rows[:n]): (count, err == io.EOF, state); the rows are
    [upos, upos + count). *)
Definition under_read (N : nat) (eofl : bool) (pol : nat -> nat) (u : under) (n : nat)
  : nat * bool * under :=
  if N <=? upos u then (0, true, mkU (upos u) (S (ucalls u)))
  else
    let c := Nat.min (capped (pol (ucalls u)) n) (N - upos u) in
    (c, eofl && (upos u + c =? N) && (0 <? c), mkU (upos u + c) (S (ucalls u))).

(** ** Operations and outputs *)

Inductive fop := FRead (n : nat) | FSeek (k : nat).

Inductive fout :=
| FRows (first count : nat) (eof : bool)   (* ReadRows: rows, err == io.EOF *)
| FSeekOk
| FRefused                                 (* SeekToRow: cannot seek backward *)
| FSeekEOF.                                (* SeekToRow returned io.EOF *)

(** ** forwardRowSeeker (row.go) *)

Record fws := mkF { f_u : under; f_seek : nat; f_index : nat }.

(** ReadRows: one unit of fuel per iteration of the [for]. *)
Fixpoint fws_read (fuel N : nat) (eofl : bool) (pol : nat -> nat) (s : fws) (n : nat)
  : fout * fws :=
  match fuel with
  | O => (FRows 0 0 false, s)
  | S fuel' =>
      (* n, err := r.rows.ReadRows(rows); index := r.index; r.index += n *)
      let '(c, eof, u') := under_read N eofl pol (f_u s) n in
      let index := f_index s in
      let s' := mkF u' (f_seek s) (index + c) in
      if (0 <? c) && (index <? f_seek s) then
        let skip := f_seek s - index in
        if c <=? skip then
          (* if err != nil { return 0, err }; continue *)
          if eof then (FRows 0 0 true, s') else fws_read fuel' N eofl pol s' n
        else
          (* the rows after the seek position are moved to the front *)
          (FRows (index + skip) (c - skip) eof, s')
      else (FRows index c eof, s')
  end.

Definition fws_seek (s : fws) (k : nat) : fout * fws :=
  if f_index s <=? k then (FSeekOk, mkF (f_u s) k (f_index s)) else (FRefused, s).

Definition fws_step (N : nat) (eofl : bool) (pol : nat -> nat) (s : fws) (o : fop) : fout * fws :=
  match o with
  | FRead n => fws_read (S (S N)) N eofl pol s n
  | FSeek k => fws_seek s k
  end.

(** ** mergedRowGroupRows (merge.go) *)

Record lzs := mkL { l_u : under; l_index : nat; l_seek : nat }.

(** [for r.rowIndex < r.seekToRow]: (false, _) = the loop returned (0, err);
    the rows it read are counted either way. *)
Fixpoint lz_skip (fuel N : nat) (eofl : bool) (pol : nat -> nat) (s : lzs) (n : nat)
  : bool * lzs :=
  match fuel with
  | O => (true, s)
  | S fuel' =>
      if l_index s <? l_seek s then
        let k := Nat.min (l_seek s - l_index s) n in
        let '(c, eof, u') := under_read N eofl pol (l_u s) k in
        let s' := mkL u' (l_index s + c) (l_seek s) in
        if eof then (false, s') else lz_skip fuel' N eofl pol s' n
      else (true, s)
  end.

Definition lz_read_fuel (fuel N : nat) (eofl : bool) (pol : nat -> nat) (s : lzs) (n : nat)
  : fout * lzs :=
  if n =? 0 then (FRows 0 0 false, s)
  else
    match lz_skip fuel N eofl pol s n with
    | (false, s1) => (FRows 0 0 true, s1)
    | (true, s1) =>
        let '(c, eof, u') := under_read N eofl pol (l_u s1) n in
        (FRows (l_index s1) c eof, mkL u' (l_index s1 + c) (l_seek s1))
    end.

Definition lz_read (N : nat) := lz_read_fuel (S (S N)) N.

Definition lz_seek (s : lzs) (k : nat) : fout * lzs :=
  if l_index s <=? k then (FSeekOk, mkL (l_u s) (l_index s) k) else (FRefused, s).

Definition lz_step (N : nat) (eofl : bool) (pol : nat -> nat) (s : lzs) (o : fop) : fout * lzs :=
  match o with
  | FRead n => lz_read N eofl pol s n
  | FSeek k => lz_seek s k
  end.

(** ** concatenatingRowsWrapper (merge.go) *)

Record egs := mkE { e_u : under; e_index : nat }.

Definition eg_read (N : nat) (eofl : bool) (pol : nat -> nat) (s : egs) (n : nat) : fout * egs :=
  let '(c, eof, u') := under_read N eofl pol (e_u s) n in
  (FRows (e_index s) c eof, mkE u' (e_index s + c)).

(** [for c.rowIndex < rowIndex], 64 rows at a time *)
Fixpoint eg_seek_loop (fuel N : nat) (eofl : bool) (pol : nat -> nat) (s : egs) (k : nat)
  : fout * egs :=
  match fuel with
  | O => (FSeekOk, s)
  | S fuel' =>
      if e_index s <? k then
        let m := Nat.min (k - e_index s) 64 in
        let '(c, eof, u') := under_read N eofl pol (e_u s) m in
        let s' := mkE u' (e_index s + c) in
        if eof then (FSeekEOF, s') else eg_seek_loop fuel' N eofl pol s' k
      else (FSeekOk, s)
  end.

Definition eg_seek (N : nat) (eofl : bool) (pol : nat -> nat) (s : egs) (k : nat) : fout * egs :=
  if k <? e_index s then (FRefused, s) else eg_seek_loop (S (S N)) N eofl pol s k.

Definition eg_step (N : nat) (eofl : bool) (pol : nat -> nat) (s : egs) (o : fop) : fout * egs :=
  match o with
  | FRead n => eg_read N eofl pol s n
  | FSeek k => eg_seek N eofl pol s k
  end.

(** ** Histories *)

Fixpoint run_gen {S : Type} (step : S -> fop -> fout * S) (s : S) (ops : list fop) : list fout :=
  match ops with
  | [] => []
  | o :: rest => let '(out, s') := step s o in out :: run_gen step s' rest
  end.

Definition run_fws N eofl pol := run_gen (fws_step N eofl pol) (mkF u0 0 0).
Definition run_lz N eofl pol := run_gen (lz_step N eofl pol) (mkL u0 0 0).
Definition run_eg N eofl pol := run_gen (eg_step N eofl pol) (mkE u0 0).

(** The variant of mergedRowGroupRows.ReadRows that drops at most one batch
    ([if] instead of [for]): kept to show what the loop is for. *)
Definition run_lz_once N eofl pol :=
  run_gen (fun s o => match o with FRead n => lz_read_fuel 1 N eofl pol s n | FSeek k => lz_seek s k end)
          (mkL u0 0 0).

(** the cap of the c-th call under a cycle of caps *)
Definition cycle (caps : list nat) (c : nat) : nat :=
  match caps with
  | [] => 0
  | _ => nth (c mod length caps) caps 0
  end.

(** ** The specification: one row position *)

(** [sound N pos ops outs]: read from position [pos] on, every batch starts at
    the position and stays within the N rows, a read of n > 0 rows makes
    progress unless the position is at or past the end (and then says io.EOF),
    io.EOF comes only with or after the last row; a seek that succeeds sets
    the position, one that is refused was a seek backward, one that failed
    with io.EOF was a seek to the end or beyond and leaves the reader at the
    end. *)
Fixpoint sound (N pos : nat) (ops : list fop) (outs : list fout) : Prop :=
  match ops, outs with
  | [], [] => True
  | FRead n :: ops', FRows f c e :: outs' =>
      c <= n /\
      (0 < c -> f = pos /\ pos + c <= N) /\
      (c = 0 -> n = 0 \/ (e = true /\ N <= pos)) /\
      (e = true -> N <= pos + c) /\
      sound N (pos + c) ops' outs'
  | FSeek k :: ops', FSeekOk :: outs' => sound N k ops' outs'
  | FSeek k :: ops', FRefused :: outs' => k < pos /\ sound N pos ops' outs'
  | FSeek k :: ops', FSeekEOF :: outs' => N <= k /\ pos <= N /\ sound N N ops' outs'
  | _, _ => False
  end.
