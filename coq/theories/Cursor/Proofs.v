(** Proofs about the page cursor model: the concrete machines refine the
    row-position specification, for every chunk layout and every history. *)
From Coq Require Import List Arith Bool Lia.
From PQ Require Import Cursor.Model Cursor.Spec.
Import ListNotations.

Definition positive (pages : chunk) : Prop := Forall (fun c => 0 < c) pages.

(** * first_row, page_end *)

Lemma first_row_nil : forall i, first_row [] i = 0.
Proof. destruct i; reflexivity. Qed.

Lemma first_row_0 : forall pages, first_row pages 0 = 0.
Proof. destruct pages; reflexivity. Qed.

Lemma first_row_S : forall pages i c,
  nth_error pages i = Some c -> first_row pages (S i) = first_row pages i + c.
Proof.
  induction pages as [|d rest IH]; intros i c H.
  - destruct i; discriminate.
  - destruct i as [|i]; cbn in H.
    + inversion H; subst. cbn [first_row]. rewrite first_row_0. lia.
    + cbn [first_row]. rewrite (IH i c H). cbn [first_row]. lia.
Qed.

Lemma first_row_beyond : forall pages i,
  length pages <= i -> first_row pages i = total_rows pages.
Proof.
  unfold total_rows. induction pages as [|d rest IH]; intros i H.
  - now rewrite first_row_nil.
  - destruct i as [|i]; cbn in H; [lia|]. cbn [first_row length]. rewrite (IH i); lia.
Qed.

Lemma first_row_le_total : forall pages i, first_row pages i <= total_rows pages.
Proof.
  unfold total_rows. induction pages as [|d rest IH]; intros i.
  - rewrite first_row_nil. lia.
  - destruct i as [|i]; cbn [first_row length]; [lia|]. specialize (IH i). lia.
Qed.

Lemma nth_error_positive : forall pages i c,
  positive pages -> nth_error pages i = Some c -> 0 < c.
Proof.
  intros pages i c Hp H. apply nth_error_In in H.
  unfold positive in Hp. rewrite Forall_forall in Hp. now apply Hp.
Qed.

Lemma page_end_in : forall rest base pos i c,
  nth_error rest i = Some c ->
  base + first_row rest i <= pos -> pos < base + first_row rest i + c ->
  page_end rest base pos = Some (base + first_row rest i + c).
Proof.
  induction rest as [|d rest IH]; intros base pos i c Hn Hlo Hhi.
  - destruct i; discriminate.
  - destruct i as [|i]; cbn in Hn.
    + inversion Hn; subst. cbn [first_row page_end] in *.
      destruct (Nat.ltb_spec pos (base + c)); [f_equal; lia|lia].
    + cbn [first_row] in *. cbn [page_end].
      replace (pos <? base + d) with false by (symmetry; apply Nat.ltb_ge; lia).
      rewrite (IH (base + d) pos i c Hn); [f_equal|..]; lia.
Qed.

Lemma page_end_beyond : forall rest base pos,
  base + total_rows rest <= pos -> page_end rest base pos = None.
Proof.
  unfold total_rows. induction rest as [|d rest IH]; intros base pos H; [reflexivity|].
  cbn [first_row length] in H. cbn [page_end].
  replace (pos <? base + d) with false by (symmetry; apply Nat.ltb_ge; lia).
  apply IH. lia.
Qed.

Lemma page_end_bounds : forall rest base pos e,
  page_end rest base pos = Some e -> pos < e /\ e <= base + total_rows rest.
Proof.
  unfold total_rows. induction rest as [|d rest IH]; intros base pos e H; [discriminate|].
  cbn [page_end] in H. cbn [first_row length].
  destruct (pos <? base + d) eqn:E.
  - inversion H; subst. apply Nat.ltb_lt in E. lia.
  - apply IH in H. lia.
Qed.

Lemma page_end_none : forall rest base pos,
  page_end rest base pos = None -> base <= pos -> base + total_rows rest <= pos.
Proof.
  unfold total_rows. induction rest as [|d rest IH]; intros base pos H Hb.
  - cbn. lia.
  - cbn [page_end] in H. cbn [first_row length].
    destruct (pos <? base + d) eqn:E; [discriminate|]. apply Nat.ltb_ge in E.
    specialize (IH (base + d) pos H E). lia.
Qed.

(** * The read loop *)

Lemma read_loop_spec : forall pages, positive pages ->
  forall fuel s s' o,
  length pages - stream s < fuel ->
  read_loop pages fuel s = (s', o) ->
  let pos := first_row pages (stream s) + skip s in
  serve_last s' = serve_last s /\
  index s' + stream s = stream s' + index s /\
  (last s' = last s \/
   exists d, last s' = Some (index s + d, stream s + d) /\ stream s + d < length pages) /\
  match page_end pages 0 pos with
  | Some e => o = Rows pos (e - pos) /\ first_row pages (stream s') = e /\ skip s' = 0
  | None => o = EOF /\ first_row pages (stream s') + skip s' = pos
  end.
Proof.
  intros pages Hp. induction fuel as [|fuel IH]; intros s s' o Hf H; [lia|].
  cbn [read_loop] in H.
  destruct (nth_error pages (stream s)) as [numRows|] eqn:En.
  - assert (Hlt : stream s < length pages) by (apply nth_error_Some; congruence).
    pose proof (nth_error_positive _ _ _ Hp En) as Hc.
    pose proof (first_row_S _ _ _ En) as HS.
    destruct (skip s =? 0) eqn:E0.
    + apply Nat.eqb_eq in E0. inversion H; subst s' o; clear H. cbn.
      repeat split; try lia.
      * right. exists 0. rewrite !Nat.add_0_r. split; [reflexivity|lia].
      * rewrite E0, Nat.add_0_r.
        rewrite (page_end_in pages 0 (first_row pages (stream s)) (stream s) numRows En) by lia.
        cbn. repeat split; try lia. f_equal. lia.
    + apply Nat.eqb_neq in E0.
      destruct (numRows <=? skip s) eqn:E1.
      * apply Nat.leb_le in E1.
        apply IH in H; [|cbn; lia]. cbn in H.
        destruct H as (Hs & Hi & Hl & Hm).
        split; [exact Hs|]. split; [lia|]. split.
        -- destruct Hl as [Hl|(d & Hl & Hd)].
           ++ right. exists 0. rewrite !Nat.add_0_r. split; [exact Hl|lia].
           ++ right. exists (S d). rewrite <- !plus_n_Sm. split; [exact Hl|lia].
        -- replace (first_row pages (stream s) + skip s)
             with (first_row pages (S (stream s)) + (skip s - numRows)) by lia.
           exact Hm.
      * apply Nat.leb_gt in E1. inversion H; subst s' o; clear H. cbn.
        repeat split; try lia.
        -- right. exists 0. rewrite !Nat.add_0_r. split; [reflexivity|lia].
        -- rewrite (page_end_in pages 0 _ (stream s) numRows En) by lia.
           cbn. repeat split; try lia. f_equal. lia.
  - inversion H; subst s' o; clear H.
    apply nth_error_None in En.
    repeat split; try lia; [now left|].
    rewrite page_end_beyond; [split; reflexivity|].
    rewrite (first_row_beyond _ _ En). lia.
Qed.

(** * Invariants *)

(** Cursor with an offset index (current code): the page counter and the
    stream agree, the cached page is the one its index says, and a pending
    re-serve happens only right after that page. *)
Definition last_ok (pages : chunk) (l : option (nat * nat)) : Prop :=
  match l with Some (li, lp) => li = lp /\ lp < length pages | None => True end.

Definition inv_indexed (pages : chunk) (s : state) (pos : nat) : Prop :=
  index s = stream s /\ last_ok pages (last s) /\
  if serve_last s
  then exists l, last s = Some (l, l) /\ index s = S l /\ pos = first_row pages l + skip s
  else pos = first_row pages (stream s) + skip s.

(** Cursor without an offset index: only the stream and the skip count matter. *)
Definition inv_stream (pages : chunk) (s : state) (pos : nat) : Prop :=
  serve_last s = false /\ pos = first_row pages (stream s) + skip s.

Lemma inv_indexed_init : forall pages, inv_indexed pages init 0.
Proof. intros. unfold inv_indexed, init; cbn. repeat split. destruct pages; reflexivity. Qed.

Lemma inv_stream_init : forall pages, inv_stream pages init 0.
Proof. intros. unfold inv_stream, init; cbn. split; [reflexivity|]. destruct pages; reflexivity. Qed.

Lemma spec_read_eq : forall pages pos,
  spec_step pages pos ReadPage =
  match page_end pages 0 pos with Some e => (e, Rows pos (e - pos)) | None => (pos, EOF) end.
Proof. reflexivity. Qed.

Lemma read_page_stream : forall pages, positive pages ->
  forall s pos s' o, inv_stream pages s pos -> read_page pages s = (s', o) ->
  o = snd (spec_step pages pos ReadPage) /\
  inv_stream pages s' (fst (spec_step pages pos ReadPage)).
Proof.
  intros pages Hp s pos s' o (Hsv & Hpos) H.
  unfold read_page in H. rewrite Hsv in H.
  apply (read_loop_spec pages Hp) in H; [|lia].
  destruct H as (Hs & _ & _ & Hm). rewrite <- Hpos in Hm.
  rewrite spec_read_eq. unfold inv_stream.
  destruct (page_end pages 0 pos) as [e|]; cbn.
  - destruct Hm as (-> & He & Hk). repeat split; [congruence|lia].
  - destruct Hm as (-> & He). repeat split; [congruence|lia].
Qed.

Lemma read_page_indexed : forall pages, positive pages ->
  forall s pos s' o, inv_indexed pages s pos -> read_page pages s = (s', o) ->
  o = snd (spec_step pages pos ReadPage) /\
  inv_indexed pages s' (fst (spec_step pages pos ReadPage)).
Proof.
  intros pages Hp s pos s' o (Hix & Hl & Hpos) H.
  unfold read_page in H. rewrite spec_read_eq.
  (* what the loop guarantees from a state whose counters agree *)
  assert (Loop : forall t p t' o', index t = stream t -> last_ok pages (last t) ->
            serve_last t = false -> p = first_row pages (stream t) + skip t ->
            read_loop pages (S (length pages)) t = (t', o') ->
            o' = snd (match page_end pages 0 p with Some e => (e, Rows p (e - p)) | None => (p, EOF) end) /\
            inv_indexed pages t' (fst (match page_end pages 0 p with Some e => (e, Rows p (e - p)) | None => (p, EOF) end))).
  { intros t p t' o' Hi Hlo Hsv Hp' HL.
    apply (read_loop_spec pages Hp) in HL; [|lia].
    destruct HL as (Hs & Hi' & Hl' & Hm). rewrite <- Hp' in Hm.
    assert (Hlo' : last_ok pages (last t')).
    { destruct Hl' as [->|(d & -> & Hd)]; [exact Hlo|]. cbn. split; lia. }
    unfold inv_indexed. rewrite Hs, Hsv.
    destruct (page_end pages 0 p) as [e|]; cbn.
    - destruct Hm as (-> & He & Hk). repeat split; try assumption; lia.
    - destruct Hm as (-> & He). repeat split; try assumption; lia. }
  destruct (serve_last s) eqn:Esv.
  - destruct Hpos as (l & Hlast & Hidx & Hpos). rewrite Hlast in H, Hl.
    cbn in Hl. destruct Hl as (_ & Hlt).
    destruct (nth_error pages l) as [numRows|] eqn:En; [|apply nth_error_None in En; lia].
    rewrite (nth_error_nth _ _ 0 En) in H.
    pose proof (first_row_S _ _ _ En) as HS.
    destruct (skip s <? numRows) eqn:Ek.
    + apply Nat.ltb_lt in Ek. inversion H; subst s' o; clear H.
      rewrite (page_end_in pages 0 pos l numRows En) by lia. cbn.
      split; [f_equal; lia|].
      assert (Hst : stream s = S l) by lia.
      unfold inv_indexed; cbn. rewrite ?Hlast, Hst. cbn. repeat split; lia.
    + apply Nat.ltb_ge in Ek.
      assert (Hst : stream s = S l) by lia.
      apply (Loop _ pos) in H;
        [exact H|cbn; lia|cbn; rewrite ?Hlast; cbn; split; [reflexivity|lia]
        |reflexivity|cbn; rewrite Hst; lia].
  - destruct (last s) as [[li lp]|] eqn:El; apply (Loop _ pos) in H; auto; rewrite ?El; auto.
Qed.

(** * Seeking *)

Lemma search_gt_spec : forall rest base k t,
  search_gt rest base k = S t ->
  t < length rest /\ base + first_row rest t <= k.
Proof.
  induction rest as [|c rest IH]; intros base k t H; [discriminate|].
  cbn [search_gt] in H. destruct (k <? base) eqn:E; [discriminate|].
  apply Nat.ltb_ge in E. injection H as H.
  destruct (search_gt rest (base + c) k) as [|u] eqn:Eu.
  - subst t. cbn. split; lia.
  - subst t. apply IH in Eu. cbn [length first_row]. destruct Eu. split; lia.
Qed.

Lemma search_gt_nonzero : forall c rest k, search_gt (c :: rest) 0 k <> 0.
Proof. intros. cbn. discriminate. Qed.

Lemma seek_indexed_ok : forall pages s pos k s' o,
  inv_indexed pages s pos -> seek_indexed false pages s k = (s', o) ->
  o = snd (spec_step pages pos (SeekToRow k)) /\
  inv_indexed pages s' (fst (spec_step pages pos (SeekToRow k))).
Proof.
  intros pages s pos k s' o (Hix & Hl & Hpos) H.
  unfold seek_indexed in H. cbn [spec_step].
  destruct pages as [|c rest].
  - (* no page at all: nothing was ever cached *)
    assert (Hnone : last s = None).
    { destruct (last s) as [[li lp]|]; [cbn in Hl; lia|reflexivity]. }
    assert (Hsv : serve_last s = false).
    { destruct (serve_last s); [|reflexivity]. destruct Hpos as (l & Hc & _). congruence. }
    rewrite Hsv in Hpos.
    destruct (k =? 0) eqn:Ek; inversion H; subst s' o; clear H; cbn.
    + split; [reflexivity|].
      unfold inv_indexed; cbn [index stream skip last serve_last set_skip set_serve fst].
      rewrite Hnone. repeat split; try assumption. now rewrite first_row_nil.
    + split; [reflexivity|].
      unfold inv_indexed; cbn [index stream skip last serve_last set_skip set_serve fst].
      rewrite Hnone. repeat split; assumption.
  - remember (c :: rest) as pages eqn:Epages.
    destruct (search_gt pages 0 k) as [|target] eqn:Es.
    { subst pages. now apply search_gt_nonzero in Es. }
    apply search_gt_spec in Es. destruct Es as (Htl & Hle). cbn in Hle.
    rewrite Epages in H. rewrite <- Epages in H.
    cbn [set_serve set_skip index stream skip last serve_last] in H.
    destruct (last s) as [[li lp]|] eqn:El.
    + cbn in Hl. destruct Hl as (-> & Hlp).
      destruct ((target =? lp) && (false || (index s =? S lp))) eqn:Eb.
      * apply andb_true_iff in Eb. destruct Eb as (E1 & E2). cbn in E2.
        apply Nat.eqb_eq in E1. apply Nat.eqb_eq in E2. subst target.
        inversion H; subst s' o; clear H. split; [reflexivity|].
        unfold inv_indexed; cbn. rewrite El. cbn.
        repeat split; try assumption. exists lp. repeat split; [assumption|lia].
      * destruct (index s =? target) eqn:Et; inversion H; subst s' o; clear H.
        -- apply Nat.eqb_eq in Et. split; [reflexivity|].
           unfold inv_indexed; cbn. rewrite El; cbn. repeat split; try assumption.
           rewrite <- Hix, Et. lia.
        -- split; [reflexivity|]. unfold inv_indexed; cbn. repeat split; try assumption. lia.
    + destruct (index s =? target) eqn:Et; inversion H; subst s' o; clear H.
      * apply Nat.eqb_eq in Et. split; [reflexivity|].
        unfold inv_indexed; cbn. rewrite El; cbn. repeat split; try assumption.
        rewrite <- Hix, Et. lia.
      * split; [reflexivity|]. unfold inv_indexed; cbn. repeat split; try assumption. lia.
Qed.

Lemma seek_noindex_ok : forall dict pages s pos k s' o,
  seek_noindex dict s k = (s', o) ->
  o = snd (spec_step_noindex pages pos (SeekToRow k)) /\
  inv_stream pages s' (fst (spec_step_noindex pages pos (SeekToRow k))).
Proof.
  intros dict pages s pos k s' o H. unfold seek_noindex in H.
  inversion H; subst s' o; clear H. cbn. split; [reflexivity|].
  unfold inv_stream; cbn. split; [reflexivity|]. destruct pages; reflexivity.
Qed.

(** * Refinement, for every history *)

Lemma run_refines : forall (S O R P : Type) (step : S -> O -> S * R) (spec : P -> O -> P * R)
  (I : S -> P -> Prop),
  (forall s p o, I s p ->
     snd (step s o) = snd (spec p o) /\ I (fst (step s o)) (fst (spec p o))) ->
  forall ops s p, I s p -> run step s ops = run spec p ops.
Proof.
  intros S O R P step spec I Hstep. induction ops as [|o ops IH]; intros s p Hi; [reflexivity|].
  cbn [run]. destruct (Hstep s p o Hi) as (Ho & Hi').
  destruct (step s o) as [s' r]; destruct (spec p o) as [p' r']. cbn in *. subst r'.
  f_equal. now apply IH.
Qed.

Lemma step_indexed_refines : forall pages, positive pages ->
  forall s p o, inv_indexed pages s p ->
  snd (step_indexed pages s o) = snd (spec_step pages p o) /\
  inv_indexed pages (fst (step_indexed pages s o)) (fst (spec_step pages p o)).
Proof.
  intros pages Hp s p o Hi. destruct o as [|k]; cbn [step_indexed].
  - destruct (read_page pages s) as [s' r] eqn:E. cbn [fst snd].
    exact (read_page_indexed pages Hp s p s' r Hi E).
  - destruct (seek_indexed false pages s k) as [s' r] eqn:E. cbn [fst snd].
    exact (seek_indexed_ok pages s p k s' r Hi E).
Qed.

Lemma step_noindex_refines : forall dict pages, positive pages ->
  forall s p o, inv_stream pages s p ->
  snd (step_noindex dict pages s o) = snd (spec_step_noindex pages p o) /\
  inv_stream pages (fst (step_noindex dict pages s o)) (fst (spec_step_noindex pages p o)).
Proof.
  intros dict pages Hp s p o Hi. destruct o as [|k]; cbn [step_noindex].
  - destruct (read_page pages s) as [s' r] eqn:E. cbn [fst snd].
    exact (read_page_stream pages Hp s p s' r Hi E).
  - destruct (seek_noindex dict s k) as [s' r] eqn:E. cbn [fst snd].
    exact (seek_noindex_ok dict pages s p k s' r E).
Qed.

Theorem indexed_refines : forall pages ops, positive pages ->
  run_indexed pages ops = run_spec pages ops.
Proof.
  intros pages ops Hp. unfold run_indexed, run_spec.
  apply (run_refines _ _ _ _ _ _ (inv_indexed pages)).
  - intros. now apply step_indexed_refines.
  - apply inv_indexed_init.
Qed.

Theorem noindex_refines_gen : forall dict pages ops, positive pages ->
  run_noindex_pinned dict pages ops = run_spec_noindex pages ops.
Proof.
  intros dict pages ops Hp. unfold run_noindex_pinned, run_spec_noindex.
  apply (run_refines _ _ _ _ _ _ (inv_stream pages)).
  - intros. now apply step_noindex_refines.
  - apply inv_stream_init.
Qed.

Theorem noindex_refines : forall pages ops, positive pages ->
  run_noindex pages ops = run_spec_noindex pages ops.
Proof. intros. now apply (noindex_refines_gen false). Qed.

(** Lazily loaded index: correct because the index-less seek restarts the page
    counter at 0 (before 5c1fea6: only for a chunk without a dictionary page). *)
Lemma inv_indexed_stream : forall pages s p,
  inv_indexed pages s p -> serve_last s = false -> inv_stream pages s p.
Proof. intros pages s p (_ & _ & H) Hs. rewrite Hs in H. now split. Qed.

Definition inv_lazy (pages : chunk) (sl : state * bool) (pl : nat * bool) : Prop :=
  snd sl = snd pl /\ inv_indexed pages (fst sl) (fst pl) /\
  (snd sl = false -> serve_last (fst sl) = false).

Lemma step_lazy_refines : forall pages, positive pages ->
  forall sl pl o, inv_lazy pages sl pl ->
  snd (step_lazy false pages sl o) = snd (spec_step_lazy pages pl o) /\
  inv_lazy pages (fst (step_lazy false pages sl o)) (fst (spec_step_lazy pages pl o)).
Proof.
  intros pages Hp [s b] [p b'] o (Hb & Hi & Hsv). cbn in Hb, Hi, Hsv. subst b'.
  destruct o as [o|]; cbn [step_lazy spec_step_lazy].
  - destruct b.
    + destruct (step_indexed_refines pages Hp s p o Hi) as (Ho & Hi').
      destruct (step_indexed pages s o) as [s' r]; destruct (spec_step pages p o) as [p' r'].
      cbn [fst snd] in *. split; [assumption|]. unfold inv_lazy; cbn [fst snd].
      split; [reflexivity|split; [exact Hi'|discriminate]].
    + specialize (Hsv eq_refl).
      destruct o as [|k]; cbn [step_noindex spec_step_noindex].
      * (* ReadPage: same function in both modes *)
        destruct (step_indexed_refines pages Hp s p ReadPage Hi) as (Ho & Hi').
        cbn [step_indexed] in Ho, Hi'.
        destruct (read_page pages s) as [s' r] eqn:E.
        destruct (spec_step pages p ReadPage) as [p' r'].
        cbn [fst snd] in *. split; [assumption|]. unfold inv_lazy; cbn [fst snd].
        split; [reflexivity|split; [exact Hi'|]].
        intros _. unfold read_page in E. rewrite Hsv in E.
        apply (read_loop_spec pages Hp) in E; [|lia]. destruct E as (E & _). congruence.
      * cbn [seek_noindex fst snd]. split; [reflexivity|].
        unfold inv_lazy, inv_indexed; cbn [fst snd index stream skip last serve_last].
        destruct Hi as (_ & Hl & _).
        split; [reflexivity|split; [split; [reflexivity|split; [exact Hl|]]|reflexivity]].
        rewrite first_row_0. reflexivity.
  - cbn [fst snd]. split; [reflexivity|]. unfold inv_lazy; cbn [fst snd].
    split; [reflexivity|split; [exact Hi|discriminate]].
Qed.

Theorem lazy_refines : forall pages ops, positive pages ->
  run_lazy pages ops = run_spec_lazy pages ops.
Proof.
  intros pages ops Hp. unfold run_lazy, run_spec_lazy.
  apply (run_refines _ _ _ _ _ _ (inv_lazy pages)).
  - intros. now apply step_lazy_refines.
  - unfold inv_lazy; cbn. repeat split. apply inv_indexed_init.
Qed.
