(** Consequences of the refinement for the rows that are returned after a seek,
    and the batch row reader on top of the page cursor. *)
From Coq Require Import List Arith Bool Lia.
From PQ Require Import Cursor.Model Cursor.Spec Cursor.Proofs.
Import ListNotations.

(** * Lists of consecutive numbers *)

Lemma firstn_seq : forall j a b, firstn j (seq a b) = seq a (Nat.min j b).
Proof.
  induction j as [|j IH]; intros a b; [reflexivity|].
  destruct b as [|b]; [reflexivity|]. cbn. f_equal. apply IH.
Qed.

Lemma skipn_seq : forall j a b, skipn j (seq a b) = seq (a + j) (b - j).
Proof.
  induction j as [|j IH]; intros a b.
  - cbn. now rewrite Nat.add_0_r, Nat.sub_0_r.
  - destruct b as [|b]; [reflexivity|]. cbn. rewrite IH. f_equal. lia.
Qed.

Lemma seq_glue : forall a x y, seq a x ++ seq (a + x) y = seq a (x + y).
Proof. intros. symmetry. apply seq_app. Qed.

(** * Histories *)

Fixpoint exec {S O R : Type} (step : S -> O -> S * R) (s : S) (ops : list O) : S :=
  match ops with
  | [] => s
  | o :: rest => exec step (fst (step s o)) rest
  end.

Lemma run_app : forall (S O R : Type) (step : S -> O -> S * R) a b s,
  run step s (a ++ b) = run step s a ++ run step (exec step s a) b.
Proof.
  induction a as [|o a IH]; intros b s; [reflexivity|].
  cbn. destruct (step s o) as [s' r]. cbn. f_equal. apply IH.
Qed.

Lemma run_length : forall (S O R : Type) (step : S -> O -> S * R) ops s,
  length (run step s ops) = length ops.
Proof.
  induction ops as [|o ops IH]; intros s; [reflexivity|].
  cbn. destruct (step s o). cbn. f_equal. apply IH.
Qed.

Lemma run_after : forall (S O R : Type) (step : S -> O -> S * R) a b s,
  skipn (length a) (run step s (a ++ b)) = run step (exec step s a) b.
Proof.
  intros. rewrite run_app.
  rewrite <- (run_length _ _ _ step a s). rewrite skipn_app, skipn_all, Nat.sub_diag. reflexivity.
Qed.

Lemma exec_app : forall (S O R : Type) (step : S -> O -> S * R) a b s,
  exec step s (a ++ b) = exec step (exec step s a) b.
Proof. induction a as [|o a IH]; intros; [reflexivity|]. cbn. apply IH. Qed.

(** Refinement restricted to the operations that satisfy [A]. *)
Lemma run_refines_on : forall (S O R P : Type) (A : O -> Prop)
  (step : S -> O -> S * R) (spec : P -> O -> P * R) (I : S -> P -> Prop),
  (forall s p o, A o -> I s p ->
     snd (step s o) = snd (spec p o) /\ I (fst (step s o)) (fst (spec p o))) ->
  forall ops s p, Forall A ops -> I s p -> run step s ops = run spec p ops.
Proof.
  intros S O R P A step spec I Hstep. induction ops as [|o ops IH]; intros s p Ha Hi; [reflexivity|].
  inversion Ha; subst. cbn [run]. destruct (Hstep s p o H1 Hi) as (Ho & Hi').
  destruct (step s o) as [s' r]; destruct (spec p o) as [p' r']. cbn in *. subst r'.
  f_equal. now apply IH.
Qed.

(** * Page reader: the rows returned after a seek *)

Definition good_out (o : out) : Prop := o = EOF \/ exists f c, o = Rows f c /\ 0 < c.

Lemma spec_reads : forall pages m pos,
  exists pos',
    concat (map out_rows (run (spec_step pages) pos (repeat ReadPage m))) = seq pos (pos' - pos) /\
    pos <= pos' /\ (pos' <= total_rows pages \/ pos' = pos) /\
    (In EOF (run (spec_step pages) pos (repeat ReadPage m)) -> total_rows pages <= pos') /\
    Forall good_out (run (spec_step pages) pos (repeat ReadPage m)).
Proof.
  intros pages. induction m as [|m IH]; intros pos.
  - exists pos. cbn. rewrite Nat.sub_diag. repeat split; try lia; try constructor.
  - cbn [repeat run]. rewrite spec_read_eq.
    destruct (page_end pages 0 pos) as [e|] eqn:Ee.
    + apply page_end_bounds in Ee. cbn in Ee. destruct Ee as (Hlt & Hle).
      destruct (IH e) as (p' & Hrows & Hge & Hb & Heof & Hgood).
      exists p'. cbn [map concat out_rows]. rewrite Hrows.
      replace e with (pos + (e - pos)) at 2 by lia. rewrite seq_glue.
      repeat split.
      * f_equal. lia.
      * lia.
      * lia.
      * intros [Hc|Hin]; [discriminate|]. now apply Heof.
      * constructor; [|exact Hgood]. right. exists pos, (e - pos). split; [reflexivity|lia].
    + apply page_end_none in Ee; [|lia]. cbn in Ee.
      destruct (IH pos) as (p' & Hrows & Hge & Hb & Heof & Hgood).
      exists p'. cbn [map concat out_rows app]. repeat split; try assumption.
      * intros _. lia.
      * constructor; [now left|exact Hgood].
Qed.

Lemma spec_seek_pos : forall pages h k,
  let p := exec (spec_step pages) 0 (h ++ [SeekToRow k]) in
  p = k \/ total_rows pages = 0.
Proof.
  intros pages h k. rewrite exec_app. cbn.
  destruct pages as [|c rest]; [right; reflexivity|left; reflexivity].
Qed.

Lemma rows_from : forall N k p',
  k <= p' -> (p' <= N \/ p' = k) ->
  seq k (p' - k) = firstn (p' - k) (skipn k (seq 0 N)) /\
  (N <= p' -> seq k (p' - k) = skipn k (seq 0 N)).
Proof.
  intros N k p' Hge Hb. rewrite skipn_seq, firstn_seq. cbn [Nat.add]. split.
  - f_equal. lia.
  - intros Hn. f_equal. lia.
Qed.

Theorem indexed_seek_then_read : forall pages h k m, positive pages ->
  let after := skipn (S (length h)) (run_indexed pages (h ++ SeekToRow k :: repeat ReadPage m)) in
  let rows := concat (map out_rows after) in
  rows = firstn (length rows) (skipn k (seq 0 (total_rows pages))) /\
  (In EOF after -> rows = skipn k (seq 0 (total_rows pages))) /\
  Forall good_out after.
Proof.
  intros pages h k m Hp. cbv zeta. rewrite (indexed_refines _ _ Hp). unfold run_spec.
  replace (h ++ SeekToRow k :: repeat ReadPage m) with ((h ++ [SeekToRow k]) ++ repeat ReadPage m)
    by (rewrite <- app_assoc; reflexivity).
  replace (S (length h)) with (length (h ++ [SeekToRow k])) by (rewrite app_length; cbn; lia).
  rewrite run_after.
  destruct (spec_reads pages m (exec (spec_step pages) 0 (h ++ [SeekToRow k])))
    as (p' & Hrows & Hge & Hb & Heof & Hgood).
  rewrite Hrows. rewrite seq_length.
  destruct (spec_seek_pos pages h k) as [Hk|H0]; cbv zeta in *.
  - rewrite Hk in *. destruct (rows_from (total_rows pages) k p' Hge Hb) as (H1 & H2).
    split; [exact H1|split; [|exact Hgood]]. intros Hin. apply H2. now apply Heof.
  - rewrite H0 in *.
    replace (p' - exec (spec_step pages) 0 (h ++ [SeekToRow k])) with 0 by lia.
    cbn. rewrite skipn_nil. split; [reflexivity|split; [reflexivity|exact Hgood]].
Qed.

Theorem indexed_sequential : forall pages m, positive pages ->
  let outs := run_indexed pages (repeat ReadPage m) in
  let rows := concat (map out_rows outs) in
  rows = firstn (length rows) (seq 0 (total_rows pages)) /\
  (In EOF outs -> rows = seq 0 (total_rows pages)).
Proof.
  intros pages m Hp. cbv zeta. rewrite (indexed_refines _ _ Hp). unfold run_spec.
  destruct (spec_reads pages m 0) as (p' & Hrows & Hge & Hb & Heof & _).
  rewrite Hrows, seq_length.
  destruct (rows_from (total_rows pages) 0 p' Hge Hb) as (H1 & H2). cbn [skipn] in H1, H2.
  split; [exact H1|]. intros Hin. apply H2. now apply Heof.
Qed.

(** Reading to the end after SeekToRow k returns the rows of a fresh
    sequential read with the first k dropped; reading less returns a prefix. *)
Theorem indexed_seek_equals_sequential_skip : forall pages h k m m', positive pages ->
  let after := skipn (S (length h)) (run_indexed pages (h ++ SeekToRow k :: repeat ReadPage m)) in
  let fresh := run_indexed pages (repeat ReadPage m') in
  In EOF fresh ->
  let rows := concat (map out_rows after) in
  rows = firstn (length rows) (skipn k (concat (map out_rows fresh))) /\
  (In EOF after -> rows = skipn k (concat (map out_rows fresh))).
Proof.
  intros pages h k m m' Hp. cbv zeta. intros Hf.
  destruct (indexed_sequential pages m' Hp) as (_ & Hall). cbv zeta in Hall.
  rewrite (Hall Hf).
  destruct (indexed_seek_then_read pages h k m Hp) as (H1 & H2 & _). cbv zeta in H1, H2.
  split; assumption.
Qed.

(** The same for a chunk without offset index. *)
Lemma spec_noindex_read : forall pages pos,
  spec_step_noindex pages pos ReadPage = spec_step pages pos ReadPage.
Proof. reflexivity. Qed.

Lemma run_spec_noindex_reads : forall pages m pos,
  run (spec_step_noindex pages) pos (repeat ReadPage m) = run (spec_step pages) pos (repeat ReadPage m).
Proof.
  induction m as [|m IH]; intros pos; [reflexivity|].
  cbn [repeat run]. rewrite spec_noindex_read.
  destruct (spec_step pages pos ReadPage) as [p r]. now rewrite IH.
Qed.

Theorem noindex_seek_then_read : forall pages h k m, positive pages ->
  let after := skipn (S (length h)) (run_noindex pages (h ++ SeekToRow k :: repeat ReadPage m)) in
  let rows := concat (map out_rows after) in
  rows = firstn (length rows) (skipn k (seq 0 (total_rows pages))) /\
  (In EOF after -> rows = skipn k (seq 0 (total_rows pages))) /\
  Forall good_out after.
Proof.
  intros pages h k m Hp. cbv zeta. rewrite (noindex_refines _ _ Hp). unfold run_spec_noindex.
  replace (h ++ SeekToRow k :: repeat ReadPage m) with ((h ++ [SeekToRow k]) ++ repeat ReadPage m)
    by (rewrite <- app_assoc; reflexivity).
  replace (S (length h)) with (length (h ++ [SeekToRow k])) by (rewrite app_length; cbn; lia).
  rewrite run_after, run_spec_noindex_reads.
  assert (Hk : exec (spec_step_noindex pages) 0 (h ++ [SeekToRow k]) = k)
    by (rewrite exec_app; reflexivity).
  rewrite Hk.
  destruct (spec_reads pages m k) as (p' & Hrows & Hge & Hb & Heof & Hgood).
  rewrite Hrows, seq_length.
  destruct (rows_from (total_rows pages) k p' Hge Hb) as (H1 & H2).
  split; [exact H1|split; [|exact Hgood]]. intros Hin. apply H2. now apply Heof.
Qed.

(** * Batch row reader *)

Definition seek_ok (strict : bool) (pages : chunk) (k : nat) : bool :=
  match pages with
  | [] => (k =? 0) || negb strict
  | _ :: _ => true
  end.

Section RowsReaderProofs.
  Variable pages : chunk.
  Variable strict : bool.
  Variable cstep : state -> op -> state * out.
  Variable CI : state -> nat -> Prop.
  Variable fuel : nat.
  Hypothesis fuel_pos : 0 < fuel.
  Hypothesis Hread : forall c p, CI c p ->
    snd (cstep c ReadPage) = snd (spec_step pages p ReadPage) /\
    CI (fst (cstep c ReadPage)) (fst (spec_step pages p ReadPage)).
  Hypothesis Hseek : forall c p k, CI c p ->
    if seek_ok strict pages k
    then snd (cstep c (SeekToRow k)) = SeekOk /\ CI (fst (cstep c (SeekToRow k))) k
    else snd (cstep c (SeekToRow k)) = OutOfRange /\ CI (fst (cstep c (SeekToRow k))) p.

  Let N := total_rows pages.

  Lemma fill_spec : forall c cp c' r, CI c cp -> fill cstep fuel c = (c', r) ->
    (cp < N /\ exists e, r = Some (cp, e - cp) /\ cp < e /\ e <= N /\ CI c' e) \/
    (N <= cp /\ r = None /\ CI c' cp).
  Proof.
    intros c cp c' r Hc H. destruct fuel as [|f]; [lia|]. cbn [fill] in H.
    destruct (Hread c cp Hc) as (Ho & Hc'). rewrite spec_read_eq in Ho, Hc'.
    destruct (cstep c ReadPage) as [c1 o1]. cbn [fst snd] in *.
    destruct (page_end pages 0 cp) as [e|] eqn:Ee.
    - pose proof (page_end_bounds _ _ _ _ Ee) as (Hlt & Hle). cbn in Hle, Ho, Hc'.
      subst o1. replace (e - cp =? 0) with false in H by (symmetry; apply Nat.eqb_neq; lia).
      inversion H; subst c' r; clear H. left. split; [unfold N; lia|].
      exists e. repeat split; try assumption.
    - apply page_end_none in Ee; [|lia]. cbn in Ee, Ho, Hc'. subst o1.
      inversion H; subst c' r; clear H. right. repeat split; assumption.
  Qed.

  Lemma eof_flag_step : forall n pos, pos < N -> (pos + 2 <= N \/ 0 < n) ->
    ((0 <? S n) && (N - pos <=? S n)) = ((0 <? n) && (N - S pos <=? n)).
  Proof.
    intros n pos Hlt H. destruct n as [|n].
    - cbn. destruct (Nat.leb_spec (N - pos) 1); [lia|reflexivity].
    - cbn [Nat.ltb Nat.leb andb].
      destruct (Nat.leb_spec (N - pos) (S (S n))), (Nat.leb_spec (N - S pos) (S n)); try reflexivity; lia.
  Qed.

  Lemma read_rows_spec : forall n c bf bc pos cp c2 bf2 bc2 ids eof,
    CI c cp -> cp = pos + bc -> (0 < bc -> bf = pos /\ cp <= N) ->
    read_rows cstep fuel n c bf bc = (c2, bf2, bc2, ids, eof) ->
    let cnt := Nat.min n (N - pos) in
    ids = seq pos cnt /\ eof = ((0 <? n) && (N - pos <=? n)) /\
    exists cp2, CI c2 cp2 /\ cp2 = pos + cnt + bc2 /\ (0 < bc2 -> bf2 = pos + cnt /\ cp2 <= N).
  Proof.
    induction n as [|n IH]; intros c bf bc pos cp c2 bf2 bc2 ids eof Hc Hcp Hb H; cbv zeta.
    - cbn in H. inversion H; subst; clear H. cbn. rewrite Nat.add_0_r.
      split; [reflexivity|]. split; [reflexivity|]. exists (pos + bc2). repeat split; try tauto.
    - cbn [read_rows] in H.
      (* the buffer after the optional refill *)
      assert (Hbuf : forall c1 buf, (if bc =? 0 then fill cstep fuel c else (c, Some (bf, bc))) = (c1, buf) ->
                (buf = None /\ N <= pos /\ CI c1 pos) \/
                (exists cnt, buf = Some (pos, cnt) /\ 0 < cnt /\ pos + cnt <= N /\ CI c1 (pos + cnt))).
      { intros c1 buf Hf. destruct (bc =? 0) eqn:E0.
        - apply Nat.eqb_eq in E0. subst bc. rewrite Nat.add_0_r in Hcp. subst cp.
          destruct (fill_spec _ _ _ _ Hc Hf) as [(Hlt & e & -> & He1 & He2 & Hc')|(Hge & -> & Hc')].
          + right. exists (e - pos). replace (pos + (e - pos)) with e by lia.
            repeat split; try assumption; lia.
          + left. repeat split; assumption.
        - apply Nat.eqb_neq in E0. inversion Hf; subst c1 buf; clear Hf.
          destruct Hb as (-> & Hle); [lia|]. right. exists bc. subst cp.
          repeat split; try assumption; lia. }
      destruct (if bc =? 0 then fill cstep fuel c else (c, Some (bf, bc))) as [c1 buf] eqn:Ebuf.
      destruct (Hbuf c1 buf eq_refl) as [(-> & Hge & Hc1)|(cnt & -> & Hcnt & Hle & Hc1)]; clear Hbuf Ebuf.
      + inversion H; subst; clear H.
        replace (Nat.min (S n) (N - pos)) with 0 by lia. cbn [seq].
        split; [reflexivity|]. split.
        * cbn [Nat.ltb Nat.leb andb]. destruct (Nat.leb_spec (N - pos) (S n)); [reflexivity|lia].
        * exists pos. repeat split; try assumption; lia.
      + replace (Nat.min (S n) (N - pos)) with (S (Nat.min n (N - S pos))) by lia.
        destruct (cnt <=? 1) eqn:E1.
        * apply Nat.leb_le in E1. assert (cnt = 1) by lia. subst cnt.
          destruct (fill cstep fuel c1) as [c2' r] eqn:Ef.
          destruct (fill_spec _ _ _ _ Hc1 Ef) as [(Hlt & e & -> & He1 & He2 & Hc')|(Hge & -> & Hc')].
          -- destruct (read_rows cstep fuel n c2' (pos + 1) (e - (pos + 1)))
               as [[[[c3 bf3] bc3] ids3] eof3] eqn:Er.
             inversion H; subst; clear H.
             apply (IH _ _ _ (S pos) e) in Er; [|assumption|lia|lia].
             cbv zeta in Er. destruct Er as (-> & -> & cp2 & Hc2 & Hcp2 & Hb2).
             split; [reflexivity|]. split; [symmetry; apply eof_flag_step; lia|].
             exists cp2. repeat split; try assumption; try lia. all: apply Hb2 in H; lia.
          -- inversion H; subst; clear H.
             replace (Nat.min n (N - S pos)) with 0 by lia. cbn [seq].
             split; [reflexivity|]. split.
             ++ cbn [Nat.ltb Nat.leb andb]. destruct (Nat.leb_spec (N - pos) (S n)); [reflexivity|lia].
             ++ exists (pos + 1). repeat split; try assumption; lia.
        * apply Nat.leb_gt in E1.
          destruct (read_rows cstep fuel n c1 (S pos) (cnt - 1))
            as [[[[c3 bf3] bc3] ids3] eof3] eqn:Er.
          inversion H; subst; clear H.
          apply (IH _ _ _ (S pos) (pos + cnt)) in Er; [|assumption|lia|lia].
          cbv zeta in Er. destruct Er as (-> & -> & cp2 & Hc2 & Hcp2 & Hb2).
          split; [reflexivity|]. split; [symmetry; apply eof_flag_step; lia|].
          exists cp2. repeat split; try assumption; try lia. all: apply Hb2 in H; lia.
  Qed.

  Definition rinv (r : rstate) (pos : nat) : Prop :=
    (exists cp, CI (cur r) cp /\ cp = pos + bcount r /\ (0 < bcount r -> bfirst r = pos /\ cp <= N)) /\
    seek_ok strict pages pos = true /\
    match row_index r with Some i => i = pos | None => pos = 0 end.

  Lemma rr_seek_spec : forall r pos k, rinv r pos ->
    snd (rr_seek cstep r k) = snd (rspec_step strict pages pos (RSeek k)) /\
    rinv (fst (rr_seek cstep r k)) (fst (rspec_step strict pages pos (RSeek k))).
  Proof.
    intros r pos k ((cp & Hc & Hcp & Hb) & Hok & Hri). unfold rr_seek.
    assert (Hspec : rspec_step strict pages pos (RSeek k) =
                    if seek_ok strict pages k then (k, RSeekOk) else (pos, ROutOfRange)).
    { unfold rspec_step, seek_ok. destruct pages; reflexivity. }
    rewrite Hspec.
    destruct (match row_index r with Some i => i =? k | None => false end) eqn:Esh.
    - (* already there *)
      destruct (row_index r) as [i|] eqn:Ei; [|discriminate]. apply Nat.eqb_eq in Esh. subst i k.
      rewrite Hok. cbn. split; [reflexivity|]. split; [|split; [exact Hok|now rewrite Ei]].
      exists cp. repeat split; try assumption; now apply Hb.
    - pose proof (Hseek (cur r) cp k Hc) as Hs.
      destruct (cstep (cur r) (SeekToRow k)) as [c' o] eqn:Ec. cbn [fst snd] in Hs.
      destruct (seek_ok strict pages k) eqn:Eok.
      + destruct Hs as (-> & Hc'). cbn. split; [reflexivity|]. split; [|split; [exact Eok|reflexivity]].
        exists k. cbn. repeat split; try assumption; lia.
      + destruct Hs as (-> & Hc'). cbn. split; [reflexivity|]. split; [|split; [exact Hok|exact Hri]].
        exists cp. cbn. repeat split; try assumption; now apply Hb.
  Qed.
  Lemma seek_ok_0 : seek_ok strict pages 0 = true.
  Proof. unfold seek_ok. destruct pages; reflexivity. Qed.

  Lemma seek_ok_advance : forall pos n,
    seek_ok strict pages pos = true -> seek_ok strict pages (pos + Nat.min n (N - pos)) = true.
  Proof.
    intros pos n H. unfold seek_ok in *. unfold N, total_rows. destruct pages; [|reflexivity].
    cbn. now rewrite Nat.min_0_r, Nat.add_0_r.
  Qed.

  Lemma rr_read_some : forall r pos n i c bf bc ids eof, rinv r pos -> row_index r = Some i ->
    read_rows cstep fuel n (cur r) (bfirst r) (bcount r) = (c, bf, bc, ids, eof) ->
    RRows ids eof = snd (rspec_step strict pages pos (RRead n)) /\
    rinv (rmk c bf bc (Some (i + length ids))) (fst (rspec_step strict pages pos (RRead n))).
  Proof.
    intros r pos n i c bf bc ids eof ((cp & Hc & Hcp & Hb) & Hok & Hri) Ei H.
    rewrite Ei in Hri. subst i.
    apply (read_rows_spec _ _ _ _ pos cp) in H; try assumption.
    cbv zeta in H. destruct H as (-> & -> & cp2 & Hc2 & Hcp2 & Hb2).
    cbn [rspec_step fst snd]. fold N. split; [reflexivity|].
    rewrite seq_length. split; [|split; [now apply seek_ok_advance|reflexivity]].
    exists cp2. cbn [cur bfirst bcount]. repeat split; try assumption; now apply Hb2.
  Qed.

  Lemma rr_read_spec : forall r pos n, rinv r pos ->
    snd (rr_read cstep fuel r n) = snd (rspec_step strict pages pos (RRead n)) /\
    rinv (fst (rr_read cstep fuel r n)) (fst (rspec_step strict pages pos (RRead n))).
  Proof.
    intros r pos n Hr. unfold rr_read. destruct (row_index r) as [i|] eqn:Ei.
    - destruct (read_rows cstep fuel n (cur r) (bfirst r) (bcount r))
        as [[[[c bf] bc] ids] eof] eqn:Er.
      cbn [fst snd]. rewrite Ei. cbn [option_map]. exact (rr_read_some r pos n i c bf bc ids eof Hr Ei Er).
    - destruct Hr as ((cp & Hc & Hcp & Hb) & Hok & Hri). rewrite Ei in Hri. subst pos.
      unfold rr_seek. rewrite Ei.
      pose proof (Hseek (cur r) cp 0 Hc) as Hs. rewrite seek_ok_0 in Hs.
      destruct (cstep (cur r) (SeekToRow 0)) as [c' o]. cbn [fst snd] in Hs.
      destruct Hs as (-> & Hc').
      set (r1 := rmk c' 0 0 (Some 0)).
      assert (Hr1 : rinv r1 0).
      { split; [|split; [exact seek_ok_0|reflexivity]]. exists 0. cbn. repeat split; try assumption; lia. }
      destruct (read_rows cstep fuel n (cur r1) (bfirst r1) (bcount r1))
        as [[[[c bf] bc] ids] eof] eqn:Er.
      cbn [fst snd option_map row_index r1].
      exact (rr_read_some r1 0 n 0 c bf bc ids eof Hr1 eq_refl Er).
  Qed.

  Lemma rr_reset_spec : forall r pos, rinv r pos ->
    snd (rr_reset cstep true r) = snd (rspec_step strict pages pos RReset) /\
    rinv (fst (rr_reset cstep true r)) (fst (rspec_step strict pages pos RReset)).
  Proof.
    intros r pos ((cp & Hc & Hcp & Hb) & Hok & Hri). unfold rr_reset.
    pose proof (Hseek (cur r) cp 0 Hc) as Hs. rewrite seek_ok_0 in Hs.
    destruct (cstep (cur r) (SeekToRow 0)) as [c' o]. cbn [fst snd] in *.
    destruct Hs as (_ & Hc'). split; [reflexivity|].
    split; [|split; [exact seek_ok_0|reflexivity]]. exists 0. cbn. repeat split; try assumption; lia.
  Qed.

  (** Reset is covered only for the reader that forgets its row index. *)
  Definition reset_allowed (clears : bool) (o : rop) : Prop :=
    match o with RReset => clears = true | _ => True end.

  Lemma rr_step_spec : forall clears r pos o, reset_allowed clears o -> rinv r pos ->
    snd (rr_step cstep fuel clears r o) = snd (rspec_step strict pages pos o) /\
    rinv (fst (rr_step cstep fuel clears r o)) (fst (rspec_step strict pages pos o)).
  Proof.
    intros clears r pos o Ha Hr. destruct o as [n|k|]; cbn [rr_step].
    - now apply rr_read_spec.
    - now apply rr_seek_spec.
    - cbn in Ha. subst clears. now apply rr_reset_spec.
  Qed.

  Lemma rinv_init : forall c0, CI c0 0 -> rinv (rmk c0 0 0 None) 0.
  Proof.
    intros c0 H. split; [|split; [exact seek_ok_0|reflexivity]].
    exists 0. cbn. repeat split; try assumption; lia.
  Qed.

  Theorem rows_reader_refines : forall clears c0 ops, CI c0 0 -> Forall (reset_allowed clears) ops ->
    run (rr_step cstep fuel clears) (rmk c0 0 0 None) ops = run (rspec_step strict pages) 0 ops.
  Proof.
    intros clears c0 ops H0 Ha.
    apply (run_refines_on _ _ _ _ (reset_allowed clears) _ _ rinv); try assumption.
    - intros. now apply rr_step_spec.
    - now apply rinv_init.
  Qed.
End RowsReaderProofs.

(** Instances: the two page cursors. *)
Lemma indexed_seek_hyp : forall pages, positive pages -> forall c p k, inv_indexed pages c p ->
  if seek_ok true pages k
  then snd (step_indexed pages c (SeekToRow k)) = SeekOk /\
       inv_indexed pages (fst (step_indexed pages c (SeekToRow k))) k
  else snd (step_indexed pages c (SeekToRow k)) = OutOfRange /\
       inv_indexed pages (fst (step_indexed pages c (SeekToRow k))) p.
Proof.
  intros pages Hp c p k Hi.
  destruct (step_indexed_refines pages Hp c p (SeekToRow k) Hi) as (Ho & Hi').
  cbn [spec_step] in Ho, Hi'. unfold seek_ok. destruct pages as [|d rest].
  - cbn [negb orb]. rewrite orb_false_r. destruct (k =? 0) eqn:Ek; cbn [fst snd] in *.
    + apply Nat.eqb_eq in Ek. subst k. split; assumption.
    + split; assumption.
  - cbn [fst snd] in *. split; assumption.
Qed.

Lemma noindex_seek_hyp : forall dict pages, positive pages -> forall c p k, inv_stream pages c p ->
  if seek_ok false pages k
  then snd (step_noindex dict pages c (SeekToRow k)) = SeekOk /\
       inv_stream pages (fst (step_noindex dict pages c (SeekToRow k))) k
  else snd (step_noindex dict pages c (SeekToRow k)) = OutOfRange /\
       inv_stream pages (fst (step_noindex dict pages c (SeekToRow k))) p.
Proof.
  intros dict pages Hp c p k Hi.
  destruct (step_noindex_refines dict pages Hp c p (SeekToRow k) Hi) as (Ho & Hi').
  assert (Hok : seek_ok false pages k = true).
  { unfold seek_ok. destruct pages; [apply orb_true_r|reflexivity]. }
  rewrite Hok. cbn [spec_step_noindex fst snd] in *. split; assumption.
Qed.

Theorem rows_indexed_refines_gen : forall clears pages ops, positive pages ->
  Forall (reset_allowed clears) ops ->
  run_rows_indexed_gen clears pages ops = run_rspec true pages ops.
Proof.
  intros clears pages ops Hp Ha. unfold run_rows_indexed_gen, run_rspec, rinit.
  apply (rows_reader_refines pages true (step_indexed pages) (inv_indexed pages)); try assumption.
  - lia.
  - intros c p Hc. exact (step_indexed_refines pages Hp c p ReadPage Hc).
  - now apply indexed_seek_hyp.
  - apply inv_indexed_init.
Qed.

Theorem rows_noindex_refines_gen : forall clears dict pages ops, positive pages ->
  Forall (reset_allowed clears) ops ->
  run_rows_noindex_gen clears dict pages ops = run_rspec false pages ops.
Proof.
  intros clears dict pages ops Hp Ha. unfold run_rows_noindex_gen, run_rspec, rinit.
  apply (rows_reader_refines pages false (step_noindex dict pages) (inv_stream pages)); try assumption.
  - lia.
  - intros c p Hc. exact (step_noindex_refines dict pages Hp c p ReadPage Hc).
  - now apply noindex_seek_hyp.
  - apply inv_stream_init.
Qed.

Lemma reset_always_allowed : forall ops, Forall (reset_allowed true) ops.
Proof. intros. apply Forall_forall. intros [n|k|] _; exact I || reflexivity. Qed.

(** The current code: every history, Reset included. *)
Theorem rows_indexed_refines : forall pages ops, positive pages ->
  run_rows_indexed pages ops = run_rspec true pages ops.
Proof. intros. apply (rows_indexed_refines_gen true); [assumption|apply reset_always_allowed]. Qed.

Theorem rows_noindex_refines : forall pages ops, positive pages ->
  run_rows_noindex pages ops = run_rspec false pages ops.
Proof. intros. apply (rows_noindex_refines_gen true false); [assumption|apply reset_always_allowed]. Qed.

(** Rows returned by any sequence of batch reads after a seek. *)
Lemma rspec_reads : forall strict pages ns pos,
  concat (map rout_rows (run (rspec_step strict pages) pos (map RRead ns))) =
  firstn (list_sum ns) (skipn pos (seq 0 (total_rows pages))).
Proof.
  intros strict pages. induction ns as [|n ns IH]; intros pos; [reflexivity|].
  cbn [map run rspec_step concat rout_rows list_sum]. rewrite IH.
  rewrite !skipn_seq, !firstn_seq. cbn [Nat.add].
  change (list_sum (n :: ns)) with (n + list_sum ns).
  rewrite seq_glue. f_equal. lia.
Qed.

Lemma rspec_seek_pos : forall strict pages h k,
  let p := exec (rspec_step strict pages) 0 (h ++ [RSeek k]) in
  p = k \/ total_rows pages = 0.
Proof.
  intros strict pages h k. rewrite exec_app. cbn.
  destruct pages as [|c rest]; [right; reflexivity|left; reflexivity].
Qed.

Lemma rspec_seek_then_read : forall strict pages h k ns,
  concat (map rout_rows (skipn (S (length h))
    (run (rspec_step strict pages) 0 (h ++ RSeek k :: map RRead ns)))) =
  firstn (list_sum ns) (skipn k (seq 0 (total_rows pages))).
Proof.
  intros strict pages h k ns.
  replace (h ++ RSeek k :: map RRead ns) with ((h ++ [RSeek k]) ++ map RRead ns)
    by (rewrite <- app_assoc; reflexivity).
  replace (S (length h)) with (length (h ++ [RSeek k])) by (rewrite app_length; cbn; lia).
  rewrite run_after, rspec_reads.
  destruct (rspec_seek_pos strict pages h k) as [Hk|H0]; cbv zeta in *.
  - now rewrite Hk.
  - rewrite H0. cbn. now rewrite !skipn_nil.
Qed.

Theorem rows_indexed_seek_then_read : forall pages h k ns, positive pages ->
  concat (map rout_rows (skipn (S (length h))
    (run_rows_indexed pages (h ++ RSeek k :: map RRead ns)))) =
  firstn (list_sum ns) (skipn k (seq 0 (total_rows pages))).
Proof. intros pages h k ns Hp. rewrite rows_indexed_refines by assumption. apply rspec_seek_then_read. Qed.

Theorem rows_noindex_seek_then_read : forall pages h k ns, positive pages ->
  concat (map rout_rows (skipn (S (length h))
    (run_rows_noindex pages (h ++ RSeek k :: map RRead ns)))) =
  firstn (list_sum ns) (skipn k (seq 0 (total_rows pages))).
Proof. intros pages h k ns Hp. rewrite rows_noindex_refines by assumption. apply rspec_seek_then_read. Qed.
