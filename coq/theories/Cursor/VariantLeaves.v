(** Model of the row window of the columnar variant reader
    (variant_column_reader.go: VariantReader.Next / SeekToRow,
    variantLeafReader.open / readWindow): all cursors share one row window; the
    page reader of a leaf column is opened lazily, the first time a cursor that
    needs the column takes part in a Next, and a SeekToRow is recorded per leaf
    ([pendingSeek]) and applied when the leaf reads its next window.

    A leaf column is reduced to the row its page reader stands at: reading a
    window of n rows delivers the rows [lf_pos, lf_pos + n).  Executable, no
    proofs (Cursor/VariantLeavesProofs.v). *)
From Coq Require Import List Arith Bool.
Import ListNotations.

(** [lf_in]: the leaf exists in r.leaves (a cursor that needs it was created)
    and is collected by Next; [lf_pending]: pendingSeek (None = -1). *)
Record leaf := mkLeaf { lf_in : bool; lf_opened : bool; lf_pending : option nat; lf_pos : nat }.

Definition leaf0 : leaf := mkLeaf false false None 0.

Record vstate := mkV { v_off : nat; v_leaves : list leaf }.

Definition vinit (nleaves : nat) : vstate := mkV 0 (repeat leaf0 nleaves).

Inductive vop := VCreate (j : nat) | VNext (n : nat) | VSeek (k : nat).

Inductive vout :=
| VDone
| VWindow (first count : nat) (firsts : list (option nat))
    (* Next: the window, and for every leaf the first row its page reader
       delivered (None: the leaf was not read) *)
| VEOF
| VSeekOk
| VOutOfRange.

Section Variant.
  (** [cur] = true: the current code (open() schedules a seek to the row
      offset of the reader, SeekToRow marks the leaves that are open);
      false: the seeded variant (SeekToRow marks every existing leaf, open()
      does not position the page reader). *)
  Variable cur : bool.

  (** variantLeafReader.readWindow(n) at reader offset [off] *)
  Definition leaf_read (off n : nat) (l : leaf) : leaf * option nat :=
    if lf_in l then
      (* if !l.opened { l.open() } *)
      let pending1 :=
        if lf_opened l then lf_pending l
        else if cur && (0 <? off) then
               match lf_pending l with None => Some off | p => p end
             else lf_pending l in
      (* if l.pendingSeek >= 0 { l.pages.SeekToRow(l.pendingSeek) } *)
      let pos1 := match pending1 with Some p => p | None => lf_pos l end in
      (mkLeaf true true None (pos1 + n), Some pos1)
    else (l, None).

  Definition vnext (N : nat) (s : vstate) (n : nat) : vout * vstate :=
    if n =? 0 then (VWindow (v_off s) 0 (map (fun _ => None) (v_leaves s)), s)
    else if N <=? v_off s then (VEOF, s)
    else
      let n' := Nat.min n (N - v_off s) in
      let rs := map (leaf_read (v_off s) n') (v_leaves s) in
      (VWindow (v_off s) n' (map snd rs), mkV (v_off s + n') (map fst rs)).

  Definition vseek (N : nat) (s : vstate) (k : nat) : vout * vstate :=
    if N <? k then (VOutOfRange, s)
    else
      let mark l :=
        if lf_in l && (lf_opened l || negb cur)
        then mkLeaf (lf_in l) (lf_opened l) (Some k) (lf_pos l) else l in
      (VSeekOk, mkV k (map mark (v_leaves s))).

  Fixpoint set_in (ls : list leaf) (j : nat) : list leaf :=
    match ls, j with
    | [], _ => []
    | l :: rest, O => mkLeaf true (lf_opened l) (lf_pending l) (lf_pos l) :: rest
    | l :: rest, S j' => l :: set_in rest j'
    end.

  Definition vstep (N : nat) (s : vstate) (o : vop) : vout * vstate :=
    match o with
    | VCreate j => (VDone, mkV (v_off s) (set_in (v_leaves s) j))
    | VNext n => vnext N s n
    | VSeek k => vseek N s k
    end.

  Fixpoint vrun (N : nat) (s : vstate) (ops : list vop) : list vout :=
    match ops with
    | [] => []
    | o :: rest => let '(out, s') := vstep N s o in out :: vrun N s' rest
    end.
End Variant.

Definition run_variant (nleaves N : nat) := vrun true N (vinit nleaves).
Definition run_variant_seeded (nleaves N : nat) := vrun false N (vinit nleaves).

(** ** The specification: one row offset and the set of leaves in use; every
    leaf that is read delivers the rows of the window. *)
Fixpoint set_true (ins : list bool) (j : nat) : list bool :=
  match ins, j with
  | [], _ => []
  | _ :: rest, O => true :: rest
  | b :: rest, S j' => b :: set_true rest j'
  end.

Fixpoint vspec (N off : nat) (ins : list bool) (ops : list vop) : list vout :=
  match ops with
  | [] => []
  | VCreate j :: rest => VDone :: vspec N off (set_true ins j) rest
  | VNext n :: rest =>
      if n =? 0 then VWindow off 0 (map (fun _ => None) ins) :: vspec N off ins rest
      else if N <=? off then VEOF :: vspec N off ins rest
      else
        let n' := Nat.min n (N - off) in
        VWindow off n' (map (fun b : bool => if b then Some off else None) ins) :: vspec N (off + n') ins rest
  | VSeek k :: rest =>
      if N <? k then VOutOfRange :: vspec N off ins rest
      else VSeekOk :: vspec N k ins rest
  end.

Definition run_vspec (nleaves N : nat) := vspec N 0 (repeat false nleaves).
