(** Abstract specification of a seekable reader: one row position.
    Executable, no proofs. *)
From Coq Require Import List Arith Bool.
From PQ Require Import Cursor.Model.
Import ListNotations.

(** End (exclusive) of the page that contains row [pos]; [None] when [pos] is
    at or beyond the end of the chunk. *)
Fixpoint page_end (rest : list nat) (base pos : nat) : option nat :=
  match rest with
  | [] => None
  | c :: rest' => if pos <? base + c then Some (base + c) else page_end rest' (base + c) pos
  end.

(** Page reader: SeekToRow k moves the position to k.  It succeeds for every k,
    also at and beyond the number of rows (the following reads return io.EOF),
    as FilePages.SeekToRow does; only a chunk without any page rejects k <> 0
    (file.go:1576-1585).  ReadPage returns the rows from the position to the
    end of the page that contains it. *)
Definition spec_step (pages : chunk) (pos : nat) (o : op) : nat * out :=
  match o with
  | SeekToRow k =>
      match pages with
      | [] => if k =? 0 then (0, SeekOk) else (pos, OutOfRange)
      | _ :: _ => (k, SeekOk)
      end
  | ReadPage =>
      match page_end pages 0 pos with
      | Some e => (e, Rows pos (e - pos))
      | None => (pos, EOF)
      end
  end.

Definition run_spec (pages : chunk) (ops : list op) : list out :=
  run (spec_step pages) 0 ops.

(** The index-less seek accepts every k. *)
Definition spec_step_noindex (pages : chunk) (pos : nat) (o : op) : nat * out :=
  match o with
  | SeekToRow k => (k, SeekOk)
  | ReadPage => spec_step pages pos ReadPage
  end.

Definition run_spec_noindex (pages : chunk) (ops : list op) : list out :=
  run (spec_step_noindex pages) 0 ops.

Definition spec_step_lazy (pages : chunk) (pl : nat * bool) (o : lop) : (nat * bool) * out :=
  let '(pos, loaded) := pl in
  match o with
  | LoadIndex => ((pos, true), Done)
  | Op o =>
      let '(pos', r) := if loaded then spec_step pages pos o else spec_step_noindex pages pos o in
      ((pos', loaded), r)
  end.

Definition run_spec_lazy (pages : chunk) (ops : list lop) : list out :=
  run (spec_step_lazy pages) (0, false) ops.

(** Batch reader: ReadRows(n) returns the next min(n, remaining) rows and
    reports the end (io.EOF together with the rows) when it reached it, i.e.
    when n > 0 and at most n rows were left; Reset returns to row 0.
    [strict = true]: a seek is rejected as by [spec_step] on a chunk without
    pages. *)
Definition rspec_step (strict : bool) (pages : chunk) (pos : nat) (o : rop) : nat * rout :=
  match o with
  | RSeek k =>
      match pages with
      | [] => if (k =? 0) || negb strict then (k, RSeekOk) else (pos, ROutOfRange)
      | _ :: _ => (k, RSeekOk)
      end
  | RRead n =>
      let left := total_rows pages - pos in
      let cnt := Nat.min n left in
      (pos + cnt, RRows (seq pos cnt) ((0 <? n) && (left <=? n)))
  | RReset => (0, RDone)
  end.

Definition run_rspec (strict : bool) (pages : chunk) (ops : list rop) : list rout :=
  run (rspec_step strict pages) 0 ops.

(** Rows of an output, written out. *)
Definition out_rows (o : out) : list nat :=
  match o with Rows f c => seq f c | _ => [] end.

Definition rout_rows (o : rout) : list nat :=
  match o with RRows ids _ => ids | _ => [] end.
