(** Proofs about the layers above the page cursor (Cursor/Multi.v): the
    multi-column rowGroupRows, multiPages and reader / Reader / GenericReader
    refine the row-position specification for every layout and every history. *)
From Coq Require Import List Arith Bool Lia.
From PQ Require Import Cursor.Model Cursor.Spec Cursor.Proofs Cursor.Rows Cursor.Multi.
Import ListNotations.
(** * One column over any page cursor *)
Section GenColumnProofs.
  Variable C : Type.
  Variable pages : chunk.
  Variable cstep : C -> op -> C * out.
  Variable CI : C -> nat -> Prop.
  Variable fuel : nat.
  Hypothesis fuel_pos : 0 < fuel.
  Hypothesis Hread : forall c p, CI c p ->
    snd (cstep c ReadPage) = snd (spec_step pages p ReadPage) /\
    CI (fst (cstep c ReadPage)) (fst (spec_step pages p ReadPage)).

  Let N := total_rows pages.

  Lemma gfill_spec : forall c cp c' r, CI c cp -> gfill cstep fuel c = (c', r) ->
    (cp < N /\ exists e, r = Some (cp, e - cp) /\ cp < e /\ e <= N /\ CI c' e) \/
    (N <= cp /\ r = None /\ CI c' cp).
  Proof.
    intros c cp c' r Hc H. destruct fuel as [|f]; [lia|]. cbn [gfill] in H.
    destruct (Hread c cp Hc) as (Ho & Hc'). rewrite spec_read_eq in Ho, Hc'.
    destruct (cstep c ReadPage) as [c1 o1]. cbn [fst snd] in *.
    destruct (page_end pages 0 cp) as [e|] eqn:Ee.
    - pose proof (page_end_bounds _ _ _ _ Ee) as (Hlt & Hle). cbn in Hle, Ho, Hc'.
      subst o1. replace (e - cp =? 0) with false in H by (symmetry; apply Nat.eqb_neq; lia).
      inversion H; subst c' r; clear H. left. split; [unfold N; lia|].
      exists e. repeat split; try assumption.
    - apply page_end_none in Ee; [|lia]. cbn in Ee, Ho, Hc'. subst o1.
      inversion H; subst c' r; clear H. right. repeat split; assumption.
  Qed.

  Lemma eof_flag_step_N : forall n pos, pos < N -> (pos + 2 <= N \/ 0 < n) ->
    ((0 <? S n) && (N - pos <=? S n)) = ((0 <? n) && (N - S pos <=? n)).
  Proof.
    intros n pos Hlt H. destruct n as [|n].
    - cbn. destruct (Nat.leb_spec (N - pos) 1); [lia|reflexivity].
    - cbn [Nat.ltb Nat.leb andb].
      destruct (Nat.leb_spec (N - pos) (S (S n))), (Nat.leb_spec (N - S pos) (S n)); try reflexivity; lia.
  Qed.

  Lemma gread_rows_spec : forall n c bf bc pos cp c2 bf2 bc2 ids eof,
    CI c cp -> cp = pos + bc -> (0 < bc -> bf = pos /\ cp <= N) ->
    gread_rows cstep fuel n c bf bc = (c2, bf2, bc2, ids, eof) ->
    let cnt := Nat.min n (N - pos) in
    ids = seq pos cnt /\ eof = ((0 <? n) && (N - pos <=? n)) /\
    exists cp2, CI c2 cp2 /\ cp2 = pos + cnt + bc2 /\ (0 < bc2 -> bf2 = pos + cnt /\ cp2 <= N).
  Proof.
    induction n as [|n IH]; intros c bf bc pos cp c2 bf2 bc2 ids eof Hc Hcp Hb H; cbv zeta.
    - cbn in H. inversion H; subst; clear H. cbn. rewrite Nat.add_0_r.
      split; [reflexivity|]. split; [reflexivity|]. exists (pos + bc2). repeat split; try tauto.
    - cbn [gread_rows] in H.
      assert (Hbuf : forall c1 buf, (if bc =? 0 then gfill cstep fuel c else (c, Some (bf, bc))) = (c1, buf) ->
                (buf = None /\ N <= pos /\ CI c1 pos) \/
                (exists cnt, buf = Some (pos, cnt) /\ 0 < cnt /\ pos + cnt <= N /\ CI c1 (pos + cnt))).
      { intros c1 buf Hf. destruct (bc =? 0) eqn:E0.
        - apply Nat.eqb_eq in E0. subst bc. rewrite Nat.add_0_r in Hcp. subst cp.
          destruct (gfill_spec _ _ _ _ Hc Hf) as [(Hlt & e & -> & He1 & He2 & Hc')|(Hge & -> & Hc')].
          + right. exists (e - pos). replace (pos + (e - pos)) with e by lia.
            repeat split; try assumption; lia.
          + left. repeat split; assumption.
        - apply Nat.eqb_neq in E0. inversion Hf; subst c1 buf; clear Hf.
          destruct Hb as (-> & Hle); [lia|]. right. exists bc. subst cp.
          repeat split; try assumption; lia. }
      destruct (if bc =? 0 then gfill cstep fuel c else (c, Some (bf, bc))) as [c1 buf] eqn:Ebuf.
      destruct (Hbuf c1 buf eq_refl) as [(-> & Hge & Hc1)|(cnt & -> & Hcnt & Hle & Hc1)]; clear Hbuf Ebuf.
      + inversion H; subst; clear H.
        replace (Nat.min (S n) (N - pos)) with 0 by lia. cbn [seq].
        split; [reflexivity|]. split.
        * cbn [Nat.ltb Nat.leb andb]. destruct (Nat.leb_spec (N - pos) (S n)); [reflexivity|lia].
        * exists pos. repeat split; try assumption; lia.
      + replace (Nat.min (S n) (N - pos)) with (S (Nat.min n (N - S pos))) by lia.
        destruct (cnt <=? 1) eqn:E1.
        * apply Nat.leb_le in E1. assert (cnt = 1) by lia. subst cnt.
          destruct (gfill cstep fuel c1) as [c2' r] eqn:Ef.
          destruct (gfill_spec _ _ _ _ Hc1 Ef) as [(Hlt & e & -> & He1 & He2 & Hc')|(Hge & -> & Hc')].
          -- destruct (gread_rows cstep fuel n c2' (pos + 1) (e - (pos + 1)))
               as [[[[c3 bf3] bc3] ids3] eof3] eqn:Er.
             inversion H; subst; clear H.
             apply (IH _ _ _ (S pos) e) in Er; [|assumption|lia|lia].
             cbv zeta in Er. destruct Er as (-> & -> & cp2 & Hc2 & Hcp2 & Hb2).
             split; [reflexivity|]. split; [symmetry; apply eof_flag_step_N; lia|].
             exists cp2. repeat split; try assumption; try lia. all: apply Hb2 in H; lia.
          -- inversion H; subst; clear H.
             replace (Nat.min n (N - S pos)) with 0 by lia. cbn [seq].
             split; [reflexivity|]. split.
             ++ cbn [Nat.ltb Nat.leb andb]. destruct (Nat.leb_spec (N - pos) (S n)); [reflexivity|lia].
             ++ exists (pos + 1). repeat split; try assumption; lia.
        * apply Nat.leb_gt in E1.
          destruct (gread_rows cstep fuel n c1 (S pos) (cnt - 1))
            as [[[[c3 bf3] bc3] ids3] eof3] eqn:Er.
          inversion H; subst; clear H.
          apply (IH _ _ _ (S pos) (pos + cnt)) in Er; [|assumption|lia|lia].
          cbv zeta in Er. destruct Er as (-> & -> & cp2 & Hc2 & Hcp2 & Hb2).
          split; [reflexivity|]. split; [symmetry; apply eof_flag_step_N; lia|].
          exists cp2. repeat split; try assumption; try lia. all: apply Hb2 in H; lia.
  Qed.
End GenColumnProofs.

(** * rowGroupRows over several columns *)

Lemma repeat_snoc : forall (A : Type) (x : A) n, repeat x n ++ [x] = repeat x (S n).
Proof. induction n as [|n IH]; [reflexivity|]. cbn. now rewrite IH. Qed.

Lemma append_col_seq : forall d cnt pos tail,
  append_col (map (fun i => repeat i d) (seq pos cnt) ++ tail) (seq pos cnt) =
  map (fun i => repeat i (S d)) (seq pos cnt) ++ tail.
Proof.
  induction cnt as [|cnt IH]; intros pos tail.
  - cbn. destruct tail; reflexivity.
  - cbn [seq map app append_col]. rewrite repeat_snoc, IH. reflexivity.
Qed.

Section MultiColumnProofs.
  Variables C P : Type.
  Variable cstep : P -> C -> op -> C * out.
  Variable cfuel : P -> nat.
  Variable cinit : C.
  Variable pages_of : P -> chunk.
  Variable CI : P -> C -> nat -> Prop.
  Variable strict : bool.
  Variable N : nat.

  (** What a column must satisfy: its cursor refines the position
      specification over its own page layout, and it has [N] rows. *)
  Record col_ok (p : P) : Prop := {
    ok_fuel : 0 < cfuel p;
    ok_positive : positive (pages_of p);
    ok_total : total_rows (pages_of p) = N;
    ok_init : CI p cinit 0;
    ok_read : forall c pos, CI p c pos ->
      snd (cstep p c ReadPage) = snd (spec_step (pages_of p) pos ReadPage) /\
      CI p (fst (cstep p c ReadPage)) (fst (spec_step (pages_of p) pos ReadPage));
    ok_seek : forall c pos k, CI p c pos ->
      if seek_ok strict (pages_of p) k
      then snd (cstep p c (SeekToRow k)) = SeekOk /\ CI p (fst (cstep p c (SeekToRow k))) k
      else snd (cstep p c (SeekToRow k)) = OutOfRange /\ CI p (fst (cstep p c (SeekToRow k))) pos
  }.

  Definition seekable (k : nat) : bool := (0 <? N) || (k =? 0) || negb strict.

  Lemma seek_ok_seekable : forall p k, col_ok p -> seek_ok strict (pages_of p) k = seekable k.
  Proof.
    intros p k Hp. unfold seek_ok, seekable. pose proof (ok_total p Hp) as Ht.
    pose proof (ok_positive p Hp) as Hpos.
    destruct (pages_of p) as [|c rest].
    - cbn in Ht. rewrite <- Ht. reflexivity.
    - inversion Hpos; subst. unfold total_rows in Ht. cbn [first_row length] in Ht.
      replace (0 <? N) with true by (symmetry; apply Nat.ltb_lt; lia). reflexivity.
  Qed.

  Definition colinv (pos : nat) (p : P) (c : colst C) : Prop :=
    exists cp, CI p (ccur c) cp /\ cp = pos + cbc c /\ (0 < cbc c -> cbf c = pos /\ cp <= N).

  Definition minv (ps : list P) (m : mstate C) (pos : nat) : Prop :=
    Forall2 (colinv pos) ps (mcols m) /\ seekable pos = true /\
    match mrow m with Some i => i = pos | None => pos = 0 end.

  Lemma seek_cols_ok : forall ps cs pos k, Forall col_ok ps -> Forall2 (colinv pos) ps cs ->
    seekable k = true ->
    exists cs', seek_cols cstep ps cs k = (cs', true) /\ Forall2 (colinv k) ps (clear_cols cs').
  Proof.
    induction ps as [|p ps IH]; intros cs pos k Hok Hinv Hk;
      inversion Hinv as [|p0 y ps0 l' Hy Hrest]; subst.
    - exists []. split; [reflexivity|constructor].
    - inversion Hok as [|p0 ps0 Hp Hps]; subst. destruct Hy as (cp & Hc & _).
      pose proof (ok_seek p Hp (ccur y) cp k Hc) as Hs. rewrite (seek_ok_seekable p k Hp), Hk in Hs.
      cbn [seek_cols]. destruct (cstep p (ccur y) (SeekToRow k)) as [c' o]. cbn [fst snd] in Hs.
      destruct Hs as (-> & Hc').
      destruct (IH l' pos k Hps Hrest Hk) as (cs' & -> & Hcs').
      eexists. split; [reflexivity|]. cbn [clear_cols map]. constructor; [|exact Hcs'].
      exists k. cbn. repeat split; try assumption; lia.
  Qed.

  Lemma seek_cols_fail : forall ps cs pos k, Forall col_ok ps -> ps <> [] -> Forall2 (colinv pos) ps cs ->
    seekable k = false ->
    exists cs', seek_cols cstep ps cs k = (cs', false) /\ Forall2 (colinv pos) ps cs'.
  Proof.
    intros ps cs pos k Hok Hne Hinv Hk. destruct ps as [|p ps]; [congruence|].
    inversion Hinv as [|p0 y ps0 l' Hy Hrest]; subst. inversion Hok as [|p0 ps0 Hp Hps]; subst.
    destruct Hy as (cp & Hc & Hcp & Hb).
    pose proof (ok_seek p Hp (ccur y) cp k Hc) as Hs. rewrite (seek_ok_seekable p k Hp), Hk in Hs.
    cbn [seek_cols]. destruct (cstep p (ccur y) (SeekToRow k)) as [c' o]. cbn [fst snd] in Hs.
    destruct Hs as (-> & Hc'). eexists. split; [reflexivity|]. constructor; [|assumption].
    exists cp. cbn. repeat split; try assumption; now apply Hb.
  Qed.

  Lemma mr_seek_spec : forall ps m pos k, Forall col_ok ps -> ps <> [] -> minv ps m pos ->
    snd (mr_seek cstep ps m k) = snd (mspec_step strict (length ps) N pos (RSeek k)) /\
    minv ps (fst (mr_seek cstep ps m k)) (fst (mspec_step strict (length ps) N pos (RSeek k))).
  Proof.
    intros ps m pos k Hok Hne (Hcols & Hsk & Hri). unfold mr_seek. cbn [mspec_step].
    fold (seekable k).
    destruct (match mrow m with Some i => i =? k | None => false end) eqn:Esh.
    - destruct (mrow m) as [i|] eqn:Ei; [|discriminate]. apply Nat.eqb_eq in Esh. subst i k.
      rewrite Hsk. cbn. split; [reflexivity|].
      split; [exact Hcols|split; [exact Hsk|now rewrite Ei]].
    - destruct (seekable k) eqn:Ek.
      + destruct (seek_cols_ok ps (mcols m) pos k Hok Hcols Ek) as (cs' & -> & Hcs').
        cbn. split; [reflexivity|].
        split; [exact Hcs'|split; [exact Ek|reflexivity]].
      + destruct (seek_cols_fail ps (mcols m) pos k Hok Hne Hcols Ek) as (cs' & -> & Hcs').
        cbn. split; [reflexivity|].
        split; [exact Hcs'|split; [exact Hsk|exact Hri]].
  Qed.

  Definition eof_flag (n pos : nat) : bool := (0 <? n) && (N - pos <=? n).

  Lemma read_cols_spec : forall ps cs n pos d tail rc ec cs' rows' rc' ec',
    Forall col_ok ps -> Forall2 (colinv pos) ps cs ->
    let cnt := Nat.min n (N - pos) in
    read_cols cstep cfuel ps cs n (map (fun i => repeat i d) (seq pos cnt) ++ tail) rc ec
      = (cs', rows', rc', ec') ->
    Forall2 (colinv (pos + cnt)) ps cs' /\
    rows' = map (fun i => repeat i (d + length ps)) (seq pos cnt) ++ tail /\
    rc' = match ps with [] => rc | _ => Nat.max rc cnt end /\
    ec' = ec + (if eof_flag n pos then length ps else 0).
  Proof.
    induction ps as [|p ps IH]; intros cs n pos d tail rc ec cs' rows' rc' ec' Hok Hinv cnt H;
      inversion Hinv as [|p0 y ps0 l' Hy Hrest]; subst.
    - cbn in H. inversion H; subst. rewrite Nat.add_0_r. repeat split; try constructor.
      cbn [length]. destruct (eof_flag n pos); lia.
    - inversion Hok as [|p0 ps0 H1 Hps]; subst. destruct Hy as (cp & Hc & Hcp & Hb).
      cbn [read_cols] in H.
      destruct (gread_rows (cstep p) (cfuel p) n (ccur y) (cbf y) (cbc y))
        as [[[[c1 bf1] bc1] ids] eof] eqn:Er.
      pose proof (gread_rows_spec C (pages_of p) (cstep p) (CI p) (cfuel p) (ok_fuel p H1) (ok_read p H1)
                    n (ccur y) (cbf y) (cbc y) pos cp c1 bf1 bc1 ids eof Hc Hcp) as Hsp.
      rewrite (ok_total p H1) in Hsp. specialize (Hsp Hb Er). cbv zeta in Hsp.
      destruct Hsp as (-> & -> & cp2 & Hc2 & Hcp2 & Hb2). fold cnt in Hc2, Hcp2, Hb2.
      fold cnt in H. rewrite append_col_seq, seq_length in H.
      destruct (read_cols cstep cfuel ps l' n _ _ _) as [[[cs2 rows2] rc2] ec2] eqn:Erest in H.
      inversion H; subst cs' rows' rc' ec'; clear H.
      apply (IH l' n pos (S d)) in Erest; try assumption. fold cnt in Erest.
      destruct Erest as (Hcs2 & -> & -> & ->).
      split; [constructor; [|exact Hcs2]|].
      { exists cp2. cbn. repeat split; try assumption. all: apply Hb2 in H; lia. }
      split.
      { replace (d + length (p :: ps)) with (S d + length ps) by (cbn [length]; lia). reflexivity. }
      split.
      { destruct ps; lia. }
      fold (eof_flag n pos). cbn [length]. destruct (eof_flag n pos); lia.
  Qed.

  Lemma seekable_advance : forall pos n, seekable pos = true -> seekable (pos + Nat.min n (N - pos)) = true.
  Proof.
    intros pos n H. unfold seekable in *. destruct N as [|N'].
    - cbn in *. now rewrite Nat.min_0_r, Nat.add_0_r.
    - reflexivity.
  Qed.

  Lemma mr_read_some : forall ps m pos n, Forall col_ok ps -> ps <> [] -> minv ps m pos -> mrow m <> None ->
    forall cs rows rowCount eofCount,
    read_cols cstep cfuel ps (mcols m) n (repeat [] n) 0 0 = (cs, rows, rowCount, eofCount) ->
    MRows (firstn rowCount rows) (0 <? eofCount) = snd (mspec_step strict (length ps) N pos (RRead n)) /\
    minv ps (mmk cs (option_map (fun i => i + rowCount) (mrow m))) (fst (mspec_step strict (length ps) N pos (RRead n))).
  Proof.
    intros ps m pos n Hok Hne (Hcols & Hsk & Hri) Hsome cs rows rowCount eofCount H.
    set (cnt := Nat.min n (N - pos)).
    assert (Hrep : repeat (@nil nat) n = map (fun i => repeat i 0) (seq pos cnt) ++ repeat [] (n - cnt)).
    { replace n with (cnt + (n - cnt)) at 1 by lia. rewrite repeat_app. f_equal.
      clear. generalize pos. induction cnt as [|c IH]; intros; [reflexivity|]. cbn. f_equal. apply IH. }
    rewrite Hrep in H.
    apply (read_cols_spec ps (mcols m) n pos 0) in H; try assumption. fold cnt in H.
    destruct H as (Hcs & -> & -> & ->). cbn [mspec_step fst snd]. fold cnt.
    assert (Hrc : match ps with [] => 0 | _ :: _ => Nat.max 0 cnt end = cnt) by (destruct ps; [congruence|lia]).
    rewrite Hrc. split.
    - f_equal.
      + rewrite firstn_app, firstn_all2 by (rewrite map_length, seq_length; lia).
        rewrite map_length, seq_length, Nat.sub_diag. cbn. now rewrite app_nil_r.
      + fold (eof_flag n pos). destruct (eof_flag n pos); [|reflexivity].
        destruct ps; [congruence|reflexivity].
    - split; [exact Hcs|]. split; [now apply seekable_advance|].
      cbn [mrow]. destruct (mrow m) as [i|]; [|congruence]. cbn. lia.
  Qed.

  Lemma mr_read_spec : forall ps m pos n, Forall col_ok ps -> ps <> [] -> minv ps m pos ->
    snd (mr_read cstep cfuel false ps m n) = snd (mspec_step strict (length ps) N pos (RRead n)) /\
    minv ps (fst (mr_read cstep cfuel false ps m n)) (fst (mspec_step strict (length ps) N pos (RRead n))).
  Proof.
    intros ps m pos n Hok Hne Hm. unfold mr_read. destruct (mrow m) as [i|] eqn:Ei.
    - destruct (read_cols cstep cfuel ps (mcols m) n (repeat [] n) 0 0) as [[[cs rows] rc] ec] eqn:Er.
      cbn [andb fst snd].
      apply (mr_read_some ps m pos n Hok Hne Hm); [congruence|exact Er].
    - (* first call: SeekToRow(0) *)
      assert (Hp0 : pos = 0) by (destruct Hm as (_ & _ & Hri); now rewrite Ei in Hri). subst pos.
      destruct (mr_seek_spec ps m 0 0 Hok Hne Hm) as (Ho & Hm1).
      cbn [mspec_step fst snd] in Ho, Hm1.
      replace ((0 <? N) || (0 =? 0) || negb strict) with true in Ho, Hm1
        by (destruct (0 <? N); reflexivity).
      cbn [fst snd] in Ho, Hm1.
      destruct (mr_seek cstep ps m 0) as [m1 e] eqn:Es. cbn [fst snd] in Ho, Hm1. subst e.
      assert (Hrow : mrow m1 = Some 0).
      { unfold mr_seek in Es. rewrite Ei in Es.
        destruct (seek_cols cstep ps (mcols m) 0) as [cs [|]]; inversion Es; subst; reflexivity. }
      destruct (read_cols cstep cfuel ps (mcols m1) n (repeat [] n) 0 0) as [[[cs rows] rc] ec] eqn:Er.
      cbn [andb fst snd].
      apply (mr_read_some ps m1 0 n Hok Hne Hm1); [congruence|exact Er].
  Qed.

  Lemma seekable_0 : seekable 0 = true.
  Proof. unfold seekable. destruct (0 <? N); reflexivity. Qed.

  Lemma reset_cols_ok : forall ps cs pos, Forall col_ok ps -> Forall2 (colinv pos) ps cs ->
    Forall2 (colinv 0) ps (reset_cols cstep ps cs).
  Proof.
    induction ps as [|p ps IH]; intros cs pos Hok Hinv;
      inversion Hinv as [|p0 y ps0 l' Hy Hrest]; subst; [constructor|].
    inversion Hok as [|p0 ps0 H4 Hps]; subst. destruct Hy as (cp & Hc & _).
    pose proof (ok_seek p H4 (ccur y) cp 0 Hc) as Hs.
    rewrite (seek_ok_seekable p 0 H4), seekable_0 in Hs. destruct Hs as (_ & Hc').
    cbn [reset_cols]. constructor; [|now apply (IH l' pos)].
    exists 0. cbn. repeat split; try assumption; lia.
  Qed.

  Lemma mr_step_spec : forall ps m pos o, Forall col_ok ps -> ps <> [] -> minv ps m pos ->
    snd (mr_step cstep cfuel false ps m o) = snd (mspec_step strict (length ps) N pos o) /\
    minv ps (fst (mr_step cstep cfuel false ps m o)) (fst (mspec_step strict (length ps) N pos o)).
  Proof.
    intros ps m pos o Hok Hne Hm. destruct o as [n|k|]; cbn [mr_step].
    - now apply mr_read_spec.
    - now apply mr_seek_spec.
    - cbn. split; [reflexivity|]. destruct Hm as (Hcols & _ & _).
      split; [now apply (reset_cols_ok ps (mcols m) pos)|]. split; [exact seekable_0|reflexivity].
  Qed.

  Lemma minv_init : forall ps, Forall col_ok ps -> minv ps (minit cinit ps) 0.
  Proof.
    intros ps Hok. split; [|split; [exact seekable_0|reflexivity]]. unfold minit; cbn [mcols].
    induction Hok as [|p ps Hp _ IH]; [constructor|]. cbn [map]. constructor; [|exact IH].
    exists 0. cbn. repeat split; try lia. exact (ok_init p Hp).
  Qed.

  Theorem multi_rows_refines : forall ps ops, Forall col_ok ps -> ps <> [] ->
    run (mr_step cstep cfuel false ps) (minit cinit ps) ops = run (mspec_step strict (length ps) N) 0 ops.
  Proof.
    intros ps ops Hok Hne.
    apply (run_refines _ _ _ _ _ _ (minv ps)).
    - intros. now apply mr_step_spec.
    - now apply minv_init.
  Qed.
End MultiColumnProofs.

(** * multiPages: the concatenation of the chunks of a column *)

Lemma total_rows_cons : forall c rest, total_rows (c :: rest) = c + total_rows rest.
Proof. reflexivity. Qed.

Lemma total_rows_app : forall a b, total_rows (a ++ b) = total_rows a + total_rows b.
Proof.
  induction a as [|c a IH]; intros b; [reflexivity|].
  cbn [app]. rewrite !total_rows_cons, IH. lia.
Qed.

Lemma positive_concat : forall chunks, Forall positive chunks -> positive (concat chunks).
Proof.
  induction 1 as [|pg chunks Hp _ IH]; [constructor|]. cbn [concat]. apply Forall_app. now split.
Qed.

Lemma mp_offset_0 : forall chunks, mp_offset chunks 0 = 0.
Proof. destruct chunks; reflexivity. Qed.

Lemma mp_offset_S : forall chunks j pg, nth_error chunks j = Some pg ->
  mp_offset chunks (S j) = mp_offset chunks j + total_rows pg.
Proof.
  induction chunks as [|c rest IH]; intros j pg H; [destruct j; discriminate|].
  destruct j as [|j]; cbn in H.
  - inversion H; subst. cbn [mp_offset]. rewrite mp_offset_0. lia.
  - cbn [mp_offset]. rewrite (IH j pg H). cbn [mp_offset]. lia.
Qed.

Lemma mp_offset_all : forall chunks, mp_offset chunks (length chunks) = total_rows (concat chunks).
Proof.
  induction chunks as [|c rest IH]; [reflexivity|].
  cbn [mp_offset length concat]. rewrite total_rows_app, IH. reflexivity.
Qed.

Lemma page_end_shift : forall pg b1 b2 x,
  page_end pg (b1 + b2) (b1 + x) = option_map (Nat.add b1) (page_end pg b2 x).
Proof.
  induction pg as [|c rest IH]; intros b1 b2 x; [reflexivity|].
  cbn [page_end]. 
  replace (b1 + x <? b1 + b2 + c) with (x <? b2 + c)
    by (destruct (Nat.ltb_spec x (b2 + c)), (Nat.ltb_spec (b1 + x) (b1 + b2 + c)); try reflexivity; lia).
  destruct (x <? b2 + c).
  - cbn. f_equal. lia.
  - replace (b1 + b2 + c) with (b1 + (b2 + c)) by lia. apply IH.
Qed.

Lemma page_end_app : forall a b base pos,
  page_end (a ++ b) base pos =
  match page_end a base pos with Some e => Some e | None => page_end b (base + total_rows a) pos end.
Proof.
  induction a as [|c a IH]; intros b base pos.
  - cbn. now rewrite Nat.add_0_r.
  - cbn [app page_end]. destruct (pos <? base + c); [reflexivity|].
    rewrite IH, total_rows_cons. replace (base + c + total_rows a) with (base + (c + total_rows a)) by lia.
    reflexivity.
Qed.

Lemma page_end_concat : forall chunks j pg lp base, nth_error chunks j = Some pg ->
  page_end (concat chunks) base (base + mp_offset chunks j + lp) =
  match page_end pg 0 lp with
  | Some e => Some (base + mp_offset chunks j + e)
  | None => page_end (concat (skipn (S j) chunks)) (base + mp_offset chunks (S j)) (base + mp_offset chunks j + lp)
  end.
Proof.
  induction chunks as [|c rest IH]; intros j pg lp base H; [destruct j; discriminate|].
  destruct j as [|j]; cbn in H.
  - inversion H; subst. cbn [concat skipn mp_offset]. rewrite page_end_app, mp_offset_0.
    replace (base + 0 + lp) with (base + lp) by lia.
    replace base with (base + 0) at 1 by lia. rewrite page_end_shift.
    destruct (page_end pg 0 lp) as [e|]; cbn; [f_equal; lia|].
    f_equal; lia.
  - cbn [concat mp_offset]. rewrite page_end_app.
    rewrite page_end_beyond by lia.
    replace (base + (total_rows c + mp_offset rest j) + lp) with (base + total_rows c + mp_offset rest j + lp) by lia.
    rewrite (IH j pg lp (base + total_rows c) H).
    destruct (page_end pg 0 lp) as [e|]; [f_equal; lia|].
    cbn [skipn]. f_equal; lia.
Qed.

Lemma mp_locate_spec : forall rest i k idx k',
  mp_locate (map total_rows rest) i k = (idx, k') ->
  exists d, idx = i + d /\ d <= length rest /\ k = mp_offset rest d + k' /\
            (d < length rest -> k' < total_rows (nth d rest [])).
Proof.
  induction rest as [|c rest IH]; intros i k idx k' H.
  - cbn in H. inversion H; subst. exists 0. cbn. repeat split; lia.
  - cbn [map mp_locate] in H. destruct (k <? total_rows c) eqn:E.
    + apply Nat.ltb_lt in E. inversion H; subst. exists 0. cbn. repeat split; try lia. intros _. exact E.
    + apply Nat.ltb_ge in E. apply IH in H. destruct H as (d & -> & Hd & Hk & Hlt).
      exists (S d). cbn [length mp_offset nth]. repeat split; lia.
Qed.

Section MultiPagesProofs.
  Variable cstep : chunk -> state -> op -> state * out.
  Variable CI : chunk -> state -> nat -> Prop.
  Hypothesis CI_init : forall pg, CI pg init 0.
  Hypothesis Hread : forall pg, positive pg -> forall c p, CI pg c p ->
    snd (cstep pg c ReadPage) = snd (spec_step pg p ReadPage) /\
    CI pg (fst (cstep pg c ReadPage)) (fst (spec_step pg p ReadPage)).
  Hypothesis Hseek : forall pg, positive pg -> pg <> [] -> forall c p k, CI pg c p ->
    snd (cstep pg c (SeekToRow k)) = SeekOk /\ CI pg (fst (cstep pg c (SeekToRow k))) k.

  Variable chunks : list chunk.
  Hypothesis Hpos : Forall positive chunks.

  Definition mp_inv (m : mpstate) (pos : nat) : Prop :=
    mp_index m <= length chunks /\
    match mp_pages m with
    | Some c => exists j pg lp, mp_index m = S j /\ nth_error chunks j = Some pg /\
                  CI pg c lp /\ lp <= total_rows pg /\ pos = mp_offset chunks j + lp
    | None => (mp_index m < length chunks -> pos = mp_offset chunks (mp_index m)) /\
              (mp_index m = length chunks -> mp_offset chunks (length chunks) <= pos)
    end.

  Definition mp_ok (r : mpstate * out) (pos : nat) : Prop :=
    snd r = snd (spec_step (concat chunks) pos ReadPage) /\
    mp_inv (fst r) (fst (spec_step (concat chunks) pos ReadPage)).

  Definition mp_next (f : nat) (idx : nat) : mpstate * out :=
    if idx =? length chunks then (mpmk None idx, EOF)
    else mp_read cstep f chunks (mpmk (Some init) (S idx)).

  Lemma mp_read_unfold : forall f m,
    mp_read cstep (S f) chunks m =
    match mp_pages m with
    | Some c =>
        match cstep (nth (mp_index m - 1) chunks []) c ReadPage with
        | (_, EOF) => mp_next f (mp_index m)
        | (c', o) => (mpmk (Some c') (mp_index m), shift_out (mp_offset chunks (mp_index m - 1)) o)
        end
    | None => mp_next f (mp_index m)
    end.
  Proof.
    intros f [[c|] idx]; cbn [mp_read mp_pages mp_index]; unfold mp_next.
    - destruct (cstep (nth (idx - 1) chunks []) c ReadPage) as [c' [fr cnt| | | |]]; reflexivity.
    - reflexivity.
  Qed.

  Lemma nth_error_positive_chunk : forall j pg, nth_error chunks j = Some pg -> positive pg.
  Proof.
    intros j pg H. apply nth_error_In in H. rewrite Forall_forall in Hpos. now apply Hpos.
  Qed.

  Lemma mp_read_ok : forall f m pos, mp_inv m pos -> length chunks + 1 - mp_index m <= f ->
    mp_ok (mp_read cstep f chunks m) pos.
  Proof.
    induction f as [|f IH]; intros m pos (Hle & Hm) Hf; [lia|].
    assert (Next : forall idx p, idx <= length chunks ->
              (idx < length chunks -> p = mp_offset chunks idx) ->
              (idx = length chunks -> mp_offset chunks (length chunks) <= p) ->
              length chunks + 1 - idx <= S f -> mp_ok (mp_next f idx) p).
    { intros idx p Hi Hlt Heq Hfu. unfold mp_next. destruct (Nat.eqb_spec idx (length chunks)) as [E|E].
      - specialize (Heq E). unfold mp_ok. rewrite spec_read_eq.
        rewrite page_end_beyond by (rewrite <- mp_offset_all; lia). cbn.
        split; [reflexivity|]. split; [cbn; lia|]. cbn. split; [lia|]. intros _. exact Heq.
      - assert (Hl : idx < length chunks) by lia. specialize (Hlt Hl).
        destruct (nth_error chunks idx) as [pg|] eqn:En; [|apply nth_error_None in En; lia].
        apply IH; [|cbn; lia]. split; [cbn; lia|]. cbn.
        exists idx, pg, 0. repeat split; try assumption; try lia. apply CI_init. }
    rewrite mp_read_unfold. destruct (mp_pages m) as [c|] eqn:Ep.
    - destruct Hm as (j & pg & lp & Hidx & Hn & Hc & Hlp & Hp). rewrite Hidx.
      replace (S j - 1) with j by lia. rewrite (nth_error_nth chunks j [] Hn).
      pose proof (nth_error_positive_chunk j pg Hn) as Hpg.
      destruct (Hread pg Hpg c lp Hc) as (Ho & Hc'). rewrite spec_read_eq in Ho, Hc'.
      destruct (cstep pg c ReadPage) as [c' o]. cbn [fst snd] in Ho, Hc'.
      pose proof (page_end_concat chunks j pg lp 0 Hn) as Hpe. cbn [Nat.add] in Hpe. rewrite <- Hp in Hpe.
      destruct (page_end pg 0 lp) as [e|] eqn:Ee.
      + cbn in Ho, Hc'. subst o. pose proof (page_end_bounds _ _ _ _ Ee) as (Hlt & Hle'). cbn in Hle'.
        unfold mp_ok. rewrite spec_read_eq, Hpe. cbn.
        split; [f_equal; lia|]. split; [cbn; lia|]. cbn.
        exists j, pg, e. repeat split; try assumption; lia.
      + cbn in Ho, Hc'. subst o.
        apply page_end_none in Ee; [|lia]. cbn in Ee. assert (lp = total_rows pg) by lia. subst lp.
        apply Next; try lia.
        * intros _. rewrite (mp_offset_S _ _ _ Hn). exact Hp.
        * intros E. rewrite <- E at 1. rewrite (mp_offset_S _ _ _ Hn). lia.
    - destruct Hm as (H1 & H2). apply Next; try assumption; lia.
  Qed.

  Lemma mp_inv_init : mp_inv mpinit 0.
  Proof.
    split; [cbn; lia|]. cbn. split.
    - intros _. now rewrite mp_offset_0.
    - intros E. rewrite <- E. now rewrite mp_offset_0.
  Qed.

  Lemma mp_step_refines : forall m pos o, mp_inv m pos ->
    snd (mp_step cstep chunks m o) = snd (spec_step_noindex (concat chunks) pos o) /\
    mp_inv (fst (mp_step cstep chunks m o)) (fst (spec_step_noindex (concat chunks) pos o)).
  Proof.
    intros m pos o Hm. destruct o as [|k]; cbn [mp_step spec_step_noindex].
    - apply (mp_read_ok (S (length chunks)) m pos Hm). lia.
    - unfold mp_seek. destruct (mp_locate (map total_rows chunks) 0 k) as [idx k'] eqn:El.
      apply mp_locate_spec in El. destruct El as (d & -> & Hd & Hk & Hlt). cbn [Nat.add].
      destruct (Nat.ltb_spec d (length chunks)) as [Hl|Hl].
      + specialize (Hlt Hl).
        destruct (nth_error chunks d) as [pg|] eqn:En; [|apply nth_error_None in En; lia].
        rewrite (nth_error_nth chunks d [] En) in *.
        assert (Hne : pg <> []) by (intros ->; cbn in Hlt; lia).
        pose proof (CI_init pg) as Hc0.
        destruct (Hseek pg (nth_error_positive_chunk d pg En) Hne init 0 k' Hc0) as (Ho & Hc').
        destruct (cstep pg init (SeekToRow k')) as [c' o]. cbn [fst snd] in *. subst o.
        split; [reflexivity|]. split; [cbn; lia|]. cbn.
        exists d, pg, k'. repeat split; try assumption; lia.
      + cbn. split; [reflexivity|]. assert (d = length chunks) by lia. subst d.
        split; [cbn; lia|]. cbn. split; [lia|]. intros _. lia.
  Qed.
End MultiPagesProofs.

(** * reader / Reader / GenericReader over any rows that refine the position *)
Section ReaderLayersProofs.
  Variable M : Type.
  Variable mstep : M -> rop -> M * mout.
  Variable mfresh : M.
  Variable MI : M -> nat -> Prop.
  Variables ncols N : nat.
  Hypothesis Hfresh : MI mfresh 0.
  Hypothesis Hm : forall m pos o, MI m pos ->
    snd (mstep m o) = snd (mspec_step false ncols N pos o) /\
    MI (fst (mstep m o)) (fst (mspec_step false ncols N pos o)).

  Definition rd_inv (r : rdstate M) : Prop :=
    match rd_rows r with Some m => MI m (rd_index r) | None => True end.

  Lemma mspec_seek_false : forall pos k, mspec_step false ncols N pos (RSeek k) = (k, MSeekOk).
  Proof. intros. cbn. now rewrite orb_true_r. Qed.

  Lemma rd_seek_spec : forall r k, rd_inv r ->
    snd (rd_seek mstep r k) = MSeekOk /\ rd_inv (fst (rd_seek mstep r k)) /\
    rd_index (fst (rd_seek mstep r k)) = k.
  Proof.
    intros r k Hr. unfold rd_seek. destruct (Nat.eqb_spec k (rd_index r)) as [E|E].
    - cbn. repeat split; [assumption|now symmetry].
    - unfold rd_inv in Hr. destruct (rd_rows r) as [m|] eqn:Em.
      + destruct (Hm m (rd_index r) (RSeek k) Hr) as (Ho & Hi). rewrite mspec_seek_false in Ho, Hi.
        destruct (mstep m (RSeek k)) as [m' e]. cbn [fst snd] in *. subst e.
        cbn. repeat split. exact Hi.
      + cbn. repeat split.
  Qed.

  Lemma rd_read_spec : forall r n, rd_inv r ->
    snd (rd_read mstep mfresh r n) = snd (mspec_step false ncols N (rd_index r) (RRead n)) /\
    rd_inv (fst (rd_read mstep mfresh r n)) /\
    rd_index (fst (rd_read mstep mfresh r n)) = rd_index r + Nat.min n (N - rd_index r).
  Proof.
    intros r n Hr. unfold rd_read.
    assert (Hpre : exists m,
              match rd_rows r with
              | Some m => (m, MSeekOk)
              | None => if 0 <? rd_index r then mstep mfresh (RSeek (rd_index r)) else (mfresh, MSeekOk)
              end = (m, MSeekOk) /\ MI m (rd_index r)).
    { unfold rd_inv in Hr. destruct (rd_rows r) as [m|].
      - exists m. now split.
      - destruct (Nat.ltb_spec 0 (rd_index r)) as [E|E].
        + destruct (Hm mfresh 0 (RSeek (rd_index r)) Hfresh) as (Ho & Hi).
          rewrite mspec_seek_false in Ho, Hi.
          destruct (mstep mfresh (RSeek (rd_index r))) as [m' e]. cbn [fst snd] in *. subst e.
          exists m'. now split.
        + exists mfresh. split; [reflexivity|]. replace (rd_index r) with 0 by lia. exact Hfresh. }
    destruct Hpre as (m & -> & Hmi).
    destruct (Hm m (rd_index r) (RRead n) Hmi) as (Ho & Hi).
    destruct (mstep m (RRead n)) as [m' o]. cbn [fst snd] in *. subst o.
    cbn [mspec_step fst snd mout_count] in *. rewrite map_length, seq_length.
    repeat split. exact Hi.
  Qed.

  Lemma rd_reset_spec : forall r, rd_inv r -> rd_inv (rd_reset mstep r) /\ rd_index (rd_reset mstep r) = 0.
  Proof.
    intros r Hr. unfold rd_reset, rd_inv in *. cbn. split; [|reflexivity].
    destruct (rd_rows r) as [m|]; [|exact I]. cbn.
    destruct (Hm m (rd_index r) RReset Hr) as (_ & Hi). exact Hi.
  Qed.

  Definition x_inv (x : xstate M) (pos : nat) : Prop :=
    rd_inv (x_file x) /\ rd_inv (x_read x) /\ x_index x = pos.

  Lemma x_readrows_spec : forall x pos n, x_inv x pos ->
    snd (x_readrows mstep mfresh x n) = snd (mspec_step false ncols N pos (RRead n)) /\
    x_inv (fst (x_readrows mstep mfresh x n)) (fst (mspec_step false ncols N pos (RRead n))).
  Proof.
    intros x pos n (Hf & Hr & Hi). unfold x_readrows. rewrite Hi.
    destruct (rd_seek_spec (x_file x) pos Hf) as (He & Hf1 & Hidx).
    destruct (rd_seek mstep (x_file x) pos) as [f e]. cbn [fst snd] in *. subst e.
    destruct (rd_read_spec f n Hf1) as (Ho & Hf2 & Hidx2).
    destruct (rd_read mstep mfresh f n) as [f' o]. cbn [fst snd] in *. subst o.
    rewrite Hidx. split; [reflexivity|]. cbn [mspec_step fst snd mout_count].
    rewrite map_length, seq_length. repeat split; assumption.
  Qed.

  Lemma x_step_spec : forall x pos o, x_inv x pos ->
    snd (x_step mstep mfresh x o) = snd (xspec_step ncols N pos o) /\
    x_inv (fst (x_step mstep mfresh x o)) (fst (xspec_step ncols N pos o)).
  Proof.
    intros x pos o Hx. destruct o as [n| |n|k|]; cbn [x_step xspec_step].
    - now apply x_readrows_spec.
    - (* Reader.Read *)
      destruct Hx as (Hf & Hr & Hi). unfold x_read1. rewrite Hi.
      destruct (rd_seek_spec (x_read x) pos Hr) as (He & Hr1 & Hidx).
      destruct (rd_seek mstep (x_read x) pos) as [r e]. cbn [fst snd] in *. subst e.
      destruct (rd_read_spec r 1 Hr1) as (Ho & Hr2 & _).
      destruct (rd_read mstep mfresh r 1) as [r' o]. cbn [fst snd] in *. subst o.
      rewrite Hidx. cbn [mspec_step snd].
      destruct (Nat.ltb_spec pos N) as [E|E].
      + replace (Nat.min 1 (N - pos)) with 1 by lia. cbn [seq map fst snd].
        repeat split; assumption.
      + replace (Nat.min 1 (N - pos)) with 0 by lia. cbn [seq map fst snd].
        replace (N - pos <=? 1) with true by (symmetry; apply Nat.leb_le; lia).
        cbn. repeat split; assumption.
    - (* GenericReader.Read: the first ReadRows ends the loop *)
      cbn [x_gread_loop].
      destruct (x_readrows_spec x pos n Hx) as (Ho & Hx').
      destruct (x_readrows mstep mfresh x n) as [x' o]. cbn [fst snd] in Ho, Hx'. subst o.
      cbn [mspec_step snd fst] in *. rewrite map_length, seq_length.
      assert (Hstop : (Nat.min n (N - pos) =? 0) || (Nat.min n (N - pos) =? n)
                      || ((0 <? n) && (N - pos <=? n)) = true).
      { destruct (Nat.eqb_spec (Nat.min n (N - pos)) n) as [E|E]; [now rewrite orb_true_r|].
        replace (0 <? n) with true by (symmetry; apply Nat.ltb_lt; lia).
        replace (N - pos <=? n) with true by (symmetry; apply Nat.leb_le; lia).
        now rewrite orb_true_r. }
      rewrite Hstop. cbn [app fst snd]. split; [reflexivity|exact Hx'].
    - destruct Hx as (Hf & Hr & Hi). unfold x_seek.
      destruct (rd_seek_spec (x_file x) k Hf) as (He & Hf1 & Hidx).
      destruct (rd_seek mstep (x_file x) k) as [f e]. cbn [fst snd] in *. subst e.
      cbn. repeat split; assumption.
    - destruct Hx as (Hf & Hr & Hi). cbn. split; [reflexivity|].
      split; [apply rd_reset_spec; assumption|]. split; [apply rd_reset_spec; assumption|reflexivity].
  Qed.

  Theorem reader_layers_refine : forall ops,
    run (x_step mstep mfresh) xinit ops = run (xspec_step ncols N) 0 ops.
  Proof.
    intros ops. apply (run_refines _ _ _ _ _ _ x_inv).
    - intros. now apply x_step_spec.
    - repeat split.
  Qed.
End ReaderLayersProofs.

(** * Instances: the page cursors of the current code *)

Lemma col_ok_indexed : forall N pg, positive pg -> total_rows pg = N ->
  col_ok state chunk step_indexed page_fuel init (fun pg => pg) inv_indexed true N pg.
Proof.
  intros N pg Hp Ht. constructor; try assumption.
  - unfold page_fuel. lia.
  - apply inv_indexed_init.
  - intros c pos Hc. exact (step_indexed_refines pg Hp c pos ReadPage Hc).
  - intros c pos k Hc. now apply indexed_seek_hyp.
Qed.

Lemma col_ok_noindex : forall N pg, positive pg -> total_rows pg = N ->
  col_ok state chunk (step_noindex false) page_fuel init (fun pg => pg) inv_stream false N pg.
Proof.
  intros N pg Hp Ht. constructor; try assumption.
  - unfold page_fuel. lia.
  - apply inv_stream_init.
  - intros c pos Hc. exact (step_noindex_refines false pg Hp c pos ReadPage Hc).
  - intros c pos k Hc. now apply noindex_seek_hyp.
Qed.

Definition layout_ok (N : nat) (cols : list chunk) : Prop :=
  cols <> [] /\ Forall (fun pg => positive pg /\ total_rows pg = N) cols.

Theorem mrows_indexed_refines : forall N cols ops, layout_ok N cols ->
  run_mrows_indexed cols ops = run_mspec true (length cols) N ops.
Proof.
  intros N cols ops (Hne & Hall). unfold run_mrows_indexed, mrows_step_indexed, run_mspec.
  apply (multi_rows_refines state chunk step_indexed page_fuel init (fun pg => pg) inv_indexed true N);
    [|assumption].
  eapply Forall_impl; [|exact Hall]. intros pg (Hp & Ht). now apply col_ok_indexed.
Qed.

Theorem mrows_noindex_refines : forall N cols ops, layout_ok N cols ->
  run_mrows_noindex cols ops = run_mspec false (length cols) N ops.
Proof.
  intros N cols ops (Hne & Hall). unfold run_mrows_noindex, mrows_step_noindex, run_mspec.
  apply (multi_rows_refines state chunk (step_noindex false) page_fuel init (fun pg => pg) inv_stream false N);
    [|assumption].
  eapply Forall_impl; [|exact Hall]. intros pg (Hp & Ht). now apply col_ok_noindex.
Qed.

(** multiPages over either cursor *)
Lemma indexed_seek_nonempty : forall pg, positive pg -> pg <> [] -> forall c p k, inv_indexed pg c p ->
  snd (step_indexed pg c (SeekToRow k)) = SeekOk /\ inv_indexed pg (fst (step_indexed pg c (SeekToRow k))) k.
Proof.
  intros pg Hp Hne c p k Hc. pose proof (indexed_seek_hyp pg Hp c p k Hc) as H.
  destruct pg; [congruence|]. exact H.
Qed.

Lemma noindex_seek_always : forall pg, positive pg -> pg <> [] -> forall c p k, inv_stream pg c p ->
  snd (step_noindex false pg c (SeekToRow k)) = SeekOk /\
  inv_stream pg (fst (step_noindex false pg c (SeekToRow k))) k.
Proof.
  intros pg Hp _ c p k Hc. pose proof (noindex_seek_hyp false pg Hp c p k Hc) as H.
  replace (seek_ok false pg k) with true in H
    by (unfold seek_ok; destruct pg; [now rewrite orb_true_r|reflexivity]).
  exact H.
Qed.

Theorem mpages_indexed_refines : forall chunks ops, Forall positive chunks ->
  run_mpages_indexed chunks ops = run_spec_noindex (concat chunks) ops.
Proof.
  intros chunks ops Hp. unfold run_mpages_indexed, run_spec_noindex.
  apply (run_refines _ _ _ _ _ _ (mp_inv inv_indexed chunks)).
  - intros s p o Hi. apply (mp_step_refines step_indexed inv_indexed); try assumption.
    + apply inv_indexed_init.
    + intros pg Hpg c q Hc. exact (step_indexed_refines pg Hpg c q ReadPage Hc).
    + exact indexed_seek_nonempty.
  - apply mp_inv_init.
Qed.

Theorem mpages_noindex_refines : forall chunks ops, Forall positive chunks ->
  run_mpages_noindex chunks ops = run_spec_noindex (concat chunks) ops.
Proof.
  intros chunks ops Hp. unfold run_mpages_noindex, run_spec_noindex.
  apply (run_refines _ _ _ _ _ _ (mp_inv inv_stream chunks)).
  - intros s p o Hi. apply (mp_step_refines (step_noindex false) inv_stream); try assumption.
    + apply inv_stream_init.
    + intros pg Hpg c q Hc. exact (step_noindex_refines false pg Hpg c q ReadPage Hc).
    + exact noindex_seek_always.
  - apply mp_inv_init.
Qed.

Section MultiPagesColumn.
  Variable cstep : chunk -> state -> op -> state * out.
  Variable CI : chunk -> state -> nat -> Prop.
  Hypothesis CI_init : forall pg, CI pg init 0.
  Hypothesis Hread : forall pg, positive pg -> forall c p, CI pg c p ->
    snd (cstep pg c ReadPage) = snd (spec_step pg p ReadPage) /\
    CI pg (fst (cstep pg c ReadPage)) (fst (spec_step pg p ReadPage)).
  Hypothesis Hseek : forall pg, positive pg -> pg <> [] -> forall c p k, CI pg c p ->
    snd (cstep pg c (SeekToRow k)) = SeekOk /\ CI pg (fst (cstep pg c (SeekToRow k))) k.

  Lemma col_ok_mpages : forall N chunks, Forall positive chunks -> total_rows (concat chunks) = N ->
    col_ok mpstate (list chunk) (mp_step cstep) chunks_fuel mpinit (@concat nat) (mp_inv CI) false N chunks.
  Proof.
    intros N chunks Hp Ht. constructor; try assumption.
    - unfold chunks_fuel. lia.
    - now apply positive_concat.
    - apply mp_inv_init.
    - intros c pos Hc.
      exact (mp_step_refines cstep CI CI_init Hread Hseek chunks Hp c pos ReadPage Hc).
    - intros c pos k Hc.
      replace (seek_ok false (concat chunks) k) with true
        by (unfold seek_ok; destruct (concat chunks); [now rewrite orb_true_r|reflexivity]).
      exact (mp_step_refines cstep CI CI_init Hread Hseek chunks Hp c pos (SeekToRow k) Hc).
  Qed.
End MultiPagesColumn.

(** A file: for every column, the page layout of its chunk in every row
    group; [rg_rows]: the number of rows of every row group. *)
Definition file_ok (rg_rows : list nat) (cols : list (list chunk)) : Prop :=
  cols <> [] /\ Forall (fun col => Forall positive col /\ map total_rows col = rg_rows) cols.

Lemma total_rows_concat : forall col, total_rows (concat col) = list_sum (map total_rows col).
Proof.
  induction col as [|pg col IH]; [reflexivity|]. cbn [concat map list_sum].
  now rewrite total_rows_app, IH.
Qed.

Theorem mgrows_indexed_refines : forall rg_rows cols ops, file_ok rg_rows cols ->
  run_mgrows_indexed cols ops = run_mspec false (length cols) (list_sum rg_rows) ops.
Proof.
  intros rg_rows cols ops (Hne & Hall). unfold run_mgrows_indexed, mgrows_step_indexed, run_mspec.
  apply (multi_rows_refines mpstate (list chunk) (mp_step step_indexed) chunks_fuel mpinit (@concat nat)
           (mp_inv inv_indexed) false (list_sum rg_rows)); [|assumption].
  eapply Forall_impl; [|exact Hall]. intros col (Hp & Ht).
  apply col_ok_mpages; try assumption.
  - apply inv_indexed_init.
  - intros pg Hpg c q Hc. exact (step_indexed_refines pg Hpg c q ReadPage Hc).
  - exact indexed_seek_nonempty.
  - now rewrite total_rows_concat, Ht.
Qed.

Theorem mgrows_noindex_refines : forall rg_rows cols ops, file_ok rg_rows cols ->
  run_mgrows_noindex cols ops = run_mspec false (length cols) (list_sum rg_rows) ops.
Proof.
  intros rg_rows cols ops (Hne & Hall). unfold run_mgrows_noindex, mgrows_step_noindex, run_mspec.
  apply (multi_rows_refines mpstate (list chunk) (mp_step (step_noindex false)) chunks_fuel mpinit (@concat nat)
           (mp_inv inv_stream) false (list_sum rg_rows)); [|assumption].
  eapply Forall_impl; [|exact Hall]. intros col (Hp & Ht).
  apply col_ok_mpages; try assumption.
  - apply inv_stream_init.
  - intros pg Hpg c q Hc. exact (step_noindex_refines false pg Hpg c q ReadPage Hc).
  - exact noindex_seek_always.
  - now rewrite total_rows_concat, Ht.
Qed.

(** * Reader / GenericReader over files *)

Lemma mspec_strict_irrelevant : forall ncols N pos o, 0 < N ->
  mspec_step true ncols N pos o = mspec_step false ncols N pos o.
Proof.
  intros ncols N pos o HN. destruct o as [n|k|]; try reflexivity. cbn [mspec_step].
  replace (0 <? N) with true by (symmetry; apply Nat.ltb_lt; lia). reflexivity.
Qed.

Theorem reader_indexed_refines : forall rg_rows cols ops, file_ok rg_rows cols ->
  run_reader_indexed cols ops = run_xspec (length cols) (list_sum rg_rows) ops.
Proof.
  intros rg_rows cols ops (Hne & Hall). unfold run_reader_indexed, run_xspec.
  assert (Hok : Forall (col_ok mpstate (list chunk) (mp_step step_indexed) chunks_fuel mpinit (@concat nat)
                          (mp_inv inv_indexed) false (list_sum rg_rows)) cols).
  { eapply Forall_impl; [|exact Hall]. intros col (Hp & Ht).
    apply col_ok_mpages; try assumption.
    - apply inv_indexed_init.
    - intros pg Hpg c q Hc. exact (step_indexed_refines pg Hpg c q ReadPage Hc).
    - exact indexed_seek_nonempty.
    - now rewrite total_rows_concat, Ht. }
  apply (reader_layers_refine _ _ _
           (minv mpstate (list chunk) (mp_inv inv_indexed) false (list_sum rg_rows) cols)).
  - now apply (minv_init mpstate (list chunk) (mp_step step_indexed) chunks_fuel mpinit (@concat nat)).
  - intros m pos o Hi. unfold mgrows_step_indexed.
    now apply (mr_step_spec mpstate (list chunk) (mp_step step_indexed) chunks_fuel mpinit (@concat nat)).
Qed.

Theorem reader_noindex_refines : forall rg_rows cols ops, file_ok rg_rows cols ->
  run_reader_noindex cols ops = run_xspec (length cols) (list_sum rg_rows) ops.
Proof.
  intros rg_rows cols ops (Hne & Hall). unfold run_reader_noindex, run_xspec.
  assert (Hok : Forall (col_ok mpstate (list chunk) (mp_step (step_noindex false)) chunks_fuel mpinit (@concat nat)
                          (mp_inv inv_stream) false (list_sum rg_rows)) cols).
  { eapply Forall_impl; [|exact Hall]. intros col (Hp & Ht).
    apply col_ok_mpages; try assumption.
    - apply inv_stream_init.
    - intros pg Hpg c q Hc. exact (step_noindex_refines false pg Hpg c q ReadPage Hc).
    - exact noindex_seek_always.
    - now rewrite total_rows_concat, Ht. }
  apply (reader_layers_refine _ _ _
           (minv mpstate (list chunk) (mp_inv inv_stream) false (list_sum rg_rows) cols)).
  - now apply (minv_init mpstate (list chunk) (mp_step (step_noindex false)) chunks_fuel mpinit (@concat nat)).
  - intros m pos o Hi. unfold mgrows_step_noindex.
    now apply (mr_step_spec mpstate (list chunk) (mp_step (step_noindex false)) chunks_fuel mpinit (@concat nat)).
Qed.

(** one row group: the row group itself, no multiPages *)
Theorem reader1_indexed_refines : forall N cols ops, layout_ok N cols -> 0 < N ->
  run_reader1_indexed cols ops = run_xspec (length cols) N ops.
Proof.
  intros N cols ops (Hne & Hall) HN. unfold run_reader1_indexed, run_xspec.
  assert (Hok : Forall (col_ok state chunk step_indexed page_fuel init (fun pg => pg) inv_indexed true N) cols).
  { eapply Forall_impl; [|exact Hall]. intros pg (Hp & Ht). now apply col_ok_indexed. }
  apply (reader_layers_refine _ _ _ (minv state chunk inv_indexed true N cols)).
  - now apply (minv_init state chunk step_indexed page_fuel init (fun pg => pg)).
  - intros m pos o Hi. unfold mrows_step_indexed. rewrite <- mspec_strict_irrelevant by assumption.
    now apply (mr_step_spec state chunk step_indexed page_fuel init (fun pg => pg)).
Qed.

Theorem reader1_noindex_refines : forall N cols ops, layout_ok N cols ->
  run_reader1_noindex cols ops = run_xspec (length cols) N ops.
Proof.
  intros N cols ops (Hne & Hall). unfold run_reader1_noindex, run_xspec.
  assert (Hok : Forall (col_ok state chunk (step_noindex false) page_fuel init (fun pg => pg) inv_stream false N) cols).
  { eapply Forall_impl; [|exact Hall]. intros pg (Hp & Ht). now apply col_ok_noindex. }
  apply (reader_layers_refine _ _ _ (minv state chunk inv_stream false N cols)).
  - now apply (minv_init state chunk (step_noindex false) page_fuel init (fun pg => pg)).
  - intros m pos o Hi. unfold mrows_step_noindex.
    now apply (mr_step_spec state chunk (step_noindex false) page_fuel init (fun pg => pg)).
Qed.

(** * The rows returned after a seek *)

Definition mout_rows (o : mout) : list (list nat) :=
  match o with MRows rows _ => rows | _ => [] end.

Definition widen (ncols : nat) (ids : list nat) : list (list nat) :=
  map (fun i => repeat i ncols) ids.

Lemma mspec_reads : forall strict ncols N ns pos,
  concat (map mout_rows (run (mspec_step strict ncols N) pos (map RRead ns))) =
  widen ncols (firstn (list_sum ns) (skipn pos (seq 0 N))).
Proof.
  intros strict ncols N. induction ns as [|n ns IH]; intros pos; [reflexivity|].
  cbn [map run mspec_step concat mout_rows]. rewrite IH. unfold widen.
  rewrite <- map_app. f_equal.
  rewrite !skipn_seq, !firstn_seq. cbn [Nat.add].
  change (list_sum (n :: ns)) with (n + list_sum ns).
  rewrite seq_glue. f_equal. lia.
Qed.

Lemma mspec_seek_then_read : forall strict ncols N h k ns,
  concat (map mout_rows (skipn (S (length h))
    (run (mspec_step strict ncols N) 0 (h ++ RSeek k :: map RRead ns)))) =
  widen ncols (firstn (list_sum ns) (skipn k (seq 0 N))).
Proof.
  intros strict ncols N h k ns.
  replace (h ++ RSeek k :: map RRead ns) with ((h ++ [RSeek k]) ++ map RRead ns)
    by (rewrite <- app_assoc; reflexivity).
  replace (S (length h)) with (length (h ++ [RSeek k])) by (rewrite app_length; cbn; lia).
  rewrite run_after, mspec_reads. rewrite exec_app. cbn [exec mspec_step fst].
  destruct ((0 <? N) || (k =? 0) || negb strict) eqn:E; [reflexivity|].
  (* the seek was rejected: a table without rows *)
  apply orb_false_iff in E. destruct E as (E & _). apply orb_false_iff in E. destruct E as (E & _).
  apply Nat.ltb_ge in E. assert (N = 0) by lia. subst N. cbn [seq fst]. now rewrite !skipn_nil.
Qed.

Lemma xspec_reads : forall ncols N ns pos,
  concat (map mout_rows (run (xspec_step ncols N) pos (map XReadRows ns))) =
  widen ncols (firstn (list_sum ns) (skipn pos (seq 0 N))).
Proof.
  intros ncols N. induction ns as [|n ns IH]; intros pos; [reflexivity|].
  cbn [map run xspec_step mspec_step concat mout_rows]. rewrite IH. unfold widen.
  rewrite <- map_app. f_equal.
  rewrite !skipn_seq, !firstn_seq. cbn [Nat.add].
  change (list_sum (n :: ns)) with (n + list_sum ns).
  rewrite seq_glue. f_equal. lia.
Qed.

Lemma xspec_seek_then_read : forall ncols N h k ns,
  concat (map mout_rows (skipn (S (length h))
    (run (xspec_step ncols N) 0 (h ++ XSeek k :: map XReadRows ns)))) =
  widen ncols (firstn (list_sum ns) (skipn k (seq 0 N))).
Proof.
  intros ncols N h k ns.
  replace (h ++ XSeek k :: map XReadRows ns) with ((h ++ [XSeek k]) ++ map XReadRows ns)
    by (rewrite <- app_assoc; reflexivity).
  replace (S (length h)) with (length (h ++ [XSeek k])) by (rewrite app_length; cbn; lia).
  rewrite run_after, xspec_reads. rewrite exec_app. reflexivity.
Qed.

Theorem mrows_indexed_seek_then_read : forall N cols h k ns, layout_ok N cols ->
  concat (map mout_rows (skipn (S (length h))
    (run_mrows_indexed cols (h ++ RSeek k :: map RRead ns)))) =
  widen (length cols) (firstn (list_sum ns) (skipn k (seq 0 N))).
Proof.
  intros N cols h k ns Hl. rewrite (mrows_indexed_refines N) by assumption. apply mspec_seek_then_read.
Qed.

Theorem reader_indexed_seek_then_read : forall rg_rows cols h k ns, file_ok rg_rows cols ->
  concat (map mout_rows (skipn (S (length h))
    (run_reader_indexed cols (h ++ XSeek k :: map XReadRows ns)))) =
  widen (length cols) (firstn (list_sum ns) (skipn k (seq 0 (list_sum rg_rows)))).
Proof.
  intros rg_rows cols h k ns Hf. rewrite (reader_indexed_refines rg_rows) by assumption.
  apply xspec_seek_then_read.
Qed.

(** Global row number -> (row group, row within it), as multiPages.SeekToRow
    computes it. *)
Theorem mp_locate_global : forall chunks k idx k',
  mp_locate (map total_rows chunks) 0 k = (idx, k') ->
  idx <= length chunks /\ k = mp_offset chunks idx + k' /\
  (idx < length chunks -> k' < total_rows (nth idx chunks [])).
Proof.
  intros chunks k idx k' H. apply mp_locate_spec in H. destruct H as (d & -> & Hd & Hk & Hlt).
  cbn [Nat.add]. repeat split; assumption.
Qed.

