(** Model of the page cursor of a column chunk (file.go: type FilePages,
    ReadPage, SeekToRow) and of the batch row reader on top of it
    (row_group.go: rowGroupRows; column_chunk.go: columnChunkValueReader).
    Executable, no proofs (Cursor/Proofs.v).

    A column chunk is the list of the row counts of its data pages.  Pages
    start on row boundaries (data page v2, and v1 pages of non-repeated
    columns; for v1 pages of repeated columns ReadPage re-aligns the page on a
    row boundary with Page.Slice, file.go:1289-1303, which is what the row
    counts of the model describe).  Row numbers are absolute within the chunk:
    page [i] holds the rows [first_row i, first_row i + numRows i). *)
From Coq Require Import List Arith Bool.
Import ListNotations.

Definition chunk := list nat.

(** OffsetIndex.FirstRowIndex(i); the total number of rows when [i] is the
    number of pages (or more). *)
Fixpoint first_row (pages : chunk) (i : nat) : nat :=
  match i, pages with
  | S j, c :: rest => c + first_row rest j
  | _, _ => 0
  end.

Definition total_rows (pages : chunk) : nat := first_row pages (length pages).

(** State of FilePages (file.go:1078-1104).
    [index]      f.index: the page counter.
    [stream]     the data page that the byte stream (f.section + f.rbuf) delivers
                 next; the Go code keeps it only implicitly (file offsets).
    [skip]       f.skip: rows still to discard.
    [last]       [Some (i, p)]: f.lastPage != nil, f.lastPageIndex = i and the
                 cached page is physical page [p] of the chunk.
    [serve_last] f.serveLastPage. *)
Record state := mk {
  index : nat;
  stream : nat;
  skip : nat;
  last : option (nat * nat);
  serve_last : bool
}.

Inductive op := ReadPage | SeekToRow (k : nat).

(** Observable result of one operation: the rows of the returned page as
    (absolute number of its first row, number of rows), io.EOF, a successful
    seek, ErrSeekOutOfRange, or the completion of an operation that has no
    result (LoadIndex, Reset). *)
Inductive out := Rows (first count : nat) | EOF | SeekOk | OutOfRange | Done.

(* FilePages.init *)
Definition init : state := mk 0 0 0 None false.

(** The [for] loop of ReadPage (file.go:1193-1320): decode the next page of the
    stream; at the end of the chunk the header decoder returns io.EOF.  Every
    decoded data page becomes the cached last page and advances f.index
    (1269-1278), also when it is discarded because of f.skip (1310-1319). *)
Fixpoint read_loop (pages : chunk) (fuel : nat) (s : state) : state * out :=
  match fuel with
  | O => (s, EOF)
  | S fuel' =>
      match nth_error pages (stream s) with
      | None => (s, EOF)
      | Some numRows =>
          let first := first_row pages (stream s) in
          let lst := Some (index s, stream s) in
          if skip s =? 0 then
            (mk (S (index s)) (S (stream s)) 0 lst (serve_last s), Rows first numRows)
          else if numRows <=? skip s then
            read_loop pages fuel'
              (mk (S (index s)) (S (stream s)) (skip s - numRows) lst (serve_last s))
          else
            (mk (S (index s)) (S (stream s)) 0 lst (serve_last s),
             Rows (first + skip s) (numRows - skip s))
      end
  end.

(** FilePages.ReadPage (file.go:1169-1321), including the branch that serves
    the cached page again (1179-1191): it sets f.index but does not move the
    stream. *)
Definition read_page (pages : chunk) (s : state) : state * out :=
  match (if serve_last s then last s else None) with
  | Some (li, lp) =>
      let numRows := nth lp pages 0 in
      if skip s <? numRows then
        (mk (S li) (stream s) 0 (last s) false,
         Rows (first_row pages lp + skip s) (numRows - skip s))
      else
        read_loop pages (S (length pages))
          (mk (S li) (stream s) (skip s - numRows) (last s) false)
  | None => read_loop pages (S (length pages)) s
  end.

(** sort.Search(len(pages), func(i) bool { return pages[i].FirstRowIndex > rowIndex })
    (file.go:1586): FirstRowIndex is non-decreasing, so the binary search
    returns the number of leading pages whose first row is <= rowIndex. *)
Fixpoint search_gt (rest : list nat) (base k : nat) : nat :=
  match rest with
  | [] => 0
  | c :: rest' => if k <? base then 0 else S (search_gt rest' (base + c) k)
  end.

Definition set_skip (s : state) (k : nat) : state :=
  mk (index s) (stream s) k (last s) (serve_last s).
Definition set_serve (s : state) (b : bool) : state :=
  mk (index s) (stream s) (skip s) (last s) b.

(** FilePages.SeekToRow when the chunk has an offset index (file.go:1574-1637).
    [pinned = true] is the code before the repair b7bb510: a pending
    serveLastPage was not cancelled and the cached page was served again
    whenever the target was the last returned page, wherever the stream was.
    The three ways of moving the stream (already there, discard within the
    buffer, seek) all leave it at the first byte of the target page. *)
Definition seek_indexed (pinned : bool) (pages : chunk) (s : state) (k : nat) : state * out :=
  let s := if pinned then s else set_serve s false in
  match pages with
  | [] => if k =? 0 then (set_skip s 0, SeekOk) else (s, OutOfRange)
  | _ :: _ =>
      match search_gt pages 0 k with
      | O => (s, OutOfRange)
      | S target =>
          let s1 := set_skip s (k - first_row pages target) in
          if match last s with
             | Some (li, _) => (target =? li) && (pinned || (index s =? S li))
             | None => false
             end
          then (set_serve s1 true, SeekOk)
          else if index s =? target then (s1, SeekOk)
          else (mk target target (skip s1) (last s1) (serve_last s1), SeekOk)
      end
  end.

(** FilePages.SeekToRow without an offset index (file.go:1559-1572): rewind to
    the first data page and restart the page counter at 0 ([dict1 = false]).
    Before the repair 5c1fea6 the counter restarted at 1 when the chunk had a
    dictionary page, although it counts data pages everywhere else:
    [dict1 = true] is that pinned behaviour on a chunk with a dictionary page. *)
Definition seek_noindex (dict1 : bool) (s : state) (k : nat) : state * out :=
  (mk (if dict1 then 1 else 0) 0 k (last s) false, SeekOk).

(** The three machines. *)
Definition step_indexed (pages : chunk) (s : state) (o : op) : state * out :=
  match o with
  | ReadPage => read_page pages s
  | SeekToRow k => seek_indexed false pages s k
  end.

Definition step_pinned (pages : chunk) (s : state) (o : op) : state * out :=
  match o with
  | ReadPage => read_page pages s
  | SeekToRow k => seek_indexed true pages s k
  end.

Definition step_noindex (dict1 : bool) (pages : chunk) (s : state) (o : op) : state * out :=
  match o with
  | ReadPage => read_page pages s
  | SeekToRow k => seek_noindex dict1 s k
  end.

(** A file opened with SkipPageIndex loads the offset index of a chunk the
    first time ColumnChunk.OffsetIndex() is called (file.go readOffsetIndex,
    an atomic pointer that SeekToRow loads on every call): the cursor switches
    from the index-less to the indexed seek in the middle of a history. *)
Inductive lop := Op (o : op) | LoadIndex.

Definition step_lazy (dict1 : bool) (pages : chunk) (sl : state * bool) (o : lop) : (state * bool) * out :=
  let '(s, loaded) := sl in
  match o with
  | LoadIndex => ((s, true), Done)
  | Op o =>
      let '(s', r) := if loaded then step_indexed pages s o else step_noindex dict1 pages s o in
      ((s', loaded), r)
  end.

(** Outputs of a history. *)
Fixpoint run {S O R : Type} (step : S -> O -> S * R) (s : S) (ops : list O) : list R :=
  match ops with
  | [] => []
  | o :: rest => let '(s', r) := step s o in r :: run step s' rest
  end.

Definition run_indexed (pages : chunk) (ops : list op) : list out :=
  run (step_indexed pages) init ops.
Definition run_pinned (pages : chunk) (ops : list op) : list out :=
  run (step_pinned pages) init ops.
(* the current code *)
Definition run_noindex (pages : chunk) (ops : list op) : list out :=
  run (step_noindex false pages) init ops.
Definition run_lazy (pages : chunk) (ops : list lop) : list out :=
  run (step_lazy false pages) (init, false) ops.
(* before 5c1fea6; [dict]: the chunk has a dictionary page *)
Definition run_noindex_pinned (dict : bool) (pages : chunk) (ops : list op) : list out :=
  run (step_noindex dict pages) init ops.
Definition run_lazy_pinned (dict : bool) (pages : chunk) (ops : list lop) : list out :=
  run (step_lazy dict pages) (init, false) ops.

(** * Batch row reader over one column (rowGroupRows + columnChunkValueReader).

    [cur] the page cursor; ([bfirst], [bcount]) the unread rows of the current
    page (columnChunkValueReader.page/values and the value buffer of
    rowGroupRows collapsed: the next row to hand out and how many are left);
    [row_index] rowGroupRows.rowIndex ([None] is -1). *)
Record rstate := rmk {
  cur : state;
  bfirst : nat;
  bcount : nat;
  row_index : option nat
}.

Inductive rop := RRead (n : nat) | RSeek (k : nat) | RReset.

Inductive rout := RRows (ids : list nat) (eof : bool) | RSeekOk | ROutOfRange | RDone.

Definition rinit : rstate := rmk init 0 0 None.

Section RowsReader.
  (* the page cursor underneath: one of the machines above *)
  Variable cstep : state -> op -> state * out.
  (* bound of the page loop of columnChunkValueReader.ReadValues *)
  Variable fuel : nat.

  (** columnChunkValueReader.ReadValues (column_chunk.go:123-150) when the
      current page is exhausted: read pages until one has values, or an error. *)
  Fixpoint fill (f : nat) (c : state) : state * option (nat * nat) :=
    match f with
    | O => (c, None)
    | S f' =>
        match cstep c ReadPage with
        | (c', Rows fr cnt) => if cnt =? 0 then fill f' c' else (c', Some (fr, cnt))
        | (c', _) => (c', None)
        end
    end.

  (** rowGroupRows.ReadRows (row_group.go:281-360) for one column, one row per
      iteration ([for rowIndex := range rows]); returns the cursor, the buffer,
      the row ids handed out and whether the end was hit.  When the values of
      the row reach the end of the buffered values, the loop reads more values
      to look for the continuation of the row (repetition level <> 0): the
      next page is loaded before the row is complete, and the end of the
      chunk is reported together with the last row. *)
  Fixpoint read_rows (n : nat) (c : state) (bf bc : nat) : state * nat * nat * list nat * bool :=
    match n with
    | O => (c, bf, bc, [], false)
    | S n' =>
        let '(c1, buf) := if bc =? 0 then fill fuel c else (c, Some (bf, bc)) in
        match buf with
        | None => (c1, bf, 0, [], true)
        | Some (fr, cnt) =>
            if cnt <=? 1 then
              match fill fuel c1 with
              | (c2, None) => (c2, S fr, 0, [fr], true)
              | (c2, Some (fr2, cnt2)) =>
                  let '(c3, bf3, bc3, ids, eof) := read_rows n' c2 fr2 cnt2 in
                  (c3, bf3, bc3, fr :: ids, eof)
              end
            else
              let '(c3, bf3, bc3, ids, eof) := read_rows n' c1 (S fr) (cnt - 1) in
              (c3, bf3, bc3, fr :: ids, eof)
        end
    end.

  (** rowGroupRows.SeekToRow (row_group.go:265-279): nothing happens when the
      reader is already at that row; otherwise the column cursor seeks and the
      buffered page is dropped (columnChunkValueReader.SeekToRow, clear). *)
  Definition rr_seek (r : rstate) (k : nat) : rstate * rout :=
    if match row_index r with Some i => i =? k | None => false end then (r, RSeekOk)
    else
      match cstep (cur r) (SeekToRow k) with
      | (c', SeekOk) => (rmk c' 0 0 (Some k), RSeekOk)
      | (c', _) => (rmk c' (bfirst r) (bcount r) (row_index r), ROutOfRange)
      end.

  Definition rr_read (r : rstate) (n : nat) : rstate * rout :=
    (* first call: SeekToRow(0) *)
    let '(r1, e) := match row_index r with None => rr_seek r 0 | Some _ => (r, RSeekOk) end in
    match e with
    | RSeekOk =>
        let '(c, bf, bc, ids, eof) := read_rows n (cur r1) (bfirst r1) (bcount r1) in
        (rmk c bf bc (option_map (fun i => i + length ids) (row_index r1)), RRows ids eof)
    | _ => (r1, e)
    end.

  (** rowGroupRows.Reset (row_group.go:243-251): every column seeks to row 0
      (errors ignored) and drops its buffered page, and the reader forgets its
      row index (r.rowIndex = -1, [clears = true]).  Before the repair 3b258db
      r.rowIndex was left as it was ([clears = false], the pinned behaviour). *)
  Definition rr_reset (clears : bool) (r : rstate) : rstate * rout :=
    let '(c', _) := cstep (cur r) (SeekToRow 0) in
    (rmk c' 0 0 (if clears then None else row_index r), RDone).

  Definition rr_step (clears : bool) (r : rstate) (o : rop) : rstate * rout :=
    match o with
    | RRead n => rr_read r n
    | RSeek k => rr_seek r k
    | RReset => rr_reset clears r
    end.
End RowsReader.

(* the current code *)
Definition run_rows_indexed (pages : chunk) (ops : list rop) : list rout :=
  run (rr_step (step_indexed pages) (S (length pages)) true) rinit ops.
Definition run_rows_noindex (pages : chunk) (ops : list rop) : list rout :=
  run (rr_step (step_noindex false pages) (S (length pages)) true) rinit ops.
(* [clears = false]: Reset before 3b258db; [dict1 = true]: index-less seek
   before 5c1fea6 on a chunk with a dictionary page *)
Definition run_rows_indexed_gen (clears : bool) (pages : chunk) (ops : list rop) : list rout :=
  run (rr_step (step_indexed pages) (S (length pages)) clears) rinit ops.
Definition run_rows_noindex_gen (clears dict1 : bool) (pages : chunk) (ops : list rop) : list rout :=
  run (rr_step (step_noindex dict1 pages) (S (length pages)) clears) rinit ops.
Definition run_rows_indexed_pinned : chunk -> list rop -> list rout := run_rows_indexed_gen false.
