(** asyncPages over a real page cursor (Cursor/AsyncPages.v) delivers, under
    EVERY interleaving of consumer and producer, what the synchronous cursor
    returns for the same calls.  Built on the protocol theorems of property C15
    (Conc/AsyncProofs.v: the version check, deadlock freedom) and on the
    refinement of the page cursor (Cursor/Proofs.v). *)
From Coq Require Import List Arith Bool Lia.
From PQ Require Import Conc.Sem Conc.SemProofs Conc.Async Conc.AsyncProofs.
From PQ Require Import Cursor.Model Cursor.Spec Cursor.Proofs Cursor.Rows Cursor.AsyncPages.
Import ListNotations.
(** * What the consumer must observe *)

(** position of the specification after [n] ReadPage from row [o] *)
Fixpoint adv (pages : chunk) (o n : nat) : nat :=
  match n with
  | 0 => o
  | S n' => fst (spec_step pages (adv pages o n') ReadPage)
  end.

(** the output of the synchronous position specification for one event of the
    protocol: page number [i] of the sequence that starts at row [o] is what
    ReadPage returns after [i] earlier reads from row [o] *)
Definition obs (pages : chunk) (ev : cev) : out :=
  match ev with
  | EvSeek _ => SeekOk
  | EvPage o i => snd (spec_step pages (adv pages o i) ReadPage)
  end.

Definition call_of_ev (ev : cev) : cop :=
  match ev with EvSeek k => CSeek k | EvPage _ _ => CRead end.

Lemma hist_ok_outputs : forall pages h o i, hist_ok o i h ->
  map (obs pages) h =
  Model.run (spec_step_noindex pages) (adv pages o i) (map op_of_call (map call_of_ev h)).
Proof.
  intros pages. induction h as [|[k|o' i'] h IH]; intros o i H; [reflexivity| |].
  - cbn [map obs call_of_ev op_of_call Model.run spec_step_noindex hist_ok] in *.
    f_equal. exact (IH k 0 H).
  - cbn [hist_ok] in H. destruct H as (-> & -> & H).
    cbn [map obs call_of_ev op_of_call Model.run spec_step_noindex].
    destruct (spec_step pages (adv pages o i) ReadPage) as [p r] eqn:E. cbn [snd].
    f_equal. rewrite (IH o (S i) H). cbn [adv]. now rewrite E.
Qed.

Lemma skipn_same : forall (A : Type) (h : list A), skipn (length h) h = [].
Proof. intros. apply skipn_all. Qed.

Lemma skipn_snoc : forall (A : Type) (h t : list A), skipn (length h) (h ++ t) = t.
Proof. intros. rewrite skipn_app, skipn_all, Nat.sub_diag. reflexivity. Qed.

Section AsyncOverCursorProofs.
  Variable U : Type.
  Variable ustep : U -> op -> U * out.
  Variable CI : U -> nat -> Prop.
  Variable pages : chunk.
  Hypothesis Hread : forall u p, CI u p ->
    snd (ustep u ReadPage) = snd (spec_step pages p ReadPage) /\
    CI (fst (ustep u ReadPage)) (fst (spec_step pages p ReadPage)).
  Hypothesis Hseek : forall u p k, CI u p ->
    snd (ustep u (SeekToRow k)) = SeekOk /\ CI (fst (ustep u (SeekToRow k))) k.

  Record XInv (x : axstate U) : Prop := mkXInv {
    xi_u : CI (xu x) (adv pages (u_origin (pr (xa x))) (u_next (pr (xa x))));
    xi_held : forall o i, pp (pr (xa x)) = P3 o i -> xheld x = obs pages (EvPage o i);
    xi_outs : xouts x = map (obs pages) (hist (gh (xa x)))
  }.

  Ltac xfin := constructor; cbn in *; unfold new_events; cbn;
    rewrite ?skipn_same, ?skipn_snoc, ?map_app, ?app_nil_r; cbn; auto; try congruence; try discriminate.

  Lemma axstep_inv : forall x l x', XInv x -> axstep ustep x l = Some x' -> XInv x'.
  Proof.
    intros [a u held outs] l x' [Hu Hh Ho] Hstep. unfold axstep in Hstep. cbn [xa xu xheld xouts] in *.
    destruct (astep a l) as [a'|] eqn:Ea; [|discriminate].
    destruct a as [[prog cp vc sn] [ic dc sc rc] [pp sr pv uo un] [eo ei hi]]. cbn in Hu, Hh, Ho.
    destruct l as [|choice]; cbn in Ea.
    - (* consumer *)
      unfold cstep in Ea; cbn in Ea.
      destruct cp as [| |k| | |].
      + destruct prog as [|[|k|] rest]; [discriminate| | |].
        * inversion Ea; subst a'; clear Ea. cbn in Hstep. inversion Hstep; subst x'. xfin.
        * destruct sn.
          -- inversion Ea; subst a'; clear Ea. cbn in Hstep. inversion Hstep; subst x'. xfin.
          -- destruct sc as [[k0 v0]|]; inversion Ea; subst a'; clear Ea;
               cbn in Hstep; inversion Hstep; subst x'; xfin.
        * inversion Ea; subst a'; clear Ea. cbn in Hstep. inversion Hstep; subst x'. xfin.
      + destruct rc; [|discriminate]. inversion Ea; subst a'; clear Ea.
        cbn in Hstep. inversion Hstep; subst x'. xfin.
      + destruct sc as [y|]; [discriminate|]. inversion Ea; subst a'; clear Ea.
        cbn in Hstep. inversion Hstep; subst x'. xfin.
      + inversion Ea; subst a'; clear Ea. cbn in Hstep. inversion Hstep; subst x'. xfin.
      + inversion Ea; subst a'; clear Ea. cbn in Hstep. inversion Hstep; subst x'. xfin.
      + destruct rc; [|discriminate]. inversion Ea; subst a'; clear Ea.
        cbn in Hstep. inversion Hstep; subst x'. xfin.
    - (* producer *)
      unfold pstep in Ea; cbn in Ea.
      destruct pp as [| | |o i| | |].
      + destruct choice.
        * destruct ic; [|discriminate]. inversion Ea; subst a'; clear Ea.
          cbn in Hstep. inversion Hstep; subst x'. xfin.
        * destruct dc; [|discriminate]. inversion Ea; subst a'; clear Ea.
          cbn in Hstep. inversion Hstep; subst x'. xfin.
      + destruct sc as [[k v]|]; inversion Ea; subst a'; clear Ea;
          cbn in Hstep; inversion Hstep; subst x'; xfin.
      + (* P2: the underlying cursor moves *)
        destruct sr as [k|].
        * inversion Ea; subst a'; clear Ea. cbn in Hstep.
          destruct (Hseek u _ k Hu) as (_ & Hc'). inversion Hstep; subst x'. xfin.
        * inversion Ea; subst a'; clear Ea. cbn in Hstep.
          destruct (Hread u _ Hu) as (Hr & Hc').
          destruct (ustep u ReadPage) as [u' r]. cbn [fst snd] in *.
          inversion Hstep; subst x'. xfin.
          intros o i E. inversion E; subst o i. exact Hr.
      + destruct choice as [|[|c2]].
        * unfold crecv in Ea; cbn in Ea.
          destruct cp as [| |k| | |]; try discriminate.
          -- destruct (Nat.eqb pv vc).
             ++ inversion Ea; subst a'; clear Ea. cbn in Hstep. inversion Hstep; subst x'. xfin.
                rewrite (Hh o i eq_refl), Ho. reflexivity.
             ++ inversion Ea; subst a'; clear Ea. cbn in Hstep. inversion Hstep; subst x'. xfin.
          -- inversion Ea; subst a'; clear Ea. cbn in Hstep. inversion Hstep; subst x'. xfin.
        * destruct sc as [[k v]|]; [|discriminate]. inversion Ea; subst a'; clear Ea.
          cbn in Hstep. inversion Hstep; subst x'. xfin.
        * destruct dc; [|discriminate]. inversion Ea; subst a'; clear Ea.
          cbn in Hstep. inversion Hstep; subst x'. xfin.
      + unfold crecv in Ea; cbn in Ea.
        destruct cp as [| |k| | |]; try discriminate;
          inversion Ea; subst a'; clear Ea; cbn in Hstep; inversion Hstep; subst x'; xfin.
      + inversion Ea; subst a'; clear Ea. cbn in Hstep. inversion Hstep; subst x'. xfin.
      + discriminate.
  Qed.
End AsyncOverCursorProofs.

(** * A program without Close: the events of the protocol are the calls made *)

Definition noclose (c : cop) : Prop := c <> CClose.

Definition pending (c : cons) : list cop :=
  match cp c with CS1 _ | CS2 => tl (prog c) | _ => prog c end.

Record PInv (calls : list cop) (a : astate) : Prop := mkPInv {
  p_calls : calls = map call_of_ev (hist (gh a)) ++ pending (co a);
  p_noclose : Forall noclose (prog (co a));
  p_cp : cp (co a) <> CC1 /\ cp (co a) <> CC2;
  p_sn : seek_nil (co a) = false;
  p_dc : done_closed (ch a) = false;
  p_rc : read_closed (ch a) = false;
  p_pp : pp (pr a) <> PExit /\ pp (pr a) <> PClose /\ pp (pr a) <> PDone;
  p_cr : cp (co a) = CR1 -> exists rest, prog (co a) = CRead :: rest
}.

Lemma Forall_tl : forall (A : Type) (P : A -> Prop) l, Forall P l -> Forall P (tl l).
Proof. intros A P l H. destruct H; [constructor|assumption]. Qed.

Lemma pinv_init : forall calls, Forall noclose calls -> PInv calls (ainit calls).
Proof.
  intros calls H. constructor; cbn; auto; try (split; discriminate); try discriminate.
  repeat split; discriminate.
Qed.

Ltac pfin := constructor; cbn in *; rewrite ?map_app, <- ?app_assoc; cbn;
  auto using Forall_tl; try congruence; try discriminate;
  try (split; discriminate); try (repeat split; discriminate).

Lemma astep_pinv : forall calls a l a', PInv calls a -> astep a l = Some a' -> PInv calls a'.
Proof.
  intros calls [[prog cp vc sn] [ic dc sc rc] [pp sr pv uo un] [eo ei hi]] l a'
         [Hc Hn [Hc1 Hc2] Hs Hd Hr [Hp1 [Hp2 Hp3]] Hcr] Hstep; cbn in *. subst sn dc rc.
  destruct l as [|choice]; cbn in Hstep.
  - unfold cstep in Hstep; cbn in Hstep.
    destruct cp as [| |k| | |]; try congruence; cbn in Hstep.
    + destruct prog as [|[|k|] rest]; [discriminate| | |].
      * inversion Hstep; subst a'; clear Hstep. pfin. intros _. eauto.
      * destruct sc as [[k0 v0]|]; inversion Hstep; subst a'; clear Hstep; pfin.
      * inversion Hn as [|x y Hx Hy]; subst. exfalso. now apply Hx.
    + destruct sc as [y|]; [discriminate|]. inversion Hstep; subst a'; clear Hstep. pfin.
    + inversion Hstep; subst a'; clear Hstep. pfin.
  - unfold pstep in Hstep; cbn in Hstep.
    destruct pp as [| | |o i| | |]; try congruence; cbn in Hstep.
    + destruct choice; cbn in Hstep.
      * destruct ic; [|discriminate]. inversion Hstep; subst a'; clear Hstep. pfin.
      * discriminate.
    + destruct sc as [[k v]|]; inversion Hstep; subst a'; clear Hstep; pfin.
    + destruct sr as [k|]; inversion Hstep; subst a'; clear Hstep; pfin.
    + destruct choice as [|[|c2]]; cbn in Hstep.
      * unfold crecv in Hstep; cbn in Hstep.
        destruct cp as [| |k| | |]; try discriminate; try congruence; cbn in Hstep.
        destruct (Nat.eqb pv vc).
        -- inversion Hstep; subst a'; clear Hstep.
           destruct (Hcr eq_refl) as (rest & ->). pfin.
           inversion Hn; assumption.
        -- inversion Hstep; subst a'; clear Hstep. pfin.
      * destruct sc as [[k v]|]; [|discriminate]. inversion Hstep; subst a'; clear Hstep. pfin.
      * discriminate.
Qed.

Lemma reach_pinv : forall calls sched a, Forall noclose calls ->
  Sem.run astep (ainit calls) sched = Some a -> PInv calls a.
Proof.
  intros calls sched a Hn Hrun.
  eapply (invariant_run _ _ astep (PInv calls)); [|apply pinv_init; exact Hn|exact Hrun].
  intros c l c' Hc Hs. eapply astep_pinv; eauto.
Qed.

(** * asyncPages over a page cursor equals the synchronous cursor *)

Lemma spec_noindex_nonempty : forall pages, pages <> [] -> forall ops p,
  Model.run (spec_step pages) p ops = Model.run (spec_step_noindex pages) p ops.
Proof.
  intros pages Hne. induction ops as [|o ops IH]; intros p; [reflexivity|].
  cbn [Model.run]. destruct o as [|k].
  - cbn [spec_step_noindex]. destruct (spec_step pages p ReadPage). now rewrite IH.
  - destruct pages; [congruence|]. cbn [spec_step spec_step_noindex]. now rewrite IH.
Qed.

Section AsyncEqualsSync.
  Variable U : Type.
  Variable ustep : U -> op -> U * out.
  Variable CI : U -> nat -> Prop.
  Variable pages : chunk.
  Variable u0 : U.
  Hypothesis Hinit : CI u0 0.
  Hypothesis Hread : forall u p, CI u p ->
    snd (ustep u ReadPage) = snd (spec_step pages p ReadPage) /\
    CI (fst (ustep u ReadPage)) (fst (spec_step pages p ReadPage)).
  Hypothesis Hseek : forall u p k, CI u p ->
    snd (ustep u (SeekToRow k)) = SeekOk /\ CI (fst (ustep u (SeekToRow k))) k.

  Lemma ax_project : forall sched x x',
    Sem.run (axstep ustep) x sched = Some x' -> Sem.run astep (xa x) sched = Some (xa x').
  Proof.
    induction sched as [|l r IH]; intros x x' H; cbn in *.
    - now inversion H.
    - destruct (axstep ustep x l) as [x1|] eqn:E; [|discriminate].
      unfold axstep in E. destruct (astep (xa x) l) as [a'|]; [|discriminate].
      destruct (match l with LC => _ | LP _ => _ end) as [u' h'] in E.
      inversion E; subst x1. cbn in IH. specialize (IH _ _ H). exact IH.
  Qed.

  Lemma ax_xinv_init : forall calls, XInv U CI pages (axinit u0 calls).
  Proof. intros. constructor; cbn; auto. discriminate. Qed.

  Lemma ax_reach_xinv : forall calls sched x,
    Sem.run (axstep ustep) (axinit u0 calls) sched = Some x -> XInv U CI pages x.
  Proof.
    intros calls sched x H.
    eapply (invariant_run _ _ (axstep ustep) (XInv U CI pages)); [|apply ax_xinv_init|exact H].
    intros c l c' Hc Hs. eapply (axstep_inv U ustep CI pages Hread Hseek); eauto.
  Qed.

  (** Safety, every interleaving: what the consumer's calls returned so far is
      what the position specification returns for those calls; the calls made
      are a prefix of the program. *)
  Theorem async_outputs_spec : forall calls sched x, Forall noclose calls ->
    Sem.run (axstep ustep) (axinit u0 calls) sched = Some x ->
    let ref := Model.run (spec_step_noindex pages) 0 (map op_of_call calls) in
    xouts x = firstn (length (xouts x)) ref /\
    (ax_finished x = true -> xouts x = ref).
  Proof.
    intros calls sched x Hn Hrun. cbv zeta.
    pose proof (ax_reach_xinv calls sched x Hrun) as [_ _ Houts].
    pose proof (ax_project _ _ _ Hrun) as Hrun'. cbn [xa axinit] in Hrun'.
    pose proof (async_versioned _ _ _ Hrun') as Hok.
    pose proof (reach_pinv _ _ _ Hn Hrun') as HP.
    pose proof (hist_ok_outputs pages _ 0 0 Hok) as Ho. cbn [adv] in Ho.
    rewrite <- Houts in Ho.
    rewrite (p_calls _ _ HP), !map_app, run_app. rewrite <- Ho. split.
    - rewrite firstn_app, Nat.sub_diag, firstn_all. cbn. now rewrite app_nil_r.
    - intros Hfin. unfold ax_finished in Hfin.
      assert (Hpend : pending (co (xa x)) = []).
      { unfold pending. destruct (prog (co (xa x))); [|discriminate].
        destruct (cp (co (xa x))); try discriminate. reflexivity. }
      rewrite Hpend. cbn. now rewrite app_nil_r.
  Qed.

  (** Progress, every interleaving: while the consumer has a call to make or
      to finish, some step is enabled. *)
  Theorem async_progress : forall calls sched x,
    Sem.run (axstep ustep) (axinit u0 calls) sched = Some x -> wants (xa x) ->
    exists l x', axstep ustep x l = Some x'.
  Proof.
    intros calls sched x Hrun Hw. pose proof (ax_project _ _ _ Hrun) as Hrun'. cbn [xa axinit] in Hrun'.
    destruct (async_no_deadlock _ _ _ Hrun' Hw) as (l & a' & Ha).
    exists l. unfold axstep. rewrite Ha.
    destruct (match l with LC => _ | LP _ => _ end) as [u' h']. eauto.
  Qed.
End AsyncEqualsSync.

(** FilePages with an offset index (a chunk with at least one page) and
    without. *)
Theorem async_indexed_equals_sync : forall pages calls sched x,
  positive pages -> pages <> [] -> Forall noclose calls ->
  Sem.run (axstep (step_indexed pages)) (axinit init calls) sched = Some x ->
  let sync := run_indexed pages (map op_of_call calls) in
  xouts x = firstn (length (xouts x)) sync /\
  (ax_finished x = true -> xouts x = sync) /\
  (wants (xa x) -> exists l x', axstep (step_indexed pages) x l = Some x').
Proof.
  intros pages calls sched x Hp Hne Hn Hrun. cbv zeta.
  rewrite (indexed_refines _ _ Hp). unfold run_spec. rewrite (spec_noindex_nonempty pages Hne).
  assert (Hread : forall u p, inv_indexed pages u p ->
            snd (step_indexed pages u ReadPage) = snd (spec_step pages p ReadPage) /\
            inv_indexed pages (fst (step_indexed pages u ReadPage)) (fst (spec_step pages p ReadPage))).
  { intros u p Hu. exact (step_indexed_refines pages Hp u p ReadPage Hu). }
  assert (Hseek : forall u p k, inv_indexed pages u p ->
            snd (step_indexed pages u (SeekToRow k)) = SeekOk /\
            inv_indexed pages (fst (step_indexed pages u (SeekToRow k))) k).
  { intros u p k Hu. pose proof (indexed_seek_hyp pages Hp u p k Hu) as H.
    destruct pages; [congruence|exact H]. }
  destruct (async_outputs_spec state (step_indexed pages) (inv_indexed pages) pages init
              (inv_indexed_init pages) Hread Hseek calls sched x Hn Hrun) as (H1 & H2).
  split; [exact H1|split; [exact H2|]].
  intros Hw. exact (async_progress state (step_indexed pages) init calls sched x Hrun Hw).
Qed.

Theorem async_noindex_equals_sync : forall pages calls sched x,
  positive pages -> Forall noclose calls ->
  Sem.run (axstep (step_noindex false pages)) (axinit init calls) sched = Some x ->
  let sync := run_noindex pages (map op_of_call calls) in
  xouts x = firstn (length (xouts x)) sync /\
  (ax_finished x = true -> xouts x = sync) /\
  (wants (xa x) -> exists l x', axstep (step_noindex false pages) x l = Some x').
Proof.
  intros pages calls sched x Hp Hn Hrun. cbv zeta.
  rewrite (noindex_refines _ _ Hp). unfold run_spec_noindex.
  assert (Hread : forall u p, inv_stream pages u p ->
            snd (step_noindex false pages u ReadPage) = snd (spec_step pages p ReadPage) /\
            inv_stream pages (fst (step_noindex false pages u ReadPage)) (fst (spec_step pages p ReadPage))).
  { intros u p Hu. exact (step_noindex_refines false pages Hp u p ReadPage Hu). }
  assert (Hseek : forall u p k, inv_stream pages u p ->
            snd (step_noindex false pages u (SeekToRow k)) = SeekOk /\
            inv_stream pages (fst (step_noindex false pages u (SeekToRow k))) k).
  { intros u p k Hu. exact (step_noindex_refines false pages Hp u p (SeekToRow k) Hu). }
  destruct (async_outputs_spec state (step_noindex false pages) (inv_stream pages) pages init
              (inv_stream_init pages) Hread Hseek calls sched x Hn Hrun) as (H1 & H2).
  split; [exact H1|split; [exact H2|]].
  intros Hw. exact (async_progress state (step_noindex false pages) init calls sched x Hrun Hw).
Qed.

