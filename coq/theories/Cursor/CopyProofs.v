(** Proofs about CopyRows as an operation of row-reader histories (Cursor/Copy.v). *)
From Coq Require Import List Arith Bool Lia.
From PQ Require Import Cursor.Model Cursor.Spec Cursor.Rows Cursor.Multi Cursor.MultiProofs Cursor.Copy.
Import ListNotations.

(** Histories with copies only look at the run function: two readers with the
    same outputs on every plain history have the same outputs on every history
    with copies. *)
Lemma copy_loop_ext : forall (A : Type) (read : nat -> A) (r1 r2 : list A -> list mout),
  (forall ops, r1 ops = r2 ops) ->
  forall fuel pre acc, copy_loop read r1 fuel pre acc = copy_loop read r2 fuel pre acc.
Proof.
  intros A read r1 r2 H. induction fuel as [|f IH]; intros pre acc; [reflexivity|].
  cbn. unfold last_out. rewrite H.
  destruct (List.last (r2 (pre ++ [read copy_batch])) MDone); try reflexivity.
  destruct eof; [reflexivity|]. destruct rows; [reflexivity|]. apply IH.
Qed.

Lemma run_k_ext : forall (A : Type) (read : nat -> A) (r1 r2 : list A -> list mout),
  (forall ops, r1 ops = r2 ops) ->
  forall fuel ops pre, run_k read r1 fuel pre ops = run_k read r2 fuel pre ops.
Proof.
  intros A read r1 r2 H fuel. induction ops as [|o ops IH]; intros pre; [reflexivity|].
  destruct o as [o|]; cbn.
  - unfold last_out. rewrite H. f_equal. apply IH.
  - rewrite (copy_loop_ext A read r1 r2 H). destruct (copy_loop read r2 fuel pre []) as [pre' out].
    f_equal. apply IH.
Qed.

(** The copy over the position specification: a machine whose state is one row
    position and whose ReadRows(42) is that of [mspec_step]. *)
Section SpecCopy.
  Variable A : Type.
  Variable read : nat -> A.
  Variable step : nat -> A -> nat * mout.
  Variables (strict : bool) (ncols N : nat).
  Hypothesis Hread : forall pos, step pos (read copy_batch) = mspec_step strict ncols N pos (RRead copy_batch).

  Let runf := run step 0.
  Definition wide (ids : list nat) : list (list nat) := map (fun i => repeat i ncols) ids.

  Lemma last_out_snoc : forall pre o, last_out runf (pre ++ [o]) = snd (step (exec step 0 pre) o).
  Proof.
    intros. unfold last_out, runf. rewrite run_app. cbn.
    destruct (step (exec step 0 pre) o) as [s' r]. cbn. apply last_last.
  Qed.

  Lemma exec_snoc : forall pre o, exec step 0 (pre ++ [o]) = fst (step (exec step 0 pre) o).
  Proof. intros. rewrite exec_app. reflexivity. Qed.

  (** CopyRows at position [pos] hands over the rows [pos .. N-1], ends on
      io.EOF, and leaves the reader at the end (where it was, when it stood
      beyond the end). *)
  Lemma spec_copy_loop : forall fuel pre acc pos,
    exec step 0 pre = pos -> N - pos < copy_batch * fuel ->
    exists pre', copy_loop read runf fuel pre acc = (pre', MRows (acc ++ wide (seq pos (N - pos))) true)
                 /\ exec step 0 pre' = Nat.max pos N.
  Proof.
    unfold copy_batch in *. induction fuel as [|f IH]; intros pre acc pos Hpos Hfuel; [lia|].
    cbn [copy_loop]. rewrite last_out_snoc, Hpos, Hread. unfold copy_batch. cbn [mspec_step snd].
    destruct (N - pos <=? 42) eqn:Hle.
    - apply Nat.leb_le in Hle. cbn [andb Nat.ltb Nat.leb].
      exists (pre ++ [read 42]). split.
      + rewrite Nat.min_r by lia. reflexivity.
      + rewrite exec_snoc, Hpos. change 42 with copy_batch. rewrite Hread. unfold copy_batch. cbn [mspec_step fst]. lia.
    - apply Nat.leb_gt in Hle. cbn [andb Nat.ltb Nat.leb].
      rewrite Nat.min_l by lia.
      destruct (map (fun i => repeat i ncols) (seq pos 42)) as [|r0 rs] eqn:Hrows.
      { apply (f_equal (@length _)) in Hrows. rewrite map_length, seq_length in Hrows. discriminate. }
      rewrite <- Hrows.
      destruct (IH (pre ++ [read 42]) (acc ++ map (fun i => repeat i ncols) (seq pos 42)) (pos + 42)) as [pre' [Hc He]].
      + rewrite exec_snoc, Hpos. change 42 with copy_batch. rewrite Hread. unfold copy_batch. cbn [mspec_step fst]. lia.
      + lia.
      + exists pre'. split; [|rewrite He; lia].
        rewrite Hc. f_equal. f_equal. rewrite <- app_assoc. f_equal. unfold wide. rewrite <- map_app. f_equal.
        replace (N - pos) with (42 + (N - (pos + 42))) by lia. symmetry. apply seq_app.
  Qed.
End SpecCopy.

Arguments wide ncols ids : clear implicits.

Lemma mspec_copy : forall strict ncols N fuel pre,
  N < copy_batch * fuel ->
  let pos := exec (mspec_step strict ncols N) 0 pre in
  exists pre', copy_loop RRead (run_mspec strict ncols N) fuel pre [] =
                 (pre', MRows (wide ncols (seq pos (N - pos))) true)
               /\ exec (mspec_step strict ncols N) 0 pre' = Nat.max pos N.
Proof.
  intros strict ncols N fuel pre Hf pos.
  destruct (spec_copy_loop rop RRead (mspec_step strict ncols N) strict ncols N (fun _ => eq_refl) fuel pre [] pos eq_refl)
    as [pre' [Hc He]]; [lia|].
  exists pre'. split; [exact Hc|exact He].
Qed.

Lemma xspec_copy : forall ncols N fuel pre,
  N < copy_batch * fuel ->
  let pos := exec (xspec_step ncols N) 0 pre in
  exists pre', copy_loop XReadRows (run_xspec ncols N) fuel pre [] =
                 (pre', MRows (wide ncols (seq pos (N - pos))) true)
               /\ exec (xspec_step ncols N) 0 pre' = Nat.max pos N.
Proof.
  intros ncols N fuel pre Hf pos.
  destruct (spec_copy_loop xop XReadRows (xspec_step ncols N) false ncols N (fun _ => eq_refl) fuel pre [] pos eq_refl)
    as [pre' [Hc He]]; [lia|].
  exists pre'. split; [exact Hc|exact He].
Qed.

(** the reader models with copies = the position specification with copies *)
Lemma mrows_indexed_k_refines : forall N cols fuel ops,
  layout_ok N cols -> run_mrows_indexed_k cols fuel ops = run_mspec_k true (length cols) N fuel ops.
Proof. intros. apply run_k_ext. intros. now apply mrows_indexed_refines. Qed.
Lemma mrows_noindex_k_refines : forall N cols fuel ops,
  layout_ok N cols -> run_mrows_noindex_k cols fuel ops = run_mspec_k false (length cols) N fuel ops.
Proof. intros. apply run_k_ext. intros. now apply mrows_noindex_refines. Qed.
Lemma mgrows_indexed_k_refines : forall rg_rows cols fuel ops,
  file_ok rg_rows cols -> run_mgrows_indexed_k cols fuel ops = run_mspec_k false (length cols) (list_sum rg_rows) fuel ops.
Proof. intros. apply run_k_ext. intros. now apply mgrows_indexed_refines. Qed.
Lemma reader_indexed_k_refines : forall rg_rows cols fuel ops,
  file_ok rg_rows cols -> run_reader_indexed_k cols fuel ops = run_xspec_k (length cols) (list_sum rg_rows) fuel ops.
Proof. intros. apply run_k_ext. intros. now apply reader_indexed_refines. Qed.
Lemma reader_noindex_k_refines : forall rg_rows cols fuel ops,
  file_ok rg_rows cols -> run_reader_noindex_k cols fuel ops = run_xspec_k (length cols) (list_sum rg_rows) fuel ops.
Proof. intros. apply run_k_ext. intros. now apply reader_noindex_refines. Qed.
Lemma reader1_indexed_k_refines : forall N cols fuel ops,
  layout_ok N cols -> 0 < N -> run_reader1_indexed_k cols fuel ops = run_xspec_k (length cols) N fuel ops.
Proof. intros. apply run_k_ext. intros. now apply reader1_indexed_refines. Qed.
Lemma reader1_noindex_k_refines : forall N cols fuel ops,
  layout_ok N cols -> run_reader1_noindex_k cols fuel ops = run_xspec_k (length cols) N fuel ops.
Proof. intros. apply run_k_ext. intros. now apply reader1_noindex_refines. Qed.
