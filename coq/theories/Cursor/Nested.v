(** MultiRowGroup over row groups that are themselves multi row groups
    (multi_row_group.go:10-78, MultiRowGroup / multiRowGroup.init): the chunks
    of a nested multiColumnChunk are flattened into the outer one together with
    the number of rows of each, which multiPages.SeekToRow (532-570) uses to
    find the chunk of a row.

    One column is modelled (every column is flattened alike).  A row group of
    a file is the chunk of the column ([chunk] = the rows of its pages); its
    num_rows is the number of rows of these pages (hypothesis of C08: all the
    chunks of a row group hold the same rows).

    Executable, no proofs (Cursor/NestedProofs.v). *)
From Coq Require Import List Arith Bool.
From PQ Require Import Cursor.Model Cursor.Multi.
Import ListNotations.

(** The expression: parquet.MultiRowGroup applied to row groups of files and
    to the results of other applications. *)
Inductive rgtree := RGLeaf (c : chunk) | RGNode (ts : list rgtree).

(** The value: a row group of a file, or a *multiRowGroup with
    columns[i].chunks, columns[i].rowCounts and m.rowGroups. *)
Inductive rgval := VFile (c : chunk) | VMulti (chunks : list chunk) (counts : list nat) (groups : list rgval).

(* RowGroup.NumRows: fileRowGroup (num_rows of the footer), multiRowGroup (114-119) *)
Fixpoint rg_rows (v : rgval) : nat :=
  match v with
  | VFile c => total_rows c
  | VMulti _ _ gs => list_sum (map rg_rows gs)
  end.

(* one iteration of the loop over the row groups in init (45-65): what is
   appended to columns[i].chunks and to columns[i].rowCounts.
   [children_counts = true] is the seeded variant that always takes the row
   counts from the row groups of the nested multi row group (used by the
   non-vacuity example only). *)
Definition init_append (children_counts : bool) (g : rgval) : list chunk * list nat :=
  match g with
  | VMulti chunks counts gs =>
      (chunks, if children_counts || (length counts =? 0) then map rg_rows gs else counts)
  | VFile c => ([c], [total_rows c])
  end.

Definition multi_init (children_counts : bool) (gs : list rgval) : rgval :=
  VMulti (concat (map (fun g => fst (init_append children_counts g)) gs))
         (concat (map (fun g => snd (init_append children_counts g)) gs)) gs.

(* MultiRowGroup (10-22): one row group is returned as it is.  (No row group
   at all gives an emptyRowGroup without schema, which cannot be combined
   further: not modelled, [RGNode []] evaluates to a multi row group of no
   chunk.) *)
Definition multi_row_group (children_counts : bool) (gs : list rgval) : rgval :=
  match gs with
  | [g] => g
  | _ => multi_init children_counts gs
  end.

Fixpoint rg_eval (children_counts : bool) (t : rgtree) : rgval :=
  match t with
  | RGLeaf c => VFile c
  | RGNode ts => multi_row_group children_counts (map (rg_eval children_counts) ts)
  end.

(* the chunks of the files in the order of the expression *)
Fixpoint rg_leaves (t : rgtree) : list chunk :=
  match t with
  | RGLeaf c => [c]
  | RGNode ts => concat (map rg_leaves ts)
  end.

(** multiPages over the column of a multiRowGroup value: as [mp_step]
    (Cursor/Multi.v) with the row counts of the value; SeekToRow falls back to
    rowGroups[i].NumRows() beyond the end of rowCounts (551-556). *)
Definition eff_counts (n : nat) (counts : list nat) (gs : list rgval) : list nat :=
  map (fun i => nth i counts (rg_rows (nth i gs (VFile [])))) (seq 0 n).

Section NestedPages.
  Variable cstep : chunk -> state -> op -> state * out.

  Definition mpv_seek (chunks : list chunk) (counts : list nat) (m : mpstate) (k : nat) : mpstate * out :=
    let '(idx, k') := mp_locate counts 0 k in
    if idx <? length chunks then
      let '(c', r) := cstep (nth idx chunks []) init (SeekToRow k') in
      (mpmk (Some c') (S idx), r)
    else (mpmk None idx, SeekOk).

  Definition mpv_step (chunks : list chunk) (counts : list nat) (m : mpstate) (o : op) : mpstate * out :=
    match o with
    | ReadPage => mp_read cstep (S (length chunks)) chunks m
    | SeekToRow k => mpv_seek chunks counts m k
    end.
End NestedPages.

(* ColumnChunk.Pages() of the column of the value: FilePages for a row group of
   a file, multiPages for a multi row group *)
Definition run_value_pages (cstep : chunk -> state -> op -> state * out) (v : rgval) (ops : list op) : list out :=
  match v with
  | VFile c => run (cstep c) init ops
  | VMulti chunks counts gs =>
      run (mpv_step cstep chunks (eff_counts (length chunks) counts gs)) mpinit ops
  end.

Definition run_nested_indexed (t : rgtree) (ops : list op) : list out :=
  run_value_pages step_indexed (rg_eval false t) ops.
Definition run_nested_noindex (t : rgtree) (ops : list op) : list out :=
  run_value_pages (step_noindex false) (rg_eval false t) ops.
(* the seeded variant (row counts of the direct children) *)
Definition run_nested_children_counts (t : rgtree) (ops : list op) : list out :=
  run_value_pages step_indexed (rg_eval true t) ops.
