(** asyncPages over a REAL page cursor (page.go: AsyncPages / asyncPages /
    readPages on top of a FilePages).

    Conc/Async.v (property C15) is the protocol: consumer and producer
    goroutines, the read / seek / init / done channels and the version
    counter; the underlying Pages object is abstracted there to the pair
    (row of the last SeekToRow, number of ReadPage calls since).  Here the
    protocol runs next to an actual page cursor (Cursor/Model.v): when the
    producer executes pages.SeekToRow / pages.ReadPage (its state P2) the
    cursor makes that step, the producer holds the page it got, and what the
    consumer's calls return is recorded:

    - SeekToRow returns nil ([SeekOk]) when the seek is issued;
    - ReadPage returns the page the producer was holding when a message with
      the current version is received.

    ReadPage / SeekToRow after Close (io.EOF from the closed channel,
    io.ErrClosedPipe) are not recorded: the statements are about programs
    without Close.  An error of the underlying SeekToRow (a chunk without any
    page) is outside the protocol model, as in Conc/Async.v.

    Executable, no proofs (Cursor/AsyncPagesProofs.v). *)
From Coq Require Import List Arith Bool.
From PQ Require Import Conc.Sem Conc.Async Cursor.Model.
Import ListNotations.

Record axstate (U : Type) := axmk {
  xa : astate;          (* the protocol *)
  xu : U;               (* the underlying Pages object (owned by the producer) *)
  xheld : out;          (* the result of the producer's last pages.ReadPage() *)
  xouts : list out      (* what the consumer's calls returned, in order *)
}.
Arguments axmk {U}.
Arguments xa {U}.
Arguments xu {U}.
Arguments xheld {U}.
Arguments xouts {U}.

Definition new_events (a a' : astate) : list cev :=
  skipn (length (hist (gh a))) (hist (gh a')).

Definition op_of_call (c : cop) : op :=
  match c with CSeek k => SeekToRow k | _ => ReadPage end.

Section AsyncOverCursor.
  Variable U : Type.
  Variable ustep : U -> op -> U * out.

  Definition axstep (x : axstate U) (l : alabel) : option (axstate U) :=
    match astep (xa x) l with
    | None => None
    | Some a' =>
        let '(u', held') :=
          match l, pp (pr (xa x)) with
          | LP _, P2 =>
              match seek_row (pr (xa x)) with
              | Some k => (fst (ustep (xu x) (SeekToRow k)), xheld x)   (* pages.SeekToRow(k) *)
              | None => ustep (xu x) ReadPage                            (* pages.ReadPage() *)
              end
          | _, _ => (xu x, xheld x)
          end in
        Some (axmk a' u' held'
                (xouts x ++ map (fun ev => match ev with EvSeek _ => SeekOk | EvPage _ _ => xheld x end)
                                (new_events (xa x) a')))
    end.

  Definition axinit (u0 : U) (calls : list cop) : axstate U := axmk (ainit calls) u0 EOF [].

  (** the consumer has made all its calls *)
  Definition ax_finished (x : axstate U) : bool :=
    match prog (co (xa x)), cp (co (xa x)) with
    | [], CIdle => true
    | _, _ => false
    end.

  (** A scheduler driven by a list of numbers: at every step the enabled
      labels among consumer / producer (select case 0, 1, other) are listed
      and the next number picks one.  Stops when the consumer has finished,
      when nothing is enabled, or when the numbers run out. *)
  Definition ax_labels : list alabel := [LC; LP 0; LP 1; LP 2].

  Definition ax_enabled (x : axstate U) : list alabel :=
    filter (fun l => match axstep x l with Some _ => true | None => false end) ax_labels.

  Fixpoint ax_sched (choices : list nat) (x : axstate U) : axstate U * list alabel :=
    match choices with
    | [] => (x, [])
    | c :: rest =>
        if ax_finished x then (x, [])
        else
          match ax_enabled x with
          | [] => (x, [])
          | en =>
              let l := nth (c mod length en) en LC in
              match axstep x l with
              | Some x' => let '(xf, ls) := ax_sched rest x' in (xf, l :: ls)
              | None => (x, [])
              end
          end
    end.
End AsyncOverCursor.
Arguments axstep {U}.
Arguments axinit {U}.
Arguments ax_finished {U}.
Arguments ax_enabled {U}.
Arguments ax_sched {U}.

(** asyncPages over FilePages with / without offset index: the outputs and
    whether the consumer finished, under the schedule picked by [choices]. *)
Definition run_async_indexed (pages : chunk) (calls : list cop) (choices : list nat) : list out * bool :=
  let x := fst (ax_sched (step_indexed pages) choices (axinit init calls)) in
  (xouts x, ax_finished x).
Definition run_async_noindex (pages : chunk) (calls : list cop) (choices : list nat) : list out * bool :=
  let x := fst (ax_sched (step_noindex false pages) choices (axinit init calls)) in
  (xouts x, ax_finished x).
