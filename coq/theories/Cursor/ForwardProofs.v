(** Proofs about Cursor/Forward.v: for every number of rows, every policy of
    the reader underneath (how short it cuts each batch, when it says io.EOF)
    and every finite history of reads and seeks, the three forward-only
    seekers return what a single row position says ([sound]). *)
From Coq Require Import List Arith Bool Lia.
From PQ Require Import Cursor.Forward.
Import ListNotations.

(** one step of [sound] *)
Definition sound1 (N pos : nat) (o : fop) (out : fout) (pos' : nat) : Prop :=
  match o, out with
  | FRead n, FRows f c e =>
      c <= n /\
      (0 < c -> f = pos /\ pos + c <= N) /\
      (c = 0 -> n = 0 \/ (e = true /\ N <= pos)) /\
      (e = true -> N <= pos + c) /\
      pos' = pos + c
  | FSeek k, FSeekOk => pos' = k
  | FSeek k, FRefused => k < pos /\ pos' = pos
  | FSeek k, FSeekEOF => N <= k /\ pos <= N /\ pos' = N
  | _, _ => False
  end.

Lemma run_gen_sound : forall (S : Type) (step : S -> fop -> fout * S)
    (inv : S -> Prop) (posf : S -> nat) (N : nat),
  (forall s o out s', inv s -> step s o = (out, s') ->
     inv s' /\ sound1 N (posf s) o out (posf s')) ->
  forall ops s, inv s -> sound N (posf s) ops (run_gen step s ops).
Proof.
  intros S step inv posf N Hstep ops.
  induction ops as [|o ops IH]; intros s Hinv; simpl; auto.
  destruct (step s o) as [out s'] eqn:E.
  destruct (Hstep _ _ _ _ Hinv E) as [Hinv' H1].
  specialize (IH s' Hinv').
  destruct o as [n|k]; destruct out as [f c e| | |]; simpl in H1; try contradiction; simpl.
  - destruct H1 as (A & B & C & D & P). rewrite P in IH. repeat split; auto; apply B; auto.
  - rewrite H1 in IH. exact IH.
  - destruct H1 as [A P]. rewrite P in IH. auto.
  - destruct H1 as (A & B & P). rewrite P in IH. auto.
Qed.

(** ** The reader underneath *)

Lemma capped_le : forall cap n, capped cap n <= n.
Proof. intros. unfold capped. destruct (cap =? 0); lia. Qed.

Lemma capped_zero : forall cap n, capped cap n = 0 -> n = 0.
Proof.
  intros cap n. unfold capped. destruct (cap =? 0) eqn:E; intro H; auto.
  apply Nat.eqb_neq in E. lia.
Qed.

Lemma under_read_spec : forall N eofl pol u n c eof u',
  upos u <= N ->
  under_read N eofl pol u n = (c, eof, u') ->
  upos u' = upos u + c /\ upos u' <= N /\ c <= n /\
  (c = 0 -> n = 0 \/ (eof = true /\ N <= upos u)) /\
  (eof = true -> upos u' = N).
Proof.
  intros N eofl pol u n c eof u' Hle. unfold under_read.
  destruct (N <=? upos u) eqn:E.
  - apply Nat.leb_le in E. intro H. inversion H; subst; clear H. simpl.
    split; [lia|]. split; [lia|]. split; [lia|]. split.
    + intros _. right. split; auto.
    + intros _. lia.
  - apply Nat.leb_gt in E. intro H. inversion H; subst; clear H. simpl.
    pose proof (capped_le (pol (ucalls u)) n) as Hc.
    split; [lia|]. split; [lia|]. split; [lia|]. split.
    + intro H0. left.
      assert (capped (pol (ucalls u)) n = 0) by lia.
      eapply capped_zero; eauto.
    + intro He. apply andb_true_iff in He. destruct He as [He _].
      apply andb_true_iff in He. destruct He as [_ He].
      apply Nat.eqb_eq in He. exact He.
Qed.

Lemma read_ok_intro : forall N pos n f c e pos',
  c <= n ->
  (0 < c -> f = pos /\ pos + c <= N) ->
  (c = 0 -> n = 0 \/ (e = true /\ N <= pos)) ->
  (e = true -> N <= pos + c) ->
  pos' = pos + c ->
  sound1 N pos (FRead n) (FRows f c e) pos'.
Proof. intros. simpl. auto. Qed.

(** ** forwardRowSeeker *)

Definition fws_inv (N : nat) (s : fws) : Prop := f_index s = upos (f_u s) /\ upos (f_u s) <= N.
Definition fws_pos (s : fws) : nat := Nat.max (f_index s) (f_seek s).

Lemma fws_read_ok : forall N eofl pol fuel s n out s',
  fws_inv N s -> N - f_index s < fuel ->
  fws_read fuel N eofl pol s n = (out, s') ->
  fws_inv N s' /\ sound1 N (fws_pos s) (FRead n) out (fws_pos s').
Proof.
  intros N eofl pol fuel. induction fuel as [|fuel IH]; intros s n out s' [Hi Hu] Hf; [lia|].
  simpl. destruct (under_read N eofl pol (f_u s) n) as [[c eof] u'] eqn:EU.
  destruct (under_read_spec _ _ _ _ _ _ _ _ Hu EU) as (P1 & P2 & P3 & P4 & P5).
  destruct ((0 <? c) && (f_index s <? f_seek s)) eqn:EC.
  - apply andb_true_iff in EC. destruct EC as [C1 C2].
    apply Nat.ltb_lt in C1. apply Nat.ltb_lt in C2.
    destruct (c <=? f_seek s - f_index s) eqn:ES.
    + apply Nat.leb_le in ES. destruct eof.
      * intro H. inversion H; subst; clear H. unfold fws_inv, fws_pos; simpl.
        specialize (P5 eq_refl). split; [lia|].
        apply read_ok_intro; [lia | intros; lia | | intros; lia | lia].
        intros _. right. split; auto. lia.
      * intro H.
        assert (HI : fws_inv N (mkF u' (f_seek s) (f_index s + c))) by (unfold fws_inv; simpl; lia).
        assert (HF : N - f_index (mkF u' (f_seek s) (f_index s + c)) < fuel) by (simpl; lia).
        destruct (IH _ _ _ _ HI HF H) as [I' S'].
        split; auto.
        assert (EP : fws_pos (mkF u' (f_seek s) (f_index s + c)) = fws_pos s) by (unfold fws_pos; simpl; lia).
        rewrite EP in S'. exact S'.
    + apply Nat.leb_gt in ES.
      intro H. inversion H; subst; clear H. unfold fws_inv, fws_pos; simpl.
      split; [lia|].
      apply read_ok_intro; [lia | intros; lia | intros; lia | | lia].
      intro He. specialize (P5 He). lia.
  - intro H. inversion H; subst; clear H. unfold fws_inv, fws_pos; simpl.
    apply andb_false_iff in EC.
    split; [lia|].
    destruct EC as [C1 | C2].
    + apply Nat.ltb_ge in C1. assert (c = 0) by lia. subst c.
      apply read_ok_intro; [lia | intros; lia | | | lia].
      * intros _. destruct (P4 eq_refl) as [Hn | [He Hn]]; [left; auto | right; split; auto; lia].
      * intro He. specialize (P5 He). lia.
    + apply Nat.ltb_ge in C2.
      apply read_ok_intro; [lia | intros; lia | | | lia].
      * intro Hc0. destruct (P4 Hc0) as [Hn | [He Hn]]; [left; auto | right; split; auto; lia].
      * intro He. specialize (P5 He). lia.
Qed.

Lemma fws_step_ok : forall N eofl pol s o out s',
  fws_inv N s -> fws_step N eofl pol s o = (out, s') ->
  fws_inv N s' /\ sound1 N (fws_pos s) o out (fws_pos s').
Proof.
  intros N eofl pol s o out s' Hinv. destruct o as [n|k]; unfold fws_step.
  - apply fws_read_ok; auto. lia.
  - unfold fws_seek. destruct (f_index s <=? k) eqn:E; intro H; inversion H; subst; clear H.
    + apply Nat.leb_le in E. destruct Hinv. unfold fws_inv, fws_pos; simpl. split; [auto|lia].
    + apply Nat.leb_gt in E. split; auto. unfold fws_pos; simpl. lia.
Qed.

Theorem fws_sound : forall N eofl pol ops, sound N 0 ops (run_fws N eofl pol ops).
Proof.
  intros. unfold run_fws.
  apply (run_gen_sound fws (fws_step N eofl pol) (fws_inv N) fws_pos N (fws_step_ok N eofl pol) ops (mkF u0 0 0)).
  unfold fws_inv, u0; simpl; lia.
Qed.

(** ** mergedRowGroupRows *)

Definition lz_inv (N : nat) (s : lzs) : Prop := l_index s = upos (l_u s) /\ upos (l_u s) <= N.
Definition lz_pos (s : lzs) : nat := Nat.max (l_index s) (l_seek s).

Lemma lz_skip_ok : forall N eofl pol fuel s n ok s1,
  lz_inv N s -> 0 < n -> N - l_index s < fuel ->
  lz_skip fuel N eofl pol s n = (ok, s1) ->
  lz_inv N s1 /\ lz_pos s1 = lz_pos s /\
  (ok = true -> l_index s1 = lz_pos s /\ l_seek s1 <= l_index s1) /\
  (ok = false -> N <= lz_pos s).
Proof.
  intros N eofl pol fuel. induction fuel as [|fuel IH]; intros s n ok s1 [Hi Hu] Hn Hf; [lia|].
  simpl. destruct (l_index s <? l_seek s) eqn:EL.
  - apply Nat.ltb_lt in EL.
    destruct (under_read N eofl pol (l_u s) (Nat.min (l_seek s - l_index s) n)) as [[c eof] u'] eqn:EU.
    destruct (under_read_spec _ _ _ _ _ _ _ _ Hu EU) as (P1 & P2 & P3 & P4 & P5).
    destruct eof.
    + intro H. inversion H; subst; clear H. specialize (P5 eq_refl).
      unfold lz_inv, lz_pos; simpl.
      split; [lia|]. split; [lia|]. split; [intro; discriminate | intros _; lia].
    + intro H.
      assert (Hc : 0 < c).
      { destruct c; [|lia]. destruct (P4 eq_refl) as [Hz | [Hz _]]; [lia|discriminate]. }
      assert (HI : lz_inv N (mkL u' (l_index s + c) (l_seek s))) by (unfold lz_inv; simpl; lia).
      assert (HF : N - l_index (mkL u' (l_index s + c) (l_seek s)) < fuel) by (simpl; lia).
      destruct (IH _ _ _ _ HI Hn HF H) as (I' & Q & A & B).
      assert (EP : lz_pos (mkL u' (l_index s + c) (l_seek s)) = lz_pos s) by (unfold lz_pos; simpl; lia).
      rewrite EP in *. auto.
  - apply Nat.ltb_ge in EL. intro H. inversion H; subst; clear H.
    unfold lz_inv, lz_pos.
    split; [auto|]. split; [auto|]. split; [intros _; lia | intro; discriminate].
Qed.

Lemma lz_step_ok : forall N eofl pol s o out s',
  lz_inv N s -> lz_step N eofl pol s o = (out, s') ->
  lz_inv N s' /\ sound1 N (lz_pos s) o out (lz_pos s').
Proof.
  intros N eofl pol s o out s' Hinv. destruct o as [n|k]; unfold lz_step.
  - unfold lz_read, lz_read_fuel. destruct (n =? 0) eqn:En.
    + apply Nat.eqb_eq in En. intro H. inversion H; subst; clear H.
      split; auto.
      apply read_ok_intro; [lia | intros; lia | | intro; discriminate | lia].
      intros _. left; auto.
    + apply Nat.eqb_neq in En.
      destruct (lz_skip (S (S N)) N eofl pol s n) as [ok s1] eqn:ES.
      assert (Hn : 0 < n) by lia.
      assert (HF : N - l_index s < S (S N)) by lia.
      destruct (lz_skip_ok _ _ _ _ _ _ _ _ Hinv Hn HF ES) as (I1 & Q & A & B).
      destruct ok.
      * destruct (A eq_refl) as [A1 A2]. destruct I1 as [Hi Hu].
        destruct (under_read N eofl pol (l_u s1) n) as [[c eof] u'] eqn:EU.
        destruct (under_read_spec _ _ _ _ _ _ _ _ Hu EU) as (P1 & P2 & P3 & P4 & P5).
        intro H. inversion H; subst; clear H.
        unfold lz_inv; simpl. split; [lia|].
        rewrite <- A1. unfold lz_pos; simpl.
        apply read_ok_intro; [lia | intros; lia | | | lia].
        -- intro Hc0. destruct (P4 Hc0) as [Hz | [He Hz]]; [left; auto | right; split; auto; lia].
        -- intro He. specialize (P5 He). lia.
      * intro H. inversion H; subst; clear H. specialize (B eq_refl).
        split; auto. rewrite Q.
        apply read_ok_intro; [lia | intros; lia | | intros; lia | lia].
        intros _. right. split; auto.
  - unfold lz_seek. destruct (l_index s <=? k) eqn:E; intro H; inversion H; subst; clear H.
    + apply Nat.leb_le in E. destruct Hinv. unfold lz_inv, lz_pos; simpl. split; [auto|lia].
    + apply Nat.leb_gt in E. split; auto. unfold lz_pos; simpl. lia.
Qed.

Theorem lz_sound : forall N eofl pol ops, sound N 0 ops (run_lz N eofl pol ops).
Proof.
  intros. unfold run_lz.
  apply (run_gen_sound lzs (lz_step N eofl pol) (lz_inv N) lz_pos N (lz_step_ok N eofl pol) ops (mkL u0 0 0)).
  unfold lz_inv, u0; simpl; lia.
Qed.

(** ** concatenatingRowsWrapper *)

Definition eg_inv (N : nat) (s : egs) : Prop := e_index s = upos (e_u s) /\ upos (e_u s) <= N.

Lemma eg_seek_loop_ok : forall N eofl pol k fuel s out s',
  eg_inv N s -> e_index s <= k -> N - e_index s < fuel ->
  eg_seek_loop fuel N eofl pol s k = (out, s') ->
  eg_inv N s' /\ sound1 N (e_index s) (FSeek k) out (e_index s').
Proof.
  intros N eofl pol k fuel. induction fuel as [|fuel IH]; intros s out s' [Hi Hu] Hk Hf; [lia|].
  simpl. destruct (e_index s <? k) eqn:EL.
  - apply Nat.ltb_lt in EL.
    destruct (under_read N eofl pol (e_u s) (Nat.min (k - e_index s) 64)) as [[c eof] u'] eqn:EU.
    destruct (under_read_spec _ _ _ _ _ _ _ _ Hu EU) as (P1 & P2 & P3 & P4 & P5).
    destruct eof.
    + intro H. inversion H; subst; clear H. specialize (P5 eq_refl).
      unfold eg_inv; simpl. split; [lia|]. split; [lia|]. split; lia.
    + intro H.
      assert (Hc : 0 < c).
      { destruct c; [|lia]. destruct (P4 eq_refl) as [Hz | [Hz _]]; [lia|discriminate]. }
      assert (HI : eg_inv N (mkE u' (e_index s + c))) by (unfold eg_inv; simpl; lia).
      assert (HK : e_index (mkE u' (e_index s + c)) <= k) by (simpl; lia).
      assert (HF : N - e_index (mkE u' (e_index s + c)) < fuel) by (simpl; lia).
      destruct (IH _ _ _ HI HK HF H) as [I' S'].
      split; auto.
      destruct out; simpl in *; try contradiction; try lia.
  - apply Nat.ltb_ge in EL. intro H. inversion H; subst; clear H.
    split; [split; auto|]. simpl. lia.
Qed.

Lemma eg_step_ok : forall N eofl pol s o out s',
  eg_inv N s -> eg_step N eofl pol s o = (out, s') ->
  eg_inv N s' /\ sound1 N (e_index s) o out (e_index s').
Proof.
  intros N eofl pol s o out s' Hinv. destruct o as [n|k]; unfold eg_step.
  - unfold eg_read. destruct Hinv as [Hi Hu].
    destruct (under_read N eofl pol (e_u s) n) as [[c eof] u'] eqn:EU.
    destruct (under_read_spec _ _ _ _ _ _ _ _ Hu EU) as (P1 & P2 & P3 & P4 & P5).
    intro H. inversion H; subst; clear H. unfold eg_inv; simpl.
    split; [lia|].
    apply read_ok_intro; [lia | intros; lia | | | lia].
    + intro Hc0. destruct (P4 Hc0) as [Hz | [He Hz]]; [left; auto | right; split; auto; lia].
    + intro He. specialize (P5 He). lia.
  - unfold eg_seek. destruct (k <? e_index s) eqn:E.
    + apply Nat.ltb_lt in E. intro H. inversion H; subst; clear H. split; auto. simpl. lia.
    + apply Nat.ltb_ge in E. apply eg_seek_loop_ok; auto. lia.
Qed.

Theorem eg_sound : forall N eofl pol ops, sound N 0 ops (run_eg N eofl pol ops).
Proof.
  intros. unfold run_eg.
  apply (run_gen_sound egs (eg_step N eofl pol) (eg_inv N) e_index N (eg_step_ok N eofl pol) ops (mkE u0 0)).
  unfold eg_inv, u0; simpl; lia.
Qed.

(** ** Seek, then read: the rows from k on *)

(** After any history, a seek forward that succeeds followed by reads returns
    batches that start at k and follow one another: the case of [sound] the
    property is named after. *)
Lemma sound_app_seek_read : forall N ops outs pos k n f c e,
  sound N pos (ops ++ [FSeek k; FRead n]) (outs ++ [FSeekOk; FRows f c e]) ->
  length ops = length outs ->
  0 < c -> f = k /\ k + c <= N.
Proof.
  intros N ops. induction ops as [|o ops IH]; intros outs pos k n f c e H Hl Hc.
  - destruct outs; [|discriminate]. simpl in H. destruct H as (_ & B & _). apply B; auto.
  - destruct outs as [|out outs]; [discriminate|]. simpl in Hl. injection Hl as Hl.
    simpl in H. destruct o as [m|j]; destruct out as [f0 c0 e0| | |]; try contradiction.
    + destruct H as (_ & _ & _ & _ & H). eapply IH; eauto.
    + eapply IH; eauto.
    + destruct H as [_ H]. eapply IH; eauto.
    + destruct H as (_ & _ & H). eapply IH; eauto.
Qed.

(** The variant that drops at most one batch is not sound: a seek farther than
    the next batch. *)
Theorem lz_once_refuted :
  ~ sound 10 0 [FSeek 5; FRead 2] (run_lz_once 10 false (fun _ => 0) [FSeek 5; FRead 2]).
Proof. vm_compute. intros (_ & H & _). destruct H as [H _]; [lia | discriminate]. Qed.
