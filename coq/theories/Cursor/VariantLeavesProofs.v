(** Proofs about Cursor/VariantLeaves.v: for every number of leaf columns,
    every number of rows and every finite history of cursor creations, Next
    and SeekToRow, every leaf that is read delivers the rows of the shared
    window, wherever in the history its cursor was created. *)
From Coq Require Import List Arith Bool Lia.
From PQ Require Import Cursor.VariantLeaves.
Import ListNotations.

(** what a leaf looks like when the reader stands at row [off] *)
Definition leaf_ok (off : nat) (l : leaf) : Prop :=
  (lf_in l = false -> lf_opened l = false) /\
  (if lf_opened l
   then match lf_pending l with Some p => p = off | None => lf_pos l = off end
   else lf_pending l = None /\ lf_pos l = 0).

Lemma leaf_read_ok : forall off n l,
  leaf_ok off l ->
  snd (leaf_read true off n l) = (if lf_in l then Some off else None) /\
  lf_in (fst (leaf_read true off n l)) = lf_in l /\
  leaf_ok (off + n) (fst (leaf_read true off n l)).
Proof.
  intros off n l [Hin Hok]. unfold leaf_read.
  destruct (lf_in l) eqn:Ein.
  - destruct (lf_opened l) eqn:Eop.
    + destruct (lf_pending l) as [p|] eqn:Ep; simpl.
      * subst p. split; auto. split; auto. split; [intro; discriminate|simpl; auto].
      * rewrite Hok. split; auto. split; auto. split; [intro; discriminate|simpl; auto].
    + destruct Hok as [Hp Hpos]. rewrite Hp, Hpos. simpl.
      destruct (0 <? off) eqn:E0; simpl.
      * split; auto. split; auto. split; [intro; discriminate|simpl; auto].
      * apply Nat.ltb_ge in E0. assert (off = 0) by lia. subst off.
        split; auto. split; auto. split; [intro; discriminate|simpl; auto].
  - simpl. split; auto. split; auto.
    split; auto. rewrite (Hin eq_refl) in *. exact Hok.
Qed.

Lemma set_in_spec : forall ls j off,
  Forall (leaf_ok off) ls ->
  map lf_in (set_in ls j) = set_true (map lf_in ls) j /\ Forall (leaf_ok off) (set_in ls j).
Proof.
  induction ls as [|l ls IH]; intros j off H; simpl.
  - destruct j; auto.
  - inversion H as [|? ? Hl Hls]; subst. destruct j; simpl.
    + split; auto. constructor; auto.
      destruct Hl as [A B]. split; simpl; auto. intro; discriminate.
    + destruct (IH j off Hls) as [E F]. rewrite E. split; auto.
Qed.

Definition vinv (s : vstate) : Prop := Forall (leaf_ok (v_off s)) (v_leaves s).

Lemma variant_refines_gen : forall N ops s,
  vinv s -> vrun true N s ops = vspec N (v_off s) (map lf_in (v_leaves s)) ops.
Proof.
  intros N ops. induction ops as [|o ops IH]; intros s Hinv; simpl; auto.
  destruct o as [j|n|k]; simpl.
  - (* create *)
    destruct (set_in_spec (v_leaves s) j (v_off s) Hinv) as [E F].
    rewrite <- E. f_equal.
    apply (IH (mkV (v_off s) (set_in (v_leaves s) j))). exact F.
  - (* next *)
    unfold vnext. destruct (n =? 0) eqn:En.
    + rewrite map_map. f_equal. apply IH; auto.
    + destruct (N <=? v_off s) eqn:EN.
      * f_equal. apply IH; auto.
      * set (n' := Nat.min n (N - v_off s)).
        assert (P : forall l, In l (v_leaves s) -> leaf_ok (v_off s) l).
        { apply Forall_forall. exact Hinv. }
        assert (E1 : map snd (map (leaf_read true (v_off s) n') (v_leaves s)) =
                     map (fun b : bool => if b then Some (v_off s) else None) (map lf_in (v_leaves s))).
        { rewrite !map_map. apply map_ext_in. intros l Hl.
          destruct (leaf_read_ok (v_off s) n' l (P l Hl)) as [A _]. exact A. }
        assert (E2 : map lf_in (map fst (map (leaf_read true (v_off s) n') (v_leaves s))) = map lf_in (v_leaves s)).
        { rewrite !map_map. apply map_ext_in. intros l Hl.
          destruct (leaf_read_ok (v_off s) n' l (P l Hl)) as (_ & A & _). exact A. }
        assert (E3 : vinv (mkV (v_off s + n') (map fst (map (leaf_read true (v_off s) n') (v_leaves s))))).
        { unfold vinv; simpl. apply Forall_forall. intros x Hx.
          rewrite map_map in Hx. apply in_map_iff in Hx. destruct Hx as [l [Hx Hl]]. subst x.
          destruct (leaf_read_ok (v_off s) n' l (P l Hl)) as (_ & _ & A). exact A. }
        rewrite E1. f_equal.
        rewrite (IH _ E3). simpl. rewrite E2. reflexivity.
  - (* seek *)
    unfold vseek. destruct (N <? k) eqn:EN.
    + f_equal. apply IH; auto.
    + f_equal.
      set (mark := fun l : leaf =>
        if lf_in l && (lf_opened l || negb true)
        then mkLeaf (lf_in l) (lf_opened l) (Some k) (lf_pos l) else l).
      assert (E2 : map lf_in (map mark (v_leaves s)) = map lf_in (v_leaves s)).
      { rewrite map_map. apply map_ext. intro l. unfold mark.
        destruct (lf_in l && (lf_opened l || negb true)); reflexivity. }
      assert (E3 : vinv (mkV k (map mark (v_leaves s)))).
      { unfold vinv; simpl. apply Forall_forall. intros x Hx.
        apply in_map_iff in Hx. destruct Hx as [l [Hx Hl]]. subst x.
        assert (Hok : leaf_ok (v_off s) l) by (eapply Forall_forall; eauto).
        destruct Hok as [A B]. unfold mark.
        destruct (lf_in l) eqn:Ein; simpl.
        - destruct (lf_opened l) eqn:Eop; simpl.
          + unfold leaf_ok; simpl. split; [intro; discriminate | reflexivity].
          + unfold leaf_ok. rewrite Ein, Eop. split; [intro; discriminate | exact B].
        - unfold leaf_ok. rewrite Ein. rewrite (A eq_refl) in *. split; [auto | exact B]. }
      rewrite (IH _ E3). simpl. rewrite E2. reflexivity.
Qed.

Lemma repeat_leaf0_ok : forall n off, Forall (leaf_ok off) (repeat leaf0 n).
Proof.
  induction n; intro off; simpl; constructor; auto.
  split; simpl; auto.
Qed.

Lemma map_in_repeat : forall n, map lf_in (repeat leaf0 n) = repeat false n.
Proof. induction n; simpl; congruence. Qed.

Theorem variant_refines : forall nleaves N ops,
  run_variant nleaves N ops = run_vspec nleaves N ops.
Proof.
  intros. unfold run_variant, run_vspec, vinit.
  rewrite (variant_refines_gen N ops (mkV 0 (repeat leaf0 nleaves))).
  - simpl. rewrite map_in_repeat. reflexivity.
  - unfold vinv; simpl. apply repeat_leaf0_ok.
Qed.

(** The seeded variant: a leaf whose cursor is created after the reader
    advanced reads from row 0. *)
Theorem variant_seeded_refuted :
  run_variant_seeded 2 20 [VCreate 0; VNext 10; VCreate 1; VNext 5]
  <> run_vspec 2 20 [VCreate 0; VNext 10; VCreate 1; VNext 5].
Proof. vm_compute. discriminate. Qed.
