(** Proofs about columnPages (Cursor/ColumnPages.v): the page reader of
    Column.Pages() refines the row-position specification over the
    concatenation of the row groups, for every layout and every history. *)
From Coq Require Import List Arith Bool Lia.
From PQ Require Import Cursor.Model Cursor.Spec Cursor.Proofs Cursor.Rows Cursor.Multi
  Cursor.MultiProofs Cursor.ColumnPages.
Import ListNotations.

Lemma set_nth_middle : forall (A : Type) (pre : list A) c post x,
  set_nth (pre ++ c :: post) (length pre) x = pre ++ x :: post.
Proof. induction pre as [|y pre IH]; intros; cbn; [reflexivity|now rewrite IH]. Qed.

Lemma split_nth_error : forall (A : Type) (l : list A) d x, nth_error l d = Some x ->
  l = firstn d l ++ x :: skipn (S d) l.
Proof.
  induction l as [|y l IH]; intros d x H; [destruct d; discriminate|].
  destruct d as [|d]; cbn in H.
  - inversion H; subst. reflexivity.
  - cbn [firstn skipn app]. f_equal. now apply IH.
Qed.

Lemma Forall2_firstn' : forall (A B : Type) (R : A -> B -> Prop) n l l',
  Forall2 R l l' -> Forall2 R (firstn n l) (firstn n l').
Proof.
  induction n as [|n IH]; intros l l' H; cbn; [constructor|].
  destruct H; constructor; auto.
Qed.

Lemma Forall2_skipn' : forall (A B : Type) (R : A -> B -> Prop) n l l',
  Forall2 R l l' -> Forall2 R (skipn n l) (skipn n l').
Proof.
  induction n as [|n IH]; intros l l' H; cbn; [assumption|].
  destruct H; [constructor|auto].
Qed.

Lemma Forall2_len : forall (A B : Type) (R : A -> B -> Prop) l l', Forall2 R l l' -> length l = length l'.
Proof. intros A B R l l' F. induction F; cbn; congruence. Qed.

Lemma Forall2_nth_error : forall (A B : Type) (R : A -> B -> Prop) l l', Forall2 R l l' ->
  forall d x y, nth_error l d = Some x -> nth_error l' d = Some y -> R x y.
Proof.
  intros A B R l l' F. induction F as [|a b l l' Hab F IH]; intros d x y Hx Hy; [destruct d; discriminate|].
  destruct d as [|d]; cbn in Hx, Hy; [congruence|eauto].
Qed.

Lemma Forall2_weaken : forall (A B : Type) (R1 R2 : A -> B -> Prop),
  (forall a b, R1 a b -> R2 a b) -> forall l l', Forall2 R1 l l' -> Forall2 R2 l l'.
Proof. intros A B R1 R2 H l l' F. induction F; constructor; auto. Qed.

(** The first loop of columnPages.SeekToRow: the row group where it stops and
    the row number within it, which may be the number of rows of that row
    group (the comparison is strict). *)
Lemma cp_locate_spec : forall rest i k idx k',
  cp_locate (map total_rows rest) i k = (idx, k') ->
  exists d, idx = i + d /\ d <= length rest /\ k = mp_offset rest d + k' /\
            (d < length rest -> k' <= total_rows (nth d rest [])).
Proof.
  induction rest as [|c rest IH]; intros i k idx k' H.
  - cbn in H. inversion H; subst. exists 0. cbn. repeat split; lia.
  - cbn [map cp_locate] in H. destruct (total_rows c <? k) eqn:E.
    + apply Nat.ltb_lt in E. apply IH in H. destruct H as (d & -> & Hd & Hk & Hlt).
      exists (S d). cbn [length mp_offset nth]. repeat split; try lia.
    + apply Nat.ltb_ge in E. inversion H; subst. exists 0. cbn. repeat split; try lia. intros _. exact E.
Qed.

Section ColumnPagesProofs.
  Variable cstep : chunk -> state -> op -> state * out.
  Variable CI : chunk -> state -> nat -> Prop.
  Hypothesis CI_init : forall pg, CI pg init 0.
  Hypothesis Hread : forall pg, positive pg -> forall c p, CI pg c p ->
    snd (cstep pg c ReadPage) = snd (spec_step pg p ReadPage) /\
    CI pg (fst (cstep pg c ReadPage)) (fst (spec_step pg p ReadPage)).
  (* a chunk without pages accepts a seek to row 0 only *)
  Hypothesis Hseek : forall pg, positive pg -> forall c p k, CI pg c p -> pg <> [] \/ k = 0 ->
    snd (cstep pg c (SeekToRow k)) = SeekOk /\ CI pg (fst (cstep pg c (SeekToRow k))) k.

  Variable chunks : list chunk.
  Hypothesis Hpos : Forall positive chunks.

  (* the cursor of a row group is somewhere / at its first row *)
  Definition Rany (pg : chunk) (c : state) : Prop := exists p, CI pg c p.
  Definition R0 (pg : chunk) (c : state) : Prop := CI pg c 0.

  (** The row group being read is at row [lp] of its [total_rows pg] rows,
      every later row group is at its first row (the earlier ones are
      anywhere); or the reader is beyond the last row group. *)
  Inductive cp_inv (m : cpstate) (pos : nat) : Prop :=
  | cp_in : forall cpre pg cpost pre c post lp,
      chunks = cpre ++ pg :: cpost -> cp_pages m = pre ++ c :: post ->
      cp_index m = length cpre -> Forall2 Rany cpre pre -> CI pg c lp -> lp <= total_rows pg ->
      Forall2 R0 cpost post -> pos = mp_offset chunks (length cpre) + lp -> cp_inv m pos
  | cp_end : Forall2 Rany chunks (cp_pages m) -> cp_index m = length chunks ->
      mp_offset chunks (length chunks) <= pos -> cp_inv m pos.

  Lemma R0_any : forall l l', Forall2 R0 l l' -> Forall2 Rany l l'.
  Proof. apply Forall2_weaken. intros a b H. exists 0. exact H. Qed.

  Lemma cp_inv_all : forall m pos, cp_inv m pos -> Forall2 Rany chunks (cp_pages m).
  Proof.
    intros m pos [cpre pg cpost pre c post lp Hch Hpg Hidx Hpre Hc Hlp Hpost Hp | Hall _ _]; [|exact Hall].
    rewrite Hch, Hpg. apply Forall2_app; [assumption|]. constructor; [now exists lp|now apply R0_any].
  Qed.

  Lemma cp_inv_index : forall m pos, cp_inv m pos -> cp_index m <= length chunks.
  Proof.
    intros m pos [cpre pg cpost pre c post lp Hch Hpg Hidx Hpre Hc Hlp Hpost Hp | _ Hidx _]; [|lia].
    rewrite Hidx, Hch, app_length. lia.
  Qed.

  Lemma chunk_positive : forall j pg, nth_error chunks j = Some pg -> positive pg.
  Proof.
    intros j pg H. apply nth_error_In in H. rewrite Forall_forall in Hpos. now apply Hpos.
  Qed.

  Definition cp_ok (r : cpstate * out) (pos : nat) : Prop :=
    snd r = snd (spec_step (concat chunks) pos ReadPage) /\
    cp_inv (fst r) (fst (spec_step (concat chunks) pos ReadPage)).

  Lemma cp_read_ok : forall f m pos, cp_inv m pos -> length chunks + 1 - cp_index m <= f ->
    cp_ok (cp_read cstep f chunks m) pos.
  Proof.
    induction f as [|f IH]; intros m pos Hm Hf.
    { pose proof (cp_inv_index m pos Hm). lia. }
    cbn [cp_read].
    destruct Hm as [cpre pg cpost pre c post lp Hch Hpg Hidx Hpre Hc Hlp Hpost Hp | Hall Hidx Hp].
    - destruct m as [pages idx]. cbn [cp_pages cp_index] in *. subst pages idx.
      pose proof (Forall2_len _ _ _ _ _ Hpre) as Hlen.
      assert (Hn : nth_error chunks (length cpre) = Some pg).
      { rewrite Hch. rewrite nth_error_app2 by lia. now rewrite Nat.sub_diag. }
      replace (length (pre ++ c :: post) <=? length cpre) with false
        by (symmetry; apply Nat.leb_gt; rewrite app_length; cbn; lia).
      rewrite (nth_error_nth chunks (length cpre) [] Hn).
      assert (En : nth (length cpre) (pre ++ c :: post) init = c) by (rewrite Hlen; apply nth_middle).
      assert (Es : forall x, set_nth (pre ++ c :: post) (length cpre) x = pre ++ x :: post)
        by (intros; rewrite Hlen; apply set_nth_middle).
      rewrite En.
      pose proof (chunk_positive _ _ Hn) as Hpgpos.
      destruct (Hread pg Hpgpos c lp Hc) as (Ho & Hc'). rewrite spec_read_eq in Ho, Hc'.
      destruct (cstep pg c ReadPage) as [c' o]. cbn [fst snd] in Ho, Hc'.
      pose proof (page_end_concat chunks (length cpre) pg lp 0 Hn) as Hpe.
      cbn [Nat.add] in Hpe. rewrite <- Hp in Hpe.
      destruct (page_end pg 0 lp) as [e|] eqn:Ee.
      + cbn in Ho, Hc'. subst o. pose proof (page_end_bounds _ _ _ _ Ee) as (Hlt & Hle'). cbn in Hle'.
        unfold cp_ok. rewrite spec_read_eq, Hpe. cbn [fst snd shift_out].
        split; [f_equal; lia|].
        apply (cp_in _ _ cpre pg cpost pre c' post e); cbn [cp_pages cp_index];
          try assumption; try reflexivity; try lia.
        apply Es.
      + cbn in Ho, Hc'. subst o.
        apply page_end_none in Ee; [|lia]. cbn in Ee. assert (lp = total_rows pg) by lia. subst lp.
        rewrite Es. apply IH; [|cbn [cp_index]; lia].
        pose proof (mp_offset_S _ _ _ Hn) as Hoff.
        assert (Hlc : length chunks = length cpre + S (length cpost))
          by (rewrite Hch at 1; rewrite app_length; reflexivity).
        destruct Hpost as [|pg2 c2 cpost' post' H2 Hpost'].
        * apply cp_end.
          -- cbn [cp_pages]. rewrite Hch. apply Forall2_app; [assumption|].
             constructor; [now exists (total_rows pg)|constructor].
          -- cbn [cp_index]. cbn in Hlc. lia.
          -- cbn in Hlc. replace (length chunks) with (S (length cpre)) by lia. lia.
        * apply (cp_in _ _ (cpre ++ [pg]) pg2 cpost' (pre ++ [c']) c2 post' 0).
          -- rewrite <- app_assoc. exact Hch.
          -- cbn [cp_pages]. now rewrite <- app_assoc.
          -- cbn [cp_index]. rewrite app_length. cbn. lia.
          -- apply Forall2_app; [assumption|]. constructor; [now exists (total_rows pg)|constructor].
          -- exact H2.
          -- lia.
          -- exact Hpost'.
          -- rewrite app_length. cbn [length]. replace (length cpre + 1) with (S (length cpre)) by lia. lia.
    - pose proof (Forall2_len _ _ _ _ _ Hall) as Hlen. rewrite Hidx, <- Hlen, Nat.leb_refl.
      unfold cp_ok. rewrite spec_read_eq.
      rewrite page_end_beyond by (rewrite <- mp_offset_all; lia). cbn [fst snd].
      split; [reflexivity|]. now apply cp_end.
  Qed.

  Lemma cp_inv_init : cp_inv (cpinit chunks) 0.
  Proof.
    assert (Hall0 : forall l : list chunk, Forall2 R0 l (map (fun _ => init) l)).
    { induction l; cbn; constructor; [apply CI_init|assumption]. }
    unfold cpinit. destruct chunks as [|pg rest] eqn:E.
    - apply cp_end; rewrite E; cbn; try constructor.
    - apply (cp_in _ _ [] pg rest [] init (map (fun _ => init) rest) 0); try reflexivity.
      + exact E.
      + constructor.
      + apply CI_init.
      + lia.
      + apply Hall0.
      + rewrite E. reflexivity.
  Qed.

  Lemma cp_rewind_ok : forall n cpost post, Forall positive cpost -> Forall2 Rany cpost post ->
    length cpost <= n ->
    exists post', cp_rewind cstep n cpost post = (post', SeekOk) /\ Forall2 R0 cpost post'.
  Proof.
    induction n as [|n IH]; intros cpost post Hp Hall Hn.
    - destruct Hall; [|cbn in Hn; lia]. exists []. split; [reflexivity|constructor].
    - destruct Hall as [|pg c cpost post (p & Hc) Hall].
      + exists []. split; [reflexivity|constructor].
      + cbn [cp_rewind]. inversion Hp as [|? ? Hpg Hp']; subst.
        destruct (Hseek pg Hpg c p 0 Hc (or_intror eq_refl)) as (Ho & Hc').
        destruct (cstep pg c (SeekToRow 0)) as [c' o]. cbn [fst snd] in Ho, Hc'. subst o.
        destruct (IH cpost post Hp' Hall) as (post' & -> & H0); [cbn in Hn; lia|].
        exists (c' :: post'). split; [reflexivity|]. constructor; assumption.
  Qed.

  Lemma cp_step_refines : forall m pos o, cp_inv m pos ->
    snd (cp_step cstep false chunks m o) = snd (spec_step_noindex (concat chunks) pos o) /\
    cp_inv (fst (cp_step cstep false chunks m o)) (fst (spec_step_noindex (concat chunks) pos o)).
  Proof.
    intros m pos o Hm. destruct o as [|k]; cbn [cp_step spec_step_noindex].
    - apply (cp_read_ok (S (length chunks)) m pos Hm). lia.
    - pose proof (cp_inv_all m pos Hm) as Hall. pose proof (Forall2_len _ _ _ _ _ Hall) as Hlen.
      unfold cp_seek. destruct (cp_locate (map total_rows chunks) 0 k) as [idx k'] eqn:El.
      apply cp_locate_spec in El. destruct El as (d & -> & Hd & Hk & Hle). cbn [Nat.add].
      rewrite <- Hlen.
      destruct (Nat.ltb_spec d (length chunks)) as [Hl|Hl].
      + specialize (Hle Hl).
        destruct (nth_error chunks d) as [pg|] eqn:En; [|apply nth_error_None in En; lia].
        destruct (nth_error (cp_pages m) d) as [c|] eqn:Ec; [|apply nth_error_None in Ec; lia].
        rewrite (nth_error_nth chunks d [] En) in *. rewrite (nth_error_nth (cp_pages m) d init Ec).
        pose proof (split_nth_error _ _ _ _ En) as Sch. pose proof (split_nth_error _ _ _ _ Ec) as Spg.
        pose proof (Forall2_firstn' _ _ _ d _ _ Hall) as Hpre.
        pose proof (Forall2_skipn' _ _ _ (S d) _ _ Hall) as Hpost.
        pose proof (Forall2_nth_error _ _ _ _ _ Hall d pg c En Ec) as Hcur.
        destruct Hcur as (p & Hc).
        pose proof (chunk_positive _ _ En) as Hpgpos.
        assert (Hne : pg <> [] \/ k' = 0).
        { destruct pg; [right; cbn in Hle; lia|left; discriminate]. }
        destruct (Hseek pg Hpgpos c p k' Hc Hne) as (Ho & Hc').
        destruct (cstep pg c (SeekToRow k')) as [c' o]. cbn [fst snd] in Ho, Hc'. subst o.
        assert (Hpp : Forall positive (skipn (S d) chunks)).
        { rewrite Sch in Hpos. apply Forall_app in Hpos. destruct Hpos as (_ & H).
          now inversion H. }
        destruct (cp_rewind_ok (length chunks) _ _ Hpp Hpost) as (post' & -> & H0).
        { rewrite skipn_length. lia. }
        cbn [fst snd]. split; [reflexivity|].
        apply (cp_in _ _ (firstn d chunks) pg (skipn (S d) chunks) (firstn d (cp_pages m)) c' post' k');
          try assumption.
        * reflexivity.
        * cbn [cp_index]. rewrite firstn_length_le; lia.
        * rewrite firstn_length_le by lia. exact Hk.
      + assert (d = length chunks) by lia. subst d. cbn [fst snd]. split; [reflexivity|].
        apply cp_end; [exact Hall|reflexivity|lia].
  Qed.
End ColumnPagesProofs.

Lemma indexed_seek_or : forall pg, positive pg -> forall c p k, inv_indexed pg c p -> pg <> [] \/ k = 0 ->
  snd (step_indexed pg c (SeekToRow k)) = SeekOk /\ inv_indexed pg (fst (step_indexed pg c (SeekToRow k))) k.
Proof.
  intros pg Hp c p k Hc Hk. pose proof (indexed_seek_hyp pg Hp c p k Hc) as H.
  replace (seek_ok true pg k) with true in H; [exact H|].
  unfold seek_ok. destruct pg; [|reflexivity]. destruct Hk as [Hk| ->]; [congruence|reflexivity].
Qed.

Lemma noindex_seek_or : forall pg, positive pg -> forall c p k, inv_stream pg c p -> pg <> [] \/ k = 0 ->
  snd (step_noindex false pg c (SeekToRow k)) = SeekOk /\
  inv_stream pg (fst (step_noindex false pg c (SeekToRow k))) k.
Proof.
  intros pg Hp c p k Hc _. pose proof (noindex_seek_hyp false pg Hp c p k Hc) as H.
  replace (seek_ok false pg k) with true in H
    by (unfold seek_ok; destruct pg; [now rewrite orb_true_r|reflexivity]).
  exact H.
Qed.

Theorem cpages_indexed_refines : forall chunks ops, Forall positive chunks ->
  run_cpages_indexed chunks ops = run_spec_noindex (concat chunks) ops.
Proof.
  intros chunks ops Hp. unfold run_cpages_indexed, run_spec_noindex.
  apply (run_refines _ _ _ _ _ _ (cp_inv inv_indexed chunks)).
  - intros s p o Hi. apply (cp_step_refines step_indexed inv_indexed); try assumption.
    + intros pg Hpg c q Hc. exact (step_indexed_refines pg Hpg c q ReadPage Hc).
    + exact indexed_seek_or.
  - apply cp_inv_init; [apply inv_indexed_init|exact Hp].
Qed.

Theorem cpages_noindex_refines : forall chunks ops, Forall positive chunks ->
  run_cpages_noindex chunks ops = run_spec_noindex (concat chunks) ops.
Proof.
  intros chunks ops Hp. unfold run_cpages_noindex, run_spec_noindex.
  apply (run_refines _ _ _ _ _ _ (cp_inv inv_stream chunks)).
  - intros s p o Hi. apply (cp_step_refines (step_noindex false) inv_stream); try assumption.
    + intros pg Hpg c q Hc. exact (step_noindex_refines false pg Hpg c q ReadPage Hc).
    + exact noindex_seek_or.
  - apply cp_inv_init; [apply inv_stream_init|exact Hp].
Qed.
