(** Proofs about Cursor/Nested.v: whatever the nesting, the chunks of a multi
    row group are the chunks of the files in order, rowCounts holds the rows
    of each of them, and multiPages over it is multiPages over the flat list. *)
From Coq Require Import List Arith Bool Lia.
From PQ Require Import Cursor.Model Cursor.Spec Cursor.Proofs Cursor.Multi Cursor.MultiProofs Cursor.Nested.
Import ListNotations.

(* every application of MultiRowGroup has at least one argument *)
Fixpoint rg_wf (t : rgtree) : Prop :=
  match t with
  | RGLeaf _ => True
  | RGNode ts => ts <> [] /\ (fix all (l : list rgtree) : Prop := match l with [] => True | x :: r => rg_wf x /\ all r end) ts
  end.

Lemma rg_wf_node : forall ts, rg_wf (RGNode ts) <-> ts <> [] /\ Forall rg_wf ts.
Proof.
  intros ts. cbn [rg_wf]. split; intros [Hn H]; split; try exact Hn.
  - induction ts as [|x r IH]; [constructor|]. destruct H as [Hx Hr]. constructor; [exact Hx|].
    destruct r; [constructor|]. apply IH; [discriminate|exact Hr].
  - clear Hn. induction H; [exact I|]. split; assumption.
Qed.

(* induction over the expressions *)
Lemma rgtree_ind' : forall P : rgtree -> Prop,
  (forall c, P (RGLeaf c)) ->
  (forall ts, Forall P ts -> P (RGNode ts)) ->
  forall t, P t.
Proof.
  intros P Hl Hn. fix IH 1. intros [c|ts]; [apply Hl|]. apply Hn.
  induction ts as [|x r IHr]; constructor; [apply IH|exact IHr].
Qed.

Definition val_chunks (v : rgval) : list chunk :=
  match v with VFile c => [c] | VMulti ch _ _ => ch end.

Definition val_ok (v : rgval) : Prop :=
  match v with
  | VFile _ => True
  | VMulti ch cnt _ => cnt = map total_rows ch /\ ch <> []
  end.

Lemma init_append_ok : forall g, val_ok g ->
  init_append false g = (val_chunks g, map total_rows (val_chunks g)).
Proof.
  intros [c|ch cnt gs] H; cbn; [reflexivity|]. destruct H as [-> Hne].
  destruct ch; [congruence|]. reflexivity.
Qed.

Lemma concat_map_map : forall (A B : Type) (f : A -> B) (ls : list (list A)),
  concat (map (map f) ls) = map f (concat ls).
Proof. intros. symmetry. apply concat_map. Qed.

Lemma val_chunks_nonempty : forall v, val_ok v -> val_chunks v <> [].
Proof. intros [c|ch cnt gs] H; cbn; [discriminate|]. exact (proj2 H). Qed.

Lemma multi_init_ok : forall gs, gs <> [] -> Forall val_ok gs ->
  val_chunks (multi_init false gs) = concat (map val_chunks gs) /\ val_ok (multi_init false gs).
Proof.
  intros gs Hne H. unfold multi_init. cbn [val_chunks val_ok].
  assert (E1 : map (fun g => fst (init_append false g)) gs = map val_chunks gs).
  { apply map_ext_in. intros g Hg. rewrite init_append_ok; [reflexivity|].
    rewrite Forall_forall in H. now apply H. }
  assert (E2 : map (fun g => snd (init_append false g)) gs = map (map total_rows) (map val_chunks gs)).
  { rewrite map_map. apply map_ext_in. intros g Hg. rewrite init_append_ok; [reflexivity|].
    rewrite Forall_forall in H. now apply H. }
  rewrite E1, E2, concat_map_map. split; [reflexivity|]. split; [reflexivity|].
  destruct gs as [|g r]; [congruence|]. cbn. inversion H; subst.
  intros E. apply app_eq_nil in E. destruct E as [E _]. now apply (val_chunks_nonempty g).
Qed.

(** the flattening: the chunks are the chunks of the files in the order of the
    expression, and rowCounts[j] is the number of rows of chunk j *)
Theorem nested_flatten : forall t, rg_wf t ->
  val_chunks (rg_eval false t) = rg_leaves t /\ val_ok (rg_eval false t).
Proof.
  induction t as [c|ts IH] using rgtree_ind'; intros Hwf; [cbn; auto|].
  apply rg_wf_node in Hwf. destruct Hwf as [Hne Hwf].
  assert (Hall : Forall (fun t => val_chunks (rg_eval false t) = rg_leaves t /\ val_ok (rg_eval false t)) ts).
  { rewrite Forall_forall in *. intros x Hx. apply IH; [exact Hx|]. now apply Hwf. }
  assert (Hok : Forall val_ok (map (rg_eval false) ts)).
  { rewrite Forall_forall. intros v Hv. apply in_map_iff in Hv. destruct Hv as (x & <- & Hx).
    rewrite Forall_forall in Hall. now apply Hall. }
  assert (Hch : concat (map val_chunks (map (rg_eval false) ts)) = concat (map rg_leaves ts)).
  { f_equal. rewrite map_map. apply map_ext_in. intros x Hx. rewrite Forall_forall in Hall. now apply Hall. }
  cbn [rg_eval rg_leaves]. unfold multi_row_group.
  destruct ts as [|t0 [|t1 r]]; [congruence| |].
  - cbn [map]. inversion Hall; subst. destruct H1 as [E Ho]. cbn [concat]. rewrite app_nil_r. auto.
  - remember (t0 :: t1 :: r) as ts. assert (Hgs : map (rg_eval false) ts <> []) by (subst ts; discriminate).
    destruct (multi_init_ok _ Hgs Hok) as [E Ho].
    replace (match map (rg_eval false) ts with [g] => g | _ => multi_init false (map (rg_eval false) ts) end)
      with (multi_init false (map (rg_eval false) ts)) by (subst ts; reflexivity).
    rewrite E, Hch. auto.
Qed.

Lemma map_nth_seq_default : forall (l : list nat) (f : nat -> nat),
  map (fun i => nth i l (f i)) (seq 0 (length l)) = l.
Proof.
  induction l as [|a l IH]; intros f; [reflexivity|]. cbn [length seq map nth]. f_equal.
  rewrite <- seq_shift, map_map. apply (IH (fun i => f (S i))).
Qed.

Lemma eff_counts_ok : forall ch gs, eff_counts (length ch) (map total_rows ch) gs = map total_rows ch.
Proof.
  intros. unfold eff_counts. rewrite <- (map_length total_rows ch) at 1.
  apply (map_nth_seq_default (map total_rows ch) (fun i => rg_rows (nth i gs (VFile [])))).
Qed.

Lemma mpv_step_flat : forall cstep ch m o,
  mpv_step cstep ch (map total_rows ch) m o = mp_step cstep ch m o.
Proof. intros. destruct o; reflexivity. Qed.

Lemma run_ext : forall (S O R : Type) (f g : S -> O -> S * R), (forall s o, f s o = g s o) ->
  forall ops s, run f s ops = run g s ops.
Proof.
  intros S O R f g H. induction ops as [|o r IH]; intros s; [reflexivity|].
  cbn [run]. rewrite H. destruct (g s o). now rewrite IH.
Qed.

(** multiPages over a multi row group, whatever its nesting, is multiPages over
    the chunks of the files *)
Theorem nested_pages_flat : forall cstep t ch cnt gs ops, rg_wf t ->
  rg_eval false t = VMulti ch cnt gs ->
  run_value_pages cstep (rg_eval false t) ops = run (mp_step cstep (rg_leaves t)) mpinit ops.
Proof.
  intros cstep t ch cnt gs ops Hwf E. destruct (nested_flatten t Hwf) as [Hc Ho].
  rewrite E in *. cbn [val_chunks val_ok run_value_pages] in *. destruct Ho as [-> _]. subst ch.
  rewrite eff_counts_ok. apply run_ext. intros. apply mpv_step_flat.
Qed.

Theorem nested_indexed_refines : forall t ch cnt gs ops, rg_wf t ->
  rg_eval false t = VMulti ch cnt gs -> Forall positive (rg_leaves t) ->
  run_nested_indexed t ops = run_spec_noindex (concat (rg_leaves t)) ops.
Proof.
  intros t ch cnt gs ops Hwf E Hp. unfold run_nested_indexed.
  rewrite (nested_pages_flat _ _ _ _ _ _ Hwf E). now apply mpages_indexed_refines.
Qed.

Theorem nested_noindex_refines : forall t ch cnt gs ops, rg_wf t ->
  rg_eval false t = VMulti ch cnt gs -> Forall positive (rg_leaves t) ->
  run_nested_noindex t ops = run_spec_noindex (concat (rg_leaves t)) ops.
Proof.
  intros t ch cnt gs ops Hwf E Hp. unfold run_nested_noindex.
  rewrite (nested_pages_flat _ _ _ _ _ _ Hwf E). now apply mpages_noindex_refines.
Qed.
