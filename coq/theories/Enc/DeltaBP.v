(** DELTA_BINARY_PACKED (encoding/delta/binary_packed.go).

    [enc k xs] mirrors encodeInt32Default / encodeInt64Default for element
    width [k] = 32 / 64: values are handled as [k]-bit patterns with explicit
    wrap-around; blocks of 128 values, 4 mini-blocks of 32, the deltas and the
    minimum are computed over the zero-padded block exactly as the Go code
    does.  [enc_g bs nmb k xs] is the same encoder for any block size and
    mini-block count ([enc] = [enc_g 128 4]).  [dec k] is a decoder written
    from Encodings.md for any block size and mini-block count.  No proofs here
    (Enc/DeltaBPProofs.v). *)
From Coq Require Import List NArith ZArith Lia Bool Arith.
From PQ Require Import Base.Bytes Base.Varint Base.BitPack Generated.Consts.
Import ListNotations.
Open Scope N_scope.

Definition block_size : nat := Z.to_nat go_encoding_delta_blockSize.
Definition num_mini_blocks : nat := Z.to_nat go_encoding_delta_numMiniBlocks.
Definition mini_block_size : nat := (block_size / num_mini_blocks)%nat.

(** [k]-bit arithmetic on patterns *)
Definition subk (k a b : N) : N := (a + 2 ^ k - b mod 2 ^ k) mod 2 ^ k.
Definition addk (k a b : N) : N := (a + b) mod 2 ^ k.

(* blockDelta: block[i], last = v - last, v  over all slots *)
Fixpoint block_delta (k : N) (last : N) (block : list N) : list N :=
  match block with
  | [] => []
  | v :: r => subk k v last :: block_delta k v r
  end.

(* blockMin: signed minimum *)
Definition smin (k : N) (a b : N) : N := if (sintZ k b <? sintZ k a)%Z then b else a.
Definition block_min (k : N) (block : list N) : N :=
  match block with
  | [] => 0
  | v :: r => fold_left (smin k) r v
  end.

Fixpoint chunks {A} (fuel n : nat) (l : list A) : list (list A) :=
  match fuel with
  | O => []
  | S f => match l with
           | [] => []
           | _ => firstn n l :: chunks f n (skipn n l)
           end
  end.

Definition width_of (g : list N) : N := fold_left N.max (map bitlen g) 0.

Definition pad_to {A} (n : nat) (d : A) (l : list A) : list A := l ++ repeat d (n - length l).

(** The encoder is parametric in the geometry of the page -- [bs] values per
    block, [nmb] mini-blocks per block, [vpm] = [bs / nmb] values per
    mini-block -- which the format leaves to the writer (block size a multiple
    of 128, mini-block size a multiple of 32) and writes in the header.  Go
    writes 128 / 4 ([enc]); other writers choose otherwise (parquet-rs: 256 / 4
    for INT64), and every decoder must follow the header ([enc_g] is what the
    harness feeds Go's decoders with, for every legal geometry in a range). *)

(* one block: chunk = the (up to [bs]) values of this block as patterns *)
Definition enc_block_g (bs nmb vpm : nat) (k : N) (last : N) (chunk : list N) : bytes :=
  let block := pad_to bs 0 chunk in
  let deltas := block_delta k last block in
  let m := block_min k deltas in
  let subd := map (fun d => subk k d m) deltas in
  let cleared := pad_to bs 0 (firstn (length chunk) subd) in
  let groups := chunks nmb vpm cleared in
  varint64 (sintZ k m) ++ map width_of groups
    ++ concat (map (fun g => pack_bytes (width_of g) g) groups).

Fixpoint enc_blocks_g (bs nmb vpm : nat) (fuel : nat) (k : N) (last : N) (rest : list N) : bytes :=
  match fuel with
  | O => []
  | S f =>
      match rest with
      | [] => []
      | _ =>
          let chunk := firstn bs rest in
          enc_block_g bs nmb vpm k last chunk
            ++ enc_blocks_g bs nmb vpm f k (List.last chunk last) (skipn bs rest)
      end
  end.

(** patterns of the signed inputs *)
Definition enc_g (bs nmb : nat) (k : N) (xs : list Z) : bytes :=
  let ps := map (wrapZ k) xs in
  let first := match xs with [] => 0%Z | x :: _ => x end in
  uvarint64 (N.of_nat bs) ++ uvarint64 (N.of_nat nmb)
    ++ uvarint64 (N.of_nat (length xs)) ++ varint64 first
    ++ match ps with
       | [] => []
       | p :: rest => enc_blocks_g bs nmb (bs / nmb) (length rest) k p rest
       end.

(** the geometries the round-trip theorems cover: [nmb] mini-blocks of
    [bs / nmb] values, a multiple of 8 (so that a mini-block is a whole number
    of bytes at every bit width) ... *)
Definition legal_geometry (bs nmb : nat) : Prop :=
  (0 < nmb)%nat /\ bs = (nmb * (bs / nmb))%nat /\ (0 < bs / nmb)%nat
  /\ N.of_nat (bs / nmb) mod 8 = 0 /\ N.of_nat bs < 2 ^ 64.

(** ... which include every geometry the format allows: a block size that is a
    multiple of 128, divided into mini-blocks whose size is a multiple of 32 *)
Definition format_geometry (bs nmb : nat) : Prop :=
  (0 < bs)%nat /\ (0 < nmb)%nat /\ (bs mod 128 = 0)%nat /\ (bs mod nmb = 0)%nat
  /\ ((bs / nmb) mod 32 = 0)%nat /\ N.of_nat bs < 2 ^ 64.

(** Go's encoder (encodeInt32Default / encodeInt64Default): 128 / 4 *)
Definition enc (k : N) (xs : list Z) : bytes := enc_g block_size num_mini_blocks k xs.

(** * Decoder from the specification *)

Definition take_bytes (n : nat) (b : bytes) : option (bytes * bytes) :=
  if (n <=? length b)%nat then Some (firstn n b, skipn n b) else None.

(* values of one mini-block: prefix sums with wrap-around *)
Fixpoint recon (k : N) (prev : N) (m : N) (us : list N) : list N * N :=
  match us with
  | [] => ([], prev)
  | u :: r =>
      let x := addk k (addk k prev m) u in
      let '(xs, p) := recon k x m r in (x :: xs, p)
  end.

Fixpoint dec_mbs (k : N) (vpm : nat) (m : N) (ws : list N) (b : bytes) (remaining : nat) (prev : N)
  : option (list N * nat * N * bytes) :=
  match ws with
  | [] => Some ([], remaining, prev, b)
  | w :: ws' =>
      if (remaining =? 0)%nat then Some ([], remaining, prev, b)
      else
        match take_bytes (N.to_nat (w * N.of_nat vpm / 8)) b with
        | None => None
        | Some (mb, b') =>
            let us := firstn (Nat.min vpm remaining) (unpack_bytes w vpm mb) in
            let '(xs, p) := recon k prev m us in
            match dec_mbs k vpm m ws' b' (remaining - length us) p with
            | None => None
            | Some (ys, rem', p', b'') => Some (xs ++ ys, rem', p', b'')
            end
        end
  end.

Fixpoint dec_blocks (fuel : nat) (k : N) (vpm nmb : nat) (b : bytes) (remaining : nat) (prev : N)
  : option (list N * bytes) :=
  match fuel with
  | O => if (remaining =? 0)%nat then Some ([], b) else None
  | S f =>
      if (remaining =? 0)%nat then Some ([], b)
      else
        match varint_dec b with
        | None => None
        | Some (mz, b1) =>
            match take_bytes nmb b1 with
            | None => None
            | Some (ws, b2) =>
                match dec_mbs k vpm (wrapZ k mz) ws b2 remaining prev with
                | None => None
                | Some (xs, rem', p', b3) =>
                    match dec_blocks f k vpm nmb b3 rem' p' with
                    | None => None
                    | Some (ys, b4) => Some (xs ++ ys, b4)
                    end
                end
            end
        end
  end.

Definition dec (k : N) (b : bytes) : option (list Z * bytes) :=
  match uvarint_dec b with
  | None => None
  | Some (bs, b1) =>
      match uvarint_dec b1 with
      | None => None
      | Some (nmb, b2) =>
          match uvarint_dec b2 with
          | None => None
          | Some (total, b3) =>
              match varint_dec b3 with
              | None => None
              | Some (first, b4) =>
                  if total =? 0 then Some ([], b4)
                  else if nmb =? 0 then None
                  else
                    let vpm := N.to_nat (bs / nmb) in
                    let p := wrapZ k first in
                    match dec_blocks (N.to_nat total) k vpm (N.to_nat nmb) b4 (N.to_nat total - 1) p with
                    | None => None
                    | Some (ps, rest) => Some (map (sintZ k) (p :: ps), rest)
                    end
              end
          end
      end
  end.
