(** Refinement of the specification decoders of the DELTA encodings by the
    models of Go's decoders (Enc/GoDecDelta.v).

    [dec64] is [DeltaBP.dec] with varints limited to 10 bytes / 64 bits (what
    the format's 64-bit integers need) and mini-block bit widths limited to
    the width of the type.  On EVERY well-formed byte string
    that [dec64] accepts and whose header passes Go's checks (block size a
    multiple of 128 and at most 65536, values per mini-block a multiple of
    32, at most MaxInt32 values, first value within int32 for 32-bit columns)
    Go's decodeInt32 / decodeInt64 return the same values and the same
    remaining input ([go_dbp_refines]): any block size and mini-block count
    within those limits, any min delta, any bit widths up to the width of the
    type, arbitrary widths for unneeded mini-blocks.  The encoder's output is
    such a string ([dec64_enc], [go_header_enc]); hence Go's decoders invert
    Go's encoders ([go_dbp_roundtrip], and DELTA_LENGTH_BYTE_ARRAY,
    DELTA_BYTE_ARRAY below). *)
From Coq Require Import List NArith ZArith Lia Bool Arith.
From Coq Require Import ZifyN ZifyNat ZifyBool.
From PQ Require Import Base.Bytes Base.Varint Base.BitPack Base.ListExtra.
From PQ Require Import Enc.DeltaBP Enc.DeltaBPProofs Enc.ByteArrayDelta Enc.ByteArrayDeltaProofs.
From PQ Require Import Enc.GoDecBase Enc.GoDecBaseProofs Enc.GoDecDelta.
Import ListNotations.
Open Scope N_scope.

(** * the specification decoder with 64-bit varints *)

(** [DeltaBP.dec_mbs] rejecting a needed mini-block wider than the type *)
Fixpoint dec_mbs_w (k : N) (vpm : nat) (m : N) (ws : list N) (b : bytes) (remaining : nat) (prev : N)
  : option (list N * nat * N * bytes) :=
  match ws with
  | [] => Some ([], remaining, prev, b)
  | w :: ws' =>
      if (remaining =? 0)%nat then Some ([], remaining, prev, b)
      else if k <? w then None
      else
        match DeltaBP.take_bytes (N.to_nat (w * N.of_nat vpm / 8)) b with
        | None => None
        | Some (mb, b') =>
            let us := firstn (Nat.min vpm remaining) (unpack_bytes w vpm mb) in
            let '(xs, p) := recon k prev m us in
            match dec_mbs_w k vpm m ws' b' (remaining - length us) p with
            | None => None
            | Some (ys, rem', p', b'') => Some (xs ++ ys, rem', p', b'')
            end
        end
  end.

Lemma dec_mbs_w_sound k vpm m : forall ws b rem prev r,
  dec_mbs_w k vpm m ws b rem prev = Some r -> dec_mbs k vpm m ws b rem prev = Some r.
Proof.
  induction ws as [|w ws IH]; intros b rem prev r H; [exact H|].
  cbn [dec_mbs_w] in H. cbn [dec_mbs].
  destruct (rem =? 0)%nat; [exact H|].
  destruct (k <? w); [discriminate|].
  destruct (DeltaBP.take_bytes _ b) as [[mb b1]|]; [|discriminate].
  destruct (recon k prev m _) as [xs p].
  destruct (dec_mbs_w k vpm m ws b1 _ p) as [[[[ys r2] p2] b2]|] eqn:E; [|discriminate].
  now rewrite (IH _ _ _ _ E).
Qed.

Lemma dec_mbs_w_eq k vpm m : forall ws b rem prev,
  Forall (fun w => w <= k) ws -> dec_mbs_w k vpm m ws b rem prev = dec_mbs k vpm m ws b rem prev.
Proof.
  induction ws as [|w ws IH]; intros b rem prev Hws; [reflexivity|].
  inversion Hws; subst. cbn [dec_mbs_w dec_mbs].
  destruct (rem =? 0)%nat; [reflexivity|].
  destruct (N.ltb_spec k w); [lia|].
  destruct (DeltaBP.take_bytes _ b) as [[mb b1]|]; [|reflexivity].
  destruct (recon k prev m _) as [xs p]. now rewrite IH.
Qed.

Fixpoint dec_blocks64 (fuel : nat) (k : N) (vpm nmb : nat) (b : bytes) (remaining : nat) (prev : N)
  : option (list N * bytes) :=
  match fuel with
  | O => if (remaining =? 0)%nat then Some ([], b) else None
  | S f =>
      if (remaining =? 0)%nat then Some ([], b)
      else
        match go_varint b with
        | None => None
        | Some (mz, b1) =>
            match DeltaBP.take_bytes nmb b1 with
            | None => None
            | Some (ws, b2) =>
                match dec_mbs_w k vpm (wrapZ k mz) ws b2 remaining prev with
                | None => None
                | Some (xs, rem', p', b3) =>
                    match dec_blocks64 f k vpm nmb b3 rem' p' with
                    | None => None
                    | Some (ys, b4) => Some (xs ++ ys, b4)
                    end
                end
            end
        end
  end.

Definition dec64 (k : N) (b : bytes) : option (list Z * bytes) :=
  match go_uvarint b with
  | None => None
  | Some (bs, b1) =>
      match go_uvarint b1 with
      | None => None
      | Some (nmb, b2) =>
          match go_uvarint b2 with
          | None => None
          | Some (total, b3) =>
              match go_varint b3 with
              | None => None
              | Some (first, b4) =>
                  if total =? 0 then Some ([], b4)
                  else if nmb =? 0 then None
                  else
                    let vpm := N.to_nat (bs / nmb) in
                    let p := wrapZ k first in
                    match dec_blocks64 (N.to_nat total) k vpm (N.to_nat nmb) b4 (N.to_nat total - 1) p with
                    | None => None
                    | Some (ps, rest) => Some (map (sintZ k) (p :: ps), rest)
                    end
              end
          end
      end
  end.

Lemma dec_blocks64_sound k vpm nmb : forall f b rem prev r,
  dec_blocks64 f k vpm nmb b rem prev = Some r -> dec_blocks f k vpm nmb b rem prev = Some r.
Proof.
  induction f as [|f IH]; intros b rem prev r H; [exact H|].
  cbn [dec_blocks64] in H. cbn [dec_blocks].
  destruct (rem =? 0)%nat; [exact H|].
  destruct (go_varint b) as [[mz b1]|] eqn:E; [|discriminate].
  rewrite (go_varint_spec _ _ E).
  destruct (DeltaBP.take_bytes nmb b1) as [[ws b2]|]; [|discriminate].
  destruct (dec_mbs_w k vpm (wrapZ k mz) ws b2 rem prev) as [[[[xs rem'] p'] b3]|] eqn:E1; [|discriminate].
  rewrite (dec_mbs_w_sound _ _ _ _ _ _ _ _ E1).
  destruct (dec_blocks64 f k vpm nmb b3 rem' p') as [[ys b4]|] eqn:E2; [|discriminate].
  now rewrite (IH _ _ _ _ E2).
Qed.

(** [dec64] is a restriction of the specification decoder *)
Theorem dec64_sound k b r : dec64 k b = Some r -> DeltaBP.dec k b = Some r.
Proof.
  unfold dec64, DeltaBP.dec.
  destruct (go_uvarint b) as [[bs b1]|] eqn:E1; [|discriminate]. rewrite (go_uvarint_spec _ _ E1).
  destruct (go_uvarint b1) as [[nmb b2]|] eqn:E2; [|discriminate]. rewrite (go_uvarint_spec _ _ E2).
  destruct (go_uvarint b2) as [[total b3]|] eqn:E3; [|discriminate]. rewrite (go_uvarint_spec _ _ E3).
  destruct (go_varint b3) as [[first b4]|] eqn:E4; [|discriminate]. rewrite (go_varint_spec _ _ E4).
  destruct (total =? 0); [auto|]. destruct (nmb =? 0); [auto|].
  destruct (dec_blocks64 _ _ _ _ _ _ _) as [[ps rest]|] eqn:E5; [|discriminate].
  now rewrite (dec_blocks64_sound _ _ _ _ _ _ _ _ E5).
Qed.

(** * suffixes *)

Lemma go_uvarint_aux_suffix (P : N -> Prop) fuel : forall l s acc v r,
  go_uvarint_aux fuel l s acc = Some (v, r) -> Forall P l -> Forall P r.
Proof.
  induction fuel as [|f IH]; intros l s acc v r H Hl; cbn [go_uvarint_aux] in H; [discriminate|].
  destruct l as [|b l']; [discriminate|]. inversion Hl; subst.
  destruct (b <? 128).
  - destruct ((f =? 0)%nat && (1 <? b)); [discriminate|]. inversion H; subst. assumption.
  - eapply IH; eassumption.
Qed.

Lemma go_uvarint_wf l v r : go_uvarint l = Some (v, r) -> wf_bytes l -> wf_bytes r.
Proof. apply go_uvarint_aux_suffix. Qed.

Lemma go_varint_wf l v r : go_varint l = Some (v, r) -> wf_bytes l -> wf_bytes r.
Proof.
  unfold go_varint. destruct (go_uvarint l) as [[n r']|] eqn:E; [|discriminate].
  intros H. inversion H; subst. eapply go_uvarint_wf. exact E.
Qed.

Lemma dbp_take_bytes_some n b x y :
  DeltaBP.take_bytes n b = Some (x, y) -> (n <= length b)%nat /\ x = firstn n b /\ y = skipn n b.
Proof.
  unfold DeltaBP.take_bytes. destruct (Nat.leb_spec n (length b)); [|discriminate].
  intros Hx. inversion Hx. auto.
Qed.

(** * one block: the mini-block loop *)

Lemma recon_mod k m us : forall prev,
  recon k prev m (map (fun u => u mod 2 ^ k) us) = recon k prev m us.
Proof.
  induction us as [|u us IH]; intros prev; cbn [map recon]; [reflexivity|].
  assert (E : addk k (addk k prev m) (u mod 2 ^ k) = addk k (addk k prev m) u).
  { unfold addk. pose proof (pow2_pos k).
    rewrite N.add_mod_idemp_r by lia. reflexivity. }
  rewrite E, IH. reflexivity.
Qed.

Lemma firstn_repeat {A} (x : A) n m : firstn n (repeat x m) = repeat x (Nat.min n m).
Proof.
  revert m. induction n as [|n IH]; intros m; [reflexivity|].
  destruct m as [|m]; [reflexivity|]. cbn [repeat firstn Nat.min]. now rewrite IH.
Qed.

Lemma recon_fst_snd k prev m us : recon k prev m us = (fst (recon k prev m us), snd (recon k prev m us)).
Proof. destruct (recon k prev m us); reflexivity. Qed.

Lemma dec_mbs_suffix k vpm m : forall ws b rem prev xs rem' p' b',
  dec_mbs k vpm m ws b rem prev = Some (xs, rem', p', b') -> (length b' <= length b)%nat.
Proof.
  induction ws as [|w ws IH]; intros b rem prev xs rem' p' b' H; cbn [dec_mbs] in H.
  - inversion H; subst. lia.
  - destruct (rem =? 0)%nat; [inversion H; subst; lia|].
    destruct (DeltaBP.take_bytes _ b) as [[mb b1]|] eqn:Et; [|discriminate].
    apply dbp_take_bytes_some in Et. destruct Et as (Hle & -> & ->).
    destruct (recon k prev m _) as [xs1 p1].
    destruct (dec_mbs k vpm m ws _ _ p1) as [[[[ys r2] p2] b2]|] eqn:Er; [|discriminate].
    inversion H; subst. apply IH in Er. rewrite skipn_length in Er. lia.
Qed.

Lemma mbs_refines k vpm m (Hv8 : (Nat.divide 8 vpm)) : forall ws b rem prev xs rem' p' b',
  wf_bytes b -> (0 < rem)%nat ->
  dec_mbs_w k vpm m ws b rem prev = Some (xs, rem', p', b') ->
  exists us,
    go_dbp_miniblocks k (N.of_nat vpm) ws b (N.of_nat rem) = GOk (us, b', N.of_nat rem')
    /\ recon k prev m us = (xs, p').
Proof.
  induction ws as [|w ws IH]; intros b rem prev xs rem' p' b' Hwf Hrem H; cbn [dec_mbs_w] in H.
  - inversion H; subst. exists []. split; reflexivity.
  - destruct (Nat.eqb_spec rem 0) as [E|_]; [lia|].
    destruct (N.ltb_spec k w) as [|Hkw]; [discriminate|].
    destruct (DeltaBP.take_bytes _ b) as [[mb b1]|] eqn:Et; [|discriminate].
    apply dbp_take_bytes_some in Et. destruct Et as (Hle & -> & ->).
    set (size := N.to_nat (w * N.of_nat vpm / 8)) in *.
    set (n := Nat.min vpm rem) in *.
    set (us_s := firstn n (unpack_bytes w vpm (firstn size b))) in *.
    assert (Hlen : length us_s = n).
    { subst us_s. rewrite firstn_length. unfold unpack_bytes. rewrite unpack_length. lia. }
    destruct (recon k prev m us_s) as [xs1 p1] eqn:Er1.
    rewrite Hlen in H.
    destruct (dec_mbs_w k vpm m ws (skipn size b) (rem - n) p1) as [[[[ys r2] p2] b2]|] eqn:Er; [|discriminate].
    inversion H; subst xs rem' p' b'. clear H.
    (* what Go unpacks for this mini-block *)
    cbn [go_dbp_miniblocks].
    destruct (N.ltb_spec k w) as [|_]; [lia|].
    replace (N.of_nat vpm * w) with (w * N.of_nat vpm) by lia. fold size.
    assert (Emin : N.min (N.of_nat vpm) (N.of_nat rem) = N.of_nat n) by lia.
    rewrite Emin, Nat2N.id.
    (* the bits of the n values are present: the whole mini-block is *)
    assert (Hneed : (negb (w =? 0) && (N.of_nat (length (firstn size b)) <? (N.of_nat n * w + 7) / 8)) = false).
    { destruct (N.eqb_spec w 0); [reflexivity|]. cbn [negb andb]. apply N.ltb_ge.
      rewrite firstn_length, Nat.min_l by exact Hle. subst size. rewrite N2Nat.id.
      destruct Hv8 as [q Hq].
      assert (E1 : w * N.of_nat vpm / 8 = N.of_nat q * w).
      { rewrite Hq. replace (w * N.of_nat (q * 8)) with ((N.of_nat q * w) * 8) by lia.
        apply N.div_mul. discriminate. }
      rewrite E1.
      assert (E2 : (7 + (N.of_nat q * w) * 8) / 8 = N.of_nat q * w).
      { rewrite N.div_add by discriminate. reflexivity. }
      rewrite <- E2. apply N.div_le_mono; [discriminate|]. subst n. nia. }
    rewrite Hneed.
    set (vals := if w =? 0 then repeat 0 n
                 else firstn n (go_unpack_chunks k w (N.to_nat (N.of_nat vpm / 8)) (firstn size b))).
    assert (Evals : recon k prev m vals = (xs1, p1)).
    { subst vals. destruct (N.eqb_spec w 0) as [->|Hw0].
      - rewrite <- Er1. f_equal. subst us_s. unfold unpack_bytes.
        rewrite unpack_zero_width, firstn_repeat. f_equal. lia.
      - rewrite go_unpack_chunks_whole by (now apply Forall_firstn).
        assert (E8 : (8 * N.to_nat (N.of_nat vpm / 8))%nat = vpm).
        { destruct Hv8 as [q ->]. replace (N.of_nat (q * 8)) with (N.of_nat q * 8) by lia.
          rewrite N.div_mul by discriminate. lia. }
        rewrite E8, go_unpack_map, firstn_map, recon_mod. exact Er1. }
    assert (Esrc : (if w =? 0 then (repeat 0 n, b)
                    else (firstn n (go_unpack_chunks k w (N.to_nat (N.of_nat vpm / 8)) (firstn size b)),
                          skipn size b))
                   = (vals, if w =? 0 then b else skipn size b)).
    { subst vals. destruct (w =? 0); reflexivity. }
    rewrite Esrc.
    assert (Eb : (if w =? 0 then b else skipn size b) = skipn size b).
    { destruct (N.eqb_spec w 0) as [->|_]; [|reflexivity]. subst size. rewrite N.mul_0_l. reflexivity. }
    rewrite Eb.
    replace (N.of_nat rem - N.of_nat n) with (N.of_nat (rem - n)) by lia.
    destruct (Nat.eq_dec (rem - n) 0) as [E0|E0].
    + (* the last needed mini-block: Go breaks, the specification loop stops *)
      rewrite E0 in *. cbn [N.of_nat N.eqb].
      assert (Ey : ys = [] /\ r2 = 0%nat /\ p2 = p1 /\ b2 = skipn size b).
      { destruct ws; cbn [dec_mbs_w] in Er; inversion Er; auto. }
      destruct Ey as (-> & -> & -> & ->).
      exists vals. split; [reflexivity|]. rewrite app_nil_r. exact Evals.
    + destruct (N.eqb_spec (N.of_nat (rem - n)) 0) as [E|_]; [lia|].
      assert (Hpos : (0 < rem - n)%nat) by lia.
      destruct (IH _ _ _ _ _ _ _ (Forall_skipn _ size b Hwf) Hpos Er) as (us' & Hgo & Hrec).
      rewrite Hgo. cbn [gbind]. exists (vals ++ us'). split; [reflexivity|].
      rewrite recon_app, Evals. cbn [fst snd]. rewrite Hrec. reflexivity.
Qed.

(** * the block loop *)

Lemma take_upto_of_take_bytes nmb b1 ws b2 :
  DeltaBP.take_bytes nmb b1 = Some (ws, b2) -> take_upto (N.of_nat nmb) b1 = (ws, b2).
Proof.
  intros H. apply dbp_take_bytes_some in H. destruct H as (Hle & -> & ->).
  unfold take_upto. assert (Hf : fits_len (N.of_nat nmb) b1 = true) by (apply fits_len_true; lia).
  now rewrite Hf, Nat2N.id.
Qed.

Lemma go_varint_nonempty b r : go_varint b = Some r -> b <> [].
Proof. intros H ->. discriminate. Qed.

Lemma blocks_refines k vpm nmb (Hv8 : Nat.divide 8 vpm) : forall fs b rem prev xs rest,
  dec_blocks64 fs k vpm nmb b rem prev = Some (xs, rest) -> wf_bytes b ->
  forall fg, (length b <= fg)%nat ->
  go_dbp_blocks fg k (N.of_nat vpm) (N.of_nat nmb) b (N.of_nat rem) prev = GOk (xs, rest).
Proof.
  induction fs as [|fs IH]; intros b rem prev xs rest H Hwf fg Hfg.
  - cbn [dec_blocks64] in H. destruct (Nat.eqb_spec rem 0) as [->|_]; [|discriminate].
    inversion H; subst. destruct fg; cbn [go_dbp_blocks N.of_nat N.eqb orb]; reflexivity.
  - cbn [dec_blocks64] in H. destruct (Nat.eqb_spec rem 0) as [->|Hrem].
    + inversion H; subst. destruct fg; cbn [go_dbp_blocks N.of_nat N.eqb orb]; reflexivity.
    + destruct (go_varint b) as [[mz b1]|] eqn:Ev; [|discriminate].
      destruct (DeltaBP.take_bytes nmb b1) as [[ws b2]|] eqn:Et; [|discriminate].
      destruct (dec_mbs_w k vpm (wrapZ k mz) ws b2 rem prev) as [[[[xs1 rem1] p1] b3]|] eqn:Emw; [|discriminate].
      pose proof (dec_mbs_w_sound _ _ _ _ _ _ _ _ Emw) as Em.
      destruct (dec_blocks64 fs k vpm nmb b3 rem1 p1) as [[ys b4]|] eqn:Eb; [|discriminate].
      inversion H; subst xs rest. clear H.
      pose proof (go_varint_lt _ _ _ Ev) as Hl1.
      pose proof (go_varint_wf _ _ _ Ev Hwf) as Hwf1.
      pose proof (dbp_take_bytes_some _ _ _ _ Et) as (Hle & Ews & Eb2).
      assert (Hwf2 : wf_bytes b2) by (subst b2; now apply Forall_skipn).
      pose proof (dec_mbs_suffix _ _ _ _ _ _ _ _ _ _ _ Em) as Hl3.
      assert (Hl2 : (length b2 <= length b1)%nat) by (subst b2; rewrite skipn_length; lia).
      assert (Hpos : (0 < rem)%nat) by lia.
      destruct (mbs_refines k vpm (wrapZ k mz) Hv8 _ _ _ _ _ _ _ _ Hwf2 Hpos Emw) as (us & Hgo & Hrec).
      destruct fg as [|fg]; [lia|].
      cbn [go_dbp_blocks].
      destruct (N.eqb_spec (N.of_nat rem) 0) as [E|_]; [lia|].
      destruct (Nat.eqb_spec (length b) 0) as [E|_]; [lia|]. cbn [orb].
      rewrite Ev, (take_upto_of_take_bytes _ _ _ _ Et), Hgo. cbn [gbind]. rewrite Hrec.
      assert (Hwf3 : wf_bytes b3).
      { (* b3 is what Go's loop leaves: a suffix of b2 *)
        clear -Em Hwf2. revert b2 rem prev xs1 rem1 p1 b3 Em Hwf2.
        induction ws as [|w ws IHw]; intros b2 rem prev xs1 rem1 p1 b3 Em Hwf2; cbn [dec_mbs] in Em.
        - inversion Em; subst. exact Hwf2.
        - destruct (rem =? 0)%nat; [inversion Em; subst; exact Hwf2|].
          destruct (DeltaBP.take_bytes _ b2) as [[mb bx]|] eqn:Et; [|discriminate].
          apply dbp_take_bytes_some in Et. destruct Et as (_ & -> & ->).
          destruct (recon k prev _ _) as [xa pa].
          destruct (dec_mbs k vpm _ ws _ _ pa) as [[[[ya ra] pb] bb]|] eqn:Er; [|discriminate].
          inversion Em; subst. eapply IHw; [exact Er|]. now apply Forall_skipn. }
      assert (Hfg3 : (length b3 <= fg)%nat) by lia.
      rewrite (IH _ _ _ _ _ Eb Hwf3 fg Hfg3). reflexivity.
Qed.

(** * the whole section *)

Definition first_ok (k : N) (first : Z) : Prop := k = 32 -> in_sint 32 first.

Lemma go_uvarint_aux_bound fuel : forall l s acc v r,
  (fuel <= 10)%nat -> s = 7 * N.of_nat (10 - fuel) -> acc < 2 ^ s -> wf_bytes l ->
  go_uvarint_aux fuel l s acc = Some (v, r) -> v < 2 ^ 64.
Proof.
  induction fuel as [|f IH]; intros l s acc v r Hf Hs Hacc Hwf H; cbn [go_uvarint_aux] in H; [discriminate|].
  destruct l as [|b l']; [discriminate|].
  assert (Hb : b < 256) by (inversion Hwf; assumption).
  assert (Hwf' : wf_bytes l') by (inversion Hwf; assumption).
  assert (Hp : 2 ^ (s + 7) = 128 * 2 ^ s) by (rewrite N.pow_add_r; change (2 ^ 7) with 128; lia).
  destruct (N.ltb_spec b 128) as [Hb7|Hb7].
  - destruct (Nat.eqb_spec f 0) as [->|Hf0].
    + (* the tenth byte: at most 1 *)
      destruct (N.ltb_spec 1 b) as [|Hb1]; [discriminate|]. cbn [andb] in H. inversion H; subst v r.
      change (10 - 1)%nat with 9%nat in Hs. change (7 * N.of_nat 9) with 63 in Hs. subst s.
      change (2 ^ 64) with (2 * 2 ^ 63). nia.
    + cbn [andb] in H. inversion H; subst v r.
      assert (Hle : s + 7 <= 63) by lia.
      assert (Hlt : acc + b * 2 ^ s < 2 ^ (s + 7)) by nia.
      eapply N.lt_le_trans; [exact Hlt|]. apply N.pow_le_mono_r; lia.
  - eapply (IH l' (s + 7)); try eassumption; try lia. nia.
Qed.

(** a varint accepted by binary.Uvarint fits 64 bits *)
Lemma go_uvarint_bound l v r : wf_bytes l -> go_uvarint l = Some (v, r) -> v < 2 ^ 64.
Proof.
  intros Hwf H. apply (go_uvarint_aux_bound 10 l 0 0 v r); [lia|reflexivity|cbn; lia|exact Hwf|exact H].
Qed.

Lemma to_int64_small u : u < 2 ^ 64 -> (0 <= to_int64 u)%Z -> to_int64 u = Z.of_N u.
Proof.
  unfold to_int64. destruct (N.ltb_spec u (2 ^ 63)) as [|Hge]; [reflexivity|].
  intros Hu Hn. exfalso. rename Hn into H. change (2 ^ 64)%Z with (Z.of_N (2 ^ 64)) in H. lia.
Qed.

(** what a header accepted by decodeBinaryPackedHeader looks like *)
Lemma go_header_facts (b : bytes) (bs nmb total first : Z) (s : bytes) :
  wf_bytes b -> go_dbp_header b = GOk (bs, nmb, total, first, s) ->
  exists ubs unmb utotal b1 b2 b3,
    go_uvarint b = Some (ubs, b1) /\ go_uvarint b1 = Some (unmb, b2) /\
    go_uvarint b2 = Some (utotal, b3) /\ go_varint b3 = Some (first, s) /\
    bs = Z.of_N ubs /\ nmb = Z.of_N unmb /\ total = Z.of_N utotal /\
    0 < unmb /\ utotal <= max_int32 /\ Nat.divide 8 (N.to_nat (ubs / unmb)) /\ wf_bytes s.
Proof.
  intros Hwf H. unfold go_dbp_header in H.
  destruct (go_uvarint b) as [[ubs b1]|] eqn:E1; [|discriminate].
  destruct (go_uvarint b1) as [[unmb b2]|] eqn:E2; [|discriminate].
  destruct (go_uvarint b2) as [[utotal b3]|] eqn:E3; [|discriminate].
  destruct (go_varint b3) as [[f s']|] eqn:E4; [|discriminate].
  pose proof (go_uvarint_wf _ _ _ E1 Hwf) as W1.
  pose proof (go_uvarint_wf _ _ _ E2 W1) as W2.
  pose proof (go_uvarint_wf _ _ _ E3 W2) as W3.
  pose proof (go_varint_wf _ _ _ E4 W3) as W4.
  pose proof (go_uvarint_bound _ _ _ Hwf E1) as B1.
  pose proof (go_uvarint_bound _ _ _ W1 E2) as B2.
  pose proof (go_uvarint_bound _ _ _ W2 E3) as B3.
  destruct (Z.eqb_spec (to_int64 unmb) 0); [discriminate|].
  destruct (Z.leb_spec (to_int64 ubs) 0); [discriminate|]. cbn [orb] in H.
  destruct (Z.eqb_spec (Z.rem (to_int64 ubs) 128) 0); [|discriminate]. cbn [negb] in H.
  destruct (Z.ltb_spec max_block_size (to_int64 ubs)); [discriminate|].
  destruct (Z.leb_spec (to_int64 unmb) 0); [discriminate|]. cbn [orb] in H.
  destruct (Z.eqb_spec (Z.rem (Z.quot (to_int64 ubs) (to_int64 unmb)) 32) 0) as [Hq|]; [|discriminate].
  cbn [negb] in H.
  destruct (Z.ltb_spec (to_int64 utotal) 0); [discriminate|].
  destruct (Z.ltb_spec (Z.of_N max_int32) (to_int64 utotal)); [discriminate|].
  inversion H; subst bs nmb total first s. clear H.
  rewrite (to_int64_small ubs B1) in * by lia.
  rewrite (to_int64_small unmb B2) in * by lia.
  rewrite (to_int64_small utotal B3) in * by lia.
  exists ubs, unmb, utotal, b1, b2, b3. repeat split; try assumption; try lia.
  (* values per mini-block: a multiple of 32, hence of 8 *)
  rewrite <- N2Z.inj_quot in Hq. change 32%Z with (Z.of_N 32) in Hq. rewrite <- N2Z.inj_rem in Hq.
  assert (Hq' : (ubs / unmb) mod 32 = 0) by lia.
  exists (N.to_nat ((ubs / unmb) / 32) * 4)%nat.
  pose proof (N.div_mod (ubs / unmb) 32 ltac:(discriminate)). lia.
Qed.

(** Go's decodeInt32 / decodeInt64 return what the specification decoder
    returns, values and remaining input, on every well-formed byte string
    accepted by [dec64] whose header Go accepts *)
Theorem go_dbp_refines k b xs rest h :
  wf_bytes b -> dec64 k b = Some (xs, rest) ->
  go_dbp_header b = GOk h -> first_ok k (snd (fst h)) ->
  go_dbp_dec k b = GOk (xs, rest).
Proof.
  intros Hwf Hd Hh Hfirst.
  destruct h as [[[[bs nmb] total] first] s]. cbn [fst snd] in Hfirst.
  destruct (go_header_facts _ _ _ _ _ _ Hwf Hh)
    as (ubs & unmb & utotal & b1 & b2 & b3 & E1 & E2 & E3 & E4 & -> & -> & -> & Hn & Ht & Hv8 & Hws).
  unfold go_dbp_dec. rewrite Hh. cbn [gbind].
  unfold dec64 in Hd. rewrite E1, E2, E3, E4 in Hd.
  destruct (N.eqb_spec utotal 0) as [->|Ht0].
  - inversion Hd; subst. reflexivity.
  - destruct (Z.eqb_spec (Z.of_N utotal) 0) as [E|_]; [lia|].
    destruct (N.eqb_spec unmb 0) as [E|_]; [lia|].
    assert (Hrange : ((k =? 32) && ((first <? - 2 ^ 31) || (2 ^ 31 - 1 <? first))%Z) = false).
    { destruct (N.eqb_spec k 32) as [Hk|_]; [|reflexivity]. cbn [andb].
      specialize (Hfirst Hk). unfold in_sint in Hfirst. cbn in Hfirst.
      destruct (Z.ltb_spec first (- 2 ^ 31)); [lia|]. destruct (Z.ltb_spec (2 ^ 31 - 1) first); [lia|]. reflexivity. }
    rewrite Hrange.
    destruct (dec_blocks64 _ _ _ _ _ _ _) as [[ps rest']|] eqn:Eb; [|discriminate].
    inversion Hd; subst xs rest'. clear Hd.
    pose proof (blocks_refines k _ _ Hv8 _ _ _ _ _ _ Eb Hws (length s) (le_n _)) as Hgo.
    rewrite <- N2Z.inj_quot, N2Z.id, !N2Z.id.
    rewrite !N2Nat.id in Hgo.
    replace (N.of_nat (N.to_nat utotal - 1)) with (utotal - 1) in Hgo by lia.
    rewrite Hgo. reflexivity.
Qed.

(** * the encoder's output *)

Lemma go_varint_enc_block bs nmb vpm k (Hk : k = 32 \/ k = 64) last chunk rest :
  go_varint (enc_block_g bs nmb vpm k last chunk ++ rest)
  = Some (sintZ k (block_m bs k last chunk),
          map width_of (chunks nmb vpm (cleared_block bs k last chunk))
          ++ concat (map emit (chunks nmb vpm (cleared_block bs k last chunk))) ++ rest).
Proof.
  rewrite enc_block_unfold, <- !app_assoc. apply go_varint64_roundtrip.
  apply (in_sint_64_of_k k _ Hk). apply sintZ_in_range; [destruct Hk; subst; lia|].
  apply block_min_lt, block_delta_lt.
Qed.

(** the bit widths the encoder writes are at most the width of the type *)
Lemma fold_max_le (l : list N) (bnd : N) :
  Forall (fun x => x <= bnd) l -> forall a, a <= bnd -> fold_left N.max l a <= bnd.
Proof. induction 1 as [|x l Hx Hl IH]; intros a Ha; cbn [fold_left]; [exact Ha|]. apply IH. lia. Qed.

Lemma width_of_le k g : Forall (fun v => v < 2 ^ k) g -> width_of g <= k.
Proof.
  intros H. unfold width_of. apply fold_max_le; [|lia].
  apply Forall_forall. intros x Hx. apply in_map_iff in Hx. destruct Hx as (v & <- & Hv).
  apply bitlen_mono_bound. rewrite Forall_forall in H. now apply H.
Qed.

Lemma chunks_forall {A} (P : A -> Prop) n : forall fuel (l : list A),
  Forall P l -> Forall (Forall P) (chunks fuel n l).
Proof.
  induction fuel as [|f IH]; intros l Hl; cbn [chunks]; [constructor|].
  destruct l as [|a l'] eqn:E; [constructor|]. rewrite <- E in *.
  constructor; [now apply Forall_firstn|]. apply IH. now apply Forall_skipn.
Qed.

Lemma cleared_block_lt bs k last chunk : Forall (fun v => v < 2 ^ k) (cleared_block bs k last chunk).
Proof.
  unfold cleared_block, pad_to. apply Forall_app. split.
  - apply Forall_firstn. apply Forall_forall. intros x Hx. apply in_map_iff in Hx.
    destruct Hx as (d & <- & _). apply subk_lt.
  - apply Forall_forall. intros x Hx. apply repeat_spec in Hx. subst x. apply pow2_pos.
Qed.

Lemma enc_widths_le bs nmb vpm k last chunk :
  Forall (fun w => w <= k)
    (map width_of (chunks nmb vpm (cleared_block bs k last chunk))).
Proof.
  pose proof (chunks_forall _ vpm nmb _ (cleared_block_lt bs k last chunk)) as Hg.
  apply Forall_forall. intros x Hx. apply in_map_iff in Hx. destruct Hx as (g & <- & Hin).
  rewrite Forall_forall in Hg. apply width_of_le. now apply Hg.
Qed.

Lemma dec_blocks64_ok bs nmb vpm (Hg : geom bs nmb vpm) k (Hk : k = 32 \/ k = 64) : forall fuel rest_vals last tail,
  (length rest_vals <= fuel)%nat ->
  last < 2 ^ k -> Forall (fun v => v < 2 ^ k) rest_vals ->
  dec_blocks64 fuel k vpm nmb
    (enc_blocks_g bs nmb vpm fuel k last rest_vals ++ tail) (length rest_vals) last
  = Some (rest_vals, tail).
Proof.
  induction fuel as [|f IH]; intros vals last tail Hfuel Hlast Hvals.
  - destruct vals; [reflexivity|cbn in Hfuel; lia].
  - cbn [enc_blocks_g dec_blocks64].
    destruct vals as [|v vals'] eqn:Ev; [reflexivity|].
    rewrite <- Ev in *. assert (Hne : (0 < length vals)%nat) by (subst vals; cbn; lia).
    clear Ev v vals'.
    destruct (Nat.eqb_spec (length vals) 0) as [E|_]; [lia|].
    set (chunk := firstn bs vals).
    assert (Hcl : length chunk = Nat.min bs (length vals)) by (subst chunk; apply firstn_length).
    pose proof (geom_bs_pos _ _ _ Hg) as Hbp.
    assert (Hchunk : Forall (fun v => v < 2 ^ k) chunk) by (subst chunk; apply Forall_firstn; exact Hvals).
    destruct (dec_block_ok bs nmb vpm Hg k Hk last chunk (length vals)
                (enc_blocks_g bs nmb vpm f k (List.last chunk last) (skipn bs vals) ++ tail)
                Hlast Hchunk ltac:(lia) ltac:(lia) ltac:(lia)) as (m & Hm & Hvd & Hmb).
    rewrite <- app_assoc.
    pose proof (go_varint_enc_block bs nmb vpm k Hk last chunk
                  (enc_blocks_g bs nmb vpm f k (List.last chunk last) (skipn bs vals) ++ tail)) as Hgv.
    pose proof (go_varint_spec _ _ Hgv) as Hgs. rewrite Hvd in Hgs.
    assert (Em : sintZ k (block_m bs k last chunk) = sintZ k m) by (inversion Hgs; reflexivity).
    rewrite Hgv, Em.
    assert (Hwl : length (map width_of (chunks nmb vpm (cleared_block bs k last chunk))) = nmb).
    { rewrite map_length.
      assert (Hcbl : length (cleared_block bs k last chunk) = (nmb * vpm)%nat).
      { unfold cleared_block. rewrite pad_to_length; [exact (proj1 Hg)|]. rewrite firstn_length. lia. }
      destruct (chunks_exact vpm (proj1 (proj2 (proj2 Hg))) nmb _ Hcbl) as (_ & _ & Hl). exact Hl. }
    rewrite <- Hwl at 1. rewrite DeltaBPProofs.take_bytes_app.
    rewrite wrapZ_sintZ by (destruct Hk; subst; lia || exact Hm).
    rewrite dec_mbs_w_eq by (apply enc_widths_le).
    rewrite Hmb.
    replace (length vals - length chunk)%nat with (length (skipn bs vals))
      by (rewrite skipn_length; lia).
    rewrite IH.
    + f_equal. f_equal. subst chunk. apply firstn_skipn.
    + rewrite skipn_length. lia.
    + apply last_lt; assumption.
    + apply Forall_skipn. exact Hvals.
Qed.

(** [dec64] accepts what the encoder writes, at every legal geometry *)
Theorem dec64_enc_g bs nmb (Hl : legal_geometry bs nmb) k (Hk : k = 32 \/ k = 64) xs tail :
  Forall (in_sint k) xs -> N.of_nat (length xs) < 2 ^ 64 ->
  dec64 k (enc_g bs nmb k xs ++ tail) = Some (xs, tail).
Proof.
  intros Hxs Hlen. unfold enc_g, dec64.
  pose proof (legal_geom _ _ Hl) as Hg.
  pose proof (geom_bs_pos _ _ _ Hg) as Hbp.
  assert (Hkpos : 0 < k) by (destruct Hk; subst; lia).
  rewrite <- !app_assoc.
  rewrite go_uvarint64_roundtrip by (apply Hl).
  rewrite go_uvarint64_roundtrip by (apply (legal_nmb_small _ _ Hl)).
  rewrite go_uvarint64_roundtrip by exact Hlen.
  destruct xs as [|x xs'].
  - rewrite go_varint64_roundtrip by (unfold in_sint; cbn; lia).
    cbn [length N.of_nat N.eqb map app]. reflexivity.
  - inversion Hxs as [|? ? Hx Hxs']; subst.
    rewrite go_varint64_roundtrip by (apply (in_sint_64_of_k k _ Hk); exact Hx).
    destruct (N.eqb_spec (N.of_nat (length (x :: xs'))) 0) as [E|_]; [cbn in E; lia|].
    destruct (N.eqb_spec (N.of_nat nmb) 0) as [E|_]; [destruct Hl; lia|].
    rewrite legal_vpm_eq by (apply Hl). rewrite !Nat2N.id.
    cbn [map length].
    replace (S (length xs') - 1)%nat with (length (map (wrapZ k) xs')) by (rewrite map_length; lia).
    pose proof (dec_blocks64_ok bs nmb (bs / nmb) Hg k Hk (S (length xs')) (map (wrapZ k) xs') (wrapZ k x) tail) as H.
    rewrite (enc_blocks_fuel bs nmb (bs / nmb) Hbp k (length (map (wrapZ k) xs')) (S (length xs')) (wrapZ k x) (map (wrapZ k) xs'))
      by (rewrite map_length; lia).
    rewrite H.
    + f_equal. f_equal. cbn [map]. f_equal.
      * apply sintZ_wrapZ; assumption.
      * rewrite map_map. rewrite <- (map_id xs') at 2. apply map_ext_in.
        intros z Hz. apply sintZ_wrapZ; [assumption|].
        rewrite Forall_forall in Hxs'. now apply Hxs'.
    + rewrite map_length. lia.
    + apply wrapZ_lt.
    + apply wrapZ_all.
Qed.

Theorem dec64_enc k (Hk : k = 32 \/ k = 64) xs tail :
  Forall (in_sint k) xs -> N.of_nat (length xs) < 2 ^ 64 ->
  dec64 k (enc k xs ++ tail) = Some (xs, tail).
Proof. exact (dec64_enc_g block_size num_mini_blocks go_geometry_legal k Hk xs tail). Qed.

(** the geometries Go's decoders accept (decodeBinaryPackedHeader): a block
    size that is a multiple of 128 and at most 65536, mini-blocks of a
    multiple of 32 values -- the format's rule plus the upper bound *)
Definition go_geometry (bs nmb : nat) : Prop :=
  (0 < bs)%nat /\ (0 < nmb)%nat /\ (bs mod 128 = 0)%nat /\ N.of_nat bs <= 65536
  /\ (bs mod nmb = 0)%nat /\ ((bs / nmb) mod 32 = 0)%nat.

Lemma go_geometry_format_g bs nmb : go_geometry bs nmb -> format_geometry bs nmb.
Proof.
  intros (Hb & Hn & H128 & Hmax & Hd & H32). repeat split; try assumption.
  change (2 ^ 64) with (2 ^ 47 * 131072). lia.
Qed.

Lemma go_geometry_go : go_geometry block_size num_mini_blocks.
Proof. unfold go_geometry. repeat split; vm_compute; try reflexivity; try lia. intros H; discriminate H. Qed.

(** Go accepts the header the encoder writes *)
Lemma go_header_enc_g bs nmb (Hgo : go_geometry bs nmb) k (Hk : k = 32 \/ k = 64) xs tail :
  Forall (in_sint k) xs -> N.of_nat (length xs) <= max_int32 ->
  exists first s, go_dbp_header (enc_g bs nmb k xs ++ tail)
                  = GOk (Z.of_nat bs, Z.of_nat nmb, Z.of_nat (length xs), first, s)
                  /\ first_ok k first.
Proof.
  intros Hxs Hlen. unfold enc_g, go_dbp_header.
  destruct Hgo as (Hb & Hn & H128 & Hmax & Hd & H32).
  assert (Hmi : max_int32 < 2 ^ 31) by (vm_compute; reflexivity).
  assert (Hnb : (nmb <= bs)%nat) by (apply Nat.mod_divides in Hd; [destruct Hd as (c & Hc); destruct c; [lia|]; rewrite Hc, Nat.mul_succ_r; lia|lia]).
  rewrite <- !app_assoc.
  rewrite go_uvarint64_roundtrip by (change (2 ^ 64) with (2 ^ 47 * 131072); lia).
  rewrite go_uvarint64_roundtrip by (change (2 ^ 64) with (2 ^ 47 * 131072); lia).
  rewrite go_uvarint64_roundtrip by (change (2 ^ 64) with (2 ^ 33 * 2 ^ 31); lia).
  assert (Hfirst : in_sint k (match xs with [] => 0%Z | x :: _ => x end)).
  { destruct xs as [|x xs']; [destruct Hk; subst; unfold in_sint; cbn; lia|]. now inversion Hxs. }
  rewrite go_varint64_roundtrip by (apply (in_sint_64_of_k k _ Hk); exact Hfirst).
  assert (Esmall : forall n : nat, N.of_nat n <= 2147483647 -> to_int64 (N.of_nat n) = Z.of_nat n).
  { intros n Hle. unfold to_int64. change (2 ^ 63) with (2 ^ 32 * 2147483648).
    destruct (N.ltb_spec (N.of_nat n) (2 ^ 32 * 2147483648)); lia. }
  rewrite (Esmall bs) by lia. rewrite (Esmall nmb) by lia.
  assert (Et : to_int64 (N.of_nat (length xs)) = Z.of_nat (length xs)).
  { apply Esmall. change max_int32 with 2147483647 in Hlen. lia. }
  rewrite Et.
  destruct (Z.eqb_spec (Z.of_nat nmb) 0); [lia|].
  destruct (Z.leb_spec (Z.of_nat bs) 0); [lia|]. cbn [orb].
  rewrite Z.rem_mod_nonneg by lia.
  change 128%Z with (Z.of_nat 128). rewrite <- Nat2Z.inj_mod, H128. cbn [Z.of_nat Z.eqb negb].
  destruct (Z.ltb_spec max_block_size (Z.of_nat bs)); [unfold max_block_size in *; lia|].
  destruct (Z.leb_spec (Z.of_nat nmb) 0); [lia|]. cbn [orb].
  rewrite Z.quot_div_nonneg by lia. rewrite <- Nat2Z.inj_div.
  rewrite Z.rem_mod_nonneg by lia.
  change 32%Z with (Z.of_nat 32). rewrite <- Nat2Z.inj_mod, H32.
  cbn [Z.of_nat Z.eqb negb].
  destruct (Z.ltb_spec (Z.of_nat (length xs)) 0); [lia|].
  destruct (Z.ltb_spec (Z.of_N max_int32) (Z.of_nat (length xs))); [lia|].
  eexists _, _. split; [reflexivity|].
  intros ->. exact Hfirst.
Qed.

Lemma go_header_enc k (Hk : k = 32 \/ k = 64) xs tail :
  Forall (in_sint k) xs -> N.of_nat (length xs) <= max_int32 ->
  exists first s, go_dbp_header (enc k xs ++ tail) = GOk (128%Z, 4%Z, Z.of_nat (length xs), first, s)
                  /\ first_ok k first.
Proof. exact (go_header_enc_g block_size num_mini_blocks go_geometry_go k Hk xs tail). Qed.

(** every byte the encoder writes is a byte *)
Lemma concat_wf (ls : list bytes) : Forall wf_bytes ls -> wf_bytes (concat ls).
Proof.
  induction 1 as [|l ls Hl Hls IH]; [constructor|]. cbn [concat]. apply wf_bytes_app. split; assumption.
Qed.

Lemma enc_block_wf bs nmb vpm k (Hk : k = 32 \/ k = 64) last chunk : wf_bytes (enc_block_g bs nmb vpm k last chunk).
Proof.
  rewrite enc_block_unfold.
  assert (Hc : Forall (fun v => v < 2 ^ k) (cleared_block bs k last chunk)).
  { unfold cleared_block, pad_to. apply Forall_app. split.
    - apply Forall_firstn. apply Forall_forall. intros x Hx. apply in_map_iff in Hx.
      destruct Hx as (d & <- & _). apply subk_lt.
    - apply Forall_forall. intros x Hx. apply repeat_spec in Hx. subst x. apply pow2_pos. }
  pose proof (chunks_forall _ vpm nmb _ Hc) as Hg.
  apply wf_bytes_app. split; [apply uvarint_enc_wf|].
  apply wf_bytes_app. split.
  - apply Forall_forall. intros x Hx. apply in_map_iff in Hx. destruct Hx as (g & <- & Hin).
    rewrite Forall_forall in Hg. pose proof (width_of_le k g (Hg g Hin)). destruct Hk; subst; lia.
  - apply concat_wf. apply Forall_forall. intros x Hx. apply in_map_iff in Hx.
    destruct Hx as (g & <- & _). apply to_le_wf.
Qed.

Lemma enc_blocks_wf bs nmb vpm k (Hk : k = 32 \/ k = 64) : forall fuel last vals, wf_bytes (enc_blocks_g bs nmb vpm fuel k last vals).
Proof.
  induction fuel as [|f IH]; intros last vals; cbn [enc_blocks_g]; [constructor|].
  destruct vals; [constructor|]. apply wf_bytes_app. split; [now apply enc_block_wf|apply IH].
Qed.

Lemma enc_g_wf bs nmb k (Hk : k = 32 \/ k = 64) xs : wf_bytes (enc_g bs nmb k xs).
Proof.
  unfold enc_g. repeat (apply wf_bytes_app; split); try apply uvarint_enc_wf.
  destruct (map (wrapZ k) xs); [constructor|now apply enc_blocks_wf].
Qed.

Lemma enc_wf k (Hk : k = 32 \/ k = 64) xs : wf_bytes (enc k xs).
Proof. exact (enc_g_wf block_size num_mini_blocks k Hk xs). Qed.

(** Go decodeInt32/64 (encode xs ++ tail) = (xs, tail) for the encoder at EVERY
    geometry Go's header checks admit (and so does the specification decoder:
    [dec_enc_g]): pages of writers that choose another block size or
    mini-block count than Go's 128 / 4 decode to the values written *)
Theorem go_dbp_roundtrip_g bs nmb (Hgo : go_geometry bs nmb) k (Hk : k = 32 \/ k = 64) xs tail :
  Forall (in_sint k) xs -> N.of_nat (length xs) <= max_int32 -> wf_bytes tail ->
  go_dbp_dec k (enc_g bs nmb k xs ++ tail) = GOk (xs, tail).
Proof.
  intros Hxs Hlen Hwt.
  assert (Hmi : max_int32 < 2 ^ 31) by (vm_compute; reflexivity).
  destruct (go_header_enc_g bs nmb Hgo k Hk xs tail Hxs Hlen) as (first & s & Hh & Hf).
  eapply go_dbp_refines.
  - apply wf_bytes_app. split; [now apply enc_g_wf|exact Hwt].
  - apply dec64_enc_g; [apply format_geometry_legal, go_geometry_format_g, Hgo|exact Hk|exact Hxs|].
    change (2 ^ 64) with (2 ^ 33 * 2 ^ 31). lia.
  - exact Hh.
  - exact Hf.
Qed.

(** Go decodeInt32/64 (Go encodeInt32/64 xs ++ tail) = (xs, tail) *)
Theorem go_dbp_roundtrip k (Hk : k = 32 \/ k = 64) xs tail :
  Forall (in_sint k) xs -> N.of_nat (length xs) <= max_int32 -> wf_bytes tail ->
  go_dbp_dec k (enc k xs ++ tail) = GOk (xs, tail).
Proof. exact (go_dbp_roundtrip_g block_size num_mini_blocks go_geometry_go k Hk xs tail). Qed.

(** * DELTA_LENGTH_BYTE_ARRAY *)

Fixpoint offsets_from (a : N) (vs : list bytes) : list N :=
  match vs with
  | [] => [a]
  | v :: r => a :: offsets_from (a + N.of_nat (length v)) r
  end.

Lemma offsets_from_cons a vs : exists t, offsets_from a vs = a :: t.
Proof. destruct vs; cbn [offsets_from]; eauto. Qed.

Lemma go_lengths_offsets_ok vs : forall a,
  a + N.of_nat (length (concat vs)) < 2 ^ 32 ->
  go_lengths_offsets (lengths_of vs) a = Some (offsets_from a vs, a + N.of_nat (length (concat vs))).
Proof.
  induction vs as [|v r IH]; intros a Ha; cbn [lengths_of map go_lengths_offsets concat offsets_from length].
  - rewrite N.add_0_r. reflexivity.
  - cbn [concat] in Ha. rewrite app_length in Ha.
    destruct (Z.ltb_spec (Z.of_nat (length v)) 0); [lia|].
    replace (Z.to_N (Z.of_nat (length v))) with (N.of_nat (length v)) by lia.
    rewrite N.mod_small by lia.
    fold (lengths_of r). rewrite IH by lia.
    rewrite app_length. f_equal. f_equal. lia.
Qed.

Lemma unflatten_cons2 data a b t :
  unflatten data (a :: b :: t)
  = firstn (N.to_nat (b - a)) (skipn (N.to_nat a) data) :: unflatten data (b :: t).
Proof. reflexivity. Qed.

Lemma unflatten_ok vs : forall pre tail,
  unflatten (pre ++ concat vs ++ tail) (offsets_from (N.of_nat (length pre)) vs) = vs.
Proof.
  induction vs as [|v r IH]; intros pre tail; cbn [offsets_from]; [reflexivity|].
  destruct (offsets_from_cons (N.of_nat (length pre) + N.of_nat (length v)) r) as (t & Et).
  rewrite Et, unflatten_cons2, <- Et.
  replace (N.to_nat (N.of_nat (length pre) + N.of_nat (length v) - N.of_nat (length pre))) with (length v) by lia.
  rewrite Nat2N.id, skipn_app_exact. cbn [concat]. rewrite <- app_assoc, firstn_app_exact.
  f_equal.
  replace (N.of_nat (length pre) + N.of_nat (length v)) with (N.of_nat (length (pre ++ v)))
    by (rewrite app_length; lia).
  rewrite <- (IH (pre ++ v) tail) at 3. f_equal. now rewrite <- !app_assoc.
Qed.

Theorem go_dlba_roundtrip vs :
  Forall short vs -> Forall wf_bytes vs ->
  N.of_nat (length vs) <= max_int32 -> N.of_nat (length (concat vs)) < 2 ^ 32 ->
  go_dlba_dec (dlba_enc vs) = GOk (concat vs, offsets_from 0 vs)
  /\ unflatten (concat vs) (offsets_from 0 vs) = vs.
Proof.
  intros Hs Hwf Hn Hl. split.
  - unfold go_dlba_dec, dlba_enc.
    rewrite (go_dbp_roundtrip 32 (or_introl eq_refl)).
    + cbn [gbind]. rewrite go_lengths_offsets_ok by (rewrite N.add_0_l; exact Hl).
      rewrite N.add_0_l.
      assert (Hf : fits_len (N.of_nat (length (concat vs))) (concat vs) = true) by (apply fits_len_true; lia).
      rewrite Hf. cbn [negb]. now rewrite Nat2N.id, firstn_all.
    + now apply lengths_in_range.
    + unfold lengths_of. now rewrite map_length.
    + now apply concat_wf.
  - pose proof (unflatten_ok vs [] []) as H. cbn [app length N.of_nat] in H. now rewrite app_nil_r in H.
Qed.

(** ... with the lengths written at any geometry Go's header checks admit *)
Theorem go_dlba_roundtrip_g bs nmb vs :
  go_geometry bs nmb -> Forall short vs -> Forall wf_bytes vs ->
  N.of_nat (length vs) <= max_int32 -> N.of_nat (length (concat vs)) < 2 ^ 32 ->
  go_dlba_dec (dlba_enc_g bs nmb vs) = GOk (concat vs, offsets_from 0 vs).
Proof.
  intros Hgo Hs Hwf Hn Hl.
  unfold go_dlba_dec, dlba_enc_g.
  rewrite (go_dbp_roundtrip_g bs nmb Hgo 32 (or_introl eq_refl)).
  + cbn [gbind]. rewrite go_lengths_offsets_ok by (rewrite N.add_0_l; exact Hl).
    rewrite N.add_0_l.
    assert (Hf : fits_len (N.of_nat (length (concat vs))) (concat vs) = true) by (apply fits_len_true; lia).
    rewrite Hf. cbn [negb]. now rewrite Nat2N.id, firstn_all.
  + now apply lengths_in_range.
  + unfold lengths_of. now rewrite map_length.
  + now apply concat_wf.
Qed.

(** * DELTA_BYTE_ARRAY *)

Lemma go_dba_loop_ok vs : forall prev tail,
  go_dba_loop (map Z.of_nat (prefixes prev vs)) (lengths_of (suffixes prev vs))
              (concat (suffixes prev vs) ++ tail) prev = GOk (vs, tail).
Proof.
  induction vs as [|v r IH]; intros prev tail;
    cbn [prefixes suffixes map lengths_of go_dba_loop concat app]; [reflexivity|].
  destruct (lcp_le prev v) as [H1 H2].
  destruct (Z.ltb_spec (Z.of_nat (length (skipn (lcp prev v) v))) 0); [lia|].
  rewrite <- app_assoc, app_length.
  destruct (Z.ltb_spec (Z.of_nat (length (skipn (lcp prev v) v) + length (concat (suffixes v r) ++ tail)))
                       (Z.of_nat (length (skipn (lcp prev v) v)))); [lia|].
  destruct (Z.ltb_spec (Z.of_nat (lcp prev v)) 0); [lia|].
  destruct (Z.ltb_spec (Z.of_nat (length prev)) (Z.of_nat (lcp prev v))); [lia|].
  rewrite !Nat2Z.id, firstn_app_exact, skipn_app_exact.
  rewrite lcp_prefix, firstn_skipn.
  fold (lengths_of (suffixes v r)). rewrite IH. reflexivity.
Qed.

Lemma suffixes_wf vs : forall prev, Forall wf_bytes vs -> Forall wf_bytes (suffixes prev vs).
Proof.
  induction vs as [|v r IH]; intros prev H; cbn [suffixes]; [constructor|].
  inversion H; subst. constructor; [now apply Forall_skipn|now apply IH].
Qed.

Theorem go_dba_roundtrip vs :
  Forall short vs -> Forall wf_bytes vs -> N.of_nat (length vs) <= max_int32 ->
  go_dba_dec (dba_enc vs) = GOk vs.
Proof.
  intros Hs Hwf Hn. unfold go_dba_dec, go_dba_dec_rest, dba_enc.
  rewrite (go_dbp_roundtrip 32 (or_introl eq_refl)).
  - cbn [gbind]. rewrite (go_dbp_roundtrip 32 (or_introl eq_refl)).
    + cbn [gbind]. rewrite map_length, prefixes_length.
      unfold lengths_of at 1. rewrite map_length, suffixes_length, Nat.eqb_refl. cbn [negb].
      rewrite <- (app_nil_r (concat _)), go_dba_loop_ok. reflexivity.
    + apply lengths_in_range. now apply suffixes_short.
    + unfold lengths_of. now rewrite map_length, suffixes_length.
    + apply concat_wf. now apply suffixes_wf.
  - now apply prefixes_in_range.
  - now rewrite map_length, prefixes_length.
  - apply wf_bytes_app. split; [apply enc_wf; now left|]. apply concat_wf. now apply suffixes_wf.
Qed.

(** ... at any geometry of the two sections that Go's header checks admit, with
    prefixes capped at any length *)
Lemma go_dba_loop_c_ok cap vs : forall prev tail,
  go_dba_loop (map Z.of_nat (prefixes_c cap prev vs)) (lengths_of (suffixes_c cap prev vs))
              (concat (suffixes_c cap prev vs) ++ tail) prev = GOk (vs, tail).
Proof.
  induction vs as [|v r IH]; intros prev tail;
    cbn [prefixes_c suffixes_c map lengths_of go_dba_loop concat app]; [reflexivity|].
  destruct (lcp_le prev v) as [H1 H2].
  set (p := Nat.min cap (lcp prev v)).
  destruct (Z.ltb_spec (Z.of_nat (length (skipn p v))) 0); [lia|].
  rewrite <- app_assoc, app_length.
  destruct (Z.ltb_spec (Z.of_nat (length (skipn p v) + length (concat (suffixes_c cap v r) ++ tail)))
                       (Z.of_nat (length (skipn p v)))); [lia|].
  destruct (Z.ltb_spec (Z.of_nat p) 0); [lia|].
  destruct (Z.ltb_spec (Z.of_nat (length prev)) (Z.of_nat p)); [subst p; lia|].
  rewrite !Nat2Z.id, firstn_app_exact, skipn_app_exact.
  subst p. rewrite capped_prefix, firstn_skipn.
  fold (lengths_of (suffixes_c cap v r)). rewrite IH. reflexivity.
Qed.

Lemma suffixes_c_wf cap vs : forall prev, Forall wf_bytes vs -> Forall wf_bytes (suffixes_c cap prev vs).
Proof.
  induction vs as [|v r IH]; intros prev H; cbn [suffixes_c]; [constructor|].
  inversion H; subst. constructor; [now apply Forall_skipn|now apply IH].
Qed.

Theorem go_dba_roundtrip_g cap bs1 nmb1 bs2 nmb2 vs :
  go_geometry bs1 nmb1 -> go_geometry bs2 nmb2 ->
  Forall short vs -> Forall wf_bytes vs -> N.of_nat (length vs) <= max_int32 ->
  go_dba_dec (dba_enc_g cap bs1 nmb1 bs2 nmb2 vs) = GOk vs.
Proof.
  intros Hg1 Hg2 Hs Hwf Hn. unfold go_dba_dec, go_dba_dec_rest, dba_enc_g.
  rewrite (go_dbp_roundtrip_g bs1 nmb1 Hg1 32 (or_introl eq_refl)).
  - cbn [gbind]. rewrite (go_dbp_roundtrip_g bs2 nmb2 Hg2 32 (or_introl eq_refl)).
    + cbn [gbind]. rewrite map_length, prefixes_c_length.
      unfold lengths_of at 1. rewrite map_length, suffixes_c_length, Nat.eqb_refl. cbn [negb].
      rewrite <- (app_nil_r (concat _)), go_dba_loop_c_ok. reflexivity.
    + apply lengths_in_range. now apply suffixes_c_short.
    + unfold lengths_of. now rewrite map_length, suffixes_c_length.
    + apply concat_wf. now apply suffixes_c_wf.
  - now apply prefixes_c_in_range.
  - now rewrite map_length, prefixes_c_length.
  - apply wf_bytes_app. split; [apply enc_g_wf; now left|]. apply concat_wf. now apply suffixes_c_wf.
Qed.

(** * What is outside: witnesses *)

(** Go tolerates a last mini-block without its padding (missing bytes read as
    zeros) as long as the bits of the values it has to provide are present;
    the specification decoder requires whole mini-blocks *)
Theorem go_dbp_unpadded_miniblock_lenient :
  exists b xs, DeltaBP.dec 32 b = None /\ go_dbp_dec 32 b = GOk (xs, []).
Proof.
  exists [128; 1; 4; 3; 1; 1; 2; 0; 0; 0; 5]. eexists.
  split; vm_compute; reflexivity.
Qed.

(** ... and (since b47fdb3) rejects a mini-block that lacks bits of its values *)
Example go_dbp_truncated_miniblock_rejected :
  go_dbp_dec 32 [128; 1; 4; 3; 1; 1; 2; 0; 0; 0] = GErr.
Proof. vm_compute. reflexivity. Qed.

(** ... and (since 15954b9) a needed mini-block wider than the type *)
Example go_dbp_wide_width_rejected :
  go_dbp_dec 32 [128; 1; 4; 2; 0; 1; 33; 0; 0; 0] = GErr
  /\ go_dbp_dec 64 [128; 1; 4; 2; 0; 1; 65; 0; 0; 0] = GErr.
Proof. split; vm_compute; reflexivity. Qed.

(** Go's header checks are stricter than the format: a block size that is not
    a multiple of 128 is accepted by the specification decoder *)
Theorem go_dbp_header_stricter :
  exists b r, DeltaBP.dec 32 b = Some r /\ go_dbp_dec 32 b = GErr.
Proof.
  exists [64; 2; 1; 2]. eexists. split; vm_compute; reflexivity.
Qed.

(** the unrestricted statement does not hold (Go's header checks) *)
Definition go_dbp_accepts_spec_full : Prop :=
  forall k b r, (k = 32 \/ k = 64) -> wf_bytes b -> DeltaBP.dec k b = Some r -> go_dbp_dec k b = GOk r.

Theorem go_dbp_accepts_spec_full_refuted : ~ go_dbp_accepts_spec_full.
Proof.
  intros H.
  assert (Hw : wf_bytes [64; 2; 1; 2]) by (repeat constructor; lia).
  specialize (H 32 [64; 2; 1; 2] _ (or_introl eq_refl) Hw eq_refl). vm_compute in H. discriminate.
Qed.
