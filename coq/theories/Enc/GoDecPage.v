(** Model of what the page reader makes of an RLE_DICTIONARY data page once
    its index bytes are decoded (dictionary.go, newIndexedPage):

      size := int(numValues)
      values := data.Int32()
      if len(values) < size {
        if cap(values) < size { tmp := make([]int32, size); copy(tmp, values); values = tmp }
        else { clear := values[len(values):size]; for i := range clear { clear[i] = 0 } }
      }
      return &indexedPage{values: values[:size], ...}

    i.e. the indexes decoded from the page data, cut to the [numValues] of the
    page header, and -- a leniency of the library, NOT of Encodings.md, which
    has a data page hold all its values -- extended with indexes 0 when the
    data holds fewer ("RLE encoded values that contain dictionary indexes in
    data pages are sometimes truncated when they contain only zeros").
    Slices are lists: the result is a function of the page data and of
    [numValues] alone; that the Go code does not let the previous content of
    the reused buffer show through is part of the differential run
    (harness/c04/page.go).  No proofs here (Enc/GoDecPageProofs.v). *)
From Coq Require Import List NArith.
From PQ Require Import Base.Bytes Enc.GoDecBase Enc.GoDecRle.
Import ListNotations.
Open Scope N_scope.

Definition indexed_page_indexes (num_values : nat) (decoded : list N) : list N :=
  firstn num_values (decoded ++ repeat 0 (num_values - length decoded)).

(** pageType.Decode(values, data, &RLEDictionary), then pageType.NewPage(column, numValues, values) *)
Definition go_indexed_page (num_values : nat) (data : bytes) : gres (list N) :=
  gbind (go_decode_dict data) (fun ix => GOk (indexed_page_indexes num_values ix)).
