(** DELTA_BINARY_PACKED: the specification decoder inverts the Go-mirroring
    encoder, for every input sequence (any length, any values incl. those
    whose deltas wrap around), with any bytes following the encoded section. *)
From Coq Require Import List NArith ZArith Lia Bool Arith.
From Coq Require Import ZifyN ZifyNat ZifyBool.
From PQ Require Import Base.Bytes Base.Varint Base.BitPack Base.ListExtra Enc.DeltaBP.
Import ListNotations.
Open Scope N_scope.

Ltac Zify.zify_post_hook ::= Z.div_mod_to_equations.

(** a geometry: [bs] values per block in [nmb] mini-blocks of [vpm] values, a
    multiple of 8 *)
Definition geom (bs nmb vpm : nat) : Prop :=
  bs = (nmb * vpm)%nat /\ N.of_nat vpm mod 8 = 0 /\ (0 < vpm)%nat /\ (0 < nmb)%nat.

Lemma geom_bs_pos bs nmb vpm : geom bs nmb vpm -> (0 < bs)%nat.
Proof. intros (-> & _ & Hv & Hn). apply Nat.mul_pos_pos; assumption. Qed.

Lemma legal_geom bs nmb : legal_geometry bs nmb -> geom bs nmb (bs / nmb).
Proof. intros (Hn & He & Hv & H8 & _). repeat split; assumption. Qed.

(** every geometry the format allows is covered *)
Lemma format_geometry_legal bs nmb : format_geometry bs nmb -> legal_geometry bs nmb.
Proof.
  intros (Hb & Hn & _ & Hd & H32 & Hs).
  assert (He : bs = (nmb * (bs / nmb))%nat).
  { pose proof (Nat.div_mod bs nmb ltac:(lia)) as E. rewrite Hd in E. lia. }
  assert (Hq : (0 < bs / nmb)%nat).
  { destruct (bs / nmb)%nat; [rewrite Nat.mul_0_r in He; lia|lia]. }
  repeat split; try assumption.
  pose proof (Nat.div_mod (bs / nmb) 32 ltac:(lia)) as E. rewrite H32, Nat.add_0_r in E.
  rewrite E. rewrite Nat2N.inj_mul. change (N.of_nat 32) with (8 * 4).
  rewrite <- N.mul_assoc, N.mul_comm. apply N.mod_mul. discriminate.
Qed.

(** facts about the constants extracted from the Go source *)
Lemma go_geometry_format : format_geometry block_size num_mini_blocks.
Proof. unfold format_geometry. repeat split; vm_compute; try reflexivity; lia. Qed.
Lemma go_geometry_legal : legal_geometry block_size num_mini_blocks.
Proof. apply format_geometry_legal, go_geometry_format. Qed.
Lemma block_size_small : N.of_nat block_size < 2 ^ 64.
Proof. vm_compute. reflexivity. Qed.
Lemma num_mini_blocks_small : N.of_nat num_mini_blocks < 2 ^ 64.
Proof. vm_compute. reflexivity. Qed.
Lemma block_size_128 : N.of_nat block_size = 128.
Proof. vm_compute. reflexivity. Qed.
Lemma num_mini_blocks_4 : N.of_nat num_mini_blocks = 4.
Proof. vm_compute. reflexivity. Qed.
Lemma mini_block_size_eq : (block_size / num_mini_blocks)%nat = mini_block_size.
Proof. reflexivity. Qed.

Global Opaque block_size num_mini_blocks mini_block_size.

(** * k-bit arithmetic *)

Lemma subk_lt k a b : subk k a b < 2 ^ k.
Proof. unfold subk. apply N.mod_lt. pose proof (pow2_pos k). lia. Qed.

Lemma addk_lt k a b : addk k a b < 2 ^ k.
Proof. unfold addk. apply N.mod_lt. pose proof (pow2_pos k). lia. Qed.

Lemma mod_eq P a r q : 0 < P -> r < P -> a = r + q * P -> a mod P = r.
Proof. intros HP Hr ->. rewrite N.mod_add by lia. now apply N.mod_small. Qed.

Lemma delta_undo k prev m v :
  prev < 2 ^ k -> m < 2 ^ k -> v < 2 ^ k ->
  addk k (addk k prev m) (subk k (subk k v prev) m) = v.
Proof.
  intros Hp Hm Hv. unfold addk, subk.
  pose proof (pow2_pos k) as HP. set (P := 2 ^ k) in *.
  rewrite (N.mod_small prev P), (N.mod_small m P) by assumption.
  set (d := if prev <=? v then v - prev else v + P - prev).
  assert (Hd : d < P) by (subst d; destruct (N.leb_spec prev v); lia).
  assert (E1 : (v + P - prev) mod P = d).
  { subst d. destruct (N.leb_spec prev v).
    - apply (mod_eq P _ _ 1); lia.
    - apply (mod_eq P _ _ 0); lia. }
  rewrite E1.
  set (u := if m <=? d then d - m else d + P - m).
  assert (Hu : u < P) by (subst u; destruct (N.leb_spec m d); lia).
  assert (E2 : (d + P - m) mod P = u).
  { subst u. destruct (N.leb_spec m d).
    - apply (mod_eq P _ _ 1); lia.
    - apply (mod_eq P _ _ 0); lia. }
  rewrite E2.
  set (s := if prev + m <? P then prev + m else prev + m - P).
  assert (Hs : s < P) by (subst s; destruct (N.ltb_spec (prev + m) P); lia).
  assert (E3 : (prev + m) mod P = s).
  { subst s. destruct (N.ltb_spec (prev + m) P).
    - apply (mod_eq P _ _ 0); lia.
    - apply (mod_eq P _ _ 1); lia. }
  rewrite E3.
  subst s u d.
  destruct (N.ltb_spec (prev + m) P); destruct (N.leb_spec prev v);
    match goal with |- context [?a <=? ?b] => destruct (N.leb_spec a b) end;
    first [ apply (mod_eq P _ _ 0); lia | apply (mod_eq P _ _ 1); lia | apply (mod_eq P _ _ 2); lia ].
Qed.

(** * widths *)

Lemma fold_max_init l : forall a, a <= fold_left N.max l a.
Proof. induction l as [|y l IH]; intros a; cbn [fold_left]; [lia|]. etransitivity; [|apply IH]. lia. Qed.

Lemma fold_max_ge l : forall a x, In x l -> x <= fold_left N.max l a.
Proof.
  induction l as [|y l IH]; intros a x Hin; [destruct Hin|].
  cbn [fold_left]. destruct Hin as [->|Hin].
  - etransitivity; [|apply fold_max_init]. lia.
  - apply IH. exact Hin.
Qed.

Lemma width_of_fits g : fits (width_of g) g.
Proof.
  unfold fits, width_of. apply Forall_forall. intros v Hv.
  apply bitlen_le_lt. apply fold_max_ge. apply in_map. exact Hv.
Qed.

Definition all_zero (l : list N) : Prop := Forall (fun v => v = 0) l.

Lemma width_of_zero g : all_zero g -> width_of g = 0.
Proof.
  unfold width_of. intros H.
  assert (E : map bitlen g = repeat 0 (length g)).
  { induction H as [|v r Hv Hr IH]; cbn; [reflexivity|]. subst v. now rewrite IH. }
  rewrite E. clear. induction (length g) as [|n IH]; cbn; [reflexivity|exact IH].
Qed.

Definition emit (g : list N) : bytes := pack_bytes (width_of g) g.

Lemma emit_zero g : all_zero g -> emit g = [].
Proof.
  intros H. unfold emit, pack_bytes. rewrite (width_of_zero g H).
  rewrite N.mul_0_l. reflexivity.
Qed.

Lemma emit_zero_groups gs : all_zero (concat gs) -> concat (map emit gs) = [].
Proof.
  induction gs as [|g gs IH]; cbn [concat map]; [reflexivity|].
  intros H. apply Forall_app in H. destruct H as [Hg Hgs].
  rewrite (emit_zero g Hg), IH by exact Hgs. reflexivity.
Qed.

Lemma emit_length g : length (emit g) = N.to_nat (width_of g * N.of_nat (length g) / 8).
Proof. apply pack_bytes_length. Qed.

(** * recon *)

Lemma recon_app k m a : forall prev b,
  recon k prev m (a ++ b) =
  (fst (recon k prev m a) ++ fst (recon k (snd (recon k prev m a)) m b),
   snd (recon k (snd (recon k prev m a)) m b)).
Proof.
  induction a as [|u a IH]; intros prev b; cbn [app recon fst snd].
  - destruct (recon k prev m b). reflexivity.
  - rewrite IH. destruct (recon k (addk k (addk k prev m) u) m a) as [xs p].
    cbn [fst snd]. reflexivity.
Qed.

Lemma recon_nil k prev m : recon k prev m [] = ([], prev).
Proof. reflexivity. Qed.

Lemma block_delta_app k a : forall last b,
  block_delta k last (a ++ b) = block_delta k last a ++ block_delta k (List.last a last) b.
Proof.
  induction a as [|v a IH]; intros last b; cbn [app block_delta]; [reflexivity|].
  rewrite IH, last_cons. reflexivity.
Qed.

Lemma block_delta_length k l : forall last, length (block_delta k last l) = length l.
Proof. induction l as [|v l IH]; intros last; cbn [block_delta length]; [reflexivity|]. now rewrite IH. Qed.

Lemma recon_deltas k m chunk : forall last,
  last < 2 ^ k -> m < 2 ^ k -> Forall (fun v => v < 2 ^ k) chunk ->
  recon k last m (map (fun d => subk k d m) (block_delta k last chunk)) = (chunk, List.last chunk last).
Proof.
  induction chunk as [|v chunk IH]; intros last Hl Hm Hc; cbn [block_delta map recon]; [reflexivity|].
  inversion Hc as [|? ? Hv Hc']; subst.
  rewrite delta_undo by assumption.
  rewrite IH by assumption.
  now rewrite last_cons.
Qed.

(** * the mini-block loop of the decoder *)

Lemma take_bytes_app a b : take_bytes (length a) (a ++ b) = Some (a, b).
Proof.
  unfold take_bytes. rewrite app_length.
  destruct (Nat.leb_spec (length a) (length a + length b)) as [_|H]; [|lia].
  now rewrite firstn_app_exact, skipn_app_exact.
Qed.

Lemma all_zero_skipn_app rem (g c : list N) :
  all_zero (skipn rem (g ++ c)) -> all_zero (skipn (rem - Nat.min (length g) rem) c).
Proof.
  intros H. rewrite skipn_app in H. apply Forall_app in H. destruct H as [_ H].
  replace (rem - Nat.min (length g) rem)%nat with (rem - length g)%nat by lia. exact H.
Qed.

Lemma dec_mbs_ok k vpm m : (N.of_nat vpm) mod 8 = 0 ->
  forall gs rem prev rest,
  Forall (fun g => length g = vpm) gs ->
  all_zero (skipn rem (concat gs)) ->
  dec_mbs k vpm m (map width_of gs) (concat (map emit gs) ++ rest) rem prev
  = Some (fst (recon k prev m (firstn rem (concat gs))),
          (rem - Nat.min rem (length (concat gs)))%nat,
          snd (recon k prev m (firstn rem (concat gs))),
          rest).
Proof.
  intros Hv8. induction gs as [|g gs IH]; intros rem prev rest Hlen Hz.
  - cbn [map concat dec_mbs app]. rewrite firstn_nil. cbn [recon fst snd length].
    rewrite Nat.min_0_r, Nat.sub_0_r. reflexivity.
  - cbn [map concat dec_mbs].
    inversion Hlen as [|? ? Hg Hgs]; subst.
    destruct (Nat.eqb_spec rem 0) as [->|Hrem].
    + (* nothing remains: the following mini-blocks are all zero and empty *)
      cbn [skipn] in Hz.
      assert (E : emit g ++ concat (map emit gs) = []).
      { change (emit g ++ concat (map emit gs)) with (concat (map emit (g :: gs))).
        apply emit_zero_groups. exact Hz. }
      rewrite E. cbn [app firstn recon fst snd Nat.min Nat.sub]. reflexivity.
    + rewrite <- app_assoc.
      assert (El : N.to_nat (width_of g * N.of_nat (length g) / 8) = length (emit g))
        by (symmetry; apply emit_length).
      rewrite El, take_bytes_app.
      assert (Eu : unpack_bytes (width_of g) (length g) (emit g) = g).
      { apply unpack_bytes_pack_bytes; [apply width_of_fits|].
        rewrite N.mul_mod by discriminate. rewrite Hv8, N.mul_0_r. reflexivity. }
      rewrite Eu.
      set (us := firstn (Nat.min (length g) rem) g).
      assert (Hus : length us = Nat.min (length g) rem).
      { subst us. rewrite firstn_length. lia. }
      destruct (recon k prev m us) as [xs p] eqn:Er.
      rewrite Hus.
      rewrite IH; [|exact Hgs|apply all_zero_skipn_app; exact Hz].
      assert (Ef : firstn rem (g ++ concat gs) = us ++ firstn (rem - Nat.min (length g) rem) (concat gs)).
      { subst us. rewrite firstn_app.
        replace (rem - length g)%nat with (rem - Nat.min (length g) rem)%nat by lia.
        f_equal. rewrite Nat.min_comm.
        destruct (Nat.le_ge_cases rem (length g)) as [H|H].
        - rewrite Nat.min_l by exact H. reflexivity.
        - rewrite Nat.min_r by exact H. now rewrite !firstn_all2 by lia. }
      rewrite Ef, recon_app, Er. cbn [fst snd].
      replace (rem - Nat.min (length g) rem - Nat.min (rem - Nat.min (length g) rem) (length (concat gs)))%nat
        with (rem - Nat.min rem (length (g ++ concat gs)))%nat by (rewrite app_length; lia).
      reflexivity.
Qed.

(** * one block *)

Lemma chunks_exact {A} n (Hn : (0 < n)%nat) : forall fuel (l : list A),
  length l = (fuel * n)%nat ->
  concat (chunks fuel n l) = l /\ Forall (fun g => length g = n) (chunks fuel n l)
  /\ length (chunks fuel n l) = fuel.
Proof.
  induction fuel as [|f IH]; intros l Hl; cbn [chunks].
  - destruct l; [repeat split; constructor|cbn in Hl; lia].
  - destruct l as [|a l'] eqn:El.
    + cbn in Hl. lia.
    + rewrite <- El in *. clear El a l'.
      assert (Hs : length (skipn n l) = (f * n)%nat) by (rewrite skipn_length; lia).
      destruct (IH _ Hs) as (Hc & Hf & Hlen).
      cbn [concat length]. rewrite Hc, firstn_skipn. split; [reflexivity|]. split.
      * constructor; [rewrite firstn_length; lia|exact Hf].
      * now rewrite Hlen.
Qed.

Lemma smin_lt k a b : a < 2 ^ k -> b < 2 ^ k -> smin k a b < 2 ^ k.
Proof. unfold smin. destruct (_ <? _)%Z; auto. Qed.

Lemma block_min_lt k l : Forall (fun v => v < 2 ^ k) l -> block_min k l < 2 ^ k.
Proof.
  unfold block_min. destruct l as [|v r]; intros H; [apply pow2_pos|].
  inversion H as [|? ? Hv Hr]; subst. clear H.
  revert v Hv. induction r as [|y r IH]; intros v Hv; cbn [fold_left]; [exact Hv|].
  inversion Hr; subst. apply IH; [assumption|]. now apply smin_lt.
Qed.

Lemma block_delta_lt k l : forall last, Forall (fun v => v < 2 ^ k) (block_delta k last l).
Proof.
  induction l as [|v l IH]; intros last; cbn [block_delta]; constructor.
  - apply subk_lt.
  - apply IH.
Qed.

Lemma in_sint_64_of_k k z : (k = 32 \/ k = 64) -> in_sint k z -> in_sint 64 z.
Proof.
  intros [->| ->]; unfold in_sint; cbn; lia.
Qed.

Definition cleared_block (bs : nat) (k : N) (last : N) (chunk : list N) : list N :=
  let block := pad_to bs 0 chunk in
  let deltas := block_delta k last block in
  let m := block_min k deltas in
  let subd := map (fun d => subk k d m) deltas in
  pad_to bs 0 (firstn (length chunk) subd).

Definition block_m (bs : nat) (k : N) (last : N) (chunk : list N) : N :=
  block_min k (block_delta k last (pad_to bs 0 chunk)).

Lemma pad_to_length {A} n (d : A) l : (length l <= n)%nat -> length (pad_to n d l) = n.
Proof. intros H. unfold pad_to. rewrite app_length, repeat_length. lia. Qed.

Lemma enc_block_unfold bs nmb vpm k last chunk :
  enc_block_g bs nmb vpm k last chunk =
  varint64 (sintZ k (block_m bs k last chunk))
    ++ map width_of (chunks nmb vpm (cleared_block bs k last chunk))
    ++ concat (map emit (chunks nmb vpm (cleared_block bs k last chunk))).
Proof. reflexivity. Qed.

Lemma dec_block_ok bs nmb vpm (Hg : geom bs nmb vpm) k (Hk : k = 32 \/ k = 64) last chunk rem rest :
  last < 2 ^ k -> Forall (fun v => v < 2 ^ k) chunk ->
  (0 < length chunk <= bs)%nat ->
  (length chunk <= rem)%nat -> ((length chunk < bs)%nat -> rem = length chunk) ->
  exists m,
    m < 2 ^ k /\
    varint_dec (enc_block_g bs nmb vpm k last chunk ++ rest)
      = Some (sintZ k m,
              map width_of (chunks nmb vpm (cleared_block bs k last chunk))
              ++ concat (map emit (chunks nmb vpm (cleared_block bs k last chunk))) ++ rest)
    /\ dec_mbs k vpm m
         (map width_of (chunks nmb vpm (cleared_block bs k last chunk)))
         (concat (map emit (chunks nmb vpm (cleared_block bs k last chunk))) ++ rest) rem last
       = Some (chunk, (rem - length chunk)%nat, List.last chunk last, rest).
Proof.
  intros Hlast Hchunk [Hpos Hle] Hrem Hshort.
  destruct Hg as (bs_eq & vpm_mod8 & vpm_pos & nmb_pos).
  set (m := block_m bs k last chunk). exists m.
  assert (Hkpos : 0 < k) by (destruct Hk; subst; lia).
  assert (Hm : m < 2 ^ k) by (apply block_min_lt, block_delta_lt).
  split; [exact Hm|]. split.
  - rewrite enc_block_unfold, <- !app_assoc.
    rewrite varint64_roundtrip; [reflexivity|].
    apply (in_sint_64_of_k k _ Hk). now apply sintZ_in_range.
  - set (cb := cleared_block bs k last chunk).
    assert (Hcbl : length cb = (nmb * vpm)%nat).
    { subst cb. unfold cleared_block. rewrite pad_to_length; [exact bs_eq|].
      rewrite firstn_length. lia. }
    destruct (chunks_exact vpm vpm_pos nmb cb Hcbl) as (Hc & Hf & _).
    rewrite (dec_mbs_ok k vpm m vpm_mod8 _ rem last rest Hf).
    2:{ rewrite Hc. subst cb. unfold cleared_block, pad_to.
        rewrite firstn_length, map_length, block_delta_length, app_length, repeat_length.
        replace (Nat.min (length chunk) (length chunk + (bs - length chunk)))%nat
          with (length chunk) by lia.
        destruct (Nat.eq_dec (length chunk) bs) as [E|E].
        - rewrite skipn_all2; [constructor|].
          rewrite app_length, firstn_length, map_length, block_delta_length, app_length, repeat_length.
          cbn. lia.
        - rewrite (Hshort ltac:(lia)).
          rewrite skipn_app.
          rewrite skipn_all2 by (rewrite firstn_length, map_length, block_delta_length, app_length, repeat_length; lia).
          rewrite firstn_length, map_length, block_delta_length, app_length, repeat_length.
          replace (length chunk - Nat.min (length chunk) (length chunk + (bs - length chunk)))%nat with 0%nat by lia.
          cbn [app skipn]. unfold all_zero. apply Forall_forall. intros x Hx.
          apply repeat_spec in Hx. exact Hx. }
    rewrite Hc.
    (* the first [rem] values of the cleared block are the reduced deltas of the chunk *)
    assert (Ef : firstn rem cb = map (fun d => subk k d m) (block_delta k last chunk)).
    { subst cb. unfold cleared_block. fold (block_m bs k last chunk). fold m.
      set (X := map (fun d => subk k d m) (block_delta k last chunk)).
      assert (HX : length X = length chunk)
        by (subst X; rewrite map_length, block_delta_length; reflexivity).
      assert (E1 : firstn (length chunk)
                     (map (fun d => subk k d m) (block_delta k last (pad_to bs 0 chunk))) = X).
      { unfold pad_to. rewrite block_delta_app, map_app. fold X. rewrite <- HX. apply firstn_app_exact. }
      rewrite E1. unfold pad_to. rewrite firstn_app, HX.
      rewrite (firstn_all2 X) by lia.
      destruct (Nat.eq_dec (length chunk) bs) as [E|E].
      - rewrite E, Nat.sub_diag. cbn [repeat]. rewrite firstn_nil. apply app_nil_r.
      - rewrite (Hshort ltac:(lia)), Nat.sub_diag. cbn [firstn]. apply app_nil_r. }
    rewrite Ef, recon_deltas by assumption. cbn [fst snd].
    f_equal. f_equal. f_equal. f_equal.
    rewrite Hcbl, <- bs_eq. lia.
Qed.

(** * the whole stream *)

Lemma last_lt k (l : list N) d : d < 2 ^ k -> Forall (fun v => v < 2 ^ k) l -> List.last l d < 2 ^ k.
Proof.
  intros Hd H. induction H as [|v r Hv Hr IH]; [exact Hd|].
  cbn [List.last]. destruct r; [exact Hv|exact IH].
Qed.

Lemma last_firstn_skipn {A} n (l : list A) d :
  List.last (skipn n l) (List.last (firstn n l) d) = List.last l d.
Proof.
  rewrite <- (firstn_skipn n l) at 3. rewrite last_app_default. reflexivity.
Qed.

Lemma dec_blocks_ok bs nmb vpm (Hg : geom bs nmb vpm) k (Hk : k = 32 \/ k = 64) : forall fuel rest_vals last tail,
  (length rest_vals <= fuel)%nat ->
  last < 2 ^ k -> Forall (fun v => v < 2 ^ k) rest_vals ->
  dec_blocks fuel k vpm nmb
    (enc_blocks_g bs nmb vpm fuel k last rest_vals ++ tail) (length rest_vals) last
  = Some (rest_vals, tail).
Proof.
  induction fuel as [|f IH]; intros vals last tail Hfuel Hlast Hvals.
  - destruct vals; [reflexivity|cbn in Hfuel; lia].
  - cbn [enc_blocks_g dec_blocks].
    destruct vals as [|v vals'] eqn:Ev; [reflexivity|].
    rewrite <- Ev in *. assert (Hne : (0 < length vals)%nat) by (subst vals; cbn; lia).
    clear Ev v vals'.
    destruct (Nat.eqb_spec (length vals) 0) as [E|_]; [lia|].
    set (chunk := firstn bs vals).
    assert (Hcl : length chunk = Nat.min bs (length vals)) by (subst chunk; apply firstn_length).
    pose proof (geom_bs_pos _ _ _ Hg) as Hbp.
    assert (Hchunk : Forall (fun v => v < 2 ^ k) chunk) by (subst chunk; apply Forall_firstn; exact Hvals).
    destruct (dec_block_ok bs nmb vpm Hg k Hk last chunk (length vals)
                (enc_blocks_g bs nmb vpm f k (List.last chunk last) (skipn bs vals) ++ tail)
                Hlast Hchunk ltac:(lia) ltac:(lia) ltac:(lia)) as (m & Hm & Hvd & Hmb).
    rewrite <- app_assoc, Hvd.
    assert (Hwl : length (map width_of (chunks nmb vpm (cleared_block bs k last chunk))) = nmb).
    { rewrite map_length.
      assert (Hcbl : length (cleared_block bs k last chunk) = (nmb * vpm)%nat).
      { unfold cleared_block. rewrite pad_to_length; [exact (proj1 Hg)|]. rewrite firstn_length. lia. }
      destruct (chunks_exact vpm (proj1 (proj2 (proj2 Hg))) nmb _ Hcbl) as (_ & _ & Hl). exact Hl. }
    rewrite <- Hwl at 1. rewrite take_bytes_app.
    rewrite wrapZ_sintZ by (destruct Hk; subst; lia || exact Hm).
    rewrite Hmb.
    replace (length vals - length chunk)%nat with (length (skipn bs vals))
      by (rewrite skipn_length; lia).
    rewrite IH.
    + f_equal. f_equal. subst chunk. apply firstn_skipn.
    + rewrite skipn_length. lia.
    + apply last_lt; assumption.
    + apply Forall_skipn. exact Hvals.
Qed.

(** * top level *)

Lemma wrapZ_all k xs : Forall (fun v => v < 2 ^ k) (map (wrapZ k) xs).
Proof. apply Forall_forall. intros v Hv. apply in_map_iff in Hv. destruct Hv as (z & <- & _). apply wrapZ_lt. Qed.

Lemma enc_blocks_fuel bs nmb vpm (Hbp : (0 < bs)%nat) k : forall f1 f2 last vals,
  (length vals <= f1)%nat -> (length vals <= f2)%nat ->
  enc_blocks_g bs nmb vpm f1 k last vals = enc_blocks_g bs nmb vpm f2 k last vals.
Proof.
  induction f1 as [|f1 IHf]; intros f2 last vals H1 H2.
  - destruct vals; [destruct f2; reflexivity|cbn in H1; lia].
  - destruct f2 as [|f2]; [destruct vals; [reflexivity|cbn in H2; lia]|].
    cbn [enc_blocks_g]. destruct vals as [|v vals'] eqn:Ev; [reflexivity|].
    rewrite <- Ev in *. f_equal. apply IHf.
    + rewrite skipn_length. subst vals. cbn [length] in *. lia.
    + rewrite skipn_length. subst vals. cbn [length] in *. lia.
Qed.

Lemma legal_vpm_eq bs nmb : (0 < nmb)%nat ->
  N.to_nat (N.of_nat bs / N.of_nat nmb) = (bs / nmb)%nat.
Proof. intros Hn. rewrite <- Nat2N.inj_div. apply Nat2N.id. Qed.

Lemma legal_nmb_small bs nmb : legal_geometry bs nmb -> N.of_nat nmb < 2 ^ 64.
Proof.
  intros (Hn & He & Hv & _ & Hs).
  set (q := (bs / nmb)%nat) in *.
  assert ((nmb <= bs)%nat) by (rewrite He; destruct q; [lia|rewrite Nat.mul_succ_r; lia]). lia.
Qed.

(** the specification decoder inverts the encoder at EVERY legal geometry *)
Theorem dec_enc_g bs nmb (Hl : legal_geometry bs nmb) k (Hk : k = 32 \/ k = 64) xs tail :
  Forall (in_sint k) xs -> N.of_nat (length xs) < 2 ^ 64 ->
  dec k (enc_g bs nmb k xs ++ tail) = Some (xs, tail).
Proof.
  intros Hxs Hlen. unfold enc_g, dec.
  pose proof (legal_geom _ _ Hl) as Hg.
  pose proof (geom_bs_pos _ _ _ Hg) as Hbp.
  assert (Hkpos : 0 < k) by (destruct Hk; subst; lia).
  rewrite <- !app_assoc.
  rewrite uvarint64_roundtrip by (apply Hl).
  rewrite uvarint64_roundtrip by (apply (legal_nmb_small _ _ Hl)).
  rewrite uvarint64_roundtrip by exact Hlen.
  destruct xs as [|x xs'].
  - rewrite varint64_roundtrip by (unfold in_sint; cbn; lia).
    cbn [length N.of_nat N.eqb map app]. reflexivity.
  - inversion Hxs as [|? ? Hx Hxs']; subst.
    rewrite varint64_roundtrip by (apply (in_sint_64_of_k k _ Hk); exact Hx).
    destruct (N.eqb_spec (N.of_nat (length (x :: xs'))) 0) as [E|_]; [cbn in E; lia|].
    destruct (N.eqb_spec (N.of_nat nmb) 0) as [E|_]; [destruct Hl; lia|].
    rewrite legal_vpm_eq by (apply Hl). rewrite !Nat2N.id.
    cbn [map length].
    replace (S (length xs') - 1)%nat with (length (map (wrapZ k) xs')) by (rewrite map_length; lia).
    pose proof (dec_blocks_ok bs nmb (bs / nmb) Hg k Hk (S (length xs')) (map (wrapZ k) xs') (wrapZ k x) tail) as H.
    (* enc uses fuel = length rest; dec uses fuel = total: align the fuels *)
    rewrite (enc_blocks_fuel bs nmb (bs / nmb) Hbp k (length (map (wrapZ k) xs')) (S (length xs')) (wrapZ k x) (map (wrapZ k) xs'))
      by (rewrite map_length; lia).
    rewrite H.
    + f_equal. f_equal. cbn [map]. f_equal.
      * apply sintZ_wrapZ; assumption.
      * rewrite map_map. rewrite <- (map_id xs') at 2. apply map_ext_in.
        intros z Hz. apply sintZ_wrapZ; [assumption|].
        rewrite Forall_forall in Hxs'. now apply Hxs'.
    + rewrite map_length. lia.
    + apply wrapZ_lt.
    + apply wrapZ_all.
Qed.

(** Go's geometry *)
Theorem dec_enc k (Hk : k = 32 \/ k = 64) xs tail :
  Forall (in_sint k) xs -> N.of_nat (length xs) < 2 ^ 64 ->
  dec k (enc k xs ++ tail) = Some (xs, tail).
Proof. exact (dec_enc_g block_size num_mini_blocks go_geometry_legal k Hk xs tail). Qed.
