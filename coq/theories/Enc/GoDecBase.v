(** Primitives shared by the models of the GO DECODERS (Enc/GoDecRle.v,
    Enc/GoDecDelta.v): the result type, encoding/binary's Uvarint / Varint and
    the portable bit unpacking of github.com/parquet-go/bitpack.

    The decoders of Enc/Rle.v, Enc/DeltaBP.v, Enc/ByteArrayDelta.v are written
    from the format specification; the functions here and in GoDec*.v mirror
    what the Go code does, statement by statement, malformed input included.
    A Go decoder either returns values and a nil error ([GOk]), returns an
    error ([GErr]) or panics ([GPanic]).  Slices are modelled by lists, i.e.
    [cap(src) = len(src)]: a slice expression reaching beyond [len(src)] is a
    panic (with spare capacity Go would read whatever follows the slice).
    No proofs here (Enc/GoDec*Proofs.v). *)
From Coq Require Import List NArith ZArith Lia Bool Arith.
From PQ Require Import Base.Bytes Base.Varint Base.BitPack.
Import ListNotations.
Open Scope N_scope.

Inductive gres (A : Type) : Type :=
| GOk (x : A)
| GErr
| GPanic.
Arguments GOk {A} x.
Arguments GErr {A}.
Arguments GPanic {A}.

Definition gbind {A B} (r : gres A) (f : A -> gres B) : gres B :=
  match r with
  | GOk x => f x
  | GErr => GErr
  | GPanic => GPanic
  end.

(** status of a result, for the differential runs: 0 ok, 1 error, 2 panic *)
Definition gstatus {A} (r : gres A) : N :=
  match r with GOk _ => 0 | GErr => 1 | GPanic => 2 end.

(** encoding/binary.Uvarint:

      for i, b := range buf {
        if i == MaxVarintLen64 { return 0, -(i + 1) }            // overflow
        if b < 0x80 {
          if i == MaxVarintLen64-1 && b > 1 { return 0, -(i + 1) } // overflow
          return x | uint64(b)<<s, i + 1
        }
        x |= uint64(b&0x7f) << s ; s += 7
      }
      return 0, 0

    [fuel] = MaxVarintLen64 - i.  Both failures (n == 0: input exhausted,
    n < 0: more than 64 bits) are errors for every caller: [None]. *)
Fixpoint go_uvarint_aux (fuel : nat) (l : bytes) (shift acc : N) : option (N * bytes) :=
  match fuel with
  | O => None
  | S f =>
      match l with
      | [] => None
      | b :: r =>
          if b <? 128 then
            if (f =? 0)%nat && (1 <? b) then None
            else Some (acc + b * 2 ^ shift, r)
          else go_uvarint_aux f r (shift + 7) (acc + (b - 128) * 2 ^ shift)
      end
  end.

Definition go_uvarint (l : bytes) : option (N * bytes) := go_uvarint_aux 10 l 0 0.

(** binary.Varint: x := int64(ux >> 1); if ux&1 != 0 { x = ^x } *)
Definition go_varint (l : bytes) : option (Z * bytes) :=
  match go_uvarint l with
  | Some (n, r) => Some (unzigzag n, r)
  | None => None
  end.

(** int(u) for a uint64 [u] (two's complement reinterpretation) *)
Definition to_int64 (u : N) : Z :=
  if u <? 2 ^ 63 then Z.of_N u else (Z.of_N u - 2 ^ 64)%Z.

(** bitpack.Unpack, portable version (unpack_int32_purego.go /
    unpack_int64_purego.go): value [i] is the field of [w] bits at bit offset
    [i*w] of the little-endian bit stream, truncated to the [tw] bits of the
    destination type ([w] > [tw] happens on malformed input only; the code
    reads the low [tw] bits of the field).  [x] is the stream as a number. *)
Fixpoint go_unpack (tw w : N) (n : nat) (x : N) : list N :=
  match n with
  | O => []
  | S m => ((x mod 2 ^ w) mod 2 ^ tw) :: go_unpack tw w m (x / 2 ^ w)
  end.

(** The same values computed 8 at a time: 8 values of [w] bits are exactly [w]
    bytes, so value [8*g + j] is field [j] of the bytes [w*g .. w*g+w-1]
    (bytes beyond the end of [src] count as zeros).  This is how the models
    evaluate an unpack of [8*groups] values: the numbers stay small. *)
Fixpoint go_unpack_chunks (tw w : N) (groups : nat) (src : bytes) : list N :=
  match groups with
  | O => []
  | S g =>
      go_unpack tw w 8 (of_le (firstn (N.to_nat w) src))
        ++ go_unpack_chunks tw w g (skipn (N.to_nat w) src)
  end.

(** [l[:n]] and [l[n:]] for an [n] already known to be at most [len(l)]; the
    comparison is made on [N] so that a huge count read from a malformed
    stream is never converted to a unary number. *)
Definition fits_len (n : N) (l : bytes) : bool := n <=? N.of_nat (length l).

Definition max_int32 : N := 2147483647.
