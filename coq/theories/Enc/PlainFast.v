(** BYTE_STREAM_SPLIT decoder of Enc/Plain.v in linear time once extracted:
    the input is cut into its [k] streams, which are then consumed in step,
    instead of indexing the input once per byte.  Same result
    (Enc/PlainFastProofs.v: [bss_dec_fast_eq]); this is the function the oracle
    runs.  No proofs here. *)
From Coq Require Import List NArith Arith.
From PQ Require Import Base.Bytes.
Import ListNotations.
Open Scope N_scope.

Fixpoint bss_streams (k n : nat) (b : bytes) : list bytes :=
  match k with
  | O => []
  | S k' => firstn n b :: bss_streams k' n (skipn n b)
  end.

Fixpoint bss_zip (n : nat) (ss : list bytes) : list bytes :=
  match n with
  | O => []
  | S m => map (fun s => hd 0 s) ss :: bss_zip m (map (@tl N) ss)
  end.

Definition bss_dec_fast (k : nat) (b : bytes) : option (list bytes) :=
  if (k =? 0)%nat then None
  else if (length b mod k =? 0)%nat then
    let n := (length b / k)%nat in
    Some (bss_zip n (bss_streams k n b))
  else None.
