(** Models of the GO DECODERS of the RLE / bit-packed hybrid
    (/repo/encoding/rle/rle.go: decodeBytes, decodeInt32, decodeBits and the
    Decode* methods calling them; portable kernels decodeBytesBitpackDefault
    and bitpack's unpack_int32_purego.go).  Control flow of the Go code, one
    loop iteration per run; [fuel] bounds the number of iterations by the
    number of input bytes (every iteration consumes at least the header).
    No proofs here (Enc/GoDecRleProofs.v). *)
From Coq Require Import List NArith ZArith Lia Bool Arith.
From PQ Require Import Base.Bytes Base.Varint Base.BitPack Enc.GoDecBase.
Import ListNotations.
Open Scope N_scope.

(** maxSupportedValueCount = math.MaxInt32 *)
Definition max_count : N := max_int32.

(** decodeBytesBitpackDefault(dst, src, count, bitWidth): per group of 8
    values, [byteCount = ByteCount(8*bitWidth) = bitWidth] bytes are copied
    into an 8-byte word; value k is [byte((word >> (k*bitWidth)) & bitMask)]. *)
Fixpoint go_unpack_groups (w : N) (groups : nat) (src : bytes) : list N :=
  match groups with
  | O => []
  | S g =>
      go_unpack 8 w 8 (of_le (firstn (N.to_nat w) src))
        ++ go_unpack_groups w g (skipn (N.to_nat w) src)
  end.

(** decodeBytes(dst, src, bitWidth), the loop [for i := 0; i < len(src); ].
    [src] is [src[i:]]. *)
Fixpoint go_decode_bytes (fuel : nat) (w : N) (src : bytes) : gres (list N) :=
  match fuel with
  | O => match src with [] => GOk [] | _ => GErr end     (* not reached: fuel = len(src) *)
  | S f =>
      match src with
      | [] => GOk []
      | _ =>
          match go_uvarint src with
          | None => GErr                                  (* n == 0 or n < 0 *)
          | Some (u, r) =>
              let count := u / 2 in                       (* uint(u>>1) *)
              if count =? 0 then go_decode_bytes f w r    (* continue *)
              else if max_count <? count then GErr
              else if N.odd u then
                (* count *= 8; j := i + ByteCount(count*bitWidth); if j > len(src) error *)
                let nb := (count * 8 * w + 7) / 8 in
                if negb (fits_len nb r) then GErr
                else
                  let n := N.to_nat nb in
                  gbind (go_decode_bytes f w (skipn n r))
                        (fun rest => GOk (go_unpack_groups w (N.to_nat count) (firstn n r) ++ rest))
              else
                (* if bitWidth != 0 && (i+1) > len(src) error *)
                if negb (w =? 0) && negb (fits_len 1 r) then GErr
                else
                  let word := if w =? 0 then 0 else hd 0 r in
                  let r' := if w =? 0 then r else tl r in
                  gbind (go_decode_bytes f w r')
                        (fun rest => GOk (repeat word (N.to_nat count) ++ rest))
          end
      end
  end.

(** Encoding.DecodeLevels *)
Definition go_decode_levels (w : N) (src : bytes) : gres (list N) :=
  if 8 <? w then GErr else go_decode_bytes (length src) w src.

(** decodeInt32(dst, src, bitWidth); values are 32-bit patterns.

    Bit-packed run: [length := int(count * bitWidth)], the destination is
    resized, then [in := src[i : i+length]] WITHOUT a length check: a panic
    when the run is longer than what is left (with spare capacity behind
    [src], Go decodes the bytes found there).  [bitpack.Unpack] then decodes
    [8*count] values from [in] (padded; the padding is never part of a value).
    Run-length run: [j := i + ByteCount(bitWidth)] is checked; the value is
    read little-endian from [src[i:j]] into 4 bytes. *)
Fixpoint go_decode_int32 (fuel : nat) (w : N) (src : bytes) : gres (list N) :=
  match fuel with
  | O => match src with [] => GOk [] | _ => GErr end
  | S f =>
      match src with
      | [] => GOk []
      | _ =>
          match go_uvarint src with
          | None => GErr
          | Some (u, r) =>
              let count := u / 2 in
              if count =? 0 then go_decode_int32 f w r
              else if max_count <? count then GErr
              else if N.odd u then
                let nb := count * w in
                if negb (fits_len nb r) then GPanic
                else
                  let n := N.to_nat nb in
                  gbind (go_decode_int32 f w (skipn n r))
                        (fun rest => GOk (go_unpack 32 w (8 * N.to_nat count) (of_le (firstn n r)) ++ rest))
              else
                let nb := (w + 7) / 8 in
                if negb (fits_len nb r) then GErr
                else
                  let n := N.to_nat nb in
                  gbind (go_decode_int32 f w (skipn n r))
                        (fun rest => GOk (repeat (of_le (firstn n r)) (N.to_nat count) ++ rest))
          end
      end
  end.

(** Encoding.DecodeInt32 *)
Definition go_decode_int32_top (w : N) (src : bytes) : gres (list N) :=
  if 32 <? w then GErr else go_decode_int32 (length src) w src.

(** DictionaryEncoding.DecodeInt32: the first byte is the bit width *)
Definition go_decode_dict (src : bytes) : gres (list N) :=
  match src with
  | [] => GOk []
  | w :: r => go_decode_int32_top w r
  end.

(** decodeBits(dst, src): the destination holds PACKED booleans (8 per byte).
    A bit-packed run of [count] groups is a copy of [count] bytes.  A
    run-length run of [count] values appends [ByteCount(count)] whole bytes of
    0x00 / 0xFF: runs are placed at byte granularity (a run whose count is
    not a multiple of 8 misaligns everything after it -- Go's encoder never
    writes one, other writers do).  The repeated value is optional: when the
    input ends after the header the run is made of zeros. *)
Fixpoint go_decode_bits (fuel : nat) (src : bytes) : gres bytes :=
  match fuel with
  | O => match src with [] => GOk [] | _ => GErr end
  | S f =>
      match src with
      | [] => GOk []
      | _ =>
          match go_uvarint src with
          | None => GErr
          | Some (u, r) =>
              let count := u / 2 in
              if count =? 0 then go_decode_bits f r
              else if max_count <? count then GErr
              else if N.odd u then
                if negb (fits_len count r) then GErr
                else
                  let n := N.to_nat count in
                  gbind (go_decode_bits f (skipn n r)) (fun rest => GOk (firstn n r ++ rest))
              else
                let word := match r with
                            | [] => 0
                            | b :: _ => if N.odd b then 255 else 0
                            end in
                gbind (go_decode_bits f (tl r))
                      (fun rest => GOk (repeat word (N.to_nat ((count + 7) / 8)) ++ rest))
          end
      end
  end.

(** Encoding.DecodeBoolean: 4-byte little-endian length prefix *)
Definition go_decode_boolean (src : bytes) : gres bytes :=
  if (length src =? 4)%nat then GOk []
  else if (length src <? 4)%nat then GErr
  else
    let n := of_le (firstn 4 src) in
    let r := skipn 4 src in
    if negb (fits_len n r) then GErr
    else let body := firstn (N.to_nat n) r in go_decode_bits (length body) body.

(** * Size of what a decoder would allocate (used by the differential runs to
    skip hostile streams before handing them to Go or to the extracted
    decoders): the sum of the run lengths read by the same walk, counted
    before the run is checked against the input.  [kind]: 0 levels, 1 int32,
    2 bits.  [go_walk = true] walks like the Go decoders (empty runs have no
    value byte, counts above MaxInt32 stop the decoder before it allocates),
    [go_walk = false] like the specification decoder [Rle.dec_runs]. *)
Fixpoint rle_cost (fuel : nat) (go_walk : bool) (kind w : N) (src : bytes) : N :=
  match fuel with
  | O => 0
  | S f =>
      match src with
      | [] => 0
      | _ =>
          match (if go_walk then go_uvarint src else uvarint_dec src) with
          | None => 0
          | Some (u, r) =>
              let count := u / 2 in
              if go_walk && (count =? 0) then rle_cost f go_walk kind w r
              else if go_walk && (max_count <? count) then 0
              else
                let nb := if N.odd u then (if kind =? 2 then count else count * w)
                          else (if kind =? 2 then 1 else (w + 7) / 8) in
                (if N.odd u then 8 * count else count) +
                (if fits_len nb r then rle_cost f go_walk kind w (skipn (N.to_nat nb) r) else 0)
          end
      end
  end.

Definition go_rle_cost (kind w : N) (src : bytes) : N := rle_cost (length src) true kind w src.
Definition spec_rle_cost (kind w : N) (src : bytes) : N := rle_cost (length src) false kind w src.
