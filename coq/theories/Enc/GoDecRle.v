(** Models of the GO DECODERS of the RLE / bit-packed hybrid
    (/repo/encoding/rle/rle.go: decodeBytes, decodeInt32, decodeBits and the
    Decode* methods calling them; portable kernels decodeBytesBitpackDefault
    and bitpack's unpack_int32_purego.go).  Control flow of the Go code, one
    loop iteration per run; [fuel] bounds the number of iterations by the
    number of input bytes (every iteration consumes at least the header).
    The [pinned] flag selects the behaviour before the repairs 70434b6
    (decodeInt32) and 75827ad (decodeBits), kept for the [_refuted] witnesses.
    No proofs here (Enc/GoDecRleProofs.v). *)
From Coq Require Import List NArith ZArith Lia Bool Arith.
From PQ Require Import Base.Bytes Base.Varint Base.BitPack Enc.GoDecBase.
Import ListNotations.
Open Scope N_scope.

(** maxSupportedValueCount = math.MaxInt32 *)
Definition max_count : N := max_int32.

(** decodeBytesBitpackDefault(dst, src, count, bitWidth): per group of 8
    values, [byteCount = ByteCount(8*bitWidth) = bitWidth] bytes are copied
    into an 8-byte word; value k is [byte((word >> (k*bitWidth)) & bitMask)].
    At bit width 0 decodeBytes clears the destination instead (3bd17ac): the
    same zeros. *)
Definition go_unpack_groups (w : N) (groups : nat) (src : bytes) : list N :=
  go_unpack_chunks 8 w groups src.

(** decodeBytes(dst, src, bitWidth), the loop [for i := 0; i < len(src); ]:
    one iteration after the header [u] was read; [r] is [src[i:]] behind the
    header, [rec] the rest of the loop. *)
Definition go_bytes_run (rec : bytes -> gres (list N)) (w u : N) (r : bytes) : gres (list N) :=
  let count := u / 2 in                                   (* uint(u>>1) *)
  if count =? 0 then rec r                                (* continue *)
  else if max_count <? count then GErr
  else if N.odd u then
    (* count *= 8; j := i + ByteCount(count*bitWidth); if j > len(src) error *)
    let nb := (count * 8 * w + 7) / 8 in
    if negb (fits_len nb r) then GErr
    else
      let n := N.to_nat nb in
      gbind (rec (skipn n r))
            (fun rest => GOk (go_unpack_groups w (N.to_nat count) (firstn n r) ++ rest))
  else
    (* if bitWidth != 0 && (i+1) > len(src) error *)
    if negb (w =? 0) && negb (fits_len 1 r) then GErr
    else
      let word := if w =? 0 then 0 else hd 0 r in
      let r' := if w =? 0 then r else tl r in
      gbind (rec r') (fun rest => GOk (repeat word (N.to_nat count) ++ rest)).

Fixpoint go_decode_bytes (fuel : nat) (w : N) (src : bytes) : gres (list N) :=
  match fuel with
  | O => match src with [] => GOk [] | _ => GErr end     (* not reached: fuel = len(src) *)
  | S f =>
      match src with
      | [] => GOk []
      | _ =>
          match go_uvarint src with
          | None => GErr                                  (* n == 0 or n < 0 *)
          | Some (u, r) => go_bytes_run (go_decode_bytes f w) w u r
          end
      end
  end.

(** Encoding.DecodeLevels *)
Definition go_decode_levels (w : N) (src : bytes) : gres (list N) :=
  if 8 <? w then GErr else go_decode_bytes (length src) w src.

(** decodeInt32(dst, src, bitWidth); values are 32-bit patterns.

    Bit-packed run: [length := int(count * bitWidth)];
    [if length > len(src)-i] error (since 70434b6; before, [in := src[i :
    i+length]] was taken unchecked: a panic -- or, with spare capacity behind
    [src], a decode of whatever bytes are found there).  [bitpack.Unpack] then
    decodes [8*count] values from [in] (padded; the padding is never part of a
    value).  Run-length run: [j := i + ByteCount(bitWidth)] is checked; the
    value is read little-endian from [src[i:j]] into 4 bytes. *)
Definition go_int32_run (pinned : bool) (rec : bytes -> gres (list N)) (w u : N) (r : bytes)
  : gres (list N) :=
  let count := u / 2 in
  if count =? 0 then rec r
  else if max_count <? count then GErr
  else if N.odd u then
    let nb := count * w in
    if negb (fits_len nb r) then (if pinned then GPanic else GErr)
    else
      let n := N.to_nat nb in
      gbind (rec (skipn n r))
            (fun rest => GOk (go_unpack_chunks 32 w (N.to_nat count) (firstn n r) ++ rest))
  else
    let nb := (w + 7) / 8 in
    if negb (fits_len nb r) then GErr
    else
      let n := N.to_nat nb in
      gbind (rec (skipn n r))
            (fun rest => GOk (repeat (of_le (firstn n r)) (N.to_nat count) ++ rest)).

Fixpoint go_decode_int32 (pinned : bool) (fuel : nat) (w : N) (src : bytes) : gres (list N) :=
  match fuel with
  | O => match src with [] => GOk [] | _ => GErr end
  | S f =>
      match src with
      | [] => GOk []
      | _ =>
          match go_uvarint src with
          | None => GErr
          | Some (u, r) => go_int32_run pinned (go_decode_int32 pinned f w) w u r
          end
      end
  end.

(** Encoding.DecodeInt32 *)
Definition go_decode_int32_top (w : N) (src : bytes) : gres (list N) :=
  if 32 <? w then GErr else go_decode_int32 false (length src) w src.

Definition go_decode_int32_pinned (w : N) (src : bytes) : gres (list N) :=
  if 32 <? w then GErr else go_decode_int32 true (length src) w src.

(** DictionaryEncoding.DecodeInt32: the first byte is the bit width *)
Definition go_decode_dict (src : bytes) : gres (list N) :=
  match src with
  | [] => GOk []
  | w :: r => go_decode_int32_top w r
  end.

(** decodeBits(dst, src): the destination holds PACKED booleans (8 per byte);
    [bits] values have been written ([base] = 0: DecodeBoolean passes
    [dst[:0]]), [shift := bits % 8] is the position of the next value in the
    last byte.

    Bit-packed run of [count] groups = [count] bytes: appended as they are
    when [shift = 0]; otherwise [dst[last] &= 1<<shift - 1] and for each byte
    [b]: [dst[last] |= b << shift; dst = append(dst, b >> (8-shift)); last++].
    Run-length run of [count] values: the unfinished byte is completed with
    [(dst[offset-1] & mask) | (word &^ mask)], then [dst] is resized to
    [ByteCount(bits + count)] bytes and [dst[offset:]] filled with the word
    0x00 / 0xFF.  The repeated value is optional: when the input ends after
    the header the run is made of zeros. *)
Definition go_shl8 (b shift : N) : N := (b * 2 ^ shift) mod 256.   (* byte(b << shift) *)

Fixpoint go_append_shifted (shift : N) (init : bytes) (lastb : N) (blk : bytes) : bytes :=
  match blk with
  | [] => init ++ [lastb]
  | b :: r =>
      go_append_shifted shift (init ++ [N.lor lastb (go_shl8 b shift)]) (b / 2 ^ (8 - shift)) r
  end.

Definition go_bits_run (rec : bytes -> bytes -> N -> gres bytes) (u : N) (r dst : bytes) (bits : N)
  : gres bytes :=
  let count := u / 2 in
  if count =? 0 then rec r dst bits
  else if max_count <? count then GErr
  else
    let shift := bits mod 8 in
    if N.odd u then
      if negb (fits_len count r) then GErr
      else
        let n := N.to_nat count in
        let blk := firstn n r in
        let dst' :=
          if shift =? 0 then dst ++ blk
          else go_append_shifted shift (removelast dst) (last dst 0 mod 2 ^ shift) blk in
        rec (skipn n r) dst' (bits + 8 * count)
    else
      let word := match r with
                  | [] => 0
                  | b :: _ => if N.odd b then 255 else 0
                  end in
      let dst1 :=
        if shift =? 0 then dst
        else removelast dst
               ++ [N.lor (last dst 0 mod 2 ^ shift) (N.ldiff word (2 ^ shift - 1))] in
      let bits' := bits + count in
      let len' := N.to_nat ((bits' + 7) / 8) in
      rec (tl r) (dst1 ++ repeat word (len' - length dst1)) bits'.

Fixpoint go_decode_bits (fuel : nat) (src dst : bytes) (bits : N) : gres bytes :=
  match fuel with
  | O => match src with [] => GOk dst | _ => GErr end
  | S f =>
      match src with
      | [] => GOk dst
      | _ =>
          match go_uvarint src with
          | None => GErr
          | Some (u, r) => go_bits_run (go_decode_bits f) u r dst bits
          end
      end
  end.

(** the same before 75827ad: no bit position; a run-length run of [count]
    values appends [ByteCount(count)] whole bytes, so a run whose count is
    not a multiple of 8 misaligns everything after it *)
Fixpoint go_decode_bits_pinned (fuel : nat) (src : bytes) : gres bytes :=
  match fuel with
  | O => match src with [] => GOk [] | _ => GErr end
  | S f =>
      match src with
      | [] => GOk []
      | _ =>
          match go_uvarint src with
          | None => GErr
          | Some (u, r) =>
              let count := u / 2 in
              if count =? 0 then go_decode_bits_pinned f r
              else if max_count <? count then GErr
              else if N.odd u then
                if negb (fits_len count r) then GErr
                else
                  let n := N.to_nat count in
                  gbind (go_decode_bits_pinned f (skipn n r)) (fun rest => GOk (firstn n r ++ rest))
              else
                let word := match r with
                            | [] => 0
                            | b :: _ => if N.odd b then 255 else 0
                            end in
                gbind (go_decode_bits_pinned f (tl r))
                      (fun rest => GOk (repeat word (N.to_nat ((count + 7) / 8)) ++ rest))
          end
      end
  end.

(** Encoding.DecodeBoolean: 4-byte little-endian length prefix *)
Definition go_decode_boolean_with (dec : bytes -> gres bytes) (src : bytes) : gres bytes :=
  if (length src =? 4)%nat then GOk []
  else if (length src <? 4)%nat then GErr
  else
    let n := of_le (firstn 4 src) in
    let r := skipn 4 src in
    if negb (fits_len n r) then GErr
    else dec (firstn (N.to_nat n) r).

Definition go_decode_boolean : bytes -> gres bytes :=
  go_decode_boolean_with (fun body => go_decode_bits (length body) body [] 0).

Definition go_decode_boolean_pinned : bytes -> gres bytes :=
  go_decode_boolean_with (fun body => go_decode_bits_pinned (length body) body).

(** * Size of what a decoder would allocate (used by the differential runs to
    skip hostile streams before handing them to Go or to the extracted
    decoders): the sum of the run lengths read by the same walk, counted
    before the run is checked against the input.  [kind]: 0 levels, 1 int32,
    2 bits.  [go_walk = true] walks like the Go decoders (empty runs have no
    value byte, counts above MaxInt32 stop the decoder before it allocates),
    [go_walk = false] like the specification decoder [Rle.dec_runs]. *)
Fixpoint rle_cost (fuel : nat) (go_walk : bool) (kind w : N) (src : bytes) : N :=
  match fuel with
  | O => 0
  | S f =>
      match src with
      | [] => 0
      | _ =>
          match (if go_walk then go_uvarint src else uvarint_dec src) with
          | None => 0
          | Some (u, r) =>
              let count := u / 2 in
              if go_walk && (count =? 0) then rle_cost f go_walk kind w r
              else if go_walk && (max_count <? count) then 0
              else
                let nb := if N.odd u then (if kind =? 2 then count else count * w)
                          else (if kind =? 2 then 1 else (w + 7) / 8) in
                (if N.odd u then 8 * count else count) +
                (if fits_len nb r then rle_cost f go_walk kind w (skipn (N.to_nat nb) r) else 0)
          end
      end
  end.

(** does the walk meet a run header announcing zero values?  (Go's decoders
    skip such a header without reading a value; the format's grammar gives a
    run-length run its value even then: the two walks diverge from there) *)
Fixpoint rle_empty_run (fuel : nat) (go_walk : bool) (kind w : N) (src : bytes) : bool :=
  match fuel with
  | O => false
  | S f =>
      match src with
      | [] => false
      | _ =>
          match (if go_walk then go_uvarint src else uvarint_dec src) with
          | None => false
          | Some (u, r) =>
              let count := u / 2 in
              if count =? 0 then true
              else
                let nb := if N.odd u then (if kind =? 2 then count else count * w)
                          else (if kind =? 2 then 1 else (w + 7) / 8) in
                if fits_len nb r then rle_empty_run f go_walk kind w (skipn (N.to_nat nb) r) else false
          end
      end
  end.

Definition go_rle_empty_run (kind w : N) (src : bytes) : bool :=
  rle_empty_run (length src) true kind w src || rle_empty_run (length src) false kind w src.

Definition go_rle_cost (kind w : N) (src : bytes) : N := rle_cost (length src) true kind w src.
Definition spec_rle_cost (kind w : N) (src : bytes) : N := rle_cost (length src) false kind w src.
