(** [bss_dec_fast] = [bss_dec]. *)
From Coq Require Import List NArith Arith Lia.
From PQ Require Import Base.Bytes Enc.Plain Enc.PlainFast.
Import ListNotations.
Open Scope N_scope.

Lemma nth_skipn_add {A} (d : A) a : forall (l : list A) i, nth i (skipn a l) d = nth (a + i) l d.
Proof.
  induction a as [|a IH]; intros l i; [reflexivity|].
  destruct l as [|x l]; [cbn [skipn]; now destruct i|]. cbn [skipn Nat.add nth]. apply IH.
Qed.

Lemma nth_firstn_lt {A} (d : A) n : forall (l : list A) i, (i < n)%nat -> nth i (firstn n l) d = nth i l d.
Proof.
  induction n as [|n IH]; intros l i Hi; [lia|].
  destruct l as [|x l]; [reflexivity|]. destruct i as [|i]; [reflexivity|].
  cbn [firstn nth]. apply IH. lia.
Qed.

Lemma hd_skipn {A} (d : A) a (l : list A) : hd d (skipn a l) = nth a l d.
Proof. rewrite <- (Nat.add_0_r a) at 2. rewrite <- nth_skipn_add. now destruct (skipn a l). Qed.

Lemma tl_skipn {A} a : forall (l : list A), tl (skipn a l) = skipn (S a) l.
Proof.
  induction a as [|a IH]; intros l; [now destruct l|].
  destruct l as [|x l]; [reflexivity|]. cbn [skipn]. rewrite IH. reflexivity.
Qed.

Lemma bss_zip_from n ss : forall a,
  bss_zip n (map (skipn a) ss) = map (fun i => map (fun s => nth i s 0) ss) (seq a n).
Proof.
  induction n as [|n IH]; intros a; cbn [bss_zip seq map]; [reflexivity|].
  f_equal.
  - rewrite map_map. apply map_ext. intros s. apply hd_skipn.
  - rewrite map_map. rewrite <- IH. f_equal. apply map_ext. intros s. apply tl_skipn.
Qed.

Lemma bss_zip_spec n ss :
  bss_zip n ss = map (fun i => map (fun s => nth i s 0) ss) (seq 0 n).
Proof.
  rewrite <- bss_zip_from. f_equal. rewrite <- (map_id ss) at 1. apply map_ext. reflexivity.
Qed.

Lemma bss_streams_nth i n (Hi : (i < n)%nat) : forall k b,
  map (fun s => nth i s 0) (bss_streams k n b) = map (fun j => nth (j * n + i) b 0) (seq 0 k).
Proof.
  induction k as [|k IH]; intros b; cbn [bss_streams map seq]; [reflexivity|].
  f_equal; [now apply nth_firstn_lt|].
  rewrite IH, <- seq_shift, map_map. apply map_ext. intros j.
  rewrite nth_skipn_add. f_equal. lia.
Qed.

Theorem bss_dec_fast_eq k b : bss_dec_fast k b = bss_dec k b.
Proof.
  unfold bss_dec_fast, bss_dec.
  destruct (k =? 0)%nat; [reflexivity|].
  destruct (length b mod k =? 0)%nat; [|reflexivity].
  f_equal. rewrite bss_zip_spec. apply map_ext_in. intros i Hi.
  apply in_seq in Hi. apply bss_streams_nth. lia.
Qed.
