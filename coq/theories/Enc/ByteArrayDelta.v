(** DELTA_LENGTH_BYTE_ARRAY and DELTA_BYTE_ARRAY (encoding/delta).
    Values are byte strings.  Lengths go through DELTA_BINARY_PACKED (int32).
    No proofs here. *)
From Coq Require Import List NArith ZArith Lia Bool Arith.
From PQ Require Import Base.Bytes Enc.DeltaBP.
Import ListNotations.
Open Scope N_scope.

Definition lengths_of (vs : list bytes) : list Z := map (fun v => Z.of_nat (length v)) vs.

(** DELTA_LENGTH_BYTE_ARRAY: lengths, then all the bytes *)
Definition dlba_enc (vs : list bytes) : bytes := DeltaBP.enc 32 (lengths_of vs) ++ concat vs.

(** ... with the lengths written at any geometry [bs] / [nmb] of
    DELTA_BINARY_PACKED ([dlba_enc] = [dlba_enc_g 128 4]) *)
Definition dlba_enc_g (bs nmb : nat) (vs : list bytes) : bytes :=
  DeltaBP.enc_g bs nmb 32 (lengths_of vs) ++ concat vs.

(* cut [b] according to the lengths; extra bytes are ignored *)
Fixpoint cut (lens : list Z) (b : bytes) : option (list bytes) :=
  match lens with
  | [] => Some []
  | n :: r =>
      if (n <? 0)%Z then None
      else if (length b <? Z.to_nat n)%nat then None
      else match cut r (skipn (Z.to_nat n) b) with
           | Some vs => Some (firstn (Z.to_nat n) b :: vs)
           | None => None
           end
  end.

Definition dlba_dec (b : bytes) : option (list bytes) :=
  match DeltaBP.dec 32 b with
  | Some (lens, rest) => cut lens rest
  | None => None
  end.

(** DELTA_BYTE_ARRAY: prefix lengths (longest common prefix with the previous
    value), suffix lengths, suffixes *)
Fixpoint lcp (a b : bytes) : nat :=
  match a, b with
  | x :: a', y :: b' => if x =? y then S (lcp a' b') else O
  | _, _ => O
  end.

Fixpoint prefixes (prev : bytes) (vs : list bytes) : list nat :=
  match vs with
  | [] => []
  | v :: r => lcp prev v :: prefixes v r
  end.

Fixpoint suffixes (prev : bytes) (vs : list bytes) : list bytes :=
  match vs with
  | [] => []
  | v :: r => skipn (lcp prev v) v :: suffixes v r
  end.

Definition dba_enc (vs : list bytes) : bytes :=
  DeltaBP.enc 32 (map Z.of_nat (prefixes [] vs))
    ++ DeltaBP.enc 32 (lengths_of (suffixes [] vs))
    ++ concat (suffixes [] vs).

(** A conforming writer may share less than the longest common prefix (none
    at all, or at most [cap] bytes), and choose the geometry of the two
    DELTA_BINARY_PACKED sections independently. *)
Fixpoint prefixes_c (cap : nat) (prev : bytes) (vs : list bytes) : list nat :=
  match vs with
  | [] => []
  | v :: r => Nat.min cap (lcp prev v) :: prefixes_c cap v r
  end.

Fixpoint suffixes_c (cap : nat) (prev : bytes) (vs : list bytes) : list bytes :=
  match vs with
  | [] => []
  | v :: r => skipn (Nat.min cap (lcp prev v)) v :: suffixes_c cap v r
  end.

Definition dba_enc_g (cap bs1 nmb1 bs2 nmb2 : nat) (vs : list bytes) : bytes :=
  DeltaBP.enc_g bs1 nmb1 32 (map Z.of_nat (prefixes_c cap [] vs))
    ++ DeltaBP.enc_g bs2 nmb2 32 (lengths_of (suffixes_c cap [] vs))
    ++ concat (suffixes_c cap [] vs).

Fixpoint dba_rebuild (prev : bytes) (ps : list Z) (sufs : list bytes) : option (list bytes) :=
  match ps, sufs with
  | [], [] => Some []
  | p :: ps', s :: sufs' =>
      if (p <? 0)%Z then None
      else if (length prev <? Z.to_nat p)%nat then None
      else
        let v := firstn (Z.to_nat p) prev ++ s in
        match dba_rebuild v ps' sufs' with
        | Some vs => Some (v :: vs)
        | None => None
        end
  | _, _ => None
  end.

Definition dba_dec (b : bytes) : option (list bytes) :=
  match DeltaBP.dec 32 b with
  | None => None
  | Some (ps, b1) =>
      match DeltaBP.dec 32 b1 with
      | None => None
      | Some (ls, b2) =>
          match cut ls b2 with
          | None => None
          | Some sufs => dba_rebuild [] ps sufs
          end
      end
  end.
