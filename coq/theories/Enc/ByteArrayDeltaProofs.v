(** Round trips of DELTA_LENGTH_BYTE_ARRAY and DELTA_BYTE_ARRAY. *)
From Coq Require Import List NArith ZArith Lia Bool Arith.
From Coq Require Import ZifyN ZifyNat ZifyBool.
From PQ Require Import Base.Bytes Base.ListExtra Enc.DeltaBP Enc.DeltaBPProofs Enc.ByteArrayDelta.
Import ListNotations.
Open Scope N_scope.

Definition short (v : bytes) : Prop := (Z.of_nat (length v) < 2 ^ 31)%Z.

Lemma lengths_in_range vs : Forall short vs -> Forall (in_sint 32) (lengths_of vs).
Proof.
  intros H. unfold lengths_of. apply Forall_forall. intros z Hz.
  apply in_map_iff in Hz. destruct Hz as (v & <- & Hv).
  rewrite Forall_forall in H. specialize (H v Hv). unfold short in H. unfold in_sint. cbn. lia.
Qed.

Lemma cut_concat vs tail : cut (lengths_of vs) (concat vs ++ tail) = Some vs.
Proof.
  induction vs as [|v vs IH]; cbn [lengths_of map concat cut]; [reflexivity|].
  destruct (Z.ltb_spec (Z.of_nat (length v)) 0); [lia|].
  rewrite Nat2Z.id, <- app_assoc, app_length.
  destruct (Nat.ltb_spec (length v + length (concat vs ++ tail)) (length v)); [lia|].
  rewrite firstn_app_exact, skipn_app_exact.
  unfold lengths_of in IH. now rewrite IH.
Qed.

Theorem dlba_roundtrip vs :
  Forall short vs -> N.of_nat (length vs) < 2 ^ 64 ->
  dlba_dec (dlba_enc vs) = Some vs.
Proof.
  intros Hs Hl. unfold dlba_dec, dlba_enc.
  rewrite (dec_enc 32 (or_introl eq_refl)).
  - rewrite <- (app_nil_r (concat vs)). apply cut_concat.
  - now apply lengths_in_range.
  - unfold lengths_of. now rewrite map_length.
Qed.

Theorem dlba_roundtrip_g bs nmb vs :
  legal_geometry bs nmb -> Forall short vs -> N.of_nat (length vs) < 2 ^ 64 ->
  dlba_dec (dlba_enc_g bs nmb vs) = Some vs.
Proof.
  intros Hg Hs Hl. unfold dlba_dec, dlba_enc_g.
  rewrite (dec_enc_g bs nmb Hg 32 (or_introl eq_refl)).
  - rewrite <- (app_nil_r (concat vs)). apply cut_concat.
  - now apply lengths_in_range.
  - unfold lengths_of. now rewrite map_length.
Qed.

Lemma lcp_le a : forall b, (lcp a b <= length a)%nat /\ (lcp a b <= length b)%nat.
Proof.
  induction a as [|x a IH]; intros [|y b]; cbn [lcp length]; try lia.
  destruct (x =? y); [specialize (IH b); lia|lia].
Qed.

Lemma lcp_prefix a : forall b, firstn (lcp a b) a = firstn (lcp a b) b.
Proof.
  induction a as [|x a IH]; intros [|y b]; cbn [lcp firstn]; try reflexivity.
  destruct (N.eqb_spec x y) as [->|_]; [|reflexivity]. cbn [firstn]. now rewrite IH.
Qed.

Lemma prefixes_length vs : forall prev, length (prefixes prev vs) = length vs.
Proof. induction vs as [|v r IH]; intros prev; cbn [prefixes length]; [reflexivity|]. now rewrite IH. Qed.

Lemma suffixes_length vs : forall prev, length (suffixes prev vs) = length vs.
Proof. induction vs as [|v r IH]; intros prev; cbn [suffixes length]; [reflexivity|]. now rewrite IH. Qed.

Lemma dba_rebuild_ok vs : forall prev,
  dba_rebuild prev (map Z.of_nat (prefixes prev vs)) (suffixes prev vs) = Some vs.
Proof.
  induction vs as [|v r IH]; intros prev; cbn [prefixes suffixes map dba_rebuild]; [reflexivity|].
  destruct (Z.ltb_spec (Z.of_nat (lcp prev v)) 0); [lia|].
  rewrite Nat2Z.id. destruct (lcp_le prev v) as [H1 H2].
  destruct (Nat.ltb_spec (length prev) (lcp prev v)); [lia|].
  rewrite lcp_prefix, firstn_skipn, IH. reflexivity.
Qed.

Lemma suffixes_short vs : forall prev, Forall short vs -> Forall short (suffixes prev vs).
Proof.
  induction vs as [|v r IH]; intros prev H; cbn [suffixes]; constructor.
  - inversion H; subst. unfold short in *. rewrite skipn_length. lia.
  - inversion H; subst. now apply IH.
Qed.

Lemma prefixes_in_range vs : forall prev, Forall short vs ->
  Forall (in_sint 32) (map Z.of_nat (prefixes prev vs)).
Proof.
  induction vs as [|v r IH]; intros prev H; cbn [prefixes map]; constructor.
  - inversion H; subst. destruct (lcp_le prev v). unfold short in *. unfold in_sint. cbn. lia.
  - inversion H; subst. now apply IH.
Qed.

Theorem dba_roundtrip vs :
  Forall short vs -> N.of_nat (length vs) < 2 ^ 64 ->
  dba_dec (dba_enc vs) = Some vs.
Proof.
  intros Hs Hl. unfold dba_dec, dba_enc.
  rewrite (dec_enc 32 (or_introl eq_refl)).
  - rewrite (dec_enc 32 (or_introl eq_refl)).
    + rewrite <- (app_nil_r (concat _)), cut_concat. apply dba_rebuild_ok.
    + apply lengths_in_range. now apply suffixes_short.
    + unfold lengths_of. now rewrite map_length, suffixes_length.
  - now apply prefixes_in_range.
  - now rewrite map_length, prefixes_length.
Qed.

(** ... at any geometry of the two sections and with prefixes capped at any
    length (a conforming writer need not share the longest common prefix) *)
Lemma prefixes_c_length cap vs : forall prev, length (prefixes_c cap prev vs) = length vs.
Proof. induction vs as [|v r IH]; intros prev; cbn [prefixes_c length]; [reflexivity|]. now rewrite IH. Qed.

Lemma suffixes_c_length cap vs : forall prev, length (suffixes_c cap prev vs) = length vs.
Proof. induction vs as [|v r IH]; intros prev; cbn [suffixes_c length]; [reflexivity|]. now rewrite IH. Qed.

Lemma capped_prefix cap a b :
  firstn (Nat.min cap (lcp a b)) a = firstn (Nat.min cap (lcp a b)) b.
Proof.
  pose proof (lcp_prefix a b) as H.
  rewrite <- (Nat.min_id (Nat.min cap (lcp a b))) at 1 2.
  replace (Nat.min (Nat.min cap (lcp a b)) (Nat.min cap (lcp a b)))
    with (Nat.min (Nat.min cap (lcp a b)) (lcp a b)) by lia.
  rewrite <- !firstn_firstn. now rewrite H.
Qed.

Lemma dba_rebuild_c_ok cap vs : forall prev,
  dba_rebuild prev (map Z.of_nat (prefixes_c cap prev vs)) (suffixes_c cap prev vs) = Some vs.
Proof.
  induction vs as [|v r IH]; intros prev; cbn [prefixes_c suffixes_c map dba_rebuild]; [reflexivity|].
  destruct (Z.ltb_spec (Z.of_nat (Nat.min cap (lcp prev v))) 0); [lia|].
  rewrite Nat2Z.id. destruct (lcp_le prev v) as [H1 H2].
  destruct (Nat.ltb_spec (length prev) (Nat.min cap (lcp prev v))); [lia|].
  rewrite capped_prefix, firstn_skipn, IH. reflexivity.
Qed.

Lemma suffixes_c_short cap vs : forall prev, Forall short vs -> Forall short (suffixes_c cap prev vs).
Proof.
  induction vs as [|v r IH]; intros prev H; cbn [suffixes_c]; constructor.
  - inversion H; subst. unfold short in *. rewrite skipn_length. lia.
  - inversion H; subst. now apply IH.
Qed.

Lemma prefixes_c_in_range cap vs : forall prev, Forall short vs ->
  Forall (in_sint 32) (map Z.of_nat (prefixes_c cap prev vs)).
Proof.
  induction vs as [|v r IH]; intros prev H; cbn [prefixes_c map]; constructor.
  - inversion H; subst. destruct (lcp_le prev v). unfold short in *. unfold in_sint. cbn. lia.
  - inversion H; subst. now apply IH.
Qed.

Theorem dba_roundtrip_g cap bs1 nmb1 bs2 nmb2 vs :
  legal_geometry bs1 nmb1 -> legal_geometry bs2 nmb2 ->
  Forall short vs -> N.of_nat (length vs) < 2 ^ 64 ->
  dba_dec (dba_enc_g cap bs1 nmb1 bs2 nmb2 vs) = Some vs.
Proof.
  intros Hg1 Hg2 Hs Hl. unfold dba_dec, dba_enc_g.
  rewrite (dec_enc_g bs1 nmb1 Hg1 32 (or_introl eq_refl)).
  - rewrite (dec_enc_g bs2 nmb2 Hg2 32 (or_introl eq_refl)).
    + rewrite <- (app_nil_r (concat _)), cut_concat. apply dba_rebuild_c_ok.
    + apply lengths_in_range. now apply suffixes_c_short.
    + unfold lengths_of. now rewrite map_length, suffixes_c_length.
  - now apply prefixes_c_in_range.
  - now rewrite map_length, prefixes_c_length.
Qed.
