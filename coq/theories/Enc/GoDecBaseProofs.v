(** Facts about the primitives of the Go-decoder models (Enc/GoDecBase.v):
    Go's Uvarint accepts a subset of what the format's ULEB128 decoder accepts
    and inverts PutUvarint; the portable bit unpacking equals the arithmetic
    [BitPack.unpack] (truncated to the destination type), whether evaluated on
    the whole stream or 8 values at a time. *)
From Coq Require Import List NArith ZArith Lia Bool Arith.
From Coq Require Import ZifyN ZifyNat ZifyBool.
From PQ Require Import Base.Bytes Base.Varint Base.BitPack Base.ListExtra Enc.GoDecBase.
Import ListNotations.
Open Scope N_scope.

(** * varints *)

Lemma go_uvarint_aux_spec fuel : forall l s acc r,
  go_uvarint_aux fuel l s acc = Some r -> uvarint_dec_aux l s acc = Some r.
Proof.
  induction fuel as [|f IH]; intros l s acc r H; cbn [go_uvarint_aux] in H; [discriminate|].
  destruct l as [|b l']; [discriminate|]. cbn [uvarint_dec_aux].
  destruct (b <? 128).
  - destruct ((f =? 0)%nat && (1 <? b)); [discriminate|exact H].
  - apply IH. exact H.
Qed.

(** everything binary.Uvarint accepts is read identically by the format's decoder *)
Lemma go_uvarint_spec l r : go_uvarint l = Some r -> uvarint_dec l = Some r.
Proof. apply go_uvarint_aux_spec. Qed.

Lemma go_varint_spec l r : go_varint l = Some r -> varint_dec l = Some r.
Proof.
  unfold go_varint, varint_dec. destruct (go_uvarint l) as [[n r']|] eqn:E; [|discriminate].
  rewrite (go_uvarint_spec _ _ E). auto.
Qed.

Lemma go_uvarint_aux_cons f b r s acc :
  go_uvarint_aux (S f) (b :: r) s acc =
  if b <? 128 then (if (f =? 0)%nat && (1 <? b) then None else Some (acc + b * 2 ^ s, r))
  else go_uvarint_aux f r (s + 7) (acc + (b - 128) * 2 ^ s).
Proof. reflexivity. Qed.

Lemma go_uvarint_aux_enc f : forall x rest shift acc,
  x < 2 ^ (7 * N.of_nat f + 1) ->
  go_uvarint_aux (S f) (uvarint_enc f x ++ rest) shift acc = Some (acc + x * 2 ^ shift, rest).
Proof.
  induction f as [|f IH]; intros x rest shift acc Hx.
  - change (7 * N.of_nat 0 + 1) with 1 in Hx. change (2 ^ 1) with 2 in Hx.
    cbn [uvarint_enc app]. rewrite go_uvarint_aux_cons.
    rewrite N.mod_small by lia.
    destruct (N.ltb_spec x 128); [|lia]. cbn [Nat.eqb andb].
    destruct (N.ltb_spec 1 x); [lia|reflexivity].
  - cbn [uvarint_enc].
    destruct (N.ltb_spec x 128) as [Hs|Hb].
    + cbn [app]. rewrite go_uvarint_aux_cons. destruct (N.ltb_spec x 128); [|lia]. cbn [Nat.eqb andb]. reflexivity.
    + cbn [app]. rewrite go_uvarint_aux_cons.
      assert (Hm : x mod 128 < 128) by (apply N.mod_lt; discriminate).
      destruct (N.ltb_spec (x mod 128 + 128) 128) as [H|_]; [lia|].
      rewrite IH.
      * f_equal. f_equal.
        replace (x mod 128 + 128 - 128) with (x mod 128) by lia.
        rewrite N.pow_add_r. change (2 ^ 7) with 128.
        pose proof (N.div_mod x 128 ltac:(discriminate)). nia.
      * apply N.div_lt_upper_bound; [discriminate|].
        replace (7 * N.of_nat (S f) + 1) with (7 + (7 * N.of_nat f + 1)) in Hx by lia.
        rewrite N.pow_add_r in Hx. change (2 ^ 7) with 128 in Hx. exact Hx.
Qed.

Lemma go_uvarint64_roundtrip x rest :
  x < 2 ^ 64 -> go_uvarint (uvarint64 x ++ rest) = Some (x, rest).
Proof.
  intros Hx. unfold go_uvarint, uvarint64.
  rewrite go_uvarint_aux_enc by exact Hx.
  f_equal. f_equal. rewrite N.pow_0_r. lia.
Qed.

Lemma go_varint64_roundtrip z rest :
  in_sint 64 z -> go_varint (varint64 z ++ rest) = Some (z, rest).
Proof.
  intros Hz. unfold go_varint, varint64.
  rewrite go_uvarint64_roundtrip by (apply zigzag_lt; [lia|exact Hz]).
  now rewrite unzigzag_zigzag.
Qed.

Lemma go_uvarint_aux_lt fuel : forall l s acc v r,
  go_uvarint_aux fuel l s acc = Some (v, r) -> (length r < length l)%nat.
Proof.
  induction fuel as [|f IH]; intros l s acc v r H; cbn [go_uvarint_aux] in H; [discriminate|].
  destruct l as [|b l']; [discriminate|].
  destruct (b <? 128).
  - destruct ((f =? 0)%nat && (1 <? b)); [discriminate|]. inversion H; subst. cbn. lia.
  - apply IH in H. cbn. lia.
Qed.

(** a varint consumes at least one byte *)
Lemma go_uvarint_lt l v r : go_uvarint l = Some (v, r) -> (length r < length l)%nat.
Proof. apply go_uvarint_aux_lt. Qed.

Lemma go_varint_lt l v r : go_varint l = Some (v, r) -> (length r < length l)%nat.
Proof.
  unfold go_varint. destruct (go_uvarint l) as [[n r']|] eqn:E; [|discriminate].
  intros H. inversion H; subst. eapply go_uvarint_lt. exact E.
Qed.

Lemma uvarint_enc_wf64 x : wf_bytes (uvarint64 x).
Proof. apply uvarint_enc_wf. Qed.

(** * unpacking *)

Lemma go_unpack_map tw w n : forall x,
  go_unpack tw w n x = map (fun v => v mod 2 ^ tw) (unpack w n x).
Proof. induction n as [|n IH]; intros x; cbn [go_unpack unpack map]; [reflexivity|]. now rewrite IH. Qed.

Lemma go_unpack_small tw w n : w <= tw -> forall x, go_unpack tw w n x = unpack w n x.
Proof.
  intros Hw. induction n as [|n IH]; intros x; cbn [go_unpack unpack]; [reflexivity|].
  rewrite IH. f_equal. apply N.mod_small.
  eapply N.lt_le_trans; [apply N.mod_lt; pose proof (pow2_pos w); lia|].
  apply N.pow_le_mono_r; [discriminate|exact Hw].
Qed.

Lemma unpack_app w n : forall m x,
  unpack w (n + m) x = unpack w n x ++ unpack w m (x / 2 ^ (w * N.of_nat n)).
Proof.
  induction n as [|n IH]; intros m x.
  - cbn [Nat.add unpack app]. change (N.of_nat 0) with 0. rewrite N.mul_0_r, N.pow_0_r, N.div_1_r. reflexivity.
  - cbn [Nat.add unpack app]. f_equal. rewrite IH. f_equal. f_equal.
    rewrite N.div_div by (try apply N.pow_nonzero; discriminate).
    f_equal. rewrite <- N.pow_add_r. f_equal. lia.
Qed.

Lemma unpack_add_high w n : forall a b, unpack w n (a + 2 ^ (w * N.of_nat n) * b) = unpack w n a.
Proof.
  induction n as [|n IH]; intros a b; cbn [unpack]; [reflexivity|].
  pose proof (pow2_pos w) as Hp.
  assert (E : 2 ^ (w * N.of_nat (S n)) = 2 ^ w * 2 ^ (w * N.of_nat n)).
  { rewrite <- N.pow_add_r. f_equal. lia. }
  rewrite E.
  assert (E1 : (a + 2 ^ w * 2 ^ (w * N.of_nat n) * b) mod 2 ^ w = a mod 2 ^ w).
  { replace (a + 2 ^ w * 2 ^ (w * N.of_nat n) * b) with (a + (2 ^ (w * N.of_nat n) * b) * 2 ^ w) by lia.
    apply N.mod_add. lia. }
  assert (E2 : (a + 2 ^ w * 2 ^ (w * N.of_nat n) * b) / 2 ^ w = a / 2 ^ w + 2 ^ (w * N.of_nat n) * b).
  { replace (a + 2 ^ w * 2 ^ (w * N.of_nat n) * b) with (a + (2 ^ (w * N.of_nat n) * b) * 2 ^ w) by lia.
    apply N.div_add. lia. }
  rewrite E1, E2, IH. reflexivity.
Qed.

Lemma pow256 n : 256 ^ n = 2 ^ (8 * n).
Proof. change 256 with (2 ^ 8). now rewrite <- N.pow_mul_r. Qed.

(** the first [n] bytes and the rest, as numbers *)
Lemma of_le_split n bs : wf_bytes bs ->
  of_le bs = of_le (firstn n bs) + 2 ^ (8 * N.of_nat n) * of_le (skipn n bs)
  /\ of_le (firstn n bs) < 2 ^ (8 * N.of_nat n).
Proof.
  intros Hwf. split.
  - rewrite <- (firstn_skipn n bs) at 1. rewrite of_le_app, firstn_length.
    destruct (Nat.le_gt_cases n (length bs)) as [H|H].
    + rewrite Nat.min_l by exact H. now rewrite pow256.
    + rewrite skipn_all2 by lia. cbn [of_le]. lia.
  - eapply N.lt_le_trans; [apply of_le_bound; now apply Forall_firstn|].
    rewrite pow256. apply N.pow_le_mono_r; [discriminate|].
    rewrite firstn_length. lia.
Qed.

(** 8 values at a time = the whole stream at once *)
Lemma go_unpack_chunks_whole tw w g : forall bs, wf_bytes bs ->
  go_unpack_chunks tw w g bs = go_unpack tw w (8 * g) (of_le bs).
Proof.
  induction g as [|g IH]; intros bs Hwf.
  - reflexivity.
  - cbn [go_unpack_chunks].
    replace (8 * S g)%nat with (8 + 8 * g)%nat by lia.
    rewrite IH by (now apply Forall_skipn).
    rewrite !go_unpack_map, unpack_app, map_app.
    destruct (of_le_split (N.to_nat w) bs Hwf) as [E Hlt].
    rewrite N2Nat.id in E, Hlt.
    set (A := of_le (firstn (N.to_nat w) bs)) in *.
    set (B := of_le (skipn (N.to_nat w) bs)) in *.
    assert (Ew : 8 * w = w * N.of_nat 8) by (change (N.of_nat 8) with 8; lia).
    rewrite Ew in E, Hlt.
    rewrite E, unpack_add_high.
    f_equal. f_equal. f_equal.
    rewrite N.mul_comm, N.div_add by (apply N.pow_nonzero; discriminate).
    rewrite N.div_small by exact Hlt. reflexivity.
Qed.

(** for widths within the destination type: group by group, as the
    specification decoder of the hybrid encoding reads them *)
Fixpoint chunked {A} (groups n : nat) (l : list A) : list (list A) :=
  match groups with
  | O => []
  | S g => firstn n l :: chunked g n (skipn n l)
  end.

Lemma go_unpack_chunks_groups tw w g : w <= tw -> forall bs,
  go_unpack_chunks tw w g bs = concat (map (unpack_bytes w 8) (chunked g (N.to_nat w) bs)).
Proof.
  intros Hw. induction g as [|g IH]; intros bs; cbn [go_unpack_chunks chunked map concat]; [reflexivity|].
  rewrite IH, go_unpack_small by exact Hw. reflexivity.
Qed.

Lemma unpack_zero_width n : forall x, unpack 0 n x = repeat 0 n.
Proof.
  induction n as [|n IH]; intros x; cbn [unpack repeat]; [reflexivity|].
  rewrite IH. f_equal. change (2 ^ 0) with 1. apply N.mod_1_r.
Qed.

(** * results *)

Lemma gbind_ok {A B} (r : gres A) (f : A -> gres B) y :
  gbind r f = GOk y -> exists x, r = GOk x /\ f x = GOk y.
Proof. destruct r; cbn [gbind]; intros H; try discriminate. eauto. Qed.

Lemma fits_len_true n (l : bytes) : fits_len n l = true <-> n <= N.of_nat (length l).
Proof. unfold fits_len. apply N.leb_le. Qed.
