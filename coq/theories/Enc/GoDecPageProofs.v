(** Lemmas about Enc/GoDecPage.v. *)
From Coq Require Import List NArith Lia Arith.
From PQ Require Import Base.Bytes Enc.Rle Enc.GoDecBase Enc.GoDecRle Enc.GoDecRleProofs Enc.GoDecPage.
Import ListNotations.
Open Scope N_scope.

Lemma indexed_page_length : forall n ix, length (indexed_page_indexes n ix) = n.
Proof.
  intros n ix. unfold indexed_page_indexes.
  rewrite firstn_length, app_length, repeat_length. lia.
Qed.

(** the page data holds at least the values of the page (more: the padding of
    a last bit-packed group): the indexes of the page are those of the data *)
Lemma indexed_page_conforming : forall n ix,
  (n <= length ix)%nat -> indexed_page_indexes n ix = firstn n ix.
Proof.
  intros n ix H. unfold indexed_page_indexes.
  replace (n - length ix)%nat with 0%nat by lia. simpl. now rewrite app_nil_r.
Qed.

(** fewer: the indexes of the data, then zeros *)
Lemma indexed_page_short : forall n ix,
  (length ix <= n)%nat -> indexed_page_indexes n ix = ix ++ repeat 0 (n - length ix).
Proof.
  intros n ix H. unfold indexed_page_indexes.
  apply firstn_all2. rewrite app_length, repeat_length. lia.
Qed.

Lemma nth_firstn_below : forall (l : list N) n i d, (i < n)%nat -> nth i (firstn n l) d = nth i l d.
Proof.
  induction l as [| x l IH]; intros n i d H.
  - now rewrite firstn_nil.
  - destruct n; [lia |]. destruct i; [reflexivity |]. simpl. apply IH. lia.
Qed.

Lemma indexed_page_nth : forall n ix i,
  (i < n)%nat -> nth i (indexed_page_indexes n ix) 0 = nth i ix 0.
Proof.
  intros n ix i Hi. unfold indexed_page_indexes.
  rewrite nth_firstn_below by exact Hi.
  destruct (Nat.lt_ge_cases i (length ix)) as [Hl | Hl].
  - now rewrite app_nth1.
  - rewrite app_nth2 by exact Hl. rewrite (nth_overflow ix) by exact Hl.
    apply nth_repeat.
Qed.

(** a page written by the encoder of the library (all the indexes present):
    Go's page holds exactly the indexes *)
Lemma go_indexed_page_roundtrip : forall src,
  Forall (fun v => v < 2 ^ 32) src -> N.of_nat (length src) <= max_count ->
  exists b, enc_dict_indexes src = Some b /\ go_indexed_page (length src) b = GOk src.
Proof.
  intros src Hf Hl. destruct (go_dict_roundtrip src Hf Hl) as [b [He [Hg _]]].
  exists b. split; [exact He |]. unfold go_indexed_page. rewrite Hg. simpl.
  rewrite indexed_page_conforming by lia. now rewrite firstn_all.
Qed.

Lemma go_indexed_page_conforming : forall n data ix,
  go_decode_dict data = GOk ix -> (n <= length ix)%nat -> go_indexed_page n data = GOk (firstn n ix).
Proof.
  intros n data ix Hd Hn. unfold go_indexed_page. rewrite Hd. simpl.
  now rewrite indexed_page_conforming.
Qed.

Lemma go_indexed_page_short : forall n data ix,
  go_decode_dict data = GOk ix -> (length ix <= n)%nat ->
  go_indexed_page n data = GOk (ix ++ repeat 0 (n - length ix)).
Proof.
  intros n data ix Hd Hn. unfold go_indexed_page. rewrite Hd. simpl.
  now rewrite indexed_page_short.
Qed.

(** the outcome (ok / error / panic) is that of the index decoder *)
Lemma go_indexed_page_status : forall n data,
  gstatus (go_indexed_page n data) = gstatus (go_decode_dict data).
Proof. intros n data. unfold go_indexed_page. now destruct (go_decode_dict data). Qed.
