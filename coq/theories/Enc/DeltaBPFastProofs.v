(** The fast encoders of Enc/DeltaBPFast.v write the bytes of the encoders the
    theorems are about, at every legal geometry. *)
From Coq Require Import List NArith ZArith Lia Bool Arith.
From Coq Require Import ZifyN ZifyNat ZifyBool.
From PQ Require Import Base.Bytes Base.Varint Base.BitPack Base.ListExtra.
From PQ Require Import Enc.DeltaBP Enc.DeltaBPProofs Enc.ByteArrayDelta Enc.DeltaBPFast.
Import ListNotations.
Open Scope N_scope.

Lemma to_le_app n : forall m x y, x < 256 ^ N.of_nat n ->
  to_le (n + m) (x + 256 ^ N.of_nat n * y) = to_le n x ++ to_le m y.
Proof.
  induction n as [|n IH]; intros m x y Hx.
  - cbn [N.of_nat] in *. rewrite N.pow_0_r in *. cbn [Nat.add to_le app].
    replace x with 0 by lia. f_equal. lia.
  - rewrite Nat2N.inj_succ, N.pow_succ_r' in *. cbn [Nat.add to_le app].
    assert (E1 : (x + 256 * 256 ^ N.of_nat n * y) mod 256 = x mod 256).
    { replace (x + 256 * 256 ^ N.of_nat n * y) with (x + (256 ^ N.of_nat n * y) * 256) by lia.
      apply N.mod_add. discriminate. }
    assert (E2 : (x + 256 * 256 ^ N.of_nat n * y) / 256 = x / 256 + 256 ^ N.of_nat n * y).
    { replace (x + 256 * 256 ^ N.of_nat n * y) with (x + (256 ^ N.of_nat n * y) * 256) by lia.
      apply N.div_add. discriminate. }
    rewrite E1, E2, IH; [reflexivity|].
    apply N.div_lt_upper_bound; [discriminate|exact Hx].
Qed.

Lemma pack_bytes_app w a b :
  fits w a -> (w * N.of_nat (length a)) mod 8 = 0 ->
  pack_bytes w (a ++ b) = pack_bytes w a ++ pack_bytes w b.
Proof.
  intros Hf Hm. unfold pack_bytes. rewrite pack_app, app_length, Nat2N.inj_add, N.mul_add_distr_l.
  pose proof (N.div_mod (w * N.of_nat (length a)) 8 ltac:(discriminate)) as E. rewrite Hm, N.add_0_r in E.
  set (na := w * N.of_nat (length a) / 8) in *.
  rewrite E at 1. rewrite (N.mul_comm 8 na), N.div_add_l by discriminate.
  rewrite N2Nat.inj_add.
  replace (2 ^ (w * N.of_nat (length a))) with (256 ^ N.of_nat (N.to_nat na)).
  - apply to_le_app. rewrite N2Nat.id. change 256 with (2 ^ 8). rewrite <- N.pow_mul_r, <- E.
    now apply pack_bound.
  - rewrite N2Nat.id. change 256 with (2 ^ 8). now rewrite <- N.pow_mul_r, <- E.
Qed.

Lemma pack_bytes_nil w : pack_bytes w [] = [].
Proof. unfold pack_bytes. cbn [length N.of_nat]. rewrite N.mul_0_r. reflexivity. Qed.

Lemma pack_groups_eq w : forall q g, length g = (q * 8)%nat -> fits w g ->
  concat (map (pack_bytes w) (chunks q 8 g)) = pack_bytes w g.
Proof.
  induction q as [|q IH]; intros g Hl Hf.
  - destruct g; [|cbn in Hl; lia]. cbn [chunks map concat]. now rewrite pack_bytes_nil.
  - cbn [chunks]. destruct g as [|v g'] eqn:Eg; [cbn in Hl; lia|]. rewrite <- Eg in *. clear Eg v g'.
    cbn [map concat].
    rewrite IH.
    + rewrite <- pack_bytes_app.
      * now rewrite firstn_skipn.
      * now apply Forall_firstn.
      * rewrite firstn_length, Nat.min_l by lia. change (N.of_nat 8) with 8.
        apply N.mod_mul. discriminate.
    + rewrite skipn_length. lia.
    + now apply Forall_skipn.
Qed.

Lemma pack_chunks_eq w g : fits w g -> N.of_nat (length g) mod 8 = 0 ->
  pack_chunks w g = pack_bytes w g.
Proof.
  intros Hf Hm. unfold pack_chunks. apply pack_groups_eq; [|exact Hf].
  pose proof (Nat.div_mod (length g) 8 ltac:(lia)) as E.
  assert (length g mod 8 = 0)%nat.
  { change 8 with (N.of_nat 8) in Hm. rewrite <- Nat2N.inj_mod in Hm. lia. }
  lia.
Qed.

Lemma enc_block_f_eq bs nmb vpm (Hg : geom bs nmb vpm) k last chunk :
  (length chunk <= bs)%nat ->
  enc_block_f bs nmb vpm k last chunk = enc_block_g bs nmb vpm k last chunk.
Proof.
  intros Hle. unfold enc_block_f, enc_block_g.
  destruct Hg as (bs_eq & vpm_mod8 & vpm_pos & nmb_pos).
  set (cb := pad_to bs 0 (firstn (length chunk) _)).
  assert (Hcbl : length cb = (nmb * vpm)%nat).
  { subst cb. rewrite pad_to_length; [exact bs_eq|]. rewrite firstn_length. lia. }
  destruct (chunks_exact vpm vpm_pos nmb cb Hcbl) as (_ & Hf & _).
  do 3 f_equal. apply map_ext_in. intros g Hin.
  rewrite Forall_forall in Hf. apply pack_chunks_eq; [apply width_of_fits|].
  now rewrite (Hf g Hin).
Qed.

Lemma enc_blocks_f_eq bs nmb vpm (Hg : geom bs nmb vpm) k : forall fuel last rest,
  enc_blocks_f bs nmb vpm fuel k last rest = enc_blocks_g bs nmb vpm fuel k last rest.
Proof.
  induction fuel as [|f IH]; intros last rest; cbn [enc_blocks_f enc_blocks_g]; [reflexivity|].
  destruct rest as [|v r] eqn:E; [reflexivity|]. rewrite <- E. clear E v r.
  rewrite IH, enc_block_f_eq; [reflexivity|exact Hg|]. rewrite firstn_length. lia.
Qed.

(** the encoder the oracle runs = the encoder of the theorems *)
Theorem enc_f_eq bs nmb (Hl : legal_geometry bs nmb) k xs : enc_f bs nmb k xs = enc_g bs nmb k xs.
Proof.
  unfold enc_f, enc_g. do 4 f_equal.
  destruct (map (wrapZ k) xs); [reflexivity|].
  apply enc_blocks_f_eq. now apply legal_geom.
Qed.

Theorem dlba_enc_f_eq bs nmb (Hl : legal_geometry bs nmb) vs : dlba_enc_f bs nmb vs = dlba_enc_g bs nmb vs.
Proof. unfold dlba_enc_f, dlba_enc_g. now rewrite enc_f_eq. Qed.

Theorem dba_enc_f_eq cap bs1 nmb1 bs2 nmb2 vs :
  legal_geometry bs1 nmb1 -> legal_geometry bs2 nmb2 ->
  dba_enc_f cap bs1 nmb1 bs2 nmb2 vs = dba_enc_g cap bs1 nmb1 bs2 nmb2 vs.
Proof. intros H1 H2. unfold dba_enc_f, dba_enc_g. now rewrite !enc_f_eq. Qed.

(** Go's geometry: the fast encoders write the bytes of the Go-mirroring encoders *)
Theorem enc_fast_eq k xs : enc_fast k xs = enc k xs.
Proof. exact (enc_f_eq block_size num_mini_blocks go_geometry_legal k xs). Qed.

Theorem dlba_enc_fast_eq vs : dlba_enc_fast vs = dlba_enc vs.
Proof. unfold dlba_enc_fast, dlba_enc. now rewrite enc_fast_eq. Qed.

Theorem dba_enc_fast_eq vs : dba_enc_fast vs = dba_enc vs.
Proof. unfold dba_enc_fast, dba_enc. now rewrite !enc_fast_eq. Qed.
