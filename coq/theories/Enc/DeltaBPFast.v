(** The DELTA_BINARY_PACKED encoder of Enc/DeltaBP.v at any geometry, packing
    each mini-block eight values at a time instead of as one big number: the
    same bytes whenever a mini-block is a whole number of groups of 8 values
    (Enc/DeltaBPFastProofs.v: [enc_f_eq]), in linear instead of quadratic time
    once extracted.  These are the functions the oracle runs; the theorems are
    stated about [DeltaBP.enc_g].  No proofs here. *)
From Coq Require Import List NArith ZArith Lia Bool Arith.
From PQ Require Import Base.Bytes Base.Varint Base.BitPack Enc.DeltaBP Enc.ByteArrayDelta.
Import ListNotations.
Open Scope N_scope.

Definition pack_chunks (w : N) (g : list N) : bytes :=
  concat (map (pack_bytes w) (chunks (length g / 8) 8 g)).

Definition enc_block_f (bs nmb vpm : nat) (k : N) (last : N) (chunk : list N) : bytes :=
  let block := pad_to bs 0 chunk in
  let deltas := block_delta k last block in
  let m := block_min k deltas in
  let subd := map (fun d => subk k d m) deltas in
  let cleared := pad_to bs 0 (firstn (length chunk) subd) in
  let groups := chunks nmb vpm cleared in
  varint64 (sintZ k m) ++ map width_of groups
    ++ concat (map (fun g => pack_chunks (width_of g) g) groups).

Fixpoint enc_blocks_f (bs nmb vpm : nat) (fuel : nat) (k : N) (last : N) (rest : list N) : bytes :=
  match fuel with
  | O => []
  | S f =>
      match rest with
      | [] => []
      | _ =>
          let chunk := firstn bs rest in
          enc_block_f bs nmb vpm k last chunk
            ++ enc_blocks_f bs nmb vpm f k (List.last chunk last) (skipn bs rest)
      end
  end.

Definition enc_f (bs nmb : nat) (k : N) (xs : list Z) : bytes :=
  let ps := map (wrapZ k) xs in
  let first := match xs with [] => 0%Z | x :: _ => x end in
  uvarint64 (N.of_nat bs) ++ uvarint64 (N.of_nat nmb)
    ++ uvarint64 (N.of_nat (length xs)) ++ varint64 first
    ++ match ps with
       | [] => []
       | p :: rest => enc_blocks_f bs nmb (bs / nmb) (length rest) k p rest
       end.

Definition dlba_enc_f (bs nmb : nat) (vs : list bytes) : bytes :=
  enc_f bs nmb 32 (lengths_of vs) ++ concat vs.

Definition dba_enc_f (cap bs1 nmb1 bs2 nmb2 : nat) (vs : list bytes) : bytes :=
  enc_f bs1 nmb1 32 (map Z.of_nat (prefixes_c cap [] vs))
    ++ enc_f bs2 nmb2 32 (lengths_of (suffixes_c cap [] vs))
    ++ concat (suffixes_c cap [] vs).

(** Go's geometry *)
Definition enc_fast (k : N) (xs : list Z) : bytes := enc_f block_size num_mini_blocks k xs.

Definition dlba_enc_fast (vs : list bytes) : bytes := enc_fast 32 (lengths_of vs) ++ concat vs.

Definition dba_enc_fast (vs : list bytes) : bytes :=
  enc_fast 32 (map Z.of_nat (prefixes [] vs))
    ++ enc_fast 32 (lengths_of (suffixes [] vs))
    ++ concat (suffixes [] vs).
