(** Round trips of PLAIN and BYTE_STREAM_SPLIT for every input. *)
From Coq Require Import List NArith ZArith Lia Bool Arith.
From Coq Require Import ZifyN ZifyNat ZifyBool.
From PQ Require Import Base.Bytes Base.BitPack Base.ListExtra Enc.Plain.
Import ListNotations.
Open Scope N_scope.

Lemma split_every_concat {A} n (ls : list (list A)) :
  Forall (fun l => length l = n) ls -> split_every (length ls) n (concat ls) = ls.
Proof.
  induction 1 as [|l ls Hl _ IH]; cbn [length split_every concat]; [reflexivity|].
  rewrite firstn_app_len, skipn_app_len by exact Hl. now rewrite IH.
Qed.

Lemma concat_length_uniform {A} n (ls : list (list A)) :
  Forall (fun l => length l = n) ls -> length (concat ls) = (length ls * n)%nat.
Proof.
  induction 1 as [|l ls Hl _ IH]; cbn [length concat]; [reflexivity|].
  rewrite app_length, IH, Hl. lia.
Qed.

Theorem plain_fixed_roundtrip k vs :
  (0 < k)%nat -> Forall (fun v => v < 256 ^ N.of_nat k) vs ->
  dec_plain_fixed k (plain_fixed k vs) = Some vs.
Proof.
  intros Hk Hvs. unfold dec_plain_fixed, plain_fixed.
  destruct (Nat.eqb_spec k 0); [lia|].
  assert (Hu : Forall (fun l => length l = k) (map (to_le k) vs)).
  { apply Forall_forall. intros l Hl. apply in_map_iff in Hl. destruct Hl as (v & <- & _). apply to_le_length. }
  rewrite (concat_length_uniform k _ Hu), map_length.
  rewrite Nat.mod_mul by lia. cbn [Nat.eqb]. rewrite Nat.div_mul by lia.
  pose proof (split_every_concat k _ Hu) as Hsp. rewrite map_length in Hsp. rewrite Hsp.
  rewrite map_map. f_equal. rewrite <- (map_id vs) at 2. apply map_ext_in.
  intros v Hv. apply of_le_to_le. rewrite Forall_forall in Hvs. now apply Hvs.
Qed.

Theorem plain_byte_array_roundtrip vs :
  Forall (fun v => N.of_nat (length v) < 2 ^ 32) vs ->
  forall fuel, (length vs <= fuel)%nat ->
  dec_plain_byte_array fuel (plain_byte_array vs) = Some vs.
Proof.
  induction 1 as [|v vs Hv _ IH]; intros fuel Hfuel.
  - destruct fuel; reflexivity.
  - destruct fuel as [|f]; [cbn in Hfuel; lia|].
    unfold plain_byte_array in *. cbn [map concat dec_plain_byte_array].
    rewrite <- app_assoc.
    pose proof (to_le_length 4 (N.of_nat (length v))) as H4.
    destruct (to_le 4 (N.of_nat (length v)) ++ v ++ concat (map (fun v0 => to_le 4 (N.of_nat (length v0)) ++ v0) vs)) as [|x l] eqn:E.
    { exfalso. apply (f_equal (@length N)) in E. rewrite app_length, H4 in E. cbn in E. lia. }
    rewrite <- E. clear E x l.
    rewrite !app_length, H4.
    destruct (Nat.ltb_spec (4 + (length v + length (concat (map (fun v0 => to_le 4 (N.of_nat (length v0)) ++ v0) vs)))) 4); [lia|].
    rewrite firstn_app_len, skipn_app_len by exact H4.
    rewrite of_le_to_le by (change (256 ^ N.of_nat 4) with (2 ^ 32); exact Hv).
    rewrite Nat2N.id. rewrite app_length.
    destruct (Nat.ltb_spec (length v + length (concat (map (fun v0 => to_le 4 (N.of_nat (length v0)) ++ v0) vs))) (length v)); [lia|].
    rewrite firstn_app_exact, skipn_app_exact.
    rewrite IH by (cbn in Hfuel; lia). reflexivity.
Qed.

Theorem plain_flba_roundtrip size vs :
  (0 < size)%nat -> Forall (fun v => length v = size) vs ->
  dec_plain_flba size (plain_flba vs) = Some vs.
Proof.
  intros Hs Hvs. unfold dec_plain_flba, plain_flba.
  destruct (Nat.eqb_spec size 0); [lia|].
  rewrite (concat_length_uniform size _ Hvs), Nat.mod_mul by lia. cbn [Nat.eqb].
  rewrite Nat.div_mul by lia. now rewrite split_every_concat.
Qed.

(** booleans *)
Definition is_bit (v : N) : Prop := v < 2.

Lemma unpack_pack_short w (vs : list N) n :
  fits w vs -> (length vs <= n)%nat ->
  unpack w n (pack w vs) = vs ++ repeat 0 (n - length vs).
Proof.
  revert n. induction vs as [|v r IH]; intros n Hf Hn.
  - cbn [pack length app]. rewrite Nat.sub_0_r. clear. induction n as [|n IH]; [reflexivity|].
    cbn [unpack repeat]. rewrite N.mod_0_l, N.div_0_l by (pose proof (pow2_pos w); lia). now rewrite IH.
  - inversion Hf as [|? ? Hv Hr]; subst. destruct n as [|n]; [cbn in Hn; lia|].
    cbn [pack unpack length app]. pose proof (pow2_pos w) as Hp.
    assert (E1 : (v + 2 ^ w * pack w r) mod 2 ^ w = v).
    { rewrite (N.mul_comm (2 ^ w)), N.mod_add by lia. now apply N.mod_small. }
    assert (E2 : (v + 2 ^ w * pack w r) / 2 ^ w = pack w r).
    { rewrite (N.mul_comm (2 ^ w)), N.div_add by lia. rewrite N.div_small by exact Hv. lia. }
    rewrite E1, E2, IH by (auto; cbn in Hn; lia). reflexivity.
Qed.

Theorem plain_boolean_roundtrip bits :
  Forall is_bit bits ->
  dec_plain_boolean (length bits) (plain_boolean bits) = Some bits.
Proof.
  intros Hb. unfold dec_plain_boolean, plain_boolean.
  assert (G : forall fuel bs, Forall is_bit bs -> (length bs <= fuel)%nat ->
              exists pad, concat (map (unpack 1 8) (pack_bools fuel bs)) = bs ++ pad).
  { induction fuel as [|f IH]; intros bs Hbs Hf.
    - destruct bs; [exists []; reflexivity|cbn in Hf; lia].
    - cbn [pack_bools]. destruct bs as [|b0 bs'] eqn:Ebs; [exists []; reflexivity|].
      rewrite <- Ebs in *.
      assert (Hfit : fits 1 (firstn 8 bs)).
      { apply Forall_firstn. eapply Forall_impl; [|exact Hbs]. intros a Ha. exact Ha. }
      cbn [map concat].
      rewrite (unpack_pack_short 1 (firstn 8 bs) 8 Hfit) by (rewrite firstn_length; lia).
      destruct (IH (skipn 8 bs)) as [pad Hpad].
      + now apply Forall_skipn.
      + rewrite skipn_length. subst bs. cbn [length] in *. lia.
      + rewrite Hpad. rewrite firstn_length.
        destruct (Nat.le_gt_cases 8 (length bs)) as [H8|H8].
        * rewrite Nat.min_l by lia. rewrite Nat.sub_diag. cbn [repeat]. rewrite app_nil_r.
          exists pad. rewrite app_assoc, firstn_skipn. reflexivity.
        * rewrite Nat.min_r by lia. rewrite skipn_all2 in * by lia.
          rewrite firstn_all2 by lia. cbn [app] in *.
          exists (repeat 0 (8 - length bs) ++ pad). now rewrite app_assoc. }
  destruct (G (length bits) bits Hb ltac:(lia)) as [pad Hpad].
  rewrite Hpad, app_length.
  destruct (Nat.leb_spec (length bits) (length bits + length pad)); [|lia].
  now rewrite firstn_app_exact.
Qed.

(** BYTE_STREAM_SPLIT *)

Lemma nth_concat_uniform {A} n (d : A) : forall (blocks : list (list A)) j i,
  Forall (fun l => length l = n) blocks -> (i < n)%nat -> (j < length blocks)%nat ->
  nth (j * n + i) (concat blocks) d = nth i (nth j blocks []) d.
Proof.
  induction blocks as [|bl blocks IH]; intros j i Hu Hi Hj; [cbn in Hj; lia|].
  inversion Hu as [|? ? Hb Hbs]; subst. cbn [concat].
  destruct j as [|j].
  - cbn [Nat.mul Nat.add nth]. apply app_nth1. lia.
  - rewrite app_nth2 by lia.
    replace (S j * length bl + i - length bl)%nat with (j * length bl + i)%nat by lia.
    cbn [nth]. apply IH; auto. cbn in Hj. lia.
Qed.

Theorem bss_roundtrip k vs :
  (0 < k)%nat -> Forall (fun v => length v = k) vs ->
  bss_dec k (bss_enc k vs) = Some vs.
Proof.
  intros Hk Hvs. unfold bss_dec, bss_enc.
  destruct (Nat.eqb_spec k 0); [lia|].
  set (blocks := map (fun j => map (fun v => nth j v 0) vs) (seq 0 k)).
  assert (Hu : Forall (fun l => length l = length vs) blocks).
  { subst blocks. apply Forall_forall. intros l Hl. apply in_map_iff in Hl.
    destruct Hl as (j & <- & _). apply map_length. }
  assert (Hbl : length blocks = k) by (subst blocks; rewrite map_length, seq_length; reflexivity).
  rewrite (concat_length_uniform _ _ Hu), Hbl.
  rewrite Nat.mul_comm, Nat.mod_mul by lia. cbn [Nat.eqb].
  rewrite Nat.div_mul by lia. f_equal.
  apply nth_ext with (d := []) (d' := []).
  - now rewrite map_length, seq_length.
  - intros i Hi. rewrite map_length, seq_length in Hi.
    rewrite nth_map_seq by exact Hi.
    assert (Hvi : length (nth i vs []) = k).
    { rewrite Forall_forall in Hvs. apply Hvs. now apply nth_In. }
    apply nth_ext with (d := 0) (d' := 0).
    + now rewrite map_length, seq_length, Hvi.
    + intros j Hj. rewrite map_length, seq_length in Hj.
      rewrite nth_map_seq by exact Hj.
      rewrite (nth_concat_uniform (length vs) 0 blocks j i Hu Hi) by (rewrite Hbl; exact Hj).
      subst blocks. rewrite nth_map_seq by exact Hj.
      apply (nth_map' (fun v => nth j v 0) vs i 0 []). exact Hi.
Qed.

Theorem bss_fixed_roundtrip k vs :
  (0 < k)%nat -> Forall (fun v => v < 256 ^ N.of_nat k) vs ->
  bss_dec_fixed k (bss_enc_fixed k vs) = Some vs.
Proof.
  intros Hk Hvs. unfold bss_dec_fixed, bss_enc_fixed.
  rewrite bss_roundtrip.
  - rewrite map_map. f_equal. rewrite <- (map_id vs) at 2. apply map_ext_in.
    intros v Hv. apply of_le_to_le. rewrite Forall_forall in Hvs. now apply Hvs.
  - exact Hk.
  - apply Forall_forall. intros l Hl. apply in_map_iff in Hl. destruct Hl as (v & <- & _). apply to_le_length.
Qed.
