(** RLE / bit-packed hybrid (encoding/rle/rle.go).

    The encoders are modelled in two stages that mirror the Go code: run
    detection ([detect_bytes] for levels, [detect_int32] for dictionary
    indexes, [detect_bits] for packed booleans) producing a list of runs, and
    serialisation of the runs.  [dec_runs] is a decoder written from
    Encodings.md (any partition into runs).  No proofs here. *)
From Coq Require Import List NArith ZArith Lia Bool Arith.
From PQ Require Import Base.Bytes Base.Varint Base.BitPack.
Import ListNotations.
Open Scope N_scope.

Inductive run :=
| RunRLE (count : nat) (v : N)
| RunBP (groups : list (list N)).      (* groups of 8 values *)

Definition byte_count (w : N) : nat := N.to_nat ((w + 7) / 8).

Definition expand (r : run) : list N :=
  match r with
  | RunRLE c v => repeat v c
  | RunBP gs => concat gs
  end.

Definition serialize_run (w : N) (r : run) : bytes :=
  match r with
  | RunRLE c v => uvarint64 (2 * N.of_nat c) ++ to_le (byte_count w) v
  | RunBP gs => uvarint64 (2 * N.of_nat (length gs) + 1) ++ concat (map (pack_bytes w) gs)
  end.

Definition serialize (w : N) (rs : list run) : bytes := concat (map (serialize_run w) rs).

(** * Run detection, as the Go encoders do it *)

Fixpoint groups8 {A} (fuel : nat) (l : list A) : list (list A) :=
  match fuel with
  | O => []
  | S f => if (8 <=? length l)%nat then firstn 8 l :: groups8 f (skipn 8 l) else []
  end.

Definition eqb_list (a b : list N) : bool :=
  (length a =? length b)%nat && forallb (fun p => fst p =? snd p) (combine a b).

Definition broadcast (v : N) : list N := repeat v 8.
Definition is_const (g : list N) : bool := eqb_list g (broadcast (hd 0 g)).

(* number of leading groups equal to [pat] *)
Fixpoint count_equal (pat : list N) (gs : list (list N)) : nat :=
  match gs with
  | g :: r => if eqb_list g pat then S (count_equal pat r) else O
  | [] => O
  end.

(* encodeBytes: the bit-packed run is extended while
   words[j] != broadcast8x1(words[j-1]) *)
Fixpoint span_bytes (prev : list N) (gs : list (list N)) : nat :=
  match gs with
  | g :: r => if eqb_list g (broadcast (hd 0 prev)) then O else S (span_bytes g r)
  | [] => O
  end.

(* encodeInt32: extended over the following groups while they are not constant
   (encodeInt32IndexEqual8Contiguous) *)
Fixpoint span_int32 (gs : list (list N)) : nat :=
  match gs with
  | g :: r => if is_const g then O else S (span_int32 r)
  | [] => O
  end.

Fixpoint detect_groups (int32 : bool) (fuel : nat) (gs : list (list N)) : list run :=
  match fuel with
  | O => []
  | S f =>
      match gs with
      | [] => []
      | g :: r =>
          let c := count_equal (broadcast (hd 0 g)) gs in
          if (0 <? c)%nat then RunRLE (8 * c) (hd 0 g) :: detect_groups int32 f (skipn c gs)
          else
            let c2 := S (if int32 then span_int32 r else span_bytes g r) in
            RunBP (firstn c2 gs) :: detect_groups int32 f (skipn c2 gs)
      end
  end.

(* the tail (len mod 8 values): runs of equal neighbours *)
Fixpoint count_same (v : N) (l : list N) : nat :=
  match l with
  | x :: r => if x =? v then S (count_same v r) else O
  | [] => O
  end.

Fixpoint detect_tail (fuel : nat) (l : list N) : list run :=
  match fuel with
  | O => []
  | S f =>
      match l with
      | [] => []
      | v :: r => let c := count_same v r in RunRLE (S c) v :: detect_tail f (skipn c r)
      end
  end.

Definition detect (int32 : bool) (src : list N) : list run :=
  let n8 := (length src / 8 * 8)%nat in
  let gs := groups8 (length src) (firstn n8 src) in
  detect_groups int32 (length gs) gs ++ detect_tail (length src) (skipn n8 src).

(* encodeBytes / encodeInt32 *)
Definition enc_hybrid (int32 : bool) (w : N) (src : list N) : option bytes :=
  if w =? 0 then
    if forallb (fun v => v =? 0) src then Some (uvarint64 (2 * N.of_nat (length src))) else None
  else Some (serialize w (detect int32 src)).

Definition enc_levels (w : N) (src : list N) : option bytes := enc_hybrid false w src.
Definition enc_int32 (w : N) (src : list N) : option bytes := enc_hybrid true w src.

(* RLE_DICTIONARY data page: bit width byte then the indexes *)
Definition enc_dict_indexes (src : list N) : option bytes :=
  let w := fold_left N.max (map bitlen src) 0 in
  match enc_int32 w src with
  | Some b => Some (w :: b)
  | None => None
  end.

(** encodeBits: [src] are the packed bytes of a boolean page (8 values per
    byte, LSB first); runs are counted in bytes. *)
Inductive bits_run :=
| BitsRLE (nbytes : nat) (value_byte : N)
| BitsBP (raw : list N).

(* extension of a bit-packed section: while src[j-1] != src[j] || (src[j] != 0 && src[j] == 0xFF) *)
Fixpoint span_bits (prev : N) (l : list N) : nat :=
  match l with
  | x :: r => if negb (prev =? x) || (negb (x =? 0) && (x =? 255)) then S (span_bits x r) else O
  | [] => O
  end.

Fixpoint detect_bits_loop (fuel : nat) (l : list N) : list bits_run :=
  match fuel with
  | O => []
  | S f =>
      match l with
      | [] => []
      | v :: r =>
          let same := count_same v r in
          if ((v =? 0) || (v =? 255)) && (0 <? same)%nat then
            BitsRLE (S same) v :: detect_bits_loop f (skipn same r)
          else
            let j := S (span_bits v r) in               (* j - i *)
            let j' := if (1 <? j)%nat && (j <? length l)%nat then (j - 1)%nat else j in
            BitsBP (firstn j' l) :: detect_bits_loop f (skipn j' l)
      end
  end.

Definition detect_bits (src : list N) : list bits_run :=
  if (length src =? 0)%nat || forallb (fun v => v =? 0) src || forallb (fun v => v =? 255) src
  then [BitsRLE (length src) (hd 0 src)]
  else detect_bits_loop (length src) src.

Definition serialize_bits_run (r : bits_run) : bytes :=
  match r with
  | BitsRLE n v => uvarint64 (2 * (8 * N.of_nat n)) ++ (if (n =? 0)%nat then [] else [v mod 2])
  | BitsBP raw => uvarint64 (2 * N.of_nat (length raw) + 1) ++ raw
  end.

Definition enc_bits_body (src : list N) : bytes := concat (map serialize_bits_run (detect_bits src)).

(* EncodeBoolean: 4-byte little-endian length prefix *)
Definition enc_boolean (src : list N) : bytes :=
  let body := enc_bits_body src in
  to_le 4 (N.of_nat (length body)) ++ body.

(** * Decoder from the specification *)

Definition take_bytes (n : nat) (b : bytes) : option (bytes * bytes) :=
  if (n <=? length b)%nat then Some (firstn n b, skipn n b) else None.

Fixpoint split_every {A} (fuel n : nat) (l : list A) : list (list A) :=
  match fuel with
  | O => []
  | S f => firstn n l :: split_every f n (skipn n l)
  end.

(* one run, given the decoder for what follows it *)
Definition dec_run_body (rec : bytes -> option (list N)) (w h : N) (b1 : bytes) : option (list N) :=
  if N.odd h then
    let g := N.to_nat (h / 2) in
    match take_bytes (g * N.to_nat w) b1 with
    | None => None
    | Some (body, b2) =>
        match rec b2 with
        | None => None
        | Some rest =>
            Some (concat (map (unpack_bytes w 8) (split_every g (N.to_nat w) body)) ++ rest)
        end
    end
  else
    let c := N.to_nat (h / 2) in
    match take_bytes (byte_count w) b1 with
    | None => None
    | Some (vb, b2) =>
        match rec b2 with
        | None => None
        | Some rest => Some (repeat (of_le vb) c ++ rest)
        end
    end.

Fixpoint dec_runs (fuel : nat) (w : N) (b : bytes) : option (list N) :=
  match fuel with
  | O => match b with [] => Some [] | _ => None end
  | S f =>
      match b with
      | [] => Some []
      | _ =>
          match uvarint_dec b with
          | None => None
          | Some (h, b1) => dec_run_body (dec_runs f w) w h b1
          end
      end
  end.

Definition dec_hybrid (w : N) (b : bytes) : option (list N) := dec_runs (length b) w b.

Definition dec_dict_indexes (b : bytes) : option (list N) :=
  match b with
  | [] => None
  | w :: r => dec_hybrid w r
  end.

(* booleans: bit width 1; the decoded values are bits; [n] values are kept *)
Definition bits_of_byte (x : N) : list N := unpack 1 8 x.
Definition dec_boolean (b : bytes) : option (list N) :=
  match take_bytes 4 b with
  | None => None
  | Some (lenb, r) =>
      match take_bytes (N.to_nat (of_le lenb)) r with
      | None => None
      | Some (body, _) => dec_hybrid 1 body
      end
  end.
