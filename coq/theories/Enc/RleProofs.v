(** RLE / bit-packed hybrid: the specification decoder inverts the Go-mirroring
    encoders for every input and every bit width. *)
From Coq Require Import List NArith ZArith Lia Bool Arith.
From Coq Require Import ZifyN ZifyNat ZifyBool.
From PQ Require Import Base.Bytes Base.Varint Base.BitPack Base.ListExtra Enc.Rle.
Import ListNotations.
Open Scope N_scope.

(** * Part A: decoding any well-formed run list *)

Definition wf_run (w : N) (r : run) : Prop :=
  match r with
  | RunRLE c v => v < 256 ^ N.of_nat (byte_count w) /\ N.of_nat c < 2 ^ 62
  | RunBP gs => Forall (fun g => length g = 8%nat /\ fits w g) gs /\ N.of_nat (length gs) < 2 ^ 62
  end.

Lemma uvarint_enc_nonempty fuel x : uvarint_enc fuel x <> [].
Proof. destruct fuel; cbn [uvarint_enc]; [discriminate|]. destruct (x <? 128); discriminate. Qed.

Lemma take_bytes_app a b : take_bytes (length a) (a ++ b) = Some (a, b).
Proof.
  unfold take_bytes. rewrite app_length.
  destruct (Nat.leb_spec (length a) (length a + length b)) as [_|H]; [|lia].
  now rewrite firstn_app_exact, skipn_app_exact.
Qed.

Lemma pack_bytes_len8 w g : length g = 8%nat -> length (pack_bytes w g) = N.to_nat w.
Proof.
  intros H. rewrite pack_bytes_length, H. f_equal.
  change (N.of_nat 8) with 8. rewrite N.div_mul by discriminate. reflexivity.
Qed.

Lemma split_every_packed w gs :
  Forall (fun g => length g = 8%nat /\ fits w g) gs ->
  split_every (length gs) (N.to_nat w) (concat (map (pack_bytes w) gs)) = map (pack_bytes w) gs.
Proof.
  induction 1 as [|g gs [Hg _] _ IH]; cbn [length split_every map concat]; [reflexivity|].
  rewrite firstn_app_len, skipn_app_len by (apply pack_bytes_len8; exact Hg).
  now rewrite IH.
Qed.

Lemma concat_packed_length w gs :
  Forall (fun g => length g = 8%nat /\ fits w g) gs ->
  length (concat (map (pack_bytes w) gs)) = (length gs * N.to_nat w)%nat.
Proof.
  induction 1 as [|g gs [Hg _] _ IH]; cbn [length map concat]; [reflexivity|].
  rewrite app_length, IH, (pack_bytes_len8 w g Hg). lia.
Qed.

Lemma unpack_packed_groups w gs :
  Forall (fun g => length g = 8%nat /\ fits w g) gs ->
  map (unpack_bytes w 8) (map (pack_bytes w) gs) = gs.
Proof.
  induction 1 as [|g gs [Hg Hf] _ IH]; cbn [map]; [reflexivity|].
  rewrite IH. f_equal. rewrite <- Hg. apply unpack_bytes_pack_bytes; [exact Hf|].
  rewrite Hg. change (N.of_nat 8) with 8. apply N.mod_mul. discriminate.
Qed.

Lemma uvarint64_length_pos x : (0 < length (uvarint64 x))%nat.
Proof.
  pose proof (uvarint_enc_nonempty 9 x) as H. unfold uvarint64.
  destruct (uvarint_enc 9 x); [contradiction|cbn; lia].
Qed.

Lemma serialize_run_length_pos w r : (0 < length (serialize_run w r))%nat.
Proof.
  destruct r; cbn [serialize_run]; rewrite app_length;
    match goal with |- context [uvarint64 ?x] =>
      pose proof (uvarint_enc_nonempty 9 x) as H; unfold uvarint64;
      destruct (uvarint_enc 9 x); [contradiction|cbn; lia] end.
Qed.

Lemma dec_runs_step f w h p : h < 2 ^ 64 ->
  dec_runs (S f) w (uvarint64 h ++ p) = dec_run_body (dec_runs f w) w h p.
Proof.
  intros Hh. cbn [dec_runs].
  destruct (uvarint64 h ++ p) as [|x l] eqn:E.
  - exfalso. apply app_eq_nil in E. destruct E as [E _]. exact (uvarint_enc_nonempty 9 _ E).
  - rewrite <- E, uvarint64_roundtrip by exact Hh. reflexivity.
Qed.

Theorem dec_runs_serialize w rs : Forall (wf_run w) rs ->
  forall fuel, (length (serialize w rs) <= fuel)%nat ->
  dec_runs fuel w (serialize w rs) = Some (concat (map expand rs)).
Proof.
  induction 1 as [|r rs Hr Hrs IH]; intros fuel Hfuel.
  - destruct fuel; reflexivity.
  - unfold serialize in *. cbn [map concat] in *.
    pose proof (serialize_run_length_pos w r) as Hpos.
    rewrite app_length in Hfuel.
    destruct fuel as [|f]; [lia|].
    destruct r as [c v|gs]; cbn [serialize_run expand] in *.
    + destruct Hr as [Hv Hc].
      rewrite <- app_assoc, dec_runs_step by (change (2 ^ 64) with (4 * 2 ^ 62); lia).
      unfold dec_run_body.
      rewrite N.odd_mul, andb_false_l.
      rewrite (N.mul_comm 2), N.div_mul by discriminate. rewrite Nat2N.id.
      rewrite <- (to_le_length (byte_count w) v) at 1.
      rewrite take_bytes_app.
      rewrite IH.
      * rewrite of_le_to_le by exact Hv. reflexivity.
      * rewrite !app_length in Hfuel. pose proof (uvarint64_length_pos (2 * N.of_nat c)). lia.
    + destruct Hr as [Hgs Hlen].
      rewrite <- app_assoc, dec_runs_step by (change (2 ^ 64) with (4 * 2 ^ 62); lia).
      unfold dec_run_body.
      rewrite N.add_comm, N.odd_add_mul_2. cbn [N.odd].
      rewrite (N.mul_comm 2), N.div_add by discriminate.
      change (1 / 2) with 0. rewrite N.add_0_l, Nat2N.id.
      rewrite <- (concat_packed_length w gs Hgs).
      rewrite take_bytes_app.
      rewrite IH.
      * rewrite split_every_packed, unpack_packed_groups by exact Hgs.
        reflexivity.
      * rewrite !app_length in Hfuel. pose proof (uvarint64_length_pos (2 * N.of_nat (length gs) + 1)). lia.
Qed.

(** * Part B: run detection partitions the input *)

Lemma eqb_list_eq a : forall b, eqb_list a b = true -> a = b.
Proof.
  unfold eqb_list. induction a as [|x a IH]; intros [|y b] H; cbn in *; try discriminate; [reflexivity|].
  apply andb_true_iff in H. destruct H as [Hl H]. apply andb_true_iff in H. destruct H as [Hxy H].
  apply N.eqb_eq in Hxy. subst y. f_equal. apply IH. now rewrite Hl, H.
Qed.

Lemma count_equal_spec pat gs :
  (count_equal pat gs <= length gs)%nat /\
  firstn (count_equal pat gs) gs = repeat pat (count_equal pat gs).
Proof.
  induction gs as [|g r IH]; cbn [count_equal]; [split; [cbn; lia|reflexivity]|].
  destruct (eqb_list g pat) eqn:E.
  - apply eqb_list_eq in E. subst g. destruct IH as [IH1 IH2]. split; [cbn; lia|].
    cbn [firstn repeat]. now rewrite IH2.
  - split; [cbn; lia|reflexivity].
Qed.

Lemma concat_repeat_broadcast v c : concat (repeat (broadcast v) c) = repeat v (8 * c).
Proof.
  induction c as [|c IH]; [reflexivity|].
  cbn [repeat concat]. rewrite IH. unfold broadcast.
  rewrite <- repeat_app. f_equal. lia.
Qed.

Lemma span_bytes_le gs : forall prev, (span_bytes prev gs <= length gs)%nat.
Proof. induction gs as [|g r IH]; intros prev; cbn [span_bytes length]; [lia|]. destruct (eqb_list _ _); [lia|]. specialize (IH g). lia. Qed.

Lemma span_int32_le gs : (span_int32 gs <= length gs)%nat.
Proof. induction gs as [|g r IH]; cbn [span_int32 length]; [lia|]. destruct (is_const g); lia. Qed.

Definition groups_ok (w : N) (gs : list (list N)) : Prop :=
  Forall (fun g => length g = 8%nat /\ fits w g) gs.

Lemma groups_ok_firstn w n gs : groups_ok w gs -> groups_ok w (firstn n gs).
Proof. apply Forall_firstn. Qed.
Lemma groups_ok_skipn w n gs : groups_ok w gs -> groups_ok w (skipn n gs).
Proof. apply Forall_skipn. Qed.

Lemma hd_fits w g : length g = 8%nat -> fits w g -> hd 0 g < 2 ^ w.
Proof. destruct g as [|x g]; cbn; [discriminate|]. intros _ H. now inversion H. Qed.

Lemma pow2_le_256pow w : 2 ^ w <= 256 ^ N.of_nat (byte_count w).
Proof.
  unfold byte_count. rewrite N2Nat.id.
  change 256 with (2 ^ 8). rewrite <- N.pow_mul_r.
  apply N.pow_le_mono_r; [discriminate|].
  pose proof (N.div_mod (w + 7) 8 ltac:(discriminate)) as H.
  pose proof (N.mod_lt (w + 7) 8 ltac:(discriminate)). lia.
Qed.

Lemma detect_groups_spec int32 w : forall fuel gs,
  (length gs <= fuel)%nat -> groups_ok w gs -> N.of_nat (length gs) < 2 ^ 58 ->
  concat (map expand (detect_groups int32 fuel gs)) = concat gs /\
  Forall (wf_run w) (detect_groups int32 fuel gs).
Proof.
  induction fuel as [|f IH]; intros gs Hfuel Hok Hlen.
  - destruct gs; [split; [reflexivity|constructor]|cbn in Hfuel; lia].
  - cbn [detect_groups]. destruct gs as [|g r] eqn:Egs; [split; [reflexivity|constructor]|].
    rewrite <- Egs in *.
    set (c := count_equal (broadcast (hd 0 g)) gs).
    destruct (count_equal_spec (broadcast (hd 0 g)) gs) as [Hc1 Hc2]. fold c in Hc1, Hc2.
    assert (Hg : length g = 8%nat /\ fits w g) by (subst gs; inversion Hok; assumption).
    destruct (Nat.ltb_spec 0 c) as [Hpos|Hzero].
    + destruct (IH (skipn c gs)) as [E W].
      * rewrite skipn_length. lia.
      * now apply groups_ok_skipn.
      * rewrite skipn_length. lia.
      * split.
        -- cbn [map concat expand]. rewrite E.
           rewrite <- (firstn_skipn c gs) at 2. rewrite concat_app, Hc2, concat_repeat_broadcast.
           reflexivity.
        -- constructor; [|exact W]. cbn [wf_run]. split.
           ++ eapply N.lt_le_trans; [apply hd_fits; [exact (proj1 Hg)|exact (proj2 Hg)]|apply pow2_le_256pow].
           ++ change (2 ^ 62) with (16 * 2 ^ 58). lia.
    + set (c2 := S (if int32 then span_int32 r else span_bytes g r)).
      assert (Hc2le : (c2 <= length gs)%nat).
      { subst c2 gs. cbn [length]. destruct int32; [pose proof (span_int32_le r)|pose proof (span_bytes_le r g)]; lia. }
      destruct (IH (skipn c2 gs)) as [E W].
      * rewrite skipn_length. subst c2. lia.
      * now apply groups_ok_skipn.
      * rewrite skipn_length. lia.
      * split.
        -- cbn [map concat expand]. rewrite E, <- concat_app, firstn_skipn. reflexivity.
        -- constructor; [|exact W]. cbn [wf_run]. split.
           ++ now apply groups_ok_firstn.
           ++ rewrite firstn_length. change (2 ^ 62) with (16 * 2 ^ 58). lia.
Qed.

Lemma count_same_spec v l :
  (count_same v l <= length l)%nat /\ firstn (count_same v l) l = repeat v (count_same v l).
Proof.
  induction l as [|x r IH]; cbn [count_same]; [split; [cbn; lia|reflexivity]|].
  destruct (N.eqb_spec x v) as [->|_].
  - destruct IH as [IH1 IH2]. split; [cbn; lia|]. cbn [firstn repeat]. now rewrite IH2.
  - split; [cbn; lia|reflexivity].
Qed.

Lemma detect_tail_spec w : forall fuel l,
  (length l <= fuel)%nat -> fits w l -> N.of_nat (length l) < 2 ^ 61 ->
  concat (map expand (detect_tail fuel l)) = l /\ Forall (wf_run w) (detect_tail fuel l).
Proof.
  induction fuel as [|f IH]; intros l Hfuel Hfit Hlen.
  - destruct l; [split; [reflexivity|constructor]|cbn in Hfuel; lia].
  - cbn [detect_tail]. destruct l as [|v r]; [split; [reflexivity|constructor]|].
    destruct (count_same_spec v r) as [Hc1 Hc2]. set (c := count_same v r) in *.
    inversion Hfit as [|? ? Hv Hr]; subst.
    cbn [length] in *.
    destruct (IH (skipn c r)) as [E W].
    + rewrite skipn_length. lia.
    + now apply Forall_skipn.
    + rewrite skipn_length. lia.
    + split.
      * cbn [map concat expand repeat]. rewrite E. cbn [app]. f_equal.
        rewrite <- (firstn_skipn c r) at 2. now rewrite Hc2.
      * constructor; [|exact W]. cbn [wf_run]. split.
        -- eapply N.lt_le_trans; [exact Hv|apply pow2_le_256pow].
        -- change (2 ^ 62) with (2 * 2 ^ 61). lia.
Qed.

Lemma groups8_spec {A} : forall fuel (l : list A) k,
  length l = (8 * k)%nat -> (k <= fuel)%nat ->
  concat (groups8 fuel l) = l /\ Forall (fun g => length g = 8%nat) (groups8 fuel l)
  /\ length (groups8 fuel l) = k.
Proof.
  induction fuel as [|f IH]; intros l k Hl Hk.
  - assert (k = 0%nat) by lia. subst k. destruct l; [|discriminate].
    repeat split. constructor.
  - cbn [groups8]. destruct (Nat.leb_spec 8 (length l)) as [H8|H8].
    + destruct k as [|k]; [lia|].
      destruct (IH (skipn 8 l) k) as (E & F & L).
      * rewrite skipn_length. lia.
      * lia.
      * cbn [concat length]. rewrite E, firstn_skipn. repeat split; [|now rewrite L].
        constructor; [rewrite firstn_length; lia|exact F].
    + assert (k = 0%nat) by lia. subst k. destruct l; [|cbn in Hl; lia].
      repeat split. constructor.
Qed.

Lemma fits_concat_groups w (gs : list (list N)) :
  fits w (concat gs) -> Forall (fun g => length g = 8%nat) gs -> groups_ok w gs.
Proof.
  induction gs as [|g gs IH]; intros Hf Hl; [constructor|].
  cbn [concat] in Hf. apply Forall_app in Hf. destruct Hf as [Hg Hgs].
  inversion Hl; subst. constructor; [split; assumption|]. now apply IH.
Qed.

Theorem detect_spec int32 w src :
  fits w src -> N.of_nat (length src) < 2 ^ 61 ->
  concat (map expand (detect int32 src)) = src /\ Forall (wf_run w) (detect int32 src).
Proof.
  intros Hfit Hlen. unfold detect.
  set (n8 := (length src / 8 * 8)%nat).
  assert (Hn8 : (n8 <= length src)%nat).
  { subst n8. pose proof (Nat.div_mod (length src) 8 ltac:(lia)). lia. }
  assert (Hfl : length (firstn n8 src) = (8 * (length src / 8))%nat).
  { rewrite firstn_length. subst n8. lia. }
  destruct (groups8_spec (length src) (firstn n8 src) (length src / 8) Hfl) as (E & F & L).
  { pose proof (Nat.div_mod (length src) 8 ltac:(lia)). lia. }
  set (gs := groups8 (length src) (firstn n8 src)) in *.
  assert (Hok : groups_ok w gs).
  { apply fits_concat_groups; [|exact F]. rewrite E. now apply Forall_firstn. }
  destruct (detect_groups_spec int32 w (length gs) gs ltac:(lia) Hok) as [E1 W1].
  { rewrite L. change (2 ^ 61) with (8 * 2 ^ 58) in Hlen.
    pose proof (Nat.div_mod (length src) 8 ltac:(lia)). lia. }
  destruct (detect_tail_spec w (length src) (skipn n8 src)) as [E2 W2].
  { rewrite skipn_length. lia. }
  { now apply Forall_skipn. }
  { rewrite skipn_length. lia. }
  split.
  - rewrite map_app, concat_app, E1, E2, E. apply firstn_skipn.
  - apply Forall_app. split; assumption.
Qed.

(** * The hybrid encoders round-trip *)

Theorem hybrid_roundtrip int32 w src :
  fits w src -> N.of_nat (length src) < 2 ^ 61 ->
  exists b, enc_hybrid int32 w src = Some b /\ dec_hybrid w b = Some src.
Proof.
  intros Hfit Hlen. unfold enc_hybrid.
  destruct (N.eqb_spec w 0) as [->|Hw].
  - assert (Hz : Forall (fun v => v = 0) src).
    { eapply Forall_impl; [|exact Hfit]. cbn. intros a Ha. change (2 ^ 0) with 1 in Ha. lia. }
    assert (Hfb : forallb (fun v => v =? 0) src = true).
    { apply forallb_forall. intros x Hx. rewrite Forall_forall in Hz. rewrite (Hz x Hx). reflexivity. }
    rewrite Hfb. eexists. split; [reflexivity|].
    assert (Esrc : src = repeat 0 (length src)).
    { clear -Hz. induction Hz as [|v r Hv Hr IH]; [reflexivity|]. subst v. cbn. now rewrite <- IH. }
    pose proof (dec_runs_serialize 0 [RunRLE (length src) 0]) as H.
    unfold serialize, dec_hybrid in *. cbn [map concat serialize_run expand] in H.
    change (byte_count 0) with 0%nat in H. cbn [to_le] in H. rewrite !app_nil_r in H.
    rewrite H; [now rewrite <- Esrc| |lia].
    constructor; [|constructor]. cbn [wf_run]. split.
    + change (byte_count 0) with 0%nat. cbn. lia.
    + change (2 ^ 62) with (2 * 2 ^ 61). lia.
  - destruct (detect_spec int32 w src Hfit Hlen) as [E W].
    eexists. split; [reflexivity|]. unfold dec_hybrid.
    rewrite dec_runs_serialize by (auto; lia). now rewrite E.
Qed.

(** RLE_DICTIONARY index pages: the width byte is the maximal bit length *)
Lemma fold_max_init l : forall a, a <= fold_left N.max l a.
Proof. induction l as [|y l IH]; intros a; cbn [fold_left]; [lia|]. etransitivity; [|apply IH]. lia. Qed.

Lemma fold_max_ge l : forall a x, In x l -> x <= fold_left N.max l a.
Proof.
  induction l as [|y l IH]; intros a x Hin; [destruct Hin|].
  cbn [fold_left]. destruct Hin as [->|Hin].
  - etransitivity; [|apply fold_max_init]. lia.
  - apply IH. exact Hin.
Qed.

Theorem dict_indexes_roundtrip src :
  N.of_nat (length src) < 2 ^ 61 ->
  exists b, enc_dict_indexes src = Some b /\ dec_dict_indexes b = Some src.
Proof.
  intros Hlen. unfold enc_dict_indexes, enc_int32.
  set (w := fold_left N.max (map bitlen src) 0).
  assert (Hfit : fits w src).
  { apply Forall_forall. intros v Hv. apply bitlen_le_lt. apply fold_max_ge. now apply in_map. }
  destruct (hybrid_roundtrip true w src Hfit Hlen) as (b & Hb & Hd).
  rewrite Hb. eexists. split; [reflexivity|]. exact Hd.
Qed.

(** * Booleans (encodeBits): packed bytes in, bits out *)

Definition bits_of (src : list N) : list N := concat (map bits_of_byte src).

Definition to_run (r : bits_run) : run :=
  match r with
  | BitsRLE n v => RunRLE (8 * n) (v mod 2)
  | BitsBP raw => RunBP (map bits_of_byte raw)
  end.

Definition bits_run_ok (r : bits_run) : Prop :=
  match r with
  | BitsRLE n v => (0 < n)%nat /\ (v = 0 \/ v = 255) /\ N.of_nat n < 2 ^ 58
  | BitsBP raw => wf_bytes raw /\ N.of_nat (length raw) < 2 ^ 58 /\ (0 < length raw)%nat
  end.

Lemma bits_of_byte_len x : length (bits_of_byte x) = 8%nat.
Proof. apply unpack_length. Qed.

Lemma pack_bits_of_byte x : x < 256 -> pack_bytes 1 (bits_of_byte x) = [x].
Proof.
  intros Hx. unfold pack_bytes, bits_of_byte. rewrite unpack_length.
  change (N.to_nat (1 * N.of_nat 8 / 8)) with 1%nat.
  rewrite pack_unpack by (change (2 ^ (1 * N.of_nat 8)) with 256; exact Hx).
  cbn [to_le]. now rewrite N.mod_small.
Qed.

Lemma serialize_bits_run_eq r : bits_run_ok r -> serialize_bits_run r = serialize_run 1 (to_run r).
Proof.
  destruct r as [n v|raw]; cbn [bits_run_ok serialize_bits_run to_run serialize_run].
  - intros (Hn & Hv & _). destruct (Nat.eqb_spec n 0); [lia|].
    change (byte_count 1) with 1%nat. cbn [to_le].
    replace (N.of_nat (8 * n)) with (8 * N.of_nat n) by lia.
    f_equal. f_equal. symmetry. apply N.mod_small.
    pose proof (N.mod_lt v 2 ltac:(discriminate)). lia.
  - intros (Hwf & _ & _). rewrite map_length. f_equal.
    induction Hwf as [|x r Hx Hr IH]; cbn [map concat]; [reflexivity|].
    rewrite pack_bits_of_byte by exact Hx. cbn [app]. f_equal. exact IH.
Qed.

Lemma to_run_wf r : bits_run_ok r -> wf_run 1 (to_run r).
Proof.
  destruct r as [n v|raw]; cbn [bits_run_ok to_run wf_run].
  - intros (Hn & Hv & Hl). split.
    + change (byte_count 1) with 1%nat. pose proof (N.mod_lt v 2 ltac:(discriminate)). cbn. lia.
    + change (2 ^ 62) with (16 * 2 ^ 58). lia.
  - intros (Hwf & Hl & _). split.
    + apply Forall_forall. intros g Hg. apply in_map_iff in Hg. destruct Hg as (x & <- & _).
      split; [apply bits_of_byte_len|apply unpack_fits].
    + rewrite map_length. change (2 ^ 62) with (16 * 2 ^ 58). lia.
Qed.

Lemma expand_to_run r : bits_run_ok r ->
  expand (to_run r) = match r with
                      | BitsRLE n v => bits_of (repeat v n)
                      | BitsBP raw => bits_of raw
                      end.
Proof.
  destruct r as [n v|raw]; cbn [bits_run_ok to_run expand]; [|reflexivity].
  intros (_ & Hv & _). unfold bits_of.
  assert (E : bits_of_byte v = repeat (v mod 2) 8) by (destruct Hv; subst v; reflexivity).
  induction n as [|n IH]; [reflexivity|].
  cbn [repeat map concat]. rewrite <- IH, E, <- repeat_app. f_equal. lia.
Qed.

Definition bits_payload (r : bits_run) : list N :=
  match r with BitsRLE n v => repeat v n | BitsBP raw => raw end.

Lemma span_bits_le l : forall prev, (span_bits prev l <= length l)%nat.
Proof.
  induction l as [|x r IH]; intros prev; cbn [span_bits length]; [lia|].
  destruct (_ || _); [specialize (IH x); lia|lia].
Qed.

Lemma detect_bits_loop_spec : forall fuel l,
  (length l <= fuel)%nat -> wf_bytes l -> N.of_nat (length l) < 2 ^ 58 ->
  concat (map bits_payload (detect_bits_loop fuel l)) = l /\
  Forall bits_run_ok (detect_bits_loop fuel l).
Proof.
  induction fuel as [|f IH]; intros l Hfuel Hwf Hlen.
  - destruct l; [split; [reflexivity|constructor]|cbn in Hfuel; lia].
  - cbn [detect_bits_loop]. destruct l as [|v r] eqn:El; [split; [reflexivity|constructor]|].
    rewrite <- El in *.
    destruct (count_same_spec v r) as [Hc1 Hc2]. set (same := count_same v r) in *.
    assert (Hv : v < 256) by (subst l; inversion Hwf; assumption).
    assert (Hr : wf_bytes r) by (subst l; inversion Hwf; assumption).
    assert (Hll : length l = S (length r)) by (subst l; reflexivity).
    destruct (((v =? 0) || (v =? 255)) && (0 <? same)%nat) eqn:Eb.
    + apply andb_true_iff in Eb. destruct Eb as [Ev Es].
      apply Nat.ltb_lt in Es.
      destruct (IH (skipn same r)) as [E W].
      * rewrite skipn_length. lia.
      * now apply Forall_skipn.
      * rewrite skipn_length. lia.
      * split.
        -- cbn [map concat bits_payload repeat]. rewrite E. subst l. cbn [app]. f_equal.
           rewrite <- (firstn_skipn same r) at 2. now rewrite Hc2.
        -- constructor; [|exact W]. cbn [bits_run_ok]. split; [lia|]. split; [|lia].
           apply orb_true_iff in Ev. destruct Ev as [Ev|Ev]; apply N.eqb_eq in Ev; auto.
    + set (j := S (span_bits v r)).
      assert (Hj : (1 <= j <= length l)%nat) by (subst j; pose proof (span_bits_le r v); lia).
      set (j' := if (1 <? j)%nat && (j <? length l)%nat then (j - 1)%nat else j).
      assert (Hj' : (1 <= j' <= length l)%nat).
      { subst j'. destruct (Nat.ltb_spec 1 j); destruct (Nat.ltb_spec j (length l)); cbn [andb]; lia. }
      destruct (IH (skipn j' l)) as [E W].
      * rewrite skipn_length. lia.
      * now apply Forall_skipn.
      * rewrite skipn_length. lia.
      * split.
        -- cbn [map concat bits_payload]. rewrite E. apply firstn_skipn.
        -- constructor; [|exact W]. cbn [bits_run_ok]. split.
           ++ now apply Forall_firstn.
           ++ rewrite firstn_length. split; lia.
Qed.

Lemma forallb_eqb_repeat (c : N) l : forallb (fun v => v =? c) l = true -> l = repeat c (length l).
Proof.
  induction l as [|x l IH]; cbn [forallb length repeat]; [reflexivity|].
  intros H. apply andb_true_iff in H. destruct H as [Hx Hl]. apply N.eqb_eq in Hx. subst x.
  now rewrite <- IH.
Qed.

Lemma detect_bits_spec src :
  src <> [] -> wf_bytes src -> N.of_nat (length src) < 2 ^ 58 ->
  concat (map bits_payload (detect_bits src)) = src /\ Forall bits_run_ok (detect_bits src).
Proof.
  intros Hne Hwf Hlen. unfold detect_bits.
  destruct (Nat.eqb_spec (length src) 0) as [E|_]; [destruct src; [contradiction|discriminate]|].
  cbn [orb].
  destruct (forallb (fun v => v =? 0) src) eqn:Ez.
  - apply forallb_eqb_repeat in Ez. cbn [orb map concat bits_payload].
    rewrite app_nil_r. split.
    + rewrite Ez at 1 3. destruct src; [contradiction|]. cbn [length repeat hd]. reflexivity.
    + constructor; [|constructor]. cbn [bits_run_ok]. split; [destruct src; [contradiction|cbn; lia]|].
      split; [|exact Hlen]. left. rewrite Ez. destruct src; [contradiction|reflexivity].
  - cbn [orb]. destruct (forallb (fun v => v =? 255) src) eqn:Eo.
    + apply forallb_eqb_repeat in Eo. cbn [map concat bits_payload].
      rewrite app_nil_r. split.
      * rewrite Eo at 1 3. destruct src; [contradiction|]. cbn [length repeat hd]. reflexivity.
      * constructor; [|constructor]. cbn [bits_run_ok]. split; [destruct src; [contradiction|cbn; lia]|].
        split; [|exact Hlen]. right. rewrite Eo. destruct src; [contradiction|reflexivity].
    + apply detect_bits_loop_spec; auto.
Qed.

Lemma bits_of_app a b : bits_of (a ++ b) = bits_of a ++ bits_of b.
Proof. unfold bits_of. now rewrite map_app, concat_app. Qed.

Lemma bits_of_concat ls : bits_of (concat ls) = concat (map bits_of ls).
Proof.
  induction ls as [|l ls IH]; [reflexivity|]. cbn [concat map]. now rewrite bits_of_app, IH.
Qed.

Theorem boolean_body_roundtrip src :
  src <> [] -> wf_bytes src -> N.of_nat (length src) < 2 ^ 58 ->
  dec_hybrid 1 (enc_bits_body src) = Some (bits_of src).
Proof.
  intros Hne Hwf Hlen. destruct (detect_bits_spec src Hne Hwf Hlen) as [E W].
  unfold enc_bits_body, dec_hybrid.
  assert (Es : concat (map serialize_bits_run (detect_bits src)) = serialize 1 (map to_run (detect_bits src))).
  { unfold serialize. rewrite map_map. f_equal. apply map_ext_in. intros r Hr.
    apply serialize_bits_run_eq. rewrite Forall_forall in W. now apply W. }
  rewrite Es, dec_runs_serialize.
  - f_equal. rewrite <- E at 2. rewrite bits_of_concat, !map_map. f_equal.
    apply map_ext_in. intros r Hr. rewrite Forall_forall in W. specialize (W r Hr).
    rewrite expand_to_run by exact W. destruct r; reflexivity.
  - apply Forall_forall. intros r Hr. apply in_map_iff in Hr. destruct Hr as (r0 & <- & Hr0).
    apply to_run_wf. rewrite Forall_forall in W. now apply W.
  - lia.
Qed.

(** EncodeBoolean / a decoder that knows the number of values of the page *)
Definition dec_boolean_n (n : nat) (b : bytes) : option (list N) :=
  if (n =? 0)%nat then Some []
  else match dec_boolean b with
       | Some l => if (n <=? length l)%nat then Some (firstn n l) else None
       | None => None
       end.

Theorem boolean_roundtrip src n :
  wf_bytes src -> N.of_nat (length src) < 2 ^ 26 -> (n <= 8 * length src)%nat ->
  dec_boolean_n n (enc_boolean src) = Some (firstn n (bits_of src)).
Proof.
  intros Hwf Hlen Hn. unfold dec_boolean_n.
  destruct (Nat.eqb_spec n 0) as [->|Hn0]; [reflexivity|].
  assert (Hne : src <> []) by (destruct src; [cbn in Hn; lia|discriminate]).
  unfold dec_boolean, enc_boolean.
  set (body := enc_bits_body src).
  assert (Hbl : N.of_nat (length body) < 256 ^ N.of_nat 4).
  { (* the body is never longer than 11 bytes per input byte *)
    subst body. unfold enc_bits_body.
    destruct (detect_bits_spec src Hne Hwf ltac:(eapply N.lt_trans; [exact Hlen|reflexivity])) as [E W].
    assert (Hb : forall rs, Forall bits_run_ok rs ->
                 (length (concat (map serialize_bits_run rs)) <= 11 * length (concat (map bits_payload rs)))%nat).
    { induction 1 as [|r rs Hr Hrs IH]; [cbn; lia|].
      cbn [map concat]. rewrite !app_length.
      assert (Hu : forall x, (length (uvarint64 x) <= 10)%nat).
      { intros x. unfold uvarint64. generalize 9%nat as fuel. intros fuel. revert x.
        assert (G : forall fuel x, (length (uvarint_enc fuel x) <= S fuel)%nat).
        { induction fuel0 as [|f IHf]; intros x; cbn [uvarint_enc]; [cbn; lia|].
          destruct (x <? 128); cbn [length]; [lia|]. specialize (IHf (x / 128)). lia. }
        intros x. specialize (G fuel x). (* fuel is 9 here *) 
        revert G. generalize (length (uvarint_enc fuel x)). intros; lia. }
      destruct r as [k v|raw]; cbn [serialize_bits_run bits_payload bits_run_ok] in *.
      - destruct Hr as (Hk & _ & _). rewrite app_length, repeat_length.
        specialize (Hu (2 * (8 * N.of_nat k))). destruct (k =? 0)%nat; cbn [length]; lia.
      - rewrite app_length. destruct Hr as (Hr & _ & Hpos).
        specialize (Hu (2 * N.of_nat (length raw) + 1)). lia. }
    specialize (Hb _ W). rewrite E in Hb.
    change (256 ^ N.of_nat 4) with (2 ^ 32). change (2 ^ 26) with 67108864 in Hlen.
    change (2 ^ 32) with 4294967296. lia. }
  rewrite <- (to_le_length 4 (N.of_nat (length body))) at 1.
  rewrite take_bytes_app, of_le_to_le by exact Hbl.
  rewrite Nat2N.id.
  assert (Hta : take_bytes (length body) body = Some (body, [])).
  { pose proof (take_bytes_app body []) as H. now rewrite app_nil_r in H. }
  rewrite Hta. subst body.
  rewrite boolean_body_roundtrip; auto; [|eapply N.lt_trans; [exact Hlen|reflexivity]].
  assert (Hl : length (bits_of src) = (8 * length src)%nat).
  { unfold bits_of. clear. induction src as [|x s IH]; [reflexivity|].
    cbn [map concat length]. rewrite app_length, bits_of_byte_len, IH. lia. }
  rewrite Hl. destruct (Nat.leb_spec n (8 * length src)); [reflexivity|lia].
Qed.
