(** Refinement of the specification decoder of the RLE / bit-packed hybrid by
    the models of Go's decoders (Enc/GoDecRle.v).

    [dec_runs64] is [Rle.dec_runs] restricted to what a reader with 64-bit
    integers can take: run headers are varints of at most 10 bytes / 64 bits
    and announce 1 .. MaxInt32 values (groups).  On EVERY byte string that
    [dec_runs64] accepts, Go's decodeBytes (levels, widths 0..8) and
    decodeInt32 (widths 0..32) return the same values ([go_levels_refines],
    [go_int32_refines]); the encoders' output is such a string
    ([hybrid_roundtrip64]), so Go's decoders invert Go's encoders.  What is
    outside [dec_runs64] and accepted by [Rle.dec_runs]: headers announcing
    0 values (Go skips them without reading a value: [*_empty_run_refuted]),
    more than MaxInt32 values, varints longer than 10 bytes (Go: errors).
    Booleans (decodeBits): the image of the encoder. *)
From Coq Require Import List NArith ZArith Lia Bool Arith.
From Coq Require Import ZifyN ZifyNat ZifyBool.
From PQ Require Import Base.Bytes Base.Varint Base.BitPack Base.ListExtra.
From PQ Require Import Enc.Rle Enc.RleProofs Enc.GoDecBase Enc.GoDecBaseProofs Enc.GoDecRle.
Import ListNotations.
Open Scope N_scope.

Definition count_ok (c : N) : bool := (0 <? c) && (c <=? max_count).

Fixpoint dec_runs64 (fuel : nat) (w : N) (b : bytes) : option (list N) :=
  match fuel with
  | O => match b with [] => Some [] | _ => None end
  | S f =>
      match b with
      | [] => Some []
      | _ =>
          match go_uvarint b with
          | None => None
          | Some (h, b1) =>
              if count_ok (h / 2) then dec_run_body (dec_runs64 f w) w h b1 else None
          end
      end
  end.

Definition dec_hybrid64 (w : N) (b : bytes) : option (list N) := dec_runs64 (length b) w b.

(** * [dec_runs64] is a restriction of the specification decoder *)

Lemma dec_run_body_mono (r1 r2 : bytes -> option (list N)) w h b xs :
  (forall b ys, r1 b = Some ys -> r2 b = Some ys) ->
  dec_run_body r1 w h b = Some xs -> dec_run_body r2 w h b = Some xs.
Proof.
  intros Hr. unfold dec_run_body.
  destruct (N.odd h).
  - destruct (Rle.take_bytes _ b) as [[body b2]|]; [|discriminate].
    destruct (r1 b2) as [rest|] eqn:E; [|discriminate]. now rewrite (Hr _ _ E).
  - destruct (Rle.take_bytes _ b) as [[vb b2]|]; [|discriminate].
    destruct (r1 b2) as [rest|] eqn:E; [|discriminate]. now rewrite (Hr _ _ E).
Qed.

Theorem dec_runs64_sound w : forall f b xs, dec_runs64 f w b = Some xs -> dec_runs f w b = Some xs.
Proof.
  induction f as [|f IH]; intros b xs H.
  - exact H.
  - destruct b as [|x l]; [exact H|].
    cbn [dec_runs64] in H. cbn [dec_runs].
    destruct (go_uvarint (x :: l)) as [[h b1]|] eqn:E; [|discriminate].
    rewrite (go_uvarint_spec _ _ E).
    destruct (count_ok (h / 2)); [|discriminate].
    eapply dec_run_body_mono; [|exact H]. exact IH.
Qed.

(** * Go's decodeBytes and decodeInt32 on everything [dec_runs64] accepts *)

Lemma take_bytes_some n b x y :
  Rle.take_bytes n b = Some (x, y) -> (n <= length b)%nat /\ x = firstn n b /\ y = skipn n b.
Proof.
  unfold Rle.take_bytes. destruct (Nat.leb_spec n (length b)); [|discriminate].
  intros Hx. inversion Hx. auto.
Qed.

Lemma nb_levels c w : (c * 8 * w + 7) / 8 = c * w.
Proof.
  replace (c * 8 * w + 7) with (7 + (c * w) * 8) by lia.
  rewrite N.div_add by discriminate. reflexivity.
Qed.

Lemma chunked_split_every {A} g n : forall l : list A, chunked g n l = split_every g n l.
Proof. induction g as [|g IH]; intros l; cbn [chunked split_every]; [reflexivity|]. now rewrite IH. Qed.

Lemma count_ok_spec c : count_ok c = true -> (c =? 0) = false /\ (max_count <? c) = false.
Proof.
  unfold count_ok. intros H. apply andb_true_iff in H. destruct H as [H1 H2].
  apply N.ltb_lt in H1. apply N.leb_le in H2.
  split; [apply N.eqb_neq; lia|apply N.ltb_ge; exact H2].
Qed.

Lemma byte_count_levels w : w <= 8 -> w <> 0 -> byte_count w = 1%nat.
Proof.
  intros H1 H2. unfold byte_count.
  assert (E : (w + 7) / 8 = 1).
  { symmetry. apply (N.div_unique (w + 7) 8 1 (w - 1)); lia. }
  now rewrite E.
Qed.

Lemma go_bytes_run_refines w (Hw : w <= 8) rec64 recgo h b1 xs :
  (forall b ys, rec64 b = Some ys -> recgo b = GOk ys) ->
  count_ok (h / 2) = true ->
  dec_run_body rec64 w h b1 = Some xs -> go_bytes_run recgo w h b1 = GOk xs.
Proof.
  intros Hrec Hc H. unfold go_bytes_run.
  destruct (count_ok_spec _ Hc) as [E0 Em]. rewrite E0, Em.
  unfold dec_run_body in H.
  destruct (N.odd h).
  - destruct (Rle.take_bytes _ b1) as [[body b2]|] eqn:Et; [|discriminate].
    destruct (rec64 b2) as [rest|] eqn:Er; [|discriminate].
    apply take_bytes_some in Et. destruct Et as (Hle & -> & ->).
    inversion H; subst xs. clear H.
    rewrite nb_levels.
    assert (En : N.to_nat (h / 2 * w) = (N.to_nat (h / 2) * N.to_nat w)%nat) by lia.
    assert (Hf : fits_len (h / 2 * w) b1 = true) by (apply fits_len_true; lia).
    rewrite Hf. cbn [negb]. rewrite En.
    rewrite (Hrec _ _ Er). cbn [gbind].
    unfold go_unpack_groups. rewrite go_unpack_chunks_groups by exact Hw.
    now rewrite chunked_split_every.
  - destruct (Rle.take_bytes _ b1) as [[vb b2]|] eqn:Et; [|discriminate].
    destruct (rec64 b2) as [rest|] eqn:Er; [|discriminate].
    apply take_bytes_some in Et. destruct Et as (Hle & -> & ->).
    inversion H; subst xs. clear H.
    destruct (N.eqb_spec w 0) as [->|Hw0].
    + change (byte_count 0) with 0%nat in *. cbn [negb andb firstn skipn of_le] in *.
      rewrite (Hrec _ _ Er). reflexivity.
    + rewrite (byte_count_levels w Hw Hw0) in *. cbn [negb andb].
      assert (Hf : fits_len 1 b1 = true) by (apply fits_len_true; lia).
      rewrite Hf. cbn [negb].
      destruct b1 as [|x l]; [cbn in Hle; lia|].
      cbn [hd tl firstn skipn of_le] in *. rewrite (Hrec _ _ Er). cbn [gbind].
      replace (x + 256 * 0) with x by lia. reflexivity.
Qed.

(** Go's decodeBytes returns what the specification decoder returns, on every
    byte string accepted by [dec_runs64] *)
Theorem go_levels_refines w (Hw : w <= 8) : forall f b xs,
  dec_runs64 f w b = Some xs -> go_decode_bytes f w b = GOk xs.
Proof.
  induction f as [|f IH]; intros b xs H.
  - destruct b; [inversion H; reflexivity|discriminate].
  - destruct b as [|x l]; [inversion H; reflexivity|].
    cbn [dec_runs64] in H. cbn [go_decode_bytes].
    destruct (go_uvarint (x :: l)) as [[h b1]|]; [|discriminate].
    destruct (count_ok (h / 2)) eqn:Hc; [|discriminate].
    eapply go_bytes_run_refines; eauto.
Qed.

Lemma go_int32_run_refines w (Hw : w <= 32) pinned rec64 recgo h b1 xs :
  (forall b ys, rec64 b = Some ys -> recgo b = GOk ys) ->
  count_ok (h / 2) = true ->
  dec_run_body rec64 w h b1 = Some xs -> go_int32_run pinned recgo w h b1 = GOk xs.
Proof.
  intros Hrec Hc H. unfold go_int32_run.
  destruct (count_ok_spec _ Hc) as [E0 Em]. rewrite E0, Em.
  unfold dec_run_body in H.
  destruct (N.odd h).
  - destruct (Rle.take_bytes _ b1) as [[body b2]|] eqn:Et; [|discriminate].
    destruct (rec64 b2) as [rest|] eqn:Er; [|discriminate].
    apply take_bytes_some in Et. destruct Et as (Hle & -> & ->).
    inversion H; subst xs. clear H.
    assert (En : N.to_nat (h / 2 * w) = (N.to_nat (h / 2) * N.to_nat w)%nat) by lia.
    assert (Hf : fits_len (h / 2 * w) b1 = true) by (apply fits_len_true; lia).
    rewrite Hf. cbn [negb]. rewrite En.
    rewrite (Hrec _ _ Er). cbn [gbind].
    rewrite go_unpack_chunks_groups by exact Hw.
    now rewrite chunked_split_every.
  - destruct (Rle.take_bytes _ b1) as [[vb b2]|] eqn:Et; [|discriminate].
    destruct (rec64 b2) as [rest|] eqn:Er; [|discriminate].
    apply take_bytes_some in Et. destruct Et as (Hle & -> & ->).
    inversion H; subst xs. clear H.
    unfold byte_count in *.
    assert (Hf : fits_len ((w + 7) / 8) b1 = true) by (apply fits_len_true; lia).
    rewrite Hf. cbn [negb].
    rewrite (Hrec _ _ Er). reflexivity.
Qed.

(** the same for decodeInt32 (before and after 70434b6: the repair concerns
    rejected streams only) *)
Theorem go_int32_refines w (Hw : w <= 32) pinned : forall f b xs,
  dec_runs64 f w b = Some xs -> go_decode_int32 pinned f w b = GOk xs.
Proof.
  induction f as [|f IH]; intros b xs H.
  - destruct b; [inversion H; reflexivity|discriminate].
  - destruct b as [|x l]; [inversion H; reflexivity|].
    cbn [dec_runs64] in H. cbn [go_decode_int32].
    destruct (go_uvarint (x :: l)) as [[h b1]|]; [|discriminate].
    destruct (count_ok (h / 2)) eqn:Hc; [|discriminate].
    eapply go_int32_run_refines; eauto.
Qed.

(** * any conforming partition into runs is accepted by [dec_runs64] *)

Definition go_run_ok (r : run) : Prop :=
  match r with
  | RunRLE c _ => 0 < N.of_nat c <= max_count
  | RunBP gs => 0 < N.of_nat (length gs) <= max_count
  end.

Lemma dec_runs64_step f w h p : h < 2 ^ 64 -> count_ok (h / 2) = true ->
  dec_runs64 (S f) w (uvarint64 h ++ p) = dec_run_body (dec_runs64 f w) w h p.
Proof.
  intros Hh Hc. cbn [dec_runs64].
  destruct (uvarint64 h ++ p) as [|x l] eqn:E.
  - exfalso. apply app_eq_nil in E. destruct E as [E _]. exact (uvarint_enc_nonempty 9 _ E).
  - rewrite <- E, go_uvarint64_roundtrip by exact Hh. now rewrite Hc.
Qed.

Lemma count_ok_intro c : 0 < c <= max_count -> count_ok c = true.
Proof.
  intros [H1 H2]. unfold count_ok. apply andb_true_iff. split; [apply N.ltb_lt|apply N.leb_le]; assumption.
Qed.

Theorem dec_runs64_serialize w rs : Forall (wf_run w) rs -> Forall go_run_ok rs ->
  forall fuel, (length (serialize w rs) <= fuel)%nat ->
  dec_runs64 fuel w (serialize w rs) = Some (concat (map expand rs)).
Proof.
  induction 1 as [|r rs Hr Hrs IH]; intros Hok fuel Hfuel.
  - destruct fuel; reflexivity.
  - inversion Hok as [|? ? Hr_ok Hrs_ok]; subst.
    unfold serialize in *. cbn [map concat] in *.
    pose proof (serialize_run_length_pos w r) as Hpos.
    rewrite app_length in Hfuel.
    destruct fuel as [|f]; [lia|].
    assert (Hmc : max_count < 2 ^ 31) by (vm_compute; reflexivity).
    destruct r as [c v|gs]; cbn [serialize_run expand go_run_ok] in *.
    + destruct Hr as [Hv Hc].
      rewrite <- app_assoc, dec_runs64_step.
      * unfold dec_run_body.
        rewrite N.odd_mul, andb_false_l.
        rewrite (N.mul_comm 2), N.div_mul by discriminate. rewrite Nat2N.id.
        rewrite <- (to_le_length (byte_count w) v) at 1.
        rewrite RleProofs.take_bytes_app.
        rewrite IH.
        -- rewrite of_le_to_le by exact Hv. reflexivity.
        -- exact Hrs_ok.
        -- rewrite !app_length in Hfuel. pose proof (uvarint64_length_pos (2 * N.of_nat c)). lia.
      * change (2 ^ 64) with (4 * 2 ^ 62). lia.
      * apply count_ok_intro. rewrite (N.mul_comm 2), N.div_mul by discriminate. exact Hr_ok.
    + destruct Hr as [Hgs Hlen].
      rewrite <- app_assoc, dec_runs64_step.
      * unfold dec_run_body.
        rewrite N.add_comm, N.odd_add_mul_2. cbn [N.odd].
        rewrite (N.mul_comm 2), N.div_add by discriminate.
        change (1 / 2) with 0. rewrite N.add_0_l, Nat2N.id.
        rewrite <- (concat_packed_length w gs Hgs).
        rewrite RleProofs.take_bytes_app.
        rewrite IH.
        -- rewrite split_every_packed, unpack_packed_groups by exact Hgs. reflexivity.
        -- exact Hrs_ok.
        -- rewrite !app_length in Hfuel. pose proof (uvarint64_length_pos (2 * N.of_nat (length gs) + 1)). lia.
      * change (2 ^ 64) with (4 * 2 ^ 62). lia.
      * apply count_ok_intro.
        replace (2 * N.of_nat (length gs) + 1) with (1 + N.of_nat (length gs) * 2) by lia.
        rewrite N.div_add by discriminate. change (1 / 2) with 0. rewrite N.add_0_l. exact Hr_ok.
Qed.

(** hence Go decodes every conforming stream: any partition into non-empty
    runs of at most MaxInt32 values, run-length runs of ANY length included *)
Theorem go_levels_any_runs w rs : w <= 8 -> Forall (wf_run w) rs -> Forall go_run_ok rs ->
  go_decode_levels w (serialize w rs) = GOk (concat (map expand rs)).
Proof.
  intros Hw Hwf Hok. unfold go_decode_levels.
  destruct (N.ltb_spec 8 w); [lia|].
  apply go_levels_refines; [exact Hw|]. apply dec_runs64_serialize; auto.
Qed.

Theorem go_int32_any_runs w rs : w <= 32 -> Forall (wf_run w) rs -> Forall go_run_ok rs ->
  go_decode_int32_top w (serialize w rs) = GOk (concat (map expand rs)).
Proof.
  intros Hw Hwf Hok. unfold go_decode_int32_top.
  destruct (N.ltb_spec 32 w); [lia|].
  apply go_int32_refines; [exact Hw|]. apply dec_runs64_serialize; auto.
Qed.

(** * the runs chosen by Go's encoders are non-empty and short enough *)

Definition run_pos (r : run) : Prop :=
  match r with RunRLE c _ => (0 < c)%nat | RunBP gs => (0 < length gs)%nat end.

Lemma detect_groups_pos int32 : forall fuel gs, Forall run_pos (detect_groups int32 fuel gs).
Proof.
  induction fuel as [|f IH]; intros gs; cbn [detect_groups]; [constructor|].
  destruct gs as [|g r]; [constructor|].
  set (c := count_equal (broadcast (hd 0 g)) (g :: r)).
  destruct (Nat.ltb_spec 0 c).
  - constructor; [cbn [run_pos]; lia|apply IH].
  - constructor; [|apply IH]. cbn [run_pos firstn length]. lia.
Qed.

Lemma detect_tail_pos : forall fuel l, Forall run_pos (detect_tail fuel l).
Proof.
  induction fuel as [|f IH]; intros l; cbn [detect_tail]; [constructor|].
  destruct l as [|v r]; [constructor|]. constructor; [cbn [run_pos]; lia|apply IH].
Qed.

Lemma detect_pos int32 src : Forall run_pos (detect int32 src).
Proof. unfold detect. apply Forall_app. split; [apply detect_groups_pos|apply detect_tail_pos]. Qed.

Lemma expand_length_le rs : forall r, In r rs -> (length (expand r) <= length (concat (map expand rs)))%nat.
Proof.
  induction rs as [|a rs IH]; intros r Hin; [destruct Hin|].
  cbn [map concat]. rewrite app_length. destruct Hin as [->|Hin]; [lia|].
  specialize (IH r Hin). lia.
Qed.

Lemma concat_groups_length w gs :
  Forall (fun g => length g = 8%nat /\ fits w g) gs -> length (concat gs) = (8 * length gs)%nat.
Proof.
  induction 1 as [|g gs [Hg _] _ IH]; [reflexivity|].
  cbn [concat length]. rewrite app_length, IH, Hg. lia.
Qed.

Lemma detect_go_ok int32 w src :
  fits w src -> N.of_nat (length src) <= max_count ->
  Forall go_run_ok (detect int32 src).
Proof.
  intros Hfit Hlen.
  assert (Hmc : max_count < 2 ^ 61) by (vm_compute; reflexivity).
  destruct (detect_spec int32 w src Hfit ltac:(lia)) as [E W].
  pose proof (detect_pos int32 src) as P.
  apply Forall_forall. intros r Hr.
  rewrite Forall_forall in W, P. specialize (W r Hr). specialize (P r Hr).
  pose proof (expand_length_le _ r Hr) as Hl. rewrite E in Hl.
  destruct r as [c v|gs]; cbn [go_run_ok run_pos expand wf_run] in *.
  - rewrite repeat_length in Hl. lia.
  - destruct W as [Wg _]. rewrite (concat_groups_length w gs Wg) in Hl. lia.
Qed.

(** Go's encoders write a stream that [dec_runs64] accepts *)
Theorem hybrid_roundtrip64 int32 w src :
  fits w src -> N.of_nat (length src) <= max_count -> (w = 0 -> src <> []) ->
  exists b, enc_hybrid int32 w src = Some b /\ dec_hybrid64 w b = Some src.
Proof.
  intros Hfit Hlen Hne. unfold enc_hybrid.
  assert (Hmc : max_count < 2 ^ 61) by (vm_compute; reflexivity).
  destruct (N.eqb_spec w 0) as [->|Hw].
  - assert (Hz : Forall (fun v => v = 0) src).
    { eapply Forall_impl; [|exact Hfit]. cbn. intros a Ha. change (2 ^ 0) with 1 in Ha. lia. }
    assert (Hfb : forallb (fun v => v =? 0) src = true).
    { apply forallb_forall. intros x Hx. rewrite Forall_forall in Hz. rewrite (Hz x Hx). reflexivity. }
    rewrite Hfb. eexists. split; [reflexivity|].
    assert (Esrc : src = repeat 0 (length src)).
    { clear -Hz. induction Hz as [|v r Hv Hr IH]; [reflexivity|]. subst v. cbn. now rewrite <- IH. }
    pose proof (dec_runs64_serialize 0 [RunRLE (length src) 0]) as H.
    unfold serialize, dec_hybrid64 in *. cbn [map concat serialize_run expand] in H.
    change (byte_count 0) with 0%nat in H. cbn [to_le] in H. rewrite !app_nil_r in H.
    rewrite H; [now rewrite <- Esrc| | |lia].
    + constructor; [|constructor]. cbn [wf_run]. split.
      * change (byte_count 0) with 0%nat. cbn. lia.
      * change (2 ^ 62) with (2 * 2 ^ 61). lia.
    + constructor; [|constructor]. cbn [go_run_ok].
      specialize (Hne eq_refl). destruct src; [contradiction|]. cbn [length] in *. lia.
  - destruct (detect_spec int32 w src Hfit ltac:(lia)) as [E W].
    eexists. split; [reflexivity|]. unfold dec_hybrid64.
    rewrite dec_runs64_serialize; [now rewrite E|exact W| |lia].
    eapply detect_go_ok; eassumption.
Qed.

(** Go decode (Go encode x) = x, levels and int32 *)
Theorem go_levels_roundtrip w src :
  w <= 8 -> fits w src -> N.of_nat (length src) <= max_count ->
  exists b, enc_levels w src = Some b /\ go_decode_levels w b = GOk src /\ dec_hybrid w b = Some src.
Proof.
  intros Hw Hfit Hlen.
  assert (Hmc : max_count < 2 ^ 61) by (vm_compute; reflexivity).
  destruct (hybrid_roundtrip false w src Hfit ltac:(lia)) as (b & Hb & Hd).
  exists b. split; [exact Hb|]. split; [|exact Hd].
  unfold go_decode_levels. destruct (N.ltb_spec 8 w); [lia|].
  destruct src as [|x src'] eqn:Es.
  - (* the empty sequence: no run (w > 0) or the single header 00 (w = 0), which Go skips *)
    unfold enc_levels, enc_hybrid in Hb. destruct (w =? 0); inversion Hb; reflexivity.
  - rewrite <- Es in *.
    destruct (hybrid_roundtrip64 false w src Hfit Hlen) as (b' & Hb' & Hd').
    { intros _. subst src. discriminate. }
    unfold enc_levels in Hb. rewrite Hb in Hb'. inversion Hb'; subst b'.
    apply go_levels_refines; [exact Hw|exact Hd'].
Qed.

Theorem go_int32_roundtrip w src :
  w <= 32 -> fits w src -> N.of_nat (length src) <= max_count ->
  exists b, enc_int32 w src = Some b /\ go_decode_int32_top w b = GOk src /\ dec_hybrid w b = Some src.
Proof.
  intros Hw Hfit Hlen.
  assert (Hmc : max_count < 2 ^ 61) by (vm_compute; reflexivity).
  destruct (hybrid_roundtrip true w src Hfit ltac:(lia)) as (b & Hb & Hd).
  exists b. split; [exact Hb|]. split; [|exact Hd].
  unfold go_decode_int32_top. destruct (N.ltb_spec 32 w); [lia|].
  destruct src as [|x src'] eqn:Es.
  - unfold enc_int32, enc_hybrid in Hb. destruct (w =? 0); inversion Hb; reflexivity.
  - rewrite <- Es in *.
    destruct (hybrid_roundtrip64 true w src Hfit Hlen) as (b' & Hb' & Hd').
    { intros _. subst src. discriminate. }
    unfold enc_int32 in Hb. rewrite Hb in Hb'. inversion Hb'; subst b'.
    apply go_int32_refines; [exact Hw|exact Hd'].
Qed.

(** RLE_DICTIONARY index pages *)
Lemma bitlen_le32 x : x < 2 ^ 32 -> bitlen x <= 32.
Proof. apply bitlen_mono_bound. Qed.

Lemma fold_max_le (l : list N) (bnd : N) : Forall (fun x => x <= bnd) l -> forall a, a <= bnd -> fold_left N.max l a <= bnd.
Proof. induction 1 as [|x l Hx Hl IH]; intros a Ha; cbn [fold_left]; [exact Ha|]. apply IH. lia. Qed.

Theorem go_dict_roundtrip src :
  Forall (fun v => v < 2 ^ 32) src -> N.of_nat (length src) <= max_count ->
  exists b, enc_dict_indexes src = Some b /\ go_decode_dict b = GOk src /\ dec_dict_indexes b = Some src.
Proof.
  intros H32 Hlen. unfold enc_dict_indexes.
  set (w := fold_left N.max (map bitlen src) 0).
  assert (Hfit : fits w src).
  { apply Forall_forall. intros v Hv. apply bitlen_le_lt. apply RleProofs.fold_max_ge. now apply in_map. }
  assert (Hw : w <= 32).
  { apply fold_max_le; [|lia]. apply Forall_forall. intros x Hx. apply in_map_iff in Hx.
    destruct Hx as (v & <- & Hv). apply bitlen_le32. rewrite Forall_forall in H32. now apply H32. }
  destruct (go_int32_roundtrip w src Hw Hfit Hlen) as (b & Hb & Hg & Hd).
  rewrite Hb. eexists. split; [reflexivity|]. split; [exact Hg|exact Hd].
Qed.

(** * Booleans: decodeBits on what encodeBits writes *)

Definition bits_count_ok (r : bits_run) : Prop :=
  match r with
  | BitsRLE n _ => 8 * N.of_nat n <= max_count
  | BitsBP raw => N.of_nat (length raw) <= max_count
  end.

Lemma go_decode_bits_step f h p dst bits : h < 2 ^ 64 ->
  go_decode_bits (S f) (uvarint64 h ++ p) dst bits = go_bits_run (go_decode_bits f) h p dst bits.
Proof.
  intros Hh. cbn [go_decode_bits].
  destruct (uvarint64 h ++ p) as [|x l] eqn:E.
  - exfalso. apply app_eq_nil in E. destruct E as [E _]. exact (uvarint_enc_nonempty 9 _ E).
  - rewrite <- E, go_uvarint64_roundtrip by exact Hh. reflexivity.
Qed.

Lemma aligned_shift n : (8 * n) mod 8 = 0.
Proof. rewrite N.mul_comm. apply N.mod_mul. discriminate. Qed.

Lemma serialize_bits_run_length_pos r : (0 < length (serialize_bits_run r))%nat.
Proof.
  destruct r; cbn [serialize_bits_run]; rewrite app_length;
    match goal with |- context [uvarint64 ?x] => pose proof (uvarint64_length_pos x) end; lia.
Qed.

Theorem go_decode_bits_runs rs : Forall bits_run_ok rs -> Forall bits_count_ok rs ->
  forall fuel dst, (length (concat (map serialize_bits_run rs)) <= fuel)%nat ->
  go_decode_bits fuel (concat (map serialize_bits_run rs)) dst (8 * N.of_nat (length dst))
  = GOk (dst ++ concat (map bits_payload rs)).
Proof.
  induction 1 as [|r rs Hr Hrs IH]; intros Hc fuel dst Hfuel.
  - cbn [map concat]. rewrite app_nil_r. destruct fuel; reflexivity.
  - inversion Hc as [|? ? Hrc Hrsc]; subst.
    cbn [map concat] in *.
    pose proof (serialize_bits_run_length_pos r) as Hpos.
    rewrite app_length in Hfuel.
    destruct fuel as [|f]; [lia|].
    assert (Hmc : max_count < 2 ^ 31) by (vm_compute; reflexivity).
    destruct r as [n v|raw]; cbn [serialize_bits_run bits_payload bits_run_ok bits_count_ok] in *.
    + destruct Hr as (Hn & Hv & _).
      destruct (Nat.eqb_spec n 0) as [->|_]; [lia|].
      rewrite <- app_assoc, go_decode_bits_step by (change (2 ^ 64) with (2 ^ 33 * 2 ^ 31); lia).
      unfold go_bits_run.
      rewrite (N.mul_comm 2), N.div_mul by discriminate.
      destruct (N.eqb_spec (8 * N.of_nat n) 0) as [E|_]; [lia|].
      destruct (N.ltb_spec max_count (8 * N.of_nat n)) as [E|_]; [lia|].
      assert (Eo : N.odd (8 * N.of_nat n * 2) = false)
        by (rewrite N.odd_mul; change (N.odd 2) with false; apply andb_false_r).
      rewrite Eo.
      rewrite aligned_shift. cbn [N.eqb app tl].
      assert (Ew : (if N.odd (v mod 2) then 255 else 0) = v) by (destruct Hv; subst v; reflexivity).
      rewrite Ew.
      assert (El : (N.to_nat ((8 * N.of_nat (length dst) + 8 * N.of_nat n + 7) / 8) - length dst)%nat = n).
      { replace (8 * N.of_nat (length dst) + 8 * N.of_nat n + 7)
          with (7 + (N.of_nat (length dst) + N.of_nat n) * 8) by lia.
        rewrite N.div_add by discriminate. change (7 / 8) with 0. lia. }
      rewrite El.
      replace (8 * N.of_nat (length dst) + 8 * N.of_nat n)
        with (8 * N.of_nat (length (dst ++ repeat v n))) by (rewrite app_length, repeat_length; lia).
      rewrite IH.
      * now rewrite <- app_assoc.
      * exact Hrsc.
      * rewrite !app_length in Hfuel. pose proof (uvarint64_length_pos (2 * (8 * N.of_nat n))). cbn [length] in Hfuel. lia.
    + destruct Hr as (Hwf & _ & Hlen).
      rewrite <- app_assoc, go_decode_bits_step by (change (2 ^ 64) with (2 ^ 33 * 2 ^ 31); lia).
      unfold go_bits_run.
      replace (2 * N.of_nat (length raw) + 1) with (1 + N.of_nat (length raw) * 2) by lia.
      rewrite N.div_add by discriminate. change (1 / 2) with 0. rewrite N.add_0_l.
      destruct (N.eqb_spec (N.of_nat (length raw)) 0) as [E|_]; [lia|].
      destruct (N.ltb_spec max_count (N.of_nat (length raw))) as [E|_]; [lia|].
      assert (Eo : N.odd (1 + N.of_nat (length raw) * 2) = true)
        by (rewrite (N.mul_comm _ 2), N.odd_add_mul_2; reflexivity).
      rewrite Eo.
      rewrite aligned_shift. cbn [N.eqb].
      assert (Hf : fits_len (N.of_nat (length raw)) (raw ++ concat (map serialize_bits_run rs)) = true).
      { apply fits_len_true. rewrite app_length. lia. }
      rewrite Hf. cbn [negb]. rewrite Nat2N.id, firstn_app_exact, skipn_app_exact.
      replace (8 * N.of_nat (length dst) + 8 * N.of_nat (length raw))
        with (8 * N.of_nat (length (dst ++ raw))) by (rewrite app_length; lia).
      rewrite IH.
      * now rewrite <- app_assoc.
      * exact Hrsc.
      * rewrite !app_length in Hfuel. pose proof (uvarint64_length_pos (1 + N.of_nat (length raw) * 2)).
        replace (2 * N.of_nat (length raw) + 1) with (1 + N.of_nat (length raw) * 2) in Hfuel by lia. lia.
Qed.

Lemma uvarint64_length_le x : (length (uvarint64 x) <= 10)%nat.
Proof.
  unfold uvarint64.
  assert (G : forall fuel y, (length (uvarint_enc fuel y) <= S fuel)%nat).
  { induction fuel as [|f IHf]; intros y; cbn [uvarint_enc]; [cbn; lia|].
    destruct (y <? 128); cbn [length]; [lia|]. specialize (IHf (y / 128)). lia. }
  apply (G 9%nat x).
Qed.

(** the body is never longer than 11 bytes per input byte *)
Lemma bits_runs_length rs : Forall bits_run_ok rs ->
  (length (concat (map serialize_bits_run rs)) <= 11 * length (concat (map bits_payload rs)))%nat.
Proof.
  induction 1 as [|r rs Hr Hrs IH]; [cbn; lia|].
  cbn [map concat]. rewrite !app_length.
  destruct r as [k v|raw]; cbn [serialize_bits_run bits_payload bits_run_ok] in *.
  - destruct Hr as (Hk & _ & _). rewrite app_length, repeat_length.
    pose proof (uvarint64_length_le (2 * (8 * N.of_nat k))). destruct (k =? 0)%nat; cbn [length]; lia.
  - rewrite app_length. destruct Hr as (Hr & _ & Hpos).
    pose proof (uvarint64_length_le (2 * N.of_nat (length raw) + 1)). lia.
Qed.

Lemma payload_count_ok rs src :
  concat (map bits_payload rs) = src -> 8 * N.of_nat (length src) <= max_count ->
  Forall bits_count_ok rs.
Proof.
  intros E Hlen. apply Forall_forall. intros r Hr.
  assert (Hl : (length (bits_payload r) <= length src)%nat).
  { rewrite <- E. clear -Hr. induction rs as [|a rs IH]; [destruct Hr|].
    cbn [map concat]. rewrite app_length. destruct Hr as [->|Hr]; [lia|]. specialize (IH Hr). lia. }
  destruct r as [n v|raw]; cbn [bits_count_ok bits_payload] in *.
  - rewrite repeat_length in Hl. lia.
  - lia.
Qed.

(** Go DecodeBoolean (Go EncodeBoolean packed) = packed *)
Theorem go_boolean_roundtrip src :
  wf_bytes src -> N.of_nat (length src) < 2 ^ 26 ->
  go_decode_boolean (enc_boolean src) = GOk src.
Proof.
  intros Hwf Hlen.
  destruct src as [|x0 src0] eqn:Es; [vm_compute; reflexivity|]. rewrite <- Es in *.
  assert (Hne : src <> []) by (subst src; discriminate).
  assert (H58 : N.of_nat (length src) < 2 ^ 58) by (eapply N.lt_trans; [exact Hlen|reflexivity]).
  destruct (detect_bits_spec src Hne Hwf H58) as [E W].
  unfold go_decode_boolean, go_decode_boolean_with, enc_boolean.
  set (body := enc_bits_body src).
  assert (Hbody : body = concat (map serialize_bits_run (detect_bits src))) by reflexivity.
  assert (Hbl : (length body <= 11 * length src)%nat).
  { rewrite Hbody. pose proof (bits_runs_length _ W) as H. now rewrite E in H. }
  assert (Hbpos : (0 < length body)%nat).
  { rewrite Hbody. destruct (detect_bits src) as [|r rs] eqn:Ed.
    - cbn in E. congruence.
    - cbn [map concat]. rewrite app_length. pose proof (serialize_bits_run_length_pos r). lia. }
  change (2 ^ 26) with 67108864 in Hlen.
  rewrite app_length, to_le_length.
  destruct (Nat.eqb_spec (4 + length body) 4); [lia|].
  destruct (Nat.ltb_spec (4 + length body) 4); [lia|].
  rewrite !(firstn_app_len 4), !(skipn_app_len 4) by apply to_le_length.
  rewrite of_le_to_le by (change (256 ^ N.of_nat 4) with 4294967296; lia).
  assert (Hf : fits_len (N.of_nat (length body)) body = true) by (apply fits_len_true; lia).
  rewrite Hf. cbn [negb]. rewrite Nat2N.id, firstn_all.
  rewrite Hbody.
  pose proof (go_decode_bits_runs (detect_bits src) W) as HR.
  specialize (HR (payload_count_ok _ _ E ltac:(change max_count with 2147483647; lia))).
  specialize (HR (length (concat (map serialize_bits_run (detect_bits src)))) [] ltac:(lia)).
  cbn [length app] in HR. change (8 * N.of_nat 0) with 0 in HR.
  rewrite HR, E. reflexivity.
Qed.

(** and the bits of what Go returns are what the specification decoder returns *)
Theorem go_boolean_agrees_spec src n :
  wf_bytes src -> N.of_nat (length src) < 2 ^ 26 -> (n <= 8 * length src)%nat ->
  exists packed, go_decode_boolean (enc_boolean src) = GOk packed /\
                 dec_boolean_n n (enc_boolean src) = Some (firstn n (bits_of packed)).
Proof.
  intros Hwf Hlen Hn. exists src. split; [now apply go_boolean_roundtrip|now apply boolean_roundtrip].
Qed.

(** * What is outside: witnesses *)

(** a header announcing 0 values: Go skips it without reading a value, the
    format's grammar gives a run-length run its value; the two decoders then
    read different streams *)
Theorem go_levels_empty_run_refuted :
  exists w b xs, dec_hybrid w b = Some xs /\ go_decode_levels w b <> GOk xs.
Proof. exists 1, [0; 2; 1], []. split; [reflexivity|]. vm_compute. discriminate. Qed.

(** before 70434b6: a bit-packed run longer than the input was sliced
    unchecked (a panic; or a decode of the bytes behind the slice) *)
Theorem go_int32_pinned_truncated_refuted :
  exists w b, dec_hybrid w b = None /\ go_decode_int32_pinned w b = GPanic
              /\ go_decode_int32_top w b = GErr.
Proof. exists 3, [3; 17]. repeat split; vm_compute; reflexivity. Qed.

(** before 75827ad: a conforming stream (10 x true as a run-length run, then
    6 x false in a bit-packed group) was decoded to 16 x true, 8 x false *)
Theorem go_boolean_pinned_unaligned_refuted :
  exists b n packed,
    go_decode_boolean_pinned b = GOk packed /\
    exists bits, dec_boolean_n n b = Some bits /\ firstn n (bits_of packed) <> bits.
Proof.
  exists [4; 0; 0; 0; 20; 1; 3; 0], 16%nat, [255; 255; 0].
  split; [vm_compute; reflexivity|].
  eexists. split; [vm_compute; reflexivity|]. vm_compute. discriminate.
Qed.

(** the repaired decodeBits on that stream *)
Example go_boolean_unaligned_example :
  exists packed, go_decode_boolean [4; 0; 0; 0; 20; 1; 3; 0] = GOk packed /\
                 Some (firstn 16 (bits_of packed)) = dec_boolean_n 16 [4; 0; 0; 0; 20; 1; 3; 0].
Proof. eexists. split; vm_compute; reflexivity. Qed.

(** * Top-level forms *)

Theorem go_levels_refines_top w b xs :
  w <= 8 -> dec_hybrid64 w b = Some xs -> go_decode_levels w b = GOk xs /\ dec_hybrid w b = Some xs.
Proof.
  intros Hw H. split.
  - unfold go_decode_levels. destruct (N.ltb_spec 8 w); [lia|]. now apply go_levels_refines.
  - now apply dec_runs64_sound.
Qed.

Theorem go_int32_refines_top w b xs :
  w <= 32 -> dec_hybrid64 w b = Some xs -> go_decode_int32_top w b = GOk xs /\ dec_hybrid w b = Some xs.
Proof.
  intros Hw H. split.
  - unfold go_decode_int32_top. destruct (N.ltb_spec 32 w); [lia|]. now apply go_int32_refines.
  - now apply dec_runs64_sound.
Qed.

(** the unrestricted statement does not hold (empty runs) *)
Definition go_levels_accepts_spec_full : Prop :=
  forall w b xs, w <= 8 -> dec_hybrid w b = Some xs -> go_decode_levels w b = GOk xs.

Theorem go_levels_accepts_spec_full_refuted : ~ go_levels_accepts_spec_full.
Proof.
  intros H. specialize (H 1 [0; 2; 1] [] ltac:(lia) eq_refl). vm_compute in H. discriminate.
Qed.
