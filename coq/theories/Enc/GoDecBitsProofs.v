(** Go's decodeBits (RLE booleans, Enc/GoDecRle.v, since 75827ad with a bit
    position across runs) on EVERY conforming stream: any partition of a
    sequence of booleans into non-empty run-length runs of any length and
    bit-packed runs of groups of 8 is decoded to packed bytes whose first bits
    are the values ([go_bits_any_runs]).  The invariant is arithmetic: with
    [P] the output read as a little-endian number, [P mod 2^bits] is the
    number whose binary digits are the values decoded so far. *)
From Coq Require Import List NArith ZArith Lia Bool Arith.
From Coq Require Import ZifyN ZifyNat ZifyBool.
From PQ Require Import Base.Bytes Base.Varint Base.BitPack Base.ListExtra.
From PQ Require Import Enc.Rle Enc.RleProofs Enc.GoDecBase Enc.GoDecBaseProofs Enc.GoDecRle Enc.GoDecRleProofs.
Import ListNotations.
Open Scope N_scope.

(** * bits and bytes *)

Lemma land_disjoint a c s : a < 2 ^ s -> c mod 2 ^ s = 0 -> N.land a c = 0.
Proof.
  intros Ha Hc. apply N.bits_inj. intros n. rewrite N.land_spec, N.bits_0.
  destruct (N.lt_ge_cases n s) as [Hn|Hn].
  - assert (Ec : c = (c / 2 ^ s) * 2 ^ s).
    { pose proof (N.div_mod c (2 ^ s) ltac:(apply N.pow_nonzero; discriminate)). lia. }
    rewrite Ec, N.mul_pow2_bits_low by exact Hn. apply andb_false_r.
  - assert (Et : N.testbit a n = false).
    { apply N.testbit_false. rewrite N.div_small; [reflexivity|].
      eapply N.lt_le_trans; [exact Ha|]. apply N.pow_le_mono_r; [discriminate|exact Hn]. }
    now rewrite Et.
Qed.

Lemma lor_disjoint a c s : a < 2 ^ s -> c mod 2 ^ s = 0 -> N.lor a c = a + c.
Proof.
  intros Ha Hc. pose proof (land_disjoint a c s Ha Hc) as H.
  rewrite N.add_nocarry_lxor by exact H. symmetry. now apply N.lxor_lor.
Qed.

Lemma pow2_8 s : s <= 8 -> 2 ^ s * 2 ^ (8 - s) = 256.
Proof. intros H. rewrite <- N.pow_add_r. replace (s + (8 - s)) with 8 by lia. reflexivity. Qed.

Lemma shl8_eq b s : s <= 8 -> go_shl8 b s = 2 ^ s * (b mod 2 ^ (8 - s)).
Proof.
  intros Hs. unfold go_shl8. rewrite <- (pow2_8 s Hs), (N.mul_comm b).
  apply N.mul_mod_distr_l; apply N.pow_nonzero; discriminate.
Qed.

Lemma shl8_split b s : s <= 8 -> go_shl8 b s + 256 * (b / 2 ^ (8 - s)) = 2 ^ s * b.
Proof.
  intros Hs. rewrite shl8_eq by exact Hs. rewrite <- (pow2_8 s Hs).
  pose proof (N.div_mod b (2 ^ (8 - s)) ltac:(apply N.pow_nonzero; discriminate)). nia.
Qed.

Lemma ldiff_ones s : 0 < s < 8 -> N.ldiff 255 (2 ^ s - 1) = 256 - 2 ^ s.
Proof.
  intros H.
  assert (C : s = 1 \/ s = 2 \/ s = 3 \/ s = 4 \/ s = 5 \/ s = 6 \/ s = 7) by lia.
  destruct C as [->|[->|[->|[->|[->|[->| ->]]]]]]; reflexivity.
Qed.

Lemma of_le_snoc l x : of_le (l ++ [x]) = of_le l + 256 ^ N.of_nat (length l) * x.
Proof. rewrite of_le_app. cbn [of_le]. lia. Qed.

Lemma of_le_repeat0 k : of_le (repeat 0 k) = 0.
Proof. induction k as [|k IH]; cbn [repeat of_le]; [reflexivity|]. rewrite IH. reflexivity. Qed.

Lemma of_le_repeat255 k : of_le (repeat 255 k) + 1 = 256 ^ N.of_nat k.
Proof.
  induction k as [|k IH]; cbn [repeat of_le]; [reflexivity|].
  rewrite Nat2N.inj_succ, N.pow_succ_r'. lia.
Qed.

Lemma pack1_repeat0 c : pack 1 (repeat 0 c) = 0.
Proof. induction c as [|c IH]; cbn [repeat pack]; [reflexivity|]. rewrite IH. lia. Qed.

Lemma pack1_repeat1 c : pack 1 (repeat 1 c) + 1 = 2 ^ N.of_nat c.
Proof.
  induction c as [|c IH]; cbn [repeat pack]; [reflexivity|].
  rewrite Nat2N.inj_succ, N.pow_succ_r'. change (2 ^ 1) with 2. lia.
Qed.

Lemma of_le_packed1 gs : Forall (fun g => length g = 8%nat /\ fits 1 g) gs ->
  of_le (concat (map (pack_bytes 1) gs)) = pack 1 (concat gs).
Proof.
  induction 1 as [|g gs [Hl Hf] _ IH]; [reflexivity|].
  cbn [map concat]. rewrite of_le_app, pack_app, IH, Hl, pack_bytes_len8 by exact Hl.
  change (N.of_nat (N.to_nat 1)) with 1. change (1 * N.of_nat 8) with 8. change (256 ^ 1) with (2 ^ 8).
  f_equal. unfold pack_bytes. rewrite Hl. change (N.to_nat (1 * N.of_nat 8 / 8)) with 1%nat.
  cbn [to_le of_le].
  pose proof (pack_bound 1 g Hf) as Hb. rewrite Hl in Hb. change (2 ^ (1 * N.of_nat 8)) with 256 in Hb.
  rewrite N.mod_small by exact Hb. lia.
Qed.

Lemma unpack_mod w n x : unpack w n (x mod 2 ^ (w * N.of_nat n)) = unpack w n x.
Proof.
  pose proof (N.div_mod x (2 ^ (w * N.of_nat n)) ltac:(apply N.pow_nonzero; discriminate)) as E.
  rewrite E at 2. rewrite N.add_comm, unpack_add_high. reflexivity.
Qed.

Lemma firstn_unpack w n : forall m x, (n <= m)%nat -> firstn n (unpack w m x) = unpack w n x.
Proof.
  induction n as [|n IH]; intros m x H; [reflexivity|].
  destruct m as [|m]; [lia|]. cbn [unpack firstn]. f_equal. apply IH. lia.
Qed.

Lemma bits_of_unpack l : wf_bytes l -> bits_of l = unpack 1 (8 * length l) (of_le l).
Proof.
  induction 1 as [|b l Hb Hl IH]; [reflexivity|].
  unfold bits_of in *. cbn [map concat length of_le]. rewrite IH.
  replace (8 * S (length l))%nat with (8 + 8 * length l)%nat by lia.
  rewrite unpack_app. unfold bits_of_byte.
  change (1 * N.of_nat 8) with 8. change (2 ^ 8) with 256.
  f_equal.
  - replace (b + 256 * of_le l) with (b + 2 ^ (1 * N.of_nat 8) * of_le l) by reflexivity.
    now rewrite unpack_add_high.
  - f_equal. rewrite (N.mul_comm 256), N.div_add by discriminate. rewrite N.div_small by exact Hb. reflexivity.
Qed.

Ltac Zify.zify_post_hook ::= Z.div_mod_to_equations.

(** * the shifted copy of a bit-packed block *)

Lemma pow2_le_128 s : s < 8 -> 2 ^ s <= 128.
Proof. intros H. change 128 with (2 ^ 7). apply N.pow_le_mono_r; [discriminate|lia]. Qed.

Lemma append_shifted_spec s (Hs : 0 < s < 8) : forall blk init lb,
  wf_bytes blk -> wf_bytes init -> lb < 2 ^ s ->
  of_le (go_append_shifted s init lb blk)
    = of_le init + 256 ^ N.of_nat (length init) * (lb + 2 ^ s * of_le blk)
  /\ length (go_append_shifted s init lb blk) = (length init + 1 + length blk)%nat
  /\ wf_bytes (go_append_shifted s init lb blk).
Proof.
  pose proof (pow2_le_128 s ltac:(lia)) as H128.
  induction blk as [|b blk IH]; intros init lb Hb Hi Hl; cbn [go_append_shifted].
  - rewrite of_le_snoc, app_length. cbn [of_le length]. repeat split; try lia.
    apply wf_bytes_app. split; [assumption|]. constructor; [lia|constructor].
  - assert (Hb0 : b < 256) by (inversion Hb; assumption).
    assert (Hb' : wf_bytes blk) by (inversion Hb; assumption).
    assert (Hsh : go_shl8 b s = 2 ^ s * (b mod 2 ^ (8 - s))) by (apply shl8_eq; lia).
    assert (Hsp : go_shl8 b s + 256 * (b / 2 ^ (8 - s)) = 2 ^ s * b) by (apply shl8_split; lia).
    assert (Hp8 : 2 ^ s * 2 ^ (8 - s) = 256) by (apply pow2_8; lia).
    assert (Hpp : 0 < 2 ^ (8 - s)) by apply pow2_pos.
    assert (Hm : b mod 2 ^ (8 - s) < 2 ^ (8 - s)) by (apply N.mod_lt; lia).
    set (x := N.lor lb (go_shl8 b s)).
    assert (Ex : x = lb + go_shl8 b s).
    { apply (lor_disjoint _ _ s); [exact Hl|]. rewrite Hsh, N.mul_comm. apply N.mod_mul. lia. }
    assert (Hx : x < 256) by nia.
    assert (Hc : b / 2 ^ (8 - s) < 2 ^ s).
    { apply N.div_lt_upper_bound; [lia|]. rewrite N.mul_comm, Hp8. exact Hb0. }
    assert (Hi' : wf_bytes (init ++ [x])).
    { apply wf_bytes_app. split; [assumption|]. constructor; [exact Hx|constructor]. }
    destruct (IH (init ++ [x]) (b / 2 ^ (8 - s)) Hb' Hi' Hc) as (E & L & W).
    split; [|split; [|exact W]].
    + rewrite E, of_le_snoc, app_length. cbn [length of_le].
      replace (N.of_nat (length init + 1)) with (N.succ (N.of_nat (length init))) by lia.
      rewrite N.pow_succ_r'.
      set (A := 256 ^ N.of_nat (length init)) in *.
      set (c := b / 2 ^ (8 - s)) in *. set (T := 2 ^ s) in *. set (R := of_le blk) in *.
      rewrite Ex. nia.
    + rewrite L, app_length. cbn [length]. lia.
Qed.

(** * the invariant of the decoding loop *)

Definition inv (dst : bytes) (bits : N) (vals : list N) : Prop :=
  wf_bytes dst /\ N.of_nat (length dst) = (bits + 7) / 8 /\ N.of_nat (length vals) = bits
  /\ fits 1 vals /\ of_le dst mod 2 ^ bits = pack 1 vals.

Lemma inv_nil : inv [] 0 [].
Proof. repeat split; constructor. Qed.

Lemma pack1_lt vals : fits 1 vals -> pack 1 vals < 2 ^ N.of_nat (length vals).
Proof. intros H. pose proof (pack_bound 1 vals H) as B. now rewrite N.mul_1_l in B. Qed.

Lemma of_le_lt l : wf_bytes l -> of_le l < 2 ^ (8 * N.of_nat (length l)).
Proof. intros H. rewrite <- pow256. now apply of_le_bound. Qed.

(** the destination with its unfinished byte cut at the bit position *)
Lemma split_last dst bits vals : inv dst bits vals -> bits mod 8 <> 0 ->
  exists init l,
    dst = init ++ [l] /\ wf_bytes init /\ l < 256 /\
    bits = 8 * N.of_nat (length init) + bits mod 8 /\
    pack 1 vals = of_le init + 2 ^ (8 * N.of_nat (length init)) * (l mod 2 ^ (bits mod 8)).
Proof.
  intros (Hwf & Hlen & Hvl & Hfit & Hnum) Hs.
  assert (Hne : dst <> []) by (intros ->; cbn [length N.of_nat] in Hlen; lia).
  exists (removelast dst), (last dst 0).
  pose proof (app_removelast_last 0 Hne) as Ed.
  assert (Hwf' : wf_bytes (removelast dst ++ [last dst 0])) by (rewrite <- Ed; exact Hwf).
  apply wf_bytes_app in Hwf'. destruct Hwf' as [Hwi Hwl].
  assert (Hl : last dst 0 < 256) by (inversion Hwl; assumption).
  assert (Hli : N.of_nat (length dst) = N.of_nat (length (removelast dst)) + 1).
  { rewrite Ed at 1. rewrite app_length. cbn [length]. lia. }
  assert (Hb : bits = 8 * N.of_nat (length (removelast dst)) + bits mod 8) by lia.
  repeat split; try assumption.
  rewrite <- Hnum. rewrite Ed at 1. rewrite of_le_snoc, pow256.
  set (I := of_le (removelast dst)). set (M := 2 ^ (8 * N.of_nat (length (removelast dst)))).
  assert (HI : I < M) by (apply of_le_lt; exact Hwi).
  assert (HM : M <> 0) by (apply N.pow_nonzero; discriminate).
  rewrite Hb at 1. rewrite N.pow_add_r. fold M.
  rewrite N.mod_mul_r by (try exact HM; apply N.pow_nonzero; discriminate).
  rewrite (N.mul_comm M (last dst 0)), N.mod_add by exact HM. rewrite N.mod_small by exact HI.
  rewrite N.div_add by exact HM. rewrite N.div_small by exact HI. reflexivity.
Qed.

(** * a run-length run *)

Lemma dst1_spec dst bits vals (one : bool) :
  inv dst bits vals ->
  let shift := bits mod 8 in
  let word := if one then 255 else 0 in
  let dst1 := if shift =? 0 then dst
              else removelast dst ++ [N.lor (last dst 0 mod 2 ^ shift) (N.ldiff word (2 ^ shift - 1))] in
  wf_bytes dst1 /\ length dst1 = length dst /\
  of_le dst1 + (if one then 2 ^ bits else 0)
    = pack 1 vals + (if one then 2 ^ (8 * N.of_nat (length dst)) else 0).
Proof.
  intros Hinv shift word dst1.
  pose proof Hinv as (Hwf & Hlen & Hvl & Hfit & Hnum).
  subst dst1. destruct (N.eqb_spec shift 0) as [Hs0|Hs0].
  - (* byte aligned *)
    assert (Hb : bits = 8 * N.of_nat (length dst)) by (subst shift; lia).
    split; [exact Hwf|]. split; [reflexivity|].
    rewrite <- Hnum, <- Hb. rewrite N.mod_small; [reflexivity|].
    rewrite Hb. now apply of_le_lt.
  - destruct (split_last dst bits vals Hinv Hs0) as (init & l & Ed & Hwi & Hl & Hb & Hpv).
    fold shift in Hb, Hpv.
    assert (Hsr : 0 < shift < 8) by (subst shift; lia).
    pose proof (pow2_le_128 shift ltac:(lia)) as H128.
    pose proof (pow2_pos shift) as HTp.
    assert (Hlm : l mod 2 ^ shift < 2 ^ shift) by (apply N.mod_lt; lia).
    rewrite Ed, removelast_last, last_last, app_length. cbn [length].
    destruct one; subst word.
    + rewrite ldiff_ones by exact Hsr.
      assert (Hp8 : 2 ^ shift * 2 ^ (8 - shift) = 256) by (apply pow2_8; lia).
      assert (Hd : (256 - 2 ^ shift) mod 2 ^ shift = 0).
      { replace (256 - 2 ^ shift) with ((2 ^ (8 - shift) - 1) * 2 ^ shift) by nia. apply N.mod_mul. lia. }
      rewrite (lor_disjoint _ _ shift Hlm Hd).
      split; [|split].
      * apply wf_bytes_app. split; [exact Hwi|]. constructor; [lia|constructor].
      * rewrite app_length. cbn [length]. lia.
      * rewrite of_le_snoc, pow256, Hpv, app_length. cbn [length].
        replace (8 * N.of_nat (length init + 1)) with (8 * N.of_nat (length init) + 8) by lia.
        rewrite (N.pow_add_r 2 (8 * N.of_nat (length init)) 8). change (2 ^ 8) with 256.
        replace (2 ^ bits) with (2 ^ (8 * N.of_nat (length init)) * 2 ^ shift)
          by (rewrite <- N.pow_add_r; f_equal; lia).
        set (M := 2 ^ (8 * N.of_nat (length init))). set (T := 2 ^ shift) in *. nia.
    + rewrite N.ldiff_0_l, N.lor_0_r.
      split; [|split].
      * apply wf_bytes_app. split; [exact Hwi|]. constructor; [lia|constructor].
      * rewrite app_length. cbn [length]. lia.
      * rewrite of_le_snoc, pow256, Hpv. lia.
Qed.

Lemma rle_step dst bits vals c (v : N) :
  inv dst bits vals -> 0 < c -> v < 2 ->
  let shift := bits mod 8 in
  let word := if N.odd v then 255 else 0 in
  let dst1 := if shift =? 0 then dst
              else removelast dst ++ [N.lor (last dst 0 mod 2 ^ shift) (N.ldiff word (2 ^ shift - 1))] in
  inv (dst1 ++ repeat word (N.to_nat ((bits + c + 7) / 8) - length dst1)) (bits + c)
      (vals ++ repeat v (N.to_nat c)).
Proof.
  intros Hinv Hc Hv shift word dst1.
  pose proof Hinv as (Hwf & Hlen & Hvl & Hfit & Hnum).
  destruct (dst1_spec dst bits vals (N.odd v) Hinv) as (Hw1 & Hl1 & Hn1).
  fold shift in Hw1, Hl1, Hn1. fold word in Hw1, Hl1, Hn1. fold dst1 in Hw1, Hl1, Hn1.
  set (k := (N.to_nat ((bits + c + 7) / 8) - length dst1)%nat).
  assert (Hk : N.of_nat (length dst1) + N.of_nat k = (bits + c + 7) / 8) by (subst k; lia).
  assert (Hww : word = 0 \/ word = 255) by (subst word; destruct (N.odd v); auto).
  pose proof (pack1_lt vals Hfit) as Hpv. rewrite Hvl in Hpv.
  assert (Hpa : pack 1 (vals ++ repeat v (N.to_nat c)) = pack 1 vals + 2 ^ bits * pack 1 (repeat v (N.to_nat c))).
  { rewrite pack_app, N.mul_1_l, Hvl. reflexivity. }
  repeat split.
  - apply wf_bytes_app. split; [exact Hw1|]. apply Forall_forall. intros x Hx.
    apply repeat_spec in Hx. subst x. destruct Hww as [-> | ->]; lia.
  - rewrite app_length, repeat_length. lia.
  - rewrite app_length, repeat_length. lia.
  - apply Forall_app. split; [exact Hfit|]. apply Forall_forall. intros x Hx.
    apply repeat_spec in Hx. subst x. exact Hv.
  - rewrite Hpa, of_le_app, pow256, Hl1.
    assert (Hv01 : v = 0 \/ v = 1) by lia.
    destruct Hv01 as [-> | ->]; subst word;
      [change (N.odd 0) with false in * | change (N.odd 1) with true in *]; cbn iota in *.
    + rewrite of_le_repeat0, pack1_repeat0, !N.mul_0_r, !N.add_0_r.
      rewrite !N.add_0_r in Hn1.
      rewrite Hn1. apply N.mod_small. eapply N.lt_le_trans; [exact Hpv|].
      apply N.pow_le_mono_r; [discriminate|lia].
    + pose proof (of_le_repeat255 k) as H255. pose proof (pack1_repeat1 (N.to_nat c)) as Hp1.
      rewrite N2Nat.id in Hp1. rewrite pow256 in H255.
      (* 8 * (len + k) = bits + c + slack *)
      set (len := N.of_nat (length dst)) in *.
      assert (Hex : exists g, 8 * (len + N.of_nat k) = bits + c + g).
      { exists (8 * (len + N.of_nat k) - (bits + c)). rewrite Hl1 in Hk. fold len in Hk. lia. }
      destruct Hex as (g & Hg).
      assert (HE : 2 ^ (8 * len) * 2 ^ (8 * N.of_nat k) = 2 ^ bits * 2 ^ c * 2 ^ g).
      { rewrite <- !N.pow_add_r. f_equal. lia. }
      pose proof (pow2_pos g) as Hgp. pose proof (pow2_pos c) as Hcp. pose proof (pow2_pos bits) as Hbp.
      set (A := 2 ^ bits) in *. set (B := 2 ^ c) in *. set (G := 2 ^ g) in *.
      set (L := 2 ^ (8 * len)) in *. set (K := 2 ^ (8 * N.of_nat k)) in *.
      set (R := of_le (repeat 255 k)) in *. set (PV := pack 1 vals) in *.
      set (P1 := pack 1 (repeat 1 (N.to_nat c))) in *. set (D := of_le dst1) in *.
      rewrite N.pow_add_r. fold A B.
      assert (Hval : D + L * R = (PV + A * P1) + (G - 1) * (A * B)) by nia.
      rewrite Hval, N.mod_add by nia. apply N.mod_small. nia.
Qed.

(** * a bit-packed run *)

Lemma packed1_wf gs : wf_bytes (concat (map (pack_bytes 1) gs)).
Proof.
  induction gs as [|g gs IH]; [constructor|]. cbn [map concat]. apply wf_bytes_app.
  split; [apply to_le_wf|exact IH].
Qed.

Lemma bp_step dst bits vals gs :
  inv dst bits vals -> Forall (fun g => length g = 8%nat /\ fits 1 g) gs ->
  let shift := bits mod 8 in
  let blk := concat (map (pack_bytes 1) gs) in
  let dst' := if shift =? 0 then dst ++ blk
              else go_append_shifted shift (removelast dst) (last dst 0 mod 2 ^ shift) blk in
  inv dst' (bits + 8 * N.of_nat (length gs)) (vals ++ concat gs).
Proof.
  intros Hinv Hgs shift blk dst'.
  pose proof Hinv as (Hwf & Hlen & Hvl & Hfit & Hnum).
  assert (Hbw : wf_bytes blk) by apply packed1_wf.
  assert (Hbl : length blk = length gs).
  { subst blk. rewrite (concat_packed_length 1 gs Hgs). change (N.to_nat 1) with 1%nat. lia. }
  assert (Hcl : length (concat gs) = (8 * length gs)%nat) by (apply (concat_groups_length 1); exact Hgs).
  assert (Hcf : fits 1 (concat gs)).
  { clear -Hgs. induction Hgs as [|g gs [_ Hf] _ IH]; [constructor|]. cbn [concat]. apply Forall_app. split; assumption. }
  assert (HB : of_le blk = pack 1 (concat gs)) by (apply of_le_packed1; exact Hgs).
  pose proof (pack1_lt _ Hcf) as HBlt. rewrite Hcl in HBlt.
  replace (N.of_nat (8 * length gs)) with (8 * N.of_nat (length gs)) in HBlt by lia.
  pose proof (pack1_lt vals Hfit) as Hpv. rewrite Hvl in Hpv.
  assert (Hpa : pack 1 (vals ++ concat gs) = pack 1 vals + 2 ^ bits * pack 1 (concat gs)).
  { rewrite pack_app, N.mul_1_l, Hvl. reflexivity. }
  assert (Hgoal : forall d, wf_bytes d -> N.of_nat (length d) = (bits + 7) / 8 + N.of_nat (length gs) ->
                  of_le d = pack 1 vals + 2 ^ bits * of_le blk ->
                  inv d (bits + 8 * N.of_nat (length gs)) (vals ++ concat gs)).
  { intros d Hd Hdl Hdn. repeat split.
    - exact Hd.
    - rewrite Hdl. lia.
    - rewrite app_length, Hcl. lia.
    - apply Forall_app. split; assumption.
    - rewrite Hpa, Hdn, HB. apply N.mod_small. rewrite N.pow_add_r.
      pose proof (pow2_pos bits). nia. }
  subst dst'. destruct (N.eqb_spec shift 0) as [Hs0|Hs0].
  - assert (Hb : bits = 8 * N.of_nat (length dst)) by (subst shift; lia).
    apply Hgoal.
    + apply wf_bytes_app. split; assumption.
    + rewrite app_length, Hbl. lia.
    + rewrite of_le_app, pow256, <- Hb. f_equal.
      rewrite <- Hnum. symmetry. apply N.mod_small. rewrite Hb. now apply of_le_lt.
  - destruct (split_last dst bits vals Hinv Hs0) as (init & l & Ed & Hwi & Hl & Hb & Hpvs).
    fold shift in Hb, Hpvs.
    assert (Hsr : 0 < shift < 8) by (subst shift; lia).
    assert (Hlm : l mod 2 ^ shift < 2 ^ shift) by (apply N.mod_lt; pose proof (pow2_pos shift); lia).
    rewrite Ed, removelast_last, last_last.
    destruct (append_shifted_spec shift Hsr blk init (l mod 2 ^ shift) Hbw Hwi Hlm) as (E & L & W).
    apply Hgoal.
    + exact W.
    + rewrite L, Hbl. rewrite Ed, app_length in Hlen. cbn [length] in Hlen. lia.
    + rewrite E, pow256, Hpvs.
      replace (2 ^ bits) with (2 ^ (8 * N.of_nat (length init)) * 2 ^ shift)
        by (rewrite <- N.pow_add_r; f_equal; lia).
      lia.
Qed.

(** * the loop over the runs *)

Definition run_bit (r : run) : Prop :=
  match r with RunRLE _ v => v < 2 | RunBP _ => True end.

Lemma go_bits_runs rs : Forall (wf_run 1) rs -> Forall go_run_ok rs -> Forall run_bit rs ->
  forall fuel dst bits vals, (length (serialize 1 rs) <= fuel)%nat -> inv dst bits vals ->
  exists packed,
    go_decode_bits fuel (serialize 1 rs) dst bits = GOk packed /\
    inv packed (bits + N.of_nat (length (concat (map expand rs)))) (vals ++ concat (map expand rs)).
Proof.
  induction 1 as [|r rs Hr Hrs IH]; intros Hok Hbit fuel dst bits vals Hfuel Hinv.
  - exists dst. split; [destruct fuel; reflexivity|].
    cbn [map concat length N.of_nat]. now rewrite N.add_0_r, app_nil_r.
  - inversion Hok as [|? ? Hr_ok Hrs_ok]; subst. inversion Hbit as [|? ? Hr_bit Hrs_bit]; subst.
    unfold serialize in *. cbn [map concat] in *.
    pose proof (serialize_run_length_pos 1 r) as Hpos.
    rewrite app_length in Hfuel.
    destruct fuel as [|f]; [lia|].
    assert (Hf' : (length (concat (map (serialize_run 1) rs)) <= f)%nat) by lia.
    assert (Hmc : max_count < 2 ^ 31) by (vm_compute; reflexivity).
    destruct r as [c v|gs]; cbn [serialize_run expand go_run_ok run_bit wf_run] in *.
    + (* run-length run of c values v *)
      change (byte_count 1) with 1%nat. cbn [to_le]. rewrite N.mod_small by lia.
      rewrite <- app_assoc, go_decode_bits_step by (change (2 ^ 64) with (2 ^ 33 * 2 ^ 31); lia).
      unfold go_bits_run.
      rewrite (N.mul_comm 2), N.div_mul by discriminate.
      destruct (N.eqb_spec (N.of_nat c) 0) as [E|_]; [lia|].
      destruct (N.ltb_spec max_count (N.of_nat c)) as [E|_]; [lia|].
      assert (Eo : N.odd (N.of_nat c * 2) = false)
        by (rewrite N.odd_mul; change (N.odd 2) with false; apply andb_false_r).
      rewrite Eo. cbn [app tl].
      assert (Hcpos : 0 < N.of_nat c) by lia.
      pose proof (rle_step dst bits vals (N.of_nat c) v Hinv Hcpos Hr_bit) as Hstep.
      cbn zeta in Hstep. rewrite Nat2N.id in Hstep.
      destruct (IH Hrs_ok Hrs_bit f _ _ _ Hf' Hstep) as (packed & Hgo & Hfin).
      exists packed. split; [exact Hgo|].
      rewrite app_length, repeat_length, app_assoc.
      replace (bits + N.of_nat (c + length (concat (map expand rs))))
        with (bits + N.of_nat c + N.of_nat (length (concat (map expand rs)))) by lia.
      exact Hfin.
    + (* bit-packed run of groups *)
      destruct Hr as [Hgs Hlen].
      rewrite <- app_assoc, go_decode_bits_step by (change (2 ^ 64) with (2 ^ 33 * 2 ^ 31); lia).
      unfold go_bits_run.
      replace (2 * N.of_nat (length gs) + 1) with (1 + N.of_nat (length gs) * 2) by lia.
      rewrite N.div_add by discriminate. change (1 / 2) with 0. rewrite N.add_0_l.
      destruct (N.eqb_spec (N.of_nat (length gs)) 0) as [E|_]; [lia|].
      destruct (N.ltb_spec max_count (N.of_nat (length gs))) as [E|_]; [lia|].
      assert (Eo : N.odd (1 + N.of_nat (length gs) * 2) = true)
        by (rewrite (N.mul_comm _ 2), N.odd_add_mul_2; reflexivity).
      rewrite Eo.
      assert (Hbl : length (concat (map (pack_bytes 1) gs)) = length gs).
      { rewrite (concat_packed_length 1 gs Hgs). change (N.to_nat 1) with 1%nat. lia. }
      assert (Hf : fits_len (N.of_nat (length gs)) (concat (map (pack_bytes 1) gs) ++ concat (map (serialize_run 1) rs)) = true).
      { apply fits_len_true. rewrite app_length, Hbl. lia. }
      rewrite Hf. cbn [negb]. rewrite Nat2N.id.
      rewrite !(firstn_app_len (length gs)), !(skipn_app_len (length gs)) by exact Hbl.
      pose proof (bp_step dst bits vals gs Hinv Hgs) as Hstep. cbn zeta in Hstep.
      destruct (IH Hrs_ok Hrs_bit f _ _ _ Hf' Hstep) as (packed & Hgo & Hfin).
      exists packed. split; [exact Hgo|].
      rewrite app_length, (concat_groups_length 1 gs Hgs), app_assoc.
      replace (bits + N.of_nat (8 * length gs + length (concat (map expand rs))))
        with (bits + 8 * N.of_nat (length gs) + N.of_nat (length (concat (map expand rs)))) by lia.
      exact Hfin.
Qed.

(** Go's decodeBits decodes every conforming stream of booleans: the first
    bits of the packed bytes it returns are the values of the runs, whatever
    the lengths of the run-length runs *)
Theorem go_bits_any_runs rs :
  Forall (wf_run 1) rs -> Forall go_run_ok rs -> Forall run_bit rs ->
  let vals := concat (map expand rs) in
  exists packed,
    go_decode_bits (length (serialize 1 rs)) (serialize 1 rs) [] 0 = GOk packed /\
    N.of_nat (length packed) = (N.of_nat (length vals) + 7) / 8 /\
    firstn (length vals) (bits_of packed) = vals /\
    dec_hybrid 1 (serialize 1 rs) = Some vals.
Proof.
  intros Hwf Hok Hbit vals.
  destruct (go_bits_runs rs Hwf Hok Hbit _ [] 0 [] (le_n _) inv_nil) as (packed & Hgo & Hfin).
  exists packed. split; [exact Hgo|].
  rewrite N.add_0_l in Hfin. cbn [app] in Hfin. fold vals in Hfin.
  destruct Hfin as (Hw & Hl & Hvl & Hfit & Hnum).
  split; [exact Hl|]. split.
  - rewrite bits_of_unpack by exact Hw.
    rewrite firstn_unpack by lia.
    rewrite <- unpack_mod, N.mul_1_l, Hnum. now apply unpack_pack.
  - unfold dec_hybrid. apply dec_runs_serialize; [exact Hwf|lia].
Qed.

(** with the 4-byte length prefix of an RLE boolean page (DecodeBoolean) *)
Theorem go_boolean_any_runs rs :
  Forall (wf_run 1) rs -> Forall go_run_ok rs -> Forall run_bit rs ->
  rs <> [] -> N.of_nat (length (serialize 1 rs)) < 2 ^ 32 ->
  let vals := concat (map expand rs) in
  let page := to_le 4 (N.of_nat (length (serialize 1 rs))) ++ serialize 1 rs in
  exists packed,
    go_decode_boolean page = GOk packed /\
    firstn (length vals) (bits_of packed) = vals /\
    dec_boolean_n (length vals) page = Some vals.
Proof.
  intros Hwf Hok Hbit Hne Hlen vals page.
  destruct (go_bits_any_runs rs Hwf Hok Hbit) as (packed & Hgo & Hl & Hbits & Hspec).
  fold vals in Hl, Hbits, Hspec.
  set (body := serialize 1 rs) in *.
  assert (Hbpos : (0 < length body)%nat).
  { subst body. unfold serialize. destruct rs as [|r rs']; [contradiction|].
    cbn [map concat]. rewrite app_length. pose proof (serialize_run_length_pos 1 r). lia. }
  exists packed. split; [|split; [exact Hbits|]].
  - unfold go_decode_boolean, go_decode_boolean_with. subst page.
    rewrite app_length, to_le_length.
    destruct (Nat.eqb_spec (4 + length body) 4); [lia|].
    destruct (Nat.ltb_spec (4 + length body) 4); [lia|].
    rewrite !(firstn_app_len 4), !(skipn_app_len 4) by apply to_le_length.
    rewrite of_le_to_le by (change (256 ^ N.of_nat 4) with (2 ^ 32); exact Hlen).
    assert (Hf : fits_len (N.of_nat (length body)) body = true) by (apply fits_len_true; lia).
    rewrite Hf. cbn [negb]. rewrite Nat2N.id, firstn_all. exact Hgo.
  - unfold dec_boolean_n, dec_boolean. subst page.
    assert (Hvpos : (0 < length vals)%nat).
    { (* a non-empty list of non-empty runs *)
      destruct rs as [|r rs']; [contradiction|]. subst vals. cbn [map concat]. rewrite app_length.
      inversion Hok as [|? ? Hr _]; subst. inversion Hwf as [|? ? Hw _]; subst.
      destruct r as [c v|gs]; cbn [expand go_run_ok wf_run] in *.
      - rewrite repeat_length. lia.
      - destruct Hw as [Hg _]. rewrite (concat_groups_length 1 gs Hg). lia. }
    destruct (Nat.eqb_spec (length vals) 0); [lia|].
    rewrite <- (to_le_length 4 (N.of_nat (length body))) at 1.
    rewrite RleProofs.take_bytes_app.
    rewrite of_le_to_le by (change (256 ^ N.of_nat 4) with (2 ^ 32); exact Hlen).
    rewrite Nat2N.id.
    assert (Hta : Rle.take_bytes (length body) body = Some (body, [])).
    { pose proof (RleProofs.take_bytes_app body []) as H. now rewrite app_nil_r in H. }
    rewrite Hta, Hspec.
    destruct (Nat.leb_spec (length vals) (length vals)); [|lia]. now rewrite firstn_all.
Qed.
