(** Models of the GO DECODERS of the DELTA encodings (/repo/encoding/delta):
    binary_packed.go decodeInt32 / decodeInt64 / decodeBinaryPackedHeader /
    decodeBinaryPackedBlock, binary_packed_purego.go decodeBlockInt32/64,
    length_byte_array.go + length_byte_array_purego.go, byte_array.go +
    byte_array_purego.go.  [k] = 32 / 64 selects decodeInt32 / decodeInt64;
    values are [k]-bit patterns with explicit wrap-around ([DeltaBP.addk]).
    No proofs here (Enc/GoDecDeltaProofs.v). *)
From Coq Require Import List NArith ZArith Lia Bool Arith.
From PQ Require Import Base.Bytes Base.Varint Base.BitPack Enc.DeltaBP Enc.GoDecBase.
Import ListNotations.
Open Scope N_scope.

(** maxSupportedBlockSize *)
Definition max_block_size : Z := 65536.

(** decodeBinaryPackedHeader: four varints, then the checks, in the order of
    the else-if chain.  [blockSize], [numMiniBlocks], [totalValues] are
    [int(u)] of a uint64; [/] and [%] are Go's truncated division. *)
Definition go_dbp_header (src : bytes) : gres (Z * Z * Z * Z * bytes) :=
  match go_uvarint src with
  | None => GErr
  | Some (u1, s1) =>
  match go_uvarint s1 with
  | None => GErr
  | Some (u2, s2) =>
  match go_uvarint s2 with
  | None => GErr
  | Some (u3, s3) =>
  match go_varint s3 with
  | None => GErr
  | Some (first, s4) =>
      let bs := to_int64 u1 in
      let nmb := to_int64 u2 in
      let total := to_int64 u3 in
      if (nmb =? 0)%Z then GErr
      else if ((bs <=? 0) || negb (Z.rem bs 128 =? 0))%Z then GErr
      else if (max_block_size <? bs)%Z then GErr
      else if ((nmb <=? 0) || negb (Z.rem (Z.quot bs nmb) 32 =? 0))%Z then GErr
      else if (total <? 0)%Z then GErr
      else if (Z.of_N max_int32 <? total)%Z then GErr
      else GOk (bs, nmb, total, first, s4)
  end end end end.

(** decodeBinaryPackedBlock: [if len(src) < numMiniBlocks { bitWidths, next =
    src, nil } else { bitWidths, next = src[:n], src[n:] }] *)
Definition take_upto (n : N) (l : bytes) : bytes * bytes :=
  if fits_len n l then (firstn (N.to_nat n) l, skipn (N.to_nat n) l) else (l, []).

(** the loop over the bit widths of one block.  A mini-block that the loop
    reaches must have a bit width of at most the width of the type (since
    15954b9: [if bitWidth > 32] / [> 64] error).  For a non-zero width the
    mini-block is [miniBlockSize = numValuesInMiniBlock*bitWidth/8] bytes, or
    all that is left when the input is shorter: the last mini-block may come
    without its padding, but (since b47fdb3) the bits of the [n] values it
    still has to provide must be present: [need := (n*bitWidth+7)/8; if need >
    len(miniBlockData)] error.  A short mini-block is unpacked from a
    zero-filled temporary buffer ([of_le] of the bytes present);
    [bitpack.Unpack] of [n] values is evaluated 8 values at a time
    ([GoDecBase.go_unpack_chunks]; the mini-block holds [vpm/8] groups, the
    first [n] values are kept: a value does not depend on those after it).
    Zero-width mini-blocks leave the zeros of the freshly resized
    destination.  Returns the unpacked values of the block (before the prefix
    sums), the remaining input and the remaining count. *)
Fixpoint go_dbp_miniblocks (tw vpm : N) (ws : list N) (src : bytes) (remaining : N)
  : gres (list N * bytes * N) :=
  match ws with
  | [] => GOk ([], src, remaining)
  | w :: ws' =>
      let n := N.min vpm remaining in
      let size := N.to_nat (vpm * w / 8) in
      if tw <? w then GErr
      else if negb (w =? 0) && (N.of_nat (length (firstn size src)) <? (n * w + 7) / 8) then GErr
      else
        let '(vals, src') :=
          if w =? 0 then (repeat 0 (N.to_nat n), src)
          else
            (firstn (N.to_nat n) (go_unpack_chunks tw w (N.to_nat (vpm / 8)) (firstn size src)),
             skipn size src) in
        let remaining' := remaining - n in
        if remaining' =? 0 then GOk (vals, src', remaining')    (* break *)
        else
          gbind (go_dbp_miniblocks tw vpm ws' src' remaining')
                (fun '(vs, s, r) => GOk (vals ++ vs, s, r))
  end.

(** [for totalValues > 0 && len(src) > 0]: block header (min delta as a
    varint, bit widths), mini-blocks, then decodeBlockInt32/64 over the values
    of the block: [block[i] += minDelta; block[i] += lastValue] with
    wrap-around = [DeltaBP.recon].  [int32(minDelta)] truncates = [wrapZ k].
    After the loop: [if totalValues > 0] error "missing values". *)
Fixpoint go_dbp_blocks (fuel : nat) (k vpm nmb : N) (src : bytes) (remaining last : N)
  : gres (list N * bytes) :=
  match fuel with
  | O => if remaining =? 0 then GOk ([], src) else GErr       (* len(src) = 0 here *)
  | S f =>
      if (remaining =? 0) || (length src =? 0)%nat then
        if remaining =? 0 then GOk ([], src) else GErr
      else
        match go_varint src with
        | None => GErr
        | Some (md, s1) =>
            let '(ws, s2) := take_upto nmb s1 in
            gbind (go_dbp_miniblocks k vpm ws s2 remaining) (fun '(us, s3, rem') =>
              let '(xs, last') := recon k last (wrapZ k md) us in
              gbind (go_dbp_blocks f k vpm nmb s3 rem' last')
                    (fun '(ys, rest) => GOk (xs ++ ys, rest)))
        end
  end.

(** decodeInt32 ([k] = 32) / decodeInt64 ([k] = 64): decoded values and the
    input left after the section *)
Definition go_dbp_dec (k : N) (src : bytes) : gres (list Z * bytes) :=
  gbind (go_dbp_header src) (fun '(bs, nmb, total, first, s) =>
    if (total =? 0)%Z then GOk ([], s)
    else if (k =? 32) && ((first <? - 2 ^ 31) || (2 ^ 31 - 1 <? first))%Z then GErr
    else
      let vpm := Z.to_N (Z.quot bs nmb) in
      let p := wrapZ k first in
      gbind (go_dbp_blocks (length s) k vpm (Z.to_N nmb) s (Z.to_N total - 1) p)
            (fun '(ps, rest) => GOk (map (sintZ k) (p :: ps), rest))).

(** BinaryPackedEncoding.DecodeInt32 / DecodeInt64 drop the remaining input *)
Definition go_dbp_decode (k : N) (src : bytes) : gres (list Z) :=
  gbind (go_dbp_dec k src) (fun '(xs, _) => GOk xs).

(** * DELTA_LENGTH_BYTE_ARRAY *)

(** decodeByteArrayLengths (portable): offsets are uint32 and wrap around;
    the first negative length stops the loop and is returned *)
Fixpoint go_lengths_offsets (lens : list Z) (last : N) : option (list N * N) :=
  match lens with
  | [] => Some ([last], last)
  | n :: r =>
      if (n <? 0)%Z then None
      else
        match go_lengths_offsets r ((last + Z.to_N n) mod 2 ^ 32) with
        | Some (offs, l) => Some (last :: offs, l)
        | None => None
        end
  end.

(** LengthByteArrayEncoding.DecodeByteArray: the value bytes [src[:lastOffset]]
    and the offsets *)
Definition go_dlba_dec (src : bytes) : gres (bytes * list N) :=
  gbind (go_dbp_dec 32 src) (fun '(lens, rest) =>
    match go_lengths_offsets lens 0 with
    | None => GErr                                             (* negative length *)
    | Some (offs, last) =>
        if negb (fits_len last rest) then GErr                 (* int(lastOffset) > len(src) *)
        else GOk (firstn (N.to_nat last) rest, offs)
    end).

(** the values designated by (data, offsets), as a reader slices them *)
Fixpoint unflatten (data : bytes) (offs : list N) : list bytes :=
  match offs with
  | a :: ((b :: _) as r) => firstn (N.to_nat (b - a)) (skipn (N.to_nat a) data) :: unflatten data r
  | _ => []
  end.

(** * DELTA_BYTE_ARRAY *)

(** decodeByteArray / decodeFixedLenByteArray (portable): checks in the Go
    order (suffix negative, suffix beyond the input, prefix negative, prefix
    longer than the previous value) *)
Fixpoint go_dba_loop (prefix suffix : list Z) (src last : bytes) : gres (list bytes * bytes) :=
  match suffix with
  | [] => GOk ([], src)
  | n :: suffix' =>
      match prefix with
      | [] => GPanic                                           (* lengths were checked equal *)
      | p :: prefix' =>
          if (n <? 0)%Z then GErr
          else if (Z.of_nat (length src) <? n)%Z then GErr
          else if (p <? 0)%Z then GErr
          else if (Z.of_nat (length last) <? p)%Z then GErr
          else
            let v := firstn (Z.to_nat p) last ++ firstn (Z.to_nat n) src in
            gbind (go_dba_loop prefix' suffix' (skipn (Z.to_nat n) src) v)
                  (fun '(vs, rest) => GOk (v :: vs, rest))
      end
  end.

(** ByteArrayEncoding.DecodeByteArray (the values; the offsets returned by Go
    are the cumulated lengths) and DecodeFixedLenByteArray (their
    concatenation; the size argument is not checked against the lengths);
    with the input that follows the last suffix (ignored) *)
Definition go_dba_dec_rest (src : bytes) : gres (list bytes * bytes) :=
  gbind (go_dbp_dec 32 src) (fun '(ps, s1) =>
  gbind (go_dbp_dec 32 s1) (fun '(ss, s2) =>
    if negb (length ps =? length ss)%nat then GErr
    else go_dba_loop ps ss s2 [])).

Definition go_dba_dec (src : bytes) : gres (list bytes) :=
  gbind (go_dba_dec_rest src) (fun '(vs, _) => GOk vs).

(** * What a decoder would allocate (see GoDecRle.rle_cost): the largest of
    block size, mini-block count and total count announced by a header *)
Definition dbp_cost (go_walk : bool) (src : bytes) : N :=
  let uv := if go_walk then go_uvarint else uvarint_dec in
  match uv src with
  | None => 0
  | Some (u1, s1) =>
  match uv s1 with
  | None => 0
  | Some (u2, s2) =>
  match uv s2 with
  | None => 0
  | Some (u3, _) => N.max u1 (N.max u2 u3)
  end end end.

(** cost of a stream of [sections] consecutive DELTA_BINARY_PACKED int32
    sections, the later ones located by decoding the earlier ones (only when
    those are below [limit]) *)
Fixpoint dbp_sections_cost (sections : nat) (limit : N) (src : bytes) : N :=
  match sections with
  | O => 0
  | S m =>
      let c := N.max (dbp_cost true src) (dbp_cost false src) in
      match m with
      | O => c
      | _ =>
          if limit <? c then c
          else
            match go_dbp_dec 32 src with
            | GOk (_, rest) => N.max c (dbp_sections_cost m limit rest)
            | _ =>
                match DeltaBP.dec 32 src with
                | Some (_, rest) => N.max c (dbp_sections_cost m limit rest)
                | None => c
                end
            end
      end
  end.
