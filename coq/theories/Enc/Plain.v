(** PLAIN and BYTE_STREAM_SPLIT (encoding/plain, encoding/bytestreamsplit):
    models and specification decoders.  Fixed-width values are bit patterns
    ([N]); floats are never interpreted.  No proofs here. *)
From Coq Require Import List NArith ZArith Lia Bool Arith.
From PQ Require Import Base.Bytes Base.BitPack.
Import ListNotations.
Open Scope N_scope.

(** fixed width: [k] bytes per value, little endian (int32, int64, float,
    double; INT96 is three 32-bit words = 12 bytes little endian) *)
Definition plain_fixed (k : nat) (vs : list N) : bytes := concat (map (to_le k) vs).

Fixpoint split_every {A} (fuel n : nat) (l : list A) : list (list A) :=
  match fuel with
  | O => []
  | S f => firstn n l :: split_every f n (skipn n l)
  end.

Definition dec_plain_fixed (k : nat) (b : bytes) : option (list N) :=
  if (k =? 0)%nat then None
  else if (length b mod k =? 0)%nat then Some (map of_le (split_every (length b / k) k b))
  else None.

(** byte arrays: 4-byte little-endian length then the bytes *)
Definition plain_byte_array (vs : list bytes) : bytes :=
  concat (map (fun v => to_le 4 (N.of_nat (length v)) ++ v) vs).

Fixpoint dec_plain_byte_array (fuel : nat) (b : bytes) : option (list bytes) :=
  match fuel with
  | O => match b with [] => Some [] | _ => None end
  | S f =>
      match b with
      | [] => Some []
      | _ =>
          if (length b <? 4)%nat then None
          else
            let n := N.to_nat (of_le (firstn 4 b)) in
            let r := skipn 4 b in
            if (length r <? n)%nat then None
            else match dec_plain_byte_array f (skipn n r) with
                 | Some vs => Some (firstn n r :: vs)
                 | None => None
                 end
      end
  end.

(** fixed-length byte arrays: raw concatenation *)
Definition plain_flba (vs : list bytes) : bytes := concat vs.
Definition dec_plain_flba (size : nat) (b : bytes) : option (list bytes) :=
  if (size =? 0)%nat then None
  else if (length b mod size =? 0)%nat then Some (split_every (length b / size) size b)
  else None.

(** booleans: 8 values per byte, least significant bit first, the last byte
    zero padded (plain.AppendBoolean as used by the boolean column buffer) *)
Fixpoint pack_bools (fuel : nat) (bits : list N) : bytes :=
  match fuel with
  | O => []
  | S f =>
      match bits with
      | [] => []
      | _ => pack 1 (firstn 8 bits) :: pack_bools f (skipn 8 bits)
      end
  end.

Definition plain_boolean (bits : list N) : bytes := pack_bools (length bits) bits.

Definition dec_plain_boolean (n : nat) (b : bytes) : option (list N) :=
  let all := concat (map (unpack 1 8) b) in
  if (n <=? length all)%nat then Some (firstn n all) else None.

(** BYTE_STREAM_SPLIT for values of [k] bytes: stream j holds byte j of every
    value, streams concatenated. Values are given as their [k] bytes. *)
Definition bss_enc (k : nat) (vs : list bytes) : bytes :=
  concat (map (fun j => map (fun v => nth j v 0) vs) (seq 0 k)).

Definition bss_dec (k : nat) (b : bytes) : option (list bytes) :=
  if (k =? 0)%nat then None
  else if (length b mod k =? 0)%nat then
    let n := (length b / k)%nat in
    Some (map (fun i => map (fun j => nth (j * n + i) b 0) (seq 0 k)) (seq 0 n))
  else None.

(* on fixed-width numbers *)
Definition bss_enc_fixed (k : nat) (vs : list N) : bytes := bss_enc k (map (to_le k) vs).
Definition bss_dec_fixed (k : nat) (b : bytes) : option (list N) :=
  match bss_dec k b with Some l => Some (map of_le l) | None => None end.
