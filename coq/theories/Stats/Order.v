(** Sort orders of parquet-go column types, on bit patterns.  Executable; the
    proofs (each is a total preorder, equivalences with the arithmetic
    reading) are in Stats/OrderProofs.v.

    A value of a numeric column is the [N] holding its bit pattern (32, 64 or
    96 bits; a boolean is 0 or 1); a value of a byte column (BYTE_ARRAY,
    FIXED_LEN_BYTE_ARRAY, 128-bit big-endian, binary DECIMAL) is a byte list.
    A comparison returns an integer whose sign is the order, like Go's
    [Type.Compare] (compare.go).  Floating point values are never read as
    reals: the order of compare.go compareFloat32/64 (IEEE [<] and [>]) is
    expressed on the sign / exponent / mantissa bits. *)
From Coq Require Import List NArith ZArith Bool.
From PQ Require Import Base.Bytes Search.Model.
Import ListNotations.
Open Scope N_scope.

(** compare.go compareInt32 / compareInt64: two's complement *)
Definition cmp_sint (k : N) (a b : N) : Z := cmpZ (sintZ k a) (sintZ k b).

(** compare.go compareUint32 / compareUint64 / compareBool *)
Definition cmp_uint (a b : N) : Z := cmpZ (Z.of_N a) (Z.of_N b).

(** IEEE 754 binary32 / binary64 bit patterns: [eb] exponent bits, [mb]
    mantissa bits (8, 23) or (11, 52). *)
Definition f_exp (eb mb : N) (n : N) : N := (n / 2 ^ mb) mod 2 ^ eb.
Definition f_man (mb : N) (n : N) : N := n mod 2 ^ mb.
Definition f_sign (eb mb : N) (n : N) : bool := negb ((n / 2 ^ (eb + mb)) mod 2 =? 0).

(* math.IsNaN: exponent all ones and a non-zero mantissa (any payload, any sign) *)
Definition f_is_nan (eb mb : N) (n : N) : bool :=
  (f_exp eb mb n =? 2 ^ eb - 1) && negb (f_man mb n =? 0).

(* position of a non-NaN pattern on the number line: sign-magnitude, so that
   -0 and +0 coincide (IEEE: -0 == +0) and -inf < finite < +inf *)
Definition f_key (eb mb : N) (n : N) : Z :=
  let mag := Z.of_N (n mod 2 ^ (eb + mb)) in
  if f_sign eb mb n then (- mag)%Z else mag.

(* compare.go compareFloat32/64: v1 < v2 -> -1, v1 > v2 -> +1, else 0; both
   tests are false as soon as one operand is NaN *)
Definition cmp_float (eb mb : N) (a b : N) : Z :=
  if f_is_nan eb mb a || f_is_nan eb mb b then 0%Z
  else cmpZ (f_key eb mb a) (f_key eb mb b).

Definition is_nan32 := f_is_nan 8 23.
Definition is_nan64 := f_is_nan 11 52.
Definition cmp_f32 := cmp_float 8 23.
Definition cmp_f64 := cmp_float 11 52.

(** deprecated/int96.go: Int96 = [3]uint32, little endian words. *)
Definition i96_word (k : N) (n : N) : N := (n / 2 ^ (32 * k)) mod 2 ^ 32.

(* Int96.Negative *)
Definition i96_negative (n : N) : bool := negb (i96_word 2 n / 2 ^ 31 =? 0).

(* the loop "for k := 2; k >= 0; k--" of Int96.Less *)
Definition i96_words_less (i j : N) : bool :=
  if i96_word 2 i <? i96_word 2 j then true
  else if i96_word 2 j <? i96_word 2 i then false
  else if i96_word 1 i <? i96_word 1 j then true
  else if i96_word 1 j <? i96_word 1 i then false
  else i96_word 0 i <? i96_word 0 j.

(* Int96.Less *)
Definition i96_less (i j : N) : bool :=
  if i96_negative i then
    (if negb (i96_negative j) then true else i96_words_less i j)
  else
    (if i96_negative j then false else i96_words_less i j).

(* compare.go compareInt96 *)
Definition cmp_i96 (a b : N) : Z :=
  if i96_less a b then (-1)%Z else if i96_less b a then 1%Z else 0%Z.

(** compare.go compareBE128: two big-endian uint64 halves. *)
Fixpoint of_be (l : bytes) : N :=
  match l with
  | [] => 0
  | b :: r => b * 256 ^ N.of_nat (length r) + of_be r
  end.

Definition cmp_be128 (a b : bytes) : Z :=
  let x := of_be (firstn 8 a) in
  let y := of_be (firstn 8 b) in
  if x <? y then (-1)%Z else if y <? x then 1%Z
  else
    let x := of_be (skipn 8 a) in
    let y := of_be (skipn 8 b) in
    if x <? y then (-1)%Z else if y <? x then 1%Z else 0%Z.

(** type_decimal.go compareDecimalByteArrays / compareDecimalPadded:
    big-endian two's complement of possibly different lengths. *)
Definition dec_negative (a : bytes) : bool :=
  match a with
  | [] => false
  | x :: _ => 128 <=? x
  end.

(* the loop over a[:len(a)-len(b)] *)
Fixpoint dec_pad_cmp (pre : bytes) (pad : N) : Z :=
  match pre with
  | [] => 0%Z
  | c :: r => if c <? pad then (-1)%Z else if pad <? c then 1%Z else dec_pad_cmp r pad
  end.

Definition dec_cmp_padded (a b : bytes) (pad : N) : Z :=
  let d := (length a - length b)%nat in
  match dec_pad_cmp (firstn d a) pad with
  | 0%Z => cmp_bytes (skipn d a) b
  | r => r
  end.

Definition cmp_decimal (a b : bytes) : Z :=
  let na := dec_negative a in
  let nb := dec_negative b in
  if na && negb nb then (-1)%Z
  else if negb na && nb then 1%Z
  else
    let pad := if na then 255 else 0 in
    if (length a <? length b)%nat then (- dec_cmp_padded b a pad)%Z
    else dec_cmp_padded a b pad.

(** The column kinds with numeric values and with byte values. *)
Inductive numkind := NBool | NInt32 | NInt64 | NUint32 | NUint64 | NFloat | NDouble | NInt96.
Inductive bytekind := BBytes | BFlba (size : nat) | BBe128 | BDecimal.

Definition cmp_num (k : numkind) : N -> N -> Z :=
  match k with
  | NBool | NUint32 | NUint64 => cmp_uint
  | NInt32 => cmp_sint 32
  | NInt64 => cmp_sint 64
  | NFloat => cmp_f32
  | NDouble => cmp_f64
  | NInt96 => cmp_i96
  end.

Definition nan_num (k : numkind) : N -> bool :=
  match k with
  | NFloat => is_nan32
  | NDouble => is_nan64
  | _ => fun _ => false
  end.

(* the range of the bit patterns of a kind *)
Definition bits_num (k : numkind) : N :=
  match k with
  | NBool => 1
  | NInt32 | NUint32 | NFloat => 32
  | NInt64 | NUint64 | NDouble => 64
  | NInt96 => 96
  end.

Definition cmp_byte (k : bytekind) : bytes -> bytes -> Z :=
  match k with
  | BBytes | BFlba _ => cmp_bytes
  | BBe128 => cmp_be128
  | BDecimal => cmp_decimal
  end.
