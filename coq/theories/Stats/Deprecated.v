(** The DEPRECATED min / max of the column chunk statistics
    (format.Statistics.Min / Max), written by writer.go recordPageStats when
    the writer has the option DeprecatedDataPageStatistics(true)
    (ColumnWriter.writeDeprecatedStatistics).

    In the code the two fields are slices: each time Statistics.MaxValue
    (MinValue) is given a new value - maxValue.AppendBytes(buf) into the array of
    the previous one, or into a new array when the capacity does not suffice -
    Statistics.Max (Min) is assigned the new slice.  The model is at the level
    of values: the deprecated fields are a second pair of optional values that is
    assigned under the conditions under which the code assigns them. *)
From Coq Require Import List NArith ZArith Bool.
From PQ Require Import Base.Bytes Stats.Order Stats.Model.
Import ListNotations.
Open Scope Z_scope.

Section Deprecated.
  Variable V : Type.
  Variable cmp : V -> V -> Z.
  Variable nan : V -> bool.

  (* Statistics.Min, Statistics.Max: None = nil *)
  Definition dep_fields := (option V * option V)%type.

  (* one call of recordPageStats: the standard statistics are [record_page];
     "if c.writeDeprecatedStatistics { Statistics.Max = Statistics.MaxValue }"
     stands inside the branch that assigns MaxValue (existing bound null, NaN
     bound replaced, or a larger maximum), the same for Min *)
  Definition record_page_dep (dep : bool) (s : chunk_stats V * dep_fields) (p : page_info V)
    : chunk_stats V * dep_fields :=
    let (st, d) := s in
    let (dmn, dmx) := d in
    let st' := record_page cmp nan st p in
    match pi_bounds p with
    | None => (st', (dmn, dmx))
    | Some (mn, mx) =>
        match cs_bounds st with
        | None => (st', if dep then (Some mn, Some mx) else (dmn, dmx))
        | Some (emn, emx) =>
            let dmx' := if dep && (replaces_nan_bound nan mx emx || (cmp mx emx >? 0)) then Some mx else dmx in
            let dmn' := if dep && (replaces_nan_bound nan mn emn || (cmp mn emn <? 0)) then Some mn else dmn in
            (st', (dmn', dmx'))
        end
    end.

  Definition chunk_fold_dep (dep : bool) (ps : list (page_info V)) : chunk_stats V * dep_fields :=
    fold_left (record_page_dep dep) ps (chunk_empty, (None, None)).

  (* what the deprecated fields are expected to be: the standard bounds, or nothing *)
  Definition dep_of_bounds (dep : bool) (b : option (V * V)) : dep_fields :=
    if dep then match b with None => (None, None) | Some (mn, mx) => (Some mn, Some mx) end
    else (None, None).



End Deprecated.

Arguments record_page_dep {V}.
Arguments chunk_fold_dep {V}.
Arguments dep_of_bounds {V}.

Definition chunk_dep_num (k : numkind) (dep : bool) (ps : list (page_info N)) : option N * option N :=
  snd (chunk_fold_dep (cmp_num k) (nan_num k) dep ps).
Definition chunk_dep_byte (k : bytekind) (dep : bool) (ps : list (page_info bytes)) : option bytes * option bytes :=
  snd (chunk_fold_dep (cmp_byte k) (fun _ => false) dep ps).


