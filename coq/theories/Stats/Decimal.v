(** type_decimal.go compareDecimalByteArrays is the order of the signed
    integers that big-endian two's-complement byte strings of any lengths
    denote; hence a total preorder, and the theorems of Stats/Proofs.v apply
    to binary DECIMAL columns. *)
From Coq Require Import List NArith ZArith Bool Arith Lia.
From Coq Require Import ZifyN ZifyNat ZifyBool.
From PQ Require Import Base.Bytes Search.Model Search.Proofs
     Stats.Order Stats.OrderProofs Stats.Model Stats.Proofs Stats.Instances.
Import ListNotations.
Open Scope Z_scope.

Definition pw (n : nat) : Z := 256 ^ Z.of_nat n.
Definition ube (l : bytes) : Z := Z.of_N (of_be l).

(* the integer a byte string denotes: empty = 0 *)
Definition dec_val (a : bytes) : Z :=
  if dec_negative a then ube a - pw (length a) else ube a.

Lemma pw_pos n : 0 < pw n.
Proof. unfold pw. apply Z.pow_pos_nonneg; lia. Qed.

Lemma pw_S n : pw (S n) = 256 * pw n.
Proof. unfold pw. rewrite Nat2Z.inj_succ, Z.pow_succ_r by lia. reflexivity. Qed.

Lemma pw_add a b : pw (a + b) = pw a * pw b.
Proof. unfold pw. rewrite Nat2Z.inj_add, Z.pow_add_r by lia. reflexivity. Qed.

Lemma pw_N n : Z.of_N (256 ^ N.of_nat n) = pw n.
Proof. unfold pw. rewrite N2Z.inj_pow, nat_N_Z. reflexivity. Qed.

Lemma ube_cons x r : ube (x :: r) = Z.of_N x * pw (length r) + ube r.
Proof. unfold ube. cbn [of_be]. rewrite N2Z.inj_add, N2Z.inj_mul, pw_N. reflexivity. Qed.

Lemma ube_nil : ube [] = 0.
Proof. reflexivity. Qed.

Lemma ube_bound l : wf_bytes l -> 0 <= ube l < pw (length l).
Proof.
  intros W. pose proof (of_be_bound l W) as H. unfold ube. rewrite <- pw_N. lia.
Qed.

Lemma ube_app a : forall b, ube (a ++ b) = ube a * pw (length b) + ube b.
Proof.
  induction a as [|x a IH]; intros b; cbn [app].
  - rewrite ube_nil. lia.
  - rewrite !ube_cons, IH, app_length, pw_add. lia.
Qed.

Lemma wf_cons x r : wf_bytes (x :: r) -> (x < 256)%N /\ wf_bytes r.
Proof. intros W. inversion W; subst. auto. Qed.

Lemma dec_sign a : wf_bytes a ->
  (dec_negative a = true -> - pw (length a) <= 2 * dec_val a /\ dec_val a < 0) /\
  (dec_negative a = false -> 0 <= dec_val a /\ 2 * dec_val a < pw (length a) \/ a = []).
Proof.
  intros W. unfold dec_val. destruct a as [|x r]; cbn [dec_negative].
  - split; [discriminate|]. intros _. right. reflexivity.
  - apply wf_cons in W. destruct W as [Hx Wr]. pose proof (ube_bound r Wr) as B.
    pose proof (pw_pos (length r)) as P. cbn [length]. rewrite pw_S, ube_cons.
    destruct (N.leb_spec 128 x) as [H|H]; split; try discriminate; intros _.
    + nia.
    + left. nia.
Qed.

(* the loop over the extra leading bytes of the longer operand *)
Lemma dec_pad_cmp_zero pre : wf_bytes pre ->
  (dec_pad_cmp pre 0 = 0 /\ ube pre = 0) \/ (dec_pad_cmp pre 0 = 1 /\ 1 <= ube pre).
Proof.
  induction 1 as [|c r Hc Wr IH]; cbn [dec_pad_cmp].
  - left. auto.
  - rewrite ube_cons. pose proof (ube_bound r Wr) as B. pose proof (pw_pos (length r)) as P.
    destruct (N.ltb_spec c 0); [lia|]. destruct (N.ltb_spec 0 c) as [H1|H1].
    + right. split; [reflexivity|]. nia.
    + assert (c = 0%N) by lia. subst. destruct IH as [[E1 E2]|[E1 E2]]; [left|right]; split; auto; lia.
Qed.

Lemma dec_pad_cmp_ff pre : wf_bytes pre ->
  (dec_pad_cmp pre 255 = 0 /\ ube pre = pw (length pre) - 1) \/
  (dec_pad_cmp pre 255 = -1 /\ ube pre <= pw (length pre) - 2).
Proof.
  induction 1 as [|c r Hc Wr IH]; cbn [dec_pad_cmp length].
  - left. split; [reflexivity|]. cbn. lia.
  - rewrite ube_cons, pw_S. pose proof (ube_bound r Wr) as B. pose proof (pw_pos (length r)) as P.
    destruct (N.ltb_spec c 255) as [H1|H1].
    + right. split; [reflexivity|]. nia.
    + destruct (N.ltb_spec 255 c); [lia|]. assert (c = 255%N) by lia. subst.
      destruct IH as [[E1 E2]|[E1 E2]]; [left|right]; split; auto; lia.
Qed.

Lemma cmp_bytes_ube a b : length a = length b -> wf_bytes a -> wf_bytes b ->
  cmp_bytes a b = cmpZ (ube a) (ube b).
Proof. intros. unfold ube. apply cmp_bytes_of_be; assumption. Qed.

(* compareDecimalPadded: same sign, a at least as long as b *)
Lemma dec_cmp_padded_val a b :
  wf_bytes a -> wf_bytes b -> (length b <= length a)%nat ->
  dec_negative a = dec_negative b ->
  dec_cmp_padded a b (if dec_negative a then 255%N else 0%N) = cmpZ (dec_val a) (dec_val b).
Proof.
  intros Wa Wb L S. unfold dec_cmp_padded.
  set (d := (length a - length b)%nat).
  assert (Ea : a = firstn d a ++ skipn d a) by (symmetry; apply firstn_skipn).
  assert (Wp : wf_bytes (firstn d a) /\ wf_bytes (skipn d a)).
  { apply wf_bytes_app. rewrite <- Ea. exact Wa. }
  destruct Wp as [Wpre Wsuf].
  assert (Ls : length (skipn d a) = length b) by (rewrite skipn_length; lia).
  assert (Lp : length (firstn d a) = d) by (rewrite firstn_length; lia).
  assert (La : length a = (d + length b)%nat) by lia.
  pose proof (ube_app (firstn d a) (skipn d a)) as Ua. rewrite <- Ea, Ls in Ua.
  pose proof (ube_bound _ Wsuf) as Bs. rewrite Ls in Bs.
  pose proof (ube_bound _ Wb) as Bb. pose proof (ube_bound _ Wpre) as Bp. rewrite Lp in Bp.
  pose proof (pw_pos (length b)) as Pb. pose proof (pw_pos d) as Pd.
  pose proof (cmp_bytes_ube (skipn d a) b Ls Wsuf Wb) as Cs.
  destruct (dec_sign a Wa) as [SaN SaP]. destruct (dec_sign b Wb) as [SbN SbP].
  unfold dec_val in *. rewrite <- S in *. rewrite La, pw_add in *.
  destruct (dec_negative a) eqn:Na.
  - (* both negative *)
    destruct (dec_pad_cmp_ff _ Wpre) as [[E1 E2]|[E1 E2]]; rewrite E1; rewrite Lp in E2.
    + rewrite Cs. unfold cmpZ.
      destruct (Z.compare_spec (ube (skipn d a)) (ube b));
      destruct (Z.compare_spec (ube a - pw d * pw (length b)) (ube b - pw (length b))); try reflexivity; nia.
    + specialize (SbN eq_refl). unfold cmpZ.
      destruct (Z.compare_spec (ube a - pw d * pw (length b)) (ube b - pw (length b))); try reflexivity; nia.
  - (* both non-negative *)
    destruct (dec_pad_cmp_zero _ Wpre) as [[E1 E2]|[E1 E2]]; rewrite E1.
    + rewrite Cs. unfold cmpZ.
      destruct (Z.compare_spec (ube (skipn d a)) (ube b));
      destruct (Z.compare_spec (ube a) (ube b)); try reflexivity; nia.
    + unfold cmpZ. destruct (Z.compare_spec (ube a) (ube b)); try reflexivity; nia.
Qed.

Theorem cmp_decimal_val a b : wf_bytes a -> wf_bytes b ->
  cmp_decimal a b = cmpZ (dec_val a) (dec_val b).
Proof.
  intros Wa Wb. unfold cmp_decimal.
  destruct (dec_sign a Wa) as [SaN SaP]. destruct (dec_sign b Wb) as [SbN SbP].
  destruct (dec_negative a) eqn:Na; destruct (dec_negative b) eqn:Nb; cbn [andb negb].
  - (* both negative *)
    destruct (Nat.ltb_spec (length a) (length b)) as [L|L].
    + pose proof (dec_cmp_padded_val b a Wb Wa ltac:(lia) ltac:(congruence)) as H.
      rewrite Nb in H. rewrite H. unfold cmpZ. rewrite (Z.compare_antisym (dec_val a) (dec_val b)).
      destruct (Z.compare (dec_val a) (dec_val b)); reflexivity.
    + pose proof (dec_cmp_padded_val a b Wa Wb L ltac:(congruence)) as H. rewrite Na in H. exact H.
  - specialize (SaN eq_refl). specialize (SbP eq_refl).
    assert (0 <= dec_val b).
    { destruct SbP as [H0|H0]; [lia|]. subst b. cbn. lia. }
    unfold cmpZ. destruct (Z.compare_spec (dec_val a) (dec_val b)); try reflexivity; lia.
  - specialize (SbN eq_refl). specialize (SaP eq_refl).
    assert (0 <= dec_val a).
    { destruct SaP as [H0|H0]; [lia|]. subst a. cbn. lia. }
    unfold cmpZ. destruct (Z.compare_spec (dec_val a) (dec_val b)); try reflexivity; lia.
  - destruct (Nat.ltb_spec (length a) (length b)) as [L|L].
    + pose proof (dec_cmp_padded_val b a Wb Wa ltac:(lia) ltac:(congruence)) as H.
      rewrite Nb in H. rewrite H. unfold cmpZ. rewrite (Z.compare_antisym (dec_val a) (dec_val b)).
      destruct (Z.compare (dec_val a) (dec_val b)); reflexivity.
    + pose proof (dec_cmp_padded_val a b Wa Wb L ltac:(congruence)) as H. rewrite Na in H. exact H.
Qed.

(** * A total preorder on all byte lists that agrees with cmp_decimal on
    well-formed ones *)
Definition clamp (a : bytes) : bytes := map (fun x => N.min x 255) a.
Definition dec_key (a : bytes) : Z := dec_val (clamp a).
Definition cmp_dt : bytes -> bytes -> Z := cmp_key bytes dec_key.

Lemma clamp_wf a : wf_bytes a -> clamp a = a.
Proof.
  induction 1 as [|x r Hx Hr IH]; cbn; [reflexivity|].
  unfold clamp in IH. rewrite IH. f_equal. lia.
Qed.

Lemma cmp_dt_eq a b : wf_bytes a -> wf_bytes b -> cmp_decimal a b = cmp_dt a b.
Proof.
  intros Wa Wb. unfold cmp_dt, cmp_key, dec_key. rewrite (clamp_wf a Wa), (clamp_wf b Wb).
  apply cmp_decimal_val; assumption.
Qed.

Definition dt_opp := cmp_key_opp bytes dec_key.
Definition dt_trans := no_nan_trans bytes cmp_dt (cmp_key_trans bytes dec_key).
Definition dt_nan := no_nan_nan bytes cmp_dt.

(** * The order functions only look at comparisons between elements *)
Section Congruence.
  Variable V : Type.
  Variables c1 c2 : V -> V -> Z.
  Variable P : V -> Prop.
  Hypothesis agree : forall a b, P a -> P b -> c1 a b = c2 a b.

  Lemma no_adjacent_congr (f : Z -> bool) l : Forall P l ->
    no_adjacent (fun a b => f (c1 a b)) l = no_adjacent (fun a b => f (c2 a b)) l.
  Proof.
    induction 1 as [|a l Ha Hl IH]; [reflexivity|].
    destruct l as [|b t]; [reflexivity|]. rewrite !no_adjacent_cons, IH.
    inversion Hl; subst. rewrite (agree a b) by assumption. reflexivity.
  Qed.

  Lemma ascending_congr l : Forall P l -> order_is_ascending c1 l = order_is_ascending c2 l.
  Proof. apply (no_adjacent_congr (fun z => z >? 0)). Qed.
  Lemma descending_congr l : Forall P l -> order_is_descending c1 l = order_is_descending c2 l.
  Proof. apply (no_adjacent_congr (fun z => z <? 0)). Qed.

  Lemma skip_streak_from_congr d0 : P d0 -> forall rest prev, Forall P rest ->
    skip_streak_from c1 d0 prev rest = skip_streak_from c2 d0 prev rest.
  Proof.
    intros Pd. induction rest as [|x r IH]; intros prev F; cbn [skip_streak_from]; [reflexivity|].
    inversion F; subst. rewrite (agree x d0) by assumption. rewrite IH by assumption. reflexivity.
  Qed.

  Lemma skip_streak_from_forall c d0 : forall rest prev, P prev -> Forall P rest ->
    Forall P (skip_streak_from c d0 prev rest).
  Proof.
    induction rest as [|x r IH]; intros prev Pp F; cbn [skip_streak_from].
    - constructor; [exact Pp|constructor].
    - inversion F; subst. destruct (c x d0 =? 0); [apply IH; assumption|].
      constructor; [exact Pp|exact F].
  Qed.

  Lemma order_of_streak_congr l : Forall P l -> order_of_streak c1 l = order_of_streak c2 l.
  Proof.
    intros F. unfold order_of_streak. destruct (length l <=? 1)%nat; [reflexivity|].
    destruct l as [|d0 rest]; [reflexivity|]. inversion F; subst. cbn [skip_streak].
    rewrite (skip_streak_from_congr d0 H1 rest d0 H2).
    pose proof (skip_streak_from_forall c2 d0 rest d0 H1 H2) as FS.
    destruct (skip_streak_from c2 d0 d0 rest) as [|a [|b t]]; try reflexivity.
    inversion FS; subst. inversion H4; subst.
    rewrite (agree a b) by assumption.
    rewrite (ascending_congr (b :: t)), (descending_congr (b :: t)) by assumption. reflexivity.
  Qed.

  (* the min/max scan *)
  Lemma bounds_fold_congr nan sw r : forall lo hi, P lo -> P hi -> Forall P r ->
    fold_left (bounds_step c1 nan sw) r (lo, hi) = fold_left (bounds_step c2 nan sw) r (lo, hi).
  Proof.
    induction r as [|v r IH]; intros lo hi Pl Ph F; cbn [fold_left]; [reflexivity|].
    inversion F; subst.
    assert (E : bounds_step c1 nan sw (lo, hi) v = bounds_step c2 nan sw (lo, hi) v).
    { unfold bounds_step. rewrite (agree v lo), (agree v hi) by assumption. reflexivity. }
    rewrite E. unfold bounds_step. destruct (nan v); [apply IH; assumption|].
    destruct (c2 v lo <? 0).
    - destruct sw; [apply IH; assumption|]. destruct (c2 v hi >? 0); apply IH; assumption.
    - destruct (c2 v hi >? 0); apply IH; assumption.
  Qed.

  Lemma skip_nan_forall nan l : Forall P l -> Forall P (skip_nan nan l).
  Proof.
    induction 1 as [|x l Hx Hl IH]; cbn [skip_nan]; [constructor|].
    destruct (nan x); [exact IH|constructor; assumption].
  Qed.

  Lemma page_bounds_congr nan sw l : Forall P l ->
    page_bounds c1 nan sw l = page_bounds c2 nan sw l.
  Proof.
    intros F. unfold page_bounds. destruct l as [|first rest]; [reflexivity|].
    pose proof (skip_nan_forall nan _ F) as FS.
    destruct (skip_nan nan (first :: rest)) as [|x r]; [reflexivity|].
    inversion FS; subst. rewrite bounds_fold_congr by assumption. reflexivity.
  Qed.
End Congruence.

(** * Binary DECIMAL columns *)
Definition dec_page_ok (p : page_info bytes) : Prop :=
  match pi_bounds p with
  | Some (mn, mx) => wf_bytes mn /\ wf_bytes mx
  | None => True
  end.

Lemma dec_entries_wf ps : Forall dec_page_ok ps ->
  Forall wf_bytes (map (entry_min bytes [] (fun v => v)) ps) /\
  Forall wf_bytes (map (entry_max bytes [] (fun v => v)) ps).
Proof.
  induction 1 as [|p ps Hp F [IH1 IH2]]; cbn [map]; [split; constructor|].
  unfold dec_page_ok in Hp. unfold entry_min, entry_max at 2.
  split; constructor; auto; unfold entry_max; unfold bytes in *;
    destruct (pi_bounds p) as [[mn mx]|]; try tauto; constructor.
Qed.

Lemma dec_index_as_total limit ps : Forall dec_page_ok ps ->
  index_byte BDecimal limit ps =
  index_pages [] (fun v => v) (fun v => v) (order_of_streak cmp_dt) ps.
Proof.
  intros F. cbn [index_byte]. rewrite !index_pages_maps.
  destruct (dec_entries_wf ps F) as [F1 F2].
  pose proof (order_of_streak_congr bytes cmp_decimal cmp_dt wf_bytes cmp_dt_eq _ F1) as E1.
  pose proof (order_of_streak_congr bytes cmp_decimal cmp_dt wf_bytes cmp_dt_eq _ F2) as E2.
  unfold bytes in *. rewrite E1, E2. reflexivity.
Qed.

Lemma order_of_streak_dt_sound : order_sound bytes cmp_dt (order_of_streak cmp_dt).
Proof.
  exact (order_of_streak_sound bytes cmp_dt no_nan dt_opp dt_trans dt_nan (fun _ => eq_refl)).
Qed.

Theorem decimal_order_claim_true limit ps : Forall dec_page_ok ps ->
  order_claim_true bytes cmp_dt (index_byte BDecimal limit ps).
Proof.
  intros F. rewrite (dec_index_as_total limit ps F).
  exact (boundary_order_true bytes cmp_dt no_nan dt_opp dt_trans dt_nan _ _ _ (order_of_streak cmp_dt)
           order_of_streak_dt_sound (order_of_streak_range bytes cmp_dt)
           (fun l _ => forall_const_false bytes l) ps).
Qed.

(* the claim, in the comparison of the library and in integers *)
Theorem decimal_boundary_order_nonnull limit ps : Forall dec_page_ok ps ->
  let ci := index_byte BDecimal limit ps in
  (ci_order ci = 1 -> ascending_nonnull bytes cmp_decimal (to_search_index ci)) /\
  (ci_order ci = 2 -> ascending_nonnull bytes (fun a b => cmp_decimal b a) (to_search_index ci)).
Proof.
  intros F. cbv zeta. pose proof (decimal_order_claim_true limit ps F) as H.
  assert (W : forall i mn mx, nth_error (to_search_index (index_byte BDecimal limit ps)) i = Some (Some (mn, mx)) ->
              wf_bytes mn /\ wf_bytes mx).
  { intros i mn mx Hi. rewrite (dec_index_as_total limit ps F), index_pages_maps in Hi.
    unfold to_search_index in Hi. cbn [ci_null_pages ci_min_values ci_max_values] in Hi.
    apply (search_index_nth bytes) in Hi. destruct Hi as (_ & H1 & H2).
    destruct (dec_entries_wf ps F) as [F1 F2]. rewrite Forall_forall in F1, F2.
    split; [apply F1|apply F2]; eapply nth_error_In; eauto. }
  split; intros E.
  - pose proof (claim_gives_ascending_nonnull bytes cmp_dt _ H E) as A.
    intros i j mi xi mj xj Hij Hi Hj. destruct (A i j mi xi mj xj Hij Hi Hj) as [A1 A2].
    destruct (W i mi xi Hi), (W j mj xj Hj). rewrite !cmp_dt_eq by assumption. auto.
  - pose proof (claim_gives_descending_nonnull bytes cmp_dt _ H E) as A.
    intros i j mi xi mj xj Hij Hi Hj. destruct (A i j mi xi mj xj Hij Hi Hj) as [A1 A2].
    unfold flip in A1, A2. destruct (W i mi xi Hi), (W j mj xj Hj).
    rewrite !cmp_dt_eq by assumption. auto.
Qed.

(* decimalPage.Bounds / decimalDictionary.Bounds *)
Theorem decimal_page_bounds_sound sw (l : list bytes) mn mx :
  Forall wf_bytes l -> page_bounds cmp_decimal (fun _ => false) sw l = Some (mn, mx) ->
  (forall v, In v l -> cmp_decimal mn v <= 0 /\ cmp_decimal v mx <= 0) /\ In mn l /\ In mx l.
Proof.
  intros F H. rewrite (page_bounds_congr bytes cmp_decimal cmp_dt wf_bytes cmp_dt_eq _ sw l F) in H.
  destruct (page_bounds_sound bytes cmp_dt no_nan dt_opp dt_trans dt_nan sw l mn mx H) as (W & I1 & I2 & _).
  rewrite Forall_forall in F. split; [|auto]. intros v Hv.
  destruct (W v Hv eq_refl) as [H1 H2]. rewrite !cmp_dt_eq by auto. auto.
Qed.

Lemma non_nulls_wf (vals : list (option bytes)) :
  (forall x, In (Some x) vals -> wf_bytes x) -> Forall wf_bytes (non_nulls vals).
Proof.
  intros H. apply Forall_forall. intros x Hx. apply H.
  clear H. induction vals as [|[y|] r IH]; cbn in *; [destruct Hx| |].
  - destruct Hx as [->|Hx]; [left; reflexivity|right; auto].
  - right. auto.
Qed.

Lemma dec_page_of_values_total sw (vals : list (option bytes)) :
  (forall x, In (Some x) vals -> wf_bytes x) ->
  page_of_values cmp_decimal (fun _ => false) sw vals = page_of_values cmp_dt no_nan sw vals.
Proof.
  intros H. unfold page_of_values.
  rewrite (page_bounds_congr bytes cmp_decimal cmp_dt wf_bytes cmp_dt_eq _ sw _ (non_nulls_wf vals H)).
  reflexivity.
Qed.

Lemma dec_page_of_values_ok sw (vals : list (option bytes)) :
  (forall x, In (Some x) vals -> wf_bytes x) -> dec_page_ok (page_of_values cmp_dt no_nan sw vals).
Proof.
  intros H. unfold dec_page_ok, page_of_values. cbn [pi_bounds].
  destruct (page_bounds cmp_dt no_nan sw (non_nulls vals)) as [[mn mx]|] eqn:B; [|exact I].
  destruct (page_bounds_sound bytes cmp_dt no_nan dt_opp dt_trans dt_nan sw _ _ _ B) as (_ & I1 & I2 & _).
  pose proof (non_nulls_wf vals H) as F. rewrite Forall_forall in F. auto.
Qed.

Theorem decimal_skip_safe sw limit (pages : list (list (option bytes))) p vals v :
  (forall vs x, In vs pages -> In (Some x) vs -> wf_bytes x) ->
  nth_error pages p = Some vals -> In (Some v) vals ->
  may_skip cmp_decimal
    (index_byte BDecimal limit (map (page_of_values cmp_decimal (fun _ => false) sw) pages)) p v = false.
Proof.
  intros Hw Hp Hv.
  assert (E : map (page_of_values cmp_decimal (fun _ => false) sw) pages
              = map (page_of_values cmp_dt no_nan sw) pages).
  { apply map_ext_in. intros vs Hin. apply dec_page_of_values_total. intros x Hx. apply (Hw vs x Hin Hx). }
  rewrite E.
  assert (Fok : Forall dec_page_ok (map (page_of_values cmp_dt no_nan sw) pages)).
  { rewrite Forall_map. apply Forall_forall. intros vs Hin. apply dec_page_of_values_ok.
    intros x Hx. apply (Hw vs x Hin Hx). }
  assert (R : forall x, cmp_dt x x <= 0).
  { intros x. exact (cmp_refl bytes cmp_dt no_nan dt_opp dt_trans dt_nan x). }
  pose proof (skip_safe bytes cmp_dt no_nan dt_opp dt_trans dt_nan [] (fun v => v) (fun v => v)
                (order_of_streak cmp_dt) (order_of_streak_range bytes cmp_dt)
                (fun l _ => forall_const_false bytes l) (fun _ => True)
                (fun v _ => R v) (fun v _ => R v) sw pages p vals v Hp (fun _ _ => I) Hv eq_refl) as S.
  rewrite (dec_index_as_total limit _ Fok).
  destruct (dec_entries_wf _ Fok) as [F1 F2].
  rewrite Forall_forall in F1, F2.
  assert (Wv : wf_bytes v) by (apply (Hw vals v); [eapply nth_error_In; eauto|exact Hv]).
  revert S. unfold may_skip. rewrite !index_pages_maps.
  cbn [ci_null_pages ci_min_values ci_max_values]. unfold bytes in *.
  match goal with |- context [nth_error ?l p] => destruct (nth_error l p) as [np|] end; [|auto].
  match goal with |- context [nth_error ?l p] => destruct (nth_error l p) as [mn|] eqn:Emn end; [|auto].
  match goal with |- context [nth_error ?l p] => destruct (nth_error l p) as [mx|] eqn:Emx end; [|auto].
  assert (Wmn : wf_bytes mn) by (apply F1; eapply nth_error_In; eauto).
  assert (Wmx : wf_bytes mx) by (apply F2; eapply nth_error_In; eauto).
  rewrite !cmp_dt_eq by assumption. auto.
Qed.
