(** type_decimal.go compareDecimalByteArrays is the order of the signed
    integers that big-endian two's-complement byte strings of any lengths
    denote; hence a total preorder, and the theorems of Stats/Proofs.v apply
    to binary DECIMAL columns. *)
From Coq Require Import List NArith ZArith Bool Arith Lia.
From Coq Require Import ZifyN ZifyNat ZifyBool.
From PQ Require Import Base.Bytes Search.Model Search.Proofs
     Stats.Order Stats.OrderProofs Stats.Model Stats.Proofs Stats.Instances.
Import ListNotations.
Open Scope Z_scope.

Definition pw (n : nat) : Z := 256 ^ Z.of_nat n.
Definition ube (l : bytes) : Z := Z.of_N (of_be l).

(* the integer a byte string denotes: empty = 0 *)
Definition dec_val (a : bytes) : Z :=
  if dec_negative a then ube a - pw (length a) else ube a.

Lemma pw_pos n : 0 < pw n.
Proof. unfold pw. apply Z.pow_pos_nonneg; lia. Qed.

Lemma pw_S n : pw (S n) = 256 * pw n.
Proof. unfold pw. rewrite Nat2Z.inj_succ, Z.pow_succ_r by lia. reflexivity. Qed.

Lemma pw_add a b : pw (a + b) = pw a * pw b.
Proof. unfold pw. rewrite Nat2Z.inj_add, Z.pow_add_r by lia. reflexivity. Qed.

Lemma pw_N n : Z.of_N (256 ^ N.of_nat n) = pw n.
Proof. unfold pw. rewrite N2Z.inj_pow, nat_N_Z. reflexivity. Qed.

Lemma ube_cons x r : ube (x :: r) = Z.of_N x * pw (length r) + ube r.
Proof. unfold ube. cbn [of_be]. rewrite N2Z.inj_add, N2Z.inj_mul, pw_N. reflexivity. Qed.

Lemma ube_nil : ube [] = 0.
Proof. reflexivity. Qed.

Lemma ube_bound l : wf_bytes l -> 0 <= ube l < pw (length l).
Proof.
  intros W. pose proof (of_be_bound l W) as H. unfold ube. rewrite <- pw_N. lia.
Qed.

Lemma ube_app a : forall b, ube (a ++ b) = ube a * pw (length b) + ube b.
Proof.
  induction a as [|x a IH]; intros b; cbn [app].
  - rewrite ube_nil. lia.
  - rewrite !ube_cons, IH, app_length, pw_add. lia.
Qed.

Lemma wf_cons x r : wf_bytes (x :: r) -> (x < 256)%N /\ wf_bytes r.
Proof. intros W. inversion W; subst. auto. Qed.

Lemma dec_sign a : wf_bytes a ->
  (dec_negative a = true -> - pw (length a) <= 2 * dec_val a /\ dec_val a < 0) /\
  (dec_negative a = false -> 0 <= dec_val a /\ 2 * dec_val a < pw (length a) \/ a = []).
Proof.
  intros W. unfold dec_val. destruct a as [|x r]; cbn [dec_negative].
  - split; [discriminate|]. intros _. right. reflexivity.
  - apply wf_cons in W. destruct W as [Hx Wr]. pose proof (ube_bound r Wr) as B.
    pose proof (pw_pos (length r)) as P. cbn [length]. rewrite pw_S, ube_cons.
    destruct (N.leb_spec 128 x) as [H|H]; split; try discriminate; intros _.
    + nia.
    + left. nia.
Qed.

(* the loop over the extra leading bytes of the longer operand *)
Lemma dec_pad_cmp_zero pre : wf_bytes pre ->
  (dec_pad_cmp pre 0 = 0 /\ ube pre = 0) \/ (dec_pad_cmp pre 0 = 1 /\ 1 <= ube pre).
Proof.
  induction 1 as [|c r Hc Wr IH]; cbn [dec_pad_cmp].
  - left. auto.
  - rewrite ube_cons. pose proof (ube_bound r Wr) as B. pose proof (pw_pos (length r)) as P.
    destruct (N.ltb_spec c 0); [lia|]. destruct (N.ltb_spec 0 c) as [H1|H1].
    + right. split; [reflexivity|]. nia.
    + assert (c = 0%N) by lia. subst. destruct IH as [[E1 E2]|[E1 E2]]; [left|right]; split; auto; lia.
Qed.

Lemma dec_pad_cmp_ff pre : wf_bytes pre ->
  (dec_pad_cmp pre 255 = 0 /\ ube pre = pw (length pre) - 1) \/
  (dec_pad_cmp pre 255 = -1 /\ ube pre <= pw (length pre) - 2).
Proof.
  induction 1 as [|c r Hc Wr IH]; cbn [dec_pad_cmp length].
  - left. split; [reflexivity|]. cbn. lia.
  - rewrite ube_cons, pw_S. pose proof (ube_bound r Wr) as B. pose proof (pw_pos (length r)) as P.
    destruct (N.ltb_spec c 255) as [H1|H1].
    + right. split; [reflexivity|]. nia.
    + destruct (N.ltb_spec 255 c); [lia|]. assert (c = 255%N) by lia. subst.
      destruct IH as [[E1 E2]|[E1 E2]]; [left|right]; split; auto; lia.
Qed.

Lemma cmp_bytes_ube a b : length a = length b -> wf_bytes a -> wf_bytes b ->
  cmp_bytes a b = cmpZ (ube a) (ube b).
Proof. intros. unfold ube. apply cmp_bytes_of_be; assumption. Qed.

(* compareDecimalPadded: same sign, a at least as long as b *)
Lemma dec_cmp_padded_val a b :
  wf_bytes a -> wf_bytes b -> (length b <= length a)%nat ->
  dec_negative a = dec_negative b ->
  dec_cmp_padded a b (if dec_negative a then 255%N else 0%N) = cmpZ (dec_val a) (dec_val b).
Proof.
  intros Wa Wb L S. unfold dec_cmp_padded.
  set (d := (length a - length b)%nat).
  assert (Ea : a = firstn d a ++ skipn d a) by (symmetry; apply firstn_skipn).
  assert (Wp : wf_bytes (firstn d a) /\ wf_bytes (skipn d a)).
  { apply wf_bytes_app. rewrite <- Ea. exact Wa. }
  destruct Wp as [Wpre Wsuf].
  assert (Ls : length (skipn d a) = length b) by (rewrite skipn_length; lia).
  assert (Lp : length (firstn d a) = d) by (rewrite firstn_length; lia).
  assert (La : length a = (d + length b)%nat) by lia.
  pose proof (ube_app (firstn d a) (skipn d a)) as Ua. rewrite <- Ea, Ls in Ua.
  pose proof (ube_bound _ Wsuf) as Bs. rewrite Ls in Bs.
  pose proof (ube_bound _ Wb) as Bb. pose proof (ube_bound _ Wpre) as Bp. rewrite Lp in Bp.
  pose proof (pw_pos (length b)) as Pb. pose proof (pw_pos d) as Pd.
  pose proof (cmp_bytes_ube (skipn d a) b Ls Wsuf Wb) as Cs.
  destruct (dec_sign a Wa) as [SaN SaP]. destruct (dec_sign b Wb) as [SbN SbP].
  unfold dec_val in *. rewrite <- S in *. rewrite La, pw_add in *.
  destruct (dec_negative a) eqn:Na.
  - (* both negative *)
    destruct (dec_pad_cmp_ff _ Wpre) as [[E1 E2]|[E1 E2]]; rewrite E1; rewrite Lp in E2.
    + rewrite Cs. unfold cmpZ.
      destruct (Z.compare_spec (ube (skipn d a)) (ube b));
      destruct (Z.compare_spec (ube a - pw d * pw (length b)) (ube b - pw (length b))); try reflexivity; nia.
    + specialize (SbN eq_refl). unfold cmpZ.
      destruct (Z.compare_spec (ube a - pw d * pw (length b)) (ube b - pw (length b))); try reflexivity; nia.
  - (* both non-negative *)
    destruct (dec_pad_cmp_zero _ Wpre) as [[E1 E2]|[E1 E2]]; rewrite E1.
    + rewrite Cs. unfold cmpZ.
      destruct (Z.compare_spec (ube (skipn d a)) (ube b));
      destruct (Z.compare_spec (ube a) (ube b)); try reflexivity; nia.
    + unfold cmpZ. destruct (Z.compare_spec (ube a) (ube b)); try reflexivity; nia.
Qed.

Theorem cmp_decimal_val a b : wf_bytes a -> wf_bytes b ->
  cmp_decimal a b = cmpZ (dec_val a) (dec_val b).
Proof.
  intros Wa Wb. unfold cmp_decimal.
  destruct (dec_sign a Wa) as [SaN SaP]. destruct (dec_sign b Wb) as [SbN SbP].
  destruct (dec_negative a) eqn:Na; destruct (dec_negative b) eqn:Nb; cbn [andb negb].
  - (* both negative *)
    destruct (Nat.ltb_spec (length a) (length b)) as [L|L].
    + pose proof (dec_cmp_padded_val b a Wb Wa ltac:(lia) ltac:(congruence)) as H.
      rewrite Nb in H. rewrite H. unfold cmpZ. rewrite (Z.compare_antisym (dec_val a) (dec_val b)).
      destruct (Z.compare (dec_val a) (dec_val b)); reflexivity.
    + pose proof (dec_cmp_padded_val a b Wa Wb L ltac:(congruence)) as H. rewrite Na in H. exact H.
  - specialize (SaN eq_refl). specialize (SbP eq_refl).
    assert (0 <= dec_val b).
    { destruct SbP as [H0|H0]; [lia|]. subst b. cbn. lia. }
    unfold cmpZ. destruct (Z.compare_spec (dec_val a) (dec_val b)); try reflexivity; lia.
  - specialize (SbN eq_refl). specialize (SaP eq_refl).
    assert (0 <= dec_val a).
    { destruct SaP as [H0|H0]; [lia|]. subst a. cbn. lia. }
    unfold cmpZ. destruct (Z.compare_spec (dec_val a) (dec_val b)); try reflexivity; lia.
  - destruct (Nat.ltb_spec (length a) (length b)) as [L|L].
    + pose proof (dec_cmp_padded_val b a Wb Wa ltac:(lia) ltac:(congruence)) as H.
      rewrite Nb in H. rewrite H. unfold cmpZ. rewrite (Z.compare_antisym (dec_val a) (dec_val b)).
      destruct (Z.compare (dec_val a) (dec_val b)); reflexivity.
    + pose proof (dec_cmp_padded_val a b Wa Wb L ltac:(congruence)) as H. rewrite Na in H. exact H.
Qed.
