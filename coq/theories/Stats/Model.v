(** Executable model of the statistics parquet-go records while writing:
    page bounds (page_*.go Bounds), the column-chunk fold of
    writer.go recordPageStats, the column indexers of column_index.go
    (observe, typed min/max lists with the zero value for null pages,
    truncation of long byte-array bounds, boundary order), and the level
    histograms of writer_statistics.go.  No proofs here (Stats/Proofs.v). *)
From Coq Require Import List NArith ZArith Bool Arith.
From PQ Require Import Base.Bytes Search.Model Stats.Order.
Import ListNotations.
Open Scope Z_scope.

(** * Page bounds *)
Section Bounds.
  Variable V : Type.
  Variable cmp : V -> V -> Z.
  Variable nan : V -> bool.          (* math.IsNaN for FLOAT/DOUBLE, constantly false otherwise *)

  (* one iteration of the loops of page_bounds_purego.go boundsInt32 ... /
     page_float.go Bounds ("if v < lo {lo = v}; if v > hi {hi = v}") and, with
     [sw = true], of page_byte_array.go bounds (a switch: the second test is
     not evaluated when the first one succeeds) *)
  Definition bounds_step (sw : bool) (acc : V * V) (v : V) : V * V :=
    let (lo, hi) := acc in
    if nan v then (lo, hi)
    else if cmp v lo <? 0 then (v, if sw then hi else if cmp v hi >? 0 then v else hi)
    else (lo, if cmp v hi >? 0 then v else hi).

  (* the leading "for i < len(data) && math.IsNaN(data[i])" of page_float.go *)
  Fixpoint skip_nan (l : list V) : list V :=
    match l with
    | [] => []
    | x :: r => if nan x then skip_nan r else l
    end.

  (* Bounds of a page holding the non-null values [l]: None when the page has
     no value (ok = false), the first value twice when every value is NaN *)
  Definition page_bounds (sw : bool) (l : list V) : option (V * V) :=
    match l with
    | [] => None
    | first :: _ =>
        match skip_nan l with
        | [] => Some (first, first)
        | x :: r => Some (fold_left (bounds_step sw) r (x, x))
        end
    end.

  (** * Column chunk statistics: writer.go recordPageStats *)
  Record chunk_stats := {
    cs_num_values : Z;
    cs_null_count : Z;
    cs_bounds : option (V * V)     (* Statistics.MinValue / MaxValue, nil at first *)
  }.

  Definition chunk_empty : chunk_stats :=
    {| cs_num_values := 0; cs_null_count := 0; cs_bounds := None |}.

  (* a page as recordPageStats sees it *)
  Record page_info := {
    pi_num_values : Z;
    pi_num_nulls : Z;
    pi_bounds : option (V * V)     (* None: page.Bounds() answered ok = false *)
  }.

  (* writer.go replacesNaNBound (after 73b7e16): an existing NaN bound (every
     page so far held only NaN) gives way to a bound that is not NaN *)
  Definition replaces_nan_bound (bound existing : V) : bool := nan existing && negb (nan bound).

  (* [pinned = true]: the code before 73b7e16, without replacesNaNBound *)
  Definition record_page_gen (pinned : bool) (st : chunk_stats) (p : page_info) : chunk_stats :=
    let nv := cs_num_values st + pi_num_values p in
    let nn := cs_null_count st + pi_num_nulls p in
    match pi_bounds p with
    | None => {| cs_num_values := nv; cs_null_count := nn; cs_bounds := cs_bounds st |}
    | Some (mn, mx) =>
        match cs_bounds st with
        | None => {| cs_num_values := nv; cs_null_count := nn; cs_bounds := Some (mn, mx) |}
        | Some (emn, emx) =>
            let mx' := if (negb pinned && replaces_nan_bound mx emx) || (cmp mx emx >? 0) then mx else emx in
            let mn' := if (negb pinned && replaces_nan_bound mn emn) || (cmp mn emn <? 0) then mn else emn in
            {| cs_num_values := nv; cs_null_count := nn; cs_bounds := Some (mn', mx') |}
        end
    end.

  Definition record_page := record_page_gen false.

  Definition chunk_fold (ps : list page_info) : chunk_stats :=
    fold_left record_page ps chunk_empty.
  Definition chunk_fold_pinned (ps : list page_info) : chunk_stats :=
    fold_left (record_page_gen true) ps chunk_empty.

  (** * Bounds of a dictionary-encoded page: dictionary_float.go /
      dictionary_double.go Bounds (after 14734b5).  Leading NaN are skipped;
      without any NaN the bulk kernel d.bounds runs (two tests per value),
      otherwise a loop with a switch that skips NaN.  The other dictionary
      types have no NaN and always run their kernel. *)
  Definition dict_bounds (l : list V) : option (V * V) := page_bounds (existsb nan l) l.

  (** * Order of a list of bounds: order_purego.go orderOf, deprecated/int96.go
      OrderOfInt96 *)
  Fixpoint no_adjacent (bad : V -> V -> bool) (l : list V) : bool :=
    match l with
    | a :: ((b :: _) as t) => negb (bad a b) && no_adjacent bad t
    | _ => true
    end.

  (* orderIsAscending: no i with data[i-1] > data[i] *)
  Definition order_is_ascending (l : list V) : bool := no_adjacent (fun a b => cmp a b >? 0) l.
  (* orderIsDescending: no i with data[i-1] < data[i] *)
  Definition order_is_descending (l : list V) : bool := no_adjacent (fun a b => cmp a b <? 0) l.

  Definition order_of (l : list V) : Z :=
    if (1 <? length l)%nat then
      if order_is_ascending l then 1
      else if order_is_descending l then -1
      else 0
    else 0.

  (* column_index.go orderOfFloatBounds (after 6707249): no order is claimed
     when a bound is NaN *)
  Definition order_nan_guard (ord : list V -> Z) (l : list V) : Z :=
    if existsb nan l then 0 else ord l.

  (** order.go orderOfBytes / type_decimal.go orderOfDecimalBytes: the leading
      streak of values equal to the first one is skipped first (the decimal
      version compares each value with its predecessor instead of the first
      one, the same thing for an equivalence) *)
  Fixpoint skip_streak_from (d0 prev : V) (rest : list V) : list V :=
    match rest with
    | [] => [prev]
    | x :: r => if cmp x d0 =? 0 then skip_streak_from d0 x r else prev :: x :: r
    end.

  (* skipBytesStreak: data[i-1:] for the first i with data[i] != data[0],
     data[len(data)-1:] when there is none *)
  Definition skip_streak (l : list V) : list V :=
    match l with
    | [] => []
    | d0 :: rest => skip_streak_from d0 d0 rest
    end.

  Definition order_of_streak (l : list V) : Z :=
    if (length l <=? 1)%nat then 0
    else
      match skip_streak l with
      | a :: ((b :: _) as t) =>
          let ordering := cmp a b in
          if ordering <? 0 then (if order_is_ascending t then 1 else 0)
          else if ordering >? 0 then (if order_is_descending t then -1 else 0)
          else 0
      | _ => 1
      end.

  (** * Column index: column_index.go *)
  (* format.BoundaryOrder: Unordered = 0, Ascending = 1, Descending = 2 *)
  Definition boundary_order_of (min_order max_order : Z) : Z :=
    if min_order =? max_order then
      if min_order >? 0 then 1 else if min_order <? 0 then 2 else 0
    else 0.

  Record col_index := {
    ci_null_pages : list bool;
    ci_null_counts : list Z;
    ci_min_values : list V;
    ci_max_values : list V;
    ci_order : Z
  }.

  (* the state of an indexer between IndexPage calls *)
  Record indexer := {
    ix_null_pages : list bool;
    ix_null_counts : list Z;
    ix_mins : list V;
    ix_maxs : list V
  }.

  Definition indexer_empty : indexer :=
    {| ix_null_pages := []; ix_null_counts := []; ix_mins := []; ix_maxs := [] |}.

  Variable zero : V.                 (* what min.int32(), min.byteArray(), ... give on the null Value *)
  Variable tmin tmax : V -> V.       (* truncation applied by ColumnIndex() *)
  Variable ord : list V -> Z.        (* orderOfInt32 ... orderOfBytes *)

  (* IndexPage: baseColumnIndexer.observe + append to the typed lists *)
  Definition index_page (ix : indexer) (p : page_info) : indexer :=
    let mn := match pi_bounds p with Some (mn, _) => mn | None => zero end in
    let mx := match pi_bounds p with Some (_, mx) => mx | None => zero end in
    {| ix_null_pages := ix_null_pages ix ++ [pi_num_values p =? pi_num_nulls p];
       ix_null_counts := ix_null_counts ix ++ [pi_num_nulls p];
       ix_mins := ix_mins ix ++ [mn];
       ix_maxs := ix_maxs ix ++ [mx] |}.

  (* ColumnIndex(): truncate, compute both orders on the lists that are stored *)
  Definition column_index (ix : indexer) : col_index :=
    let mins := map tmin (ix_mins ix) in
    let maxs := map tmax (ix_maxs ix) in
    {| ci_null_pages := ix_null_pages ix;
       ci_null_counts := ix_null_counts ix;
       ci_min_values := mins;
       ci_max_values := maxs;
       ci_order := boundary_order_of (ord mins) (ord maxs) |}.

  Definition index_pages (ps : list page_info) : col_index :=
    column_index (fold_left index_page ps indexer_empty).

  (** the accessors of FileColumnIndex, in the shape of Search/Model.v *)
  Fixpoint search_index (nulls : list bool) (mins maxs : list V) : list (option (V * V)) :=
    match nulls, mins, maxs with
    | np :: nulls', mn :: mins', mx :: maxs' =>
        (if np then None else Some (mn, mx)) :: search_index nulls' mins' maxs'
    | _, _, _ => []
    end.

  Definition to_search_index (ci : col_index) : list (option (V * V)) :=
    search_index (ci_null_pages ci) (ci_min_values ci) (ci_max_values ci).

  (** a reader that prunes pages with the stored bounds: page [p] is skipped
      for value [v] when it is a null page or v < min_p or v > max_p *)
  Definition may_skip (ci : col_index) (p : nat) (v : V) : bool :=
    match nth_error (ci_null_pages ci) p, nth_error (ci_min_values ci) p, nth_error (ci_max_values ci) p with
    | Some np, Some mn, Some mx => np || (cmp v mn <? 0) || (cmp v mx >? 0)
    | _, _, _ => true
    end.

  (** pages given by their values ([None] = null): what the writer hands to
      recordPageStats *)
  Fixpoint non_nulls (l : list (option V)) : list V :=
    match l with
    | [] => []
    | Some v :: r => v :: non_nulls r
    | None :: r => non_nulls r
    end.

  Definition page_of_values (sw : bool) (l : list (option V)) : page_info :=
    let vs := non_nulls l in
    {| pi_num_values := Z.of_nat (length l);
       pi_num_nulls := Z.of_nat (length l - length vs);
       pi_bounds := page_bounds sw vs |}.
End Bounds.

Arguments bounds_step {V}.
Arguments skip_nan {V}.
Arguments page_bounds {V}.
Arguments cs_num_values {V}.
Arguments cs_null_count {V}.
Arguments cs_bounds {V}.
Arguments chunk_empty {V}.
Arguments pi_num_values {V}.
Arguments pi_num_nulls {V}.
Arguments pi_bounds {V}.
Arguments replaces_nan_bound {V}.
Arguments record_page_gen {V}.
Arguments record_page {V}.
Arguments chunk_fold {V}.
Arguments chunk_fold_pinned {V}.
Arguments dict_bounds {V}.
Arguments order_nan_guard {V}.
Arguments no_adjacent {V}.
Arguments order_is_ascending {V}.
Arguments order_is_descending {V}.
Arguments order_of {V}.
Arguments skip_streak_from {V}.
Arguments skip_streak {V}.
Arguments order_of_streak {V}.
Arguments ci_null_pages {V}.
Arguments ci_null_counts {V}.
Arguments ci_min_values {V}.
Arguments ci_max_values {V}.
Arguments ci_order {V}.
Arguments ix_null_pages {V}.
Arguments ix_null_counts {V}.
Arguments ix_mins {V}.
Arguments ix_maxs {V}.
Arguments indexer_empty {V}.
Arguments index_page {V}.
Arguments column_index {V}.
Arguments index_pages {V}.
Arguments search_index {V}.
Arguments to_search_index {V}.
Arguments may_skip {V}.
Arguments non_nulls {V}.
Arguments page_of_values {V}.

(** * order.go orderOfBool, statement by statement *)
Fixpoint streak_of (b : N) (l : list N) : nat :=      (* streakOfTrue / streakOfFalse *)
  match l with
  | [] => O
  | x :: r => if (x =? b)%N then S (streak_of b r) else O
  end.

Definition order_of_bool (data : list N) : Z :=
  if (length data <=? 1)%nat then 0
  else
    match data with
    | [] => 0
    | d0 :: _ =>
        let '(k, i) :=
          if (d0 =? 1)%N then
            let i := streak_of 1%N data in
            if (i =? length data)%nat then (1, i)
            else (-1, (i + streak_of 0%N (skipn i data))%nat)
          else
            let i := streak_of 0%N data in
            (1, (i + streak_of 1%N (skipn i data))%nat) in
        if (i =? length data)%nat then k else 0
    end.

(** * Truncation of byte-array bounds: column_index.go *)
Definition truncate_min (limit : nat) (v : bytes) : bytes :=
  if (limit <? length v)%nat then firstn limit v else v.

(* incrementByteArrayInplace, from the last byte: the result and whether a
   byte could be incremented without overflowing *)
Fixpoint increment (l : bytes) : bytes * bool :=
  match l with
  | [] => ([], false)
  | x :: r =>
      let (r', ok) := increment r in
      if ok then (x :: r', true)
      else
        let x' := ((x + 1) mod 256)%N in
        (x' :: r', negb (x' =? 0)%N)
  end.

(* the whole function: on full overflow every byte is restored to 0xFF *)
Definition increment_inplace (l : bytes) : bytes * bool :=
  let (l', ok) := increment l in
  if ok then (l', true) else (map (fun _ => 255%N) l, false).

(* truncateLargeMaxByteArrayValue (after 5573cfe): the prefix is incremented in
   place; when it cannot be, the whole (restored) value is kept *)
Definition truncate_max (limit : nat) (v : bytes) : bytes :=
  if (limit <? length v)%nat then
    let (p, ok) := increment_inplace (firstn limit v) in
    if ok then p else p ++ skipn limit v
  else v.

(* the pinned tree: value = value[:sizeLimit]; incrementByteArrayInplace(value) *)
Definition truncate_max_pinned (limit : nat) (v : bytes) : bytes :=
  if (limit <? length v)%nat then fst (increment_inplace (firstn limit v)) else v.

(** * FIXED_LEN_BYTE_ARRAY indexer: flat buffers split at ColumnIndex() *)
Fixpoint split_fixed_fuel (fuel size : nat) (data : bytes) : list bytes :=
  match fuel with
  | O => []
  | S f => firstn size data :: split_fixed_fuel f size (skipn size data)
  end.

(* splitFixedLenByteArrays: len(data)/size values *)
Definition split_fixed (size : nat) (data : bytes) : list bytes :=
  split_fixed_fuel (length data / size) size data.

Definition zeros (n : nat) : bytes := repeat 0%N n.

Record flba_indexer := {
  fx_null_pages : list bool;
  fx_null_counts : list Z;
  fx_mins : bytes;       (* i.minValues []byte *)
  fx_maxs : bytes
}.

Definition flba_empty : flba_indexer :=
  {| fx_null_pages := []; fx_null_counts := []; fx_mins := []; fx_maxs := [] |}.

(* fixedLenByteArrayColumnIndexer.IndexPage (after 218b949: appendValue);
   [pinned = true] is the old code: append(min.byteArray()...) appends nothing
   for the null Value *)
Definition flba_index_page (pinned : bool) (size : nat) (ix : flba_indexer) (p : page_info bytes) : flba_indexer :=
  let null_entry := if pinned then [] else zeros size in
  let mn := match pi_bounds p with Some (mn, _) => mn | None => null_entry end in
  let mx := match pi_bounds p with Some (_, mx) => mx | None => null_entry end in
  {| fx_null_pages := fx_null_pages ix ++ [pi_num_values p =? pi_num_nulls p];
     fx_null_counts := fx_null_counts ix ++ [pi_num_nulls p];
     fx_mins := fx_mins ix ++ mn;
     fx_maxs := fx_maxs ix ++ mx |}.

Definition order_of_bytes : list bytes -> Z := order_of_streak cmp_bytes.

Definition flba_column_index (size limit : nat) (ix : flba_indexer) : col_index bytes :=
  let mins := split_fixed size (fx_mins ix) in
  let maxs := split_fixed size (fx_maxs ix) in
  let mins := if (0 <? limit)%nat then map (truncate_min limit) mins else mins in
  let maxs := if (0 <? limit)%nat then map (truncate_max limit) maxs else maxs in
  {| ci_null_pages := fx_null_pages ix;
     ci_null_counts := fx_null_counts ix;
     ci_min_values := mins;
     ci_max_values := maxs;
     ci_order := boundary_order_of (order_of_bytes mins) (order_of_bytes maxs) |}.

Definition flba_index_pages (pinned : bool) (size limit : nat) (ps : list (page_info bytes)) : col_index bytes :=
  flba_column_index size limit (fold_left (flba_index_page pinned size) ps flba_empty).

(** * be128ColumnIndexer before 218b949: nothing appended for null bounds *)
Definition be128_index_page_pinned (ix : indexer bytes) (p : page_info bytes) : indexer bytes :=
  {| ix_null_pages := ix_null_pages ix ++ [pi_num_values p =? pi_num_nulls p];
     ix_null_counts := ix_null_counts ix ++ [pi_num_nulls p];
     ix_mins := match pi_bounds p with Some (mn, _) => ix_mins ix ++ [mn] | None => ix_mins ix end;
     ix_maxs := match pi_bounds p with Some (_, mx) => ix_maxs ix ++ [mx] | None => ix_maxs ix end |}.

Definition be128_index_pages_pinned (ps : list (page_info bytes)) : col_index bytes :=
  column_index (fun v => v) (fun v => v) order_of_bytes
               (fold_left be128_index_page_pinned ps indexer_empty).

(** * The indexers by column kind *)
Definition order_num (k : numkind) : list N -> Z :=
  match k with
  | NBool => order_of_bool
  | NFloat | NDouble => order_nan_guard (nan_num k) (order_of (cmp_num k))
  | _ => order_of (cmp_num k)
  end.

(* before 6707249: orderOfFloat32 / orderOfFloat64 on the bounds as they are *)
Definition order_num_pinned (k : numkind) : list N -> Z :=
  match k with
  | NBool => order_of_bool
  | _ => order_of (cmp_num k)
  end.

(* int32/int64/uint32/uint64/float/double/int96/boolean ColumnIndexer *)
Definition index_num (k : numkind) (ps : list (page_info N)) : col_index N :=
  index_pages 0%N (fun v => v) (fun v => v) (order_num k) ps.
Definition index_num_pinned (k : numkind) (ps : list (page_info N)) : col_index N :=
  index_pages 0%N (fun v => v) (fun v => v) (order_num_pinned k) ps.

Definition limit_min (limit : Z) (v : bytes) : bytes :=
  if 0 <? limit then truncate_min (Z.to_nat limit) v else v.
Definition limit_max (limit : Z) (v : bytes) : bytes :=
  if 0 <? limit then truncate_max (Z.to_nat limit) v else v.

(* byteArray / fixedLenByteArray / be128 / decimal ColumnIndexer with the
   ColumnIndexSizeLimit [limit] (<= 0: no truncation) *)
Definition index_byte (k : bytekind) (limit : Z) (ps : list (page_info bytes)) : col_index bytes :=
  match k with
  | BBytes => index_pages [] (limit_min limit) (limit_max limit) order_of_bytes ps
  | BFlba size => flba_index_pages false size (if 0 <? limit then Z.to_nat limit else O) ps
  | BBe128 => index_pages (zeros 16) (fun v => v) (fun v => v) order_of_bytes ps
  | BDecimal => index_pages [] (fun v => v) (fun v => v) (order_of_streak cmp_decimal) ps
  end.

(* the page bounds of each kind ([sw]: byte arrays use the switch form) *)
Definition bounds_num (k : numkind) (l : list N) : option (N * N) :=
  page_bounds (cmp_num k) (nan_num k) false l.

Definition bounds_byte (k : bytekind) (l : list bytes) : option (bytes * bytes) :=
  page_bounds (cmp_byte k) (fun _ => false) (match k with BBytes => true | _ => false end) l.

(* Bounds of a dictionary-encoded page of each kind *)
Definition dict_bounds_num (k : numkind) (l : list N) : option (N * N) :=
  dict_bounds (cmp_num k) (nan_num k) l.
(* before 14734b5 (portable kernel): no value is skipped *)
Definition dict_bounds_num_pinned (k : numkind) (l : list N) : option (N * N) :=
  page_bounds (cmp_num k) (fun _ => false) false l.

Definition chunk_num (k : numkind) (ps : list (page_info N)) : chunk_stats N :=
  chunk_fold (cmp_num k) (nan_num k) ps.
Definition chunk_num_pinned (k : numkind) (ps : list (page_info N)) : chunk_stats N :=
  chunk_fold_pinned (cmp_num k) (nan_num k) ps.
Definition chunk_byte (k : bytekind) (ps : list (page_info bytes)) : chunk_stats bytes :=
  chunk_fold (cmp_byte k) (fun _ => false) ps.

(** * Level histograms: writer_statistics.go accumulateAndAppendPageLevelHistogram *)
Fixpoint incr_at (k : nat) (h : list Z) : list Z :=
  match h, k with
  | [], _ => []
  | x :: r, O => (x + 1) :: r
  | x :: r, S k' => x :: incr_at k' r
  end.

(* one page: the column histogram is updated, a fresh page histogram of
   max_level + 1 counters is filled *)
Definition level_histograms (max_level : nat) (column : list Z) (levels : list nat) : list Z * list Z :=
  fold_left (fun '(col, pg) l => (incr_at l col, incr_at l pg)) levels
            (column, repeat 0 (S max_level)).
