(** Proofs about Stats/Multi.v: when multiColumnIndex.isOrdered answers true
    and the claims of the chunks' own indexes are true, then the claim is true
    of all the pages of the concatenated index — over every pair of non-null
    pages, across any number of chunk boundaries and of chunks holding only
    null pages (the hypothesis [ascending_nonnull] that Find relies on). *)
From Coq Require Import List ZArith Bool Arith Lia.
From PQ Require Import Search.Model Search.Proofs Stats.Multi.
Import ListNotations.
Open Scope Z_scope.

(** * The argument, for an order [c] and the two ends [lo], [hi] of a page
      (min, max for an ascending index; max, min with the reversed order for a
      descending one) *)
Section Generic.
  Variable V : Type.
  Variable c : V -> V -> Z.
  Variable nan : V -> bool.
  Variable lo hi : V * V -> V.
  Hypothesis c_refl : forall a, c a a <= 0.
  Hypothesis c_trans : forall a b d, nan b = false -> c a b <= 0 -> c b d <= 0 -> c a d <= 0.

  Definition R (a b : V * V) : Prop := c (lo a) (lo b) <= 0 /\ c (hi a) (hi b) <= 0.
  Definition ok (b : V * V) : Prop := nan (lo b) = false /\ nan (hi b) = false /\ c (lo b) (hi b) <= 0.

  (* the bounds of the non-null pages *)
  Fixpoint nn (idx : index V) : list (V * V) :=
    match idx with
    | [] => []
    | Some b :: r => b :: nn r
    | None :: r => nn r
    end.

  Definition asc_gen (idx : index V) : Prop :=
    forall i j bi bj, (i < j)%nat ->
      nth_error idx i = Some (Some bi) -> nth_error idx j = Some (Some bj) -> R bi bj.

  Lemma nn_in idx b : In b (nn idx) <-> exists j, nth_error idx j = Some (Some b).
  Proof.
    induction idx as [|[x|] r IH]; cbn [nn].
    - split; [intros []|intros [j H]; destruct j; discriminate].
    - split.
      + intros [E|H]; [exists 0%nat; subst; reflexivity|].
        apply IH in H. destruct H as [j H]. exists (S j). exact H.
      + intros [[|j] H]; cbn in H; [injection H as ->; left; reflexivity|].
        right. apply IH. exists j. exact H.
    - rewrite IH. split; intros [j H]; [exists (S j); exact H|].
      destruct j; [discriminate|exists j; exact H].
  Qed.

  Lemma asc_gen_fop idx : asc_gen idx <-> ForallOrdPairs R (nn idx).
  Proof.
    induction idx as [|[x|] r IH]; cbn [nn].
    - split; [constructor|intros _ i j bi bj _ H; destruct i; discriminate].
    - split.
      + intros H. constructor.
        * apply Forall_forall. intros b Hb. apply nn_in in Hb. destruct Hb as [j Hj].
          apply (H 0%nat (S j)); [lia|reflexivity|exact Hj].
        * apply IH. intros i j bi bj Hij Hi Hj. apply (H (S i) (S j)); [lia|exact Hi|exact Hj].
      + intros H. inversion H as [|a l Hall Hrest]; subst. intros i j bi bj Hij Hi Hj.
        destruct j as [|j]; [lia|]. destruct i as [|i]; cbn in Hi, Hj.
        * injection Hi as <-. rewrite Forall_forall in Hall. apply Hall. apply nn_in. exists j. exact Hj.
        * apply IH in Hrest. apply (Hrest i j); [lia|assumption|assumption].
    - rewrite <- IH. split; intros H i j bi bj Hij Hi Hj.
      + apply (H (S i) (S j)); [lia|exact Hi|exact Hj].
      + destruct i as [|i]; [discriminate|]. destruct j as [|j]; [lia|].
        apply (H i j); [lia|exact Hi|exact Hj].
  Qed.

  Lemma fop_app (l1 l2 : list (V * V)) :
    ForallOrdPairs R (l1 ++ l2) <->
    ForallOrdPairs R l1 /\ ForallOrdPairs R l2 /\ (forall a b, In a l1 -> In b l2 -> R a b).
  Proof.
    induction l1 as [|x l1 IH]; cbn [app].
    - split.
      + intros H. split; [constructor|]. split; [exact H|intros a b []].
      + intros (_ & H & _). exact H.
    - split.
      + intros H. inversion H as [|a l Hall Hrest]; subst. apply IH in Hrest.
        destruct Hrest as (H1 & H2 & H3). apply Forall_app in Hall. destruct Hall as [Ha1 Ha2].
        split; [constructor; assumption|]. split; [assumption|].
        intros a b [<-|Ha] Hb.
        * rewrite Forall_forall in Ha2. apply Ha2. exact Hb.
        * apply H3; assumption.
      + intros (H1 & H2 & H3). inversion H1 as [|a l Hall Hrest]; subst. constructor.
        * apply Forall_app. split; [exact Hall|]. apply Forall_forall. intros b Hb.
          apply H3; [left; reflexivity|exact Hb].
        * apply IH. split; [exact Hrest|]. split; [exact H2|].
          intros a b Ha Hb. apply H3; [right; exact Ha|exact Hb].
  Qed.

  Lemma nn_app a b : nn (a ++ b) = nn a ++ nn b.
  Proof. induction a as [|[x|] a IH]; cbn; [reflexivity|rewrite IH; reflexivity|exact IH]. Qed.

  Lemma nn_rev idx : nn (rev idx) = rev (nn idx).
  Proof.
    induction idx as [|[x|] r IH]; cbn [rev nn]; [reflexivity| |].
    - rewrite nn_app, IH. reflexivity.
    - rewrite nn_app, IH. cbn. apply app_nil_r.
  Qed.

  Lemma nn_concat chunks : nn (concat chunks) = concat (map nn chunks).
  Proof. induction chunks as [|x r IH]; cbn; [reflexivity|rewrite nn_app, IH; reflexivity]. Qed.

  Lemma first_nonnull_hd idx : first_nonnull idx = hd_error (nn idx).
  Proof. induction idx as [|[x|] r IH]; cbn; [reflexivity|reflexivity|exact IH]. Qed.

  (* the loop of isOrdered over the lists of non-null bounds *)
  Fixpoint gb (prev : option V) (L : list (list (V * V))) : bool :=
    match L with
    | [] => true
    | l :: rest =>
        match hd_error l with
        | Some f =>
            match hd_error (rev l) with
            | Some la =>
                match prev with
                | Some p => if c p (lo f) >? 0 then false else gb (Some (hi la)) rest
                | None => gb (Some (hi la)) rest
                end
            | None => gb prev rest
            end
        | None => gb prev rest
        end
    end.

  Lemma ok_concat (L : list (list (V * V))) :
    Forall (fun l => ForallOrdPairs R l /\ Forall ok l) L -> forall b, In b (concat L) -> ok b.
  Proof.
    intros HL b Hb. apply in_concat in Hb. destruct Hb as (l & Hl & Hb).
    rewrite Forall_forall in HL. destruct (HL l Hl) as [_ Hok].
    rewrite Forall_forall in Hok. apply Hok. exact Hb.
  Qed.

  Lemma gb_sound L : forall prev,
    Forall (fun l => ForallOrdPairs R l /\ Forall ok l) L ->
    gb prev L = true ->
    ForallOrdPairs R (concat L) /\
    (forall p, prev = Some p -> forall b, In b (concat L) -> c p (lo b) <= 0).
  Proof.
    induction L as [|l rest IH]; intros prev HL Hg; cbn [concat].
    - split; [constructor|intros p _ b []].
    - inversion HL as [|l0 rest0 [Hfop Hok] HL']; subst. cbn [gb] in Hg.
      destruct l as [|f t].
      + cbn [hd_error] in Hg. cbn [app]. apply IH; assumption.
      + cbn [hd_error] in Hg.
        assert (Hlast : exists l' la, f :: t = l' ++ [la] /\ hd_error (rev (f :: t)) = Some la).
        { destruct (rev (f :: t)) as [|x r] eqn:E.
          - apply (f_equal (@length _)) in E. rewrite rev_length in E. discriminate.
          - exists (rev r), x. split; [|reflexivity].
            rewrite <- (rev_involutive (f :: t)), E. reflexivity. }
        destruct Hlast as (l' & la & El' & Hla). rewrite Hla in Hg.
        assert (Hgrest : gb (Some (hi la)) rest = true /\ (forall p, prev = Some p -> c p (lo f) <= 0)).
        { destruct prev as [p|].
          - destruct (Z.gtb_spec (c p (lo f)) 0) as [G|G]; [discriminate|].
            split; [exact Hg|]. intros p' E. injection E as <-. lia.
          - split; [exact Hg|intros p' E; discriminate]. }
        destruct Hgrest as [Hg' Hp].
        destruct (IH _ HL' Hg') as [IH1 IH2].
        assert (Hf : forall a, In a (f :: t) -> c (lo f) (lo a) <= 0).
        { intros a [<-|Ha]; [apply c_refl|].
          inversion Hfop as [|a0 l0 Hall _]; subst. rewrite Forall_forall in Hall.
          apply Hall. exact Ha. }
        assert (Hl : forall a, In a (f :: t) -> c (hi a) (hi la) <= 0).
        { intros a Ha. rewrite El' in Ha, Hfop. apply in_app_or in Ha.
          destruct Ha as [Ha|[<-|[]]]; [|apply c_refl].
          apply fop_app in Hfop. destruct Hfop as (_ & _ & H3).
          apply H3; [exact Ha|left; reflexivity]. }
        rewrite Forall_forall in Hok.
        assert (Hokla : ok la).
        { apply Hok. rewrite El'. apply in_or_app. right. left. reflexivity. }
        destruct Hokla as (Nl1 & Nl2 & Nl3).
        assert (Hokf : ok f) by (apply Hok; left; reflexivity).
        destruct Hokf as (Nf1 & Nf2 & Nf3).
        split.
        * apply fop_app. split; [exact Hfop|]. split; [exact IH1|].
          intros a b Ha Hb. destruct (Hok a Ha) as (Na1 & Na2 & Na3).
          destruct (ok_concat rest HL' b Hb) as (Nb1 & Nb2 & Nb3).
          assert (Hb1 : c (hi la) (lo b) <= 0) by (apply (IH2 (hi la)); [reflexivity|exact Hb]).
          assert (H1 : c (hi a) (lo b) <= 0).
          { apply (c_trans _ (hi la)); [exact Nl2|apply Hl; exact Ha|exact Hb1]. }
          split.
          -- apply (c_trans _ (hi a)); [exact Na2|exact Na3|exact H1].
          -- apply (c_trans _ (lo b)); [exact Nb1|exact H1|exact Nb3].
        * intros p Ep b Hb. apply in_app_or in Hb. destruct Hb as [Hb|Hb].
          -- apply (c_trans _ (lo f)); [exact Nf1|apply Hp; exact Ep|apply Hf; exact Hb].
          -- assert (H1 : c (lo f) (hi la) <= 0).
             { apply (c_trans _ (hi f)); [exact Nf2|exact Nf3|apply Hl; left; reflexivity]. }
             assert (H2 : c (lo f) (lo b) <= 0).
             { apply (c_trans _ (hi la)); [exact Nl2|exact H1|].
               apply (IH2 (hi la)); [reflexivity|exact Hb]. }
             apply (c_trans _ (lo f)); [exact Nf1|apply Hp; exact Ep|exact H2].
  Qed.

  (* the chunks' own claims are true and their non-null pages have proper bounds *)
  Definition page_ok_gen (p : option (V * V)) : Prop :=
    match p with Some b => ok b | None => True end.

  Lemma nn_ok idx : Forall page_ok_gen idx -> Forall ok (nn idx).
  Proof.
    induction 1 as [|[b|] r Hp _ IH]; cbn [nn]; [constructor|constructor; assumption|exact IH].
  Qed.

  Theorem gb_gives_asc_gen (chunks : list (index V)) :
    Forall (Forall page_ok_gen) chunks ->
    Forall asc_gen chunks ->
    gb None (map nn chunks) = true ->
    asc_gen (concat chunks).
  Proof.
    intros Hok Hasc Hg. apply asc_gen_fop. rewrite nn_concat.
    apply (gb_sound (map nn chunks) None); [|exact Hg].
    apply Forall_map. rewrite Forall_forall in *. intros idx Hin. split.
    - apply asc_gen_fop. apply Hasc. exact Hin.
    - apply nn_ok. apply Hok. exact Hin.
  Qed.
End Generic.

(** * isOrdered, for the column order [cmp] *)
Section MultiOrder.
  Variable V : Type.
  Variable cmp : V -> V -> Z.
  Variable nan : V -> bool.
  Hypothesis cmp_opp : forall a b, cmp a b < 0 <-> cmp b a > 0.
  Hypothesis cmp_trans : forall a b d, nan b = false -> cmp a b <= 0 -> cmp b d <= 0 -> cmp a d <= 0.

  Definition rcmp (a b : V) : Z := cmp b a.

  Lemma cmp_refl0 a : cmp a a <= 0.
  Proof.
    destruct (Z_le_gt_dec (cmp a a) 0) as [H|H]; [exact H|].
    assert (cmp a a < 0) by (apply cmp_opp; exact H). lia.
  Qed.

  Lemma rcmp_trans a b d : nan b = false -> rcmp a b <= 0 -> rcmp b d <= 0 -> rcmp a d <= 0.
  Proof. unfold rcmp. intros N H1 H2. apply (cmp_trans d b a); assumption. Qed.

  Lemma ltb_gtb_flip a b : (cmp a b <? 0) = (cmp b a >? 0).
  Proof.
    destruct (Z.ltb_spec (cmp a b) 0) as [H|H]; destruct (Z.gtb_spec (cmp b a) 0) as [G|G];
      try reflexivity; exfalso.
    - apply cmp_opp in H. lia.
    - assert (cmp a b < 0) by (apply cmp_opp; lia). lia.
  Qed.

  (* the bounds of a non-null page: not NaN, min <= max *)
  Definition page_ok (p : option (V * V)) : Prop :=
    match p with
    | Some (mn, mx) => nan mn = false /\ nan mx = false /\ cmp mn mx <= 0
    | None => True
    end.

  Lemma boundaries_asc chunks : forall prev,
    boundaries_ordered cmp true prev chunks = gb V cmp fst snd prev (map (nn V) chunks).
  Proof.
    induction chunks as [|idx rest IH]; intros prev; cbn [boundaries_ordered gb map]; [reflexivity|].
    unfold last_nonnull. rewrite !first_nonnull_hd, nn_rev.
    destruct (hd_error (nn V idx)) as [[fmin fmax]|]; [|apply IH].
    destruct (hd_error (rev (nn V idx))) as [[lmin lmax]|]; [|apply IH].
    cbn [fst snd]. destruct prev as [p|]; [|apply IH].
    destruct (cmp p fmin >? 0); [reflexivity|apply IH].
  Qed.

  Lemma boundaries_desc chunks : forall prev,
    boundaries_ordered cmp false prev chunks = gb V rcmp snd fst prev (map (nn V) chunks).
  Proof.
    induction chunks as [|idx rest IH]; intros prev; cbn [boundaries_ordered gb map]; [reflexivity|].
    unfold last_nonnull. rewrite !first_nonnull_hd, nn_rev.
    destruct (hd_error (nn V idx)) as [[fmin fmax]|]; [|apply IH].
    destruct (hd_error (rev (nn V idx))) as [[lmin lmax]|]; [|apply IH].
    cbn [fst snd]. destruct prev as [p|]; [|apply IH].
    unfold rcmp at 1. rewrite ltb_gtb_flip.
    destruct (cmp fmax p >? 0); [reflexivity|apply IH].
  Qed.

  Lemma asc_gen_ascending idx : asc_gen V cmp fst snd idx <-> ascending_nonnull V cmp idx.
  Proof.
    unfold asc_gen, R, ascending_nonnull. split; intros H i j.
    - intros mi xi mj xj Hij Hi Hj. exact (H i j (mi, xi) (mj, xj) Hij Hi Hj).
    - intros [mi xi] [mj xj] Hij Hi Hj. exact (H i j mi xi mj xj Hij Hi Hj).
  Qed.

  Lemma asc_gen_descending idx : asc_gen V rcmp snd fst idx <-> ascending_nonnull V rcmp idx.
  Proof.
    unfold asc_gen, R, ascending_nonnull. split; intros H i j.
    - intros mi xi mj xj Hij Hi Hj. destruct (H i j (mi, xi) (mj, xj) Hij Hi Hj). split; assumption.
    - intros [mi xi] [mj xj] Hij Hi Hj. destruct (H i j mi xi mj xj Hij Hi Hj). split; assumption.
  Qed.

  Lemma page_ok_asc p : page_ok p -> page_ok_gen V cmp nan fst snd p.
  Proof. destruct p as [[mn mx]|]; [|trivial]. intros H. exact H. Qed.

  Lemma page_ok_desc p : page_ok p -> page_ok_gen V rcmp nan snd fst p.
  Proof.
    destruct p as [[mn mx]|]; [|trivial]. intros (H1 & H2 & H3).
    unfold page_ok_gen, ok, rcmp. cbn [fst snd]. auto.
  Qed.

  Lemma claims_true (P : index V -> Prop) claims chunks :
    Forall2 (fun (claim : bool) idx => claim = true -> P idx) claims chunks ->
    forallb (fun b => b) claims = true -> Forall P chunks.
  Proof.
    induction 1 as [|cl idx claims chunks H _ IH]; intros Hf; [constructor|].
    cbn [forallb] in Hf. apply andb_true_iff in Hf. destruct Hf as [H1 H2].
    constructor; [apply H; exact H1|apply IH; exact H2].
  Qed.

  Lemma multi_split asc claims chunks :
    multi_is_ordered cmp asc claims chunks = true ->
    forallb (fun b => b) claims = true /\ boundaries_ordered cmp asc None chunks = true.
  Proof.
    unfold multi_is_ordered. destruct chunks as [|idx rest]; [discriminate|].
    intros H. apply andb_true_iff in H. exact H.
  Qed.

  (** IsAscending of the multi index is true when the IsAscending claims of the
      chunks' indexes are *)
  Theorem multi_ascending_true (claims : list bool) (chunks : list (index V)) :
    Forall (Forall page_ok) chunks ->
    Forall2 (fun (claim : bool) idx => claim = true -> ascending_nonnull V cmp idx) claims chunks ->
    multi_is_ordered cmp true claims chunks = true ->
    ascending_nonnull V cmp (multi_pages chunks).
  Proof.
    intros Hok Hcl Hm. apply multi_split in Hm. destruct Hm as [Hf Hb].
    apply asc_gen_ascending. unfold multi_pages.
    apply (gb_gives_asc_gen V cmp nan fst snd cmp_refl0 cmp_trans).
    - eapply Forall_impl; [|exact Hok]. intros idx H.
      eapply Forall_impl; [|exact H]. exact page_ok_asc.
    - eapply Forall_impl; [|exact (claims_true _ _ _ Hcl Hf)].
      intros idx H. apply asc_gen_ascending. exact H.
    - rewrite <- boundaries_asc. exact Hb.
  Qed.

  (** the same for IsDescending (mins and maxes non-increasing) *)
  Theorem multi_descending_true (claims : list bool) (chunks : list (index V)) :
    Forall (Forall page_ok) chunks ->
    Forall2 (fun (claim : bool) idx => claim = true -> ascending_nonnull V rcmp idx) claims chunks ->
    multi_is_ordered cmp false claims chunks = true ->
    ascending_nonnull V rcmp (multi_pages chunks).
  Proof.
    intros Hok Hcl Hm. apply multi_split in Hm. destruct Hm as [Hf Hb].
    apply asc_gen_descending. unfold multi_pages.
    apply (gb_gives_asc_gen V rcmp nan snd fst (fun a => cmp_refl0 a) rcmp_trans).
    - eapply Forall_impl; [|exact Hok]. intros idx H.
      eapply Forall_impl; [|exact H]. exact page_ok_desc.
    - eapply Forall_impl; [|exact (claims_true _ _ _ Hcl Hf)].
      intros idx H. apply asc_gen_descending. exact H.
    - rewrite <- boundaries_desc. exact Hb.
  Qed.
End MultiOrder.
