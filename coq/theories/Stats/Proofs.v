(** Proofs about Stats/Model.v: page bounds and chunk statistics are true
    bounds, truncated bounds remain bounds, the column index has one entry per
    page with exact counts, a claimed boundary order is true, and pruning pages
    with the stored bounds never drops a page that holds the value. *)
From Coq Require Import List NArith ZArith Bool Arith Lia.
From Coq Require Import ZifyN ZifyNat ZifyBool.
From PQ Require Import Base.Bytes Search.Model Search.Proofs Stats.Order Stats.OrderProofs Stats.Model.
Import ListNotations.
Open Scope Z_scope.

Lemma no_adjacent_cons V (bad : V -> V -> bool) a b t :
  no_adjacent bad (a :: b :: t) = negb (bad a b) && no_adjacent bad (b :: t).
Proof. reflexivity. Qed.

Section Generic.
  Variable V : Type.
  Variable cmp : V -> V -> Z.
  Variable nan : V -> bool.
  Hypothesis cmp_opp : forall a b, cmp a b < 0 <-> cmp b a > 0.
  (* transitive through a middle value that is not NaN *)
  Hypothesis cmp_trans : forall a b d, nan b = false -> cmp a b <= 0 -> cmp b d <= 0 -> cmp a d <= 0.
  (* NaN compares equal to everything (compareFloat32/64) *)
  Hypothesis cmp_nan : forall a b, nan a = true -> cmp a b = 0 /\ cmp b a = 0.

  Lemma cmp_refl a : cmp a a <= 0.
  Proof.
    destruct (Z.le_gt_cases (cmp a a) 0) as [H|H]; [exact H|].
    assert (cmp a a < 0) by (apply cmp_opp; lia). lia.
  Qed.

  Lemma cmp_total a b : ~ cmp a b < 0 -> cmp b a <= 0.
  Proof.
    intros H. destruct (Z.le_gt_cases (cmp b a) 0) as [H1|H1]; [exact H1|].
    exfalso. apply H. apply cmp_opp. lia.
  Qed.

  Lemma cmp_total' a b : ~ cmp a b > 0 -> cmp a b <= 0.
  Proof. lia. Qed.

  Lemma cmp_pos_nonnan a b : cmp a b <> 0 -> nan a = false /\ nan b = false.
  Proof.
    intros H. split.
    - destruct (nan a) eqn:E; [|reflexivity]. destruct (cmp_nan a b E). lia.
    - destruct (nan b) eqn:E; [|reflexivity]. destruct (cmp_nan b a E). lia.
  Qed.

  (** * Page bounds *)
  Definition within (lo hi : V) (l : list V) : Prop :=
    forall v, In v l -> nan v = false -> cmp lo v <= 0 /\ cmp v hi <= 0.

  Definition bounds_inv (acc : V * V) (seen : list V) : Prop :=
    let (lo, hi) := acc in
    nan lo = false /\ nan hi = false /\ cmp lo hi <= 0 /\
    In lo seen /\ In hi seen /\ within lo hi seen.

  Lemma bounds_step_inv sw acc seen v :
    bounds_inv acc seen -> bounds_inv (bounds_step cmp nan sw acc v) (seen ++ [v]).
  Proof.
    destruct acc as [lo hi]. intros (Nl & Nh & Hlh & Il & Ih & W).
    unfold bounds_step. destruct (nan v) eqn:Nv.
    { (* NaN is skipped *)
      cbn. repeat split; auto; try (apply in_or_app; auto).
      - apply (W v0); auto. apply in_app_or in H. destruct H as [H|[H|[]]]; [exact H|].
        subst. congruence.
      - apply (W v0); auto. apply in_app_or in H. destruct H as [H|[H|[]]]; [exact H|].
        subst. congruence. }
    destruct (Z.ltb_spec (cmp v lo) 0) as [Hlt|Hge].
    - (* new minimum; the maximum cannot change *)
      assert (Hvh : cmp v hi <= 0) by (apply (cmp_trans v lo hi); auto; lia).
      assert (E : (if sw then hi else if cmp v hi >? 0 then v else hi) = hi).
      { destruct sw; [reflexivity|]. destruct (Z.gtb_spec (cmp v hi) 0); [lia|reflexivity]. }
      rewrite E. cbn. repeat split; auto.
      + apply in_or_app. right. left. reflexivity.
      + apply in_or_app. left. exact Ih.
      + apply in_app_or in H. destruct H as [H|[H|[]]].
        * destruct (W v0 H H0) as [H1 _]. apply (cmp_trans v lo v0); auto. lia.
        * subst. apply cmp_refl.
      + apply in_app_or in H. destruct H as [H|[H|[]]].
        * apply (W v0 H H0).
        * subst. exact Hvh.
    - assert (Hlv : cmp lo v <= 0) by (apply cmp_total; lia).
      destruct (Z.gtb_spec (cmp v hi) 0) as [Hgt|Hle].
      + (* new maximum *)
        assert (Hhv : cmp hi v <= 0).
        { assert (cmp hi v < 0) by (apply cmp_opp; lia). lia. }
        cbn. repeat split; auto.
        * apply in_or_app. left. exact Il.
        * apply in_or_app. right. left. reflexivity.
        * apply in_app_or in H. destruct H as [H|[H|[]]].
          -- apply (W v0 H H0).
          -- subst. exact Hlv.
        * apply in_app_or in H. destruct H as [H|[H|[]]].
          -- destruct (W v0 H H0) as [_ H1]. apply (cmp_trans v0 hi v); auto.
          -- subst. apply cmp_refl.
      + cbn. repeat split; auto; try (apply in_or_app; left; assumption).
        * apply in_app_or in H. destruct H as [H|[H|[]]].
          -- apply (W v0 H H0).
          -- subst. exact Hlv.
        * apply in_app_or in H. destruct H as [H|[H|[]]].
          -- apply (W v0 H H0).
          -- subst. exact Hle.
  Qed.

  Lemma bounds_fold_inv sw r : forall acc seen,
    bounds_inv acc seen -> bounds_inv (fold_left (bounds_step cmp nan sw) r acc) (seen ++ r).
  Proof.
    induction r as [|v r IH]; intros acc seen H; cbn [fold_left].
    - rewrite app_nil_r. exact H.
    - replace (seen ++ v :: r) with ((seen ++ [v]) ++ r) by (rewrite <- app_assoc; reflexivity).
      apply IH. apply bounds_step_inv. exact H.
  Qed.

  Lemma skip_nan_spec l :
    exists pre, l = pre ++ skip_nan nan l /\ Forall (fun x => nan x = true) pre /\
                match skip_nan nan l with [] => True | x :: _ => nan x = false end.
  Proof.
    induction l as [|x l IH]; cbn [skip_nan].
    - exists []. repeat split. constructor.
    - destruct (nan x) eqn:E.
      + destruct IH as (pre & E1 & F & T). exists (x :: pre). repeat split.
        * cbn. rewrite <- E1. reflexivity.
        * constructor; assumption.
        * exact T.
      + exists []. repeat split; [constructor|exact E].
  Qed.

  (** every non-NaN value of the page lies within the bounds; the bounds are
      values of the page; they are NaN only when every value is *)
  Theorem page_bounds_sound sw l mn mx :
    page_bounds cmp nan sw l = Some (mn, mx) ->
    within mn mx l /\ In mn l /\ In mx l /\
    ((exists v, In v l /\ nan v = false) -> nan mn = false /\ nan mx = false).
  Proof.
    unfold page_bounds. destruct l as [|first rest]; [discriminate|].
    destruct (skip_nan_spec (first :: rest)) as (pre & E & F & T).
    destruct (skip_nan nan (first :: rest)) as [|x r] eqn:S.
    - (* every value is NaN *)
      intros H. injection H as <- <-. rewrite app_nil_r in E. subst pre.
      assert (AllNan : forall v, In v (first :: rest) -> nan v = true).
      { intros v Hv. rewrite Forall_forall in F. apply F. exact Hv. }
      repeat split; try (left; reflexivity).
      + rewrite (AllNan v H) in H0. discriminate.
      + rewrite (AllNan v H) in H0. discriminate.
      + destruct H as (v & Hv & Nv). rewrite (AllNan v Hv) in Nv. discriminate.
      + destruct H as (v & Hv & Nv). rewrite (AllNan v Hv) in Nv. discriminate.
    - intros H. injection H as H.
      assert (I0 : bounds_inv (x, x) [x]).
      { cbn. repeat split; auto; try (left; reflexivity); try apply cmp_refl.
        - destruct H0 as [<-|[]]. apply cmp_refl.
        - destruct H0 as [<-|[]]. apply cmp_refl. }
      pose proof (bounds_fold_inv sw r (x, x) [x] I0) as I. rewrite H in I.
      destruct I as (Nl & Nh & _ & Il & Ih & W).
      rewrite E. cbn [app] in *.
      repeat split; auto; try (apply in_or_app; right; assumption).
      + apply in_app_or in H0. destruct H0 as [H0|H0].
        * rewrite Forall_forall in F. rewrite (F v H0) in H1. discriminate.
        * apply (W v H0 H1).
      + apply in_app_or in H0. destruct H0 as [H0|H0].
        * rewrite Forall_forall in F. rewrite (F v H0) in H1. discriminate.
        * apply (W v H0 H1).
  Qed.

  Lemma page_bounds_none sw l : page_bounds cmp nan sw l = None <-> l = [].
  Proof.
    unfold page_bounds. destruct l as [|first rest]; [tauto|].
    destruct (skip_nan nan (first :: rest)); split; discriminate.
  Qed.

  (** * Chunk statistics *)
  (* what a page's bounds must satisfy with respect to the non-null values
     [vals] of the page (page_bounds_sound establishes it) *)
  Definition page_sound (p : page_info V) (vals : list V) : Prop :=
    match pi_bounds p with
    | None => vals = []
    | Some (mn, mx) =>
        within mn mx vals /\ In mn vals /\ In mx vals /\
        ((exists v, In v vals /\ nan v = false) -> nan mn = false /\ nan mx = false)
    end.

  Definition has_value (l : list V) : Prop := exists v, In v l /\ nan v = false.

  Definition chunk_inv (st : chunk_stats V) (seen : list V) : Prop :=
    match cs_bounds st with
    | None => seen = []
    | Some (mn, mx) =>
        within mn mx seen /\ In mn seen /\ In mx seen /\
        (has_value seen -> nan mn = false /\ nan mx = false)
    end.

  Lemma has_value_app a b : has_value (a ++ b) -> has_value a \/ has_value b.
  Proof.
    intros (v & Hv & Nv). apply in_app_or in Hv. destruct Hv; [left|right]; exists v; auto.
  Qed.

  Lemma record_page_inv st seen p vals :
    chunk_inv st seen -> page_sound p vals -> chunk_inv (record_page cmp nan st p) (seen ++ vals).
  Proof.
    unfold chunk_inv, page_sound, record_page, record_page_gen, replaces_nan_bound.
    destruct (pi_bounds p) as [[pm px]|]; cbn [cs_bounds].
    2:{ intros H ->. rewrite app_nil_r. exact H. }
    intros Hst (W & Im & Ix & Nn).
    destruct (cs_bounds st) as [[em ex]|]; cbn [cs_bounds negb andb].
    2:{ subst seen. cbn [app]. auto. }
    destruct Hst as (Ws & Iem & Iex & Ns).
    split; [|split; [|split]].
    - intros v Hv Nv. apply in_app_or in Hv. split.
      + (* lower bound *)
        destruct (nan em && negb (nan pm)) eqn:R; cbn [orb].
        * (* the existing bound is NaN: nothing seen so far is a value *)
          apply andb_true_iff in R. destruct R as [Ne _].
          destruct Hv as [Hv|Hv]; [|apply (W v Hv Nv)].
          destruct (Ns (ex_intro _ v (conj Hv Nv))) as [Ne' _]. congruence.
        * destruct (Z.ltb_spec (cmp pm em) 0) as [Hlt|Hge].
          -- destruct Hv as [Hv|Hv]; [|apply (W v Hv Nv)].
             destruct (Ws v Hv Nv) as [H1 _].
             destruct (cmp_pos_nonnan pm em ltac:(lia)) as [_ Ne].
             apply (cmp_trans pm em v); auto. lia.
          -- destruct Hv as [Hv|Hv]; [apply (Ws v Hv Nv)|].
             destruct (W v Hv Nv) as [H1 _].
             destruct (Nn (ex_intro _ v (conj Hv Nv))) as [Np _].
             apply (cmp_trans em pm v); auto. apply cmp_total. lia.
      + (* upper bound *)
        destruct (nan ex && negb (nan px)) eqn:R; cbn [orb].
        * apply andb_true_iff in R. destruct R as [Ne _].
          destruct Hv as [Hv|Hv]; [|apply (W v Hv Nv)].
          destruct (Ns (ex_intro _ v (conj Hv Nv))) as [_ Ne']. congruence.
        * destruct (Z.gtb_spec (cmp px ex) 0) as [Hgt|Hle].
          -- destruct Hv as [Hv|Hv]; [|apply (W v Hv Nv)].
             destruct (Ws v Hv Nv) as [_ H1].
             destruct (cmp_pos_nonnan px ex ltac:(lia)) as [_ Ne].
             apply (cmp_trans v ex px); auto.
             assert (cmp ex px < 0) by (apply cmp_opp; lia). lia.
          -- destruct Hv as [Hv|Hv]; [apply (Ws v Hv Nv)|].
             destruct (W v Hv Nv) as [_ H1].
             destruct (Nn (ex_intro _ v (conj Hv Nv))) as [_ Np].
             apply (cmp_trans v px ex); auto.
    - destruct ((nan em && negb (nan pm)) || (cmp pm em <? 0)); apply in_or_app; auto.
    - destruct ((nan ex && negb (nan px)) || (cmp px ex >? 0)); apply in_or_app; auto.
    - (* NaN bounds survive only while no value has been seen *)
      intros HV. apply has_value_app in HV. split.
      + destruct (nan em && negb (nan pm)) eqn:R; cbn [orb].
        * apply andb_true_iff in R. destruct R as [_ Np]. destruct (nan pm); [discriminate|reflexivity].
        * destruct (Z.ltb_spec (cmp pm em) 0) as [Hlt|Hge].
          -- apply (cmp_pos_nonnan pm em). lia.
          -- destruct HV as [HV|HV]; [apply (Ns HV)|].
             destruct (Nn HV) as [Np _]. rewrite Np in R. cbn in R.
             rewrite andb_true_r in R. exact R.
      + destruct (nan ex && negb (nan px)) eqn:R; cbn [orb].
        * apply andb_true_iff in R. destruct R as [_ Np]. destruct (nan px); [discriminate|reflexivity].
        * destruct (Z.gtb_spec (cmp px ex) 0) as [Hgt|Hle].
          -- apply (cmp_pos_nonnan px ex). lia.
          -- destruct HV as [HV|HV]; [apply (Ns HV)|].
             destruct (Nn HV) as [_ Np]. rewrite Np in R. cbn in R.
             rewrite andb_true_r in R. exact R.
  Qed.

  Lemma chunk_fold_inv ps : forall valss st seen,
    Forall2 page_sound ps valss -> chunk_inv st seen ->
    chunk_inv (fold_left (record_page cmp nan) ps st) (seen ++ concat valss).
  Proof.
    induction ps as [|p ps IH]; intros valss st seen F I; inversion F; subst; cbn [fold_left concat].
    - rewrite app_nil_r. exact I.
    - rewrite app_assoc. apply IH; [assumption|]. apply record_page_inv; assumption.
  Qed.

  (** the chunk bounds are bounds of every non-NaN value of every page, are
      values of the chunk, and are NaN only when the chunk holds no other value *)
  Theorem chunk_stats_sound ps valss :
    Forall2 page_sound ps valss ->
    match cs_bounds (chunk_fold cmp nan ps) with
    | None => concat valss = []
    | Some (mn, mx) =>
        within mn mx (concat valss) /\ In mn (concat valss) /\ In mx (concat valss) /\
        (has_value (concat valss) -> nan mn = false /\ nan mx = false)
    end.
  Proof.
    intros F. pose proof (chunk_fold_inv ps valss chunk_empty [] F eq_refl) as H.
    exact H.
  Qed.

  Lemma record_page_counts st p :
    cs_num_values (record_page cmp nan st p) = cs_num_values st + pi_num_values p /\
    cs_null_count (record_page cmp nan st p) = cs_null_count st + pi_num_nulls p.
  Proof.
    unfold record_page, record_page_gen. destruct (pi_bounds p) as [[? ?]|]; [destruct (cs_bounds st) as [[? ?]|]|];
      cbn; auto.
  Qed.

  Definition sumZ (l : list Z) : Z := fold_right Z.add 0 l.

  Lemma chunk_fold_counts ps : forall st,
    cs_num_values (fold_left (record_page cmp nan) ps st)
      = cs_num_values st + sumZ (map (@pi_num_values V) ps) /\
    cs_null_count (fold_left (record_page cmp nan) ps st)
      = cs_null_count st + sumZ (map (@pi_num_nulls V) ps).
  Proof.
    induction ps as [|p ps IH]; intros st; cbn [fold_left map sumZ fold_right].
    - lia.
    - destruct (IH (record_page cmp nan st p)) as [H1 H2].
      destruct (record_page_counts st p) as [E1 E2].
      rewrite H1, H2, E1, E2. fold (sumZ (map (@pi_num_values V) ps)).
      fold (sumZ (map (@pi_num_nulls V) ps)). lia.
  Qed.

  Theorem chunk_counts_exact ps :
    cs_num_values (chunk_fold cmp nan ps) = sumZ (map (@pi_num_values V) ps) /\
    cs_null_count (chunk_fold cmp nan ps) = sumZ (map (@pi_num_nulls V) ps).
  Proof.
    unfold chunk_fold. destruct (chunk_fold_counts ps chunk_empty) as [H1 H2].
    rewrite H1, H2. cbn [chunk_empty cs_num_values cs_null_count]. lia.
  Qed.

  (** * Orders of lists of bounds *)
  Definition pairwise_le (l : list V) : Prop :=
    forall i j a b, (i < j)%nat -> nth_error l i = Some a -> nth_error l j = Some b -> cmp a b <= 0.

  Lemma ascending_head l : forall a, Forall (fun x => nan x = false) l ->
    order_is_ascending cmp (a :: l) = true -> forall b, In b l -> cmp a b <= 0.
  Proof.
    unfold order_is_ascending.
    induction l as [|x l IH]; intros a F H b Hb; [destruct Hb|].
    cbn [no_adjacent] in H. apply andb_true_iff in H. destruct H as [H1 H2].
    inversion F; subst.
    assert (Hax : cmp a x <= 0).
    { destruct (Z.gtb_spec (cmp a x) 0); [discriminate|lia]. }
    destruct Hb as [<-|Hb]; [exact Hax|].
    apply (cmp_trans a x b); auto.
  Qed.

  Lemma ascending_tail a l : order_is_ascending cmp (a :: l) = true -> order_is_ascending cmp l = true.
  Proof.
    unfold order_is_ascending. destruct l as [|x l]; [reflexivity|].
    cbn [no_adjacent]. intros H. apply andb_true_iff in H. tauto.
  Qed.

  Lemma ascending_pairwise l : Forall (fun x => nan x = false) l ->
    order_is_ascending cmp l = true -> pairwise_le l.
  Proof.
    induction l as [|x l IH]; intros F H i j a b Hij Hi Hj.
    - destruct i; discriminate.
    - inversion F; subst. destruct j as [|j]; [lia|]. cbn [nth_error] in Hj.
      destruct i as [|i].
      + cbn in Hi. injection Hi as <-. apply (ascending_head l x); auto.
        eapply nth_error_In; eauto.
      + cbn [nth_error] in Hi. apply (IH H3 (ascending_tail _ _ H) i j); auto. lia.
  Qed.
End Generic.

(** the descending scan is the ascending scan of the reversed comparison *)
Section Flip.
  Variable V : Type.
  Variable cmp : V -> V -> Z.
  Variable nan : V -> bool.
  Hypothesis cmp_opp : forall a b, cmp a b < 0 <-> cmp b a > 0.
  Hypothesis cmp_trans : forall a b d, nan b = false -> cmp a b <= 0 -> cmp b d <= 0 -> cmp a d <= 0.

  Hypothesis cmp_nan : forall a b, nan a = true -> cmp a b = 0 /\ cmp b a = 0.

  Definition flip (a b : V) : Z := cmp b a.

  Lemma flip_nan a b : nan a = true -> flip a b = 0 /\ flip b a = 0.
  Proof. unfold flip. intros H. destruct (cmp_nan a b H). auto. Qed.

  Lemma flip_opp a b : flip a b < 0 <-> flip b a > 0.
  Proof. unfold flip. apply cmp_opp. Qed.
  Lemma flip_trans a b d : nan b = false -> flip a b <= 0 -> flip b d <= 0 -> flip a d <= 0.
  Proof. unfold flip. intros N H1 H2. apply (cmp_trans d b a); auto. Qed.

  Lemma descending_is_flipped_ascending l :
    order_is_descending cmp l = order_is_ascending flip l.
  Proof.
    unfold order_is_descending, order_is_ascending, flip.
    induction l as [|a [|b l] IH]; try reflexivity.
    cbn [no_adjacent]. cbn [no_adjacent] in IH. rewrite IH. f_equal. f_equal.
    destruct (Z.ltb_spec (cmp a b) 0) as [H|H]; destruct (Z.gtb_spec (cmp b a) 0) as [H'|H'];
      try reflexivity; exfalso.
    - apply cmp_opp in H. lia.
    - assert (cmp a b < 0) by (apply cmp_opp; lia). lia.
  Qed.

  Lemma descending_pairwise l : Forall (fun x => nan x = false) l ->
    order_is_descending cmp l = true -> pairwise_le V flip l.
  Proof.
    intros F H. rewrite descending_is_flipped_ascending in H.
    apply (ascending_pairwise V flip nan flip_opp flip_trans flip_nan); assumption.
  Qed.
End Flip.

Section Orders.
  Variable V : Type.
  Variable cmp : V -> V -> Z.
  Variable nan : V -> bool.
  Hypothesis cmp_opp : forall a b, cmp a b < 0 <-> cmp b a > 0.
  Hypothesis cmp_trans : forall a b d, nan b = false -> cmp a b <= 0 -> cmp b d <= 0 -> cmp a d <= 0.

  Hypothesis cmp_nan : forall a b, nan a = true -> cmp a b = 0 /\ cmp b a = 0.

  (* what a function computing the order of a list of bounds must guarantee *)
  Definition order_sound (ord : list V -> Z) : Prop :=
    forall l, (ord l = 1 -> order_is_ascending cmp l = true) /\
              (ord l = -1 -> order_is_descending cmp l = true).

  Lemma order_of_sound : order_sound (order_of cmp).
  Proof.
    intros l. unfold order_of. destruct (1 <? length l)%nat; [|split; discriminate].
    destruct (order_is_ascending cmp l) eqn:A.
    - split; [reflexivity|discriminate].
    - destruct (order_is_descending cmp l) eqn:D; split; try discriminate. reflexivity.
  Qed.

  Lemma equiv_le x y d0 : nan d0 = false -> cmp x d0 = 0 -> cmp y d0 = 0 -> cmp x y <= 0.
  Proof.
    intros N Hx Hy. apply (cmp_trans x d0 y); [exact N|lia|].
    apply (cmp_total V cmp nan cmp_opp cmp_trans cmp_nan). lia.
  Qed.

  (* the streak-skipping variant answers +1 / -1 only when the plain scan of the
     whole list succeeds *)
  Lemma streak_ascending d0 (N0 : nan d0 = false) : forall rest prev,
    cmp prev d0 = 0 ->
    match skip_streak_from cmp d0 prev rest with
    | a :: ((b :: _) as t) => cmp a b < 0 /\ order_is_ascending cmp t = true
    | _ => True
    end -> order_is_ascending cmp (prev :: rest) = true.
  Proof.
    unfold order_is_ascending.
    induction rest as [|x r IH]; intros prev Hp H; [reflexivity|].
    cbn [skip_streak_from] in H. rewrite no_adjacent_cons.
    destruct (Z.eqb_spec (cmp x d0) 0) as [E|E].
    - rewrite (IH x E H), andb_true_r.
      pose proof (equiv_le prev x d0 N0 Hp E).
      destruct (Z.gtb_spec (cmp prev x) 0); [lia|reflexivity].
    - destruct H as [H1 H2]. rewrite H2, andb_true_r.
      destruct (Z.gtb_spec (cmp prev x) 0); [lia|reflexivity].
  Qed.

  Lemma streak_descending d0 (N0 : nan d0 = false) : forall rest prev,
    cmp prev d0 = 0 ->
    match skip_streak_from cmp d0 prev rest with
    | a :: ((b :: _) as t) => cmp a b > 0 /\ order_is_descending cmp t = true
    | _ => True
    end -> order_is_descending cmp (prev :: rest) = true.
  Proof.
    unfold order_is_descending.
    induction rest as [|x r IH]; intros prev Hp H; [reflexivity|].
    cbn [skip_streak_from] in H. rewrite no_adjacent_cons.
    destruct (Z.eqb_spec (cmp x d0) 0) as [E|E].
    - rewrite (IH x E H), andb_true_r.
      pose proof (equiv_le x prev d0 N0 E Hp).
      destruct (Z.ltb_spec (cmp prev x) 0) as [L|L]; [|reflexivity].
      apply cmp_opp in L. lia.
    - destruct H as [H1 H2]. rewrite H2, andb_true_r.
      destruct (Z.ltb_spec (cmp prev x) 0); [lia|reflexivity].
  Qed.

  Lemma order_of_streak_sound : (forall v, nan v = false) -> order_sound (order_of_streak cmp).
  Proof.
    intros NN l. unfold order_of_streak.
    destruct (length l <=? 1)%nat eqn:L; [split; discriminate|].
    destruct l as [|d0 rest]; [discriminate|]. cbn [skip_streak].
    assert (R0 : cmp d0 d0 = 0).
    { pose proof (cmp_refl V cmp nan cmp_opp cmp_trans cmp_nan d0).
      destruct (Z.eq_dec (cmp d0 d0) 0) as [E|E]; [exact E|].
      assert (cmp d0 d0 < 0) by lia. apply cmp_opp in H0. lia. }
    pose proof (streak_ascending d0 (NN d0) rest d0 R0) as HA.
    pose proof (streak_descending d0 (NN d0) rest d0 R0) as HD.
    destruct (skip_streak_from cmp d0 d0 rest) as [|a [|b t]].
    - split; intros _; [apply HA|apply HD]; exact I.
    - split; intros _; [apply HA|apply HD]; exact I.
    - destruct (Z.ltb_spec (cmp a b) 0) as [Hlt|Hge].
      + destruct (order_is_ascending cmp (b :: t)) eqn:A; split; try discriminate.
        intros _. apply HA. split; [exact Hlt|reflexivity].
      + destruct (Z.gtb_spec (cmp a b) 0) as [Hgt|Hle]; [|split; discriminate].
        destruct (order_is_descending cmp (b :: t)) eqn:D; split; try discriminate.
        intros _. apply HD. split; [lia|reflexivity].
  Qed.

  (** * The column index *)
  Variable zero : V.
  Variable tmin tmax : V -> V.
  Variable ord : list V -> Z.

  Lemma fold_index_page ps : forall ix,
    fold_left (index_page zero) ps ix =
    {| ix_null_pages := ix_null_pages ix ++ map (fun p => pi_num_values p =? pi_num_nulls p) ps;
       ix_null_counts := ix_null_counts ix ++ map (@pi_num_nulls V) ps;
       ix_mins := ix_mins ix ++ map (fun p => match pi_bounds p with Some (mn, _) => mn | None => zero end) ps;
       ix_maxs := ix_maxs ix ++ map (fun p => match pi_bounds p with Some (_, mx) => mx | None => zero end) ps |}.
  Proof.
    induction ps as [|p ps IH]; intros ix; cbn [fold_left map].
    - rewrite !app_nil_r. destruct ix; reflexivity.
    - rewrite IH. unfold index_page. cbn [ix_null_pages ix_null_counts ix_mins ix_maxs].
      rewrite <- !app_assoc. cbn [app]. reflexivity.
  Qed.

  Definition entry_min (p : page_info V) : V :=
    tmin (match pi_bounds p with Some (mn, _) => mn | None => zero end).
  Definition entry_max (p : page_info V) : V :=
    tmax (match pi_bounds p with Some (_, mx) => mx | None => zero end).

  (* the index as four maps over the pages *)
  Lemma index_pages_maps ps :
    index_pages zero tmin tmax ord ps =
    {| ci_null_pages := map (fun p => pi_num_values p =? pi_num_nulls p) ps;
       ci_null_counts := map (@pi_num_nulls V) ps;
       ci_min_values := map entry_min ps;
       ci_max_values := map entry_max ps;
       ci_order := boundary_order_of (ord (map entry_min ps)) (ord (map entry_max ps)) |}.
  Proof.
    unfold index_pages, column_index. rewrite fold_index_page. cbn.
    rewrite !map_map. reflexivity.
  Qed.

  Theorem index_aligned ps :
    let ci := index_pages zero tmin tmax ord ps in
    length (ci_null_pages ci) = length ps /\ length (ci_null_counts ci) = length ps /\
    length (ci_min_values ci) = length ps /\ length (ci_max_values ci) = length ps.
  Proof. rewrite index_pages_maps. cbn. rewrite !map_length. auto. Qed.

  Theorem index_counts_exact ps i p :
    nth_error ps i = Some p ->
    let ci := index_pages zero tmin tmax ord ps in
    nth_error (ci_null_counts ci) i = Some (pi_num_nulls p) /\
    nth_error (ci_null_pages ci) i = Some (pi_num_values p =? pi_num_nulls p) /\
    nth_error (ci_min_values ci) i = Some (entry_min p) /\
    nth_error (ci_max_values ci) i = Some (entry_max p).
  Proof.
    intros H. rewrite index_pages_maps. cbn [ci_null_counts ci_null_pages ci_min_values ci_max_values].
    split; [exact (map_nth_error (@pi_num_nulls V) i ps H)|].
    split; [exact (map_nth_error (fun p => pi_num_values p =? pi_num_nulls p) i ps H)|].
    split; [exact (map_nth_error entry_min i ps H)|exact (map_nth_error entry_max i ps H)].
  Qed.

  (** the claim of the stored boundary order *)
  Definition order_claim_true (ci : col_index V) : Prop :=
    (ci_order ci = 1 -> pairwise_le V cmp (ci_min_values ci) /\ pairwise_le V cmp (ci_max_values ci)) /\
    (ci_order ci = 2 -> pairwise_le V (flip V cmp) (ci_min_values ci) /\ pairwise_le V (flip V cmp) (ci_max_values ci)).

  Lemma boundary_order_cases a b :
    (boundary_order_of a b = 1 -> a > 0 /\ b = a) /\ (boundary_order_of a b = 2 -> a < 0 /\ b = a).
  Proof.
    unfold boundary_order_of. destruct (Z.eqb_spec a b) as [E|E]; [|split; discriminate].
    destruct (Z.gtb_spec a 0); [split; [lia|discriminate]|].
    destruct (Z.ltb_spec a 0); split; try discriminate; lia.
  Qed.

  Hypothesis ord_sound : order_sound ord.
  Hypothesis ord_range : forall l, ord l = 1 \/ ord l = -1 \/ ord l = 0.

  (* no order is claimed for a list that holds a NaN (orderOfFloatBounds; the
     other types have no NaN) *)
  Hypothesis ord_nan_free : forall l, ord l <> 0 -> Forall (fun x => nan x = false) l.

  Theorem boundary_order_true ps :
    order_claim_true (index_pages zero tmin tmax ord ps).
  Proof.
    rewrite index_pages_maps. split; cbn [ci_order ci_min_values ci_max_values].
    - intros H. apply boundary_order_cases in H. destruct H as [Hp He].
      assert (H1 : ord (map entry_min ps) = 1) by (destruct (ord_range (map entry_min ps)) as [?|[?|?]]; lia).
      assert (H2 : ord (map entry_max ps) = 1) by lia.
      split; apply (ascending_pairwise V cmp nan cmp_opp cmp_trans cmp_nan);
        try (apply ord_nan_free; lia); apply ord_sound; assumption.
    - intros H. apply boundary_order_cases in H. destruct H as [Hp He].
      assert (H1 : ord (map entry_min ps) = -1) by (destruct (ord_range (map entry_min ps)) as [?|[?|?]]; lia).
      assert (H2 : ord (map entry_max ps) = -1) by lia.
      split; apply (descending_pairwise V cmp nan cmp_opp cmp_trans cmp_nan);
        try (apply ord_nan_free; lia); apply ord_sound; assumption.
  Qed.

  (** connection with Search/Proofs.v: the hypothesis [ascending_nonnull] of
      C06 holds of every index whose order claim is true *)
  Lemma search_index_nth nulls : forall (mins maxs : list V) i (mn mx : V),
    nth_error (search_index nulls mins maxs) i = Some (Some (mn, mx)) ->
    nth_error nulls i = Some false /\ nth_error mins i = Some mn /\ nth_error maxs i = Some mx.
  Proof.
    induction nulls as [|np nulls IH]; intros [|m mins] [|x maxs] i mn mx H; cbn [search_index] in H;
      try (destruct i; discriminate).
    destruct i as [|i]; cbn [nth_error] in *.
    - destruct np; [discriminate|]. injection H as <- <-. auto.
    - apply IH. exact H.
  Qed.

  Theorem claim_gives_ascending_nonnull ci :
    order_claim_true ci -> ci_order ci = 1 ->
    ascending_nonnull V cmp (to_search_index ci).
  Proof.
    intros [Hc _] H1. destruct (Hc H1) as [Pm Px].
    intros i j mi xi mj xj Hij Hi Hj. unfold to_search_index in *.
    apply search_index_nth in Hi. apply search_index_nth in Hj.
    destruct Hi as (_ & Hi1 & Hi2). destruct Hj as (_ & Hj1 & Hj2).
    split; [apply (Pm i j); auto|apply (Px i j); auto].
  Qed.

  (* the same for a claimed Descending order *)
  Theorem claim_gives_descending_nonnull ci :
    order_claim_true ci -> ci_order ci = 2 ->
    ascending_nonnull V (flip V cmp) (to_search_index ci).
  Proof.
    intros [_ Hc] H1. destruct (Hc H1) as [Pm Px].
    intros i j mi xi mj xj Hij Hi Hj. unfold to_search_index in *.
    apply search_index_nth in Hi. apply search_index_nth in Hj.
    destruct Hi as (_ & Hi1 & Hi2). destruct Hj as (_ & Hj1 & Hj2).
    split; [apply (Pm i j); auto|apply (Px i j); auto].
  Qed.

  (** * Pruning pages with the stored bounds *)
  Variable good : V -> Prop.          (* well-formed values: bytes below 256, right length *)
  Hypothesis tmin_lower : forall v, good v -> cmp (tmin v) v <= 0.
  Hypothesis tmax_upper : forall v, good v -> cmp v (tmax v) <= 0.

  Lemma non_nulls_in (l : list (option V)) v : In v (non_nulls l) <-> In (Some v) l.
  Proof.
    induction l as [|[x|] r IH]; cbn.
    - tauto.
    - rewrite IH. split; intros [H|H]; auto; left; congruence.
    - rewrite IH. split; [auto|]. intros [H|H]; [discriminate|exact H].
  Qed.

  Theorem skip_safe sw (pages : list (list (option V))) p vals v :
    nth_error pages p = Some vals -> (forall x, In (Some x) vals -> good x) ->
    In (Some v) vals -> nan v = false ->
    may_skip cmp (index_pages zero tmin tmax ord (map (page_of_values cmp nan sw) pages)) p v = false.
  Proof.
    intros Hp Hg Hv Nv.
    assert (Hq : nth_error (map (page_of_values cmp nan sw) pages) p = Some (page_of_values cmp nan sw vals))
      by (apply map_nth_error; exact Hp).
    destruct (index_counts_exact _ _ _ Hq) as (_ & Hnp & Hmn & Hmx).
    unfold may_skip. rewrite Hnp, Hmn, Hmx. clear Hnp Hmn Hmx Hq.
    assert (Hin : In v (non_nulls vals)) by (apply non_nulls_in; exact Hv).
    assert (Hlen : (length (non_nulls vals) <= length vals)%nat).
    { clear. induction vals as [|[x|] r IH]; cbn; lia. }
    unfold entry_min, entry_max, page_of_values. cbn [pi_bounds pi_num_values pi_num_nulls].
    destruct (page_bounds cmp nan sw (non_nulls vals)) as [[mn mx]|] eqn:B.
    2:{ apply page_bounds_none in B. rewrite B in Hin. destruct Hin. }
    destruct (page_bounds_sound V cmp nan cmp_opp cmp_trans cmp_nan sw _ _ _ B) as (W & Imn & Imx & NN).
    destruct (W v Hin Nv) as [H1 H2].
    destruct (NN (ex_intro _ v (conj Hin Nv))) as [Nmn Nmx].
    assert (Gmn : good mn) by (apply Hg, non_nulls_in; exact Imn).
    assert (Gmx : good mx) by (apply Hg, non_nulls_in; exact Imx).
    assert (L1 : cmp (tmin mn) v <= 0) by (apply (cmp_trans _ mn _); auto).
    assert (L2 : cmp v (tmax mx) <= 0) by (apply (cmp_trans _ mx _); auto).
    assert (Hnn : (Z.of_nat (length vals) =? Z.of_nat (length vals - length (non_nulls vals))) = false).
    { apply Z.eqb_neq. destruct (non_nulls vals); [destruct Hin|]. cbn [length] in *. lia. }
    rewrite Hnn. cbn [orb].
    destruct (Z.ltb_spec (cmp v (tmin mn)) 0) as [C|C].
    { apply cmp_opp in C. lia. }
    destruct (Z.gtb_spec (cmp v (tmax mx)) 0); [lia|reflexivity].
  Qed.
End Orders.
