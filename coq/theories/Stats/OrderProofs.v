(** Every comparison of Stats/Order.v is a total preorder (for FLOAT/DOUBLE: on
    the non-NaN patterns, NaN comparing equal to everything, as compare.go
    does), and the word-wise / half-wise comparisons of the library coincide
    with the arithmetic reading of the bit patterns. *)
From Coq Require Import List NArith ZArith Bool Arith Lia.
From Coq Require Import ZifyN ZifyNat ZifyBool.
From PQ Require Import Base.Bytes Search.Model Search.Proofs Stats.Order.
Import ListNotations.
Open Scope Z_scope.

(** * Orders given by an integer key *)
Section Keyed.
  Variable V : Type.
  Variable key : V -> Z.
  Definition cmp_key (a b : V) : Z := cmpZ (key a) (key b).

  Lemma cmp_key_opp a b : cmp_key a b < 0 <-> cmp_key b a > 0.
  Proof. apply cmpZ_opp. Qed.
  Lemma cmp_key_trans a b d : cmp_key a b <= 0 -> cmp_key b d <= 0 -> cmp_key a d <= 0.
  Proof. apply cmpZ_trans. Qed.
  Lemma cmp_key_le a b : cmp_key a b <= 0 <-> key a <= key b.
  Proof. apply cmpZ_le. Qed.
End Keyed.

Lemma cmpZ_lt a b : cmpZ a b < 0 <-> a < b.
Proof. unfold cmpZ. destruct (Z.compare_spec a b); lia. Qed.
Lemma cmpZ_gt a b : cmpZ a b > 0 <-> a > b.
Proof. unfold cmpZ. destruct (Z.compare_spec a b); lia. Qed.
Lemma cmpZ_eq a b : cmpZ a b = 0 <-> a = b.
Proof. unfold cmpZ. destruct (Z.compare_spec a b); lia. Qed.
Lemma cmpZ_range a b : -1 <= cmpZ a b <= 1.
Proof. unfold cmpZ. destruct (Z.compare a b); lia. Qed.

(** * Signed and unsigned integers *)
Lemma cmp_sint_opp k a b : cmp_sint k a b < 0 <-> cmp_sint k b a > 0.
Proof. apply cmpZ_opp. Qed.
Lemma cmp_sint_trans k a b d : cmp_sint k a b <= 0 -> cmp_sint k b d <= 0 -> cmp_sint k a d <= 0.
Proof. apply cmpZ_trans. Qed.
Lemma cmp_uint_opp a b : cmp_uint a b < 0 <-> cmp_uint b a > 0.
Proof. apply cmpZ_opp. Qed.
Lemma cmp_uint_trans a b d : cmp_uint a b <= 0 -> cmp_uint b d <= 0 -> cmp_uint a d <= 0.
Proof. apply cmpZ_trans. Qed.

(* the signed order is the order of the integers the patterns denote *)
Lemma cmp_sint_le k a b : cmp_sint k a b <= 0 <-> sintZ k a <= sintZ k b.
Proof. apply cmpZ_le. Qed.
Lemma cmp_uint_le a b : cmp_uint a b <= 0 <-> (a <= b)%N.
Proof. unfold cmp_uint. rewrite cmpZ_le. lia. Qed.

(** * FLOAT / DOUBLE *)
Section Float.
  Variables eb mb : N.
  Notation nan := (f_is_nan eb mb).
  Notation cmpf := (cmp_float eb mb).

  Lemma cmp_float_opp a b : cmpf a b < 0 <-> cmpf b a > 0.
  Proof.
    unfold cmp_float. rewrite (orb_comm (nan b) (nan a)).
    destruct (nan a || nan b); [lia|]. apply cmpZ_opp.
  Qed.

  (* transitive through a middle value that is not NaN *)
  Lemma cmp_float_trans a b d :
    nan b = false -> cmpf a b <= 0 -> cmpf b d <= 0 -> cmpf a d <= 0.
  Proof.
    unfold cmp_float. intros Hb. rewrite Hb, orb_false_r, orb_false_l.
    destruct (nan a); cbn [orb]; [lia|].
    destruct (nan d); [lia|].
    apply cmpZ_trans.
  Qed.

  (* NaN is neither below nor above anything *)
  Lemma cmp_float_nan_l a b : nan a = true -> cmpf a b = 0.
  Proof. unfold cmp_float. intros ->. reflexivity. Qed.
  Lemma cmp_float_nan_r a b : nan b = true -> cmpf a b = 0.
  Proof. unfold cmp_float. intros ->. rewrite orb_true_r. reflexivity. Qed.

  (* on non-NaN patterns the order is the order of the sign-magnitude keys:
     -inf < negative < -0 = +0 < positive < +inf *)
  Lemma cmp_float_key a b : nan a = false -> nan b = false ->
    (cmpf a b <= 0 <-> f_key eb mb a <= f_key eb mb b).
  Proof. unfold cmp_float. intros -> ->. cbn [orb]. apply cmpZ_le. Qed.
End Float.

(** * INT96: the word-wise comparison is the signed 96-bit order *)
Definition i96_key (n : N) : Z := sintZ 96 (n mod 2 ^ 96)%N.

Local Ltac pows :=
  change (2 ^ (32 * 2))%N with 18446744073709551616%N in *;
  change (2 ^ (32 * 1))%N with 4294967296%N in *;
  change (2 ^ (32 * 0))%N with 1%N in *;
  change (2 ^ 32)%N with 4294967296%N in *;
  change (2 ^ 31)%N with 2147483648%N in *;
  change (2 ^ 96)%N with 79228162514264337593543950336%N in *;
  change (2 ^ (96 - 1))%N with 39614081257132168796771975168%N in *;
  change (2 ^ Z.of_N 96)%Z with 79228162514264337593543950336%Z in *.

Lemma i96_decompose n :
  (n mod 2 ^ 96 = i96_word 0 n + 4294967296 * i96_word 1 n + 18446744073709551616 * i96_word 2 n)%N
  /\ (i96_word 0 n < 4294967296)%N /\ (i96_word 1 n < 4294967296)%N /\ (i96_word 2 n < 4294967296)%N.
Proof.
  unfold i96_word. pows. rewrite N.div_1_r.
  pose proof (N.div_mod n 4294967296 ltac:(discriminate)) as E0.
  pose proof (N.mod_lt n 4294967296 ltac:(discriminate)) as L0.
  pose proof (N.div_mod (n / 4294967296) 4294967296 ltac:(discriminate)) as E1.
  pose proof (N.mod_lt (n / 4294967296) 4294967296 ltac:(discriminate)) as L1.
  assert (D2 : (n / 18446744073709551616 = n / 4294967296 / 4294967296)%N).
  { rewrite N.div_div by discriminate. reflexivity. }
  rewrite D2.
  pose proof (N.div_mod (n / 4294967296 / 4294967296) 4294967296 ltac:(discriminate)) as E2.
  pose proof (N.mod_lt (n / 4294967296 / 4294967296) 4294967296 ltac:(discriminate)) as L2.
  split; [|auto].
  set (w0 := (n mod 4294967296)%N) in *.
  set (w1 := ((n / 4294967296) mod 4294967296)%N) in *.
  set (w2 := ((n / 4294967296 / 4294967296) mod 4294967296)%N) in *.
  set (q := (n / 4294967296 / 4294967296 / 4294967296)%N) in *.
  assert (En : (n = w0 + 4294967296 * w1 + 18446744073709551616 * w2
                    + 79228162514264337593543950336 * q)%N) by lia.
  symmetry. apply N.mod_unique with (q := q); lia.
Qed.

Lemma cmp_i96_key a b : cmp_i96 a b = cmpZ (i96_key a) (i96_key b).
Proof.
  destruct (i96_decompose a) as (Ea & A0 & A1 & A2).
  destruct (i96_decompose b) as (Eb & B0 & B1 & B2).
  unfold cmp_i96, i96_less, i96_negative, i96_words_less, i96_key, sintZ.
  rewrite Ea, Eb. pows.
  set (a0 := i96_word 0 a) in *. set (a1 := i96_word 1 a) in *. set (a2 := i96_word 2 a) in *.
  set (b0 := i96_word 0 b) in *. set (b1 := i96_word 1 b) in *. set (b2 := i96_word 2 b) in *.
  assert (Na : (a2 / 2147483648 =? 0)%N = (a2 <? 2147483648)%N).
  { destruct (N.ltb_spec a2 2147483648).
    - rewrite N.div_small by assumption. reflexivity.
    - apply N.eqb_neq. intros H0.
      apply N.div_small_iff in H0; [lia|discriminate]. }
  assert (Nb : (b2 / 2147483648 =? 0)%N = (b2 <? 2147483648)%N).
  { destruct (N.ltb_spec b2 2147483648).
    - rewrite N.div_small by assumption. reflexivity.
    - apply N.eqb_neq. intros H0.
      apply N.div_small_iff in H0; [lia|discriminate]. }
  rewrite Na, Nb. clear Na Nb Ea Eb.
  unfold cmpZ.
  repeat match goal with
  | |- context [(?x <? ?y)%N] => destruct (N.ltb_spec x y); cbn [negb]
  end;
  match goal with
  | |- context [Z.compare ?x ?y] => destruct (Z.compare_spec x y)
  end; try reflexivity; exfalso; lia.
Qed.

Lemma cmp_i96_opp a b : cmp_i96 a b < 0 <-> cmp_i96 b a > 0.
Proof. rewrite !cmp_i96_key. apply cmpZ_opp. Qed.
Lemma cmp_i96_trans a b d : cmp_i96 a b <= 0 -> cmp_i96 b d <= 0 -> cmp_i96 a d <= 0.
Proof. rewrite !cmp_i96_key. apply cmpZ_trans. Qed.

(* for a pattern below 2^96 the key is the signed integer it denotes *)
Lemma i96_key_small n : (n < 2 ^ 96)%N -> i96_key n = sintZ 96 n.
Proof. intros H. unfold i96_key. rewrite N.mod_small by exact H. reflexivity. Qed.

(** * 128-bit big-endian: two uint64 halves, = lexicographic on 16 bytes *)
Definition be128_key (a : bytes) : N * N := (of_be (firstn 8 a), of_be (skipn 8 a)).

Lemma cmp_be128_opp a b : cmp_be128 a b < 0 <-> cmp_be128 b a > 0.
Proof.
  unfold cmp_be128.
  repeat match goal with
  | |- context [(?x <? ?y)%N] => destruct (N.ltb_spec x y)
  end; lia.
Qed.

Lemma cmp_be128_trans a b d : cmp_be128 a b <= 0 -> cmp_be128 b d <= 0 -> cmp_be128 a d <= 0.
Proof.
  unfold cmp_be128.
  repeat match goal with
  | |- context [(?x <? ?y)%N] => destruct (N.ltb_spec x y)
  end; lia.
Qed.

Lemma of_be_bound l : wf_bytes l -> (of_be l < 256 ^ N.of_nat (length l))%N.
Proof.
  induction 1 as [|b r Hb Hr IH]; cbn [of_be length].
  - cbn. lia.
  - rewrite Nat2N.inj_succ, N.pow_succ_r'. nia.
Qed.

(* big-endian numbers of equal length compare like their byte strings *)
Lemma cmp_bytes_of_be a : forall b, length a = length b -> wf_bytes a -> wf_bytes b ->
  cmp_bytes a b = cmpZ (Z.of_N (of_be a)) (Z.of_N (of_be b)).
Proof.
  induction a as [|x a IH]; intros [|y b] Hl Ha Hb; try discriminate.
  - reflexivity.
  - cbn [cmp_bytes of_be]. inversion Ha; subst. inversion Hb; subst.
    injection Hl as Hl. rewrite <- Hl.
    pose proof (of_be_bound a H2) as Ba. pose proof (of_be_bound b H4) as Bb.
    rewrite <- Hl in Bb.
    set (p := (256 ^ N.of_nat (length a))%N) in *.
    destruct (N.compare_spec x y) as [E|L|G].
    + subst. rewrite IH by auto. unfold cmpZ.
      destruct (Z.compare_spec (Z.of_N (of_be a)) (Z.of_N (of_be b)));
      destruct (Z.compare_spec (Z.of_N (y * p + of_be a)) (Z.of_N (y * p + of_be b))); lia.
    + unfold cmpZ.
      destruct (Z.compare_spec (Z.of_N (x * p + of_be a)) (Z.of_N (y * p + of_be b))); nia.
    + unfold cmpZ.
      destruct (Z.compare_spec (Z.of_N (x * p + of_be a)) (Z.of_N (y * p + of_be b))); nia.
Qed.

Lemma cmp_bytes_app a1 : forall b1 a2 b2, length a1 = length b1 ->
  cmp_bytes (a1 ++ a2) (b1 ++ b2) =
  match cmp_bytes a1 b1 with 0 => cmp_bytes a2 b2 | r => r end.
Proof.
  induction a1 as [|x a1 IH]; intros [|y b1] a2 b2 Hl; try discriminate.
  - reflexivity.
  - cbn [app cmp_bytes]. destruct (N.compare x y); try reflexivity.
    apply IH. injection Hl as Hl. exact Hl.
Qed.

Theorem cmp_be128_lexicographic a b :
  length a = 16%nat -> length b = 16%nat -> wf_bytes a -> wf_bytes b ->
  cmp_be128 a b = cmp_bytes a b.
Proof.
  intros La Lb Wa Wb.
  rewrite <- (firstn_skipn 8 a) at 2. rewrite <- (firstn_skipn 8 b) at 2.
  assert (Wa1 : wf_bytes (firstn 8 a) /\ wf_bytes (skipn 8 a)).
  { apply wf_bytes_app. rewrite firstn_skipn. exact Wa. }
  assert (Wb1 : wf_bytes (firstn 8 b) /\ wf_bytes (skipn 8 b)).
  { apply wf_bytes_app. rewrite firstn_skipn. exact Wb. }
  rewrite cmp_bytes_app by (rewrite !firstn_length; lia).
  rewrite (cmp_bytes_of_be (firstn 8 a) (firstn 8 b)) by (try (rewrite !firstn_length; lia); tauto).
  rewrite (cmp_bytes_of_be (skipn 8 a) (skipn 8 b)) by (try (rewrite !skipn_length; lia); tauto).
  unfold cmp_be128, cmpZ.
  repeat match goal with
  | |- context [(?x <? ?y)%N] => destruct (N.ltb_spec x y)
  end;
  repeat match goal with
  | |- context [Z.compare ?x ?y] => destruct (Z.compare_spec x y)
  end; try reflexivity; exfalso; lia.
Qed.

(** * Byte strings: equality is comparison 0 *)
Lemma cmp_bytes_eq a : forall b, cmp_bytes a b = 0 <-> a = b.
Proof.
  induction a as [|x a IH]; intros [|y b]; cbn; try (split; [lia|discriminate]).
  - tauto.
  - destruct (N.compare_spec x y) as [E|L|G].
    + subst. rewrite IH. split; [intros ->; reflexivity|intros H; injection H; auto].
    + split; [lia|]. intros H. injection H as H1 _. lia.
    + split; [lia|]. intros H. injection H as H1 _. lia.
Qed.

Lemma cmp_bytes_refl a : cmp_bytes a a = 0.
Proof. apply cmp_bytes_eq. reflexivity. Qed.

(** * The kinds *)
Lemma cmp_num_opp k a b : cmp_num k a b < 0 <-> cmp_num k b a > 0.
Proof.
  destruct k; cbn [cmp_num];
    first [apply cmp_uint_opp | apply cmp_sint_opp | apply cmp_float_opp | apply cmp_i96_opp].
Qed.

Lemma cmp_num_trans k a b d : nan_num k b = false ->
  cmp_num k a b <= 0 -> cmp_num k b d <= 0 -> cmp_num k a d <= 0.
Proof.
  destruct k; cbn [cmp_num nan_num]; intros Hb;
    first [apply cmp_uint_trans | apply cmp_sint_trans | apply cmp_i96_trans
          | apply cmp_float_trans; exact Hb].
Qed.

Lemma cmp_num_nan k a b : nan_num k a = true -> cmp_num k a b = 0 /\ cmp_num k b a = 0.
Proof.
  destruct k; cbn [cmp_num nan_num]; try discriminate; intros H; split;
    first [apply cmp_float_nan_l; exact H | apply cmp_float_nan_r; exact H].
Qed.
