(** The theorems of Stats/Proofs.v for the column kinds of parquet-go: every
    numeric kind (boolean, signed and unsigned 32/64-bit integers, FLOAT,
    DOUBLE, INT96) and the byte kinds BYTE_ARRAY, FIXED_LEN_BYTE_ARRAY and
    128-bit big-endian.  Binary DECIMAL columns are in Stats/Decimal.v. *)
From Coq Require Import List NArith ZArith Bool Arith Lia.
From Coq Require Import ZifyN ZifyNat ZifyBool.
From PQ Require Import Base.Bytes Search.Model Search.Proofs
     Stats.Order Stats.OrderProofs Stats.Model Stats.Proofs Stats.Instances.
Import ListNotations.
Open Scope Z_scope.

(** * Numeric kinds *)
Theorem num_page_bounds_sound k l mn mx :
  bounds_num k l = Some (mn, mx) ->
  within N (cmp_num k) (nan_num k) mn mx l /\ In mn l /\ In mx l /\
  ((exists v, In v l /\ nan_num k v = false) -> nan_num k mn = false /\ nan_num k mx = false).
Proof.
  exact (page_bounds_sound N (cmp_num k) (nan_num k) (cmp_num_opp k) (cmp_num_trans k) (cmp_num_nan k)
                           false l mn mx).
Qed.

Theorem num_dict_bounds_sound k l mn mx :
  dict_bounds_num k l = Some (mn, mx) ->
  within N (cmp_num k) (nan_num k) mn mx l /\ In mn l /\ In mx l /\
  ((exists v, In v l /\ nan_num k v = false) -> nan_num k mn = false /\ nan_num k mx = false).
Proof.
  exact (page_bounds_sound N (cmp_num k) (nan_num k) (cmp_num_opp k) (cmp_num_trans k) (cmp_num_nan k)
                           (existsb (nan_num k) l) l mn mx).
Qed.

Theorem num_chunk_stats_sound k ps valss :
  Forall2 (page_sound N (cmp_num k) (nan_num k)) ps valss ->
  match cs_bounds (chunk_num k ps) with
  | None => concat valss = []
  | Some (mn, mx) =>
      within N (cmp_num k) (nan_num k) mn mx (concat valss) /\
      In mn (concat valss) /\ In mx (concat valss) /\
      (has_value N (nan_num k) (concat valss) -> nan_num k mn = false /\ nan_num k mx = false)
  end.
Proof.
  exact (chunk_stats_sound N (cmp_num k) (nan_num k) (cmp_num_opp k) (cmp_num_trans k) (cmp_num_nan k)
                           ps valss).
Qed.

(* pages given by their values: the premise of the chunk theorem holds *)
Lemma pages_of_values_sound V cmp nan
      (O : forall a b : V, cmp a b < 0 <-> cmp b a > 0)
      (T : forall a b d : V, nan b = false -> cmp a b <= 0 -> cmp b d <= 0 -> cmp a d <= 0)
      (NN : forall a b : V, nan a = true -> cmp a b = 0 /\ cmp b a = 0)
      sw (pages : list (list (option V))) :
  Forall2 (page_sound V cmp nan) (map (page_of_values cmp nan sw) pages) (map (@non_nulls V) pages).
Proof.
  induction pages as [|l pages IH]; cbn [map]; constructor; [|exact IH].
  unfold page_sound, page_of_values. cbn [pi_bounds].
  destruct (page_bounds cmp nan sw (non_nulls l)) as [[mn mx]|] eqn:B.
  - exact (page_bounds_sound V cmp nan O T NN sw _ _ _ B).
  - apply page_bounds_none in B. exact B.
Qed.

Theorem num_chunk_of_values_sound k (pages : list (list (option N))) :
  let vals := concat (map (@non_nulls N) pages) in
  match cs_bounds (chunk_num k (map (page_of_values (cmp_num k) (nan_num k) false) pages)) with
  | None => vals = []
  | Some (mn, mx) =>
      within N (cmp_num k) (nan_num k) mn mx vals /\ In mn vals /\ In mx vals /\
      (has_value N (nan_num k) vals -> nan_num k mn = false /\ nan_num k mx = false)
  end.
Proof.
  apply num_chunk_stats_sound.
  apply (pages_of_values_sound N (cmp_num k) (nan_num k) (cmp_num_opp k) (cmp_num_trans k) (cmp_num_nan k)).
Qed.

Theorem num_index_aligned k ps :
  let ci := index_num k ps in
  length (ci_null_pages ci) = length ps /\ length (ci_null_counts ci) = length ps /\
  length (ci_min_values ci) = length ps /\ length (ci_max_values ci) = length ps.
Proof. exact (index_aligned N 0%N (fun v => v) (fun v => v) (order_num k) ps). Qed.

Theorem num_boundary_order_true k ps : order_claim_true N (cmp_num k) (index_num k ps).
Proof.
  exact (boundary_order_true N (cmp_num k) (nan_num k) (cmp_num_opp k) (cmp_num_trans k) (cmp_num_nan k)
           0%N (fun v => v) (fun v => v) (order_num k)
           (order_num_sound k) (order_num_range k) (order_num_nan_free k) ps).
Qed.

Lemma cmp_num_refl k v : cmp_num k v v <= 0.
Proof. exact (cmp_refl N (cmp_num k) (nan_num k) (cmp_num_opp k) (cmp_num_trans k) (cmp_num_nan k) v). Qed.

Theorem num_skip_safe k (pages : list (list (option N))) p vals v :
  nth_error pages p = Some vals -> In (Some v) vals -> nan_num k v = false ->
  may_skip (cmp_num k) (index_num k (map (page_of_values (cmp_num k) (nan_num k) false) pages)) p v = false.
Proof.
  intros Hp Hv Nv.
  exact (skip_safe N (cmp_num k) (nan_num k) (cmp_num_opp k) (cmp_num_trans k) (cmp_num_nan k)
           0%N (fun v => v) (fun v => v) (order_num k) (order_num_range k) (order_num_nan_free k)
           (fun _ => True) (fun v _ => cmp_num_refl k v) (fun v _ => cmp_num_refl k v)
           false pages p vals v Hp (fun _ _ => I) Hv Nv).
Qed.

(** * Byte kinds ordered lexicographically: BYTE_ARRAY, FIXED_LEN_BYTE_ARRAY, be128 *)
Definition lex_opp := cmp_bytes_opp.
Definition lex_trans := no_nan_trans bytes cmp_bytes cmp_bytes_trans.
Definition lex_nan := no_nan_nan bytes cmp_bytes.

Lemma order_of_bytes_sound : order_sound bytes cmp_bytes order_of_bytes.
Proof.
  exact (order_of_streak_sound bytes cmp_bytes no_nan lex_opp lex_trans lex_nan (fun _ => eq_refl)).
Qed.

Lemma order_of_bytes_range l : order_of_bytes l = 1 \/ order_of_bytes l = -1 \/ order_of_bytes l = 0.
Proof. apply order_of_streak_range. Qed.

Lemma order_of_bytes_nan_free (l : list bytes) :
  order_of_bytes l <> 0 -> Forall (fun x => @no_nan bytes x = false) l.
Proof. intros _. apply forall_const_false. Qed.

Theorem bytes_page_bounds_sound sw l mn mx :
  page_bounds cmp_bytes no_nan sw l = Some (mn, mx) ->
  within bytes cmp_bytes no_nan mn mx l /\ In mn l /\ In mx l.
Proof.
  intros H. destruct (page_bounds_sound bytes cmp_bytes no_nan lex_opp lex_trans lex_nan sw l mn mx H)
    as (W & I1 & I2 & _). auto.
Qed.

Theorem be128_page_bounds_sound l mn mx :
  bounds_byte BBe128 l = Some (mn, mx) ->
  within bytes cmp_be128 no_nan mn mx l /\ In mn l /\ In mx l.
Proof.
  intros H.
  destruct (page_bounds_sound bytes cmp_be128 no_nan cmp_be128_opp
              (no_nan_trans bytes cmp_be128 cmp_be128_trans) (no_nan_nan bytes cmp_be128)
              false l mn mx H) as (W & I1 & I2 & _). auto.
Qed.

Theorem bytes_chunk_stats_sound ps valss :
  Forall2 (page_sound bytes cmp_bytes no_nan) ps valss ->
  match cs_bounds (chunk_fold cmp_bytes no_nan ps) with
  | None => concat valss = []
  | Some (mn, mx) =>
      within bytes cmp_bytes no_nan mn mx (concat valss) /\ In mn (concat valss) /\ In mx (concat valss)
  end.
Proof.
  intros F. pose proof (chunk_stats_sound bytes cmp_bytes no_nan lex_opp lex_trans lex_nan ps valss F) as H.
  revert H. unfold bytes. destruct (cs_bounds (chunk_fold cmp_bytes no_nan ps)) as [[mn mx]|]; intros H; [|exact H].
  destruct H as (W & I1 & I2 & _). auto.
Qed.

(* the indexer of each byte kind written as the generic one *)
Definition byte_pages_ok (k : bytekind) (ps : list (page_info bytes)) : Prop :=
  match k with
  | BFlba size => (0 < size)%nat /\ Forall (flba_page_ok size) ps
  | _ => True
  end.

Definition byte_zero (k : bytekind) : bytes :=
  match k with BFlba size => zeros size | BBe128 => zeros 16 | _ => [] end.
Definition byte_tmin (k : bytekind) (limit : Z) : bytes -> bytes :=
  match k with
  | BBytes => limit_min limit
  | BFlba _ => flba_tmin (if 0 <? limit then Z.to_nat limit else O)
  | _ => fun v => v
  end.
Definition byte_tmax (k : bytekind) (limit : Z) : bytes -> bytes :=
  match k with
  | BBytes => limit_max limit
  | BFlba _ => flba_tmax (if 0 <? limit then Z.to_nat limit else O)
  | _ => fun v => v
  end.
Definition byte_ord (k : bytekind) : list bytes -> Z :=
  match k with BDecimal => order_of_streak cmp_decimal | _ => order_of_bytes end.

Lemma index_byte_generic k limit ps : byte_pages_ok k ps ->
  index_byte k limit ps = index_pages (byte_zero k) (byte_tmin k limit) (byte_tmax k limit) (byte_ord k) ps.
Proof.
  destruct k; cbn [index_byte byte_pages_ok byte_zero byte_tmin byte_tmax byte_ord]; try reflexivity.
  intros [Hs F]. apply flba_indexer_generic; assumption.
Qed.

Theorem byte_index_aligned k limit ps : byte_pages_ok k ps ->
  let ci := index_byte k limit ps in
  length (ci_null_pages ci) = length ps /\ length (ci_null_counts ci) = length ps /\
  length (ci_min_values ci) = length ps /\ length (ci_max_values ci) = length ps.
Proof.
  intros H. rewrite (index_byte_generic k limit ps H). apply index_aligned.
Qed.

Theorem byte_boundary_order_true k limit ps : k <> BDecimal -> byte_pages_ok k ps ->
  order_claim_true bytes cmp_bytes (index_byte k limit ps).
Proof.
  intros Hk H. rewrite (index_byte_generic k limit ps H).
  assert (E : byte_ord k = order_of_bytes) by (destruct k; try reflexivity; congruence).
  rewrite E.
  exact (boundary_order_true bytes cmp_bytes no_nan lex_opp lex_trans lex_nan _ _ _ order_of_bytes
           order_of_bytes_sound order_of_bytes_range order_of_bytes_nan_free ps).
Qed.

Lemma byte_tmin_lower k limit v : cmp_bytes (byte_tmin k limit v) v <= 0.
Proof.
  destruct k; cbn [byte_tmin];
    first [apply limit_min_lower | apply flba_tmin_lower | rewrite cmp_bytes_refl; lia].
Qed.

Lemma byte_tmax_upper k limit v : wf_bytes v -> cmp_bytes v (byte_tmax k limit v) <= 0.
Proof.
  intros W. destruct k; cbn [byte_tmax];
    first [apply limit_max_upper; exact W | apply flba_tmax_upper; exact W | rewrite cmp_bytes_refl; lia].
Qed.

(* pages of a lexicographically ordered kind given by their values; values of a
   FIXED_LEN_BYTE_ARRAY column have the size of the column *)
Definition byte_value_ok (k : bytekind) (v : bytes) : Prop :=
  wf_bytes v /\ match k with BFlba size => (0 < size)%nat /\ length v = size | _ => True end.

Lemma flba_pages_of_values_ok size sw (pages : list (list (option bytes))) :
  (forall vals x, In vals pages -> In (Some x) vals -> length x = size) ->
  Forall (flba_page_ok size) (map (page_of_values cmp_bytes no_nan sw) pages).
Proof.
  intros H. rewrite Forall_map. apply Forall_forall. intros vals Hin.
  unfold flba_page_ok, page_of_values. cbn [pi_bounds].
  destruct (page_bounds cmp_bytes no_nan sw (non_nulls vals)) as [[mn mx]|] eqn:B; [|exact I].
  destruct (bytes_page_bounds_sound sw _ _ _ B) as (_ & I1 & I2).
  split; apply (H vals); auto; apply (non_nulls_in bytes); assumption.
Qed.

Theorem byte_skip_safe k limit (pages : list (list (option bytes))) p vals v :
  k = BBytes \/ (exists size, k = BFlba size) ->
  (forall vals x, In vals pages -> In (Some x) vals -> byte_value_ok k x) ->
  nth_error pages p = Some vals -> In (Some v) vals ->
  may_skip cmp_bytes
    (index_byte k limit (map (page_of_values cmp_bytes no_nan (match k with BBytes => true | _ => false end)) pages))
    p v = false.
Proof.
  intros Hk Hok Hp Hv.
  set (sw := match k with BBytes => true | _ => false end).
  assert (Hpages : byte_pages_ok k (map (page_of_values cmp_bytes no_nan sw) pages)).
  { destruct Hk as [->|[size ->]]; cbn [byte_pages_ok]; [exact I|].
    assert (Hin : In vals pages) by (eapply nth_error_In; eauto).
    destruct (Hok vals v Hin Hv) as (_ & Hs & _). split; [exact Hs|].
    apply flba_pages_of_values_ok. intros vs x H1 H2. destruct (Hok vs x H1 H2) as (_ & _ & L). exact L. }
  rewrite (index_byte_generic k limit _ Hpages).
  assert (E : byte_ord k = order_of_bytes) by (destruct Hk as [->|[size ->]]; reflexivity).
  rewrite E.
  apply (skip_safe bytes cmp_bytes no_nan lex_opp lex_trans lex_nan _ _ _ order_of_bytes
           order_of_bytes_range order_of_bytes_nan_free wf_bytes
           (fun v _ => byte_tmin_lower k limit v) (fun v W => byte_tmax_upper k limit v W)
           sw pages p vals v Hp); auto.
  intros x Hx. assert (Hin : In vals pages) by (eapply nth_error_In; eauto).
  destruct (Hok vals x Hin Hx) as [W _]. exact W.
Qed.

Theorem be128_skip_safe (pages : list (list (option bytes))) p vals v :
  nth_error pages p = Some vals -> In (Some v) vals ->
  may_skip cmp_be128 (index_byte BBe128 0 (map (page_of_values cmp_be128 no_nan false) pages)) p v = false.
Proof.
  intros Hp Hv. cbn [index_byte].
  assert (R : forall x, cmp_be128 x x <= 0).
  { intros x. exact (cmp_refl bytes cmp_be128 no_nan cmp_be128_opp
                       (no_nan_trans bytes cmp_be128 cmp_be128_trans) (no_nan_nan bytes cmp_be128) x). }
  apply (skip_safe bytes cmp_be128 no_nan cmp_be128_opp
           (no_nan_trans bytes cmp_be128 cmp_be128_trans) (no_nan_nan bytes cmp_be128)
           (zeros 16) (fun v => v) (fun v => v) order_of_bytes
           order_of_bytes_range order_of_bytes_nan_free (fun _ => True)
           (fun v _ => R v) (fun v _ => R v) false pages p vals v Hp); auto.
Qed.

(** * The claim of an index discharges the hypothesis of C06 *)
Theorem claim_discharges_search_hypothesis V (cmp : V -> V -> Z) (ci : col_index V) :
  order_claim_true V cmp ci ->
  well_formed V cmp (ci_order ci =? 1) (to_search_index ci).
Proof.
  intros H Hasc. apply Z.eqb_eq in Hasc. apply claim_gives_ascending_nonnull; assumption.
Qed.

(** * The forms stated in Properties/C05.v *)
Theorem bytes_page_bounds_within sw (l : list bytes) mn mx :
  page_bounds cmp_bytes (fun _ => false) sw l = Some (mn, mx) ->
  (forall v, In v l -> cmp_bytes mn v <= 0 /\ cmp_bytes v mx <= 0) /\ In mn l /\ In mx l.
Proof.
  intros H. destruct (bytes_page_bounds_sound sw l mn mx H) as (W & I1 & I2).
  split; [|auto]. intros v Hv. exact (W v Hv eq_refl).
Qed.

Theorem be128_page_bounds_within (l : list bytes) mn mx :
  bounds_byte BBe128 l = Some (mn, mx) ->
  (forall v, In v l -> cmp_be128 mn v <= 0 /\ cmp_be128 v mx <= 0) /\ In mn l /\ In mx l.
Proof.
  intros H. destruct (be128_page_bounds_sound l mn mx H) as (W & I1 & I2).
  split; [|auto]. intros v Hv. exact (W v Hv eq_refl).
Qed.

Theorem num_counts_exact (k : numkind) (pages : list (list (option N))) i vals :
  nth_error pages i = Some vals ->
  let ci := index_num k (map (page_of_values (cmp_num k) (nan_num k) false) pages) in
  nth_error (ci_null_counts ci) i = Some (Z.of_nat (count_nulls vals)) /\
  exists flag, nth_error (ci_null_pages ci) i = Some flag /\
               (flag = true <-> Forall (fun o => o = None) vals).
Proof.
  intros H.
  pose proof (map_nth_error (page_of_values (cmp_num k) (nan_num k) false) i pages H) as Hq.
  destruct (index_counts_exact N 0%N (fun v => v) (fun v => v) (order_num k) _ _ _ Hq) as (H1 & H2 & _).
  destruct (page_of_values_counts N (cmp_num k) (nan_num k) false vals) as (_ & E2 & E3).
  cbv zeta. unfold index_num. split.
  - rewrite H1, E2. reflexivity.
  - eexists. split; [exact H2|exact E3].
Qed.

Theorem byte_counts_any_pages (k : bytekind) (limit : Z) ps i p :
  byte_pages_ok k ps -> nth_error ps i = Some p ->
  let ci := index_byte k limit ps in
  nth_error (ci_null_counts ci) i = Some (pi_num_nulls p) /\
  nth_error (ci_null_pages ci) i = Some (pi_num_values p =? pi_num_nulls p).
Proof.
  intros Hok H. cbv zeta. rewrite (index_byte_generic k limit ps Hok).
  destruct (index_counts_exact bytes (byte_zero k) (byte_tmin k limit) (byte_tmax k limit) (byte_ord k) ps i p H)
    as (H1 & H2 & _). auto.
Qed.

Theorem num_boundary_order_nonnull (k : numkind) ps :
  let ci := index_num k ps in
  (ci_order ci = 1 -> ascending_nonnull N (cmp_num k) (to_search_index ci)) /\
  (ci_order ci = 2 -> ascending_nonnull N (fun a b => cmp_num k b a) (to_search_index ci)).
Proof.
  cbv zeta. pose proof (num_boundary_order_true k ps) as H. split; intros E.
  - exact (claim_gives_ascending_nonnull N (cmp_num k) _ H E).
  - exact (claim_gives_descending_nonnull N (cmp_num k) _ H E).
Qed.

Theorem byte_boundary_order_nonnull (k : bytekind) (limit : Z) ps :
  k <> BDecimal -> byte_pages_ok k ps ->
  let ci := index_byte k limit ps in
  (ci_order ci = 1 -> ascending_nonnull bytes cmp_bytes (to_search_index ci)) /\
  (ci_order ci = 2 -> ascending_nonnull bytes (fun a b => cmp_bytes b a) (to_search_index ci)).
Proof.
  intros Hk Hok. cbv zeta. pose proof (byte_boundary_order_true k limit ps Hk Hok) as H.
  split; intros E.
  - exact (claim_gives_ascending_nonnull bytes cmp_bytes _ H E).
  - exact (claim_gives_descending_nonnull bytes cmp_bytes _ H E).
Qed.

Theorem num_discharges_search_hypothesis (k : numkind) ps :
  let ci := index_num k ps in
  well_formed N (cmp_num k) (ci_order ci =? 1) (to_search_index ci).
Proof. cbv zeta. apply claim_discharges_search_hypothesis. apply num_boundary_order_true. Qed.

Theorem byte_discharges_search_hypothesis (k : bytekind) (limit : Z) ps :
  k <> BDecimal -> byte_pages_ok k ps ->
  let ci := index_byte k limit ps in
  well_formed bytes cmp_bytes (ci_order ci =? 1) (to_search_index ci).
Proof.
  intros Hk Hok. cbv zeta. apply claim_discharges_search_hypothesis.
  apply byte_boundary_order_true; assumption.
Qed.

Theorem int96_order_is_signed a b :
  (a < 2 ^ 96)%N -> (b < 2 ^ 96)%N -> cmp_i96 a b = cmpZ (sintZ 96 a) (sintZ 96 b).
Proof.
  intros Ha Hb. rewrite cmp_i96_key, (i96_key_small a Ha), (i96_key_small b Hb). reflexivity.
Qed.

Theorem num_chunk_counts_exact (k : numkind) ps :
  cs_num_values (chunk_num k ps) = sumZ (map (@pi_num_values N) ps) /\
  cs_null_count (chunk_num k ps) = sumZ (map (@pi_num_nulls N) ps).
Proof. apply chunk_counts_exact. Qed.

Theorem num_page_bounds_none (k : numkind) (l : list N) : bounds_num k l = None <-> l = [].
Proof. apply page_bounds_none. Qed.
