(** The column kinds of parquet-go meet the hypotheses of Stats/Proofs.v:
    truncated byte-array bounds remain bounds, the order functions of order.go
    only answer +1 / -1 for sorted lists, the FIXED_LEN_BYTE_ARRAY indexer with
    its flat buffers is the generic indexer, counts and histograms are exact. *)
From Coq Require Import List NArith ZArith Bool Arith Lia.
From Coq Require Import ZifyN ZifyNat ZifyBool.
From PQ Require Import Base.Bytes Search.Model Search.Proofs
     Stats.Order Stats.OrderProofs Stats.Model Stats.Proofs.
Import ListNotations.
Open Scope Z_scope.

(** kinds without NaN: the NaN hypotheses of Stats/Proofs.v are vacuous *)
Definition no_nan {V} : V -> bool := fun _ => false.

Lemma no_nan_trans V (cmp : V -> V -> Z) :
  (forall a b d, cmp a b <= 0 -> cmp b d <= 0 -> cmp a d <= 0) ->
  forall a b d, @no_nan V b = false -> cmp a b <= 0 -> cmp b d <= 0 -> cmp a d <= 0.
Proof. intros T a b d _. apply T. Qed.

Lemma no_nan_nan V (cmp : V -> V -> Z) :
  forall a b, @no_nan V a = true -> cmp a b = 0 /\ cmp b a = 0.
Proof. intros a b H. discriminate. Qed.

(** * Truncation of byte-array bounds *)
Lemma cmp_bytes_prefix a : forall b, cmp_bytes a (a ++ b) <= 0.
Proof.
  induction a as [|x a IH]; intros b; cbn [app cmp_bytes].
  - destruct b; lia.
  - rewrite N.compare_refl. apply IH.
Qed.

Theorem truncate_min_lower limit v : cmp_bytes (truncate_min limit v) v <= 0.
Proof.
  unfold truncate_min. destruct (limit <? length v)%nat.
  - rewrite <- (firstn_skipn limit v) at 2. apply cmp_bytes_prefix.
  - rewrite cmp_bytes_refl. lia.
Qed.

Lemma increment_length l : length (fst (increment l)) = length l.
Proof.
  induction l as [|x r IH]; cbn [increment]; [reflexivity|].
  destruct (increment r) as [r' ok]. cbn [fst] in IH.
  destruct ok; cbn [fst length]; rewrite IH; reflexivity.
Qed.

(* a successful increment yields a string above every extension of the original *)
Lemma increment_above l : wf_bytes l -> forall l', increment l = (l', true) ->
  forall t, cmp_bytes (l ++ t) l' < 0.
Proof.
  induction 1 as [|x r Hx Hr IH]; intros l' E t; cbn [increment] in E; [discriminate|].
  destruct (increment r) as [r' ok]. destruct ok.
  - injection E as <-. cbn [app cmp_bytes]. rewrite N.compare_refl. apply IH. reflexivity.
  - injection E as <- E2. cbn [app cmp_bytes].
    assert (Hne : ((x + 1) mod 256 <> 0)%N).
    { destruct (N.eqb_spec ((x + 1) mod 256) 0); [discriminate|assumption]. }
    assert (Hlt : (x + 1 < 256)%N).
    { destruct (N.lt_ge_cases (x + 1) 256) as [L|G]; [exact L|].
      exfalso. apply Hne. assert (x + 1 = 256)%N by lia. rewrite H. reflexivity. }
    rewrite N.mod_small by exact Hlt.
    destruct (N.compare_spec x (x + 1)); lia.
Qed.

(* a failed increment means every byte was 0xFF *)
Lemma increment_fail l : wf_bytes l -> forall l', increment l = (l', false) ->
  Forall (fun b => b = 255%N) l.
Proof.
  induction 1 as [|x r Hx Hr IH]; intros l' E; cbn [increment] in E; [constructor|].
  destruct (increment r) as [r' ok]. destruct ok; [discriminate|].
  injection E as _ E2. constructor; [|apply (IH r' eq_refl)].
  destruct (N.eqb_spec ((x + 1) mod 256) 0) as [E0|]; [|discriminate].
  destruct (N.lt_ge_cases (x + 1) 256) as [L|G].
  - rewrite N.mod_small in E0 by exact L. lia.
  - lia.
Qed.

Lemma map_const_id (l : bytes) : Forall (fun b => b = 255%N) l -> map (fun _ => 255%N) l = l.
Proof. induction 1; cbn; [reflexivity|]. subst. rewrite IHForall. reflexivity. Qed.

(** for every byte string and every size limit the stored max is at or above
    the value, all-0xFF prefixes included *)
Theorem truncate_max_upper limit v : wf_bytes v -> cmp_bytes v (truncate_max limit v) <= 0.
Proof.
  intros W. unfold truncate_max, increment_inplace.
  destruct (limit <? length v)%nat; [|rewrite cmp_bytes_refl; lia].
  assert (Wp : wf_bytes (firstn limit v)).
  { rewrite <- (firstn_skipn limit v) in W. apply wf_bytes_app in W. tauto. }
  destruct (increment (firstn limit v)) as [p ok] eqn:E. destruct ok.
  - rewrite <- (firstn_skipn limit v) at 1.
    pose proof (increment_above _ Wp p E (skipn limit v)). lia.
  - rewrite (map_const_id _ (increment_fail _ Wp p E)), firstn_skipn, cmp_bytes_refl. lia.
Qed.

Lemma limit_min_lower limit v : cmp_bytes (limit_min limit v) v <= 0.
Proof.
  unfold limit_min. destruct (0 <? limit); [apply truncate_min_lower|].
  rewrite cmp_bytes_refl. lia.
Qed.

Lemma limit_max_upper limit v : wf_bytes v -> cmp_bytes v (limit_max limit v) <= 0.
Proof.
  intros W. unfold limit_max. destruct (0 <? limit); [apply truncate_max_upper; exact W|].
  rewrite cmp_bytes_refl. lia.
Qed.

(** * The order functions *)
Lemma order_of_range V (cmp : V -> V -> Z) l :
  order_of cmp l = 1 \/ order_of cmp l = -1 \/ order_of cmp l = 0.
Proof.
  unfold order_of. destruct (1 <? length l)%nat; [|auto].
  destruct (order_is_ascending cmp l); [auto|]. destruct (order_is_descending cmp l); auto.
Qed.

Lemma order_of_streak_range V (cmp : V -> V -> Z) l :
  order_of_streak cmp l = 1 \/ order_of_streak cmp l = -1 \/ order_of_streak cmp l = 0.
Proof.
  unfold order_of_streak. destruct (length l <=? 1)%nat; [auto|].
  destruct (skip_streak cmp l) as [|a [|b t]]; auto.
  destruct (cmp a b <? 0).
  - destruct (order_is_ascending cmp (b :: t)); auto.
  - destruct (cmp a b >? 0); [|auto]. destruct (order_is_descending cmp (b :: t)); auto.
Qed.

Lemma existsb_false_forall V (f : V -> bool) l :
  existsb f l = false -> Forall (fun x => f x = false) l.
Proof.
  induction l as [|x l IH]; cbn; [constructor|].
  intros H. apply orb_false_iff in H. destruct H. constructor; auto.
Qed.

Lemma forall_const_false V (l : list V) : Forall (fun x => (fun _ : V => false) x = false) l.
Proof. induction l; constructor; auto. Qed.

(* orderOfFloatBounds *)
Lemma order_nan_guard_sound V (cmp : V -> V -> Z) nan ord :
  order_sound V cmp ord -> order_sound V cmp (order_nan_guard nan ord).
Proof.
  intros H l. unfold order_nan_guard. destruct (existsb nan l); [split; discriminate|apply H].
Qed.

Lemma order_nan_guard_free V (nan : V -> bool) ord l :
  order_nan_guard nan ord l <> 0 -> Forall (fun x => nan x = false) l.
Proof.
  unfold order_nan_guard. destruct (existsb nan l) eqn:E; [congruence|].
  intros _. apply existsb_false_forall. exact E.
Qed.

(** order.go orderOfBool *)
Lemma streak_of_split b l :
  l = repeat b (streak_of b l) ++ skipn (streak_of b l) l.
Proof.
  induction l as [|x r IH]; cbn [streak_of]; [reflexivity|].
  destruct (N.eqb_spec x b) as [->|]; [|reflexivity].
  cbn [repeat skipn app]. f_equal. exact IH.
Qed.

Lemma streak_of_le b l : (streak_of b l <= length l)%nat.
Proof.
  induction l as [|x r IH]; cbn [streak_of length]; [lia|].
  destruct (x =? b)%N; lia.
Qed.

Lemma streak_full b l : streak_of b l = length l -> l = repeat b (length l).
Proof.
  intros H. pose proof (streak_of_split b l) as E. rewrite H in E.
  rewrite skipn_all, app_nil_r in E. exact E.
Qed.

Lemma two_runs a b (Hab : cmp_uint a b <= 0) i : forall j,
  order_is_ascending cmp_uint (repeat a i ++ repeat b j) = true.
Proof.
  assert (Ra : forall x, cmp_uint x x <= 0).
  { intros x. unfold cmp_uint. rewrite cmpZ_le. lia. }
  assert (Hb : forall j, order_is_ascending cmp_uint (repeat b j) = true).
  { unfold order_is_ascending. induction j as [|[|j] IH]; try reflexivity.
    change (repeat b (S (S j))) with (b :: b :: repeat b j).
    rewrite no_adjacent_cons. change (b :: repeat b j) with (repeat b (S j)). rewrite IH.
    specialize (Ra b). destruct (Z.gtb_spec (cmp_uint b b) 0); [lia|reflexivity]. }
  unfold order_is_ascending in *.
  induction i as [|[|i] IH]; intros j.
  - apply Hb.
  - cbn [repeat app]. destruct j as [|j]; [reflexivity|].
    change (repeat b (S j)) with (b :: repeat b j). rewrite no_adjacent_cons.
    change (b :: repeat b j) with (repeat b (S j)). rewrite Hb.
    destruct (Z.gtb_spec (cmp_uint a b) 0); [lia|reflexivity].
  - change (repeat a (S (S i)) ++ repeat b j) with (a :: a :: (repeat a i ++ repeat b j)).
    rewrite no_adjacent_cons.
    change (a :: repeat a i ++ repeat b j) with (repeat a (S i) ++ repeat b j). rewrite IH.
    specialize (Ra a). destruct (Z.gtb_spec (cmp_uint a a) 0); [lia|reflexivity].
Qed.

Lemma two_runs_desc a b (Hab : cmp_uint b a <= 0) i j :
  order_is_descending cmp_uint (repeat a i ++ repeat b j) = true.
Proof.
  rewrite (descending_is_flipped_ascending N cmp_uint no_nan cmp_uint_opp
             (no_nan_trans N cmp_uint cmp_uint_trans) (no_nan_nan N cmp_uint)).
  assert (Ra : forall x, cmp_uint x x <= 0).
  { intros x. unfold cmp_uint. rewrite cmpZ_le. lia. }
  assert (Hb : forall j, order_is_ascending (flip N cmp_uint) (repeat b j) = true).
  { unfold order_is_ascending, flip. clear j. induction j as [|[|j] IH]; try reflexivity.
    change (repeat b (S (S j))) with (b :: b :: repeat b j).
    rewrite no_adjacent_cons. change (b :: repeat b j) with (repeat b (S j)). rewrite IH.
    specialize (Ra b). destruct (Z.gtb_spec (cmp_uint b b) 0); [lia|reflexivity]. }
  unfold order_is_ascending, flip in *. revert j.
  induction i as [|[|i] IH]; intros j.
  - apply Hb.
  - cbn [repeat app]. destruct j as [|j]; [reflexivity|].
    change (repeat b (S j)) with (b :: repeat b j). rewrite no_adjacent_cons.
    change (b :: repeat b j) with (repeat b (S j)). rewrite Hb.
    destruct (Z.gtb_spec (cmp_uint b a) 0); [lia|reflexivity].
  - change (repeat a (S (S i)) ++ repeat b j) with (a :: a :: (repeat a i ++ repeat b j)).
    rewrite no_adjacent_cons.
    change (a :: repeat a i ++ repeat b j) with (repeat a (S i) ++ repeat b j). rewrite IH.
    specialize (Ra a). destruct (Z.gtb_spec (cmp_uint a a) 0); [lia|reflexivity].
Qed.

Lemma order_of_bool_range l :
  order_of_bool l = 1 \/ order_of_bool l = -1 \/ order_of_bool l = 0.
Proof.
  unfold order_of_bool. destruct (length l <=? 1)%nat; [auto|].
  destruct l as [|d0 r]; [auto|].
  destruct (d0 =? 1)%N.
  - destruct (streak_of 1%N (d0 :: r) =? length (d0 :: r))%nat.
    + destruct (_ =? _)%nat; auto.
    + destruct (_ =? _)%nat; auto.
  - destruct (_ =? _)%nat; auto.
Qed.

Lemma order_of_bool_sound : order_sound N cmp_uint order_of_bool.
Proof.
  intros l. unfold order_of_bool. destruct (length l <=? 1)%nat; [split; discriminate|].
  destruct l as [|d0 r]; [split; discriminate|].
  set (data := d0 :: r).
  assert (C01 : cmp_uint 0 1 <= 0) by (unfold cmp_uint; rewrite cmpZ_le; lia).
  destruct (d0 =? 1)%N.
  - destruct (Nat.eqb_spec (streak_of 1%N data) (length data)) as [E|NE].
    + rewrite E, Nat.eqb_refl. split; [|discriminate]. intros _.
      rewrite (streak_full _ _ E). rewrite <- (app_nil_r (repeat 1%N (length data))).
      apply (two_runs 1%N 1%N ltac:(unfold cmp_uint; rewrite cmpZ_le; lia) (length data) O).
    + destruct (Nat.eqb_spec (streak_of 1%N data + streak_of 0%N (skipn (streak_of 1%N data) data))
                             (length data)) as [E|NE2]; [|split; discriminate].
      split; [discriminate|]. intros _.
      pose proof (streak_of_split 1%N data) as S1.
      set (i := streak_of 1%N data) in *.
      assert (Ls : length (skipn i data) = (length data - i)%nat) by apply skipn_length.
      assert (F : streak_of 0%N (skipn i data) = length (skipn i data)) by lia.
      rewrite S1, (streak_full _ _ F). apply two_runs_desc. exact C01.
  - destruct (Nat.eqb_spec (streak_of 0%N data + streak_of 1%N (skipn (streak_of 0%N data) data))
                           (length data)) as [E|NE]; [|split; discriminate].
    split; [|discriminate]. intros _.
    pose proof (streak_of_split 0%N data) as S1.
    set (i := streak_of 0%N data) in *.
    assert (Ls : length (skipn i data) = (length data - i)%nat) by apply skipn_length.
    assert (F : streak_of 1%N (skipn i data) = length (skipn i data)) by lia.
    rewrite S1, (streak_full _ _ F). apply two_runs. exact C01.
Qed.

(** every numeric kind *)
Lemma order_num_sound k : order_sound N (cmp_num k) (order_num k).
Proof.
  destruct k; cbn [order_num cmp_num];
    first [exact order_of_bool_sound
          | apply order_nan_guard_sound; apply order_of_sound
          | apply order_of_sound].
Qed.

Lemma order_num_range k l : order_num k l = 1 \/ order_num k l = -1 \/ order_num k l = 0.
Proof.
  destruct k; cbn [order_num];
    first [apply order_of_bool_range
          | unfold order_nan_guard; destruct (existsb _ l); [auto|apply order_of_range]
          | apply order_of_range].
Qed.

Lemma order_num_nan_free k l : order_num k l <> 0 -> Forall (fun x => nan_num k x = false) l.
Proof.
  destruct k; cbn [order_num nan_num]; intros H;
    first [apply order_nan_guard_free in H; exact H | apply forall_const_false].
Qed.

(** * The FIXED_LEN_BYTE_ARRAY indexer is the generic one *)
Lemma split_fixed_fuel_concat size chunks :
  Forall (fun c => length c = size) chunks ->
  split_fixed_fuel (length chunks) size (concat chunks) = chunks.
Proof.
  induction 1 as [|c chunks Hc F IH]; cbn [length split_fixed_fuel concat]; [reflexivity|].
  rewrite firstn_app, skipn_app, Hc, Nat.sub_diag, <- Hc, firstn_all, skipn_all.
  cbn [firstn skipn app]. rewrite app_nil_r, Hc, IH. reflexivity.
Qed.

Lemma concat_length_fixed size (chunks : list bytes) :
  Forall (fun c => length c = size) chunks ->
  length (concat chunks) = (length chunks * size)%nat.
Proof.
  induction 1 as [|c chunks Hc F IH]; cbn [concat length]; [reflexivity|].
  rewrite app_length, IH, Hc. lia.
Qed.

Lemma split_fixed_concat size chunks : (0 < size)%nat ->
  Forall (fun c => length c = size) chunks ->
  split_fixed size (concat chunks) = chunks.
Proof.
  intros Hs F. unfold split_fixed.
  rewrite (concat_length_fixed size chunks F), Nat.div_mul by lia.
  apply split_fixed_fuel_concat. exact F.
Qed.

Definition flba_page_ok (size : nat) (p : page_info bytes) : Prop :=
  match pi_bounds p with
  | Some (mn, mx) => length mn = size /\ length mx = size
  | None => True
  end.

Lemma fold_flba_index_page pinned size ps : forall ix,
  fold_left (flba_index_page pinned size) ps ix =
  {| fx_null_pages := fx_null_pages ix ++ map (fun p => pi_num_values p =? pi_num_nulls p) ps;
     fx_null_counts := fx_null_counts ix ++ map (@pi_num_nulls bytes) ps;
     fx_mins := fx_mins ix ++ concat (map (fun p => match pi_bounds p with Some (mn, _) => mn
                                                     | None => if pinned then [] else zeros size end) ps);
     fx_maxs := fx_maxs ix ++ concat (map (fun p => match pi_bounds p with Some (_, mx) => mx
                                                     | None => if pinned then [] else zeros size end) ps) |}.
Proof.
  induction ps as [|p ps IH]; intros ix; cbn [fold_left map concat].
  - rewrite !app_nil_r. destruct ix; reflexivity.
  - rewrite IH. unfold flba_index_page. cbn [fx_null_pages fx_null_counts fx_mins fx_maxs].
    rewrite <- !app_assoc. cbn [app]. reflexivity.
Qed.

Definition flba_tmin (limit : nat) (v : bytes) : bytes :=
  if (0 <? limit)%nat then truncate_min limit v else v.
Definition flba_tmax (limit : nat) (v : bytes) : bytes :=
  if (0 <? limit)%nat then truncate_max limit v else v.

Theorem flba_indexer_generic size limit ps : (0 < size)%nat ->
  Forall (flba_page_ok size) ps ->
  flba_index_pages false size limit ps =
  index_pages (zeros size) (flba_tmin limit) (flba_tmax limit) order_of_bytes ps.
Proof.
  intros Hs F. rewrite index_pages_maps.
  unfold flba_index_pages, flba_column_index. rewrite fold_flba_index_page.
  cbn [flba_empty fx_null_pages fx_null_counts fx_mins fx_maxs app].
  rewrite !split_fixed_concat; try exact Hs.
  - unfold entry_min, entry_max, flba_tmin, flba_tmax.
    destruct (0 <? limit)%nat; rewrite ?map_map; reflexivity.
  - rewrite Forall_map. eapply Forall_impl; [|exact F]. intros p Hp. unfold flba_page_ok in Hp. unfold bytes in *.
    destruct (pi_bounds p) as [[mn mx]|]; [destruct Hp; assumption|]. apply repeat_length.
  - rewrite Forall_map. eapply Forall_impl; [|exact F]. intros p Hp. unfold flba_page_ok in Hp. unfold bytes in *.
    destruct (pi_bounds p) as [[mn mx]|]; [destruct Hp; assumption|]. apply repeat_length.
Qed.

Lemma flba_tmin_lower limit v : cmp_bytes (flba_tmin limit v) v <= 0.
Proof.
  unfold flba_tmin. destruct (0 <? limit)%nat; [apply truncate_min_lower|].
  rewrite cmp_bytes_refl. lia.
Qed.
Lemma flba_tmax_upper limit v : wf_bytes v -> cmp_bytes v (flba_tmax limit v) <= 0.
Proof.
  intros W. unfold flba_tmax. destruct (0 <? limit)%nat; [apply truncate_max_upper; exact W|].
  rewrite cmp_bytes_refl. lia.
Qed.

(** * Counts of a page built from its values *)
Fixpoint count_nulls {V} (l : list (option V)) : nat :=
  match l with
  | [] => O
  | None :: r => S (count_nulls r)
  | Some _ :: r => count_nulls r
  end.

Lemma non_nulls_length V (l : list (option V)) :
  length l = (length (non_nulls l) + count_nulls l)%nat.
Proof. induction l as [|[x|] r IH]; cbn; lia. Qed.

Lemma page_of_values_counts V cmp nan sw (l : list (option V)) :
  let p := page_of_values cmp nan sw l in
  pi_num_values p = Z.of_nat (length l) /\
  pi_num_nulls p = Z.of_nat (count_nulls l) /\
  ((pi_num_values p =? pi_num_nulls p) = true <-> Forall (fun o => o = None) l).
Proof.
  cbn. pose proof (non_nulls_length V l) as E. repeat split.
  - f_equal. lia.
  - intros H. apply Z.eqb_eq in H. assert (L : length (non_nulls l) = O) by lia.
    clear -L. induction l as [|[x|] r IH]; cbn in *; try discriminate; constructor; auto.
  - intros F. apply Z.eqb_eq. f_equal.
    assert (L : length (non_nulls l) = O).
    { clear -F. induction F as [|o r Ho F IH]; cbn; [reflexivity|]. subst. exact IH. }
    lia.
Qed.

(** * Level histograms *)
Lemma incr_at_length k h : length (incr_at k h) = length h.
Proof.
  revert k. induction h as [|x r IH]; intros [|k]; cbn; auto.
Qed.

Lemma incr_at_nth k h : forall j,
  nth j (incr_at k h) 0 = if (j =? k)%nat && (k <? length h)%nat then nth j h 0 + 1 else nth j h 0.
Proof.
  revert k. induction h as [|x r IH]; intros k j.
  - destruct k; cbn; destruct j; cbn; rewrite ?andb_false_r; reflexivity.
  - destruct k as [|k]; destruct j as [|j]; cbn [incr_at nth length]; try reflexivity.
    rewrite IH. change (S j =? S k)%nat with (j =? k)%nat.
    change (S k <? S (length r))%nat with (k <? length r)%nat. reflexivity.
Qed.

Theorem level_histograms_exact max_level column levels :
  length column = S max_level -> Forall (fun l => (l <= max_level)%nat) levels ->
  let (col, pg) := level_histograms max_level column levels in
  forall k, nth k col 0 = nth k column 0 + Z.of_nat (count_occ Nat.eq_dec levels k) /\
            nth k pg 0 = Z.of_nat (count_occ Nat.eq_dec levels k).
Proof.
  intros Hc F. unfold level_histograms.
  assert (G : forall levels col pg, length col = S max_level -> length pg = S max_level ->
            Forall (fun l => (l <= max_level)%nat) levels ->
            let (col', pg') := fold_left (fun '(col, pg) l => (incr_at l col, incr_at l pg)) levels (col, pg) in
            forall k, nth k col' 0 = nth k col 0 + Z.of_nat (count_occ Nat.eq_dec levels k) /\
                      nth k pg' 0 = nth k pg 0 + Z.of_nat (count_occ Nat.eq_dec levels k)).
  { clear. induction levels as [|l levels IH]; intros col pg Lc Lp F; cbn [fold_left count_occ].
    - intros k. lia.
    - inversion F; subst.
      specialize (IH (incr_at l col) (incr_at l pg) ltac:(rewrite incr_at_length; exact Lc)
                     ltac:(rewrite incr_at_length; exact Lp) H2).
      destruct (fold_left _ levels _) as [col' pg']. intros k. destruct (IH k) as [I1 I2].
      rewrite I1, I2, !incr_at_nth, Lc, Lp.
      assert (Hl : (l <? S max_level)%nat = true) by (apply Nat.ltb_lt; lia). rewrite Hl, andb_true_r.
      destruct (Nat.eq_dec l k) as [->|Hne].
      + rewrite Nat.eqb_refl. lia.
      + destruct (Nat.eqb_spec k l); [lia|]. lia. }
  specialize (G levels column (repeat 0 (S max_level)) Hc (repeat_length _ _) F).
  destruct (fold_left _ levels _) as [col pg]. intros k. destruct (G k) as [G1 G2].
  split; [exact G1|]. rewrite G2.
  assert (nth k (repeat 0 (S max_level)) 0 = 0).
  { clear. generalize (S max_level). intros n. revert k. induction n; intros [|k]; cbn; auto. }
  lia.
Qed.
