(** Executable model of the column index of a MultiRowGroup column chunk:
    multi_row_group.go multiColumnIndex.  Its pages are the pages of the
    column indexes of the chunks, one chunk after the other (mapPageIndex);
    IsAscending / IsDescending are computed by isOrdered from what the indexes
    of the chunks claim and from the bounds on both sides of every chunk
    boundary.  An index is given in the shape of Search/Model.v: a page is
    [None] when it is a null page and [Some (min, max)] otherwise.
    No proofs here (Stats/MultiProofs.v). *)
From Coq Require Import List ZArith Bool.
From PQ Require Import Search.Model.
Import ListNotations.
Open Scope Z_scope.

Section Multi.
  Variable V : Type.
  Variable cmp : V -> V -> Z.

  (* "firstPage := 0; for firstPage < numPages && index.NullPage(firstPage) { firstPage++ }":
     the bounds of the first non-null page, None when every page is a null page
     ("if firstPage == numPages { continue }") *)
  Fixpoint first_nonnull (idx : index V) : option (V * V) :=
    match idx with
    | [] => None
    | Some b :: _ => Some b
    | None :: r => first_nonnull r
    end.

  (* "lastPage := numPages - 1; for index.NullPage(lastPage) { lastPage-- }" *)
  Definition last_nonnull (idx : index V) : option (V * V) := first_nonnull (rev idx).

  (* the second loop of isOrdered; [prev]: "havePrev, prev" *)
  Fixpoint boundaries_ordered (ascending : bool) (prev : option V) (chunks : list (index V)) : bool :=
    match chunks with
    | [] => true
    | idx :: rest =>
        match first_nonnull idx, last_nonnull idx with
        | Some (fmin, fmax), Some (lmin, lmax) =>
            if ascending then
              (* "if havePrev && cmp(prev, index.MinValue(firstPage)) > 0 { return false }
                  prev = index.MaxValue(lastPage)" *)
              match prev with
              | Some p => if cmp p fmin >? 0 then false else boundaries_ordered ascending (Some lmax) rest
              | None => boundaries_ordered ascending (Some lmax) rest
              end
            else
              (* "if havePrev && cmp(prev, index.MaxValue(firstPage)) < 0 { return false }
                  prev = index.MinValue(lastPage)" *)
              match prev with
              | Some p => if cmp p fmax <? 0 then false else boundaries_ordered ascending (Some lmin) rest
              | None => boundaries_ordered ascending (Some lmin) rest
              end
        | _, _ => boundaries_ordered ascending prev rest      (* only null pages: skipped *)
        end
    end.

  (* isOrdered(ordered, sign): [claims] = ordered(index) of every chunk
     (ColumnIndex.IsAscending for sign > 0, IsDescending otherwise) *)
  Definition multi_is_ordered (ascending : bool) (claims : list bool) (chunks : list (index V)) : bool :=
    match chunks with
    | [] => false                                            (* "if len(m.indexes) == 0 { return false }" *)
    | _ => forallb (fun b => b) claims && boundaries_ordered ascending None chunks
    end.

  (* the pages of the multi index: NumPages / NullPage / MinValue / MaxValue through mapPageIndex *)
  Definition multi_pages (chunks : list (index V)) : index V := concat chunks.
End Multi.

Arguments first_nonnull {V}.
Arguments last_nonnull {V}.
Arguments boundaries_ordered {V}.
Arguments multi_is_ordered {V}.
Arguments multi_pages {V}.
