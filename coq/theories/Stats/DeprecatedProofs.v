(** Proofs about Stats/Deprecated.v: the deprecated min / max of the column
    chunk statistics are the chunk's min_value / max_value when the option is
    set (whatever the pages: also when a later page moves a bound), absent
    otherwise; hence they are bounds whenever min_value / max_value are. *)
From Coq Require Import List NArith ZArith Bool.
From PQ Require Import Base.Bytes Search.Model Search.Proofs Stats.Order Stats.OrderProofs Stats.Model Stats.Proofs Stats.Instances Stats.Kinds Stats.Deprecated.
Import ListNotations.
Open Scope Z_scope.

Section Deprecated.
  Variable V : Type.
  Variable cmp : V -> V -> Z.
  Variable nan : V -> bool.

  Lemma record_page_dep_inv : forall dep st p,
    record_page_dep cmp nan dep (st, dep_of_bounds dep (cs_bounds st)) p =
    (record_page cmp nan st p, dep_of_bounds dep (cs_bounds (record_page cmp nan st p))).
  Proof.
    intros dep st p. unfold record_page_dep, record_page, record_page_gen, dep_of_bounds.
    destruct (pi_bounds p) as [[mn mx]|]; destruct (cs_bounds st) as [[emn emx]|]; destruct dep; simpl; try reflexivity.
    destruct (replaces_nan_bound nan mx emx || (cmp mx emx >? 0));
    destruct (replaces_nan_bound nan mn emn || (cmp mn emn <? 0)); reflexivity.
  Qed.

  Lemma fold_dep_inv : forall dep ps st,
    fold_left (record_page_dep cmp nan dep) ps (st, dep_of_bounds dep (cs_bounds st)) =
    (fold_left (record_page cmp nan) ps st,
     dep_of_bounds dep (cs_bounds (fold_left (record_page cmp nan) ps st))).
  Proof.
    intros dep ps. induction ps as [|p ps IH]; intros st; cbn [fold_left].
    - reflexivity.
    - rewrite record_page_dep_inv. apply IH.
  Qed.

  Lemma chunk_fold_dep_spec : forall dep ps,
    chunk_fold_dep cmp nan dep ps =
    (chunk_fold cmp nan ps, dep_of_bounds dep (cs_bounds (chunk_fold cmp nan ps))).
  Proof.
    intros dep ps. unfold chunk_fold_dep, chunk_fold.
    replace (@None V, @None V) with (dep_of_bounds dep (cs_bounds (@chunk_empty V))).
    - apply fold_dep_inv.
    - unfold dep_of_bounds. destruct dep; reflexivity.
  Qed.
End Deprecated.

Lemma dep_true_match (V : Type) (P : V -> V -> Prop) (Q : Prop) (b : option (V * V)) :
  match b with Some (mn, mx) => P mn mx | None => Q end ->
  match dep_of_bounds true b with (Some mn, Some mx) => P mn mx | (None, None) => Q | _ => False end.
Proof. destruct b as [[mn mx]|]; simpl; auto. Qed.

Lemma chunk_dep_num_spec : forall k dep ps,
  chunk_dep_num k dep ps = dep_of_bounds dep (cs_bounds (chunk_num k ps)).
Proof. intros. unfold chunk_dep_num, chunk_num. rewrite chunk_fold_dep_spec. reflexivity. Qed.

Lemma chunk_dep_byte_spec : forall k dep ps,
  chunk_dep_byte k dep ps = dep_of_bounds dep (cs_bounds (chunk_byte k ps)).
Proof. intros. unfold chunk_dep_byte, chunk_byte. rewrite chunk_fold_dep_spec. reflexivity. Qed.

Theorem num_chunk_deprecated_sound k ps valss :
  Forall2 (page_sound N (cmp_num k) (nan_num k)) ps valss ->
  match chunk_dep_num k true ps with
  | (Some mn, Some mx) =>
      within N (cmp_num k) (nan_num k) mn mx (concat valss) /\
      In mn (concat valss) /\ In mx (concat valss) /\
      (has_value N (nan_num k) (concat valss) -> nan_num k mn = false /\ nan_num k mx = false)
  | (None, None) => concat valss = []
  | _ => False
  end.
Proof.
  intros F. rewrite chunk_dep_num_spec. pose proof (num_chunk_stats_sound k ps valss F) as H.
  unfold dep_of_bounds. destruct (cs_bounds (chunk_num k ps)) as [[mn mx]|]; exact H.
Qed.

Theorem bytes_chunk_deprecated_sound ps valss :
  Forall2 (page_sound bytes cmp_bytes (fun _ => false)) ps valss ->
  match chunk_dep_byte BBytes true ps with
  | (Some mn, Some mx) =>
      within bytes cmp_bytes (fun _ => false) mn mx (concat valss) /\ In mn (concat valss) /\ In mx (concat valss)
  | (None, None) => concat valss = []
  | _ => False
  end.
Proof.
  intros F. rewrite chunk_dep_byte_spec. pose proof (bytes_chunk_stats_sound ps valss F) as H.
  change (chunk_fold cmp_bytes no_nan ps) with (chunk_byte BBytes ps) in H.
  exact (dep_true_match bytes (fun mn mx => within bytes cmp_bytes (fun _ => false) mn mx (concat valss) /\ In mn (concat valss) /\ In mx (concat valss))
           (concat valss = []) _ H).
Qed.

Theorem chunk_deprecated_absent_num k ps : chunk_dep_num k false ps = (None, None).
Proof. rewrite chunk_dep_num_spec. reflexivity. Qed.
Theorem chunk_deprecated_absent_byte k ps : chunk_dep_byte k false ps = (None, None).
Proof. rewrite chunk_dep_byte_spec. reflexivity. Qed.
