(** C14 — writer side proofs about Sink/Model.v. *)
From Coq Require Import List Arith Bool NArith Lia.
From Coq Require Import ZifyN ZifyNat ZifyBool.
From PQ Require Import Sink.Model.
Import ListNotations.
Open Scope N_scope.

Lemma is_err_none : forall e, is_err e = false <-> e = ENone.
Proof. destruct e; cbn; split; congruence. Qed.

Lemma is_err_true : forall e, is_err e = true <-> e <> ENone.
Proof. destruct e; cbn; split; congruence. Qed.

Section SinkProofs.
  Variable A : Type.

  Notation sink := (sink A).
  Notation bufw := (bufw A).
  Notation st := (st A).
  Notation nlen := (nlen A).
  Notation frev := (frev A).
  Notation sink_bytes := (sink_bytes A).
  Notation content := (content A).

  (** *** lists *)
  Lemma frev_rev : forall l : list A, frev l = rev l.
  Proof. intros. unfold Model.frev. rewrite rev_append_rev. apply app_nil_r. Qed.

  Lemma nlen_app : forall a b : list A, nlen (a ++ b) = nlen a + nlen b.
  Proof. intros. unfold Model.nlen. rewrite app_length. lia. Qed.

  Lemma nlen_nil : nlen [] = 0.
  Proof. reflexivity. Qed.

  Lemma nlen_zero : forall l : list A, nlen l = 0 -> l = [].
  Proof. intros [|x l]; cbn; [reflexivity|]. unfold Model.nlen. cbn. lia. Qed.

  Lemma nlen_rev : forall l : list A, nlen (rev l) = nlen l.
  Proof. intros. unfold Model.nlen. now rewrite rev_length. Qed.

  Lemma nlen_frev : forall l : list A, nlen (frev l) = nlen l.
  Proof. intros. rewrite frev_rev. apply nlen_rev. Qed.

  Lemma nlen_rev_append : forall a b : list A, nlen (rev_append a b) = nlen a + nlen b.
  Proof. intros. rewrite rev_append_rev, nlen_app, nlen_rev. reflexivity. Qed.

  Lemma nlen_firstn : forall (n : N) (l : list A), n <= nlen l -> nlen (firstn (N.to_nat n) l) = n.
  Proof. intros. unfold Model.nlen in *. rewrite firstn_length. lia. Qed.

  Lemma nlen_skipn : forall (n : N) (l : list A), nlen (skipn (N.to_nat n) l) = nlen l - n.
  Proof. intros. unfold Model.nlen. rewrite skipn_length. lia. Qed.

  Lemma firstn_nlen : forall l : list A, firstn (N.to_nat (nlen l)) l = l.
  Proof. intros. unfold Model.nlen. rewrite Nat2N.id. apply firstn_all. Qed.

  Lemma skipn_nlen : forall l : list A, skipn (N.to_nat (nlen l)) l = [].
  Proof. intros. unfold Model.nlen. rewrite Nat2N.id. apply skipn_all. Qed.

  Lemma frev_rev_append : forall a b : list A, frev (rev_append a b) = frev b ++ a.
  Proof.
    intros. rewrite !frev_rev, rev_append_rev, rev_app_distr, rev_involutive. reflexivity.
  Qed.

  (* firstn (a+b) l = firstn a l ++ firstn b (skipn a l) *)
  Lemma firstn_add : forall (a b : nat) (l : list A),
    firstn (a + b) l = firstn a l ++ firstn b (skipn a l).
  Proof.
    induction a; intros; cbn; [reflexivity|].
    destruct l; cbn; [now rewrite firstn_nil|]. now rewrite IHa.
  Qed.

  Lemma skipn_add : forall (a b : nat) (l : list A), skipn (a + b) l = skipn b (skipn a l).
  Proof.
    induction a; intros; cbn; [reflexivity|].
    destruct l; cbn; [now rewrite skipn_nil|]. apply IHa.
  Qed.

  (** *** the destination *)
  Definition wf_sink (s : sink) : Prop :=
    s_pos s = nlen (s_rev s) /\
    match s_flt s with
    | NoFault => True
    | ErrAt k => s_pos s <= k
    | ShortAt k => s_fired s = false -> s_pos s <= k
    end.

  Lemma sink_bytes_accept : forall (s : sink) p f,
    sink_bytes (sink_accept A s p f) = sink_bytes s ++ p.
  Proof. intros. unfold Model.sink_bytes, sink_accept. cbn. apply frev_rev_append. Qed.

  Record sink_write_post (s : sink) (p : list A) (s' : sink) (n : N) (e : err) : Prop := {
    sw_wf : wf_sink s';
    sw_flt : s_flt s' = s_flt s;
    sw_le : n <= nlen p;
    sw_bytes : sink_bytes s' = sink_bytes s ++ firstn (N.to_nat n) p;
    sw_pos : s_pos s' = s_pos s + n;
    sw_noshort : e <> EShort;
    sw_full : e = ENone -> n = nlen p \/ (n < nlen p /\ s_fired s = false /\ s_fired s' = true);
    sw_fired : s_fired s' = s_fired s \/ (n < nlen p /\ e = ENone /\ s_fired s' = true);
    sw_sink : e = ESink -> n < nlen p /\ exists k, s_flt s = ErrAt k;
    sw_nofault : s_flt s = NoFault -> e = ENone
  }.

  Lemma sink_write_spec : forall (s : sink) p s' n e,
    wf_sink s -> sink_write A s p = (s', n, e) -> sink_write_post s p s' n e.
  Proof.
    intros s p s' n e [Hpos Hf] H. unfold sink_write in H.
    assert (Hall : forall f, wf_sink (sink_accept A s p f) \/ True) by (intros; right; exact I).
    clear Hall.
    destruct (s_flt s) as [|k|k] eqn:Ef.
    - inversion H; subst; clear H. split.
      + split; cbn; [rewrite nlen_rev_append; lia | rewrite Ef; exact I].
      + reflexivity.
      + lia.
      + rewrite sink_bytes_accept, firstn_nlen. reflexivity.
      + reflexivity.
      + congruence.
      + intros _. left. reflexivity.
      + left. reflexivity.
      + congruence.
      + reflexivity.
    - destruct (s_pos s + nlen p <=? k) eqn:Ele.
      + inversion H; subst; clear H. split.
        * split; cbn; [rewrite nlen_rev_append; lia | rewrite Ef; lia].
        * reflexivity.
        * lia.
        * rewrite sink_bytes_accept, firstn_nlen. reflexivity.
        * reflexivity.
        * congruence.
        * intros _. left. reflexivity.
        * left. reflexivity.
        * congruence.
        * reflexivity.
      + inversion H; subst; clear H.
        assert (Hn : k - s_pos s <= nlen p) by lia.
        split.
        * split; cbn; [rewrite nlen_rev_append, nlen_firstn by lia; lia | rewrite Ef, nlen_firstn by lia; lia].
        * reflexivity.
        * lia.
        * rewrite sink_bytes_accept. reflexivity.
        * cbn. rewrite nlen_firstn by lia. reflexivity.
        * congruence.
        * congruence.
        * left. reflexivity.
        * intros _. split; [lia|]. exists k. reflexivity.
        * congruence.
    - destruct (s_fired s || (s_pos s + nlen p <=? k)) eqn:Ele.
      + inversion H; subst; clear H. split.
        * split; cbn; [rewrite nlen_rev_append; lia | rewrite Ef]. intros Hfi. rewrite Hfi in Ele. cbn in Ele. specialize (Hf Hfi). lia.
        * reflexivity.
        * lia.
        * rewrite sink_bytes_accept, firstn_nlen. reflexivity.
        * reflexivity.
        * congruence.
        * intros _. left. reflexivity.
        * left. reflexivity.
        * congruence.
        * reflexivity.
      + apply orb_false_iff in Ele. destruct Ele as [Hfi Hle].
        inversion H; subst; clear H.
        assert (Hk : s_pos s <= k) by (apply Hf; exact Hfi).
        assert (Hn : k - s_pos s < nlen p) by lia.
        split.
        * split; cbn; [rewrite nlen_rev_append, nlen_firstn by lia; lia | rewrite Ef]. intros Hc. discriminate Hc.
        * reflexivity.
        * lia.
        * rewrite sink_bytes_accept. reflexivity.
        * cbn. rewrite nlen_firstn by lia. reflexivity.
        * congruence.
        * intros _. right. split; [lia|]. split; [exact Hfi | reflexivity].
        * right. split; [lia|]. split; reflexivity.
        * congruence.
        * congruence.
  Qed.
End SinkProofs.
