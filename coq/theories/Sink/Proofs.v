(** C14 — writer side proofs about Sink/Model.v. *)
From Coq Require Import List Arith Bool NArith Lia.
From Coq Require Import ZifyN ZifyNat ZifyBool.
From PQ Require Import Sink.Model.
Import ListNotations.
Open Scope N_scope.

Lemma is_err_none : forall e, is_err e = false <-> e = ENone.
Proof. destruct e; cbn; split; congruence. Qed.

Lemma is_err_true : forall e, is_err e = true <-> e <> ENone.
Proof. destruct e; cbn; split; congruence. Qed.

Arguments Model.frev : simpl never.
Arguments Model.nlen : simpl never.

Section SinkProofs.
  Variable A : Type.

  Notation sink := (sink A).
  Notation bufw := (bufw A).
  Notation st := (st A).
  Notation nlen := (nlen A).
  Notation frev := (frev A).
  Notation sink_bytes := (sink_bytes A).
  Notation content := (content A).

  (** *** lists *)
  Lemma frev_rev : forall l : list A, frev l = rev l.
  Proof. intros. unfold Model.frev. rewrite rev_append_rev. apply app_nil_r. Qed.

  Lemma nlen_app : forall a b : list A, nlen (a ++ b) = nlen a + nlen b.
  Proof. intros. unfold Model.nlen. rewrite app_length. lia. Qed.

  Lemma nlen_nil : nlen [] = 0.
  Proof. reflexivity. Qed.

  Lemma nlen_zero : forall l : list A, nlen l = 0 -> l = [].
  Proof. intros [|x l]; cbn; [reflexivity|]. unfold Model.nlen. cbn. lia. Qed.

  Lemma nlen_rev : forall l : list A, nlen (rev l) = nlen l.
  Proof. intros. unfold Model.nlen. now rewrite rev_length. Qed.

  Lemma nlen_frev : forall l : list A, nlen (frev l) = nlen l.
  Proof. intros. rewrite frev_rev. apply nlen_rev. Qed.

  Lemma nlen_rev_append : forall a b : list A, nlen (rev_append a b) = nlen a + nlen b.
  Proof. intros. rewrite rev_append_rev, nlen_app, nlen_rev. reflexivity. Qed.

  Lemma nlen_firstn : forall (n : N) (l : list A), n <= nlen l -> nlen (firstn (N.to_nat n) l) = n.
  Proof. intros. unfold Model.nlen in *. rewrite firstn_length. lia. Qed.

  Lemma nlen_skipn : forall (n : N) (l : list A), nlen (skipn (N.to_nat n) l) = nlen l - n.
  Proof. intros. unfold Model.nlen. rewrite skipn_length. lia. Qed.

  Lemma firstn_nlen : forall l : list A, firstn (N.to_nat (nlen l)) l = l.
  Proof. intros. unfold Model.nlen. rewrite Nat2N.id. apply firstn_all. Qed.

  Lemma skipn_nlen : forall l : list A, skipn (N.to_nat (nlen l)) l = [].
  Proof. intros. unfold Model.nlen. rewrite Nat2N.id. apply skipn_all. Qed.

  Lemma frev_rev_append : forall a b : list A, frev (rev_append a b) = frev b ++ a.
  Proof.
    intros. rewrite !frev_rev, rev_append_rev, rev_app_distr, rev_involutive. reflexivity.
  Qed.

  (* firstn (a+b) l = firstn a l ++ firstn b (skipn a l) *)
  Lemma firstn_add : forall (a b : nat) (l : list A),
    firstn (a + b) l = firstn a l ++ firstn b (skipn a l).
  Proof.
    induction a; intros; cbn; [reflexivity|].
    destruct l; cbn; [now rewrite firstn_nil|]. now rewrite IHa.
  Qed.

  Lemma skipn_add : forall (a b : nat) (l : list A), skipn (a + b) l = skipn b (skipn a l).
  Proof.
    induction a; intros; cbn; [reflexivity|].
    destruct l; cbn; [now rewrite skipn_nil|]. apply IHa.
  Qed.

  (** *** the destination *)
  Definition wf_sink (s : sink) : Prop :=
    s_pos s = nlen (s_rev s) /\
    match s_flt s with
    | NoFault => True
    | ErrAt k => s_pos s <= k
    | ShortAt k => s_fired s = false -> s_pos s <= k
    | FullErrAt _ => True
    end.

  Lemma sink_bytes_accept : forall (s : sink) p f,
    sink_bytes (sink_accept A s p f) = sink_bytes s ++ p.
  Proof. intros. unfold Model.sink_bytes, sink_accept. cbn. apply frev_rev_append. Qed.

  Record sink_write_post (s : sink) (p : list A) (s' : sink) (n : N) (e : err) : Prop := {
    sw_wf : wf_sink s';
    sw_flt : s_flt s' = s_flt s;
    sw_le : n <= nlen p;
    sw_bytes : sink_bytes s' = sink_bytes s ++ firstn (N.to_nat n) p;
    sw_pos : s_pos s' = s_pos s + n;
    sw_noshort : e <> EShort;
    sw_full : e = ENone -> n = nlen p \/ (n < nlen p /\ s_fired s = false /\ s_fired s' = true);
    sw_fired : s_fired s' = s_fired s \/ (n < nlen p /\ e = ENone /\ s_fired s' = true);
    sw_sink : e = ESink -> (n < nlen p /\ exists k, s_flt s = ErrAt k) \/
                           (n = nlen p /\ exists k, s_flt s = FullErrAt k /\ s_pos s < k <= s_pos s + n);
    sw_nofault : s_flt s = NoFault -> e = ENone
  }.

  Lemma sink_write_spec : forall (s : sink) p s' n e,
    wf_sink s -> sink_write A s p = (s', n, e) -> sink_write_post s p s' n e.
  Proof.
    intros s p s' n e [Hpos Hf] H. unfold sink_write in H.
    assert (Hall : forall f, wf_sink (sink_accept A s p f) \/ True) by (intros; right; exact I).
    clear Hall.
    destruct (s_flt s) as [|k|k|k] eqn:Ef.
    - inversion H; subst; clear H. split.
      + split; cbn; [rewrite nlen_rev_append; lia | rewrite Ef; exact I].
      + reflexivity.
      + lia.
      + rewrite sink_bytes_accept, firstn_nlen. reflexivity.
      + reflexivity.
      + congruence.
      + intros _. left. reflexivity.
      + left. reflexivity.
      + congruence.
      + reflexivity.
    - destruct (s_pos s + nlen p <=? k) eqn:Ele.
      + inversion H; subst; clear H. split.
        * split; cbn; [rewrite nlen_rev_append; lia | rewrite Ef; lia].
        * reflexivity.
        * lia.
        * rewrite sink_bytes_accept, firstn_nlen. reflexivity.
        * reflexivity.
        * congruence.
        * intros _. left. reflexivity.
        * left. reflexivity.
        * congruence.
        * reflexivity.
      + inversion H; subst; clear H.
        assert (Hn : k - s_pos s <= nlen p) by lia.
        split.
        * split; cbn; [rewrite nlen_rev_append, nlen_firstn by lia; lia | rewrite Ef, nlen_firstn by lia; lia].
        * reflexivity.
        * lia.
        * rewrite sink_bytes_accept. reflexivity.
        * cbn. rewrite nlen_firstn by lia. reflexivity.
        * congruence.
        * congruence.
        * left. reflexivity.
        * intros _. left. split; [lia|]. exists k. exact Ef.
        * congruence.
    - destruct (s_fired s || (s_pos s + nlen p <=? k)) eqn:Ele.
      + inversion H; subst; clear H. split.
        * split; cbn; [rewrite nlen_rev_append; lia | rewrite Ef]. intros Hfi. rewrite Hfi in Ele. cbn in Ele. specialize (Hf Hfi). lia.
        * reflexivity.
        * lia.
        * rewrite sink_bytes_accept, firstn_nlen. reflexivity.
        * reflexivity.
        * congruence.
        * intros _. left. reflexivity.
        * left. reflexivity.
        * congruence.
        * reflexivity.
      + apply orb_false_iff in Ele. destruct Ele as [Hfi Hle].
        inversion H; subst; clear H.
        assert (Hk : s_pos s <= k) by (apply Hf; exact Hfi).
        assert (Hn : k - s_pos s < nlen p) by lia.
        split.
        * split; cbn; [rewrite nlen_rev_append, nlen_firstn by lia; lia | rewrite Ef]. intros Hc. discriminate Hc.
        * reflexivity.
        * lia.
        * rewrite sink_bytes_accept. reflexivity.
        * cbn. rewrite nlen_firstn by lia. reflexivity.
        * congruence.
        * intros _. right. split; [lia|]. split; [exact Hfi | reflexivity].
        * right. split; [lia|]. split; reflexivity.
        * congruence.
        * congruence.
    - inversion H; subst; clear H. split.
      + split; cbn; [rewrite nlen_rev_append; lia | rewrite Ef; exact I].
      + reflexivity.
      + lia.
      + rewrite sink_bytes_accept, firstn_nlen. reflexivity.
      + reflexivity.
      + destruct ((s_pos s <? k) && (k <=? s_pos s + nlen p)); congruence.
      + intros _. left. reflexivity.
      + left. reflexivity.
      + intros He. right. split; [reflexivity|]. exists k. split; [exact Ef|].
        destruct ((s_pos s <? k) && (k <=? s_pos s + nlen p)) eqn:E; [|discriminate He].
        apply andb_true_iff in E. destruct E as [E1 E2].
        apply N.ltb_lt in E1. apply N.leb_le in E2. lia.
      + congruence.
  Qed.

  (** *** bufio.Writer *)
  Definition wf_buf (b : bufw) : Prop := b_n b = nlen (b_rev b).

  (* what the destination holds followed by what is still buffered *)
  Definition cont (s : sink) (b : bufw) : list A := sink_bytes s ++ frev (b_rev b).

  Lemma frev_frev : forall l : list A, frev (frev l) = l.
  Proof. intros. rewrite !frev_rev. apply rev_involutive. Qed.

  Lemma b_push_wf : forall (b : bufw) c, wf_buf b -> wf_buf (b_push A b c).
  Proof. unfold wf_buf, b_push. intros. cbn. rewrite nlen_rev_append. lia. Qed.

  Lemma b_push_bytes : forall (b : bufw) c, frev (b_rev (b_push A b c)) = frev (b_rev b) ++ c.
  Proof. intros. cbn. apply frev_rev_append. Qed.

  Record flush_post (s : sink) (b : bufw) (s' : sink) (b' : bufw) (e : err) : Prop := {
    fl_wfs : wf_sink s';
    fl_wfb : wf_buf b';
    fl_cont : cont s' b' = cont s b;
    fl_flt : s_flt s' = s_flt s;
    fl_size : b_size b' = b_size b;
    fl_err : b_err b' = e;
    fl_ok : e = ENone -> b_rev b' = [] /\ b_n b' = 0;
    fl_nofault : s_flt s = NoFault -> b_err b = ENone -> e = ENone;
    fl_fired : s_fired s = true -> s_fired s' = true
  }.

  Lemma sw_fired_mono : forall (s : sink) p s' n e,
    sink_write_post s p s' n e -> s_fired s = true -> s_fired s' = true.
  Proof. intros s p s' n e H Hf. destruct (sw_fired _ _ _ _ _ H) as [E|(_&_&E)]; congruence. Qed.

  Lemma bufio_flush_spec : forall (s : sink) (b : bufw) s' b' e,
    wf_sink s -> wf_buf b -> bufio_flush A s b = (s', b', e) -> flush_post s b s' b' e.
  Proof.
    intros s b s' b' e Hs Hb H. unfold bufio_flush in H.
    destruct (is_err (b_err b)) eqn:Eerr.
    { inversion H; subst; clear H. split; try reflexivity; try assumption.
      - intros E. rewrite E in Eerr. discriminate.
      - intros _ E. rewrite E in Eerr. discriminate.
      - intros F; exact F. }
    destruct (b_n b =? 0) eqn:En.
    { inversion H; subst; clear H. apply is_err_none in Eerr. split; try reflexivity; try assumption.
      - intros _. split; [|lia]. apply nlen_zero. unfold wf_buf in Hb. lia.
      - intros F; exact F. }
    destruct (sink_write A s (frev (b_rev b))) as [[s1 n] e1] eqn:Ew.
    pose proof (sink_write_spec _ _ _ _ _ Hs Ew) as P.
    assert (Hdata : nlen (frev (b_rev b)) = b_n b) by (rewrite nlen_frev; symmetry; exact Hb).
    destruct (is_err (if negb (is_err e1) && (n <? b_n b) then EShort else e1)) eqn:Ee.
    - inversion H; subst; clear H. split.
      + apply (sw_wf _ _ _ _ _ P).
      + unfold wf_buf. cbn. rewrite nlen_frev, nlen_skipn. lia.
      + unfold cont. cbn. rewrite (sw_bytes _ _ _ _ _ P), frev_frev, <- app_assoc, firstn_skipn. reflexivity.
      + apply (sw_flt _ _ _ _ _ P).
      + reflexivity.
      + reflexivity.
      + intros E. rewrite E in Ee. discriminate.
      + intros Hnf _. pose proof (sw_nofault _ _ _ _ _ P Hnf) as E1. subst e1. cbn in *.
        destruct (sw_full _ _ _ _ _ P eq_refl) as [Hn|(Hn&Hf&_)].
        * assert (n <? b_n b = false) by lia. rewrite H in Ee. discriminate.
        * exfalso. destruct Hs as [_ Hs]. rewrite Hnf in Hs.
          pose proof (sw_fired _ _ _ _ _ P) as F. pose proof (sw_wf _ _ _ _ _ P) as W.
          unfold sink_write in Ew. rewrite Hnf in Ew. inversion Ew; subst. lia.
      + apply (sw_fired_mono _ _ _ _ _ P).
    - inversion H; subst; clear H.
      assert (E1 : e1 = ENone).
      { destruct e1; cbn in Ee; try discriminate; reflexivity. }
      subst e1. cbn in Ee.
      assert (Hn : n = b_n b).
      { destruct (n <? b_n b) eqn:L; [discriminate|]. pose proof (sw_le _ _ _ _ _ P). lia. }
      split.
      + apply (sw_wf _ _ _ _ _ P).
      + reflexivity.
      + unfold cont. cbn. rewrite (sw_bytes _ _ _ _ _ P), Hn, <- Hdata, firstn_nlen, app_nil_r. reflexivity.
      + apply (sw_flt _ _ _ _ _ P).
      + reflexivity.
      + reflexivity.
      + intros _. split; reflexivity.
      + reflexivity.
      + apply (sw_fired_mono _ _ _ _ _ P).
  Qed.

  Lemma split_combine : forall (n n2 : N) (p : list A),
    n <= nlen p -> n2 <= nlen (skipn (N.to_nat n) p) ->
    firstn (N.to_nat n) p ++ firstn (N.to_nat n2) (skipn (N.to_nat n) p) = firstn (N.to_nat (n + n2)) p /\
    skipn (N.to_nat n2) (skipn (N.to_nat n) p) = skipn (N.to_nat (n + n2)) p /\
    n + n2 <= nlen p.
  Proof.
    intros n n2 p H1 H2. rewrite nlen_skipn in H2.
    rewrite N2Nat.inj_add, firstn_add, skipn_add. repeat split; lia.
  Qed.

  Record loop_post (s : sink) (b : bufw) (p : list A) (nn : N)
                   (s' : sink) (b' : bufw) (p' : list A) (nn' : N) : Prop := {
    lp_wfs : wf_sink s';
    lp_wfb : wf_buf b';
    lp_n : exists n, nn' = nn + n /\ n <= nlen p /\ p' = skipn (N.to_nat n) p /\
                     cont s' b' = cont s b ++ firstn (N.to_nat n) p;
    lp_flt : s_flt s' = s_flt s;
    lp_size : b_size b' = b_size b;
    lp_fired : s_fired s = true -> s_fired s' = true
  }.

  Lemma bufio_loop_spec : forall direct fuel (s : sink) (b : bufw) p nn s' b' p' nn',
    wf_sink s -> wf_buf b ->
    bufio_loop A direct fuel s b p nn = (s', b', p', nn') ->
    loop_post s b p nn s' b' p' nn'.
  Proof.
    intros direct fuel. induction fuel as [|f IH]; intros s b p nn s' b' p' nn' Hs Hb H.
    - cbn in H. inversion H; subst; clear H. split; auto.
      exists 0. cbn. rewrite app_nil_r. repeat split; lia.
    - cbn [bufio_loop] in H.
      destruct ((b_avail A b <? nlen p) && negb (is_err (b_err b))) eqn:G.
      2:{ inversion H; subst; clear H. split; auto.
          exists 0. cbn. rewrite app_nil_r. repeat split; lia. }
      destruct (direct && (b_n b =? 0)) eqn:D.
      + apply andb_true_iff in D. destruct D as [_ D].
        assert (Hnil : b_rev b = []) by (apply nlen_zero; unfold wf_buf in Hb; lia).
        destruct (sink_write A s p) as [[s1 n] e1] eqn:Ew.
        pose proof (sink_write_spec _ _ _ _ _ Hs Ew) as P.
        apply IH in H; [| apply (sw_wf _ _ _ _ _ P) | unfold wf_buf in *; cbn; exact Hb].
        destruct H as [W1 W2 (n2 & E1 & E2 & E3 & E4) F1 F2 F3].
        destruct (split_combine n n2 p (sw_le _ _ _ _ _ P) E2) as (C1 & C2 & C3).
        split; auto.
        * exists (n + n2). repeat split; [lia | exact C3 | rewrite E3; exact C2 |].
          rewrite E4. unfold cont. cbn [b_rev]. rewrite (sw_bytes _ _ _ _ _ P), Hnil.
          change (frev []) with (@nil A). rewrite !app_nil_r, <- app_assoc, C1. reflexivity.
        * rewrite F1. apply (sw_flt _ _ _ _ _ P).
        * intros Hf. apply F3. apply (sw_fired_mono _ _ _ _ _ P Hf).
      + set (n := N.min (b_avail A b) (nlen p)) in *.
        destruct (bufio_flush A s (b_push A b (firstn (N.to_nat n) p))) as [[s1 b2] e1] eqn:Ef.
        pose proof (bufio_flush_spec _ _ _ _ _ Hs (b_push_wf _ _ Hb) Ef) as P.
        apply IH in H; [| apply (fl_wfs _ _ _ _ _ P) | apply (fl_wfb _ _ _ _ _ P)].
        destruct H as [W1 W2 (n2 & E1 & E2 & E3 & E4) F1 F2 F3].
        assert (Hn : n <= nlen p) by lia.
        destruct (split_combine n n2 p Hn E2) as (C1 & C2 & C3).
        split; auto.
        * exists (n + n2). repeat split; [lia | exact C3 | rewrite E3; exact C2 |].
          rewrite E4, (fl_cont _ _ _ _ _ P). unfold cont. rewrite b_push_bytes.
          rewrite <- !app_assoc, C1. reflexivity.
        * rewrite F1. apply (fl_flt _ _ _ _ _ P).
        * rewrite F2. apply (fl_size _ _ _ _ _ P).
        * intros Hf. apply F3. apply (fl_fired _ _ _ _ _ P Hf).
  Qed.

  (** what a Write/WriteString on the bufio.Writer guarantees *)
  Record write_post (c c' : list A) (p : list A) (n : N) (e : err) (buffered : bool) : Prop := {
    wp_le : n <= nlen p;
    wp_cont : c' = c ++ firstn (N.to_nat n) p;
    wp_full : buffered = true -> e = ENone -> n = nlen p
  }.

  Lemma bufio_write_gen_spec : forall direct (s : sink) (b : bufw) p s' b' n e,
    wf_sink s -> wf_buf b ->
    bufio_write_gen A direct s b p = (s', b', n, e) ->
    wf_sink s' /\ wf_buf b' /\ s_flt s' = s_flt s /\ b_size b' = b_size b /\
    (s_fired s = true -> s_fired s' = true) /\
    write_post (cont s b) (cont s' b') p n e true.
  Proof.
    intros direct s b p s' b' n e Hs Hb H. unfold bufio_write_gen in H.
    destruct (bufio_loop A direct (bufio_fuel A p) s b p 0) as [[[s1 b1] p1] nn] eqn:El.
    pose proof (bufio_loop_spec _ _ _ _ _ _ _ _ _ _ Hs Hb El) as [W1 W2 (n1 & E1 & E2 & E3 & E4) F1 F2 F3].
    destruct (is_err (b_err b1)) eqn:Ee.
    { inversion H; subst; clear H.
      split; [exact W1|]. split; [exact W2|]. split; [exact F1|]. split; [exact F2|]. split; [exact F3|].
      split.
      - lia.
      - replace (0 + n1) with n1 by lia. exact E4.
      - intros _ E. rewrite E in Ee. discriminate. }
    destruct (b_avail A b1 <? nlen p1) eqn:Ea.
    { inversion H; subst; clear H.
      split; [exact W1|]. split; [exact W2|]. split; [exact F1|]. split; [exact F2|]. split; [exact F3|].
      split.
      - lia.
      - replace (0 + n1) with n1 by lia. exact E4.
      - intros _ E. discriminate. }
    inversion H; subst; clear H.
    assert (Hp1 : nlen (skipn (N.to_nat n1) p) <= nlen (skipn (N.to_nat n1) p)) by lia.
    destruct (split_combine n1 _ p E2 Hp1) as (C1 & C2 & C3).
    rewrite firstn_nlen in C1.
    split; [exact W1|]. split; [apply b_push_wf; exact W2|]. split; [exact F1|]. split; [exact F2|]. split; [exact F3|].
    split.
    - lia.
    - unfold cont in *. rewrite b_push_bytes, app_assoc, E4, <- app_assoc.
      replace (0 + n1 + nlen (skipn (N.to_nat n1) p)) with (n1 + nlen (skipn (N.to_nat n1) p)) by lia.
      rewrite <- C1. reflexivity.
    - intros _ _. rewrite nlen_skipn. lia.
  Qed.

  (** *** the writer below offsetTrackingWriter, and offsetTrackingWriter *)
  Definition wf_st (t : st) : Prop :=
    wf_sink (snk t) /\ match bw t with Some b => wf_buf b | None => True end.

  Definition buffered (t : st) : bool := match bw t with Some _ => true | None => false end.

  Definition same_shape (t t' : st) : Prop :=
    s_flt (snk t') = s_flt (snk t) /\ buffered t' = buffered t /\
    (s_fired (snk t) = true -> s_fired (snk t') = true).

  Lemma same_shape_refl : forall t, same_shape t t.
  Proof. intros. repeat split; auto. Qed.

  Lemma same_shape_trans : forall t1 t2 t3, same_shape t1 t2 -> same_shape t2 t3 -> same_shape t1 t3.
  Proof. intros t1 t2 t3 (A1&A2&A3) (B1&B2&B3). repeat split; try congruence. auto. Qed.

  Lemma content_raw : forall s, content (mkSt s None) = sink_bytes s.
  Proof. intros. unfold Model.content. cbn. apply app_nil_r. Qed.

  Lemma content_buf : forall s b, content (mkSt s (Some b)) = cont s b.
  Proof. reflexivity. Qed.

  Definition w_post (t : st) (p : list A) (t' : st) (n : N) (e : err) (full : bool) : Prop :=
    wf_st t' /\ same_shape t t' /\ write_post (content t) (content t') p n e full.

  Lemma lower_gen_spec : forall direct (t : st) p t' n e,
    wf_st t ->
    match bw t with
    | None => let '(s, n, e) := sink_write A (snk t) p in (mkSt s None, n, e)
    | Some b => let '(s, b', n, e) := bufio_write_gen A direct (snk t) b p in (mkSt s (Some b'), n, e)
    end = (t', n, e) ->
    w_post t p t' n e (buffered t).
  Proof.
    intros direct [s ob] p t' n e [Hs Hb] H. cbn in *. destruct ob as [b|].
    - destruct (bufio_write_gen A direct s b p) as [[[s1 b1] n1] e1] eqn:E.
      inversion H; subst; clear H.
      destruct (bufio_write_gen_spec _ _ _ _ _ _ _ _ Hs Hb E) as (W1&W2&F1&F2&F3&P).
      split; [split; assumption|]. split; [repeat split; assumption|]. exact P.
    - destruct (sink_write A s p) as [[s1 n1] e1] eqn:E.
      inversion H; subst; clear H.
      pose proof (sink_write_spec _ _ _ _ _ Hs E) as P.
      split; [split; [apply (sw_wf _ _ _ _ _ P) | exact I]|].
      split; [repeat split; [apply (sw_flt _ _ _ _ _ P) | apply (sw_fired_mono _ _ _ _ _ P)]|].
      rewrite !content_raw. split.
      + apply (sw_le _ _ _ _ _ P).
      + apply (sw_bytes _ _ _ _ _ P).
      + cbn. discriminate.
  Qed.

  Lemma lower_write_spec : forall (t : st) p t' n e,
    wf_st t -> lower_write A t p = (t', n, e) -> w_post t p t' n e (buffered t).
  Proof. intros. eapply lower_gen_spec; eauto. Qed.

  Lemma lower_write_string_spec : forall (t : st) p t' n e,
    wf_st t -> lower_write_string A t p = (t', n, e) -> w_post t p t' n e (buffered t).
  Proof. intros. eapply lower_gen_spec; eauto. Qed.

  (* the repaired offsetTrackingWriter: a nil error means every byte was taken *)
  Lemma otw_fix_spec : forall (t : st) p r t' n e full,
    (forall t1 n1 e1, r = (t1, n1, e1) -> w_post t p t1 n1 e1 full) ->
    otw_fix A true (nlen p) r = (t', n, e) -> w_post t p t' n e true.
  Proof.
    intros t p [[t1 n1] e1] t' n e full Hr H. specialize (Hr _ _ _ eq_refl).
    destruct Hr as (W&S&[L C F]). unfold otw_fix in H. cbn [andb] in H.
    destruct (negb (is_err e1) && (n1 <? nlen p)) eqn:G; inversion H; subst; clear H.
    - split; [exact W|]. split; [exact S|]. split; auto. discriminate.
    - split; [exact W|]. split; [exact S|]. split; auto.
      intros _ E. subst. cbn in G. lia.
  Qed.

  Lemma otw_write_spec : forall (t : st) p t' n e,
    wf_st t -> otw_write A true t p = (t', n, e) -> w_post t p t' n e true.
  Proof.
    intros t p t' n e W H. unfold otw_write in H.
    eapply otw_fix_spec; [|exact H]. intros. eapply lower_write_spec; eauto.
  Qed.

  Lemma otw_write_string_spec : forall (t : st) p t' n e,
    wf_st t -> otw_write_string A true t p = (t', n, e) -> w_post t p t' n e true.
  Proof.
    intros t p t' n e W H. unfold otw_write_string in H.
    eapply otw_fix_spec; [|exact H]. intros. eapply lower_write_string_spec; eauto.
  Qed.

  (** *** write sites *)
  Definition op_post (t t' : st) (e : err) (data : list A) : Prop :=
    wf_st t' /\ same_shape t t' /\ (e = ENone -> content t' = content t ++ data).

  Lemma write_pieces_spec : forall ps (t t' : st) e,
    wf_st t -> write_pieces A true t ps = (t', e) -> op_post t t' e (site_data_of A ps).
  Proof.
    induction ps as [|pc ps IH]; intros t t' e W H; cbn in H.
    - inversion H; subst. split; [exact W|]. split; [apply same_shape_refl|].
      intros _. cbn. now rewrite app_nil_r.
    - destruct (write_piece A true t pc) as [[t1 n1] e1] eqn:E.
      assert (P : w_post t (snd pc) t1 n1 e1 true).
      { unfold write_piece in E. destruct (fst pc); [eapply otw_write_string_spec | eapply otw_write_spec]; eauto. }
      destruct P as (W1&S1&[L C F]).
      destruct (is_err e1) eqn:Ee.
      + inversion H; subst; clear H. split; [exact W1|]. split; [exact S1|].
        intros E'. subst. discriminate.
      + apply is_err_none in Ee. subst e1.
        destruct (IH _ _ _ W1 H) as (W2&S2&C2).
        split; [exact W2|]. split; [eapply same_shape_trans; eauto|].
        intros E'. rewrite (C2 E'), C, (F eq_refl eq_refl), firstn_nlen.
        unfold site_data_of. cbn. now rewrite app_assoc.
  Qed.

  (* any Write-like function: the bytes it reports are the bytes it took *)
  Definition writer_ok (w : st -> list A -> st * N * err) : Prop :=
    forall t c t' n e, wf_st t -> w t c = (t', n, e) -> exists full, w_post t c t' n e full.

  Lemma retry_spec : forall w, writer_ok w -> forall fuel c (t t' : st) e,
    wf_st t -> retry A w fuel t c = (t', e) -> op_post t t' e c.
  Proof.
    intros w Hw. induction fuel as [|f IH]; intros c t t' e W H.
    - destruct c; cbn in H; inversion H; subst; clear H.
      + split; [exact W|]. split; [apply same_shape_refl|]. intros _. now rewrite app_nil_r.
      + split; [exact W|]. split; [apply same_shape_refl|]. discriminate.
    - destruct c as [|x c].
      { cbn in H. inversion H; subst. split; [exact W|]. split; [apply same_shape_refl|]. intros _. now rewrite app_nil_r. }
      cbn [retry] in H. remember (x :: c) as cc.
      destruct (w t cc) as [[t1 n1] e1] eqn:E.
      destruct (Hw _ _ _ _ _ W E) as (full & W1 & S1 & [L C F]).
      destruct (is_err e1) eqn:Ee.
      + inversion H; subst t' e; clear H. split; [exact W1|]. split; [exact S1|].
        intros E'. subst. discriminate.
      + destruct (IH _ _ _ _ W1 H) as (W2&S2&C2).
        split; [exact W2|]. split; [eapply same_shape_trans; eauto|].
        intros E'. rewrite (C2 E'), C, <- app_assoc, firstn_skipn. reflexivity.
  Qed.

  Lemma write_to_spec : forall w, writer_ok w -> forall chunks (t t' : st) e,
    wf_st t -> write_to A w t chunks = (t', e) -> op_post t t' e (site_data_of A chunks).
  Proof.
    intros w Hw. induction chunks as [|c r IH]; intros t t' e W H; cbn in H.
    - inversion H; subst. split; [exact W|]. split; [apply same_shape_refl|].
      intros _. cbn. now rewrite app_nil_r.
    - destruct (retry A w (length (snd c) + 2) t (snd c)) as [t1 e1] eqn:E.
      destruct (retry_spec w Hw _ _ _ _ _ W E) as (W1&S1&C1).
      destruct (is_err e1) eqn:Ee.
      + inversion H; subst; clear H. split; [exact W1|]. split; [exact S1|].
        intros E'. subst. discriminate.
      + apply is_err_none in Ee. subst e1.
        destruct (IH _ _ _ W1 H) as (W2&S2&C2).
        split; [exact W2|]. split; [eapply same_shape_trans; eauto|].
        intros E'. rewrite (C2 E'), (C1 eq_refl). unfold site_data_of. cbn. now rewrite app_assoc.
  Qed.

  Lemma writer_ok_otw : writer_ok (otw_write A true).
  Proof. intros t c t' n e W H. exists true. eapply otw_write_spec; eauto. Qed.

  Lemma writer_ok_lower : writer_ok (lower_write A).
  Proof. intros t c t' n e W H. eexists. eapply lower_write_spec; eauto. Qed.

  Lemma copy_loop_spec : forall chunks (s s' : sink) e,
    wf_sink s -> copy_loop A s chunks = (s', e) ->
    wf_sink s' /\ s_flt s' = s_flt s /\ (s_fired s = true -> s_fired s' = true) /\
    (e = ENone -> sink_bytes s' = sink_bytes s ++ site_data_of A chunks).
  Proof.
    induction chunks as [|c r IH]; intros s s' e W H; cbn in H.
    - inversion H; subst. split; [exact W|]. split; [reflexivity|]. split; [auto|].
      intros _. cbn. now rewrite app_nil_r.
    - destruct (sink_write A s (snd c)) as [[s1 n1] e1] eqn:E.
      pose proof (sink_write_spec _ _ _ _ _ W E) as P.
      destruct (is_err e1) eqn:Ee.
      { inversion H; subst; clear H.
        split; [apply (sw_wf _ _ _ _ _ P)|]. split; [apply (sw_flt _ _ _ _ _ P)|].
        split; [apply (sw_fired_mono _ _ _ _ _ P)|]. intros E'. subst. discriminate. }
      destruct (n1 <? nlen (snd c)) eqn:L.
      { inversion H; subst; clear H.
        split; [apply (sw_wf _ _ _ _ _ P)|]. split; [apply (sw_flt _ _ _ _ _ P)|].
        split; [apply (sw_fired_mono _ _ _ _ _ P)|]. discriminate. }
      destruct (IH _ _ _ (sw_wf _ _ _ _ _ P) H) as (W2&F2&M2&C2).
      split; [exact W2|]. split; [rewrite F2; apply (sw_flt _ _ _ _ _ P)|].
      split; [intros Hf; apply M2; apply (sw_fired_mono _ _ _ _ _ P Hf)|].
      intros E'. rewrite (C2 E'), (sw_bytes _ _ _ _ _ P).
      assert (n1 = nlen (snd c)) by (pose proof (sw_le _ _ _ _ _ P); lia). subst n1.
      rewrite firstn_nlen. unfold site_data_of. cbn. now rewrite app_assoc.
  Qed.

  Lemma cont_push : forall (s : sink) (b : bufw) c, cont s (b_push A b c) = cont s b ++ c.
  Proof. intros. unfold cont. rewrite b_push_bytes. now rewrite app_assoc. Qed.

  Lemma bufio_fill_spec : forall data (s : sink) (b : bufw) s' b' e,
    wf_sink s -> wf_buf b -> bufio_fill A s b data = (s', b', e) ->
    wf_sink s' /\ wf_buf b' /\ s_flt s' = s_flt s /\ (s_fired s = true -> s_fired s' = true) /\
    (e = ENone -> cont s' b' = cont s b ++ data).
  Proof.
    induction data as [|x r IH]; intros s b s' b' e Ws Wb H; cbn [bufio_fill] in H.
    - destruct (b_avail A b =? 0).
      + pose proof (bufio_flush_spec _ _ _ _ _ Ws Wb H) as P.
        split; [apply (fl_wfs _ _ _ _ _ P)|]. split; [apply (fl_wfb _ _ _ _ _ P)|].
        split; [apply (fl_flt _ _ _ _ _ P)|]. split; [apply (fl_fired _ _ _ _ _ P)|].
        intros _. rewrite (fl_cont _ _ _ _ _ P). now rewrite app_nil_r.
      + inversion H; subst. split; [exact Ws|]. split; [exact Wb|]. split; [reflexivity|]. split; [auto|].
        intros _. now rewrite app_nil_r.
    - destruct (b_avail A b =? 0).
      + destruct (bufio_flush A s b) as [[s1 b1] e1] eqn:Ef.
        pose proof (bufio_flush_spec _ _ _ _ _ Ws Wb Ef) as P.
        destruct (is_err e1) eqn:Ee.
        * inversion H; subst; clear H.
          split; [apply (fl_wfs _ _ _ _ _ P)|]. split; [apply (fl_wfb _ _ _ _ _ P)|].
          split; [apply (fl_flt _ _ _ _ _ P)|]. split; [apply (fl_fired _ _ _ _ _ P)|].
          intros E'. subst. discriminate.
        * destruct (IH _ _ _ _ _ (fl_wfs _ _ _ _ _ P) (b_push_wf _ [x] (fl_wfb _ _ _ _ _ P)) H) as (W1&W2&F&M&C).
          split; [exact W1|]. split; [exact W2|]. split; [rewrite F; apply (fl_flt _ _ _ _ _ P)|].
          split; [intros Hf; apply M; apply (fl_fired _ _ _ _ _ P Hf)|].
          intros E'. rewrite (C E'), cont_push, (fl_cont _ _ _ _ _ P), <- app_assoc. reflexivity.
      + destruct (IH _ _ _ _ _ Ws (b_push_wf _ [x] Wb) H) as (W1&W2&F&M&C).
        split; [exact W1|]. split; [exact W2|]. split; [exact F|]. split; [exact M|].
        intros E'. rewrite (C E'), cont_push, <- app_assoc. reflexivity.
  Qed.

  Lemma run_mech_spec : forall m ps (t t' : st) e,
    wf_st t -> run_mech A true m t ps = (t', e) -> op_post t t' e (site_data_of A ps).
  Proof.
    intros m ps t t' e W H. destruct m; cbn [run_mech] in H.
    - eapply write_pieces_spec; eauto.
    - eapply write_to_spec; eauto. apply writer_ok_otw.
    - eapply write_to_spec; eauto. apply writer_ok_lower.
    - destruct t as [s ob]. destruct W as [Ws Wb]. cbn in *. destruct ob as [b|].
      + unfold bufio_read_from in H. destruct (is_err (b_err b)) eqn:Ee.
        * inversion H; subst; clear H. split; [split; assumption|]. split; [apply same_shape_refl|].
          intros E'. rewrite E' in Ee. discriminate.
        * destruct (bufio_fill A s b (site_data_of A ps)) as [[s1 b1] e1] eqn:Ef.
          inversion H; subst; clear H.
          destruct (bufio_fill_spec _ _ _ _ _ _ Ws Wb Ef) as (W1&W2&F&M&C).
          split; [split; assumption|]. split; [repeat split; assumption|].
          intros E'. rewrite !content_buf. auto.
      + destruct (copy_loop A s ps) as [s1 e1] eqn:Ec.
        inversion H; subst; clear H.
        destruct (copy_loop_spec _ _ _ _ Ws Ec) as (W1&F&M&C).
        split; [split; [assumption|exact I]|]. split; [repeat split; assumption|].
        intros E'. rewrite !content_raw. auto.
  Qed.

  (** *** Flush/Close *)
  Notation site := (site A).

  Lemma run_sites_spec : forall chk, (forall k, chk k = true) -> forall (xs : list site) i (t t' : st) e j,
    wf_st t -> run_sites A true chk i t xs = (t', e, j) ->
    op_post t t' e (all_data A xs).
  Proof.
    intros chk Hchk. induction xs as [|x r IH]; intros i t t' e j W H; cbn [run_sites] in H.
    - inversion H; subst. split; [exact W|]. split; [apply same_shape_refl|].
      intros _. cbn. now rewrite app_nil_r.
    - destruct (run_mech A true (st_mech x) t (st_pieces x)) as [t1 e1] eqn:E.
      destruct (run_mech_spec _ _ _ _ _ W E) as (W1&S1&C1).
      rewrite Hchk, andb_true_r in H.
      destruct (is_err e1) eqn:Ee.
      + inversion H; subst; clear H. split; [exact W1|]. split; [exact S1|].
        intros E'. subst. discriminate.
      + apply is_err_none in Ee. subst e1.
        destruct (IH _ _ _ _ _ W1 H) as (W2&S2&C2).
        split; [exact W2|]. split; [eapply same_shape_trans; eauto|].
        intros E'. rewrite (C2 E'), (C1 eq_refl). unfold all_data. cbn.
        fold (site_data A x). unfold site_data. now rewrite app_assoc.
  Qed.

  Lemma init_wf : forall f bs, wf_st (init A f bs).
  Proof.
    intros f bs. split.
    - split; cbn; [reflexivity|]. destruct f; auto; lia.
    - cbn. destruct bs; [reflexivity|exact I].
  Qed.

  Lemma init_content : forall f bs, content (init A f bs) = [].
  Proof. intros f [sz|]; reflexivity. Qed.

  (** a nil error from Close: the destination holds exactly the bytes of all sites *)
  Lemma close_nil_complete : forall chk, (forall k, chk k = true) ->
    forall (t : st) (xs : list site) t' i,
    wf_st t -> close A true chk true t xs = (t', ENone, i) ->
    wf_st t' /\ same_shape t t' /\ sink_bytes (snk t') = content t ++ all_data A xs.
  Proof.
    intros chk Hchk t xs t' i W H. unfold close in H.
    destruct (run_sites A true chk 0 t xs) as [[t1 e1] i1] eqn:E.
    destruct (run_sites_spec chk Hchk _ _ _ _ _ _ W E) as (W1&S1&C1).
    destruct (is_err e1) eqn:Ee.
    { inversion H; subst. discriminate. }
    apply is_err_none in Ee. subst e1. specialize (C1 eq_refl).
    destruct t1 as [s1 ob]. destruct W1 as [Ws Wb]. cbn in *. destruct ob as [b|].
    - destruct (bufio_flush A s1 b) as [[s2 b2] e2] eqn:Ef.
      inversion H; subst; clear H.
      pose proof (bufio_flush_spec _ _ _ _ _ Ws Wb Ef) as P.
      destruct (fl_ok _ _ _ _ _ P eq_refl) as [Hnil _].
      split; [split; [apply (fl_wfs _ _ _ _ _ P) | apply (fl_wfb _ _ _ _ _ P)]|].
      split.
      + destruct S1 as (A1&A2&A3). repeat split; cbn in *.
        * rewrite (fl_flt _ _ _ _ _ P). exact A1.
        * exact A2.
        * intros Hf. apply (fl_fired _ _ _ _ _ P). auto.
      + cbn. rewrite <- C1, content_buf, <- (fl_cont _ _ _ _ _ P). unfold cont. rewrite Hnil.
        change (frev []) with (@nil A). now rewrite app_nil_r.
    - inversion H; subst; clear H.
      split; [split; [assumption|exact I]|]. split; [exact S1|].
      cbn. rewrite <- C1, content_raw. reflexivity.
  Qed.

  Lemma wf_sink_pos : forall s : sink, wf_sink s -> s_pos s = nlen (sink_bytes s).
  Proof. intros s [H _]. unfold Model.sink_bytes. rewrite nlen_frev. exact H. Qed.

  Theorem close_nil_means_complete : forall chk, (forall k, chk k = true) ->
    forall f bs (xs : list site) t' i,
    close A true chk true (init A f bs) xs = (t', ENone, i) ->
    sink_bytes (snk t') = all_data A xs.
  Proof.
    intros chk Hchk f bs xs t' i H.
    destruct (close_nil_complete chk Hchk _ _ _ _ (init_wf f bs) H) as (_&_&C).
    rewrite C, init_content. reflexivity.
  Qed.

  (** an error of the destination at offset k inside the file is reported *)
  Theorem err_fault_surfaces : forall chk, (forall k, chk k = true) ->
    forall k bs (xs : list site) t' e i,
    k < nlen (all_data A xs) ->
    close A true chk true (init A (ErrAt k) bs) xs = (t', e, i) ->
    e <> ENone.
  Proof.
    intros chk Hchk k bs xs t' e i Hk H E. subst e.
    destruct (close_nil_complete chk Hchk _ _ _ _ (init_wf _ bs) H) as (W&(F&_&_)&C).
    rewrite init_content in C. cbn in C, F.
    destruct W as [[Hp Hf] _]. rewrite F in Hf.
    assert (s_pos (snk t') = nlen (all_data A xs)).
    { unfold Model.sink_bytes in C. rewrite Hp, <- C, nlen_frev. reflexivity. }
    lia.
  Qed.

  (** a short count is reported, or it was retried and nothing is missing *)
  Theorem short_fault_surfaces : forall chk, (forall k, chk k = true) ->
    forall k bs (xs : list site) t' e i,
    close A true chk true (init A (ShortAt k) bs) xs = (t', e, i) ->
    e <> ENone \/ sink_bytes (snk t') = all_data A xs.
  Proof.
    intros chk Hchk k bs xs t' e i H. destruct e; [right|left; discriminate|left; discriminate].
    eapply close_nil_means_complete; eauto.
  Qed.

  (** *** unbuffered writer: a short count of the destination is always reported
      (unless the bytes travel below offsetTrackingWriter through
      memory.Buffer.WriteTo, which retries) *)
  Definition raw (t : st) : Prop := bw t = None.

  Lemma raw_shape : forall t t', same_shape t t' -> raw t -> raw t'.
  Proof.
    intros [s ob] [s' ob'] (_&B&_) R. unfold raw, buffered in *. cbn in *. subst ob.
    destruct ob'; [discriminate|reflexivity].
  Qed.

  Definition keeps_fired (t t' : st) (e : err) : Prop :=
    e = ENone -> s_fired (snk t') = s_fired (snk t).

  Lemma otw_raw_fired : forall (str : bool) (t : st) p t' n e,
    wf_st t -> raw t ->
    (if str then otw_write_string A true t p else otw_write A true t p) = (t', n, e) ->
    keeps_fired t t' e.
  Proof.
    intros str [s ob] p t' n e [Ws _] R H. unfold raw in R. cbn in R. subst ob.
    assert (H' : otw_fix A true (nlen p) (let '(s0, n0, e0) := sink_write A s p in (mkSt s0 None, n0, e0)) = (t', n, e))
      by (destruct str; exact H).
    clear H. destruct (sink_write A s p) as [[s1 n1] e1] eqn:E.
    pose proof (sink_write_spec _ _ _ _ _ Ws E) as P.
    unfold otw_fix in H'. cbn [andb] in H'.
    destruct (negb (is_err e1) && (n1 <? nlen p)) eqn:G; inversion H'; subst; clear H'.
    - intros E'. discriminate.
    - intros E'. subst. cbn in *. destruct (sw_fired _ _ _ _ _ P) as [F|(L&_&_)]; [exact F|lia].
  Qed.

  Lemma write_pieces_raw : forall ps (t t' : st) e,
    wf_st t -> raw t -> write_pieces A true t ps = (t', e) -> keeps_fired t t' e.
  Proof.
    induction ps as [|pc ps IH]; intros t t' e W R H; cbn in H.
    - inversion H; subst. intros _. reflexivity.
    - destruct (write_piece A true t pc) as [[t1 n1] e1] eqn:E.
      assert (P : w_post t (snd pc) t1 n1 e1 true).
      { unfold write_piece in E. destruct (fst pc); [eapply otw_write_string_spec | eapply otw_write_spec]; eauto. }
      pose proof (otw_raw_fired (fst pc) t (snd pc) t1 n1 e1 W R E) as K.
      destruct P as (W1&S1&_).
      destruct (is_err e1) eqn:Ee.
      + inversion H; subst. intros E'. subst. discriminate.
      + apply is_err_none in Ee. subst e1. intros E'.
        rewrite (IH _ _ _ W1 (raw_shape _ _ S1 R) H E'). apply K. reflexivity.
  Qed.

  Lemma retry_otw_raw : forall fuel c (t t' : st) e,
    wf_st t -> raw t -> retry A (otw_write A true) fuel t c = (t', e) -> keeps_fired t t' e.
  Proof.
    induction fuel as [|f IH]; intros c t t' e W R H.
    - destruct c; cbn in H; inversion H; subst; intros E'; [reflexivity|discriminate].
    - destruct c as [|x c]; [cbn in H; inversion H; subst; intros _; reflexivity|].
      cbn [retry] in H. remember (x :: c) as cc.
      destruct (otw_write A true t cc) as [[t1 n1] e1] eqn:E.
      pose proof (otw_raw_fired false t cc t1 n1 e1 W R E) as K.
      destruct (otw_write_spec _ _ _ _ _ W E) as (W1&S1&_).
      destruct (is_err e1) eqn:Ee.
      + inversion H; subst. intros E'. subst. discriminate.
      + apply is_err_none in Ee. subst e1. intros E'.
        rewrite (IH _ _ _ _ W1 (raw_shape _ _ S1 R) H E'). apply K. reflexivity.
  Qed.

  Lemma write_to_otw_raw : forall chunks (t t' : st) e,
    wf_st t -> raw t -> write_to A (otw_write A true) t chunks = (t', e) -> keeps_fired t t' e.
  Proof.
    induction chunks as [|c r IH]; intros t t' e W R H; cbn in H.
    - inversion H; subst. intros _. reflexivity.
    - destruct (retry A (otw_write A true) (length (snd c) + 2) t (snd c)) as [t1 e1] eqn:E.
      pose proof (retry_otw_raw _ _ _ _ _ W R E) as K.
      destruct (retry_spec _ writer_ok_otw _ _ _ _ _ W E) as (W1&S1&_).
      destruct (is_err e1) eqn:Ee.
      + inversion H; subst. intros E'. subst. discriminate.
      + apply is_err_none in Ee. subst e1. intros E'.
        rewrite (IH _ _ _ W1 (raw_shape _ _ S1 R) H E'). apply K. reflexivity.
  Qed.

  Lemma copy_loop_fired : forall chunks (s s' : sink) e,
    wf_sink s -> copy_loop A s chunks = (s', e) -> e = ENone -> s_fired s' = s_fired s.
  Proof.
    induction chunks as [|c r IH]; intros s s' e W H E'; cbn in H.
    - inversion H; subst. reflexivity.
    - destruct (sink_write A s (snd c)) as [[s1 n1] e1] eqn:E.
      pose proof (sink_write_spec _ _ _ _ _ W E) as P.
      destruct (is_err e1) eqn:Ee; [inversion H; subst; discriminate|].
      destruct (n1 <? nlen (snd c)) eqn:L; [inversion H; subst; discriminate|].
      rewrite (IH _ _ _ (sw_wf _ _ _ _ _ P) H E').
      destruct (sw_fired _ _ _ _ _ P) as [F|(L'&_&_)]; [exact F|lia].
  Qed.

  Definition no_lower_write_to (xs : list site) : Prop :=
    forall x, In x xs -> st_mech x <> MLowerWriteTo.

  Lemma run_mech_raw : forall m ps (t t' : st) e,
    m <> MLowerWriteTo -> wf_st t -> raw t -> run_mech A true m t ps = (t', e) -> keeps_fired t t' e.
  Proof.
    intros m ps t t' e Hm W R H. destruct m; cbn [run_mech] in H; try congruence.
    - eapply write_pieces_raw; eauto.
    - eapply write_to_otw_raw; eauto.
    - destruct t as [s ob]. unfold raw in R. cbn in R. subst ob. destruct W as [Ws _]. cbn in *.
      destruct (copy_loop A s ps) as [s1 e1] eqn:Ec. inversion H; subst; clear H.
      intros E'. cbn. eapply copy_loop_fired; eauto.
  Qed.

  Lemma run_sites_raw : forall chk, (forall k, chk k = true) -> forall (xs : list site) i (t t' : st) e j,
    no_lower_write_to xs -> wf_st t -> raw t ->
    run_sites A true chk i t xs = (t', e, j) -> keeps_fired t t' e.
  Proof.
    intros chk Hchk. induction xs as [|x r IH]; intros i t t' e j Hn W R H; cbn [run_sites] in H.
    - inversion H; subst. intros _. reflexivity.
    - destruct (run_mech A true (st_mech x) t (st_pieces x)) as [t1 e1] eqn:E.
      assert (Hx : st_mech x <> MLowerWriteTo) by (apply Hn; left; reflexivity).
      pose proof (run_mech_raw _ _ _ _ _ Hx W R E) as K.
      destruct (run_mech_spec _ _ _ _ _ W E) as (W1&S1&_).
      rewrite Hchk, andb_true_r in H.
      destruct (is_err e1) eqn:Ee.
      + inversion H; subst. intros E'. subst. discriminate.
      + apply is_err_none in Ee. subst e1. intros E'.
        assert (Hr : no_lower_write_to r) by (intros y Hy; apply Hn; right; exact Hy).
        rewrite (IH _ _ _ _ _ Hr W1 (raw_shape _ _ S1 R) H E'). apply K. reflexivity.
  Qed.

  Theorem short_fault_unbuffered_reported : forall chk, (forall k, chk k = true) ->
    forall k (xs : list site) t' e i,
    no_lower_write_to xs -> k < nlen (all_data A xs) ->
    close A true chk true (init A (ShortAt k) None) xs = (t', e, i) ->
    e <> ENone.
  Proof.
    intros chk Hchk k xs t' e i Hn Hk H E. subst e.
    destruct (close_nil_complete chk Hchk _ _ _ _ (init_wf _ None) H) as (W&(F&_&_)&C).
    rewrite init_content in C. cbn in C, F.
    unfold close in H.
    destruct (run_sites A true chk 0 (init A (ShortAt k) None) xs) as [[t1 e1] i1] eqn:E.
    destruct (is_err e1) eqn:Ee; [inversion H; subst; discriminate|].
    apply is_err_none in Ee. subst e1.
    pose proof (run_sites_raw chk Hchk _ _ _ _ _ _ Hn (init_wf _ None) eq_refl E eq_refl) as K.
    destruct (run_sites_spec chk Hchk _ _ _ _ _ _ (init_wf _ None) E) as (_&S1&_).
    pose proof (raw_shape _ _ S1 eq_refl) as R1. unfold raw in R1. rewrite R1 in H.
    inversion H; subst; clear H. cbn in K.
    destruct W as [[Hp Hf] _]. rewrite F in Hf. specialize (Hf K).
    assert (s_pos (snk t') = nlen (all_data A xs)).
    { unfold Model.sink_bytes in C. rewrite Hp, <- C, nlen_frev. reflexivity. }
    lia.
  Qed.

  (** the table of write sites *)
  Lemma all_kinds_complete : forall k, In k all_kinds.
  Proof. destruct k; cbn; tauto. Qed.

  Lemma checked_all : all_sites_checked = true ->
    (forall k, site_checked k = true) /\ final_flush_checked = true.
  Proof.
    unfold all_sites_checked. intros H. apply andb_true_iff in H. destruct H as [H1 H2].
    split; [|exact H2]. intros k. rewrite forallb_forall in H1. apply H1, all_kinds_complete.
  Qed.
End SinkProofs.
