(** C14 — writer side, the copy path: Writer.WriteRowGroup streaming column
    chunks from a source io.ReaderAt (writer_copy.go; writer.go writeRowGroup,
    `if c.copied != nil`).  A script of *items* generalises the list of write
    sites of Sink/Model.v: an item is an ordinary site, a section copied from
    the source straight to the output (copySection), a section copied into a
    deferred bloom filter buffer, or the flush of the deferred buffers by Close.
    Executable, no proofs.

    Go sources mirrored (writer.go at 75d9b69):
      1269-1278  copySection: m, err := w.ReadFrom(io.NewSectionReader(r, off, n));
                 if err == nil && m != n { err = io.ErrUnexpectedEOF }
      1603-1608  copied dictionary page, 1615-1619 copied data pages
      1670-1704  copied bloom filter: into a deferred buffer (1674-1696, count
                 check at 1677) or straight to the output (1698-1702)
      1710-1735  bloom filter built by the writer into a deferred buffer
      1319-1339  writeDeferredBloomFilters
    An io.SectionReader over a source that ends early answers the read that
    meets the end with (k, io.EOF); io.Copy and bufio.Writer.ReadFrom take
    io.EOF for the end of their input and return a nil error (Go 1.24
    io.copyBuffer, bufio.Writer.ReadFrom).  Sources that fail with another
    error are not in this model: that error is returned by io.Copy itself. *)
From Coq Require Import List Arith Bool NArith.
From PQ Require Import Sink.Model.
Import ListNotations.
Open Scope N_scope.

(** nil, an error of the destination side (Sink/Model.v), or the
    io.ErrUnexpectedEOF of a count check on the source side *)
Inductive cerr := CNil | CDst (e : err) | CSrc.

Definition is_cerr (e : cerr) : bool := match e with CNil => false | _ => true end.

Section Copy.
  Variable A : Type.

  (* the first [a] bytes of a section given as the Write calls that move it:
     what a source with [a] available bytes delivers *)
  Fixpoint take_pieces (a : N) (ps : list (piece A)) : list (piece A) :=
    match ps with
    | [] => []
    | pc :: r =>
        if a =? 0 then []
        else if nlen A (snd pc) <=? a then pc :: take_pieces (a - nlen A (snd pc)) r
        else [(fst pc, firstn (N.to_nat a) (snd pc))]
    end.

  Inductive item :=
  | IPlain (x : site A)
      (* a write site of Sink/Model.v *)
  | ICopied (k : kind) (ps : list (piece A)) (avail : N)
      (* copySection(&w.writer, cc.reader, off, n), n = the bytes of ps; the
         source delivers the first [avail] of them; mechanism MLowerCopy
         (offsetTrackingWriter.ReadFrom = io.Copy below the tracking writer) *)
  | IStage (ps : list (piece A)) (avail : N)
      (* a bloom filter put into a deferred buffer by writeRowGroup: copied from
         the source (io.Copy(buf, bloom), [avail] bytes delivered) or built by
         the writer (c.writeBloomFilter(buf), avail = n); ps = the Write calls
         that will move the buffer to the output; nothing reaches the output now *)
  | IFlushDeferred (m : mech).
      (* writeDeferredBloomFilters: every staged buffer, in order, is a
         KBloomDeferred site moved with w.writer.ReadFrom(bf.buf) *)

  Definition src_short (ps : list (piece A)) (avail : N) : bool :=
    avail <? nlen A (site_data_of A ps).

  (** [cur]: offsetTrackingWriter of the current code (Sink/Model.v otw_fix);
      [cnt]: the count checks of copySection and of the deferred buffer copy
      are present (current code); [cnt = false] is the code before commit
      9565563: `_, err := w.writer.ReadFrom(io.NewSectionReader(...))` and
      `_, err := io.Copy(buf, bloom)`.
      State: the writer below, and the staged deferred buffers.
      Result: state, error, index of the item that reported. *)
  Fixpoint run_items (cur cnt : bool) (chk : kind -> bool) (i : nat) (t : st A)
                     (q : list (list (piece A))) (xs : list item) : st A * cerr * nat :=
    match xs with
    | [] => (t, CNil, i)
    | IPlain x :: r =>
        let '(t', e) := run_mech A cur (st_mech x) t (st_pieces x) in
        if is_err e && chk (st_kind x) then (t', CDst e, i) else run_items cur cnt chk (S i) t' q r
    | ICopied k ps a :: r =>
        let '(t', e) := run_mech A cur MLowerCopy t (take_pieces a ps) in
        if is_err e && chk k then (t', CDst e, i)
        else if cnt && src_short ps a then (t', CSrc, i)
        else run_items cur cnt chk (S i) t' q r
    | IStage ps a :: r =>
        if cnt && src_short ps a then (t, CSrc, i)
        else run_items cur cnt chk (S i) t (q ++ [take_pieces a ps]) r
    | IFlushDeferred m :: r =>
        let '(t', e, _) := run_sites A cur chk 0 t (map (fun ps => mkSite KBloomDeferred m ps) q) in
        if is_err e then (t', CDst e, i) else run_items cur cnt chk (S i) t' [] r
    end.

  (* the items, then the final w.buffer.Flush() of close (writer.go:1293-1295) *)
  Definition close_items (cur cnt : bool) (chk : kind -> bool) (chk_flush : bool) (t : st A) (xs : list item)
    : st A * cerr * nat :=
    let '(t', e, i) := run_items cur cnt chk 0 t [] xs in
    if is_cerr e then (t', e, i)
    else match bw t' with
         | None => (t', CNil, i)
         | Some b => let '(s, b', e') := bufio_flush A (snk t') b in
                     (mkSt s (Some b'), if chk_flush && is_err e' then CDst e' else CNil, i)
         end.

  (** the bytes the footer written by Close describes: every module with its
      declared length (copied sections: the length recorded in the source's
      footer, which is what the copy writes into the new footer:
      TotalCompressedSize, BloomFilterLength = cc.bloomLength) *)
  Fixpoint declared (q : list (list A)) (xs : list item) : list A :=
    match xs with
    | [] => []
    | IPlain x :: r => site_data A x ++ declared q r
    | ICopied _ ps _ :: r => site_data_of A ps ++ declared q r
    | IStage ps _ :: r => declared (q ++ [site_data_of A ps]) r
    | IFlushDeferred _ :: r => concat q ++ declared [] r
    end.

  Definition item_short (x : item) : bool :=
    match x with
    | ICopied _ ps a => src_short ps a
    | IStage ps a => src_short ps a
    | _ => false
    end.

  Definition has_short (xs : list item) : bool := existsb item_short xs.

  (* index of the first item whose source is short *)
  Fixpoint first_short (i : nat) (xs : list item) : option nat :=
    match xs with
    | [] => None
    | x :: r => if item_short x then Some i else first_short (S i) r
    end.

  Definition copy_current (f : fault) (bufsize : option N) (xs : list item) : st A * cerr * nat :=
    close_items true true site_checked final_flush_checked (init A f bufsize) xs.

  (* the tree before commit 9565563 (the offsetTrackingWriter already repaired) *)
  Definition copy_pinned (f : fault) (bufsize : option N) (xs : list item) : st A * cerr * nat :=
    close_items true false site_checked final_flush_checked (init A f bufsize) xs.
End Copy.

Arguments IPlain {A}. Arguments ICopied {A}. Arguments IStage {A}. Arguments IFlushDeferred {A}.

(** what the harness compares: error, reporting item, number of bytes the
    destination holds, whether they are exactly the declared bytes *)
Definition copy_verdict (cnt : bool) (f : fault) (bufsize : option N) (xs : list (item N))
  : cerr * nat * N * bool :=
  let '(t, e, i) := close_items N true cnt site_checked final_flush_checked (init N f bufsize) xs in
  (e, i, s_pos (snk t), bytes_eqb (sink_bytes N (snk t)) (declared N [] xs)).
