(** C14 — proofs about the reader's demand Sink/Demand.v. *)
From Coq Require Import List Arith Bool NArith Lia.
From Coq Require Import ZifyN ZifyNat ZifyBool.
From PQ Require Import Sink.Reader Sink.ReaderProofs Sink.Demand.
Import ListNotations.
Open Scope N_scope.

(** consecutive non-empty reads from position p to position q *)
Fixpoint contig (p : N) (rs : list (N * N)) (q : N) : Prop :=
  match rs with
  | [] => p = q
  | r :: rest => fst r = p /\ 0 < snd r /\ contig (p + snd r) rest q
  end.

Lemma contig_le : forall rs p q, contig p rs q -> p <= q.
Proof.
  induction rs as [|r rest IH]; intros p q H; cbn in H; [lia|].
  destruct H as (_ & Hl & H). apply IH in H. lia.
Qed.

Lemma contig_in : forall rs p q r, contig p rs q -> In r rs ->
  p <= fst r /\ fst r + snd r <= q /\ 0 < snd r.
Proof.
  induction rs as [|x rest IH]; intros p q r H Hin; [destruct Hin|].
  cbn in H. destruct H as (Hf & Hl & H). destruct Hin as [<-|Hin].
  - pose proof (contig_le _ _ _ H). lia.
  - destruct (IH _ _ _ H Hin) as (A1 & A2 & A3). lia.
Qed.

Lemma contig_app : forall a b p q s, contig p a q -> contig q b s -> contig p (a ++ b) s.
Proof.
  induction a as [|x a IH]; intros b p q s H1 H2; cbn in *.
  - subst. exact H2.
  - destruct H1 as (Hf & Hl & H1). split; [exact Hf|]. split; [exact Hl|]. eapply IH; eauto.
Qed.

(* the last read ends where the sequence ends *)
Lemma contig_last : forall rs p q, contig p rs q -> p < q ->
  exists r, In r rs /\ fst r + snd r = q /\ 0 < snd r.
Proof.
  induction rs as [|x rest IH]; intros p q H Hlt; cbn in H; [lia|].
  destruct H as (Hf & Hl & H).
  destruct (N.eq_dec (p + snd x) q) as [E|E].
  - exists x. split; [left; reflexivity|]. split; [lia|exact Hl].
  - pose proof (contig_le _ _ _ H).
    assert (L : p + snd x < q) by lia.
    destruct (IH _ _ H L) as (r & Hin & Hr). exists r. split; [right; exact Hin|exact Hr].
Qed.

Lemma contig_shift : forall s rs p q, contig p rs q -> contig (s + p) (shift s rs) (s + q).
Proof.
  intros s. induction rs as [|x rest IH]; intros p q H; cbn in *.
  - lia.
  - destruct H as (Hf & Hl & H). split; [lia|]. split; [exact Hl|].
    replace (s + p + snd x) with (s + (p + snd x)) by lia. apply IH. exact H.
Qed.

(** *** the buffered reader *)
Lemma take_eof : forall fuel B size direct pos buf m,
  size <= pos -> fst (fst (take fuel B size direct pos buf m)) = [].
Proof.
  intros [|f] B size direct pos buf m H; cbn; [reflexivity|].
  destruct (m <=? buf); [reflexivity|].
  destruct (size <=? pos) eqn:E; [reflexivity|lia].
Qed.

Lemma take_spec : forall fuel B size direct pos buf m rs p b,
  1 <= B -> buf <= pos -> pos <= size -> (N.to_nat (m - buf) < fuel)%nat ->
  take fuel B size direct pos buf m = (rs, p, b) ->
  contig pos rs p /\ b <= p /\ p <= size /\
  (pos - buf + m <= size -> p - b = pos - buf + m).
Proof.
  induction fuel as [|f IH]; intros B size direct pos buf m rs p b HB Hb Hp Hfu H; [lia|].
  cbn [take] in H.
  destruct (m <=? buf) eqn:E1.
  { inversion H; subst; clear H. cbn. repeat split; lia. }
  destruct (size <=? pos) eqn:E2.
  { inversion H; subst; clear H. cbn. repeat split; lia. }
  set (m' := m - buf) in *.
  set (r := if direct && (B <=? m') then N.min m' (size - pos) else N.min B (size - pos)) in *.
  assert (Hr : 1 <= r /\ r <= size - pos).
  { unfold r. destruct (direct && (B <=? m')); unfold m'; lia. }
  destruct (take f B size direct (pos + r) r m') as [[rs1 p1] b1] eqn:Et.
  inversion H; subst; clear H.
  assert (G1 : r <= pos + r) by lia.
  assert (G2 : pos + r <= size) by lia.
  assert (G3 : (N.to_nat (m' - r) < f)%nat) by (unfold m' in *; lia).
  destruct (IH _ _ _ _ _ _ _ _ _ HB G1 G2 G3 Et) as (C & B1 & P1 & K).
  split; [cbn; split; [reflexivity|split; [lia|exact C]]|].
  split; [exact B1|]. split; [exact P1|].
  intros Hc. unfold m' in *. rewrite K; lia.
Qed.

Lemma pages_reads_spec : forall pages B size pos buf,
  1 <= B -> buf <= pos -> pos <= size ->
  exists q b', contig pos (pages_reads B size pos buf pages) q /\ b' <= q /\ q <= size /\
               (pos - buf + sum_pages pages <= size -> q - b' = pos - buf + sum_pages pages).
Proof.
  induction pages as [|[h b] r IH]; intros B size pos buf HB Hb Hp; cbn [pages_reads sum_pages].
  - exists pos, buf. cbn. repeat split; lia.
  - destruct (take (S (N.to_nat h)) B size false pos buf h) as [[r1 p1] b1] eqn:E1.
    assert (F1 : (N.to_nat (h - buf) < S (N.to_nat h))%nat) by lia.
    destruct (take_spec _ _ _ _ _ _ _ _ _ _ HB Hb Hp F1 E1) as (C1 & B1 & P1 & K1).
    destruct (take (S (N.to_nat b)) B size true p1 b1 b) as [[r2 p2] b2] eqn:E2.
    assert (F2 : (N.to_nat (b - b1) < S (N.to_nat b))%nat) by lia.
    destruct (take_spec _ _ _ _ _ _ _ _ _ _ HB B1 P1 F2 E2) as (C2 & B2 & P2 & K2).
    destruct (IH B size p2 b2 HB B2 P2) as (q & b' & C3 & B3 & P3 & K3).
    exists q, b'. split; [eapply contig_app; [exact C1|eapply contig_app; eauto]|].
    split; [exact B3|]. split; [exact P3|].
    intros Hc. rewrite K3; [rewrite K2; [rewrite K1; lia|rewrite K1; lia]|rewrite K2; [rewrite K1; lia|rewrite K1; lia]].
Qed.

(* the reads of a chunk stay inside its section *)
Lemma chunk_reads_inside : forall B c r, 1 <= B -> In r (chunk_reads B c) ->
  ck_start c <= fst r /\ fst r + snd r <= ck_start c + ck_size c /\ 0 < snd r.
Proof.
  intros B c r HB Hin. unfold chunk_reads in Hin.
  destruct (pages_reads_spec (ck_pages c) B (ck_size c) 0 0 HB (N.le_refl 0) (N.le_0_l _)) as (q & b' & C & _ & P & _).
  pose proof (contig_shift (ck_start c) _ _ _ C) as C'.
  destruct (contig_in _ _ _ _ C' Hin) as (A1 & A2 & A3). lia.
Qed.

(* and, when the pages add up to the size of the chunk, tile it *)
Lemma chunk_reads_tile : forall B c, 1 <= B -> sum_pages (ck_pages c) = ck_size c ->
  contig (ck_start c) (chunk_reads B c) (ck_start c + ck_size c).
Proof.
  intros B c HB Hs. unfold chunk_reads.
  destruct (pages_reads_spec (ck_pages c) B (ck_size c) 0 0 HB (N.le_refl 0) (N.le_0_l _)) as (q & b' & C & Bq & P & K).
  assert (K0 : 0 - 0 + sum_pages (ck_pages c) <= ck_size c) by lia.
  assert (q = ck_size c) by (specialize (K K0); lia). subst q.
  replace (ck_start c) with (ck_start c + 0) at 1 by lia. apply contig_shift. exact C.
Qed.

(** *** the page index spans *)
Lemma fold_hull_inv : forall rs acc, (fst acc = 0 -> snd acc = 0) ->
  (fst (fold_left hull_step rs acc) = 0 -> snd (fold_left hull_step rs acc) = 0).
Proof.
  induction rs as [|r rs IH]; intros acc H; cbn [fold_left]; [exact H|].
  apply IH. unfold hull_step.
  destruct ((0 <? fst r) && (0 <? snd r)) eqn:E; [|exact H].
  cbn [fst snd]. destruct ((fst acc =? 0) || (fst r <? fst acc)) eqn:G; lia.
Qed.

Lemma hull_pos : forall rs, 0 < snd (hull rs) -> 0 < fst (hull rs).
Proof.
  intros rs H. unfold hull in *. cbn [fst snd] in *.
  pose proof (fold_hull_inv rs (0, 0) (fun _ => eq_refl)) as I. cbn [fst snd] in I.
  destruct (N.eq_dec (fst (fold_left hull_step rs (0, 0))) 0) as [E|E]; [|lia].
  rewrite (I E) in H. lia.
Qed.

(** *** every requested range lies inside a declared one *)
Definition inside (r d : N * N) : Prop := fst d <= fst r /\ fst r + snd r <= fst d + snd d.

Lemma inside_refl : forall r, inside r r.
Proof. intros r. unfold inside. lia. Qed.

Lemma bloom_reads_inside : forall B size c r, 1 <= B -> In r (bloom_reads B size c) ->
  inside r (fst (ck_bloom c), size - fst (ck_bloom c)).
Proof.
  intros B size c r HB Hin. unfold bloom_reads in Hin.
  destruct (0 <? fst (ck_bloom c)); [|destruct Hin].
  destruct (take (S (N.to_nat (snd (ck_bloom c)))) B size false (fst (ck_bloom c)) 0 (snd (ck_bloom c))) as [[rs p] b] eqn:E.
  destruct (N.le_gt_cases size (fst (ck_bloom c))) as [Hle|Hgt].
  - pose proof (take_eof (S (N.to_nat (snd (ck_bloom c)))) B size false (fst (ck_bloom c)) 0 (snd (ck_bloom c)) Hle) as Z.
    rewrite E in Z. cbn in Z. subst rs. destruct Hin.
  - assert (F1 : 0 <= fst (ck_bloom c)) by lia.
    assert (F2 : fst (ck_bloom c) <= size) by lia.
    assert (F3 : (N.to_nat (snd (ck_bloom c) - 0) < S (N.to_nat (snd (ck_bloom c))))%nat) by lia.
    destruct (take_spec _ _ _ _ _ _ _ _ _ _ HB F1 F2 F3 E) as (C & _ & P & _).
    destruct (contig_in _ _ _ _ C Hin) as (A1 & A2 & A3). unfold inside. cbn [fst snd]. lia.
Qed.

Theorem demand_inside_declared : forall t r,
  1 <= ft_bufsize t -> In r (full_demand t) ->
  exists d, In d (declared_ranges t) /\ inside r d.
Proof.
  intros t r HB Hin. unfold full_demand, open_demand in Hin.
  rewrite !in_app_iff in Hin. destruct Hin as [[Hin|[Hin|[Hin|Hin]]]|Hin].
  - destruct Hin as [<-|[<-|[]]].
    + exists (0, 4). split; [cbn; auto|apply inside_refl].
    + exists (ft_size t - 8, 8). split; [cbn; auto|apply inside_refl].
  - destruct (0 <? ft_footer t); [|destruct Hin]. destruct Hin as [<-|[]].
    eexists. split; [right; right; left; reflexivity|apply inside_refl].
  - unfold index_reads in Hin. rewrite in_app_iff in Hin. destruct Hin as [Hin|Hin].
    + destruct (0 <? fst (hull (map ck_ci (ft_rows t)))); [|destruct Hin]. destruct Hin as [<-|[]].
      eexists. split; [do 3 right; left; reflexivity|apply inside_refl].
    + destruct (0 <? fst (hull (map ck_oi (ft_rows t)))); [|destruct Hin]. destruct Hin as [<-|[]].
      eexists. split; [do 4 right; left; reflexivity|apply inside_refl].
  - apply in_flat_map in Hin. destruct Hin as (c & Hc & Hin).
    exists (fst (ck_bloom c), ft_size t - fst (ck_bloom c)). split.
    + unfold declared_ranges. apply in_app_iff. right. apply in_flat_map. exists c. split; [exact Hc|].
      right. unfold bloom_reads in Hin. destruct (0 <? fst (ck_bloom c)); [left; reflexivity|destruct Hin].
    + eapply bloom_reads_inside; eauto.
  - unfold read_demand in Hin. apply in_flat_map in Hin. destruct Hin as (c & Hc & Hin).
    exists (ck_start c, ck_size c). split.
    + unfold declared_ranges. apply in_app_iff. right. apply in_flat_map. exists c. split; [exact Hc|cbn; auto].
    + destruct (chunk_reads_inside _ _ _ HB Hin) as (A1 & A2 & _). unfold inside. cbn [fst snd]. lia.
Qed.

(** *** a needed range that ends beyond the available bytes: some requested
    read needs a byte which is not there *)
Theorem needed_range_is_requested : forall t d,
  1 <= ft_bufsize t -> chunks_tile t -> In d (needed_ranges t) -> 0 < snd d ->
  exists r, In r (full_demand t) /\ 0 < snd r /\ fst r + snd r = fst d + snd d.
Proof.
  intros t d HB Ht Hin Hl. unfold needed_ranges in Hin. apply in_app_iff in Hin.
  unfold full_demand, open_demand. destruct Hin as [Hin|Hin].
  - destruct Hin as [<-|[<-|[<-|[<-|[<-|[]]]]]].
    + exists (0, 4). split; [cbn; auto|cbn; lia].
    + exists (ft_size t - 8, 8). split; [cbn; auto|cbn; lia].
    + cbn [snd] in Hl. exists (ft_size t - (ft_footer t + 8), ft_footer t). split; [|cbn; lia].
      apply in_app_iff. left. apply in_app_iff. right. apply in_app_iff. left.
      destruct (0 <? ft_footer t) eqn:E; [left; reflexivity|lia].
    + pose proof (hull_pos _ Hl) as Hp. exists (hull (map ck_ci (ft_rows t))). split; [|lia].
      apply in_app_iff. left. apply in_app_iff. right. apply in_app_iff. right. apply in_app_iff. left.
      unfold index_reads. apply in_app_iff. left.
      destruct (0 <? fst (hull (map ck_ci (ft_rows t)))) eqn:E; [left; reflexivity|lia].
    + pose proof (hull_pos _ Hl) as Hp. exists (hull (map ck_oi (ft_rows t))). split; [|lia].
      apply in_app_iff. left. apply in_app_iff. right. apply in_app_iff. right. apply in_app_iff. left.
      unfold index_reads. apply in_app_iff. right.
      destruct (0 <? fst (hull (map ck_oi (ft_rows t)))) eqn:E; [left; reflexivity|lia].
  - apply in_map_iff in Hin. destruct Hin as (c & <- & Hc). cbn [fst snd] in *.
    pose proof (chunk_reads_tile _ c HB (Ht c Hc)) as C.
    assert (L : ck_start c < ck_start c + ck_size c) by lia.
    destruct (contig_last _ _ _ C L) as (r & Hr & Hend & Hpos).
    exists r. split; [|split; [exact Hpos|exact Hend]].
    apply in_app_iff. right. unfold read_demand. apply in_flat_map. exists c. split; assumption.
Qed.

Theorem full_read_of_cut_file_fails : forall t d p,
  1 <= ft_bufsize t -> chunks_tile t -> In d (needed_ranges t) -> 0 < snd d ->
  flen p < fst d + snd d ->
  read_all p (full_demand t) = None.
Proof.
  intros t d p HB Ht Hin Hl Hcut.
  destruct (needed_range_is_requested t d HB Ht Hin Hl) as (r & Hr & Hpos & Hend).
  apply read_all_beyond. exists (fst r), (snd r). split; [destruct r; exact Hr|]. split; [exact Hpos|lia].
Qed.

(* every byte of a needed range is requested: the demand covers it *)
Lemma contig_covers : forall rs p q x, contig p rs q -> p <= x < q ->
  exists r, In r rs /\ fst r <= x < fst r + snd r.
Proof.
  induction rs as [|y rest IH]; intros p q x H Hx; cbn in H; [lia|].
  destruct H as (Hf & Hl & H).
  destruct (N.lt_ge_cases x (p + snd y)) as [L|G].
  - exists y. split; [left; reflexivity|lia].
  - assert (L : p + snd y <= x < q) by lia.
    destruct (IH _ _ x H L) as (r & Hin & Hr). exists r. split; [right; exact Hin|exact Hr].
Qed.

Theorem chunk_fully_requested : forall t c x,
  1 <= ft_bufsize t -> chunks_tile t -> In c (ft_rows t) ->
  ck_start c <= x < ck_start c + ck_size c ->
  exists r, In r (read_demand t) /\ fst r <= x < fst r + snd r.
Proof.
  intros t c x HB Ht Hc Hx.
  pose proof (chunk_reads_tile _ c HB (Ht c Hc)) as C.
  destruct (contig_covers _ _ _ x C Hx) as (r & Hr & Hin).
  exists r. split; [|exact Hin]. unfold read_demand. apply in_flat_map. exists c. split; assumption.
Qed.
