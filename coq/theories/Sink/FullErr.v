(** C14 — a destination that takes every byte of a write and returns an error
    with the full count ([FullErrAt k], Sink/Model.v): the error reaches the
    caller of Write/Flush/Close on every path, ordinary write sites and the
    copy path alike.

    Invariant [Q]: as long as no call has returned an error, either the write
    that trips the fault has not happened yet (the position is below [k]) or
    the error sits in the sticky error of the bufio.Writer, from where the
    next operation on the buffer returns it.  Every mechanism of the model
    keeps [Q] or returns an error; a Close that returned nil has written
    every byte, so the position is not below [k], and the final flush
    returned the sticky error if there was one. *)
From Coq Require Import List Arith Bool NArith Lia.
From Coq Require Import ZifyN ZifyNat ZifyBool.
From PQ Require Import Sink.Model Sink.Proofs Sink.Copy Sink.CopyProofs.
Import ListNotations.
Open Scope N_scope.

Arguments Model.frev : simpl never.
Arguments Model.nlen : simpl never.

Section FullErr.
  Variable A : Type.
  Variable k : N.

  Notation sink := (sink A).
  Notation bufw := (bufw A).
  Notation st := (st A).
  Notation nlen := (nlen A).

  Definition fe (s : sink) : Prop := s_flt s = FullErrAt k.

  (* the bufio.Writer over the destination *)
  Definition Qb (s : sink) (b : bufw) : Prop :=
    fe s /\ (s_pos s < k \/ is_err (b_err b) = true).

  Definition Q (t : st) : Prop :=
    match bw t with
    | None => fe (snk t) /\ s_pos (snk t) < k
    | Some b => Qb (snk t) b
    end.

  Lemma is_err_cases : forall e, is_err e = true \/ e = ENone.
  Proof. destruct e; cbn; auto. Qed.

  (** the destination *)
  Lemma sink_write_fe : forall (s : sink) p s' n e,
    fe s -> sink_write A s p = (s', n, e) ->
    fe s' /\ (s_pos s < k -> e = ENone -> s_pos s' < k).
  Proof.
    intros s p s' n e Hf H. unfold sink_write in H. unfold fe in Hf. rewrite Hf in H.
    inversion H; subst; clear H. split; [exact Hf|].
    intros Hp He. cbn.
    destruct ((s_pos s <? k) && (k <=? s_pos s + nlen p)) eqn:G; [discriminate|].
    lia.
  Qed.

  (** bufio.Writer *)
  Lemma flush_Q : forall (s : sink) (b : bufw) s' b' e,
    Qb s b -> bufio_flush A s b = (s', b', e) -> Qb s' b' /\ b_err b' = e.
  Proof.
    intros s b s' b' e [Hf Hq] H. unfold bufio_flush in H.
    destruct (is_err (b_err b)) eqn:Ee.
    { inversion H; subst. split; [split; auto|reflexivity]. }
    destruct (b_n b =? 0).
    { assert (Hb : b_err b = ENone) by (apply is_err_none; exact Ee).
      inversion H; subst. split; [split; [exact Hf|]|exact Hb].
      destruct Hq as [Hq|Hq]; [left; exact Hq|discriminate Hq]. }
    destruct (sink_write A s (frev A (b_rev b))) as [[s1 n] e1] eqn:Ew.
    destruct (sink_write_fe _ _ _ _ _ Hf Ew) as [Hf1 Hp1].
    destruct (is_err (if negb (is_err e1) && (n <? b_n b) then EShort else e1)) eqn:E2.
    - inversion H; subst; clear H. split; [|reflexivity]. split; [exact Hf1|]. right. exact E2.
    - inversion H; subst; clear H. split; [|reflexivity]. split; [exact Hf1|]. left.
      destruct Hq as [Hq|Hq]; [|congruence].
      apply Hp1; [exact Hq|]. destruct e1; cbn in E2; try discriminate; reflexivity.
  Qed.

  Lemma push_Q : forall (s : sink) (b : bufw) c, Qb s b -> Qb s (b_push A b c).
  Proof. intros s b c [Hf Hq]. split; [exact Hf|]. exact Hq. Qed.

  Lemma loop_Q : forall direct fuel (s : sink) (b : bufw) p nn s' b' p' nn',
    Qb s b -> bufio_loop A direct fuel s b p nn = (s', b', p', nn') -> Qb s' b'.
  Proof.
    intros direct fuel. induction fuel as [|f IH]; intros s b p nn s' b' p' nn' HQ H.
    - cbn in H. inversion H; subst. exact HQ.
    - cbn [bufio_loop] in H.
      destruct ((b_avail A b <? nlen p) && negb (is_err (b_err b))) eqn:G.
      2:{ inversion H; subst. exact HQ. }
      destruct (direct && (b_n b =? 0)).
      + destruct (sink_write A s p) as [[s1 n] e1] eqn:Ew.
        destruct HQ as [Hf Hq].
        destruct (sink_write_fe _ _ _ _ _ Hf Ew) as [Hf1 Hp1].
        eapply IH; [|exact H]. split; [exact Hf1|]. cbn [b_err].
        destruct (is_err_cases e1) as [E|E]; [right; exact E|]. left.
        apply andb_true_iff in G. destruct G as [_ G].
        destruct Hq as [Hq|Hq]; [apply Hp1; assumption|].
        rewrite Hq in G. discriminate.
      + destruct (bufio_flush A s (b_push A b (firstn (N.to_nat (N.min (b_avail A b) (nlen p))) p))) as [[s1 b2] e1] eqn:Ef.
        destruct (flush_Q _ _ _ _ _ (push_Q _ _ _ HQ) Ef) as [HQ1 _].
        eapply IH; eauto.
  Qed.

  Lemma write_gen_Q : forall direct (s : sink) (b : bufw) p s' b' n e,
    Qb s b -> bufio_write_gen A direct s b p = (s', b', n, e) -> Qb s' b'.
  Proof.
    intros direct s b p s' b' n e HQ H. unfold bufio_write_gen in H.
    destruct (bufio_loop A direct (bufio_fuel A p) s b p 0) as [[[s1 b1] p1] nn] eqn:El.
    pose proof (loop_Q _ _ _ _ _ _ _ _ _ _ HQ El) as HQ1.
    destruct (is_err (b_err b1)); [inversion H; subst; exact HQ1|].
    destruct (b_avail A b1 <? nlen p1); inversion H; subst; [exact HQ1|].
    apply push_Q. exact HQ1.
  Qed.

  Lemma fill_Q : forall data (s : sink) (b : bufw) s' b' e,
    Qb s b -> bufio_fill A s b data = (s', b', e) -> Qb s' b'.
  Proof.
    induction data as [|x r IH]; intros s b s' b' e HQ H; cbn [bufio_fill] in H.
    - destruct (b_avail A b =? 0).
      + apply (flush_Q _ _ _ _ _ HQ H).
      + inversion H; subst. exact HQ.
    - destruct (b_avail A b =? 0).
      + destruct (bufio_flush A s b) as [[s1 b1] e1] eqn:Ef.
        destruct (flush_Q _ _ _ _ _ HQ Ef) as [HQ1 _].
        destruct (is_err e1); [inversion H; subst; exact HQ1|].
        eapply IH; [|exact H]. apply push_Q. exact HQ1.
      + eapply IH; [|exact H]. apply push_Q. exact HQ.
  Qed.

  (** the writer below offsetTrackingWriter, and offsetTrackingWriter:
      an operation returns an error or keeps the invariant *)
  Definition keeps (t' : st) (e : err) : Prop := is_err e = true \/ Q t'.

  Lemma lower_gen_Q : forall direct (t : st) p t' n e,
    Q t ->
    match bw t with
    | None => let '(s, n, e) := sink_write A (snk t) p in (mkSt s None, n, e)
    | Some b => let '(s, b', n, e) := bufio_write_gen A direct (snk t) b p in (mkSt s (Some b'), n, e)
    end = (t', n, e) ->
    keeps t' e.
  Proof.
    intros direct [s ob] p t' n e HQ H. unfold Q in HQ. cbn in *. destruct ob as [b|].
    - destruct (bufio_write_gen A direct s b p) as [[[s1 b1] n1] e1] eqn:E.
      inversion H; subst; clear H. right. unfold Q. cbn. eapply write_gen_Q; eauto.
    - destruct (sink_write A s p) as [[s1 n1] e1] eqn:E.
      inversion H; subst; clear H. destruct HQ as [Hf Hp].
      destruct (sink_write_fe _ _ _ _ _ Hf E) as [Hf1 Hp1].
      destruct (is_err_cases e) as [E1|E1]; [left; exact E1|].
      right. unfold Q. cbn. split; [exact Hf1|]. apply Hp1; assumption.
  Qed.

  Lemma otw_fix_Q : forall len (r : st * N * err) t' n e,
    (forall t1 n1 e1, r = (t1, n1, e1) -> keeps t1 e1) ->
    otw_fix A true len r = (t', n, e) -> keeps t' e.
  Proof.
    intros len [[t1 n1] e1] t' n e Hr H. specialize (Hr _ _ _ eq_refl).
    unfold otw_fix in H. cbn [andb] in H.
    destruct (negb (is_err e1) && (n1 <? len)); inversion H; subst; clear H.
    - left. reflexivity.
    - exact Hr.
  Qed.

  Lemma otw_write_Q : forall (t : st) p t' n e,
    Q t -> otw_write A true t p = (t', n, e) -> keeps t' e.
  Proof.
    intros t p t' n e HQ H. unfold otw_write in H.
    eapply otw_fix_Q; [|exact H]. intros t1 n1 e1 E. unfold lower_write in E.
    eapply (lower_gen_Q true); eauto.
  Qed.

  Lemma otw_write_string_Q : forall (t : st) p t' n e,
    Q t -> otw_write_string A true t p = (t', n, e) -> keeps t' e.
  Proof.
    intros t p t' n e HQ H. unfold otw_write_string in H.
    eapply otw_fix_Q; [|exact H]. intros t1 n1 e1 E. unfold lower_write_string in E.
    eapply (lower_gen_Q false); eauto.
  Qed.

  Lemma lower_write_Q : forall (t : st) p t' n e,
    Q t -> lower_write A t p = (t', n, e) -> keeps t' e.
  Proof. intros. unfold lower_write in *. eapply (lower_gen_Q true); eauto. Qed.

  Lemma write_pieces_Q : forall ps (t t' : st) e,
    Q t -> write_pieces A true t ps = (t', e) -> keeps t' e.
  Proof.
    induction ps as [|pc ps IH]; intros t t' e HQ H; cbn in H.
    - inversion H; subst. right. exact HQ.
    - destruct (write_piece A true t pc) as [[t1 n1] e1] eqn:E.
      assert (K : keeps t1 e1).
      { unfold write_piece in E. destruct (fst pc); [eapply otw_write_string_Q | eapply otw_write_Q]; eauto. }
      destruct (is_err e1) eqn:Ee.
      + inversion H; subst. left. exact Ee.
      + destruct K as [K|K]; [congruence|]. eapply IH; eauto.
  Qed.

  Definition writer_Q (w : st -> list A -> st * N * err) : Prop :=
    forall t c t' n e, Q t -> w t c = (t', n, e) -> keeps t' e.

  Lemma retry_Q : forall w, writer_Q w -> forall fuel c (t t' : st) e,
    Q t -> retry A w fuel t c = (t', e) -> keeps t' e.
  Proof.
    intros w Hw. induction fuel as [|f IH]; intros c t t' e HQ H.
    - destruct c; cbn in H; inversion H; subst; [right; exact HQ|left; reflexivity].
    - destruct c as [|x c]; [cbn in H; inversion H; subst; right; exact HQ|].
      cbn [retry] in H. remember (x :: c) as cc.
      destruct (w t cc) as [[t1 n1] e1] eqn:E.
      pose proof (Hw _ _ _ _ _ HQ E) as K.
      destruct (is_err e1) eqn:Ee.
      + inversion H; subst. left. exact Ee.
      + destruct K as [K|K]; [congruence|]. eapply IH; eauto.
  Qed.

  Lemma write_to_Q : forall w, writer_Q w -> forall chunks (t t' : st) e,
    Q t -> write_to A w t chunks = (t', e) -> keeps t' e.
  Proof.
    intros w Hw. induction chunks as [|c r IH]; intros t t' e HQ H; cbn in H.
    - inversion H; subst. right. exact HQ.
    - destruct (retry A w (length (snd c) + 2) t (snd c)) as [t1 e1] eqn:E.
      pose proof (retry_Q w Hw _ _ _ _ _ HQ E) as K.
      destruct (is_err e1) eqn:Ee.
      + inversion H; subst. left. exact Ee.
      + destruct K as [K|K]; [congruence|]. eapply IH; eauto.
  Qed.

  Lemma copy_loop_Q : forall chunks (s s' : sink) e,
    fe s -> s_pos s < k -> copy_loop A s chunks = (s', e) ->
    is_err e = true \/ (fe s' /\ s_pos s' < k).
  Proof.
    induction chunks as [|c r IH]; intros s s' e Hf Hp H; cbn in H.
    - inversion H; subst. right. split; assumption.
    - destruct (sink_write A s (snd c)) as [[s1 n1] e1] eqn:E.
      destruct (sink_write_fe _ _ _ _ _ Hf E) as [Hf1 Hp1].
      destruct (is_err e1) eqn:Ee; [inversion H; subst; left; exact Ee|].
      destruct (n1 <? nlen (snd c)); [inversion H; subst; left; reflexivity|].
      eapply IH; [exact Hf1| |exact H]. apply Hp1; [exact Hp|].
      destruct e1; cbn in Ee; congruence.
  Qed.

  Lemma run_mech_Q : forall m ps (t t' : st) e,
    Q t -> run_mech A true m t ps = (t', e) -> keeps t' e.
  Proof.
    intros m ps t t' e HQ H. destruct m; cbn [run_mech] in H.
    - eapply write_pieces_Q; eauto.
    - eapply write_to_Q; eauto. intros t0 c t1 n e0. apply otw_write_Q.
    - eapply write_to_Q; eauto. intros t0 c t1 n e0. apply lower_write_Q.
    - destruct t as [s ob]. unfold Q in HQ. cbn in *. destruct ob as [b|].
      + unfold bufio_read_from in H. destruct (is_err (b_err b)) eqn:Ee.
        * inversion H; subst. left. exact Ee.
        * destruct (bufio_fill A s b (site_data_of A ps)) as [[s1 b1] e1] eqn:Ef.
          inversion H; subst; clear H. right. unfold Q. cbn. eapply fill_Q; eauto.
      + destruct (copy_loop A s ps) as [s1 e1] eqn:Ec. inversion H; subst; clear H.
        destruct HQ as [Hf Hp].
        destruct (copy_loop_Q _ _ _ _ Hf Hp Ec) as [K|K]; [left; exact K|right; exact K].
  Qed.

  Lemma run_sites_Q : forall chk, (forall kd, chk kd = true) ->
    forall (xs : list (site A)) i (t t' : st) e j,
    Q t -> run_sites A true chk i t xs = (t', e, j) -> keeps t' e.
  Proof.
    intros chk Hchk. induction xs as [|x r IH]; intros i t t' e j HQ H; cbn [run_sites] in H.
    - inversion H; subst. right. exact HQ.
    - destruct (run_mech A true (st_mech x) t (st_pieces x)) as [t1 e1] eqn:E.
      pose proof (run_mech_Q _ _ _ _ _ HQ E) as K.
      rewrite Hchk, andb_true_r in H.
      destruct (is_err e1) eqn:Ee.
      + inversion H; subst. left. exact Ee.
      + destruct K as [K|K]; [congruence|]. eapply IH; eauto.
  Qed.

  Lemma init_Q : forall bs, 0 < k -> Q (init A (FullErrAt k) bs).
  Proof.
    intros [sz|] Hk; unfold Q, Qb, fe; cbn; [split; [reflexivity|left; exact Hk] | split; [reflexivity|exact Hk]].
  Qed.

  (* the final step shared by close and close_items: a state that keeps the
     invariant and holds at least k bytes in the destination after the final
     flush cannot have flushed without an error *)
  Lemma final_flush_Q : forall (s : sink) (b : bufw) s' b' e,
    Qb s b -> bufio_flush A s b = (s', b', e) -> k <= s_pos s' -> e <> ENone.
  Proof.
    intros s b s' b' e HQ H Hk E.
    destruct (flush_Q _ _ _ _ _ HQ H) as [[_ Hq] Hb]. subst e.
    destruct Hq as [Hq|Hq]; [lia|]. rewrite Hb in Hq. discriminate.
  Qed.

  (** an error returned with the full count by the write that takes the byte
      before offset [k], 0 < k <= size of the file, is reported by Write,
      Flush or Close *)
  Theorem full_err_fault_surfaces : forall chk, (forall kd, chk kd = true) ->
    forall bs (xs : list (site A)) t' e i,
    0 < k -> k <= nlen (all_data A xs) ->
    close A true chk true (init A (FullErrAt k) bs) xs = (t', e, i) ->
    e <> ENone.
  Proof.
    intros chk Hchk bs xs t' e i Hk0 Hk H E. subst e.
    destruct (close_nil_complete A chk Hchk _ _ _ _ (init_wf A _ bs) H) as (W&_&C).
    rewrite init_content in C. cbn in C.
    assert (Hpos : s_pos (snk t') = nlen (all_data A xs)).
    { destruct W as [[Hp _] _]. unfold Model.sink_bytes in C. rewrite Hp, <- C, nlen_frev. reflexivity. }
    unfold close in H.
    destruct (run_sites A true chk 0 (init A (FullErrAt k) bs) xs) as [[t1 e1] i1] eqn:Er.
    pose proof (run_sites_Q chk Hchk _ _ _ _ _ _ (init_Q bs Hk0) Er) as K.
    destruct (is_err e1) eqn:Ee; [inversion H; subst; discriminate|].
    destruct K as [K|K]; [congruence|].
    destruct t1 as [s1 ob]. unfold Q in K. cbn in *. destruct ob as [b|].
    - destruct (bufio_flush A s1 b) as [[s2 b2] e2] eqn:Ef.
      inversion H; subst; clear H. cbn in Hpos.
      apply (final_flush_Q _ _ _ _ _ K Ef); [lia|reflexivity].
    - inversion H; subst; clear H. cbn in Hpos. destruct K as [_ K]. lia.
  Qed.

  (** the copy path *)
  Lemma run_items_Q : forall chk, (forall kd, chk kd = true) ->
    forall (xs : list (item A)) i (t : st) q t' e j,
    Q t -> run_items A true true chk i t q xs = (t', e, j) -> is_cerr e = true \/ Q t'.
  Proof.
    intros chk Hchk. induction xs as [|x r IH]; intros i t q t' e j HQ H; cbn [run_items] in H.
    - inversion H; subst. right. exact HQ.
    - destruct x as [x|kd ps a|ps a|m].
      + destruct (run_mech A true (st_mech x) t (st_pieces x)) as [t1 e1] eqn:E.
        pose proof (run_mech_Q _ _ _ _ _ HQ E) as K.
        rewrite Hchk, andb_true_r in H.
        destruct (is_err e1) eqn:Ee; [inversion H; subst; left; reflexivity|].
        destruct K as [K|K]; [congruence|]. eapply IH; eauto.
      + destruct (run_mech A true MLowerCopy t (take_pieces A a ps)) as [t1 e1] eqn:E.
        pose proof (run_mech_Q _ _ _ _ _ HQ E) as K.
        rewrite Hchk, andb_true_r in H.
        destruct (is_err e1) eqn:Ee; [inversion H; subst; left; reflexivity|].
        destruct K as [K|K]; [congruence|].
        cbn [andb] in H. destruct (src_short A ps a); [inversion H; subst; left; reflexivity|].
        eapply IH; eauto.
      + cbn [andb] in H. destruct (src_short A ps a); [inversion H; subst; left; reflexivity|].
        eapply IH; eauto.
      + destruct (run_sites A true chk 0 t (map (fun ps => mkSite KBloomDeferred m ps) q)) as [[t1 e1] i1] eqn:E.
        pose proof (run_sites_Q chk Hchk _ _ _ _ _ _ HQ E) as K.
        destruct (is_err e1) eqn:Ee; [inversion H; subst; left; reflexivity|].
        destruct K as [K|K]; [congruence|]. eapply IH; eauto.
  Qed.

  Theorem copy_full_err_fault_surfaces : forall chk, (forall kd, chk kd = true) ->
    forall bs (xs : list (item A)) t' e i,
    0 < k -> k <= nlen (declared A [] xs) ->
    close_items A true true chk true (init A (FullErrAt k) bs) xs = (t', e, i) -> e <> CNil.
  Proof.
    intros chk Hchk bs xs t' e i Hk0 Hk H E. subst e.
    destruct (close_items_nil_complete A chk Hchk _ _ _ _ (init_wf A _ bs) H) as (W&_&C&_).
    rewrite init_content in C. cbn in C.
    assert (Hpos : s_pos (snk t') = nlen (declared A [] xs)).
    { destruct W as [[Hp _] _]. unfold Model.sink_bytes in C. rewrite Hp, <- C, nlen_frev. reflexivity. }
    unfold close_items in H.
    destruct (run_items A true true chk 0 (init A (FullErrAt k) bs) [] xs) as [[t1 e1] i1] eqn:Er.
    pose proof (run_items_Q chk Hchk _ _ _ _ _ _ _ (init_Q bs Hk0) Er) as K.
    destruct (is_cerr e1) eqn:Ee; [inversion H; subst; discriminate|].
    destruct K as [K|K]; [congruence|].
    destruct t1 as [s1 ob]. unfold Q in K. cbn in *. destruct ob as [b|].
    - destruct (bufio_flush A s1 b) as [[s2 b2] e2] eqn:Ef.
      destruct (is_err e2) eqn:E2; [inversion H|].
      inversion H; subst; clear H. cbn in Hpos.
      apply (final_flush_Q _ _ _ _ _ K Ef); [lia|]. destruct e2; cbn in E2; congruence.
    - inversion H; subst; clear H. cbn in Hpos. destruct K as [_ K]. lia.
  Qed.
End FullErr.
