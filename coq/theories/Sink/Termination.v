(** C14 — the fuelled loops of Sink/Model.v end by their own exit condition
    under the fault model (one short count at most): the answer given on fuel
    exhaustion is never produced. *)
From Coq Require Import List Arith Bool NArith Lia.
From Coq Require Import ZifyN ZifyNat ZifyBool.
From PQ Require Import Sink.Model Sink.Proofs.
Import ListNotations.
Open Scope N_scope.

Section Termination.
  Variable A : Type.

  Notation sink := (sink A).
  Notation bufw := (bufw A).
  Notation st := (st A).
  Notation nlen := (nlen A).

  (* rounds still possible: 2 per byte left, one for emptying a non-empty
     buffer, one for the pending short count *)
  Definition mu (s : sink) (b : bufw) (p : list A) : nat :=
    if is_err (b_err b) then 0
    else 2 * length p + (if b_n b =? 0 then 0 else 1) + (if s_fired s then 0 else 1).

  Lemma length_skipn_N : forall (n : N) (p : list A), n <= nlen p ->
    length (skipn (N.to_nat n) p) = (length p - N.to_nat n)%nat.
  Proof. intros. apply skipn_length. Qed.

  Lemma bufio_loop_exits : forall direct fuel (s : sink) (b : bufw) p nn s' b' p' nn',
    wf_sink A s -> wf_buf A b -> 1 <= b_size b -> (mu s b p < fuel)%nat ->
    bufio_loop A direct fuel s b p nn = (s', b', p', nn') ->
    is_err (b_err b') = true \/ nlen p' <= b_avail A b'.
  Proof.
    intros direct fuel. induction fuel as [|f IH]; intros s b p nn s' b' p' nn' Hs Hb Hsz Hmu H.
    - lia.
    - cbn [bufio_loop] in H.
      destruct ((b_avail A b <? nlen p) && negb (is_err (b_err b))) eqn:G.
      2:{ inversion H; subst; clear H. apply andb_false_iff in G. destruct G as [G|G].
          - right. lia.
          - left. now apply negb_false_iff in G. }
      apply andb_true_iff in G. destruct G as [G1 G2]. apply negb_true_iff in G2.
      assert (Hlen : (1 <= length p)%nat) by (unfold Model.nlen in G1; lia).
      unfold mu in Hmu. rewrite G2 in Hmu.
      destruct (direct && (b_n b =? 0)) eqn:D.
      + apply andb_true_iff in D. destruct D as [_ D]. rewrite D in Hmu.
        destruct (sink_write A s p) as [[s1 n] e1] eqn:Ew.
        pose proof (sink_write_spec A _ _ _ _ _ Hs Ew) as P.
        eapply IH in H; eauto.
        * apply (sw_wf _ _ _ _ _ _ P).
        * unfold mu. cbn [b_err b_n]. destruct (is_err e1) eqn:Ee; [lia|].
          apply is_err_none in Ee. subst e1. rewrite D.
          pose proof (sw_le _ _ _ _ _ _ P) as Hle.
          rewrite skipn_length.
          destruct (sw_full _ _ _ _ _ _ P eq_refl) as [Hn|(Hn&Hf0&Hf1)].
          -- unfold Model.nlen in Hn. destruct (s_fired s1); lia.
          -- rewrite Hf0 in Hmu. rewrite Hf1. lia.
      + set (n := N.min (b_avail A b) (nlen p)) in *.
        destruct (bufio_flush A s (b_push A b (firstn (N.to_nat n) p))) as [[s1 b2] e1] eqn:Ef.
        pose proof (bufio_flush_spec A _ _ _ _ _ Hs (b_push_wf A _ _ Hb) Ef) as P.
        eapply IH in H; eauto.
        * apply (fl_wfs _ _ _ _ _ _ P).
        * apply (fl_wfb _ _ _ _ _ _ P).
        * rewrite (fl_size _ _ _ _ _ _ P). cbn. exact Hsz.
        * unfold mu. rewrite (fl_err _ _ _ _ _ _ P).
          destruct (is_err e1) eqn:Ee; [lia|]. apply is_err_none in Ee. subst e1.
          destruct (fl_ok _ _ _ _ _ _ P eq_refl) as [_ Hn0]. rewrite Hn0. cbn [N.eqb].
          rewrite skipn_length.
          assert (Hfm : ((if s_fired s1 then 0 else 1) <= (if s_fired s then 0 else 1))%nat).
          { destruct (s_fired s) eqn:F; [rewrite (fl_fired _ _ _ _ _ _ P F); lia|destruct (s_fired s1); lia]. }
          assert (Hn : n = b_avail A b) by (unfold n; lia).
          destruct (b_n b =? 0) eqn:B0.
          -- assert (1 <= n) by (unfold b_avail in Hn; lia). unfold Model.nlen in *. lia.
          -- lia.
  Qed.

  (** Write/WriteString of the bufio.Writer never answer with the exhaustion
      value: the error returned is the sticky error of the writer *)
  Theorem bufio_write_gen_error_is_sticky : forall direct (s : sink) (b : bufw) p s' b' n e,
    wf_sink A s -> wf_buf A b -> 1 <= b_size b ->
    bufio_write_gen A direct s b p = (s', b', n, e) -> e = b_err b'.
  Proof.
    intros direct s b p s' b' n e Hs Hb Hsz H. unfold bufio_write_gen in H.
    destruct (bufio_loop A direct (bufio_fuel A p) s b p 0) as [[[s1 b1] p1] nn] eqn:El.
    assert (Hmu : (mu s b p < bufio_fuel A p)%nat).
    { unfold mu, bufio_fuel. destruct (is_err (b_err b)); [lia|].
      destruct (b_n b =? 0); destruct (s_fired s); lia. }
    pose proof (bufio_loop_exits _ _ _ _ _ _ _ _ _ _ Hs Hb Hsz Hmu El) as X.
    destruct (is_err (b_err b1)) eqn:Ee.
    - inversion H; subst. reflexivity.
    - destruct X as [X|X]; [discriminate|].
      destruct (b_avail A b1 <? nlen p1) eqn:Ea; [lia|].
      inversion H; subst. cbn. symmetry. now apply is_err_none.
  Qed.

  (** memory.Buffer.WriteTo: more fuel does not change the result *)
  Definition progress (w : st -> list A -> st * N * err) : Prop :=
    forall t c t' n e, wf_st A t -> w t c = (t', n, e) -> e = ENone ->
      n = nlen c \/ (s_fired (snk t) = false /\ s_fired (snk t') = true).

  Definition rmu (t : st) (c : list A) : nat :=
    (length c + (if s_fired (snk t) then 0 else 1))%nat.

  Lemma retry_nil : forall w fuel (t : st), retry A w fuel t [] = (t, ENone).
  Proof. intros. destruct fuel; reflexivity. Qed.

  Lemma retry_fuel_enough : forall w, writer_ok A w -> progress w ->
    forall fuel c (t : st), wf_st A t -> (rmu t c < fuel)%nat ->
    retry A w fuel t c = retry A w (S fuel) t c.
  Proof.
    intros w Hw Hp. induction fuel as [|f IH]; intros c t W Hmu; [lia|].
    destruct c as [|x c]; [reflexivity|].
    remember (x :: c) as cc. assert (Hcc : (1 <= length cc)%nat) by (subst; cbn; lia).
    assert (E1 : retry A w (S f) t cc = let '(t', n, e) := w t cc in
                  if is_err e then (t', e) else retry A w f t' (skipn (N.to_nat n) cc)) by (subst cc; reflexivity).
    assert (E2 : retry A w (S (S f)) t cc = let '(t', n, e) := w t cc in
                  if is_err e then (t', e) else retry A w (S f) t' (skipn (N.to_nat n) cc)) by (subst cc; reflexivity).
    rewrite E1, E2. clear E1 E2.
    destruct (w t cc) as [[t1 n1] e1] eqn:E.
    destruct (is_err e1) eqn:Ee; [reflexivity|]. apply is_err_none in Ee. subst e1.
    destruct (Hw _ _ _ _ _ W E) as (full & W1 & _ & [L _ _]).
    destruct (Hp _ _ _ _ _ W E eq_refl) as [Hn|[F0 F1]].
    - subst n1. rewrite skipn_nlen. now rewrite !retry_nil.
    - apply IH; [exact W1|]. unfold rmu in *. rewrite F0 in Hmu. rewrite F1, skipn_length. lia.
  Qed.

  Lemma progress_otw : progress (otw_write A true).
  Proof.
    intros t c t' n e W H E. left. destruct (otw_write_spec A _ _ _ _ _ W H) as (_&_&[_ _ F]). auto.
  Qed.

  Lemma progress_lower : progress (lower_write A).
  Proof.
    intros [s ob] c t' n e [Ws Wb] H E. cbn in *. unfold lower_write in H. cbn in H. destruct ob as [b|].
    - left. destruct (bufio_write_gen A true s b c) as [[[s1 b1] n1] e1] eqn:Eg. inversion H; subst; clear H.
      destruct (bufio_write_gen_spec A _ _ _ _ _ _ _ _ Ws Wb Eg) as (_&_&_&_&_&[_ _ F]). auto.
    - destruct (sink_write A s c) as [[s1 n1] e1] eqn:Es. inversion H; subst; clear H.
      pose proof (sink_write_spec A _ _ _ _ _ Ws Es) as P. cbn.
      destruct (sw_full _ _ _ _ _ _ P eq_refl) as [Hn|(_&F0&F1)]; auto.
  Qed.

  (* the fuel given by write_to is enough for both writers it is used with *)
  Theorem write_to_fuel_enough : forall w, (w = otw_write A true \/ w = lower_write A) ->
    forall (c : list A) (t : st) k, wf_st A t ->
    retry A w (length c + 2) t c = retry A w (length c + 2 + k) t c.
  Proof.
    intros w Hw c t k W.
    assert (Hok : writer_ok A w) by (destruct Hw; subst; [apply writer_ok_otw|apply writer_ok_lower]).
    assert (Hp : progress w) by (destruct Hw; subst; [apply progress_otw|apply progress_lower]).
    induction k as [|k IHk]; [now rewrite Nat.add_0_r|].
    rewrite IHk. replace (length c + 2 + S k)%nat with (S (length c + 2 + k)) by lia.
    apply retry_fuel_enough; auto. unfold rmu. destruct (s_fired (snk t)); lia.
  Qed.
End Termination.
