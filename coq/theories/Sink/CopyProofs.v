(** C14 — proofs about the copy path model Sink/Copy.v. *)
From Coq Require Import List Arith Bool NArith Lia.
From Coq Require Import ZifyN ZifyNat ZifyBool.
From PQ Require Import Sink.Model Sink.Proofs Sink.Termination Sink.Liveness Sink.Copy.
Import ListNotations.
Open Scope N_scope.

Arguments Model.frev : simpl never.
Arguments Model.nlen : simpl never.

Section CopyProofs.
  Variable A : Type.

  Notation st := (st A).
  Notation nlen := (nlen A).
  Notation item := (item A).
  Notation sd := (site_data_of A).
  Notation content := (content A).

  (** *** what a short source delivers *)
  Lemma sd_cons : forall (pc : piece A) r, sd (pc :: r) = snd pc ++ sd r.
  Proof. reflexivity. Qed.

  Lemma take_pieces_data : forall ps a,
    sd (take_pieces A a ps) = firstn (N.to_nat a) (sd ps).
  Proof.
    induction ps as [|pc r IH]; intros a; cbn [take_pieces].
    - cbn. now rewrite firstn_nil.
    - destruct (a =? 0) eqn:E0.
      + assert (a = 0) by lia. subst a. reflexivity.
      + rewrite !sd_cons. rewrite firstn_app.
        destruct (nlen (snd pc) <=? a) eqn:E1.
        * rewrite sd_cons, IH. unfold Model.nlen in *.
          rewrite (@firstn_all2 _ (N.to_nat a) (snd pc)) by lia. f_equal. f_equal. lia.
        * unfold Model.nlen in *. rewrite sd_cons. cbn [snd fst].
          replace (N.to_nat a - length (snd pc))%nat with O by lia.
          cbn. reflexivity.
  Qed.

  Lemma take_pieces_full : forall ps a, src_short A ps a = false -> sd (take_pieces A a ps) = sd ps.
  Proof.
    intros ps a H. rewrite take_pieces_data. unfold src_short, Model.nlen in H.
    apply firstn_all2. lia.
  Qed.

  Lemma take_pieces_short : forall ps a, src_short A ps a = true ->
    nlen (sd (take_pieces A a ps)) = a.
  Proof.
    intros ps a H. rewrite take_pieces_data. unfold src_short in H. apply nlen_firstn. lia.
  Qed.

  Lemma all_data_deferred : forall m (q : list (list (piece A))),
    all_data A (map (fun ps => mkSite KBloomDeferred m ps) q) = concat (map sd q).
  Proof.
    intros m. induction q as [|ps q IH]; [reflexivity|].
    cbn [map]. unfold all_data in *. cbn [map concat]. rewrite IH. reflexivity.
  Qed.

  Lemma first_short_none : forall (xs : list item) i, first_short A i xs = None <-> has_short A xs = false.
  Proof.
    induction xs as [|x r IH]; intros i; cbn; [tauto|].
    destruct (item_short A x); cbn; [split; discriminate|]. apply IH.
  Qed.

  Lemma first_short_some : forall (xs : list item) i k, first_short A i xs = Some k -> has_short A xs = true.
  Proof.
    intros xs i k H. destruct (has_short A xs) eqn:E; [reflexivity|].
    apply (first_short_none xs i) in E. congruence.
  Qed.

  (** *** a nil result: everything declared is in the destination and no source was short *)
  Lemma run_items_spec : forall chk, (forall k, chk k = true) ->
    forall (xs : list item) i (t : st) q t' j,
    wf_st A t -> run_items A true true chk i t q xs = (t', CNil, j) ->
    wf_st A t' /\ same_shape A t t' /\
    content t' = content t ++ declared A (map sd q) xs /\ has_short A xs = false.
  Proof.
    intros chk Hchk. induction xs as [|x r IH]; intros i t q t' j W H; cbn [run_items] in H.
    - inversion H; subst. split; [exact W|]. split; [apply same_shape_refl|].
      split; [cbn; now rewrite app_nil_r|reflexivity].
    - destruct x as [x|k ps a|ps a|m].
      + destruct (run_mech A true (st_mech x) t (st_pieces x)) as [t1 e1] eqn:E.
        destruct (run_mech_spec A _ _ _ _ _ W E) as (W1&S1&C1).
        rewrite Hchk, andb_true_r in H.
        destruct (is_err e1) eqn:Ee; [inversion H|].
        apply is_err_none in Ee. subst e1.
        destruct (IH _ _ _ _ _ W1 H) as (W2&S2&C2&Hs).
        split; [exact W2|]. split; [eapply same_shape_trans; eauto|].
        split; [|exact Hs].
        rewrite C2, (C1 eq_refl). cbn [declared]. unfold site_data. now rewrite app_assoc.
      + destruct (run_mech A true MLowerCopy t (take_pieces A a ps)) as [t1 e1] eqn:E.
        destruct (run_mech_spec A _ _ _ _ _ W E) as (W1&S1&C1).
        rewrite Hchk, andb_true_r in H.
        destruct (is_err e1) eqn:Ee; [inversion H|].
        apply is_err_none in Ee. subst e1. cbn [andb] in H.
        destruct (src_short A ps a) eqn:Es; [inversion H|].
        destruct (IH _ _ _ _ _ W1 H) as (W2&S2&C2&Hs).
        split; [exact W2|]. split; [eapply same_shape_trans; eauto|].
        split; [|cbn; rewrite Es; exact Hs].
        rewrite C2, (C1 eq_refl), (take_pieces_full _ _ Es). cbn [declared]. now rewrite app_assoc.
      + cbn [andb] in H. destruct (src_short A ps a) eqn:Es; [inversion H|].
        destruct (IH _ _ _ _ _ W H) as (W2&S2&C2&Hs).
        split; [exact W2|]. split; [exact S2|].
        split; [|cbn; rewrite Es; exact Hs].
        rewrite C2. cbn [declared]. rewrite map_app. cbn [map]. rewrite (take_pieces_full _ _ Es). reflexivity.
      + destruct (run_sites A true chk 0 t (map (fun ps => mkSite KBloomDeferred m ps) q)) as [[t1 e1] i1] eqn:E.
        destruct (run_sites_spec A chk Hchk _ _ _ _ _ _ W E) as (W1&S1&C1).
        destruct (is_err e1) eqn:Ee; [inversion H|].
        apply is_err_none in Ee. subst e1.
        destruct (IH _ _ _ _ _ W1 H) as (W2&S2&C2&Hs).
        split; [exact W2|]. split; [eapply same_shape_trans; eauto|].
        split; [|exact Hs].
        rewrite C2, (C1 eq_refl), all_data_deferred. cbn [declared map]. now rewrite app_assoc.
  Qed.

  Lemma close_items_nil_complete : forall chk, (forall k, chk k = true) ->
    forall (t : st) (xs : list item) t' i,
    wf_st A t -> close_items A true true chk true t xs = (t', CNil, i) ->
    wf_st A t' /\ same_shape A t t' /\
    sink_bytes A (snk t') = content t ++ declared A [] xs /\ has_short A xs = false.
  Proof.
    intros chk Hchk t xs t' i W H. unfold close_items in H.
    destruct (run_items A true true chk 0 t [] xs) as [[t1 e1] i1] eqn:E.
    destruct e1; cbn [is_cerr] in H; try (inversion H; fail).
    destruct (run_items_spec chk Hchk _ _ _ _ _ _ W E) as (W1&S1&C1&Hs). cbn [map] in C1.
    destruct t1 as [s1 ob]. destruct W1 as [Ws Wb]. cbn in *. destruct ob as [b|].
    - destruct (bufio_flush A s1 b) as [[s2 b2] e2] eqn:Ef.
      pose proof (bufio_flush_spec A _ _ _ _ _ Ws Wb Ef) as P.
      destruct (is_err e2) eqn:Ee; [inversion H|].
      apply is_err_none in Ee. subst e2. inversion H; subst; clear H.
      destruct (fl_ok _ _ _ _ _ _ P eq_refl) as [Hnil _].
      split; [split; [apply (fl_wfs _ _ _ _ _ _ P) | apply (fl_wfb _ _ _ _ _ _ P)]|].
      split.
      + destruct S1 as (A1&A2&A3). repeat split; cbn in *.
        * rewrite (fl_flt _ _ _ _ _ _ P). exact A1.
        * exact A2.
        * intros Hf. apply (fl_fired _ _ _ _ _ _ P). auto.
      + split; [|exact Hs]. cbn. rewrite <- C1, content_buf, <- (fl_cont _ _ _ _ _ _ P). unfold cont. rewrite Hnil.
        change (Model.frev A []) with (@nil A). now rewrite app_nil_r.
    - inversion H; subst; clear H.
      split; [split; [assumption|exact I]|]. split; [exact S1|].
      split; [|exact Hs]. cbn. rewrite <- C1, content_raw. reflexivity.
  Qed.

  (** Close (and every call before it) returned nil: the destination holds
      every module with its declared length, and no source was short *)
  Theorem copy_nil_means_complete : forall chk, (forall k, chk k = true) ->
    forall f bs (xs : list item) t' i,
    close_items A true true chk true (init A f bs) xs = (t', CNil, i) ->
    sink_bytes A (snk t') = declared A [] xs /\ has_short A xs = false.
  Proof.
    intros chk Hchk f bs xs t' i H.
    destruct (close_items_nil_complete chk Hchk _ _ _ _ (init_wf A f bs) H) as (_&_&C&Hs).
    rewrite init_content in C. split; assumption.
  Qed.

  (** a source that ends early is reported, whatever the destination does *)
  Theorem copy_source_short_reported : forall chk, (forall k, chk k = true) ->
    forall f bs (xs : list item) t' e i,
    has_short A xs = true ->
    close_items A true true chk true (init A f bs) xs = (t', e, i) -> e <> CNil.
  Proof.
    intros chk Hchk f bs xs t' e i Hs H E. subst e.
    destruct (copy_nil_means_complete chk Hchk _ _ _ _ _ H) as [_ Hn]. congruence.
  Qed.

  (** a failing destination is reported on the copy path as well *)
  Theorem copy_err_fault_surfaces : forall chk, (forall k, chk k = true) ->
    forall k bs (xs : list item) t' e i,
    k < nlen (declared A [] xs) ->
    close_items A true true chk true (init A (ErrAt k) bs) xs = (t', e, i) -> e <> CNil.
  Proof.
    intros chk Hchk k bs xs t' e i Hk H E. subst e.
    destruct (close_items_nil_complete chk Hchk _ _ _ _ (init_wf A _ bs) H) as (W&(F&_&_)&C&_).
    rewrite init_content in C. cbn in C, F.
    destruct W as [[Hp Hf] _]. rewrite F in Hf.
    assert (s_pos (snk t') = nlen (declared A [] xs)).
    { unfold Model.sink_bytes in C. rewrite Hp, <- C, nlen_frev. reflexivity. }
    lia.
  Qed.

  (** *** a destination that never fails: the call that copies the first short
      section reports io.ErrUnexpectedEOF; without a short source everything
      returns nil *)
  Lemma run_items_nofault : forall cur chk (xs : list item) i (t : st) q t' e j,
    wf_st A t -> healthy A t -> run_items A cur true chk i t q xs = (t', e, j) ->
    healthy A t' /\ wf_st A t' /\
    match first_short A i xs with
    | Some k => e = CSrc /\ j = k
    | None => e = CNil /\ j = (i + length xs)%nat
    end.
  Proof.
    intros cur chk. induction xs as [|x r IH]; intros i t q t' e j W Hh H; cbn [run_items] in H.
    - inversion H; subst. split; [exact Hh|]. split; [exact W|]. cbn. split; [reflexivity|lia].
    - destruct x as [x|k ps a|ps a|m]; cbn [first_short item_short].
      + destruct (run_mech A cur (st_mech x) t (st_pieces x)) as [t1 e1] eqn:E.
        destruct (run_mech_nofault A _ _ _ _ _ _ W Hh E) as (E1&Hh1&W1). subst e1. cbn in H.
        destruct (IH _ _ _ _ _ _ W1 Hh1 H) as (R1&R2&R3).
        split; [exact R1|]. split; [exact R2|].
        destruct (first_short A (S i) r); [exact R3|]. destruct R3 as [R3 R4]. split; [exact R3|cbn [length]; lia].
      + destruct (run_mech A cur MLowerCopy t (take_pieces A a ps)) as [t1 e1] eqn:E.
        destruct (run_mech_nofault A _ _ _ _ _ _ W Hh E) as (E1&Hh1&W1). subst e1. cbn [is_err andb] in H.
        destruct (src_short A ps a).
        * inversion H; subst. split; [exact Hh1|]. split; [exact W1|]. split; reflexivity.
        * destruct (IH _ _ _ _ _ _ W1 Hh1 H) as (R1&R2&R3).
          split; [exact R1|]. split; [exact R2|].
          destruct (first_short A (S i) r); [exact R3|]. destruct R3 as [R3 R4]. split; [exact R3|cbn [length]; lia].
      + cbn [andb] in H. destruct (src_short A ps a).
        * inversion H; subst. split; [exact Hh|]. split; [exact W|]. split; reflexivity.
        * destruct (IH _ _ _ _ _ _ W Hh H) as (R1&R2&R3).
          split; [exact R1|]. split; [exact R2|].
          destruct (first_short A (S i) r); [exact R3|]. destruct R3 as [R3 R4]. split; [exact R3|cbn [length]; lia].
      + destruct (run_sites A cur chk 0 t (map (fun ps => mkSite KBloomDeferred m ps) q)) as [[t1 e1] i1] eqn:E.
        destruct (run_sites_nofault A _ _ _ _ _ _ _ _ W Hh E) as (E1&_&Hh1&W1). subst e1. cbn [is_err] in H.
        destruct (IH _ _ _ _ _ _ W1 Hh1 H) as (R1&R2&R3).
        split; [exact R1|]. split; [exact R2|].
        destruct (first_short A (S i) r); [exact R3|]. destruct R3 as [R3 R4]. split; [exact R3|cbn [length]; lia].
  Qed.

  Theorem copy_short_reported_by_copying_call : forall chk bs (xs : list item) k t' e i,
    (forall sz, bs = Some sz -> 1 <= sz) ->
    first_short A 0 xs = Some k ->
    close_items A true true chk true (init A NoFault bs) xs = (t', e, i) ->
    e = CSrc /\ i = k.
  Proof.
    intros chk bs xs k t' e i Hbs Hk H. unfold close_items in H.
    destruct (run_items A true true chk 0 (init A NoFault bs) [] xs) as [[t1 e1] i1] eqn:E.
    destruct (run_items_nofault _ _ _ _ _ _ _ _ _ (init_wf A NoFault bs) (init_healthy A bs Hbs) E) as (_&_&R).
    rewrite Hk in R. destruct R as [R1 R2]. subst e1 i1. cbn [is_cerr] in H. inversion H; subst. split; reflexivity.
  Qed.

  Theorem copy_fault_free_complete : forall chk, (forall k, chk k = true) ->
    forall bs (xs : list item) t' e i,
    (forall sz, bs = Some sz -> 1 <= sz) ->
    has_short A xs = false ->
    close_items A true true chk true (init A NoFault bs) xs = (t', e, i) ->
    e = CNil /\ i = length xs /\ sink_bytes A (snk t') = declared A [] xs.
  Proof.
    intros chk Hchk bs xs t' e i Hbs Hs H.
    assert (E : e = CNil /\ i = length xs).
    { unfold close_items in H.
      destruct (run_items A true true chk 0 (init A NoFault bs) [] xs) as [[t1 e1] i1] eqn:Er.
      destruct (run_items_nofault _ _ _ _ _ _ _ _ _ (init_wf A NoFault bs) (init_healthy A bs Hbs) Er) as (Hh1&W1&R).
      apply (first_short_none xs 0) in Hs. rewrite Hs in R. destruct R as [R1 R2]. subst e1 i1.
      cbn [is_cerr] in H.
      destruct t1 as [s1 ob]. destruct W1 as [Ws Wb]. destruct Hh1 as [Hf Hb]. cbn in *.
      destruct ob as [b|].
      - destruct Hb as [He Hsz].
        destruct (bufio_flush A s1 b) as [[s2 b2] e2] eqn:Ef.
        destruct (bufio_flush_nofault A _ _ _ _ _ Ws Wb Hf He Ef) as (R1&_). subst e2.
        inversion H; subst. split; reflexivity.
      - inversion H; subst. split; reflexivity. }
    destruct E as [E1 E2]. subst e. split; [reflexivity|]. split; [exact E2|].
    eapply copy_nil_means_complete; eauto.
  Qed.

  (** the items that are ordinary sites behave as the list of sites *)
  Lemma run_items_plain : forall cur cnt chk (xs : list (site A)) i (t : st) q,
    run_items A cur cnt chk i t q (map IPlain xs) =
    let '(t', e, j) := run_sites A cur chk i t xs in (t', if is_err e then CDst e else CNil, j).
  Proof.
    intros cur cnt chk. induction xs as [|x r IH]; intros i t q; cbn [map run_items run_sites]; [reflexivity|].
    destruct (run_mech A cur (st_mech x) t (st_pieces x)) as [t1 e1].
    destruct (is_err e1 && chk (st_kind x)) eqn:G.
    - apply andb_true_iff in G. destruct G as [G _]. rewrite G. reflexivity.
    - apply IH.
  Qed.
End CopyProofs.
