(** C14 — reader side: the byte ranges OpenFile and a full read request from
    the io.ReaderAt, computed from the chunk table of the footer.  Executable,
    no proofs.

    Go sources mirrored (file.go at 75d9b69):
      72-131    OpenFile: readAt(header magic, 0), readAt(8 bytes, size-8),
                readAt(footer, size-(footerSize+8))   (OptimisticRead off)
      355-543   ReadPageIndex: ONE readAt for the span from the smallest column
                index offset to the largest column index end, ONE for the offset
                indexes (only chunks with offset > 0 and length > 0 count)
      259-321   bloom filter headers: a bufio.Reader of ReadBufferSize bytes over
                io.NewSectionReader(f.reader, 0, size), positioned at
                BloomFilterOffset; the header is decoded byte by byte
      1143-1156 FilePages.init: bufio.Reader of ReadBufferSize bytes over
                io.NewSectionReader(reader, chunk start, TotalCompressedSize)
      1266-1281 page header decoded from the bufio.Reader (thrift compact:
                ReadByte / io.ReadFull of short fields), 1490-1494 page body
                io.ReadFull(reader, page)
    bufio.Reader (Go 1.24): with an empty buffer, ReadByte/Discard and a Read of
    fewer than len(buf) bytes make ONE read of len(buf) bytes from the section
    reader (which clips it to the end of the section); a Read of at least
    len(buf) bytes goes straight to the section reader with the caller's
    slice.  Nothing is requested at the end of the section (io.SectionReader
    answers io.EOF without calling ReadAt). *)
From Coq Require Import List Arith Bool NArith.
Import ListNotations.
Open Scope N_scope.

(** the buffered reader over a section of [size] bytes: [pos] bytes were
    requested so far, [buf] of them are still unread.  [take] consumes [m]
    bytes: byte by byte ([direct = false], page headers) or with one
    io.ReadFull ([direct = true], page bodies).  Result: the reads issued
    (offset in the section, length), and the new pos and buf. *)
Fixpoint take (fuel : nat) (B size : N) (direct : bool) (pos buf m : N) : list (N * N) * N * N :=
  match fuel with
  | O => ([], pos, buf)
  | S f =>
      if m <=? buf then ([], pos, buf - m)
      else if size <=? pos then ([], pos, 0)           (* io.EOF *)
      else
        let m' := m - buf in
        let r := if direct && (B <=? m') then N.min m' (size - pos) else N.min B (size - pos) in
        let '(rs, p, b) := take f B size direct (pos + r) r m' in
        ((pos, r) :: rs, p, b)
  end.

(* pages = (header length, body length) *)
Fixpoint pages_reads (B size pos buf : N) (pages : list (N * N)) : list (N * N) :=
  match pages with
  | [] => []
  | (h, b) :: r =>
      let '(r1, p1, b1) := take (S (N.to_nat h)) B size false pos buf h in
      let '(r2, p2, b2) := take (S (N.to_nat b)) B size true p1 b1 b in
      r1 ++ r2 ++ pages_reads B size p2 b2 r
  end.

(** one column chunk of the footer *)
Record chunk_row := mkChunk {
  ck_start : N;                 (* DictionaryPageOffset if not 0, else DataPageOffset *)
  ck_size : N;                  (* TotalCompressedSize *)
  ck_pages : list (N * N);      (* header and body lengths of its pages, dictionary page first *)
  ck_ci : N * N;                (* ColumnIndexOffset, ColumnIndexLength *)
  ck_oi : N * N;                (* OffsetIndexOffset, OffsetIndexLength *)
  ck_bloom : N * N              (* BloomFilterOffset, length of the thrift header found there *)
}.

Record ftable := mkTable {
  ft_size : N;                  (* the size given to OpenFile *)
  ft_footer : N;                (* footer length found in the last 8 bytes *)
  ft_bufsize : N;               (* len(buf) of the bufio.Readers: max(ReadBufferSize, 16) *)
  ft_rows : list chunk_row      (* row group by row group, column by column *)
}.

Definition shift (start : N) (rs : list (N * N)) : list (N * N) :=
  map (fun r => (start + fst r, snd r)) rs.

Definition chunk_reads (B : N) (c : chunk_row) : list (N * N) :=
  shift (ck_start c) (pages_reads B (ck_size c) 0 0 (ck_pages c)).

(* ReadPageIndex: (smallest offset, largest end) of the ranges with offset > 0 and length > 0 *)
Definition hull_step (acc : N * N) (r : N * N) : N * N :=
  if (0 <? fst r) && (0 <? snd r) then
    (if (fst acc =? 0) || (fst r <? fst acc) then fst r else fst acc, N.max (snd acc) (fst r + snd r))
  else acc.

Definition hull (rs : list (N * N)) : N * N :=
  let acc := fold_left hull_step rs (0, 0) in (fst acc, snd acc - fst acc).

Definition index_reads (rows : list chunk_row) : list (N * N) :=
  let ci := hull (map ck_ci rows) in
  let oi := hull (map ck_oi rows) in
  (if 0 <? fst ci then [ci] else []) ++ (if 0 <? fst oi then [oi] else []).

(* the header of one bloom filter: a buffered reader over [0, size) positioned at the offset *)
Definition bloom_reads (B size : N) (c : chunk_row) : list (N * N) :=
  if 0 <? fst (ck_bloom c) then
    let '(rs, _, _) := take (S (N.to_nat (snd (ck_bloom c)))) B size false (fst (ck_bloom c)) 0 (snd (ck_bloom c)) in rs
  else [].

Definition open_demand (t : ftable) : list (N * N) :=
  [(0, 4); (ft_size t - 8, 8)] ++
  (if 0 <? ft_footer t then [(ft_size t - (ft_footer t + 8), ft_footer t)] else []) ++
  index_reads (ft_rows t) ++
  flat_map (bloom_reads (ft_bufsize t) (ft_size t)) (ft_rows t).

Definition read_demand (t : ftable) : list (N * N) :=
  flat_map (chunk_reads (ft_bufsize t)) (ft_rows t).

(** every ReadAt of OpenFile followed by a read of every page of every column chunk *)
Definition full_demand (t : ftable) : list (N * N) := open_demand t ++ read_demand t.

(** the ranges the footer (and the size given to OpenFile) declares: magic,
    trailer, footer, the two page index spans, every column chunk; for a bloom
    filter the footer gives the offset only (BloomFilterLength is optional and
    not used by OpenFile): from there to the end of the file *)
Definition declared_ranges (t : ftable) : list (N * N) :=
  [(0, 4); (ft_size t - 8, 8); (ft_size t - (ft_footer t + 8), ft_footer t);
   hull (map ck_ci (ft_rows t)); hull (map ck_oi (ft_rows t))] ++
  flat_map (fun c => (ck_start c, ck_size c) ::
                     (if 0 <? fst (ck_bloom c) then [(fst (ck_bloom c), ft_size t - fst (ck_bloom c))] else []))
           (ft_rows t).

(** the declared ranges every byte of which a full read needs *)
Definition needed_ranges (t : ftable) : list (N * N) :=
  [(0, 4); (ft_size t - 8, 8); (ft_size t - (ft_footer t + 8), ft_footer t);
   hull (map ck_ci (ft_rows t)); hull (map ck_oi (ft_rows t))] ++
  map (fun c => (ck_start c, ck_size c)) (ft_rows t).

Fixpoint sum_pages (l : list (N * N)) : N := match l with [] => 0 | (h, b) :: r => h + b + sum_pages r end.

(* the pages of every chunk add up to its TotalCompressedSize *)
Definition chunks_tile (t : ftable) : Prop :=
  forall c, In c (ft_rows t) -> sum_pages (ck_pages c) = ck_size c.
