(** C14 — reader side: OpenFile's validation of a byte string and the readAt
    wrapper.  Executable, no proofs.

    Go sources mirrored (lines of `git show 6b7b39f:file.go`):
      65-131    OpenFile: header magic, trailing 8 bytes, footer length, footer read
      133-213   footer decoding (abstract: [decode])
      613-627   File.ReadAt
      1765-1774 readAt: the error of the io.ReaderAt is kept unless the buffer was filled
      1192-1268 FilePages.ReadPage, 1473-1510 readPage, 1536-1549 endOfChunk
    bytes.Reader.ReadAt stands for a well-behaved io.ReaderAt over the file image. *)
From Coq Require Import List Arith Bool NArith.
Import ListNotations.
Open Scope N_scope.

Definition byte := N.

Definition magic_par1 : list byte := [80; 65; 82; 49].   (* "PAR1" *)
Definition magic_pare : list byte := [80; 65; 82; 69].   (* "PARE" *)

Fixpoint beqb (a b : list byte) : bool :=
  match a, b with
  | [], [] => true
  | x :: a', y :: b' => (x =? y) && beqb a' b'
  | _, _ => false
  end.

Definition is_magic (b : list byte) : bool := beqb b magic_par1 || beqb b magic_pare.

(* binary.LittleEndian.Uint32 *)
Definition le32 (b : list byte) : N :=
  match b with
  | [b0; b1; b2; b3] => b0 + 256 * b1 + 65536 * b2 + 16777216 * b3
  | _ => 0
  end.

Definition slice (f : list byte) (off len : N) : list byte :=
  firstn (N.to_nat len) (skipn (N.to_nat off) f).

Definition flen (f : list byte) : N := N.of_nat (length f).

(** errors of an io.ReaderAt *)
Inductive rerr := RNone | REOF | ROther.
Definition is_rerr (e : rerr) : bool := match e with RNone => false | _ => true end.

(** the contract of io.ReaderAt.ReadAt on a buffer of [len] bytes: "When
    ReadAt returns n < len(p), it returns a non-nil error" *)
Definition readerat_ok (len : N) (r : N * rerr) : Prop :=
  fst r <= len /\ (fst r < len -> snd r <> RNone).

(* file.go:1765  func readAt(r io.ReaderAt, p []byte, off int64) (n int, err error) *)
Definition readat_wrap (len : N) (r : N * rerr) : N * rerr :=
  if fst r =? len then (fst r, RNone) else r.

(* the wrapper as it would be without the guard (mutant: drop errors when n > 0) — used by
   the non-vacuity examples only *)
Definition readat_wrap_lenient (len : N) (r : N * rerr) : N * rerr :=
  if 0 <? fst r then (fst r, RNone) else r.

(* bytes.Reader.ReadAt over the image f: (n, err); negative offsets are an
   error (they arise from size-8 and size-(footerSize+8) in OpenFile and are
   represented by [None]) *)
Definition image_readat (f : list byte) (off : option N) (len : N) : N * rerr :=
  match off with
  | None => (0, ROther)
  | Some o =>
      if flen f <=? o then (0, REOF)
      else let n := N.min len (flen f - o) in (n, if n <? len then REOF else RNone)
  end.

(* file.go:613 func (f *File) ReadAt(b []byte, off int64): [ra off len] is the
   underlying reader *)
Definition file_readat (size : N) (ra : N -> N -> N * rerr) (off len : N) : N * rerr :=
  if size <=? off then (0, REOF)
  else
    let limit := size - off in
    if limit <? len then
      let '(n, e) := readat_wrap limit (ra off limit) in
      (n, if is_rerr e then e else REOF)
    else readat_wrap len (ra off len).

(** reads after a successful open are byte ranges *)
Inductive rd := RdErr | RdOk (data : list byte).

Definition read_range (f : list byte) (off len : N) : rd :=
  let '(n, e) := readat_wrap len (image_readat f (Some off) len) in
  if is_rerr e then RdErr else RdOk (slice f off n).

(* the ranges a reader needs, in order; the first failing read ends it *)
Fixpoint read_all (f : list byte) (rs : list (N * N)) : option (list (list byte)) :=
  match rs with
  | [] => Some []
  | (off, len) :: r =>
      match read_range f off len with
      | RdErr => None
      | RdOk d => match read_all f r with None => None | Some ds => Some (d :: ds) end
      end
  end.

(** OpenFile *)
Inductive open_err :=
| OShortHeader      (* "reading magic header of parquet file" (file.go:75) *)
| OBadHeaderMagic   (* "invalid magic header" (86) *)
| ONeedDecryption   (* "encrypted footer ... no DecryptionConfig" (83, and 134 on the trailing magic) *)
| OShortTail        (* "reading magic footer of parquet file" (109) *)
| OBadTailMagic     (* "invalid magic footer" (115) *)
| OFooterRange      (* "reading footer of parquet file" (129) *)
| OFooterDecode.    (* "reading parquet file metadata" / FileCryptoMetaData / decrypting footer (138-212) *)

Inductive open_res (M : Type) := OpenErr (e : open_err) | OpenOk (m : M).
Arguments OpenErr {M}. Arguments OpenOk {M}.

Section Open.
  Variable M : Type.

  (* [hdr]: bytes 0..4 when L >= 4; [tail]: the last 8 bytes when L >= 8;
     [decode_at off len]: the footer decoder applied to image[off, off+len) *)
  Definition open_core (has_key : bool) (L : N) (hdr tail : list byte) (decode_at : N -> N -> option M)
    : open_res M :=
    if L <? 4 then OpenErr OShortHeader
    else if negb (is_magic hdr) then OpenErr OBadHeaderMagic
    else if beqb hdr magic_pare && negb has_key then OpenErr ONeedDecryption
    else if L <? 8 then OpenErr OShortTail
    else if negb (is_magic (skipn 4 tail)) then OpenErr OBadTailMagic
    else
      let fs := le32 (firstn 4 tail) in
      if L <? fs + 8 then OpenErr OFooterRange
      (* an encrypted footer (trailing magic "PARE") needs keys: checked again here
         since 383cf87, the header check does not see a file whose two magics differ *)
      else if beqb (skipn 4 tail) magic_pare && negb has_key then OpenErr ONeedDecryption
      else match decode_at (L - 8 - fs) fs with
           | None => OpenErr OFooterDecode
           | Some m => OpenOk m
           end.

  Variable decode : list byte -> option M.

  Definition open_file (has_key : bool) (f : list byte) : open_res M :=
    open_core has_key (flen f) (slice f 0 4) (slice f (flen f - 8) 8)
              (fun off len => decode (slice f off len)).

  (* the last bytes of p are a footer + length + magic which decodes *)
  Definition valid_trailer (p : list byte) : Prop :=
    8 <= flen p /\ is_magic (slice p (flen p - 4) 4) = true /\
    le32 (slice p (flen p - 8) 4) + 8 <= flen p /\
    decode (slice p (flen p - 8 - le32 (slice p (flen p - 8) 4)) (le32 (slice p (flen p - 8) 4))) <> None.
End Open.

(** FilePages.ReadPage over the section of one column chunk (file.go:1192-1268,
    readPage 1473-1510, endOfChunk 1536-1549).  [pages]: (header length, body length) of
    the pages of the chunk in order; [size]: the sum of all of them
    (ColumnMetaData.TotalCompressedSize); [avail]: how many bytes of the section
    the source delivers (a source that ended early answers short reads with
    io.EOF from there on).  Result: number of pages returned, and how the
    sequence ended.
    [cur = false] is the code before commits fc42a8f and its follow-up: every
    io.EOF met while looking for the next page header, and the io.EOF of
    io.ReadFull when no byte of a page body could be read, were taken for the
    end of the chunk. *)
Inductive pages_end :=
| PEnd          (* io.EOF: end of the column chunk *)
| PUnexpected.  (* an error wrapping io.ErrUnexpectedEOF *)

Definition end_of_chunk (cur : bool) (size consumed : N) : pages_end :=
  if cur && (consumed <? size) then PUnexpected else PEnd.

Fixpoint read_pages (cur : bool) (size avail consumed : N) (pages : list (N * N)) : nat * pages_end :=
  match pages with
  | [] => (O, end_of_chunk cur size consumed)
  | (h, b) :: r =>
      if avail <=? consumed then (O, end_of_chunk cur size consumed)   (* io.EOF on the first byte of the header *)
      else if avail <? consumed + h then (O, PUnexpected)              (* the thrift decoder runs out of bytes inside the header *)
      else if (avail =? consumed + h) && (0 <? b) then
        (O, if cur then PUnexpected else PEnd)                          (* io.ReadFull of the body reads nothing: io.EOF *)
      else if consumed + h + b <=? avail then
        let '(k, e) := read_pages cur size avail (consumed + h + b) r in (S k, e)
      else (O, PUnexpected)                                             (* io.ReadFull reads part of the body *)
  end.

(* for the oracle: verdict for a prefix given its length, first 4 and last 8
   bytes and whether the footer bytes decode *)
Definition open_verdict (has_key : bool) (L : N) (hdr tail : list byte) (decodes : bool) : option open_err :=
  match open_core unit has_key L hdr tail (fun _ _ => if decodes then Some tt else None) with
  | OpenErr e => Some e
  | OpenOk _ => None
  end.

(** * OpenFile under the file options that change the open stages (file.go:72-131)

    SkipMagicBytes skips the header stage.  With OptimisticRead the read of the
    tail covers min(ReadBufferSize, L) bytes, but at least the 8 bytes of footer
    length + magic ([tail_read_size]; the read starts at L - size, a negative
    offset is an error of the io.ReaderAt), the length and the magic are the last
    8 bytes of that buffer, and a footer that lies inside the buffer is not
    requested again (so it cannot be out of range).  SkipPageIndex,
    SkipBloomFilters, PrefetchBloomFilters and the read mode act after the
    footer was decoded and do not appear.  The check for keys on the trailing
    magic (file.go:134, commit 383cf87) is the only one left under
    SkipMagicBytes.  [open_core_cfg false false] is
    [open_core] (ReaderProofs.open_core_cfg_tail_stages). *)
Definition tail_read_size (optimistic : bool) (rbs L : N) : N :=
  let n := N.min rbs L in
  if optimistic && (8 <=? n) then n else 8.

Section OpenCfg.
  Variable M : Type.

  Definition open_core_cfg (skip_magic optimistic : bool) (rbs : N) (has_key : bool) (L : N)
      (hdr tail : list byte) (decode_at : N -> N -> option M) : open_res M :=
    if negb skip_magic && (L <? 4) then OpenErr OShortHeader
    else if negb skip_magic && negb (is_magic hdr) then OpenErr OBadHeaderMagic
    else if negb skip_magic && (beqb hdr magic_pare && negb has_key) then OpenErr ONeedDecryption
    else
      let ts := tail_read_size optimistic rbs L in
      if L <? ts then OpenErr OShortTail
      else if negb (is_magic (skipn 4 tail)) then OpenErr OBadTailMagic
      else
        let fs := le32 (firstn 4 tail) in
        if negb (fs <=? ts - 8) && (L <? fs + 8) then OpenErr OFooterRange
        else if beqb (skipn 4 tail) magic_pare && negb has_key then OpenErr ONeedDecryption
        else match decode_at (L - 8 - fs) fs with
             | None => OpenErr OFooterDecode
             | Some m => OpenOk m
             end.

  Variable decode : list byte -> option M.

  Definition open_file_cfg (skip_magic optimistic : bool) (rbs : N) (has_key : bool) (f : list byte) : open_res M :=
    open_core_cfg skip_magic optimistic rbs has_key (flen f) (slice f 0 4) (slice f (flen f - 8) 8)
                  (fun off len => decode (slice f off len)).
End OpenCfg.

Definition open_verdict_cfg (skip_magic optimistic : bool) (rbs : N) (has_key : bool) (L : N) (hdr tail : list byte) (decodes : bool) : option open_err :=
  match open_core_cfg unit skip_magic optimistic rbs has_key L hdr tail (fun _ _ => if decodes then Some tt else None) with
  | OpenErr e => Some e
  | OpenOk _ => None
  end.

(** * FilePages.SeekToRow, then ReadPage to the end of the column chunk

    file.go, FilePages.SeekToRow / ReadPage.  The chunk is
    [dict ++ skipped ++ rest] (each a list of (header length, body length)):
    [dict] the dictionary page if any, [skipped] the data pages that end before
    the row of the seek, [rest] the page holding that row and the following ones.

    - with an offset index ([noindex = false]) the stream is repositioned at
      the page of the row (PageLocations[target].Offset): the skipped pages
      are not requested;
    - without offset index (SkipPageIndex, or a file without page index) the
      stream is repositioned at the first data page (f.dataOffset) and f.skip
      = row: ReadPage reads, checks and decodes every skipped page (readPage:
      io.ReadFull of the body) and releases it (numRows <= f.skip), then
      returns the pages of [rest].  A source that ends inside a skipped page is
      therefore met exactly as when reading sequentially.

    The dictionary of a dictionary-encoded page is loaded lazily from
    [dict]; when the source ends inside [dict] that load fails, and so does
    [read_pages] (avail <= consumed < size): the verdict is the same.
    Result: number of pages ReadPage returned, and how the sequence ended. *)
Fixpoint pages_len (l : list (N * N)) : N :=
  match l with [] => 0 | (h, b) :: r => h + b + pages_len r end.

Definition seek_read_pages (cur noindex : bool) (size avail : N)
           (dict skipped rest : list (N * N)) : nat * pages_end :=
  if noindex then
    let '(k, e) := read_pages cur size avail (pages_len dict) (skipped ++ rest) in
    ((k - length skipped)%nat, e)
  else read_pages cur size avail (pages_len dict + pages_len skipped) rest.
