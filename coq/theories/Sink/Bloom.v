(** C14 — reader side, bloom filter lookups over a source that fails after
    the file was opened.

    Go sources mirrored:
      bloom.go  FileBloomFilter.Check: f.check(&f.SectionReader, f.Size(), hash)
                = bloom.CheckSplitBlock: ONE ReadAt of the 32-byte block the
                hash selects (gzip filters: one ReadAt of the whole filter on
                the first Check, kept afterwards, the error as well);
      file.go   FileColumnChunk.BloomFilter: the filter built by OpenFile
                (header read at open; the bits stay in the file unless
                PrefetchBloomFilters), or loaded by readBloomFilter on the first
                call (SkipBloomFilters, encrypted columns); a load that fails
                gives an errorBloomFilter whose Check returns that error;
      multi_row_group.go  multiColumnChunk.BloomFilter (since b389733 / 5a48a71): takes the
                filter of every chunk ONCE (a lazily loaded filter is loaded by that
                call); no filter when a chunk has none; a filter that failed to load is
                returned as the filter of the whole concatenation; then
                multiBloomFilter.Check:
                for _, b := range f.filters {
                    if ok, err := b.Check(v); ok || err != nil { return ok, err }
                }
                return false, nil
    Executable model + the two facts C14 needs; the proofs are three lines
    each and live here. *)
From Coq Require Import List Bool Arith.
Import ListNotations.

(* what a Check says: (false, nil) | (true, nil) | (_, err) *)
Inductive answer := Absent | Maybe | Failed.

(* one filter: [needs_read]: answering takes a read of the source (false when
   the bits are in memory); [faulted]: the reads of this filter's section fail
   (error or short count, file.go readAt keeps the error);
   [clean]: what the intact filter says *)
Definition part_check (needs_read faulted clean : bool) : answer :=
  if needs_read && faulted then Failed else if clean then Maybe else Absent.

(* the filters of the row groups one after the other; also the number of
   filters consulted *)
Fixpoint multi_check (parts : list answer) : answer * nat :=
  match parts with
  | [] => (Absent, 0)
  | Absent :: r => let '(a, n) := multi_check r in (a, S n)
  | a :: _ => (a, 1)
  end.

(* a variant that takes a failed part for one that does not hold the value
   (what the code must not do) *)
Fixpoint multi_check_absorbing (parts : list answer) : answer :=
  match parts with
  | [] => Absent
  | Maybe :: _ => Maybe
  | _ :: r => multi_check_absorbing r
  end.

(* [p_lazy]: the filter is loaded from the source by the call of BloomFilter()
   (SkipBloomFilters, encrypted columns) rather than by OpenFile *)
Record part := mkPart { p_needs_read : bool; p_faulted : bool; p_clean : bool; p_lazy : bool }.

Definition load_fails (p : part) : bool := p_lazy p && p_faulted p.

(* the filters are taken first (every lazily loaded one is loaded); one that
   fails to load makes the lookup fail before any filter is consulted *)
Definition lookup (ps : list part) : answer * nat :=
  if existsb load_fails ps then (Failed, 0)
  else multi_check (map (fun p => part_check (p_needs_read p) (p_faulted p) (p_clean p)) ps).

Lemma multi_absent : forall parts, fst (multi_check parts) = Absent -> Forall (fun a => a = Absent) parts.
Proof.
  induction parts as [|a r IH]; intros H; [constructor|].
  destruct a; cbn in H; try discriminate.
  destruct (multi_check r) as [x n]. cbn in *. constructor; [reflexivity|]. apply IH. exact H.
Qed.

(* a value stored in some row group is never reported absent, whatever reads fail *)
Theorem stored_value_never_absent : forall ps,
  (exists p, In p ps /\ p_clean p = true) -> fst (lookup ps) <> Absent.
Proof.
  intros ps (p & Hin & Hc) H. unfold lookup in H.
  destruct (existsb load_fails ps); [discriminate|]. apply multi_absent in H.
  rewrite Forall_forall in H.
  specialize (H (part_check (p_needs_read p) (p_faulted p) (p_clean p))
                (in_map (fun p => part_check (p_needs_read p) (p_faulted p) (p_clean p)) ps p Hin)).
  unfold part_check in H. rewrite Hc in H. destruct (p_needs_read p && p_faulted p); discriminate.
Qed.

(* a failed read that was issued is reported: the lookup says Absent only when
   every filter was consulted and none failed *)
Theorem absent_means_no_failure : forall ps,
  fst (lookup ps) = Absent ->
  snd (lookup ps) = length ps /\ forall p, In p ps -> p_needs_read p && p_faulted p = false /\ load_fails p = false.
Proof.
  intros ps H.
  assert (Hl : existsb load_fails ps = false).
  { unfold lookup in H. destruct (existsb load_fails ps); [discriminate|reflexivity]. }
  split.
  - unfold lookup in *. rewrite Hl in *. rewrite <- (map_length (fun p => part_check (p_needs_read p) (p_faulted p) (p_clean p)) ps).
    generalize dependent (map (fun p => part_check (p_needs_read p) (p_faulted p) (p_clean p)) ps).
    induction l as [|a r IH]; intros H; [reflexivity|].
    destruct a; cbn in H; try discriminate. cbn. destruct (multi_check r) as [x n]. cbn in *. f_equal. apply IH. exact H.
  - intros p Hin. split.
    + unfold lookup in H. rewrite Hl in H. apply multi_absent in H. rewrite Forall_forall in H.
      specialize (H _ (in_map (fun p => part_check (p_needs_read p) (p_faulted p) (p_clean p)) ps p Hin)).
      unfold part_check in H. destruct (p_needs_read p && p_faulted p); [discriminate|reflexivity].
    + destruct (load_fails p) eqn:E; [|reflexivity].
      assert (existsb load_fails ps = true) by (apply existsb_exists; exists p; split; assumption).
      congruence.
Qed.
