(** C14 — liveness of the writer side of Sink/Model.v: with a destination that
    never fails, every Write of every layer takes all its bytes and returns
    nil, whatever the buffer size (>= 1), the mechanism and the cutting of the
    bytes into Write calls; Flush/Close return nil and the destination holds
    the concatenation of all modules. *)
From Coq Require Import List Arith Bool NArith Lia.
From Coq Require Import ZifyN ZifyNat ZifyBool.
From PQ Require Import Sink.Model Sink.Proofs Sink.Termination.
Import ListNotations.
Open Scope N_scope.

Section Liveness.
  Variable A : Type.

  Notation sink := (sink A).
  Notation bufw := (bufw A).
  Notation st := (st A).
  Notation nlen := (nlen A).

  (** the destination never fails and the bufio.Writer (if any) has no sticky
      error and room for at least one byte *)
  Definition healthy (t : st) : Prop :=
    s_flt (snk t) = NoFault /\
    match bw t with Some b => b_err b = ENone /\ 1 <= b_size b | None => True end.

  Lemma sink_write_nofault : forall (s : sink) p,
    s_flt s = NoFault -> sink_write A s p = (sink_accept A s p (s_fired s), nlen p, ENone).
  Proof. intros s p H. unfold sink_write. rewrite H. reflexivity. Qed.

  Lemma bufio_flush_nofault : forall (s : sink) (b : bufw) s' b' e,
    wf_sink A s -> wf_buf A b -> s_flt s = NoFault -> b_err b = ENone ->
    bufio_flush A s b = (s', b', e) ->
    e = ENone /\ b_err b' = ENone /\ s_flt s' = NoFault /\ b_size b' = b_size b /\
    wf_sink A s' /\ wf_buf A b'.
  Proof.
    intros s b s' b' e Ws Wb Hf He H.
    pose proof (bufio_flush_spec A _ _ _ _ _ Ws Wb H) as P.
    assert (E : e = ENone) by (apply (fl_nofault _ _ _ _ _ _ P); assumption).
    split; [exact E|]. split; [rewrite (fl_err _ _ _ _ _ _ P); exact E|].
    split; [rewrite (fl_flt _ _ _ _ _ _ P); exact Hf|].
    split; [apply (fl_size _ _ _ _ _ _ P)|].
    split; [apply (fl_wfs _ _ _ _ _ _ P) | apply (fl_wfb _ _ _ _ _ _ P)].
  Qed.

  Lemma bufio_loop_nofault : forall direct fuel (s : sink) (b : bufw) p nn s' b' p' nn',
    wf_sink A s -> wf_buf A b -> s_flt s = NoFault -> b_err b = ENone ->
    bufio_loop A direct fuel s b p nn = (s', b', p', nn') ->
    b_err b' = ENone.
  Proof.
    intros direct fuel. induction fuel as [|f IH]; intros s b p nn s' b' p' nn' Ws Wb Hf He H.
    - cbn in H. inversion H; subst. exact He.
    - cbn [bufio_loop] in H.
      destruct ((b_avail A b <? nlen p) && negb (is_err (b_err b))).
      2:{ inversion H; subst. exact He. }
      destruct (direct && (b_n b =? 0)).
      + rewrite (sink_write_nofault s p Hf) in H.
        eapply IH in H; eauto.
        * pose proof (sink_write_spec A s p _ _ _ Ws (sink_write_nofault s p Hf)) as P.
          apply (sw_wf _ _ _ _ _ _ P).
      + set (n := N.min (b_avail A b) (nlen p)) in *.
        destruct (bufio_flush A s (b_push A b (firstn (N.to_nat n) p))) as [[s1 b2] e1] eqn:Ef.
        destruct (bufio_flush_nofault _ _ _ _ _ Ws (b_push_wf A _ _ Wb) Hf He Ef) as (_&E2&F2&_&W1&W2).
        eapply IH in H; eauto.
  Qed.

  Lemma bufio_write_gen_nofault : forall direct (s : sink) (b : bufw) p s' b' n e,
    wf_sink A s -> wf_buf A b -> s_flt s = NoFault -> b_err b = ENone -> 1 <= b_size b ->
    bufio_write_gen A direct s b p = (s', b', n, e) ->
    e = ENone /\ n = nlen p /\ b_err b' = ENone.
  Proof.
    intros direct s b p s' b' n e Ws Wb Hf He Hsz H.
    pose proof (bufio_write_gen_error_is_sticky A _ _ _ _ _ _ _ _ Ws Wb Hsz H) as Est.
    destruct (bufio_write_gen_spec A _ _ _ _ _ _ _ _ Ws Wb H) as (_&_&_&_&_&[_ _ Full]).
    assert (Eb : b_err b' = ENone).
    { unfold bufio_write_gen in H.
      destruct (bufio_loop A direct (bufio_fuel A p) s b p 0) as [[[s1 b1] p1] nn] eqn:El.
      pose proof (bufio_loop_nofault _ _ _ _ _ _ _ _ _ _ Ws Wb Hf He El) as E1.
      destruct (is_err (b_err b1)); [inversion H; subst; exact E1|].
      destruct (b_avail A b1 <? nlen p1); inversion H; subst; exact E1. }
    rewrite Eb in Est. split; [exact Est|]. split; [apply Full; [reflexivity|exact Est]|exact Eb].
  Qed.

  (** a Write-like function that always takes everything on a healthy state *)
  Definition live (w : st -> list A -> st * N * err) : Prop :=
    forall t c t' n e, wf_st A t -> healthy t -> w t c = (t', n, e) ->
      e = ENone /\ n = nlen c /\ healthy t' /\ wf_st A t'.

  Lemma lower_gen_nofault : forall direct (t : st) p t' n e,
    wf_st A t -> healthy t ->
    match bw t with
    | None => let '(s, n, e) := sink_write A (snk t) p in (mkSt s None, n, e)
    | Some b => let '(s, b', n, e) := bufio_write_gen A direct (snk t) b p in (mkSt s (Some b'), n, e)
    end = (t', n, e) ->
    e = ENone /\ n = nlen p /\ healthy t' /\ wf_st A t'.
  Proof.
    intros direct t p t' n e W Hh H.
    pose proof (lower_gen_spec A direct t p t' n e W H) as (W'&(F&_&_)&_).
    destruct t as [s ob]. destruct W as [Ws Wb]. destruct Hh as [Hf Hb]. cbn in *.
    destruct ob as [b|].
    - destruct Hb as [He Hsz].
      destruct (bufio_write_gen A direct s b p) as [[[s1 b1] n1] e1] eqn:E.
      inversion H; subst; clear H.
      destruct (bufio_write_gen_nofault _ _ _ _ _ _ _ _ Ws Wb Hf He Hsz E) as (E1&E2&E3).
      destruct (bufio_write_gen_spec A _ _ _ _ _ _ _ _ Ws Wb E) as (_&_&_&Sz&_&_).
      split; [exact E1|]. split; [exact E2|]. split; [|exact W'].
      split; cbn; [cbn in F; congruence|]. split; [exact E3|lia].
    - rewrite (sink_write_nofault s p Hf) in H. inversion H; subst; clear H.
      split; [reflexivity|]. split; [reflexivity|]. split; [|exact W'].
      split; cbn; [exact Hf|exact I].
  Qed.

  Lemma live_lower : live (lower_write A).
  Proof. intros t c t' n e W Hh H. eapply lower_gen_nofault; eauto. Qed.

  Lemma live_lower_string : live (lower_write_string A).
  Proof. intros t c t' n e W Hh H. eapply lower_gen_nofault; eauto. Qed.

  Lemma otw_fix_live : forall cur p (r : st * N * err) t' n e,
    (forall t1 n1 e1, r = (t1, n1, e1) -> e1 = ENone /\ n1 = nlen p /\ healthy t1 /\ wf_st A t1) ->
    otw_fix A cur (nlen p) r = (t', n, e) ->
    e = ENone /\ n = nlen p /\ healthy t' /\ wf_st A t'.
  Proof.
    intros cur p [[t1 n1] e1] t' n e Hr H. destruct (Hr _ _ _ eq_refl) as (E1&E2&Hh&W). subst e1 n1.
    unfold otw_fix in H. cbn [is_err negb] in H. rewrite N.ltb_irrefl, andb_false_r in H.
    inversion H; subst. split; [reflexivity|]. split; [reflexivity|]. split; assumption.
  Qed.

  Lemma live_otw : forall cur, live (otw_write A cur).
  Proof.
    intros cur t c t' n e W Hh H. unfold otw_write in H.
    eapply otw_fix_live; [|exact H]. intros t1 n1 e1 Hr. eapply live_lower; eauto.
  Qed.

  Lemma live_otw_string : forall cur, live (otw_write_string A cur).
  Proof.
    intros cur t c t' n e W Hh H. unfold otw_write_string in H.
    eapply otw_fix_live; [|exact H]. intros t1 n1 e1 Hr. eapply live_lower_string; eauto.
  Qed.

  (** the mechanisms *)
  Definition op_live (t' : st) (e : err) : Prop := e = ENone /\ healthy t' /\ wf_st A t'.

  Lemma write_pieces_nofault : forall cur ps (t t' : st) e,
    wf_st A t -> healthy t -> write_pieces A cur t ps = (t', e) -> op_live t' e.
  Proof.
    intros cur. induction ps as [|pc ps IH]; intros t t' e W Hh H; cbn in H.
    - inversion H; subst. split; [reflexivity|split; assumption].
    - destruct (write_piece A cur t pc) as [[t1 n1] e1] eqn:E.
      assert (P : e1 = ENone /\ n1 = nlen (snd pc) /\ healthy t1 /\ wf_st A t1).
      { unfold write_piece in E. destruct (fst pc); [eapply live_otw_string | eapply live_otw]; eauto. }
      destruct P as (E1&_&Hh1&W1). subst e1. cbn in H. eapply IH; eauto.
  Qed.

  Lemma retry_nofault : forall w, live w -> forall fuel c (t t' : st) e,
    (1 <= fuel)%nat -> wf_st A t -> healthy t -> retry A w fuel t c = (t', e) -> op_live t' e.
  Proof.
    intros w Hw fuel c t t' e Hfu W Hh H.
    destruct c as [|x c].
    - rewrite retry_nil in H. inversion H; subst. split; [reflexivity|split; assumption].
    - destruct fuel as [|f]; [lia|]. cbn [retry] in H. remember (x :: c) as cc.
      destruct (w t cc) as [[t1 n1] e1] eqn:E.
      destruct (Hw _ _ _ _ _ W Hh E) as (E1&E2&Hh1&W1). subst e1 n1. cbn in H.
      rewrite skipn_nlen, retry_nil in H. inversion H; subst.
      split; [reflexivity|split; assumption].
  Qed.

  Lemma write_to_nofault : forall w, live w -> forall chunks (t t' : st) e,
    wf_st A t -> healthy t -> write_to A w t chunks = (t', e) -> op_live t' e.
  Proof.
    intros w Hw. induction chunks as [|c r IH]; intros t t' e W Hh H; cbn in H.
    - inversion H; subst. split; [reflexivity|split; assumption].
    - destruct (retry A w (length (snd c) + 2) t (snd c)) as [t1 e1] eqn:E.
      assert (Hfu : (1 <= length (snd c) + 2)%nat) by lia.
      destruct (retry_nofault w Hw _ _ _ _ _ Hfu W Hh E) as (E1&Hh1&W1). subst e1. cbn in H.
      eapply IH; eauto.
  Qed.

  Lemma copy_loop_nofault : forall chunks (s s' : sink) e,
    wf_sink A s -> s_flt s = NoFault -> copy_loop A s chunks = (s', e) ->
    e = ENone /\ s_flt s' = NoFault /\ wf_sink A s'.
  Proof.
    induction chunks as [|c r IH]; intros s s' e W Hf H; cbn in H.
    - inversion H; subst. auto.
    - pose proof (sink_write_spec A s (snd c) _ _ _ W (sink_write_nofault s (snd c) Hf)) as P.
      rewrite (sink_write_nofault s (snd c) Hf) in H. cbn [is_err] in H. rewrite N.ltb_irrefl in H.
      eapply IH in H; eauto. apply (sw_wf _ _ _ _ _ _ P).
  Qed.

  Lemma bufio_fill_nofault : forall data (s : sink) (b : bufw) s' b' e,
    wf_sink A s -> wf_buf A b -> s_flt s = NoFault -> b_err b = ENone ->
    bufio_fill A s b data = (s', b', e) ->
    e = ENone /\ b_err b' = ENone /\ s_flt s' = NoFault /\ b_size b' = b_size b /\
    wf_sink A s' /\ wf_buf A b'.
  Proof.
    induction data as [|x r IH]; intros s b s' b' e Ws Wb Hf He H; cbn [bufio_fill] in H.
    - destruct (b_avail A b =? 0).
      + eapply bufio_flush_nofault; eauto.
      + inversion H; subst. split; [reflexivity|]. split; [exact He|]. split; [exact Hf|]. split; [reflexivity|]. split; assumption.
    - destruct (b_avail A b =? 0).
      + destruct (bufio_flush A s b) as [[s1 b1] e1] eqn:Ef.
        destruct (bufio_flush_nofault _ _ _ _ _ Ws Wb Hf He Ef) as (E1&E2&F1&Sz&W1&W2). subst e1. cbn in H.
        destruct (IH _ _ _ _ _ W1 (b_push_wf A _ [x] W2) F1 E2 H) as (R1&R2&R3&R4&R5&R6).
        split; [exact R1|]. split; [exact R2|]. split; [exact R3|]. split; [cbn in R4; congruence|]. split; assumption.
      + destruct (IH _ _ _ _ _ Ws (b_push_wf A _ [x] Wb) Hf He H) as (R1&R2&R3&R4&R5&R6).
        split; [exact R1|]. split; [exact R2|]. split; [exact R3|]. split; [exact R4|]. split; assumption.
  Qed.

  Lemma run_mech_nofault : forall cur m ps (t t' : st) e,
    wf_st A t -> healthy t -> run_mech A cur m t ps = (t', e) -> op_live t' e.
  Proof.
    intros cur m ps t t' e W Hh H. destruct m; cbn [run_mech] in H.
    - eapply write_pieces_nofault; eauto.
    - eapply write_to_nofault; eauto. apply live_otw.
    - eapply write_to_nofault; eauto. apply live_lower.
    - destruct t as [s ob]. destruct W as [Ws Wb]. destruct Hh as [Hf Hb]. cbn in *. destruct ob as [b|].
      + destruct Hb as [He Hsz]. unfold bufio_read_from in H. rewrite He in H. cbn [is_err] in H.
        destruct (bufio_fill A s b (site_data_of A ps)) as [[s1 b1] e1] eqn:Ef.
        inversion H; subst; clear H.
        destruct (bufio_fill_nofault _ _ _ _ _ _ Ws Wb Hf He Ef) as (R1&R2&R3&R4&R5&R6).
        split; [exact R1|]. split; split; cbn; auto. split; [exact R2|lia].
      + destruct (copy_loop A s ps) as [s1 e1] eqn:Ec. inversion H; subst; clear H.
        destruct (copy_loop_nofault _ _ _ _ Ws Hf Ec) as (R1&R2&R3).
        split; [exact R1|]. split; split; cbn; auto.
  Qed.

  Notation site := (site A).

  Lemma run_sites_nofault : forall cur chk (xs : list site) i (t t' : st) e j,
    wf_st A t -> healthy t -> run_sites A cur chk i t xs = (t', e, j) ->
    e = ENone /\ j = (i + length xs)%nat /\ healthy t' /\ wf_st A t'.
  Proof.
    intros cur chk. induction xs as [|x r IH]; intros i t t' e j W Hh H; cbn [run_sites] in H.
    - inversion H; subst. split; [reflexivity|]. split; [cbn; lia|]. split; assumption.
    - destruct (run_mech A cur (st_mech x) t (st_pieces x)) as [t1 e1] eqn:E.
      destruct (run_mech_nofault _ _ _ _ _ _ W Hh E) as (E1&Hh1&W1). subst e1. cbn in H.
      destruct (IH _ _ _ _ _ W1 Hh1 H) as (R1&R2&R3&R4).
      split; [exact R1|]. split; [cbn [length]; lia|]. split; assumption.
  Qed.

  Lemma init_healthy : forall bs, (forall sz, bs = Some sz -> 1 <= sz) -> healthy (init A NoFault bs).
  Proof.
    intros bs H. split; [reflexivity|]. destruct bs as [sz|]; cbn; [|exact I].
    split; [reflexivity|]. apply H. reflexivity.
  Qed.

  (** Without a fault every site returns nil, the final flush of Close returns
      nil, and the destination holds the concatenation of all modules. *)
  Theorem fault_free_complete : forall chk chk_flush, (forall k, chk k = true) -> chk_flush = true ->
    forall bs (xs : list site) t' e i,
    (forall sz, bs = Some sz -> 1 <= sz) ->
    close A true chk chk_flush (init A NoFault bs) xs = (t', e, i) ->
    e = ENone /\ i = length xs /\ sink_bytes A (snk t') = all_data A xs.
  Proof.
    intros chk chk_flush Hchk Hcf bs xs t' e i Hbs H. subst chk_flush.
    assert (E : e = ENone /\ i = length xs).
    { unfold close in H.
      destruct (run_sites A true chk 0 (init A NoFault bs) xs) as [[t1 e1] i1] eqn:Er.
      destruct (run_sites_nofault _ _ _ _ _ _ _ _ (init_wf A NoFault bs) (init_healthy bs Hbs) Er) as (E1&E2&Hh1&W1).
      subst e1 i1. cbn [is_err] in H.
      destruct t1 as [s1 ob]. destruct W1 as [Ws Wb]. destruct Hh1 as [Hf Hb]. cbn in *.
      destruct ob as [b|].
      - destruct Hb as [He Hsz].
        destruct (bufio_flush A s1 b) as [[s2 b2] e2] eqn:Ef.
        destruct (bufio_flush_nofault _ _ _ _ _ Ws Wb Hf He Ef) as (R1&_).
        inversion H; subst. split; reflexivity.
      - inversion H; subst. split; reflexivity. }
    destruct E as [E1 E2]. subst e. split; [reflexivity|]. split; [exact E2|].
    eapply close_nil_means_complete; eauto.
  Qed.
End Liveness.
