(** C14, the transient fault of the destination (harness/c14/entry.go, fault
    kind "once"): ONE write - the first that reaches absolute offset [k] -
    accepts only the bytes before [k] and returns the accepted count with an
    error; every later write is complete.  It is not a constructor of [fault]:
    the writer's model (close_verdict) stops at the first error a write site
    reports, and up to the first error the destination returns, the transient
    destination IS the destination that fails at [k] forever ([ErrAt k]) -
    this file states that step by step.  What the writer does with the
    destination AFTER an error was returned (the reason the transient fault is
    swept at all: nothing but the writer's own error checks remembers it when
    there is no bufio layer) is outside the model and checked by execution on
    every write entry point. *)
From Coq Require Import List NArith Bool Lia.
From PQ Require Import Sink.Model.
Import ListNotations.
Open Scope N_scope.

Section Once.
  Variable A : Type.

  (* c14Sink.write, kind 4 *)
  Definition once_write (k : N) (s : sink A) (p : list A) : sink A * N * err :=
    let len := nlen A p in
    if s_fired s || (s_pos s + len <=? k) then (sink_accept A s p (s_fired s), len, ENone)
    else let n := k - s_pos s in
         (sink_accept A s (firstn (N.to_nat n) p) true, n, ESink).

  (** Before it fired, one write of the transient destination is one write of
      [ErrAt k]: same bytes accepted, same count, same error; it fires exactly
      when the error is returned. *)
  Lemma once_write_is_err_at : forall k s p,
    s_flt s = ErrAt k -> s_fired s = false ->
    let '(s1, n1, e1) := sink_write A s p in
    let '(s2, n2, e2) := once_write k s p in
    s_rev s1 = s_rev s2 /\ s_pos s1 = s_pos s2 /\ n1 = n2 /\ e1 = e2 /\
    s_fired s2 = is_err e2.
  Proof.
    intros k s p Hf Hn. unfold sink_write, once_write. rewrite Hf, Hn. cbn [orb].
    destruct (s_pos s + nlen A p <=? k); cbn; rewrite ?Hn; repeat split; reflexivity.
  Qed.

  (** Once it fired the transient destination accepts everything. *)
  Lemma once_write_after : forall k s p,
    s_fired s = true ->
    once_write k s p = (sink_accept A s p true, nlen A p, ENone).
  Proof. intros k s p H. unfold once_write. rewrite H. reflexivity. Qed.

  (** The error is returned together with a short count: bytes are missing
      from the destination whenever the transient fault strikes (a destination
      that did not fire has not passed [k]). *)
  Lemma once_write_error_is_short : forall k s p s' n,
    s_fired s = false -> s_pos s <= k -> once_write k s p = (s', n, ESink) -> n < nlen A p.
  Proof.
    intros k s p s' n Hn Hk. unfold once_write. rewrite Hn. cbn [orb].
    destruct (s_pos s + nlen A p <=? k) eqn:E; intro H; inversion H; subst.
    apply N.leb_gt in E. lia.
  Qed.
End Once.
