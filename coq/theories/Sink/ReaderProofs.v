(** C14 — reader side proofs about Sink/Reader.v. *)
From Coq Require Import List Arith Bool NArith Lia.
From Coq Require Import ZifyN ZifyNat ZifyBool.
From PQ Require Import Sink.Reader.
Import ListNotations.
Open Scope N_scope.

Lemma is_rerr_none : forall e, is_rerr e = false <-> e = RNone.
Proof. destruct e; cbn; split; congruence. Qed.

(** *** the readAt wrapper *)
Theorem readat_never_masks : forall len r,
  readerat_ok len r ->
  fst (readat_wrap len r) = fst r /\
  (snd (readat_wrap len r) = RNone <-> fst r = len) /\
  (fst r < len -> snd (readat_wrap len r) = snd r /\ snd r <> RNone).
Proof.
  intros len [n e] [Hle Herr]. cbn in *. unfold readat_wrap. cbn.
  destruct (n =? len) eqn:E; cbn.
  - split; [reflexivity|]. split; [split; intros; [lia|reflexivity]|]. intros; lia.
  - split; [reflexivity|]. split.
    + split; intros H; [|lia]. exfalso. apply Herr; [lia|exact H].
    + intros H. split; [reflexivity|]. apply Herr. exact H.
Qed.

(* an error that comes with a full buffer (io.EOF at the end of the source) is dropped *)
Lemma readat_full_buffer_ok : forall len e, readat_wrap len (len, e) = (len, RNone).
Proof. intros. unfold readat_wrap. cbn. now rewrite N.eqb_refl. Qed.

Lemma readat_wrap_ok : forall len r, readerat_ok len r -> readerat_ok len (readat_wrap len r).
Proof.
  intros len r H. destruct (readat_never_masks len r H) as (A & B & C). destruct H as [H1 H2].
  split; [rewrite A; exact H1|]. rewrite A. intros L. destruct (C L) as [E N']. rewrite E. exact N'.
Qed.

(** File.ReadAt never returns fewer bytes than asked for with a nil error *)
Theorem file_readat_ok : forall size ra off len,
  (forall o l, readerat_ok l (ra o l)) ->
  readerat_ok len (file_readat size ra off len).
Proof.
  intros size ra off len Hra. unfold file_readat.
  destruct (size <=? off) eqn:E1.
  { split; cbn; [lia|discriminate]. }
  destruct (size - off <? len) eqn:E2.
  - pose proof (readat_wrap_ok _ _ (Hra off (size - off))) as [H1 H2].
    destruct (readat_wrap (size - off) (ra off (size - off))) as [n e]. cbn in *.
    split; cbn; [lia|]. intros _. destruct (is_rerr e) eqn:Ee; [|discriminate].
    intros ->. discriminate.
  - apply readat_wrap_ok, Hra.
Qed.

(** *** reads of a file image *)
Lemma flen_app : forall a b, flen (a ++ b) = flen a + flen b.
Proof. intros. unfold flen. rewrite app_length. lia. Qed.

Lemma image_readat_ok : forall f off len, readerat_ok len (image_readat f off len).
Proof.
  intros f [o|] len; unfold image_readat; cbn.
  - destruct (flen f <=? o) eqn:E; cbn.
    + split; cbn; [lia|discriminate].
    + split; cbn; [lia|]. intros L. destruct (N.min len (flen f - o) <? len) eqn:E2; [discriminate|lia].
  - split; cbn; [lia|discriminate].
Qed.

(* a read which needs a byte the image does not have fails *)
Lemma read_range_beyond : forall f off len, 0 < len -> flen f < off + len -> read_range f off len = RdErr.
Proof.
  intros f off len Hl Hb. unfold read_range, image_readat.
  destruct (flen f <=? off) eqn:E.
  - unfold readat_wrap. cbn [fst snd]. destruct (0 =? len) eqn:E0; [lia|]. reflexivity.
  - unfold readat_wrap. cbn [fst snd].
    assert (Hm : N.min len (flen f - off) = flen f - off) by lia. rewrite Hm.
    destruct (flen f - off =? len) eqn:E0; [lia|].
    destruct (flen f - off <? len) eqn:E1; [reflexivity|lia].
Qed.

Lemma slice_prefix : forall p q off len, off + len <= flen p -> slice (p ++ q) off len = slice p off len.
Proof.
  intros p q off len H. unfold slice, flen in *.
  rewrite skipn_app, firstn_app.
  replace (N.to_nat len - length (skipn (N.to_nat off) p))%nat with O by (rewrite skipn_length; lia).
  cbn. now rewrite app_nil_r.
Qed.

(* a read inside the image returns its bytes, which are those of any extension *)
Lemma read_range_inside : forall p q off len, off + len <= flen p ->
  read_range p off len = RdOk (slice (p ++ q) off len).
Proof.
  intros p q off len H. rewrite slice_prefix by exact H. unfold read_range, image_readat.
  destruct (flen p <=? off) eqn:E.
  - assert (len = 0) by lia. subst len. unfold readat_wrap. cbn. reflexivity.
  - assert (Hm : N.min len (flen p - off) = len) by lia. rewrite Hm.
    unfold readat_wrap. cbn [fst snd]. rewrite N.eqb_refl. cbn. reflexivity.
Qed.

Lemma read_all_beyond : forall f rs,
  (exists off len, In (off, len) rs /\ 0 < len /\ flen f < off + len) -> read_all f rs = None.
Proof.
  intros f. induction rs as [|[o l] r IH]; intros (off & len & Hin & Hl & Hb).
  - destruct Hin.
  - cbn. destruct Hin as [E|Hin].
    + inversion E; subst. rewrite read_range_beyond by assumption. reflexivity.
    + destruct (read_range f o l); [reflexivity|]. rewrite IH; [reflexivity|]. exists off, len. auto.
Qed.

(** *** OpenFile *)
Lemma skipn_skipn' : forall (A : Type) (y x : nat) (l : list A), skipn x (skipn y l) = skipn (y + x) l.
Proof.
  induction y; intros; cbn; [reflexivity|]. destruct l; cbn; [now rewrite skipn_nil|]. apply IHy.
Qed.

Lemma skipn_slice : forall f (off a b : N), skipn (N.to_nat a) (slice f off (a + b)) = slice f (off + a) b.
Proof.
  intros. unfold slice. rewrite skipn_firstn_comm, skipn_skipn'.
  replace (N.to_nat (a + b) - N.to_nat a)%nat with (N.to_nat b) by lia.
  replace (N.to_nat off + N.to_nat a)%nat with (N.to_nat (off + a)) by lia. reflexivity.
Qed.

Lemma firstn_slice : forall f (off a b : N), firstn (N.to_nat a) (slice f off (a + b)) = slice f off a.
Proof.
  intros. unfold slice. rewrite firstn_firstn. f_equal. lia.
Qed.

Lemma tail_magic : forall f, 8 <= flen f -> skipn 4 (slice f (flen f - 8) 8) = slice f (flen f - 4) 4.
Proof.
  intros f H. change 4%nat with (N.to_nat 4). change 8 with (4 + 4) at 2.
  rewrite skipn_slice. f_equal. lia.
Qed.

Lemma tail_length : forall f, firstn 4 (slice f (flen f - 8) 8) = slice f (flen f - 8) 4.
Proof.
  intros f. change 4%nat with (N.to_nat 4). change 8 with (4 + 4) at 2. apply firstn_slice.
Qed.

Section OpenProofs.
  Variable M : Type.
  Variable decode : list byte -> option M.

  (** OpenFile succeeds only on an image that ends in a trailer which decodes *)
  Theorem open_ok_valid_trailer : forall hk f m,
    open_file M decode hk f = OpenOk m -> valid_trailer M decode f.
  Proof.
    intros hk f m H. unfold open_file, open_core in H.
    destruct (flen f <? 4) eqn:E1; [discriminate|].
    destruct (negb (is_magic (slice f 0 4))); [discriminate|].
    destruct (beqb (slice f 0 4) magic_pare && negb hk); [discriminate|].
    destruct (flen f <? 8) eqn:E2; [discriminate|].
    assert (H8 : 8 <= flen f) by lia.
    rewrite tail_magic, !tail_length in H by exact H8.
    destruct (negb (is_magic (slice f (flen f - 4) 4))) eqn:E3; [discriminate|].
    destruct (flen f <? le32 (slice f (flen f - 8) 4) + 8) eqn:E4; [discriminate|].
    destruct (beqb (slice f (flen f - 4) 4) magic_pare && negb hk); [discriminate|].
    destruct (decode (slice f (flen f - 8 - le32 (slice f (flen f - 8) 4)) (le32 (slice f (flen f - 8) 4)))) eqn:E5; [|discriminate].
    unfold valid_trailer. split; [exact H8|]. split; [now apply negb_false_iff in E3|].
    split; [lia|]. rewrite E5. discriminate.
  Qed.

  (** every strict prefix of a file is rejected by OpenFile unless the prefix
      itself ends in a trailer that decodes; and then whatever the footer found
      there describes, the first read that needs a byte beyond the prefix fails
      and the reads inside it see the bytes of the file *)
  Theorem prefix_rejected : forall hk f p q,
    f = p ++ q -> q <> [] ->
    (exists e, open_file M decode hk p = OpenErr e) \/
    (exists m', open_file M decode hk p = OpenOk m' /\ valid_trailer M decode p /\
       (forall rs, (exists off len, In (off, len) rs /\ 0 < len /\ flen p < off + len) -> read_all p rs = None) /\
       (forall off len, off + len <= flen p -> read_range p off len = RdOk (slice f off len))).
  Proof.
    intros hk f p q Hf Hq. destruct (open_file M decode hk p) as [e|m'] eqn:E.
    - left. exists e. reflexivity.
    - right. exists m'. split; [reflexivity|]. split; [eapply open_ok_valid_trailer; eauto|].
      split; [apply read_all_beyond|]. intros. subst f. apply read_range_inside. assumption.
  Qed.

  Corollary prefix_without_trailer_rejected : forall hk p,
    ~ valid_trailer M decode p -> exists e, open_file M decode hk p = OpenErr e.
  Proof.
    intros hk p H. destruct (open_file M decode hk p) as [e|m'] eqn:E; [exists e; reflexivity|].
    exfalso. apply H. eapply open_ok_valid_trailer; eauto.
  Qed.

  (* the particular reasons *)
  Lemma open_short : forall hk p, flen p < 8 -> exists e, open_file M decode hk p = OpenErr e.
  Proof.
    intros. apply prefix_without_trailer_rejected. intros (H8 & _). lia.
  Qed.

  Lemma open_bad_tail : forall hk p, is_magic (slice p (flen p - 4) 4) = false ->
    exists e, open_file M decode hk p = OpenErr e.
  Proof.
    intros. apply prefix_without_trailer_rejected. intros (_ & Hm & _). congruence.
  Qed.

  Lemma open_footer_range : forall hk p, flen p < le32 (slice p (flen p - 8) 4) + 8 ->
    exists e, open_file M decode hk p = OpenErr e.
  Proof.
    intros. apply prefix_without_trailer_rejected. intros (_ & _ & Hr & _). lia.
  Qed.
End OpenProofs.

(** *** pages of a column chunk *)
Fixpoint sumN (l : list (N * N)) : N := match l with [] => 0 | (h, b) :: r => h + b + sumN r end.

(* the source ends before the end of the chunk: never a plain end of chunk *)
Theorem chunk_early_end_reported : forall pages size avail consumed,
  consumed + sumN pages = size -> consumed <= avail -> avail < size ->
  snd (read_pages true size avail consumed pages) = PUnexpected.
Proof.
  induction pages as [|[h b] r IH]; intros size avail consumed Hs Hc Ha; cbn [read_pages sumN] in *.
  - lia.
  - unfold end_of_chunk. destruct (avail <=? consumed) eqn:E1; cbn [snd].
    + assert (consumed <? size = true) by lia. rewrite H. reflexivity.
    + destruct (avail <? consumed + h) eqn:E0; [reflexivity|].
      destruct ((avail =? consumed + h) && (0 <? b)) eqn:E3; [reflexivity|].
      destruct (consumed + h + b <=? avail) eqn:E2; [|reflexivity].
      specialize (IH size avail (consumed + h + b)).
      destruct (read_pages true size avail (consumed + h + b) r) as [k e]. cbn in *. apply IH; lia.
Qed.

(* a complete chunk is read to its end *)
Theorem chunk_complete_read : forall cur pages size avail consumed,
  consumed + sumN pages = size -> size <= avail -> (forall h b, In (h, b) pages -> 0 < h) ->
  read_pages cur size avail consumed pages = (length pages, PEnd).
Proof.
  induction pages as [|[h b] r IH]; intros size avail consumed Hs Ha Hp; cbn [read_pages sumN length] in *.
  - unfold end_of_chunk. assert (consumed <? size = false) by lia. rewrite H, andb_false_r. reflexivity.
  - assert (0 < h) by (apply (Hp h b); left; reflexivity).
    destruct (avail <=? consumed) eqn:E1; [lia|].
    destruct (avail <? consumed + h) eqn:E0; [lia|].
    destruct ((avail =? consumed + h) && (0 <? b)) eqn:E3; [lia|].
    destruct (consumed + h + b <=? avail) eqn:E2; [|lia].
    rewrite (IH size avail (consumed + h + b)); [reflexivity|lia|lia|]. intros h' b' Hin; apply (Hp h' b'); right; assumption.
Qed.

(* the pages returned before the end are a prefix of the chunk's pages *)
Lemma read_pages_count : forall cur pages size avail consumed,
  (fst (read_pages cur size avail consumed pages) <= length pages)%nat.
Proof.
  induction pages as [|[h b] r IH]; intros; cbn [read_pages length]; [cbn; lia|].
  destruct (avail <=? consumed); cbn [fst]; [lia|].
  destruct (avail <? consumed + h); cbn [fst]; [lia|].
  destruct ((avail =? consumed + h) && (0 <? b)); cbn [fst]; [lia|].
  destruct (consumed + h + b <=? avail); cbn [fst]; [|lia].
  specialize (IH size avail (consumed + h + b)).
  destruct (read_pages cur size avail (consumed + h + b) r). cbn in *. lia.
Qed.

(** *** OpenFile under SkipMagicBytes / OptimisticRead / ReadBufferSize *)
Lemma tail_read_size_bounds : forall o rbs L, 8 <= tail_read_size o rbs L /\ (8 <= L -> tail_read_size o rbs L <= L).
Proof.
  intros. unfold tail_read_size. cbn zeta.
  destruct (o && (8 <=? N.min rbs L)) eqn:E; [|lia].
  apply andb_true_iff in E. destruct E as [_ E]. apply N.leb_le in E. lia.
Qed.

Theorem open_core_cfg_tail_stages : forall (M : Type) o rbs hk L (hdr tail : list byte) (d : N -> N -> option M),
  open_core_cfg M false o rbs hk L hdr tail d = open_core M hk L hdr tail d.
Proof.
  intros. unfold open_core_cfg, open_core. cbn [negb andb].
  destruct (L <? 4) eqn:E1; [reflexivity|].
  destruct (negb (is_magic hdr)); [reflexivity|].
  destruct (beqb hdr magic_pare && negb hk); [reflexivity|].
  pose proof (tail_read_size_bounds o rbs L) as [B1 B2].
  destruct (L <? 8) eqn:E2.
  - replace (L <? tail_read_size o rbs L) with true by lia. reflexivity.
  - replace (L <? tail_read_size o rbs L) with false by lia.
    destruct (negb (is_magic (skipn 4 tail))); [reflexivity|].
    destruct (le32 (firstn 4 tail) <=? tail_read_size o rbs L - 8) eqn:E3; cbn [negb andb]; [|reflexivity].
    replace (L <? le32 (firstn 4 tail) + 8) with false by lia. reflexivity.
Qed.

Section OpenCfgProofs.
  Variable M : Type.
  Variable decode : list byte -> option M.

  Theorem open_cfg_ok_valid_trailer : forall sm o rbs hk f m,
    open_file_cfg M decode sm o rbs hk f = OpenOk m -> valid_trailer M decode f.
  Proof.
    intros sm o rbs hk f m H. unfold open_file_cfg, open_core_cfg in H.
    destruct (negb sm && (flen f <? 4)); [discriminate|].
    destruct (negb sm && negb (is_magic (slice f 0 4))); [discriminate|].
    destruct (negb sm && (beqb (slice f 0 4) magic_pare && negb hk)); [discriminate|].
    pose proof (tail_read_size_bounds o rbs (flen f)) as [B1 B2].
    destruct (flen f <? tail_read_size o rbs (flen f)) eqn:E2; [discriminate|].
    assert (H8 : 8 <= flen f) by lia.
    rewrite tail_magic, !tail_length in H by exact H8.
    destruct (negb (is_magic (slice f (flen f - 4) 4))) eqn:E3; [discriminate|].
    destruct (negb (le32 (slice f (flen f - 8) 4) <=? tail_read_size o rbs (flen f) - 8) && (flen f <? le32 (slice f (flen f - 8) 4) + 8)) eqn:E4; [discriminate|].
    destruct (beqb (slice f (flen f - 4) 4) magic_pare && negb hk); [discriminate|].
    destruct (decode (slice f (flen f - 8 - le32 (slice f (flen f - 8) 4)) (le32 (slice f (flen f - 8) 4)))) eqn:E5; [|discriminate].
    unfold valid_trailer. split; [exact H8|]. split; [now apply negb_false_iff in E3|].
    split; [lia|]. rewrite E5. discriminate.
  Qed.

  Theorem prefix_rejected_cfg : forall sm o rbs hk f p q,
    f = p ++ q -> q <> [] ->
    (exists e, open_file_cfg M decode sm o rbs hk p = OpenErr e) \/
    (exists m', open_file_cfg M decode sm o rbs hk p = OpenOk m' /\ valid_trailer M decode p /\
       (forall rs, (exists off len, In (off, len) rs /\ 0 < len /\ flen p < off + len) -> read_all p rs = None) /\
       (forall off len, off + len <= flen p -> read_range p off len = RdOk (slice f off len))).
  Proof.
    intros sm o rbs hk f p q Hf Hq. destruct (open_file_cfg M decode sm o rbs hk p) as [e|m'] eqn:E.
    - left. exists e. reflexivity.
    - right. exists m'. split; [reflexivity|]. split; [eapply open_cfg_ok_valid_trailer; eauto|].
      split; [apply read_all_beyond|]. intros. subst f. apply read_range_inside. assumption.
  Qed.

  Corollary prefix_without_trailer_rejected_cfg : forall sm o rbs hk p,
    ~ valid_trailer M decode p -> exists e, open_file_cfg M decode sm o rbs hk p = OpenErr e.
  Proof.
    intros sm o rbs hk p H. destruct (open_file_cfg M decode sm o rbs hk p) as [e|m'] eqn:E; [exists e; reflexivity|].
    exfalso. apply H. eapply open_cfg_ok_valid_trailer; eauto.
  Qed.
End OpenCfgProofs.

(** *** seek, then read to the end of the chunk *)
Lemma pages_len_sumN l : pages_len l = sumN l.
Proof. induction l as [|[h b] r IH]; cbn; [reflexivity|now rewrite IH]. Qed.

Lemma sumN_app a b : sumN (a ++ b) = sumN a + sumN b.
Proof. induction a as [|[h x] r IH]; cbn; [reflexivity|rewrite IH; lia]. Qed.

(* [chunk_early_end_reported] without [consumed <= avail]: the stream may be
   positioned beyond the end of the source *)
Lemma chunk_early_end_reported_from : forall pages size avail consumed,
  consumed + sumN pages = size -> 0 < sumN pages -> avail < size ->
  snd (read_pages true size avail consumed pages) = PUnexpected.
Proof.
  intros pages size avail consumed Hs Hp Ha.
  destruct (N.le_gt_cases consumed avail) as [Hc|Hc].
  - apply chunk_early_end_reported; assumption.
  - destruct pages as [|[h b] r]; [cbn in Hp; lia|].
    cbn [read_pages]. assert (E : avail <=? consumed = true) by lia. rewrite E. cbn [snd].
    unfold end_of_chunk. cbn [sumN] in *. assert (E2 : consumed <? size = true) by lia. now rewrite E2.
Qed.

(* a seek followed by a read to the end of the chunk over a source that ends
   before the chunk does never ends with a plain io.EOF, with or without
   offset index, wherever the source ends (inside a skipped page or later) *)
Theorem seek_early_end_reported : forall noindex size avail dict skipped rest,
  sumN dict + sumN skipped + sumN rest = size -> 0 < sumN rest -> avail < size ->
  snd (seek_read_pages true noindex size avail dict skipped rest) = PUnexpected.
Proof.
  intros noindex size avail dict skipped rest Hs Hr Ha. unfold seek_read_pages.
  destruct noindex; rewrite ?(pages_len_sumN dict), ?(pages_len_sumN skipped).
  - pose proof (chunk_early_end_reported_from (skipped ++ rest) size avail (sumN dict)) as H.
    rewrite sumN_app in H.
    destruct (read_pages true size avail (sumN dict) (skipped ++ rest)) as [k e]. cbn [snd] in *.
    apply H; lia.
  - apply chunk_early_end_reported_from; lia.
Qed.

Lemma read_pages_app_complete : forall cur a b size avail consumed,
  consumed + sumN a <= avail -> (forall h x, In (h, x) a -> 0 < h) ->
  read_pages cur size avail consumed (a ++ b) =
  (let '(k, e) := read_pages cur size avail (consumed + sumN a) b in ((length a + k)%nat, e)).
Proof.
  induction a as [|[h x] r IH]; intros b size avail consumed Ha Hp; cbn [app sumN length].
  - rewrite N.add_0_r. destruct (read_pages cur size avail consumed b). reflexivity.
  - cbn [read_pages]. cbn [sumN] in Ha.
    assert (0 < h) by (apply (Hp h x); left; reflexivity).
    destruct (avail <=? consumed) eqn:E1; [lia|].
    destruct (avail <? consumed + h) eqn:E0; [lia|].
    destruct ((avail =? consumed + h) && (0 <? x)) eqn:E3; [lia|].
    destruct (consumed + h + x <=? avail) eqn:E2; [|lia].
    rewrite IH; [|lia|intros h' x' Hin; apply (Hp h' x'); right; assumption].
    replace (consumed + h + x + sumN r) with (consumed + (h + x + sumN r)) by lia.
    destruct (read_pages cur size avail (consumed + (h + x + sumN r)) b). reflexivity.
Qed.

(* over a complete source exactly the pages from the row of the seek on are returned *)
Theorem seek_complete_read : forall cur noindex size avail dict skipped rest,
  sumN dict + sumN skipped + sumN rest = size -> size <= avail ->
  (forall h b, In (h, b) (skipped ++ rest) -> 0 < h) ->
  seek_read_pages cur noindex size avail dict skipped rest = (length rest, PEnd).
Proof.
  intros cur noindex size avail dict skipped rest Hs Ha Hp. unfold seek_read_pages.
  destruct noindex; rewrite ?(pages_len_sumN dict), ?(pages_len_sumN skipped).
  - rewrite read_pages_app_complete; [|lia|intros h b Hin; apply (Hp h b), in_or_app; left; assumption].
    rewrite (chunk_complete_read cur rest size avail (sumN dict + sumN skipped));
      [f_equal; lia|lia|lia|intros h b Hin; apply (Hp h b), in_or_app; right; assumption].
  - apply chunk_complete_read; [lia|lia|intros h b Hin; apply (Hp h b), in_or_app; right; assumption].
Qed.
