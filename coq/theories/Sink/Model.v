(** C14 — writer side: the destination io.Writer with a fault script, the
    writers layered on it (bufio.Writer, offsetTrackingWriter), the transfer
    loops of the standard library used by the writer (memory.Buffer.WriteTo,
    io.Copy, bufio.Writer.ReadFrom) and the sequence of write sites executed by
    Flush/Close.  Executable, no proofs.

    Go sources mirrored (line numbers of `git show 6b7b39f:writer.go`; the
    functions are named so that the sites can be found after the lines moved):
      writer.go:2941-2966   offsetTrackingWriter.{Write,WriteString,ReadFrom}
      writer.go:1242-1259   writer.close
      writer.go:1266-1279   writer.writeFileHeader
      writer.go:1281-1301   writer.writeDeferredBloomFilters
      writer.go:1303-1499   writer.writeFileFooter
      writer.go:1501-1850   writer.writeRowGroup
      writer.go:2404-2455   ColumnWriter.writeBloomFilter
      writer.go:2608-2674   ColumnWriter.writeDictionaryPage
      internal/memory/buffer.go:78-94  Buffer.WriteTo
      bufio.Writer.{Flush,Write,WriteString,ReadFrom}, io.Copy (Go 1.24 standard library)

    Offsets and counts are [N]; the byte type is a parameter. *)
From Coq Require Import List Arith Bool NArith.
Import ListNotations.
Open Scope N_scope.

(** error values that matter: nil, the destination's own error, io.ErrShortWrite *)
Inductive err := ENone | ESink | EShort.

Definition is_err (e : err) : bool := match e with ENone => false | _ => true end.

(** (A) fault scripts of the destination.
    [ErrAt k]: the destination accepts the bytes before absolute offset [k] and
    answers every write reaching [k] with the accepted count and an error.
    [ShortAt k]: the first write reaching [k] accepts only the bytes before [k]
    and returns a nil error (once); every other write is complete.
    [FullErrAt k]: the write that takes the byte before offset [k] (it starts
    before [k] and reaches it) accepts ALL its bytes and returns the full
    count together with an error (a quota reached with this write, a failed
    commit of the block); every other write is complete with a nil error.
    The position is beyond [k] afterwards, so this happens once. *)
Inductive fault := NoFault | ErrAt (k : N) | ShortAt (k : N) | FullErrAt (k : N).

Section Sink.
  Variable A : Type.

  Definition nlen (p : list A) : N := N.of_nat (length p).

  (* linear-time reversal (= rev, Proofs.frev_rev) *)
  Definition frev (l : list A) : list A := rev_append l [].

  (* accepted bytes are kept reversed; s_pos caches their number *)
  Record sink := mkSink { s_rev : list A; s_pos : N; s_flt : fault; s_fired : bool }.

  Definition sink_bytes (s : sink) : list A := frev (s_rev s).

  Definition sink_accept (s : sink) (p : list A) (fired : bool) : sink :=
    mkSink (rev_append p (s_rev s)) (s_pos s + nlen p) (s_flt s) fired.

  (** one Write call on the destination: (state, n, err) *)
  Definition sink_write (s : sink) (p : list A) : sink * N * err :=
    let len := nlen p in
    match s_flt s with
    | NoFault => (sink_accept s p (s_fired s), len, ENone)
    | ErrAt k =>
        if s_pos s + len <=? k then (sink_accept s p (s_fired s), len, ENone)
        else let n := k - s_pos s in
             (sink_accept s (firstn (N.to_nat n) p) (s_fired s), n, ESink)
    | ShortAt k =>
        if s_fired s || (s_pos s + len <=? k) then (sink_accept s p (s_fired s), len, ENone)
        else let n := k - s_pos s in
             (sink_accept s (firstn (N.to_nat n) p) true, n, ENone)
    | FullErrAt k =>
        (sink_accept s p (s_fired s), len,
         if (s_pos s <? k) && (k <=? s_pos s + len) then ESink else ENone)
    end.

  (** (B) bufio.Writer of size b_size (>= 1) over the destination.
      b_rev: buffered bytes (reversed), b_n = b.n, b_err = sticky b.err *)
  Record bufw := mkBuf { b_size : N; b_rev : list A; b_n : N; b_err : err }.

  Definition b_avail (b : bufw) : N := b_size b - b_n b.

  Definition b_push (b : bufw) (chunk : list A) : bufw :=
    mkBuf (b_size b) (rev_append chunk (b_rev b)) (b_n b + nlen chunk) (b_err b).

  (* func (b *Writer) Flush() error *)
  Definition bufio_flush (s : sink) (b : bufw) : sink * bufw * err :=
    if is_err (b_err b) then (s, b, b_err b)
    else if b_n b =? 0 then (s, b, ENone)
    else
      let data := frev (b_rev b) in
      let '(s', n, e) := sink_write s data in
      (* if n < b.n && err == nil { err = io.ErrShortWrite } *)
      let e' := if negb (is_err e) && (n <? b_n b) then EShort else e in
      if is_err e' then
        (* copy(b.buf[0:b.n-n], b.buf[n:b.n]); b.n -= n; b.err = err *)
        (s', mkBuf (b_size b) (frev (skipn (N.to_nat n) data)) (b_n b - n) e', e')
      else (s', mkBuf (b_size b) [] 0 ENone, ENone).

  (* the loop of Write (direct = true) and of WriteString when the underlying
     writer is no io.StringWriter (direct = false):
       for len(p) > b.Available() && b.err == nil {
         if b.Buffered() == 0 { n, b.err = b.wr.Write(p) }       // Write only
         else { n = copy(b.buf[b.n:], p); b.n += n; b.Flush() }
         nn += n; p = p[n:] }
     returns the remaining p and nn *)
  Fixpoint bufio_loop (direct : bool) (fuel : nat) (s : sink) (b : bufw) (p : list A) (nn : N)
    : sink * bufw * list A * N :=
    match fuel with
    | O => (s, b, p, nn)
    | S f =>
        if (b_avail b <? nlen p) && negb (is_err (b_err b)) then
          if direct && (b_n b =? 0) then
            let '(s', n, e) := sink_write s p in
            bufio_loop direct f s' (mkBuf (b_size b) (b_rev b) (b_n b) e) (skipn (N.to_nat n) p) (nn + n)
          else
            let n := N.min (b_avail b) (nlen p) in
            let '(s', b2, _) := bufio_flush s (b_push b (firstn (N.to_nat n) p)) in
            bufio_loop direct f s' b2 (skipn (N.to_nat n) p) (nn + n)
        else (s, b, p, nn)
    end.

  Definition bufio_fuel (p : list A) : nat := 2 * length p + 3.

  (* func (b *Writer) Write(p []byte) / WriteString(s string).  The loop ends
     after at most [bufio_fuel] rounds under the fault model (Proofs:
     bufio_loop_exits); should the fuel run out the model answers
     io.ErrShortWrite instead of inventing a success. *)
  Definition bufio_write_gen (direct : bool) (s : sink) (b : bufw) (p : list A) : sink * bufw * N * err :=
    let '(s', b', p', nn) := bufio_loop direct (bufio_fuel p) s b p 0 in
    if is_err (b_err b') then (s', b', nn, b_err b')
    else if b_avail b' <? nlen p' then (s', b', nn, EShort)
    else (s', b_push b' p', nn + nlen p', ENone).

  (* func (b *Writer) ReadFrom(r io.Reader) when b.wr is no io.ReaderFrom: the
     bytes of r enter the buffer, which is flushed whenever it is full before
     more is read, and once more at EOF if it is exactly full *)
  Fixpoint bufio_fill (s : sink) (b : bufw) (data : list A) : sink * bufw * err :=
    match data with
    | [] => if b_avail b =? 0 then bufio_flush s b else (s, b, ENone)
    | x :: rest =>
        if b_avail b =? 0 then
          let '(s', b', e) := bufio_flush s b in
          if is_err e then (s', b', e) else bufio_fill s' (b_push b' [x]) rest
        else bufio_fill s (b_push b [x]) rest
    end.

  Definition bufio_read_from (s : sink) (b : bufw) (data : list A) : sink * bufw * err :=
    if is_err (b_err b) then (s, b, b_err b) else bufio_fill s b data.

  (** the writer below offsetTrackingWriter: the destination itself
      (WriteBufferSize <= 0, newWriter) or a bufio.Writer (bufio.NewWriterSize in newWriter) *)
  Record st := mkSt { snk : sink; bw : option bufw }.

  Definition content (t : st) : list A :=
    sink_bytes (snk t) ++ match bw t with None => [] | Some b => frev (b_rev b) end.

  (* w.writer.Write(b) *)
  Definition lower_write (t : st) (p : list A) : st * N * err :=
    match bw t with
    | None => let '(s, n, e) := sink_write (snk t) p in (mkSt s None, n, e)
    | Some b => let '(s, b', n, e) := bufio_write_gen true (snk t) b p in (mkSt s (Some b'), n, e)
    end.

  (* io.WriteString(w.writer, s): the destination of the harness is no
     io.StringWriter, bufio.Writer is *)
  Definition lower_write_string (t : st) (p : list A) : st * N * err :=
    match bw t with
    | None => let '(s, n, e) := sink_write (snk t) p in (mkSt s None, n, e)
    | Some b => let '(s, b', n, e) := bufio_write_gen false (snk t) b p in (mkSt s (Some b'), n, e)
    end.

  (** offsetTrackingWriter.Write / WriteString (writer.go:2941-2959).
      [cur = true]: the current code, a short count with a nil error becomes
      io.ErrShortWrite; [cur = false]: the code before commit 1e4fc72, which
      returned (n, nil) unchanged. *)
  Definition otw_fix (cur : bool) (len : N) (r : st * N * err) : st * N * err :=
    let '(t, n, e) := r in
    if cur && negb (is_err e) && (n <? len) then (t, n, EShort) else (t, n, e).

  Definition otw_write (cur : bool) (t : st) (p : list A) : st * N * err :=
    otw_fix cur (nlen p) (lower_write t p).

  Definition otw_write_string (cur : bool) (t : st) (p : list A) : st * N * err :=
    otw_fix cur (nlen p) (lower_write_string t p).

  (** one Write call issued by a write site: (is a WriteString, bytes) *)
  Definition piece : Type := bool * list A.

  Definition write_piece (cur : bool) (t : st) (pc : piece) : st * N * err :=
    if fst pc then otw_write_string cur t (snd pc) else otw_write cur t (snd pc).

  (* callers that issue Write after Write and return at the first error
     (thrift encoder, writeDictionaryPage, writeBloomFilter, footer) *)
  Fixpoint write_pieces (cur : bool) (t : st) (ps : list piece) : st * err :=
    match ps with
    | [] => (t, ENone)
    | pc :: r => let '(t', _, e) := write_piece cur t pc in
                 if is_err e then (t', e) else write_pieces cur t' r
    end.

  (* memory.Buffer.WriteTo (internal/memory/buffer.go:78): for each chunk
       for err == nil && b.seek < len { n, e := w.Write(chunk[offset:]); b.seek += n; err = e }
     i.e. a short count with a nil error is followed by a write of the rest.
     Fuel: see bufio_write_gen. *)
  Fixpoint retry (w : st -> list A -> st * N * err) (fuel : nat) (t : st) (c : list A) : st * err :=
    match c with
    | [] => (t, ENone)
    | _ =>
        match fuel with
        | O => (t, EShort)
        | S f => let '(t', n, e) := w t c in
                 if is_err e then (t', e) else retry w f t' (skipn (N.to_nat n) c)
        end
    end.

  Fixpoint write_to (w : st -> list A -> st * N * err) (t : st) (chunks : list piece) : st * err :=
    match chunks with
    | [] => (t, ENone)
    | c :: r => let '(t', e) := retry w (length (snd c) + 2) t (snd c) in
                if is_err e then (t', e) else write_to w t' r
    end.

  (* io.Copy(dst, src) when src has no WriteTo and dst no ReadFrom (the generic
     loop over 32 KiB reads):  nw, ew := dst.Write(buf[0:nr]); ...
       if ew != nil { err = ew; break }; if nr != nw { err = io.ErrShortWrite; break } *)
  Fixpoint copy_loop (s : sink) (chunks : list piece) : sink * err :=
    match chunks with
    | [] => (s, ENone)
    | c :: r => let '(s', n, e) := sink_write s (snd c) in
                if is_err e then (s', e)
                else if n <? nlen (snd c) then (s', EShort)
                else copy_loop s' r
    end.

  (** how a site moves its bytes *)
  Inductive mech :=
  | MWrite         (* Write/WriteString calls on offsetTrackingWriter, stop at the first error *)
  | MWriteTo       (* io.Copy(&w.writer, memory.Buffer) = Buffer.WriteTo(&w.writer)  (writeRowGroup, writer.go:1624) *)
  | MLowerWriteTo  (* w.writer.ReadFrom(memory.Buffer) = io.Copy(w.writer.writer, buf) = Buffer.WriteTo(w.writer.writer): below offsetTrackingWriter (writer.go:1294, 2961-2966) *)
  | MLowerCopy.    (* w.writer.ReadFrom(r) with r an *os.File or io.SectionReader: io.Copy(w.writer.writer, r): generic loop on the destination, bufio.Writer.ReadFrom on a bufio.Writer *)

  Definition site_data_of (ps : list piece) : list A := concat (map snd ps).

  Definition run_mech (cur : bool) (m : mech) (t : st) (ps : list piece) : st * err :=
    match m with
    | MWrite => write_pieces cur t ps
    | MWriteTo => write_to (otw_write cur) t ps
    | MLowerWriteTo => write_to lower_write t ps
    | MLowerCopy =>
        match bw t with
        | None => let '(s, e) := copy_loop (snk t) ps in (mkSt s None, e)
        | Some b => let '(s, b', e) := bufio_read_from (snk t) b (site_data_of ps) in (mkSt s (Some b'), e)
        end
    end.
End Sink.

Arguments mkSink {A}. Arguments mkBuf {A}. Arguments mkSt {A}.
Arguments s_rev {A}. Arguments s_pos {A}. Arguments s_flt {A}. Arguments s_fired {A}.
Arguments b_size {A}. Arguments b_rev {A}. Arguments b_n {A}. Arguments b_err {A}.
Arguments snk {A}. Arguments bw {A}.

(** (C) the write sites of Flush/Close, in the order in which the code reaches
    them, and for each whether every caller on the way up to the API call looks
    at the returned error.  The line numbers are the checks, read from
    /repo/writer.go; the fault sweep of harness/c14 validates each flag (a site
    whose error is dropped shows up as a nil Close with bytes missing). *)
Inductive kind :=
| KHeader           (* writeFileHeader 1275-1276 `_, err := w.writer.WriteString(magic); return err`; callers: close 1243, writeRowGroup 1551 *)
| KCopiedDict       (* writeRowGroup 1567 `if _, err := w.writer.ReadFrom(...); err != nil` *)
| KCopiedData       (* writeRowGroup 1578 *)
| KDictPage         (* writeDictionaryPage 2666, 2669 `if _, err := output.Write(...); err != nil`; caller writeRowGroup 1603 *)
| KDictPageEnc      (* writeDictionaryPage 2654, 2657; caller 1603 *)
| KDataPages        (* writeRowGroup 1624 `if _, err := io.Copy(&w.writer, c.pageBuffer); err != nil` *)
| KCopiedBloom      (* writeRowGroup 1658 *)
| KBloomInline      (* writeBloomFilter 2450 `if err := e.Encode(&h); err != nil`, 2453-2454 `_, err := w.Write(filterBytes); return err`; caller writeRowGroup 1698 *)
| KBloomInlineEnc   (* writeBloomFilter 2442, 2445-2446; caller 1698 *)
| KBloomDeferred    (* writeDeferredBloomFilters 1294 `if _, err := w.writer.ReadFrom(bf.buf); err != nil`; caller close 1249 *)
| KColumnIndex      (* writeFileFooter 1362 `else if err := encoder.Encode(&columnIndexes[j]); err != nil` *)
| KColumnIndexEnc   (* writeFileFooter 1359 *)
| KOffsetIndex      (* writeFileFooter 1388 *)
| KOffsetIndexEnc   (* writeFileFooter 1385 *)
| KFooter           (* writeFileFooter 1490 `if err := encoder.Encode(&w.fileMetaData); err != nil` *)
| KFooterCrypto     (* writeFileFooter 1445 FileCryptoMetaData, 1449 encrypted footer *)
| KFooterSigned     (* writeFileFooter 1471 plaintext footer, 1480 signature *)
| KFooterTail.      (* writeFileFooter 1497-1498 (1455-1456, 1485-1486 with encryption) `_, err := w.writer.Write(w.footer[:]); return err` *)

(* every row of the table is `true` because every site listed above is
   followed by `if err != nil { return ... err }` (or returns the error) and
   the callers do the same: writeRowGroup <- flush 1262-1263 <- close 1246 /
   Writer.Flush; writeDeferredBloomFilters <- close 1249; writeFileFooter
   <- close 1252; close <- Writer.Close <- GenericWriter.Close.  The thrift
   encoder returns the first error of its Write calls
   (encoding/thrift/encode.go structEncoder.encode, compact.go compactWriter,
   binary.go binaryWriter.write/writeString/writeByte). *)
Definition site_checked (k : kind) : bool :=
  match k with
  | KHeader => true | KCopiedDict => true | KCopiedData => true
  | KDictPage => true | KDictPageEnc => true | KDataPages => true
  | KCopiedBloom => true | KBloomInline => true | KBloomInlineEnc => true
  | KBloomDeferred => true
  | KColumnIndex => true | KColumnIndexEnc => true
  | KOffsetIndex => true | KOffsetIndexEnc => true
  | KFooter => true | KFooterCrypto => true | KFooterSigned => true
  | KFooterTail => true
  end.

(* close, writer.go:1255-1257 `if w.buffer != nil { return w.buffer.Flush() }` *)
Definition final_flush_checked : bool := true.

Definition all_kinds : list kind :=
  [KHeader; KCopiedDict; KCopiedData; KDictPage; KDictPageEnc; KDataPages; KCopiedBloom;
   KBloomInline; KBloomInlineEnc; KBloomDeferred; KColumnIndex; KColumnIndexEnc;
   KOffsetIndex; KOffsetIndexEnc; KFooter; KFooterCrypto; KFooterSigned; KFooterTail].

Definition all_sites_checked : bool := forallb site_checked all_kinds && final_flush_checked.

Section Close.
  Variable A : Type.

  Record site := mkSite { st_kind : kind; st_mech : mech; st_pieces : list (piece A) }.

  Definition site_data (x : site) : list A := site_data_of A (st_pieces x).
  Definition all_data (xs : list site) : list A := concat (map site_data xs).

  (* the sites in order; the first error a caller looks at ends the run.
     Result: state, error, index of the site that reported (length xs = none). *)
  Fixpoint run_sites (cur : bool) (chk : kind -> bool) (i : nat) (t : st A) (xs : list site)
    : st A * err * nat :=
    match xs with
    | [] => (t, ENone, i)
    | x :: r =>
        let '(t', e) := run_mech A cur (st_mech x) t (st_pieces x) in
        if is_err e && chk (st_kind x) then (t', e, i) else run_sites cur chk (S i) t' r
    end.

  (** everything the API calls of one file life do to the destination: the
      sites (whichever of Write/Flush/Close reaches them) and the final
      w.buffer.Flush() of close (writer.go:1256).  Reporting index
      [length xs] designates that final flush. *)
  Definition close (cur : bool) (chk : kind -> bool) (chk_flush : bool) (t : st A) (xs : list site)
    : st A * err * nat :=
    let '(t', e, i) := run_sites cur chk 0 t xs in
    if is_err e then (t', e, i)
    else match bw t' with
         | None => (t', ENone, i)
         | Some b => let '(s, b', e') := bufio_flush A (snk t') b in
                     (mkSt s (Some b'), if chk_flush then e' else ENone, i)
         end.

  Definition init (f : fault) (bufsize : option N) : st A :=
    mkSt (mkSink [] 0 f false)
         (match bufsize with None => None | Some sz => Some (mkBuf sz [] 0 ENone) end).

  (* what the harness compares: error, reporting site, number of bytes the
     destination holds, and whether they are exactly the bytes of all sites *)
  Definition close_current (f : fault) (bufsize : option N) (xs : list site) : st A * err * nat :=
    close true site_checked final_flush_checked (init f bufsize) xs.

  Definition close_pinned (f : fault) (bufsize : option N) (xs : list site) : st A * err * nat :=
    close false site_checked final_flush_checked (init f bufsize) xs.
End Close.

Arguments mkSite {A}. Arguments st_kind {A}. Arguments st_mech {A}. Arguments st_pieces {A}.

(** instance used by the oracle: bytes are N; list equality for "complete" *)
Fixpoint bytes_eqb (a b : list N) : bool :=
  match a, b with
  | [], [] => true
  | x :: a', y :: b' => (x =? y) && bytes_eqb a' b'
  | _, _ => false
  end.

Definition close_verdict (cur : bool) (f : fault) (bufsize : option N) (xs : list (site N))
  : err * nat * N * bool :=
  let '(t, e, i) := close N cur site_checked final_flush_checked (init N f bufsize) xs in
  (e, i, s_pos (snk t), bytes_eqb (sink_bytes N (snk t)) (all_data N xs)).
