(** Proofs about the run scanner of writeRowsFuncOfOptional (model: NullRuns.v).

    - [null_runs_partition]: for every well-formed bitmap the runs emitted by
      the current code are consecutive from 0 to n, non-empty and uniform.
    - [null_runs_expand]: hence they expand to the null flags of the rows.
    - [null_runs_alternate]: adjacent runs have different flags (maximal runs).
    - [pinned_null_runs_refuted]: the mask used before 697c643 breaks this. *)
From Coq Require Import List NArith Bool Arith Lia ZArith.
From PQ Require Import Dremel.NullRuns.
Import ListNotations.
Local Open Scope N_scope.

(** * Constants *)

Lemma pow64 : 2 ^ 64 = 18446744073709551616.
Proof. reflexivity. Qed.

Lemma mask64_ones : mask64 = N.ones 64.
Proof. reflexivity. Qed.

Lemma mask_fixed_ones : forall y, mask_fixed y = N.ones (64 - y).
Proof. intros y. unfold mask_fixed, N.ones. now rewrite N.pred_sub. Qed.

(** * Trailing zeros *)

Lemma tz_pos_spec : forall p,
  N.testbit (Npos p) (tz_pos p) = true /\
  forall k, k < tz_pos p -> N.testbit (Npos p) k = false.
Proof.
  induction p as [p IH|p IH|]; simpl tz_pos.
  - split; [reflexivity | intros k Hk; lia].
  - destruct IH as [IH1 IH2]. split.
    + change (N.pos p~0) with (2 * N.pos p). now rewrite N.testbit_even_succ by lia.
    + intros k Hk. change (N.pos p~0) with (2 * N.pos p).
      destruct (N.eq_dec k 0) as [->|Hk0].
      * apply N.testbit_even_0.
      * replace k with (N.succ (N.pred k)) by lia.
        rewrite N.testbit_even_succ by lia. apply IH2. lia.
  - split; [reflexivity | intros k Hk; lia].
Qed.

Lemma tz64_spec : forall w, w <> 0 ->
  N.testbit w (tz64 w) = true /\ forall k, k < tz64 w -> N.testbit w k = false.
Proof. intros [|p] H; [congruence|]. apply tz_pos_spec. Qed.

Lemma testbit_high : forall w k, w < 2 ^ 64 -> 64 <= k -> N.testbit w k = false.
Proof.
  intros w k Hw Hk. destruct (N.eq_dec w 0) as [->|Hw0]; [apply N.bits_0|].
  apply N.bits_above_log2.
  assert (N.log2 w < 64) by (apply N.log2_lt_pow2; lia). lia.
Qed.

(** complement of a 64-bit word *)
Lemma not64_spec_low : forall w k, k < 64 -> N.testbit (not64 w) k = negb (N.testbit w k).
Proof.
  intros w k Hk. unfold not64. rewrite N.lxor_spec, mask64_ones, N.ones_spec_low by lia.
  now rewrite xorb_true_r.
Qed.

Lemma not64_spec_high : forall w k, w < 2 ^ 64 -> 64 <= k -> N.testbit (not64 w) k = false.
Proof.
  intros w k Hw Hk. unfold not64.
  rewrite N.lxor_spec, mask64_ones, N.ones_spec_high, testbit_high by lia. reflexivity.
Qed.

Lemma not64_zero : forall w, not64 w = 0 -> w = mask64.
Proof. intros w H. unfold not64 in H. now apply N.lxor_eq. Qed.

(** * Scanning inside one word *)

(** null phase, lines 340-347: b = w >> y *)
Lemma null_inword : forall w y, w < 2 ^ 64 -> y < 64 ->
  (N.shiftr w y = 0 -> forall k, y <= k < 64 -> N.testbit w k = false) /\
  (N.shiftr w y <> 0 ->
     y + tz64 (N.shiftr w y) < 64 /\
     N.testbit w (y + tz64 (N.shiftr w y)) = true /\
     forall k, y <= k < y + tz64 (N.shiftr w y) -> N.testbit w k = false).
Proof.
  intros w y Hw Hy. set (b := N.shiftr w y).
  assert (Hb : forall k, N.testbit w (k + y) = N.testbit b k)
    by (intros k; unfold b; now rewrite N.shiftr_spec by lia).
  split.
  - intros H0 k Hk. replace k with ((k - y) + y) by lia. rewrite Hb, H0. apply N.bits_0.
  - intros Hn. destruct (tz64_spec b Hn) as [H1 H2].
    assert (Ht : y + tz64 b < 64).
    { destruct (N.lt_ge_cases (y + tz64 b) 64) as [|Hge]; [assumption|].
      rewrite <- Hb, testbit_high in H1 by lia. discriminate. }
    split; [assumption|]. split.
    + now rewrite N.add_comm, Hb.
    + intros k Hk. replace k with ((k - y) + y) by lia. rewrite Hb. apply H2. lia.
Qed.

(** non-null phase, lines 368-375: b = w >> y compared with (1<<(64-y))-1 *)
Lemma nonnull_inword : forall w y, w < 2 ^ 64 -> 0 < y < 64 ->
  (N.shiftr w y = mask_fixed y -> forall k, y <= k < 64 -> N.testbit w k = true) /\
  (N.shiftr w y <> mask_fixed y ->
     y + tz64 (not64 (N.shiftr w y)) < 64 /\
     N.testbit w (y + tz64 (not64 (N.shiftr w y))) = false /\
     forall k, y <= k < y + tz64 (not64 (N.shiftr w y)) -> N.testbit w k = true).
Proof.
  intros w y Hw Hy. set (b := N.shiftr w y).
  assert (Hb : forall k, N.testbit w (k + y) = N.testbit b k)
    by (intros k; unfold b; now rewrite N.shiftr_spec by lia).
  rewrite mask_fixed_ones. split.
  - intros H0 k Hk. replace k with ((k - y) + y) by lia.
    rewrite Hb, H0. apply N.ones_spec_low. lia.
  - intros Hn. set (c := not64 b).
    assert (Hc : forall k, k < 64 -> N.testbit c k = negb (N.testbit b k))
      by (intros; now apply not64_spec_low).
    assert (Hc0 : c <> 0).
    { intros E. specialize (Hc 63 ltac:(lia)).
      rewrite E, N.bits_0, <- Hb, testbit_high in Hc by lia. discriminate. }
    destruct (tz64_spec c Hc0) as [H1 H2].
    assert (Ht : tz64 c < 64 - y).
    { destruct (N.lt_ge_cases (tz64 c) (64 - y)) as [|Hge]; [assumption|].
      exfalso. apply Hn. apply N.bits_inj. intros k.
      destruct (N.lt_ge_cases k (64 - y)) as [Hk|Hk].
      - rewrite N.ones_spec_low by lia.
        specialize (H2 k ltac:(lia)). rewrite Hc in H2 by lia.
        now destruct (N.testbit b k).
      - rewrite N.ones_spec_high by lia. rewrite <- Hb. apply testbit_high; lia. }
    split; [lia|]. split.
    + rewrite N.add_comm, Hb. rewrite Hc in H1 by lia. now destruct (N.testbit b (tz64 c)).
    + intros k Hk. replace k with ((k - y) + y) by lia. rewrite Hb.
      specialize (H2 (k - y) ltac:(lia)). rewrite Hc in H2 by lia.
      now destruct (N.testbit b (k - y)).
Qed.

(** lines 353-355: y = TrailingZeros64(w) % 64 with w <> 0 *)
Lemma null_word0 : forall w, w < 2 ^ 64 -> w <> 0 ->
  tz64 w mod 64 < 64 /\
  N.testbit w (tz64 w mod 64) = true /\
  forall k, k < tz64 w mod 64 -> N.testbit w k = false.
Proof.
  intros w Hw Hn. destruct (tz64_spec w Hn) as [H1 H2].
  assert (Ht : tz64 w < 64).
  { destruct (N.lt_ge_cases (tz64 w) 64) as [|Hge]; [assumption|].
    rewrite testbit_high in H1 by lia. discriminate. }
  rewrite N.mod_small by assumption. auto.
Qed.

(** lines 381-383: y = TrailingZeros64(^w) % 64 with w <> ^0 *)
Lemma nonnull_word0 : forall w, w < 2 ^ 64 -> w <> mask64 ->
  tz64 (not64 w) mod 64 < 64 /\
  N.testbit w (tz64 (not64 w) mod 64) = false /\
  forall k, k < tz64 (not64 w) mod 64 -> N.testbit w k = true.
Proof.
  intros w Hw Hn.
  assert (Hc0 : not64 w <> 0) by (intros E; now apply Hn, not64_zero).
  destruct (tz64_spec _ Hc0) as [H1 H2].
  assert (Ht : tz64 (not64 w) < 64).
  { destruct (N.lt_ge_cases (tz64 (not64 w)) 64) as [|Hge]; [assumption|].
    rewrite not64_spec_high in H1 by lia. discriminate. }
  rewrite N.mod_small by assumption. split; [assumption|]. split.
  - rewrite not64_spec_low in H1 by lia. now destruct (N.testbit w (tz64 (not64 w))).
  - intros k Hk. specialize (H2 k Hk). rewrite not64_spec_low in H2 by lia.
    now destruct (N.testbit w k).
Qed.

(** a word equal to 0 (resp. ^0) has all its 64 bits equal *)
Lemma word_zero_bits : forall k, N.testbit 0 k = false.
Proof. apply N.bits_0. Qed.

Lemma word_mask_bits : forall k, k < 64 -> N.testbit mask64 k = true.
Proof. intros k Hk. rewrite mask64_ones. now apply N.ones_spec_low. Qed.

(** * Words of the bitmap *)

Lemma word_lt : forall bits x,
  Forall (fun w => w < 2 ^ 64) bits -> word bits x < 2 ^ 64.
Proof.
  intros bits x HF. unfold word.
  destruct (nth_in_or_default (N.to_nat x) bits 0) as [Hin| ->].
  - rewrite Forall_forall in HF. now apply HF.
  - rewrite pow64. lia.
Qed.

Lemma skip_words_spec : forall fuel bits v x,
  x <= nwords bits -> (N.to_nat (nwords bits - x) < fuel)%nat ->
  x <= skip_words fuel bits v x <= nwords bits /\
  (forall z, x <= z < skip_words fuel bits v x -> word bits z = v) /\
  (skip_words fuel bits v x < nwords bits -> word bits (skip_words fuel bits v x) <> v).
Proof.
  induction fuel as [|f IH]; intros bits v x Hx Hf; [lia|].
  simpl skip_words.
  destruct (N.ltb_spec x (nwords bits)) as [Hlt|Hge]; simpl andb.
  - destruct (N.eqb_spec (word bits x) v) as [He|Hne].
    + destruct (IH bits v (x + 1)) as (A & B & C); [lia|lia|].
      split; [lia|]. split; [|assumption].
      intros z Hz. destruct (N.eq_dec z x) as [->|]; [assumption|]. apply B. lia.
    + split; [lia|]. split; [intros z Hz; lia|auto].
  - split; [lia|]. split; [intros z Hz; lia|lia].
Qed.

(** * Positions: row k lives at bit (k mod 64) of word (k / 64) *)

Lemma bit_at_pos : forall bits x y, y < 64 ->
  bit_at bits (x * 64 + y) = N.testbit (word bits x) y.
Proof.
  intros bits x y Hy. unfold bit_at.
  rewrite N.div_add_l, N.div_small, N.add_0_r by lia.
  rewrite N.add_comm, N.mod_add, N.mod_small by lia. reflexivity.
Qed.

Lemma pos_split : forall k, exists z r, k = z * 64 + r /\ r < 64.
Proof.
  intros k. exists (k / 64), (k mod 64). split.
  - rewrite N.mul_comm. apply N.div_mod'.
  - apply N.mod_lt. lia.
Qed.

(** What one phase of the scan guarantees: starting at (x, y) it stops at
    (x', y'), every row in between has bit [v], and the row it stops at, if
    inside the bitmap, has the other bit. *)
Definition phase_post (v : bool) (bits : list N) (x y x' y' : N) : Prop :=
  y' < 64 /\
  x * 64 + y <= x' * 64 + y' <= 64 * nwords bits /\
  (forall k, x * 64 + y <= k < x' * 64 + y' -> bit_at bits k = v) /\
  (x' * 64 + y' < 64 * nwords bits -> bit_at bits (x' * 64 + y') = negb v).

Lemma scan_from_post : forall v bits x0 x' y',
  x0 <= x' <= nwords bits -> y' < 64 ->
  (forall z, x0 <= z < x' -> forall r, r < 64 -> N.testbit (word bits z) r = v) ->
  (x' < nwords bits ->
     (forall r, r < y' -> N.testbit (word bits x') r = v) /\
     N.testbit (word bits x') y' = negb v) ->
  (~ x' < nwords bits -> y' = 0) ->
  phase_post v bits x0 0 x' y'.
Proof.
  intros v bits x0 x' y' Hx Hy Hw Hl He.
  assert (Hcase : x' < nwords bits \/ (x' = nwords bits /\ y' = 0)).
  { destruct (N.lt_ge_cases x' (nwords bits)) as [|Hge]; [now left|right]. split; [lia|].
    apply He. lia. }
  split; [assumption|]. split; [lia|]. split.
  - intros k Hk. destruct (pos_split k) as (z & r & -> & Hr). rewrite bit_at_pos by assumption.
    destruct (N.lt_ge_cases z x') as [Hz|Hz].
    + apply Hw; lia.
    + assert (z = x') by lia. subst z.
      destruct Hcase as [Hlt|[_ ->]]; [|lia]. apply Hl; [assumption|lia].
  - intros Hlt. rewrite bit_at_pos by assumption.
    destruct Hcase as [Hlt'|[-> ->]]; [|lia]. now apply Hl.
Qed.

Lemma phase_extend : forall v bits x y x' y',
  y < 64 ->
  (forall r, y <= r < 64 -> N.testbit (word bits x) r = v) ->
  phase_post v bits (x + 1) 0 x' y' -> phase_post v bits x y x' y'.
Proof.
  intros v bits x y x' y' Hy Hw (P1 & P2 & P3 & P4).
  split; [assumption|]. split; [lia|]. split; [|assumption].
  intros k Hk. destruct (N.lt_ge_cases k ((x + 1) * 64 + 0)) as [Hlt|Hge].
  - destruct (pos_split k) as (z & r & -> & Hr). rewrite bit_at_pos by assumption.
    assert (z = x) by lia. subst z. apply Hw. lia.
  - apply P3. lia.
Qed.

Lemma phase_inword : forall v bits x y t,
  x < nwords bits -> y + t < 64 ->
  (forall r, y <= r < y + t -> N.testbit (word bits x) r = v) ->
  N.testbit (word bits x) (y + t) = negb v ->
  phase_post v bits x y x (y + t).
Proof.
  intros v bits x y t Hx Hy Hw Hs.
  split; [assumption|]. split; [lia|]. split.
  - intros k Hk. destruct (pos_split k) as (z & r & -> & Hr). rewrite bit_at_pos by assumption.
    assert (z = x) by lia. subst z. apply Hw. lia.
  - intros _. now rewrite bit_at_pos.
Qed.

(** * The two phases *)

Definition null_scan_from (bits : list N) (x : N) : N * N :=
  let x' := skip_words (S (length bits)) bits 0 x in
  if x' <? nwords bits then (x', tz64 (word bits x') mod 64) else (x', 0).

Definition nonnull_scan_from (bits : list N) (x : N) : N * N :=
  let x' := skip_words (S (length bits)) bits mask64 x in
  if x' <? nwords bits then (x', tz64 (not64 (word bits x')) mod 64) else (x', 0).

Lemma null_phase_eq : forall bits x y,
  null_phase bits x y =
  if negb (y =? 0) then
    if N.shiftr (word bits x) y =? 0 then null_scan_from bits (x + 1)
    else (x, y + tz64 (N.shiftr (word bits x) y))
  else null_scan_from bits x.
Proof. reflexivity. Qed.

Lemma nonnull_phase_eq : forall maskf bits x y,
  nonnull_phase maskf bits x y =
  if negb (y =? 0) then
    if N.shiftr (word bits x) y =? maskf y then nonnull_scan_from bits (x + 1)
    else (x, y + tz64 (not64 (N.shiftr (word bits x) y)))
  else nonnull_scan_from bits x.
Proof. reflexivity. Qed.

Lemma null_scan_from_post : forall bits x,
  Forall (fun w => w < 2 ^ 64) bits -> x <= nwords bits ->
  phase_post false bits x 0 (fst (null_scan_from bits x)) (snd (null_scan_from bits x)).
Proof.
  intros bits x HF Hx. unfold null_scan_from.
  destruct (skip_words_spec (S (length bits)) bits 0 x Hx) as (A & B & C);
    [unfold nwords; lia|].
  set (x' := skip_words (S (length bits)) bits 0 x) in *.
  destruct (N.ltb_spec x' (nwords bits)) as [Hlt|Hge]; cbn [fst snd].
  - destruct (null_word0 (word bits x') (word_lt _ _ HF) (C Hlt)) as (T1 & T2 & T3).
    apply scan_from_post; try assumption.
    + intros z Hz r _. rewrite (B z Hz). apply N.bits_0.
    + intros _. split; assumption.
    + intros Hn. contradiction.
  - apply scan_from_post; try lia.
    + intros z Hz r _. rewrite (B z Hz). apply N.bits_0.
Qed.

Lemma nonnull_scan_from_post : forall bits x,
  Forall (fun w => w < 2 ^ 64) bits -> x <= nwords bits ->
  phase_post true bits x 0 (fst (nonnull_scan_from bits x)) (snd (nonnull_scan_from bits x)).
Proof.
  intros bits x HF Hx. unfold nonnull_scan_from.
  destruct (skip_words_spec (S (length bits)) bits mask64 x Hx) as (A & B & C);
    [unfold nwords; lia|].
  set (x' := skip_words (S (length bits)) bits mask64 x) in *.
  destruct (N.ltb_spec x' (nwords bits)) as [Hlt|Hge]; cbn [fst snd].
  - destruct (nonnull_word0 (word bits x') (word_lt _ _ HF) (C Hlt)) as (T1 & T2 & T3).
    apply scan_from_post; try assumption.
    + intros z Hz r Hr. rewrite (B z Hz). now apply word_mask_bits.
    + intros _. split; assumption.
    + intros Hn. contradiction.
  - apply scan_from_post; try lia.
    + intros z Hz r Hr. rewrite (B z Hz). now apply word_mask_bits.
Qed.

Lemma null_phase_post : forall bits x y,
  Forall (fun w => w < 2 ^ 64) bits -> y < 64 -> x * 64 + y <= 64 * nwords bits ->
  phase_post false bits x y (fst (null_phase bits x y)) (snd (null_phase bits x y)).
Proof.
  intros bits x y HF Hy Hp. rewrite null_phase_eq.
  destruct (N.eqb_spec y 0) as [->|Hy0]; cbn [negb].
  - apply null_scan_from_post; [assumption|lia].
  - assert (Hx : x < nwords bits) by lia.
    destruct (null_inword (word bits x) y (word_lt _ _ HF) Hy) as [Z NZ].
    destruct (N.eqb_spec (N.shiftr (word bits x) y) 0) as [Hb|Hb].
    + apply phase_extend; [assumption|auto|]. apply null_scan_from_post; [assumption|lia].
    + destruct (NZ Hb) as (T1 & T2 & T3). cbn [fst snd]. now apply phase_inword.
Qed.

Lemma nonnull_phase_post : forall bits x y,
  Forall (fun w => w < 2 ^ 64) bits -> y < 64 -> x * 64 + y <= 64 * nwords bits ->
  phase_post true bits x y
    (fst (nonnull_phase mask_fixed bits x y)) (snd (nonnull_phase mask_fixed bits x y)).
Proof.
  intros bits x y HF Hy Hp. rewrite nonnull_phase_eq.
  destruct (N.eqb_spec y 0) as [->|Hy0]; cbn [negb].
  - apply nonnull_scan_from_post; [assumption|lia].
  - assert (Hx : x < nwords bits) by lia.
    destruct (nonnull_inword (word bits x) y (word_lt _ _ HF) ltac:(lia)) as [Z NZ].
    destruct (N.eqb_spec (N.shiftr (word bits x) y) (mask_fixed y)) as [Hb|Hb].
    + apply phase_extend; [assumption|auto|]. apply nonnull_scan_from_post; [assumption|lia].
    + destruct (NZ Hb) as (T1 & T2 & T3). cbn [fst snd]. now apply phase_inword.
Qed.

(** * The outer loop *)

Definition flag (r : run) : bool := fst (fst r).

(** adjacent runs have different flags *)
Fixpoint alt (rs : list run) : Prop :=
  match rs with
  | r1 :: t => match t with
               | r2 :: _ => flag r1 <> flag r2 /\ alt t
               | [] => True
               end
  | [] => True
  end.

Lemma scan_loop_S : forall f maskf bits n i,
  scan_loop (S f) maskf bits n i =
  if i <? n then
    let x := i / 64 in
    let y := i mod 64 in
    let '(x1, y1) := null_phase bits x y in
    let j1 := clamp (x1 * 64 + y1) n in
    let '(out1, i1) := if i <? j1 then ([(true, i, j1)], j1) else ([], i) in
    let '(x2, y2) := nonnull_phase maskf bits x1 y1 in
    let j2 := clamp (x2 * 64 + y2) n in
    let '(out2, i2) := if i1 <? j2 then ([(false, i1, j2)], j2) else ([], i1) in
    out1 ++ out2 ++ scan_loop f maskf bits n i2
  else [].
Proof. reflexivity. Qed.

Lemma scan_loop_end : forall f maskf bits n, scan_loop f maskf bits n n = [].
Proof. intros [|f] maskf bits n; [reflexivity|]. now rewrite scan_loop_S, N.ltb_irrefl. Qed.

(** one iteration, with the positions abstracted: the null phase stops at j1,
    the non-null phase at j2 *)
Lemma iteration_bounds : forall bits n i,
  wf_bitmap bits n -> i < n ->
  forall x1 y1 x2 y2,
  null_phase bits (i / 64) (i mod 64) = (x1, y1) ->
  nonnull_phase mask_fixed bits x1 y1 = (x2, y2) ->
  let j1 := clamp (x1 * 64 + y1) n in
  let j2 := clamp (x2 * 64 + y2) n in
  i <= j1 /\ j1 <= j2 /\ j2 <= n /\ i < j2 /\
  (forall k, i <= k < j1 -> bit_at bits k = false) /\
  (j1 < n -> bit_at bits j1 = true) /\
  (forall k, j1 <= k < j2 -> bit_at bits k = true) /\
  (j2 < n -> bit_at bits j2 = false).
Proof.
  intros bits n i [HF Hn] Hi x1 y1 x2 y2 E1 E2 j1 j2.
  assert (Hy : i mod 64 < 64) by (apply N.mod_lt; lia).
  assert (Hpos : i = i / 64 * 64 + i mod 64) by (rewrite N.mul_comm; apply N.div_mod').
  set (x := i / 64) in *. set (y := i mod 64) in *.
  assert (P1 : phase_post false bits x y x1 y1).
  { generalize (null_phase_post bits x y HF Hy ltac:(lia)). now rewrite E1. }
  destruct P1 as (A1 & A2 & A3 & A4).
  assert (P2 : phase_post true bits x1 y1 x2 y2).
  { generalize (nonnull_phase_post bits x1 y1 HF A1 ltac:(lia)). now rewrite E2. }
  destruct P2 as (B1 & B2 & B3 & B4).
  set (p1 := x1 * 64 + y1) in *. set (p2 := x2 * 64 + y2) in *.
  rewrite <- Hpos in *. clearbody p1 p2. clear E1 E2 Hpos.
  assert (Hj1 : (p1 <= n /\ j1 = p1) \/ (n < p1 /\ j1 = n)).
  { unfold j1, clamp. destruct (N.ltb_spec n p1); lia. }
  assert (Hj2 : (p2 <= n /\ j2 = p2) \/ (n < p2 /\ j2 = n)).
  { unfold j2, clamp. destruct (N.ltb_spec n p2); lia. }
  clearbody j1 j2.
  assert (C1 : forall k, i <= k < j1 -> bit_at bits k = false) by (intros; apply A3; lia).
  assert (C2 : j1 < n -> bit_at bits j1 = true).
  { intros H. assert (j1 = p1) by lia. subst j1. apply A4. lia. }
  assert (C3 : forall k, j1 <= k < j2 -> bit_at bits k = true) by (intros; apply B3; lia).
  assert (C4 : j2 < n -> bit_at bits j2 = false).
  { intros H. assert (j2 = p2) by lia. subst j2. apply B4. lia. }
  repeat split; try assumption; try lia.
  destruct (N.lt_ge_cases i j2) as [|Hge]; [assumption|exfalso].
  assert (j2 = i) by lia. assert (j1 = i) by lia. subst j1 j2.
  rewrite C2 in C4 by lia. specialize (C4 Hi). discriminate.
Qed.

Lemma alt_false_cons : forall s e rest,
  alt rest -> (rest = [] \/ exists s' e' t, rest = (true, s', e') :: t) ->
  alt ((false, s, e) :: rest).
Proof.
  intros s e rest Ha [->|(s' & e' & t & ->)]; [exact I|].
  split; [cbn; discriminate|assumption].
Qed.

Lemma scan_loop_spec : forall bits n, wf_bitmap bits n ->
  forall fuel i, i <= n -> (N.to_nat (n - i) < fuel)%nat ->
  chain i n (scan_loop fuel mask_fixed bits n i) /\
  Forall (run_ok bits) (scan_loop fuel mask_fixed bits n i) /\
  alt (scan_loop fuel mask_fixed bits n i) /\
  (i < n -> bit_at bits i = false ->
   exists e t, scan_loop fuel mask_fixed bits n i = (true, i, e) :: t).
Proof.
  intros bits n Hwf. induction fuel as [|f IH]; intros i Hi Hf; [lia|].
  rewrite scan_loop_S. destruct (N.ltb_spec i n) as [Hlt|Hge].
  2:{ cbn. repeat split; try constructor; lia. }
  cbv zeta.
  destruct (null_phase bits (i / 64) (i mod 64)) as [x1 y1] eqn:E1.
  destruct (nonnull_phase mask_fixed bits x1 y1) as [x2 y2] eqn:E2.
  destruct (iteration_bounds bits n i Hwf Hlt x1 y1 x2 y2 E1 E2)
    as (L1 & L2 & L3 & L4 & C1 & C2 & C3 & C4).
  set (j1 := clamp (x1 * 64 + y1) n) in *. set (j2 := clamp (x2 * 64 + y2) n) in *.
  clearbody j1 j2. clear E1 E2.
  (* the rest of the list starts at j2 *)
  assert (Hrest : chain j2 n (scan_loop f mask_fixed bits n j2) /\
                  Forall (run_ok bits) (scan_loop f mask_fixed bits n j2) /\
                  alt (scan_loop f mask_fixed bits n j2) /\
                  (scan_loop f mask_fixed bits n j2 = [] \/
                   exists s' e' t, scan_loop f mask_fixed bits n j2 = (true, s', e') :: t)).
  { destruct (N.eq_dec j2 n) as [->|Hne].
    - rewrite scan_loop_end. cbn. repeat split; auto.
    - destruct (IH j2 L3 ltac:(lia)) as (R1 & R2 & R3 & R4).
      repeat split; try assumption. right.
      destruct R4 as (e & t & ->); [lia|apply C4; lia|]. now exists j2, e, t. }
  destruct Hrest as (R1 & R2 & R3 & R4).
  destruct (N.ltb_spec i j1) as [H1|H1].
  - destruct (N.ltb_spec j1 j2) as [H2|H2]; cbn [app].
    + repeat split.
      * assumption.
      * constructor; [split; [assumption|intros k Hk; now apply C1]|].
        constructor; [split; [assumption|intros k Hk; now apply C3]|assumption].
      * cbn; discriminate.
      * now apply alt_false_cons.
      * intros _ _. eauto.
    + assert (j2 = j1) by lia. subst j2.
      assert (j1 = n).
      { destruct (N.eq_dec j1 n) as [|Hne]; [assumption|exfalso].
        rewrite C2 in C4 by lia. specialize (C4 ltac:(lia)). discriminate. }
      subst j1. rewrite scan_loop_end. cbn. repeat split; auto.
      * constructor; [|constructor]. split; [assumption|intros k Hk; now apply C1].
      * eauto.
  - assert (j1 = i) by lia. subst j1.
    destruct (N.ltb_spec i j2) as [H2|H2]; [|lia]. cbn [app].
    repeat split.
    + assumption.
    + constructor; [split; [assumption|intros k Hk; now apply C3]|assumption].
    + now apply alt_false_cons.
    + intros _ Hb. rewrite C2 in Hb by assumption. discriminate.
Qed.

(** * Theorems *)

Theorem null_runs_partition : forall bits n,
  wf_bitmap bits n -> runs_partition bits n (scan bits n).
Proof.
  intros bits n Hwf. unfold scan.
  destruct (scan_loop_spec bits n Hwf (S (N.to_nat n)) 0) as (A & B & _); [lia|lia|].
  split; assumption.
Qed.

Lemma alt_adjacent : forall rs l1 r1 r2 l2,
  alt rs -> rs = l1 ++ r1 :: r2 :: l2 -> flag r1 <> flag r2.
Proof.
  intros rs l1. revert rs. induction l1 as [|a l1 IH]; intros rs r1 r2 l2 Ha ->.
  - now destruct Ha.
  - apply (IH (l1 ++ r1 :: r2 :: l2) r1 r2 l2); [|reflexivity].
    cbn [app] in Ha. destruct (l1 ++ r1 :: r2 :: l2) eqn:E; [exact I|]. now destruct Ha.
Qed.

(** adjacent runs have different flags: the runs are the maximal ones *)
Theorem null_runs_alternate : forall bits n, wf_bitmap bits n ->
  forall r1 r2 l1 l2, scan bits n = l1 ++ r1 :: r2 :: l2 ->
  fst (fst r1) <> fst (fst r2).
Proof.
  intros bits n Hwf r1 r2 l1 l2 E. unfold scan in E.
  destruct (scan_loop_spec bits n Hwf (S (N.to_nat n)) 0) as (_ & _ & A & _); [lia|lia|].
  exact (alt_adjacent _ _ _ _ _ A E).
Qed.

(** * Expansion *)

Lemma chain_le : forall bits rs a n,
  chain a n rs -> Forall (run_ok bits) rs -> a <= n.
Proof.
  intros bits rs. induction rs as [|[[b s] e] rest IH]; intros a n Hc HF.
  - cbn in Hc. lia.
  - destruct Hc as [-> Hc]. inversion HF as [|? ? Hr HF']; subst. destruct Hr as [Hse _].
    specialize (IH e n Hc HF'). lia.
Qed.

Lemma map_seq_const : forall (f : nat -> bool) b len start,
  (forall i, (start <= i < start + len)%nat -> f i = b) ->
  map f (seq start len) = repeat b len.
Proof.
  intros f b len. induction len as [|len IH]; intros start H; [reflexivity|].
  cbn [seq map repeat]. rewrite H by lia. f_equal. apply IH. intros i Hi. apply H. lia.
Qed.

Lemma expand_chain : forall bits rs a n,
  chain a n rs -> Forall (run_ok bits) rs ->
  expand rs =
  map (fun i => negb (bit_at bits (N.of_nat i))) (seq (N.to_nat a) (N.to_nat (n - a))).
Proof.
  intros bits rs. induction rs as [|[[b s] e] rest IH]; intros a n Hc HF.
  - cbn in Hc. subst a. now rewrite N.sub_diag.
  - pose proof (chain_le _ _ _ _ Hc HF) as Han.
    destruct Hc as [-> Hc]. inversion HF as [|? ? Hr HF']; subst. destruct Hr as [Hse Hu].
    pose proof (chain_le _ _ _ _ Hc HF') as Hen.
    change (expand ((b, a, e) :: rest)) with (repeat b (N.to_nat (e - a)) ++ expand rest).
    rewrite (IH e n Hc HF').
    replace (N.to_nat (n - a)) with (N.to_nat (e - a) + N.to_nat (n - e))%nat by lia.
    rewrite seq_app, map_app. f_equal.
    + symmetry. apply map_seq_const. intros i Hi. rewrite Hu by lia. apply negb_involutive.
    + do 2 f_equal. lia.
Qed.

Lemma runs_partition_expand : forall bits n rs,
  runs_partition bits n rs -> expand rs = null_flags bits n.
Proof.
  intros bits n rs [Hc HF]. rewrite (expand_chain bits rs 0 n Hc HF).
  unfold null_flags. now rewrite N.sub_0_r.
Qed.

Theorem null_runs_expand : forall bits n,
  wf_bitmap bits n -> expand (scan bits n) = null_flags bits n.
Proof. intros bits n Hwf. apply runs_partition_expand. now apply null_runs_partition. Qed.

(** * The boolean checker is sound *)

Lemma chainb_sound : forall rs a n, chainb a n rs = true -> chain a n rs.
Proof.
  induction rs as [|[[b s] e] rest IH]; intros a n H; cbn in *.
  - now apply N.eqb_eq.
  - apply andb_true_iff in H. destruct H as [H1 H2].
    apply N.eqb_eq in H1. split; [assumption|now apply IH].
Qed.

Lemma run_okb_sound : forall bits r, run_okb bits r = true -> run_ok bits r.
Proof.
  intros bits [[b s] e] H. unfold run_okb in H. apply andb_true_iff in H.
  destruct H as [H1 H2]. apply N.ltb_lt in H1. split; [assumption|].
  intros i Hi. rewrite forallb_forall in H2.
  specialize (H2 (N.to_nat (i - s))). rewrite in_seq in H2.
  specialize (H2 ltac:(lia)). apply Bool.eqb_prop in H2.
  now replace (s + N.of_nat (N.to_nat (i - s))) with i in H2 by lia.
Qed.

Lemma runs_partitionb_sound : forall bits n rs,
  runs_partitionb bits n rs = true -> runs_partition bits n rs.
Proof.
  intros bits n rs H. unfold runs_partitionb in H. apply andb_true_iff in H.
  destruct H as [H1 H2]. split; [now apply chainb_sound|].
  rewrite forallb_forall in H2. apply Forall_forall. intros r Hr.
  now apply run_okb_sound, H2.
Qed.

(** * The mask used before 697c643, (1<<y)-1, is wrong *)

Theorem pinned_null_runs_refuted :
  exists bits n, wf_bitmap bits n /\ ~ runs_partition bits n (scan_pinned bits n).
Proof.
  exists [2], 3. split.
  - split; [repeat constructor|vm_compute; discriminate].
  - intros [_ HF].
    assert (E : scan_pinned [2] 3 = [(true, 0, 1); (false, 1, 3)]) by (vm_compute; reflexivity).
    rewrite E in HF. inversion HF as [|? ? _ HF']; subst.
    inversion HF' as [|? ? Hr _]; subst. destruct Hr as [_ Hu].
    specialize (Hu 2 ltac:(lia)). vm_compute in Hu. discriminate.
Qed.

Theorem pinned_null_runs_refuted_130 :
  ~ runs_partition [2; 0; 0] 130 (scan_pinned [2; 0; 0] 130).
Proof.
  intros [_ HF].
  assert (E : scan_pinned [2; 0; 0] 130 = [(true, 0, 1); (false, 1, 64); (true, 64, 130)])
    by (vm_compute; reflexivity).
  rewrite E in HF. inversion HF as [|? ? _ HF']; subst.
  inversion HF' as [|? ? Hr _]; subst. destruct Hr as [_ Hu].
  specialize (Hu 2 ltac:(lia)). vm_compute in Hu. discriminate.
Qed.

Lemma wf_bitmap_130 : wf_bitmap [2; 0; 0] 130.
Proof. split; [repeat constructor|vm_compute; discriminate]. Qed.

Print Assumptions null_runs_partition.
Print Assumptions null_runs_expand.
Print Assumptions null_runs_alternate.
Print Assumptions runs_partitionb_sound.
Print Assumptions pinned_null_runs_refuted.
Print Assumptions pinned_null_runs_refuted_130.
