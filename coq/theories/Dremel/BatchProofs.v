(** Column-at-a-time shredding of a batch (Dremel/Batch.v, the typed path)
    produces exactly the streams of row-at-a-time shredding (Dremel/Model.v
    [shred_rows], the Deconstruct path), for every schema, every batch of
    well-formed rows and every admissible way of cutting optional fields into
    calls. *)
From Coq Require Import List Arith Bool Lia.
From PQ Require Import Dremel.Model Dremel.Proofs Dremel.Batch.
Import ListNotations.

Combined Scheme schema_fields_ind from schema_mut, fields_mut.

Section BatchProofs.
  Variable V : Type.
  Notation value := (value V).
  Notation entry := (entry V).
  Notation column := (column V).

  (** * Number of columns (no assumption on the schema) *)

  Lemma fold_zipapp_len (ms : list (list column)) : forall a n,
    length a = n -> Forall (fun m => length m = n) ms -> length (fold_left zipapp ms a) = n.
  Proof.
    induction ms as [|m ms IH]; intros a n Ha Hm; cbn [fold_left]; [exact Ha|].
    inversion Hm; subst. apply IH; [|assumption]. rewrite zipapp_length; lia.
  Qed.

  Lemma shred_len_both :
    (forall s (v : value) r d k, wf s v -> length (shred s v r d k) = nleaves s) /\
    (forall fs (vs : list value) r d k, wf_fields fs vs -> length (shred_fields fs vs r d k) = nleaves_fields fs).
  Proof.
    apply schema_fields_ind.
    - intros [x| | |] r d k H; cbn in *; try contradiction. reflexivity.
    - intros fs IH [|vs| |] r d k H; cbn in H; try contradiction.
      rewrite shred_group. now apply IH.
    - intros [|v vs] r d k H; cbn in *; try contradiction. reflexivity.
    - intros rp s IHs fs IHf vs r d k H.
      destruct rp; destruct vs as [|fv vs']; cbn in H; try contradiction.
      + destruct H as [Hv Hvs]. rewrite shred_fields_req, app_length, IHs, IHf by assumption. reflexivity.
      + destruct fv as [| |[v|]|]; try contradiction.
        * destruct H as [Hv Hvs]. rewrite shred_fields_some, app_length, IHs, IHf by assumption. reflexivity.
        * rewrite shred_fields_none, app_length, nulls_length, IHf by assumption. reflexivity.
      + destruct fv as [| | |l]; try contradiction. destruct H as [Hl Hvs].
        destruct l as [|x l].
        * rewrite shred_fields_nil, app_length, nulls_length, IHf by assumption. reflexivity.
        * rewrite shred_fields_cons, app_length, IHf by assumption.
          inversion Hl as [|? ? Hx Hl']; subst.
          rewrite (fold_zipapp_len _ _ (nleaves s)); [reflexivity|now apply IHs|].
          apply Forall_forall. intros m Hm. apply in_map_iff in Hm. destruct Hm as (y & <- & Hy).
          rewrite Forall_forall in Hl'. now apply IHs, Hl'.
  Qed.

  Lemma shred_len s (v : value) r d k : wf s v -> length (shred s v r d k) = nleaves s.
  Proof. apply (proj1 shred_len_both). Qed.

  Lemma shred_fields_len fs (vs : list value) r d k :
    wf_fields fs vs -> length (shred_fields fs vs r d k) = nleaves_fields fs.
  Proof. apply (proj2 shred_len_both). Qed.

  (** * Column-wise concatenation *)

  Lemma cat_cols_length n (l : list (list column)) :
    Forall (fun m => length m = n) l -> length (cat_cols n l) = n.
  Proof.
    induction 1 as [|m l Hm _ IH]; cbn [cat_cols fold_right]; [apply repeat_length|].
    fold (cat_cols n l). rewrite zipapp_length; lia.
  Qed.

  Lemma cat_cols_cons n m (l : list (list column)) : cat_cols n (m :: l) = zipapp m (cat_cols n l).
  Proof. reflexivity. Qed.

  Lemma cat_cols_nil n : @cat_cols V n [] = repeat [] n.
  Proof. reflexivity. Qed.

  Lemma cat_cols_app n (l1 l2 : list (list column)) :
    Forall (fun m => length m = n) l1 -> Forall (fun m => length m = n) l2 ->
    cat_cols n (l1 ++ l2) = zipapp (cat_cols n l1) (cat_cols n l2).
  Proof.
    intros H1 H2. induction H1 as [|m l1 Hm _ IH]; cbn [app].
    - rewrite cat_cols_nil. symmetry. apply zipapp_nil_cols_l. now apply cat_cols_length.
    - rewrite !cat_cols_cons, IH. symmetry. apply zipapp_assoc.
  Qed.

  Lemma cat_cols_single n (m : list column) : length m = n -> cat_cols n [m] = m.
  Proof. intros H. rewrite cat_cols_cons, cat_cols_nil. now apply zipapp_nil_cols. Qed.

  (* fold_left (as in [shred] and [shred_rows]) versus fold_right *)
  Lemma fold_left_cat_cols n (l : list (list column)) : forall a,
    length a = n -> Forall (fun m => length m = n) l ->
    fold_left zipapp l a = zipapp a (cat_cols n l).
  Proof.
    induction l as [|m l IH]; intros a Ha Hl; cbn [fold_left].
    - rewrite cat_cols_nil. symmetry. now apply zipapp_nil_cols.
    - inversion Hl; subst. rewrite IH by (try rewrite zipapp_length; auto; lia).
      rewrite cat_cols_cons. apply zipapp_assoc.
  Qed.

  Lemma cat_cols_split {X} n1 n2 (A B : X -> list column) (xs : list X) :
    (forall x, In x xs -> length (A x) = n1) ->
    cat_cols (n1 + n2) (map (fun x => A x ++ B x) xs) = cat_cols n1 (map A xs) ++ cat_cols n2 (map B xs).
  Proof.
    intros HA. induction xs as [|x xs IH]; cbn [map].
    - rewrite !cat_cols_nil. apply repeat_app.
    - rewrite !cat_cols_cons, IH by (intros; apply HA; now right).
      apply zipapp_app. rewrite cat_cols_length; [apply HA; now left|].
      apply Forall_forall. intros m Hm. apply in_map_iff in Hm. destruct Hm as (y & <- & Hy).
      apply HA. now right.
  Qed.

  Lemma cat_cols_concat {X} n (f : X -> list column) (chs : list (list X)) :
    (forall x, In x (concat chs) -> length (f x) = n) ->
    cat_cols n (map f (concat chs)) = cat_cols n (map (fun ch => cat_cols n (map f ch)) chs).
  Proof.
    induction chs as [|ch chs IH]; intros Hf; cbn [concat map]; [reflexivity|].
    cbn [concat] in Hf.
    assert (F : forall l, (forall x, In x l -> length (f x) = n) -> Forall (fun m => length m = n) (map f l)).
    { intros l Hl. apply Forall_forall. intros m Hm. apply in_map_iff in Hm. destruct Hm as (y & <- & Hy). auto. }
    rewrite map_app, cat_cols_app, cat_cols_cons, IH.
    - reflexivity.
    - intros x Hx. apply Hf, in_or_app. now right.
    - apply F. intros x Hx. apply Hf, in_or_app. now left.
    - apply F. intros x Hx. apply Hf, in_or_app. now right.
  Qed.

  Lemma zipapp_repeat (a b : column) n : zipapp (repeat a n) (repeat b n) = repeat (a ++ b) n.
  Proof. induction n as [|n IH]; cbn; [reflexivity|now rewrite IH]. Qed.

  Lemma null_run_eq {X} s r d (ch : list X) :
    null_run s r d (length ch) = cat_cols (nleaves s) (map (fun _ => @nulls V s r d) ch).
  Proof.
    unfold null_run. induction ch as [|c ch IH]; cbn [length map repeat]; [reflexivity|].
    rewrite cat_cols_cons, <- IH. unfold nulls. now rewrite zipapp_repeat.
  Qed.

  Lemma cat_cols_leaf r d (vs : list value) :
    cat_cols 1 (map (fun v => [[leaf_entry V r d v]]) vs) = [map (leaf_entry V r d) vs].
  Proof.
    induction vs as [|v vs IH]; cbn [map]; [reflexivity|]. now rewrite cat_cols_cons, IH.
  Qed.

  (** * One field of a row *)

  Definition field_wf (rp : rep) (s : schema) (fv : value) : Prop :=
    match rp, fv with
    | Req, _ => wf s fv
    | Opt, VOpt None => True
    | Opt, VOpt (Some v) => wf s v
    | Rpt, VList l => Forall (wf s) l
    | _, _ => False
    end.

  Definition field_shred (rp : rep) (s : schema) (fv : value) (r d k : nat) : list column :=
    match rp, fv with
    | Req, _ => shred s fv r d k
    | Opt, VOpt None => nulls s r d
    | Opt, VOpt (Some v) => shred s v r (S d) k
    | Rpt, VList [] => nulls s r d
    | Rpt, VList (x :: l) =>
        fold_left zipapp (map (fun y => shred s y (S k) (S d) (S k)) l) (shred s x r (S d) (S k))
    | _, _ => []
    end.

  Lemma wf_fields_cons_inv rp s fs (row : list value) :
    wf_fields (FCons rp s fs) row ->
    exists fv vs', row = fv :: vs' /\ field_wf rp s fv /\ wf_fields fs vs'.
  Proof.
    intros H. destruct row as [|fv vs']; [destruct rp; contradiction|].
    exists fv, vs'. split; [reflexivity|].
    destruct rp; cbn in H |- *.
    - exact H.
    - destruct fv as [| |[v|]|]; try contradiction; [exact H|split; [exact I|exact H]].
    - destruct fv as [| | |l]; try contradiction. exact H.
  Qed.

  Lemma shred_fields_field rp s fs (fv : value) vs' r d k :
    field_wf rp s fv ->
    shred_fields (FCons rp s fs) (fv :: vs') r d k = field_shred rp s fv r d k ++ shred_fields fs vs' r d k.
  Proof.
    intros H. destruct rp; cbn in H.
    - reflexivity.
    - destruct fv as [| |[v|]|]; try contradiction; reflexivity.
    - destruct fv as [| | |[|x l]]; try contradiction; reflexivity.
  Qed.

  Lemma field_shred_len rp s (fv : value) r d k :
    field_wf rp s fv -> length (field_shred rp s fv r d k) = nleaves s.
  Proof.
    intros H. destruct rp; cbn in H |- *.
    - now apply shred_len.
    - destruct fv as [| |[v|]|]; try contradiction; [now apply shred_len|apply nulls_length].
    - destruct fv as [| | |[|x l]]; try contradiction; [apply nulls_length|].
      inversion H as [|? ? Hx Hl]; subst.
      apply fold_zipapp_len; [now apply shred_len|].
      apply Forall_forall. intros m Hm. apply in_map_iff in Hm. destruct Hm as (y & <- & Hy).
      rewrite Forall_forall in Hl. now apply shred_len, Hl.
  Qed.

  (** * The batch writer *)

  Variable chunks : list nat -> list value -> list (list value).
  Hypothesis chunks_good : forall p col, chunks_ok (chunks p col) col.

  Notation wr := (wr chunks).
  Notation wr_fields := (wr_fields chunks).

  Lemma wr_nil s p r d k : wr s p [] r d k = nulls s r d.
  Proof. destruct s; reflexivity. Qed.
  Lemma wr_leaf p (v : value) vs r d k : wr Leaf p (v :: vs) r d k = [map (leaf_entry V r d) (v :: vs)].
  Proof. reflexivity. Qed.
  Lemma wr_group fs p (v : value) vs r d k :
    wr (Group fs) p (v :: vs) r d k = wr_fields fs p 0 (map (row_fields V) (v :: vs)) r d k.
  Proof. reflexivity. Qed.
  Lemma wr_fields_nil p i rows r d k : wr_fields FNil p i rows r d k = [].
  Proof. reflexivity. Qed.
  Lemma wr_fields_cons rp s fs' p i (rows : list (list value)) r d k :
    wr_fields (FCons rp s fs') p i rows r d k =
        let col := map (hd (dummy V)) rows in
        let q := i :: p in
        (match rp with
         | Req => wr s q col r d k
         | Opt =>
             cat_cols (nleaves s)
               (map (fun ch =>
                       match ch with
                       | [] => repeat [] (nleaves s)
                       | c :: _ =>
                           if is_null c then null_run s r d (length ch)
                           else wr s q (map unopt ch) r (S d) k
                       end) (chunks q col))
         | Rpt =>
             cat_cols (nleaves s)
               (map (fun v =>
                       match elems V v with
                       | [] => wr s q [] r d (S k)
                       | [x] => wr s q [x] r (S d) (S k)
                       | x :: l => zipapp (wr s q [x] r (S d) (S k)) (wr s q l (S k) (S d) (S k))
                       end) col)
         end) ++ wr_fields fs' p (S i) (map (@tl value) rows) r d k.
  Proof. reflexivity. Qed.

  Definition wr_ok (s : schema) : Prop :=
    forall p (vs : list value) r d k, vs <> [] -> Forall (wf s) vs ->
      wr s p vs r d k = cat_cols (nleaves s) (map (fun v => shred s v r d k) vs).

  Definition wr_fields_ok (fs : fields) : Prop :=
    forall p i (rows : list (list value)) r d k, rows <> [] -> Forall (wf_fields fs) rows ->
      wr_fields fs p i rows r d k = cat_cols (nleaves_fields fs) (map (fun vs => shred_fields fs vs r d k) rows).

  (* the column of one field across the rows of the batch *)
  Lemma field_col rp s fs (rows : list (list value)) :
    Forall (wf_fields (FCons rp s fs)) rows ->
    Forall (field_wf rp s) (map (hd (dummy V)) rows) /\ Forall (wf_fields fs) (map (@tl value) rows) /\
    forall r d k, map (fun vs => shred_fields (FCons rp s fs) vs r d k) rows =
                  map (fun row => field_shred rp s (hd (dummy V) row) r d k ++ shred_fields fs (tl row) r d k) rows.
  Proof.
    induction 1 as [|row rows Hrow _ IH]; cbn [map]; [repeat split; constructor|].
    destruct IH as (I1 & I2 & I3).
    destruct (wf_fields_cons_inv _ _ _ _ Hrow) as (fv & vs' & -> & Hfv & Hvs'). cbn [hd tl].
    repeat split; try (constructor; assumption).
    intros r d k. now rewrite I3, shred_fields_field.
  Qed.

  (* a repeated field of one row *)
  Lemma wr_rpt s (IHs : wr_ok s) q (v : value) r d k :
    field_wf Rpt s v ->
    match elems V v with
    | [] => wr s q [] r d (S k)
    | [x] => wr s q [x] r (S d) (S k)
    | x :: l => zipapp (wr s q [x] r (S d) (S k)) (wr s q l (S k) (S d) (S k))
    end = field_shred Rpt s v r d k.
  Proof.
    intros H. destruct v as [| | |l]; cbn in H; try contradiction. cbn [elems field_shred].
    destruct l as [|x l]; [apply wr_nil|].
    inversion H as [|? ? Hx Hl]; subst.
    assert (E1 : wr s q [x] r (S d) (S k) = shred s x r (S d) (S k)).
    { rewrite IHs by (try discriminate; repeat constructor; assumption).
      cbn [map]. apply cat_cols_single. now apply shred_len. }
    destruct l as [|y l]; [exact E1|].
    rewrite E1, IHs by (try discriminate; assumption).
    symmetry. apply fold_left_cat_cols; [now apply shred_len|].
    apply Forall_forall. intros m Hm. apply in_map_iff in Hm. destruct Hm as (z & <- & Hz).
    rewrite Forall_forall in Hl. now apply shred_len, Hl.
  Qed.

  (* one chunk of an optional field *)
  Lemma wr_opt_chunk s (IHs : wr_ok s) q (ch : list value) r d k :
    ch <> [] -> uniform ch -> Forall (field_wf Opt s) ch ->
    match ch with
    | [] => repeat [] (nleaves s)
    | c :: _ =>
        if is_null c then null_run s r d (length ch)
        else wr s q (map unopt ch) r (S d) k
    end = cat_cols (nleaves s) (map (fun v => field_shred Opt s v r d k) ch).
  Proof.
    intros Hne Hu Hwf. destruct ch as [|c ch']; [contradiction|].
    set (ch := c :: ch') in *.
    destruct (is_null c) eqn:Ec.
    - (* a run of nulls *)
      assert (Hall : forall v, In v ch -> is_null v = true).
      { destruct Hu as [Hu|Hu]; [exact Hu|]. rewrite Hu in Ec by (now left). discriminate. }
      rewrite null_run_eq. f_equal. apply map_ext_in. intros v Hv.
      specialize (Hall v Hv). destruct v as [| |[x|]|]; try discriminate. reflexivity.
    - (* a run of present values: one call with the whole sub-array *)
      assert (Hall : forall v, In v ch -> is_null v = false).
      { destruct Hu as [Hu|Hu]; [|exact Hu]. rewrite Hu in Ec by (now left). discriminate. }
      rewrite Forall_forall in Hwf.
      rewrite IHs.
      + rewrite map_map. f_equal. apply map_ext_in. intros v Hv.
        specialize (Hall v Hv). specialize (Hwf v Hv).
        destruct v as [| |[x|]|]; cbn in Hwf; try contradiction; try discriminate. reflexivity.
      + subst ch. discriminate.
      + apply Forall_forall. intros u Hu'. apply in_map_iff in Hu'. destruct Hu' as (v & <- & Hv).
        specialize (Hall v Hv). specialize (Hwf v Hv).
        destruct v as [| |[x|]|]; cbn in Hwf; try contradiction; try discriminate. exact Hwf.
  Qed.

  Theorem wr_spec :
    (forall s, wr_ok s) /\ (forall fs, wr_fields_ok fs).
  Proof.
    apply schema_fields_ind.
    - (* leaf *)
      intros p vs r d k Hne Hwf. destruct vs as [|v vs]; [contradiction|].
      rewrite wr_leaf. cbn [nleaves]. rewrite <- cat_cols_leaf. f_equal.
      apply map_ext_in. intros u Hu. rewrite Forall_forall in Hwf. specialize (Hwf u Hu).
      destruct u; cbn in Hwf; try contradiction. reflexivity.
    - (* group *)
      intros fs IH p vs r d k Hne Hwf. destruct vs as [|v vs]; [contradiction|].
      rewrite wr_group, IH.
      + cbn [nleaves]. rewrite map_map. f_equal. apply map_ext_in. intros u Hu.
        rewrite Forall_forall in Hwf. specialize (Hwf u Hu).
        destruct u; cbn in Hwf; try contradiction. reflexivity.
      + discriminate.
      + apply Forall_forall. intros u Hu. apply in_map_iff in Hu. destruct Hu as (w & <- & Hw).
        rewrite Forall_forall in Hwf. specialize (Hwf w Hw).
        destruct w; cbn in Hwf; try contradiction. exact Hwf.
    - (* no field *)
      intros p i rows r d k Hne Hwf. rewrite wr_fields_nil. cbn [nleaves_fields].
      destruct rows as [|row rows]; [contradiction|]. cbn [map]. rewrite cat_cols_cons.
      inversion Hwf as [|? ? Hrow _]; subst. destruct row; cbn in Hrow; try contradiction. reflexivity.
    - (* a field, then the others *)
      intros rp s IHs fs IHf p i rows r d k Hne Hwf.
      destruct (field_col rp s fs rows Hwf) as (Hcol & Hrest & Heq).
      rewrite wr_fields_cons. cbv zeta.
      rewrite Heq. cbn [nleaves_fields].
      rewrite (cat_cols_split (nleaves s) (nleaves_fields fs)
                 (fun row => field_shred rp s (hd (dummy V) row) r d k)
                 (fun row => shred_fields fs (tl row) r d k)).
      2:{ intros row Hrow. apply field_shred_len. rewrite Forall_forall in Hcol. apply Hcol.
          apply in_map_iff. now exists row. }
      rewrite IHf; [|destruct rows; [contradiction|discriminate]|exact Hrest].
      rewrite (map_map (@tl value)). f_equal.
      rewrite <- (map_map (hd (dummy V)) (fun fv => field_shred rp s fv r d k)).
      set (col := map (hd (dummy V)) rows) in *.
      assert (Hcne : col <> []) by (subst col; destruct rows; [contradiction|discriminate]).
      destruct rp.
      + (* required *)
        apply IHs; assumption.
      + (* optional: any admissible cutting *)
        destruct (chunks_good (i :: p) col) as [Hcat Hchs].
        rewrite <- Hcat at 2.
        rewrite cat_cols_concat.
        2:{ rewrite Hcat. intros v Hv. apply field_shred_len. rewrite Forall_forall in Hcol. now apply Hcol. }
        f_equal. apply map_ext_in. intros ch Hch.
        rewrite Forall_forall in Hchs. destruct (Hchs ch Hch) as [Hne' Hu].
        apply wr_opt_chunk; auto.
        apply Forall_forall. intros v Hv. rewrite Forall_forall in Hcol. apply Hcol.
        rewrite <- Hcat. apply in_concat. now exists ch.
      + (* repeated *)
        f_equal. apply map_ext_in. intros v Hv. apply wr_rpt; [exact IHs|].
        rewrite Forall_forall in Hcol. now apply Hcol.
  Qed.

  (** * Whole batches *)

  Lemma shred_rows_cat s (rows : list value) :
    Forall (wf s) rows -> shred_rows s rows = cat_cols (nleaves s) (map (shred_row s) rows).
  Proof.
    intros Hr. unfold shred_rows.
    assert (Hl : Forall (fun m : list column => length m = nleaves s) (map (shred_row s) rows)).
    { apply Forall_forall. intros m Hm. apply in_map_iff in Hm. destruct Hm as (v & <- & Hv).
      rewrite Forall_forall in Hr. unfold shred_row. now apply shred_len, Hr. }
    rewrite (fold_left_cat_cols (nleaves s)); [|apply repeat_length|exact Hl].
    apply zipapp_nil_cols_l. now apply cat_cols_length.
  Qed.

  Theorem shred_batch_rows s (rows : list value) :
    Forall (wf s) rows -> shred_batch chunks s rows = shred_rows s rows.
  Proof.
    intros Hr. rewrite shred_rows_cat by assumption.
    destruct rows as [|v rows]; [reflexivity|].
    unfold shred_batch. rewrite (proj1 wr_spec) by (try discriminate; assumption). reflexivity.
  Qed.
End BatchProofs.

(** * The two cuttings used by the library are admissible *)
Section CuttingsOk.
  Variable V : Type.
  Notation value := (value V).

  Lemma singletons_ok (col : list value) : chunks_ok (singletons col) col.
  Proof.
    unfold singletons. split.
    - induction col as [|v col IH]; cbn; [reflexivity|now rewrite IH].
    - apply Forall_forall. intros ch Hch. apply in_map_iff in Hch. destruct Hch as (v & <- & _).
      split; [discriminate|]. destruct (is_null v) eqn:E; [left|right]; intros u [<-|[]]; exact E.
  Qed.

  Lemma max_runs_ok (col : list value) : chunks_ok (max_runs col) col.
  Proof.
    induction col as [|v col [Hc Hf]]; [split; [reflexivity|constructor]|].
    cbn [max_runs].
    assert (S1 : chunks_ok ([v] :: max_runs col) (v :: col)).
    { split; [cbn; now rewrite Hc|]. constructor; [|exact Hf]. split; [discriminate|].
      destruct (is_null v) eqn:E; [left|right]; intros u [<-|[]]; exact E. }
    destruct (max_runs col) as [|[|w ch] chs] eqn:Em.
    - cbn in Hc. subst col. split; [reflexivity|]. constructor; [|constructor]. split; [discriminate|].
      destruct (is_null v) eqn:E; [left|right]; intros u [<-|[]]; exact E.
    - inversion Hf as [|? ? [Hne _] _]; subst. contradiction.
    - destruct (Bool.eqb (is_null v) (is_null w)) eqn:E; [|exact S1].
      apply Bool.eqb_prop in E.
      split; [cbn in Hc |- *; now rewrite Hc|].
      inversion Hf as [|? ? [_ Hu] Hf']; subst. constructor; [|exact Hf'].
      split; [discriminate|].
      destruct Hu as [Hu|Hu]; [left|right]; intros u [<-|Hu']; auto; rewrite E; apply Hu; now left.
  Qed.
End CuttingsOk.
