(** Assembly inverts shredding: for every schema and every well-formed value,
    [asm] applied to the columns produced by [shred] (followed by any columns
    of later rows) returns the value and leaves the rest untouched. *)
From Coq Require Import List Arith Bool Lia.
From PQ Require Import Dremel.Model.
Import ListNotations.

Section Proofs.
  Variable V : Type.
  Notation value := (value V).
  Notation entry := (entry V).
  Notation column := (column V).

  (** well-formed with every repeated field holding at most [n] elements *)
  Fixpoint wfn (n : nat) (s : schema) (v : value) {struct s} : Prop :=
    match s, v with
    | Leaf, VLeaf _ => True
    | Group fs, VGroup vs => wfn_fields n fs vs
    | _, _ => False
    end
  with wfn_fields (n : nat) (fs : fields) (vs : list value) {struct fs} : Prop :=
    match fs, vs with
    | FNil, [] => True
    | FCons Req s fs', v :: vs' => wfn n s v /\ wfn_fields n fs' vs'
    | FCons Opt s fs', VOpt None :: vs' => wfn_fields n fs' vs'
    | FCons Opt s fs', VOpt (Some v) :: vs' => wfn n s v /\ wfn_fields n fs' vs'
    | FCons Rpt s fs', VList l :: vs' => (length l <= n /\ Forall (wfn n s) l) /\ wfn_fields n fs' vs'
    | _, _ => False
    end.

  (* every column starts with an entry at repetition level [r] and definition level >= [d] *)
  Definition starts (r d : nat) (cols : list column) : Prop :=
    Forall (fun c => exists e rest, c = e :: rest /\ e_r V e = r /\ d <= e_d V e) cols.

  (* the first entry of every non-empty column has repetition level <= k *)
  Definition heads_le (k : nat) (cols : list column) : Prop :=
    Forall (fun c => match c with [] => True | e :: _ => e_r V e <= k end) cols.

  Lemma zipapp_length (a b : list column) : length a = length b -> length (zipapp a b) = length a.
  Proof.
    revert b. induction a as [|x a IH]; intros [|y b] H; cbn in *; try lia. now rewrite IH by lia.
  Qed.

  Lemma zipapp_app (a b t1 t2 : list column) :
    length a = length t1 -> zipapp (a ++ b) (t1 ++ t2) = zipapp a t1 ++ zipapp b t2.
  Proof.
    revert t1. induction a as [|x a IH]; intros [|y t1] H; cbn in *; try lia; [reflexivity|].
    now rewrite IH by lia.
  Qed.

  Lemma zipapp_assoc (a b c : list column) :
    zipapp (zipapp a b) c = zipapp a (zipapp b c).
  Proof.
    revert b c. induction a as [|x a IH]; intros [|y b] [|z c]; cbn; try reflexivity.
    now rewrite IH, app_assoc.
  Qed.

  Lemma starts_zipapp r d (a b : list column) :
    length a = length b -> starts r d a -> starts r d (zipapp a b).
  Proof.
    revert b. induction a as [|x a IH]; intros [|y b] Hl H; cbn in *; try lia; [constructor|].
    inversion H as [|? ? (e & rest & -> & Hr & Hd) Ha]; subst. constructor.
    - exists e, (rest ++ y). auto.
    - apply IH; [lia|exact Ha].
  Qed.

  Lemma starts_app r d (a b : list column) : starts r d a -> starts r d b -> starts r d (a ++ b).
  Proof. intros Ha Hb. apply Forall_app. split; assumption. Qed.

  Lemma starts_weaken r d d' (a : list column) : d' <= d -> starts r d a -> starts r d' a.
  Proof.
    intros Hd H. eapply Forall_impl; [|exact H]. intros c (e & rest & -> & Hr & He).
    exists e, rest. repeat split; auto. lia.
  Qed.

  Lemma nulls_starts s r d : starts r d (@nulls V s r d).
  Proof.
    unfold nulls, starts. apply Forall_forall. intros c Hc. apply repeat_spec in Hc. subst c.
    exists (None, r, d), []. split; [reflexivity|]. split; [reflexivity|]. cbn. lia.
  Qed.

  Lemma nulls_length s r d : length (@nulls V s r d) = nleaves s.
  Proof. unfold nulls. apply repeat_length. Qed.

  Lemma nleaves_pos : forall s, wf_schema s -> 0 < nleaves s.
  Proof. destruct s; cbn; [lia|tauto]. Qed.

  Lemma fold_zipapp_length (ms : list (list column)) : forall a n,
    length a = n -> Forall (fun m => length m = n) ms -> length (fold_left zipapp ms a) = n.
  Proof.
    induction ms as [|m ms IH]; intros a n Ha Hm; cbn [fold_left]; [exact Ha|].
    inversion Hm; subst. apply IH; [|assumption]. rewrite zipapp_length; lia.
  Qed.

  Lemma fold_zipapp_starts r d (ms : list (list column)) : forall a n,
    length a = n -> Forall (fun m => length m = n) ms -> starts r d a ->
    starts r d (fold_left zipapp ms a).
  Proof.
    induction ms as [|m ms IH]; intros a n Ha Hm Hs; cbn [fold_left]; [exact Hs|].
    inversion Hm; subst. apply (IH _ (length a)); [rewrite zipapp_length; lia|assumption|].
    apply starts_zipapp; [lia|exact Hs].
  Qed.

  (** unfolding equations (mutual fixpoints do not refold under [cbn]) *)
  Lemma shred_group fs (vs : list value) r d k : shred (Group fs) (VGroup vs) r d k = shred_fields fs vs r d k.
  Proof. reflexivity. Qed.
  Lemma shred_fields_req s fs (v : value) vs r d k :
    shred_fields (FCons Req s fs) (v :: vs) r d k = shred s v r d k ++ shred_fields fs vs r d k.
  Proof. reflexivity. Qed.
  Lemma shred_fields_none s fs (vs : list value) r d k :
    shred_fields (FCons Opt s fs) (VOpt None :: vs) r d k = @nulls V s r d ++ shred_fields fs vs r d k.
  Proof. reflexivity. Qed.
  Lemma shred_fields_some s fs (v : value) vs r d k :
    shred_fields (FCons Opt s fs) (VOpt (Some v) :: vs) r d k = shred s v r (S d) k ++ shred_fields fs vs r d k.
  Proof. reflexivity. Qed.
  Lemma shred_fields_nil s fs (vs : list value) r d k :
    shred_fields (FCons Rpt s fs) (VList [] :: vs) r d k = @nulls V s r d ++ shred_fields fs vs r d k.
  Proof. reflexivity. Qed.
  Lemma shred_fields_cons s fs (x : value) l vs r d k :
    shred_fields (FCons Rpt s fs) (VList (x :: l) :: vs) r d k =
    fold_left zipapp (map (fun y => shred s y (S k) (S d) (S k)) l) (shred s x r (S d) (S k))
      ++ shred_fields fs vs r d k.
  Proof. reflexivity. Qed.
  Lemma nleaves_fields_cons rp s fs : nleaves_fields (FCons rp s fs) = nleaves s + nleaves_fields fs.
  Proof. reflexivity. Qed.
  Lemma asm_group fs d k fuel (cols : list column) :
    asm (Group fs) d k fuel cols =
    match asm_fields fs d k fuel cols with
    | Some (vs, rest) => Some (VGroup vs, rest)
    | None => None
    end.
  Proof. reflexivity. Qed.
  Lemma asm_fields_cons rp s fs' d k fuel (cols : list column) :
    asm_fields (FCons rp s fs') d k fuel cols =
        let c1 := firstn (nleaves s) cols in
        let c2 := skipn (nleaves s) cols in
        let field :=
          match rp with
          | Req => asm s d k fuel c1
          | Opt =>
              match head_entry V c1 with
              | None => None
              | Some e =>
                  if d <? e_d V e then
                    match asm s (S d) k fuel c1 with
                    | Some (v, r1) => Some (VOpt (Some v), r1)
                    | None => None
                    end
                  else
                    match drop_heads V c1 with
                    | Some r1 => Some (VOpt None, r1)
                    | None => None
                    end
              end
          | Rpt =>
              match head_entry V c1 with
              | None => None
              | Some e =>
                  if d <? e_d V e then
                    match asm_list V fuel (asm s (S d) (S k) fuel) k c1 with
                    | Some (l, r1) => Some (VList l, r1)
                    | None => None
                    end
                  else
                    match drop_heads V c1 with
                    | Some r1 => Some (VList [], r1)
                    | None => None
                    end
              end
          end in
        match field with
        | None => None
        | Some (v, r1) =>
            match asm_fields fs' d k fuel c2 with
            | Some (vs, r2) => Some (v :: vs, r1 ++ r2)
            | None => None
            end
        end.
  Proof. reflexivity. Qed.

  Ltac unf := rewrite ?shred_group, ?shred_fields_req, ?shred_fields_none, ?shred_fields_some,
                ?shred_fields_nil, ?shred_fields_cons, ?nleaves_fields_cons, ?asm_group, ?asm_fields_cons;
              cbv zeta.

  (** shape of the shredded columns *)
  Lemma shred_shape :
    forall s, wf_schema s -> forall v r d k, wf s v ->
      length (shred s v r d k) = nleaves s /\ starts r d (shred s v r d k).
  Proof.
    apply (schema_mut
      (fun s => wf_schema s -> forall v r d k, wf s v ->
          length (shred s v r d k) = nleaves s /\ starts r d (shred s v r d k))
      (fun fs => wf_schema_fields fs -> forall vs r d k, wf_fields fs vs ->
          length (shred_fields fs vs r d k) = nleaves_fields fs /\ starts r d (shred_fields fs vs r d k))).
    - intros _ [x| | |] r d k H; cbn in *; try contradiction. split; [reflexivity|].
      constructor; [|constructor]. exists (Some x, r, d), []. split; [reflexivity|]. split; [reflexivity|]. cbn. lia.
    - intros fs IH [_ Hs] [|vs| |] r d k H; cbn in *; try contradiction. now apply IH.
    - intros _ [|v vs] r d k H; cbn in *; try contradiction. split; [reflexivity|constructor].
    - intros rp s IHs fs IHf [Hs Hfs] vs r d k H.
      destruct rp; destruct vs as [|fv vs']; cbn in H; try contradiction.
      + destruct H as [Hv Hvs]. unf.
        destruct (IHs Hs fv r d k Hv) as [L1 S1]. destruct (IHf Hfs vs' r d k Hvs) as [L2 S2].
        rewrite app_length, L1, L2. split; [reflexivity|now apply starts_app].
      + destruct fv as [| |[v|]|]; try contradiction; unf.
        * destruct H as [Hv Hvs].
          destruct (IHs Hs v r (S d) k Hv) as [L1 S1]. destruct (IHf Hfs vs' r d k Hvs) as [L2 S2].
          rewrite app_length, L1, L2. split; [reflexivity|].
          apply starts_app; [|exact S2]. eapply starts_weaken; [|exact S1]. lia.
        * destruct (IHf Hfs vs' r d k H) as [L2 S2].
          rewrite app_length, nulls_length, L2. split; [reflexivity|].
          apply starts_app; [apply nulls_starts|exact S2].
      + destruct fv as [| | |l]; try contradiction. destruct H as [Hl Hvs].
        destruct (IHf Hfs vs' r d k Hvs) as [L2 S2].
        destruct l as [|x l]; unf.
        * rewrite app_length, nulls_length, L2. split; [reflexivity|].
          apply starts_app; [apply nulls_starts|exact S2].
        * inversion Hl as [|? ? Hx Hl']; subst.
          destruct (IHs Hs x r (S d) (S k) Hx) as [L1 S1].
          assert (Hms : Forall (fun m => length m = nleaves s) (map (fun y => shred s y (S k) (S d) (S k)) l)).
          { apply Forall_forall. intros m Hm. apply in_map_iff in Hm. destruct Hm as (y & <- & Hy).
            rewrite Forall_forall in Hl'. now destruct (IHs Hs y (S k) (S d) (S k) (Hl' y Hy)). }
          rewrite app_length, (fold_zipapp_length _ _ (nleaves s) L1 Hms), L2. split; [reflexivity|].
          apply starts_app; [|exact S2].
          eapply starts_weaken; [|apply (fold_zipapp_starts r (S d) _ _ (nleaves s) L1 Hms S1)]. lia.
  Qed.

  (** the columns of the remaining elements of a repeated field, then the tails *)
  Fixpoint rest_cols (s : schema) (d k : nat) (l : list value) (tails : list column) : list column :=
    match l with
    | [] => tails
    | y :: l' => zipapp (shred s y (S k) (S d) (S k)) (rest_cols s d k l' tails)
    end.

  Lemma fold_zipapp_rest s d k (l : list value) : forall a tails,
    zipapp (fold_left zipapp (map (fun y => shred s y (S k) (S d) (S k)) l) a) tails
    = zipapp a (rest_cols s d k l tails).
  Proof.
    induction l as [|y l IH]; intros a tails; cbn [map fold_left rest_cols]; [reflexivity|].
    now rewrite IH, zipapp_assoc.
  Qed.

  Lemma rest_cols_length s (Hs : wf_schema s) d k l tails :
    Forall (wf s) l -> length tails = nleaves s -> length (rest_cols s d k l tails) = nleaves s.
  Proof.
    induction 1 as [|y l Hy _ IH]; intros Ht; cbn [rest_cols]; [exact Ht|].
    destruct (shred_shape s Hs y (S k) (S d) (S k) Hy) as [L _].
    rewrite zipapp_length; rewrite L; [reflexivity|]. now rewrite IH.
  Qed.

  Lemma heads_le_mono k k' cols : k <= k' -> heads_le k cols -> heads_le k' cols.
  Proof.
    intros Hk H. eapply Forall_impl; [|exact H]. intros [|e c]; [auto|]. lia.
  Qed.

  Lemma starts_heads_le r d k cols : r <= k -> starts r d cols -> heads_le k cols.
  Proof.
    intros Hr H. eapply Forall_impl; [|exact H]. intros c (e & rest & -> & He & _). lia.
  Qed.

  Lemma rest_cols_heads s (Hs : wf_schema s) d k l tails :
    Forall (wf s) l -> length tails = nleaves s -> heads_le k tails ->
    heads_le (S k) (rest_cols s d k l tails).
  Proof.
    intros Hl Ht Hh. destruct Hl as [|y l Hy Hl]; cbn [rest_cols].
    - eapply heads_le_mono; [|exact Hh]. lia.
    - destruct (shred_shape s Hs y (S k) (S d) (S k) Hy) as [L S1].
      eapply starts_heads_le; [reflexivity|].
      apply starts_zipapp; [|exact S1]. rewrite L. symmetry. now apply rest_cols_length.
  Qed.

  Lemma head_entry_zipapp_starts r d (a b : list column) :
    0 < length a -> length a = length b -> starts r d a ->
    exists e, head_entry V (zipapp a b) = Some e /\ e_r V e = r /\ d <= e_d V e.
  Proof.
    destruct a as [|x a]; destruct b as [|y b]; cbn; intros Hp Hl H; try lia.
    inversion H as [|? ? (e & rest & -> & Hr & Hd) _]; subst. exists e. cbn. auto.
  Qed.

  Lemma head_entry_nulls (e : entry) n (tails : list column) :
    0 < n -> length tails = n -> head_entry V (zipapp (repeat [e] n) tails) = Some e.
  Proof.
    destruct n as [|n]; [lia|]. destruct tails as [|t tails]; cbn; [lia|reflexivity].
  Qed.

  Lemma drop_heads_nulls (e : entry) n : forall tails : list column,
    length tails = n -> drop_heads V (zipapp (repeat [e] n) tails) = Some tails.
  Proof.
    induction n as [|n IH]; intros [|t tails] H; cbn in *; try lia; [reflexivity|].
    now rewrite IH by lia.
  Qed.

  Lemma head_entry_nulls_s s r d (tails : list column) :
    0 < nleaves s -> length tails = nleaves s ->
    head_entry V (zipapp (@nulls V s r d) tails) = Some (None, r, d).
  Proof. intros Hp Hl. unfold nulls. now apply head_entry_nulls. Qed.

  Lemma drop_heads_nulls_s s r d (tails : list column) :
    length tails = nleaves s -> drop_heads V (zipapp (@nulls V s r d) tails) = Some tails.
  Proof. intros Hl. unfold nulls. now apply drop_heads_nulls. Qed.

  Lemma head_entry_heads_le k (cols : list column) :
    heads_le k cols ->
    match head_entry V cols with Some e => e_r V e <= k | None => True end.
  Proof.
    destruct cols as [|[|e c] cols]; cbn; auto. intros H. now inversion H.
  Qed.

  Lemma wfn_wf n : forall s v, wfn n s v -> wf s v.
  Proof.
    apply (schema_mut (fun s => forall v, wfn n s v -> wf s v)
                      (fun fs => forall vs, wfn_fields n fs vs -> wf_fields fs vs)).
    - intros [x| | |] H; simpl in *; auto.
    - intros fs IH [|vs| |] H; simpl in *; auto.
    - intros [|v vs] H; simpl in *; auto.
    - intros rp s IHs fs IHf [|fv vs] H; destruct rp; simpl in *; try contradiction.
      + destruct H. split; auto.
      + destruct fv as [| |[v|]|]; try contradiction; [destruct H; split; auto|auto].
      + destruct fv as [| | |l]; try contradiction. destruct H as [[_ Hl] Hvs]. split; [|auto].
        eapply Forall_impl; [|exact Hl]. auto.
  Qed.

  (** the repeated-field loop *)
  Lemma asm_list_ok s (Hs : wf_schema s) d k n
    (IHs : forall v r tails, wfn n s v -> length tails = nleaves s -> heads_le (S k) tails ->
           asm s (S d) (S k) (S n) (zipapp (shred s v r (S d) (S k)) tails) = Some (v, tails)) :
    forall l x r0 tails fuel,
      length l < fuel -> wfn n s x -> Forall (wfn n s) l ->
      length tails = nleaves s -> heads_le k tails ->
      asm_list V fuel (asm s (S d) (S k) (S n)) k (zipapp (shred s x r0 (S d) (S k)) (rest_cols s d k l tails))
      = Some (x :: l, tails).
  Proof.
    induction l as [|y l IH]; intros x r0 tails fuel Hf Hx Hl Ht Hh;
      (destruct fuel as [|f]; [lia|]); cbn [asm_list rest_cols].
    - rewrite IHs; auto; [|eapply heads_le_mono; [|exact Hh]; lia].
      pose proof (head_entry_heads_le k tails Hh) as Hhe.
      destruct (head_entry V tails) as [e|]; [|reflexivity].
      destruct (Nat.eqb_spec (e_r V e) (S k)); [lia|reflexivity].
    - inversion Hl as [|? ? Hy Hl']; subst.
      assert (Hlw : Forall (wf s) l) by (eapply Forall_impl; [|exact Hl']; apply wfn_wf).
      assert (Hyw : wf s y) by (eapply wfn_wf; exact Hy).
      rewrite IHs; auto.
      2:{ destruct (shred_shape s Hs y (S k) (S d) (S k) Hyw) as [L _].
          rewrite zipapp_length; rewrite L; [reflexivity|]. symmetry. now apply rest_cols_length. }
      2:{ apply (rest_cols_heads s Hs d k (y :: l) tails); auto. }
      destruct (shred_shape s Hs y (S k) (S d) (S k) Hyw) as [L S1].
      destruct (head_entry_zipapp_starts (S k) (S d) (shred s y (S k) (S d) (S k)) (rest_cols s d k l tails))
        as (e & He & Her & _).
      + rewrite L. now apply nleaves_pos.
      + rewrite L. symmetry. now apply rest_cols_length.
      + exact S1.
      + rewrite He, Her, Nat.eqb_refl.
        rewrite (IH y (S k) tails f); auto. cbn [length] in Hf. lia.
  Qed.

  Theorem asm_shred :
    forall s, wf_schema s -> forall v r d k n tails,
      wfn n s v -> length tails = nleaves s -> heads_le k tails ->
      asm s d k (S n) (zipapp (shred s v r d k) tails) = Some (v, tails).
  Proof.
    apply (schema_mut
      (fun s => wf_schema s -> forall v r d k n tails,
         wfn n s v -> length tails = nleaves s -> heads_le k tails ->
         asm s d k (S n) (zipapp (shred s v r d k) tails) = Some (v, tails))
      (fun fs => wf_schema_fields fs -> forall vs r d k n tails,
         wfn_fields n fs vs -> length tails = nleaves_fields fs -> heads_le k tails ->
         asm_fields fs d k (S n) (zipapp (shred_fields fs vs r d k) tails) = Some (vs, tails))).
    - (* leaf *)
      intros _ [x| | |] r d k n tails H Ht Hh; cbn in H; try contradiction.
      destruct tails as [|t [|? ?]]; cbn in Ht; try lia. reflexivity.
    - (* group *)
      intros fs IH [_ Hs] [|vs| |] r d k n tails H Ht Hh; cbn in H; try contradiction.
      unf. now rewrite IH.
    - (* no fields *)
      intros _ [|v vs] r d k n tails H Ht Hh; cbn in H; try contradiction.
      destruct tails; [reflexivity|cbn in Ht; lia].
    - (* a field *)
      intros rp s IHs fs IHf [Hs Hfs] vs r d k n tails H Ht Hh.
      cbn [nleaves_fields] in Ht.
      set (t1 := firstn (nleaves s) tails). set (t2 := skipn (nleaves s) tails).
      assert (Ett : tails = t1 ++ t2) by (symmetry; apply firstn_skipn).
      assert (Lt1 : length t1 = nleaves s) by (subst t1; rewrite firstn_length; lia).
      assert (Lt2 : length t2 = nleaves_fields fs) by (subst t2; rewrite skipn_length; lia).
      assert (Hh1 : heads_le k t1) by (unfold heads_le in *; rewrite Ett in Hh; apply Forall_app in Hh; tauto).
      assert (Hh2 : heads_le k t2) by (unfold heads_le in *; rewrite Ett in Hh; apply Forall_app in Hh; tauto).
      assert (Split : forall F R : list column, length F = nleaves s ->
                firstn (nleaves s) (zipapp (F ++ R) tails) = zipapp F t1 /\
                skipn (nleaves s) (zipapp (F ++ R) tails) = zipapp R t2).
      { intros F R LF. rewrite Ett, zipapp_app by lia.
        assert (LZ : length (zipapp F t1) = nleaves s) by (rewrite zipapp_length; lia).
        split.
        - rewrite <- LZ at 1. rewrite firstn_app, Nat.sub_diag, firstn_all. cbn [firstn]. apply app_nil_r.
        - rewrite <- LZ at 1. rewrite skipn_app, Nat.sub_diag, skipn_all. reflexivity. }
      destruct rp; destruct vs as [|fv vs']; cbn in H; try contradiction.
      + (* required *)
        destruct H as [Hv Hvs]. unf.
        destruct (shred_shape s Hs fv r d k (wfn_wf n s fv Hv)) as [L1 _].
        destruct (Split (shred s fv r d k) (shred_fields fs vs' r d k) L1) as [E1 E2].
        rewrite E1, E2, IHs, IHf by auto. now rewrite <- Ett.
      + (* optional *)
        destruct fv as [| |[v|]|]; try contradiction; unf.
        * destruct H as [Hv Hvs].
          destruct (shred_shape s Hs v r (S d) k (wfn_wf n s v Hv)) as [L1 S1].
          destruct (Split (shred s v r (S d) k) (shred_fields fs vs' r d k) L1) as [E1 E2].
          rewrite E1, E2.
          destruct (head_entry_zipapp_starts r (S d) (shred s v r (S d) k) t1) as (e & He & _ & Hed);
            [rewrite L1; now apply nleaves_pos|lia|exact S1|].
          rewrite He. destruct (Nat.ltb_spec d (e_d V e)); [|lia].
          rewrite IHs, IHf by auto. now rewrite <- Ett.
        * destruct (Split (@nulls V s r d) (shred_fields fs vs' r d k) (nulls_length s r d)) as [E1 E2].
          rewrite E1, E2.
          rewrite (head_entry_nulls_s s r d t1 (nleaves_pos s Hs) Lt1).
          change (e_d V (None, r, d)) with d. rewrite Nat.ltb_irrefl.
          rewrite drop_heads_nulls_s by exact Lt1.
          rewrite IHf by auto. now rewrite <- Ett.
      + (* repeated *)
        destruct fv as [| | |l]; try contradiction. destruct H as [[Hn Hl] Hvs].
        destruct l as [|x l]; unf.
        * destruct (Split (@nulls V s r d) (shred_fields fs vs' r d k) (nulls_length s r d)) as [E1 E2].
          rewrite E1, E2.
          rewrite (head_entry_nulls_s s r d t1 (nleaves_pos s Hs) Lt1).
          change (e_d V (None, r, d)) with d. rewrite Nat.ltb_irrefl.
          rewrite drop_heads_nulls_s by exact Lt1.
          rewrite IHf by auto. now rewrite <- Ett.
        * apply Forall_cons_iff in Hl. destruct Hl as [Hx Hl'].
          assert (Hlw : Forall (wf s) l) by (eapply Forall_impl; [|exact Hl']; apply wfn_wf).
          destruct (shred_shape s Hs x r (S d) (S k) (wfn_wf n s x Hx)) as [L1 S1].
          assert (Hms : Forall (fun m => length m = nleaves s) (map (fun y => shred s y (S k) (S d) (S k)) l)).
          { apply Forall_forall. intros m Hm. apply in_map_iff in Hm. destruct Hm as (y & <- & Hy).
            rewrite Forall_forall in Hlw. now destruct (shred_shape s Hs y (S k) (S d) (S k) (Hlw y Hy)). }
          set (F := fold_left zipapp (map (fun y => shred s y (S k) (S d) (S k)) l) (shred s x r (S d) (S k))).
          assert (LF : length F = nleaves s) by (apply (fold_zipapp_length _ _ (nleaves s) L1 Hms)).
          destruct (Split F (shred_fields fs vs' r d k) LF) as [E1 E2].
          rewrite E1, E2. subst F. rewrite fold_zipapp_rest.
          destruct (head_entry_zipapp_starts r (S d) (shred s x r (S d) (S k)) (rest_cols s d k l t1)) as (e & He & _ & Hed);
            [rewrite L1; now apply nleaves_pos|rewrite L1; symmetry; now apply rest_cols_length|exact S1|].
          rewrite He. destruct (Nat.ltb_spec d (e_d V e)); [|lia].
          rewrite (asm_list_ok s Hs d k n); auto;
            try (cbn [length] in Hn; lia);
            try (intros v0 r0 tl Hv0 Htl Hhl; now apply IHs).
          rewrite IHf by auto. now rewrite <- Ett.
  Qed.

  (** whole rows *)
  Definition row_ok (n : nat) (s : schema) (v : value) : Prop := wfn n s v.

  Fixpoint rows_cols (s : schema) (rows : list value) : list column :=
    match rows with
    | [] => repeat [] (nleaves s)
    | v :: rest => zipapp (shred_row s v) (rows_cols s rest)
    end.

  Lemma zipapp_nil_cols n (a : list column) : length a = n -> zipapp a (repeat [] n) = a.
  Proof.
    revert n. induction a as [|x a IH]; intros [|n] H; cbn in *; try lia; [reflexivity|].
    now rewrite app_nil_r, IH by lia.
  Qed.

  Lemma zipapp_nil_cols_l n (a : list column) : length a = n -> zipapp (repeat [] n) a = a.
  Proof.
    revert n. induction a as [|x a IH]; intros [|n] H; cbn in *; try lia; [reflexivity|].
    now rewrite IH by lia.
  Qed.

  Lemma rows_cols_length s (Hs : wf_schema s) rows :
    Forall (wf s) rows -> length (rows_cols s rows) = nleaves s.
  Proof.
    induction 1 as [|v rows Hv _ IH]; cbn [rows_cols]; [apply repeat_length|].
    destruct (shred_shape s Hs v 0 0 0 Hv) as [L _]. unfold shred_row.
    rewrite zipapp_length; rewrite L; [reflexivity|now rewrite IH].
  Qed.

  Lemma shred_rows_eq s (Hs : wf_schema s) rows :
    Forall (wf s) rows -> shred_rows s rows = rows_cols s rows.
  Proof.
    intros Hr. unfold shred_rows.
    assert (G : forall acc, length acc = nleaves s ->
                fold_left zipapp (map (shred_row s) rows) acc = zipapp acc (rows_cols s rows)).
    { induction Hr as [|v rows Hv Hr IH]; intros acc Ha; cbn [map fold_left rows_cols].
      - symmetry. now apply zipapp_nil_cols.
      - destruct (shred_shape s Hs v 0 0 0 Hv) as [L _].
        rewrite IH by (rewrite zipapp_length; unfold shred_row; lia).
        now rewrite zipapp_assoc. }
    rewrite G by apply repeat_length. apply zipapp_nil_cols_l. now apply rows_cols_length.
  Qed.

  Lemma rows_cols_heads s (Hs : wf_schema s) rows :
    Forall (wf s) rows -> heads_le 0 (rows_cols s rows).
  Proof.
    intros Hr. destruct Hr as [|v rows Hv Hr]; cbn [rows_cols].
    - apply Forall_forall. intros c Hc. apply repeat_spec in Hc. now subst c.
    - destruct (shred_shape s Hs v 0 0 0 Hv) as [L S1].
      eapply starts_heads_le; [reflexivity|]. apply starts_zipapp; [|exact S1].
      unfold shred_row. rewrite L. symmetry. now apply rows_cols_length.
  Qed.

  Theorem asm_rows_shred_rows s (Hs : wf_schema s) n rows :
    Forall (wfn n s) rows ->
    asm_rows (length rows) s (S n) (shred_rows s rows) = Some rows.
  Proof.
    intros Hr.
    assert (Hw : Forall (wf s) rows) by (eapply Forall_impl; [|exact Hr]; apply wfn_wf).
    rewrite shred_rows_eq by assumption.
    induction Hr as [|v rows Hv Hr IH]; cbn [length asm_rows rows_cols]; [reflexivity|].
    inversion Hw; subst. unfold shred_row.
    rewrite asm_shred; auto.
    - now rewrite IH.
    - now apply rows_cols_length.
    - now apply rows_cols_heads.
  Qed.
End Proofs.
