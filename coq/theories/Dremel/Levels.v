(** Level bounds of the shredded columns: every entry of a leaf column has a
    definition level between the level reached so far and the leaf's maximum,
    a repetition level bounded by the leaf's maximum, and is null exactly when
    its definition level is below the maximum; every column of a record starts
    at the requested repetition level and continues strictly above the
    repetition depth. *)
From Coq Require Import List Arith Bool Lia.
From PQ Require Import Dremel.Model Dremel.Proofs.
Import ListNotations.

Section Levels.
  Variable V : Type.
  Notation value := (value V).
  Notation entry := (entry V).
  Notation column := (column V).

  (* the level constraints of one entry of a leaf column whose maxima are ml = (maxr, maxd) *)
  Definition entry_ok (r d : nat) (ml : nat * nat) (e : entry) : Prop :=
    let '(x, r', d') := e in
    d <= d' /\ d' <= snd ml /\ r' <= Nat.max r (fst ml) /\ (x = None <-> d' < snd ml).

  Local Notation cols_ok r d := (Forall2 (fun col ml => Forall (entry_ok r d ml) col)).

  (** unfolding equations *)
  Lemma ml_group fs r d : max_levels (Group fs) r d = max_levels_fields fs r d.
  Proof. reflexivity. Qed.
  Lemma ml_req s fs r d :
    max_levels_fields (FCons Req s fs) r d = max_levels s r d ++ max_levels_fields fs r d.
  Proof. reflexivity. Qed.
  Lemma ml_opt s fs r d :
    max_levels_fields (FCons Opt s fs) r d = max_levels s r (S d) ++ max_levels_fields fs r d.
  Proof. reflexivity. Qed.
  Lemma ml_rpt s fs r d :
    max_levels_fields (FCons Rpt s fs) r d = max_levels s (S r) (S d) ++ max_levels_fields fs r d.
  Proof. reflexivity. Qed.

  Ltac unf := rewrite ?(shred_group V), ?(shred_fields_req V), ?(shred_fields_none V),
                ?(shred_fields_some V), ?(shred_fields_nil V), ?(shred_fields_cons V),
                ?nleaves_fields_cons, ?ml_group, ?ml_req, ?ml_opt, ?ml_rpt.

  (** * Shape of [max_levels] *)

  Lemma max_levels_length : forall s r d, length (max_levels s r d) = nleaves s.
  Proof.
    apply (schema_mut (fun s => forall r d, length (max_levels s r d) = nleaves s)
                      (fun fs => forall r d, length (max_levels_fields fs r d) = nleaves_fields fs)).
    - reflexivity.
    - intros fs IH r d. unf. apply IH.
    - reflexivity.
    - intros rp s IHs fs IHf r d. destruct rp; unf; now rewrite app_length, IHs, IHf.
  Qed.

  Lemma max_levels_ge : forall s k d,
    Forall (fun p => k <= fst p /\ d <= snd p) (max_levels s k d).
  Proof.
    apply (schema_mut
      (fun s => forall k d, Forall (fun p => k <= fst p /\ d <= snd p) (max_levels s k d))
      (fun fs => forall k d, Forall (fun p => k <= fst p /\ d <= snd p) (max_levels_fields fs k d))).
    - intros k d. cbn. constructor; [cbn; lia|constructor].
    - intros fs IH k d. unf. apply IH.
    - intros k d. cbn. constructor.
    - intros rp s IHs fs IHf k d. destruct rp; unf; apply Forall_app; (split; [|apply IHf]).
      + apply IHs.
      + eapply Forall_impl; [|apply (IHs k (S d))]. cbn. intros; lia.
      + eapply Forall_impl; [|apply (IHs (S k) (S d))]. cbn. intros; lia.
  Qed.

  Lemma max_levels_shift : forall s k d,
    max_levels s k d = map (fun p => (k + fst p, d + snd p)) (max_levels s 0 0).
  Proof.
    apply (schema_mut
      (fun s => forall k d,
         max_levels s k d = map (fun p => (k + fst p, d + snd p)) (max_levels s 0 0))
      (fun fs => forall k d,
         max_levels_fields fs k d = map (fun p => (k + fst p, d + snd p)) (max_levels_fields fs 0 0))).
    - intros k d. cbn. now rewrite !Nat.add_0_r.
    - intros fs IH k d. unf. apply IH.
    - reflexivity.
    - intros rp s IHs fs IHf k d. destruct rp; unf; rewrite map_app, <- IHf; f_equal.
      + apply IHs.
      + rewrite (IHs k (S d)), (IHs 0 1), map_map. apply map_ext. intros [a b]. cbn [fst snd]. f_equal; lia.
      + rewrite (IHs (S k) (S d)), (IHs 1 1), map_map. apply map_ext. intros [a b]. cbn [fst snd]. f_equal; lia.
  Qed.

  (** * Level bounds *)

  Lemma cols_ok_zipapp r d (a b : list column) mls :
    cols_ok r d a mls -> cols_ok r d b mls -> cols_ok r d (zipapp a b) mls.
  Proof.
    intros Ha. revert b. induction Ha as [|x ml a mls Hx Ha IH]; intros b Hb;
      inversion Hb; subst; cbn [zipapp]; constructor.
    - apply Forall_app; split; assumption.
    - apply IH; assumption.
  Qed.

  Lemma cols_ok_fold r d mls (ms : list (list column)) : forall a,
    cols_ok r d a mls -> Forall (fun m => cols_ok r d m mls) ms ->
    cols_ok r d (fold_left zipapp ms a) mls.
  Proof.
    induction ms as [|m ms IH]; intros a Ha Hm; cbn [fold_left]; [exact Ha|].
    inversion Hm; subst. apply IH; [|assumption]. now apply cols_ok_zipapp.
  Qed.

  Lemma cols_ok_impl r d r2 d2 (cols : list column) mls :
    (forall ml e, In ml mls -> entry_ok r d ml e -> entry_ok r2 d2 ml e) ->
    cols_ok r d cols mls -> cols_ok r2 d2 cols mls.
  Proof.
    intros HI H. induction H as [|col ml cols mls Hc H IH]; constructor.
    - eapply Forall_impl; [|exact Hc]. intros e. apply HI. now left.
    - apply IH. intros ml' e Hin. apply HI. now right.
  Qed.

  Lemma cols_ok_down r d (cols : list column) mls :
    cols_ok r (S d) cols mls -> cols_ok r d cols mls.
  Proof.
    apply cols_ok_impl. intros ml [[x r'] d'] _. unfold entry_ok. intuition lia.
  Qed.

  Lemma nulls_ok_gen r d : forall mls, Forall (fun p => d < snd p) mls ->
    cols_ok r d (repeat [(@None V, r, d)] (length mls)) mls.
  Proof.
    induction 1 as [|p mls Hp _ IH]; cbn [length repeat]; constructor; [|exact IH].
    constructor; [|constructor]. unfold entry_ok. repeat split; intros; try lia.
  Qed.

  Lemma nulls_ok s r d k : cols_ok r d (@nulls V s r d) (max_levels s k (S d)).
  Proof.
    unfold nulls. rewrite <- (max_levels_length s k (S d)). apply nulls_ok_gen.
    eapply Forall_impl; [|apply max_levels_ge]. cbn. intros; lia.
  Qed.

  Theorem shred_levels : forall s v r d k, wf s v ->
    Forall2 (fun col ml => Forall (entry_ok r d ml) col) (shred s v r d k) (max_levels s k d).
  Proof.
    apply (schema_mut
      (fun s => forall (v : value) r d k, wf s v ->
         cols_ok r d (shred s v r d k) (max_levels s k d))
      (fun fs => forall (vs : list value) r d k, wf_fields fs vs ->
         cols_ok r d (shred_fields fs vs r d k) (max_levels_fields fs k d))).
    - intros [x| | |] r d k H; cbn in H; try contradiction. cbn.
      constructor; [|constructor]. constructor; [|constructor].
      unfold entry_ok. cbn [fst snd]. repeat split; intros; try lia; try discriminate.
    - intros fs IH [|vs| |] r d k H; cbn in H; try contradiction. unf. now apply IH.
    - intros [|v vs] r d k H; cbn in H; try contradiction. cbn. constructor.
    - intros rp s IHs fs IHf vs r d k H.
      destruct rp; destruct vs as [|fv vs']; cbn in H; try contradiction.
      + destruct H as [Hv Hvs]. unf. apply Forall2_app; [now apply IHs|now apply IHf].
      + destruct fv as [| |[v|]|]; try contradiction; unf.
        * destruct H as [Hv Hvs]. apply Forall2_app; [|now apply IHf].
          apply cols_ok_down. now apply IHs.
        * apply Forall2_app; [apply nulls_ok|now apply IHf].
      + destruct fv as [| | |l]; try contradiction. destruct H as [Hl Hvs].
        destruct l as [|x l]; unf.
        * apply Forall2_app; [apply nulls_ok|now apply IHf].
        * apply Forall2_app; [|now apply IHf].
          inversion Hl as [|? ? Hx Hl']; subst.
          apply cols_ok_down. apply cols_ok_fold; [now apply IHs|].
          apply Forall_forall. intros m Hm. apply in_map_iff in Hm. destruct Hm as (y & <- & Hy).
          rewrite Forall_forall in Hl'.
          eapply cols_ok_impl; [|apply (IHs y (S k) (S d) (S k) (Hl' y Hy))].
          intros ml [[x0 r'] d'] Hin.
          pose proof (max_levels_ge s (S k) (S d)) as G. rewrite Forall_forall in G.
          specialize (G ml Hin). unfold entry_ok. intuition lia.
  Qed.

  Lemma Forall2_nth_R {A B} (R : A -> B -> Prop) l1 l2 d1 d2 :
    Forall2 R l1 l2 -> forall j, j < length l1 -> R (nth j l1 d1) (nth j l2 d2).
  Proof.
    induction 1 as [|x y l1 l2 Hxy _ IH]; intros j Hj; cbn in *; [lia|].
    destruct j; [assumption|]. apply IH. lia.
  Qed.

  Theorem shred_levels_nth : forall s (v : value) r d k j x r' d', wf s v ->
    In (x, r', d') (nth j (shred s v r d k) []) ->
    d <= d' /\ d' <= d + snd (nth j (max_levels s 0 0) (0, 0)) /\
    r' <= Nat.max r (k + fst (nth j (max_levels s 0 0) (0, 0))) /\
    (x = None <-> d' < d + snd (nth j (max_levels s 0 0) (0, 0))).
  Proof.
    intros s v r d k j x r' d' Hw Hin.
    destruct (lt_dec j (length (shred s v r d k))) as [Hj|Hj].
    - pose proof (shred_levels s v r d k Hw) as HF.
      rewrite max_levels_shift in HF.
      set (f := fun p : nat * nat => (k + fst p, d + snd p)) in HF.
      pose proof (Forall2_nth_R _ _ _ [] (f (0, 0)) HF j Hj) as Hn. cbv beta in Hn.
      rewrite map_nth in Hn. rewrite Forall_forall in Hn. specialize (Hn _ Hin).
      unfold entry_ok, f in Hn. cbn [fst snd] in Hn. exact Hn.
    - rewrite nth_overflow in Hin by lia. contradiction.
  Qed.

  (** * Repetition level of the first and the later entries *)

  Definition first_rep (r k : nat) (col : column) : Prop :=
    exists e rest, col = e :: rest /\ e_r V e = r /\ Forall (fun e' => k < e_r V e') rest.

  Lemma fr_zipapp r k (a b : list column) :
    Forall (first_rep r k) a -> Forall (Forall (fun e' => k < e_r V e')) b ->
    Forall (first_rep r k) (zipapp a b).
  Proof.
    intros Ha. revert b. induction Ha as [|x a Hx Ha IH]; intros [|y b] Hb; cbn [zipapp]; try constructor.
    - destruct Hx as (e & rest & -> & He & Hr). exists e, (rest ++ y). split; [reflexivity|].
      split; [exact He|]. apply Forall_app. split; [exact Hr|]. now inversion Hb.
    - apply IH. now inversion Hb.
  Qed.

  Lemma fr_fold r k (ms : list (list column)) : forall a,
    Forall (first_rep r k) a ->
    Forall (fun m => Forall (Forall (fun e' => k < e_r V e')) m) ms ->
    Forall (first_rep r k) (fold_left zipapp ms a).
  Proof.
    induction ms as [|m ms IH]; intros a Ha Hm; cbn [fold_left]; [exact Ha|].
    inversion Hm; subst. apply IH; [|assumption]. now apply fr_zipapp.
  Qed.

  Lemma fr_weaken r k (a : list column) : Forall (first_rep r (S k)) a -> Forall (first_rep r k) a.
  Proof.
    apply Forall_impl. intros c (e & rest & -> & He & Hr). exists e, rest.
    split; [reflexivity|]. split; [exact He|]. eapply Forall_impl; [|exact Hr]. cbn. intros; lia.
  Qed.

  Lemma fr_all k (a : list column) :
    Forall (first_rep (S k) (S k)) a -> Forall (Forall (fun e' => k < e_r V e')) a.
  Proof.
    apply Forall_impl. intros c (e & rest & -> & He & Hr). constructor; [lia|].
    eapply Forall_impl; [|exact Hr]. cbn. intros; lia.
  Qed.

  Lemma fr_nulls s r d k : Forall (first_rep r k) (@nulls V s r d).
  Proof.
    unfold nulls. apply Forall_forall. intros c Hc. apply repeat_spec in Hc. subst c.
    exists (None, r, d), []. split; [reflexivity|]. split; [reflexivity|constructor].
  Qed.

  Lemma shred_first_rep_aux : forall s (v : value) r d k, wf s v ->
    Forall (first_rep r k) (shred s v r d k).
  Proof.
    apply (schema_mut
      (fun s => forall (v : value) r d k, wf s v -> Forall (first_rep r k) (shred s v r d k))
      (fun fs => forall (vs : list value) r d k, wf_fields fs vs ->
         Forall (first_rep r k) (shred_fields fs vs r d k))).
    - intros [x| | |] r d k H; cbn in H; try contradiction. cbn.
      constructor; [|constructor]. exists (Some x, r, d), [].
      split; [reflexivity|]. split; [reflexivity|constructor].
    - intros fs IH [|vs| |] r d k H; cbn in H; try contradiction. unf. now apply IH.
    - intros [|v vs] r d k H; cbn in H; try contradiction. cbn. constructor.
    - intros rp s IHs fs IHf vs r d k H.
      destruct rp; destruct vs as [|fv vs']; cbn in H; try contradiction.
      + destruct H as [Hv Hvs]. unf. apply Forall_app. split; [now apply IHs|now apply IHf].
      + destruct fv as [| |[v|]|]; try contradiction; unf.
        * destruct H as [Hv Hvs]. apply Forall_app. split; [now apply IHs|now apply IHf].
        * apply Forall_app. split; [apply fr_nulls|now apply IHf].
      + destruct fv as [| | |l]; try contradiction. destruct H as [Hl Hvs].
        destruct l as [|x l]; unf.
        * apply Forall_app. split; [apply fr_nulls|now apply IHf].
        * apply Forall_app. split; [|now apply IHf].
          inversion Hl as [|? ? Hx Hl']; subst.
          apply fr_fold; [apply fr_weaken; now apply IHs|].
          apply Forall_forall. intros m Hm. apply in_map_iff in Hm. destruct Hm as (y & <- & Hy).
          rewrite Forall_forall in Hl'. apply fr_all. apply IHs. now apply Hl'.
  Qed.

  Theorem shred_first_rep : forall s v r d k, wf s v ->
    Forall (fun col => exists e rest, col = e :: rest /\ e_r V e = r /\ Forall (fun e' => k < e_r V e') rest)
           (shred s v r d k).
  Proof. exact shred_first_rep_aux. Qed.

  Corollary shred_row_rep_zero : forall s v, wf s v ->
    Forall (fun col => exists e rest, col = e :: rest /\ e_r V e = 0 /\ Forall (fun e' => 0 < e_r V e') rest)
           (shred_row s v).
  Proof. intros s v H. unfold shred_row. now apply shred_first_rep. Qed.

  (** * Number of columns *)

  Lemma shred_ncols : forall s (v : value) r d k, wf s v -> length (shred s v r d k) = nleaves s.
  Proof.
    apply (schema_mut
      (fun s => forall (v : value) r d k, wf s v -> length (shred s v r d k) = nleaves s)
      (fun fs => forall (vs : list value) r d k, wf_fields fs vs ->
         length (shred_fields fs vs r d k) = nleaves_fields fs)).
    - intros [x| | |] r d k H; cbn in H; try contradiction. reflexivity.
    - intros fs IH [|vs| |] r d k H; cbn in H; try contradiction. unf. now apply IH.
    - intros [|v vs] r d k H; cbn in H; try contradiction. reflexivity.
    - intros rp s IHs fs IHf vs r d k H.
      destruct rp; destruct vs as [|fv vs']; cbn in H; try contradiction.
      + destruct H as [Hv Hvs]. unf. now rewrite app_length, IHs, IHf.
      + destruct fv as [| |[v|]|]; try contradiction; unf.
        * destruct H as [Hv Hvs]. now rewrite app_length, IHs, IHf.
        * now rewrite app_length, nulls_length, IHf.
      + destruct fv as [| | |l]; try contradiction. destruct H as [Hl Hvs].
        destruct l as [|x l]; unf.
        * now rewrite app_length, nulls_length, IHf.
        * inversion Hl as [|? ? Hx Hl']; subst.
          rewrite app_length, IHf by assumption. f_equal.
          apply fold_zipapp_length; [now apply IHs|].
          apply Forall_forall. intros m Hm. apply in_map_iff in Hm. destruct Hm as (y & <- & Hy).
          rewrite Forall_forall in Hl'. apply IHs. now apply Hl'.
  Qed.
End Levels.

Arguments entry_ok {V}.
Arguments first_rep {V}.

Print Assumptions shred_levels.
Print Assumptions max_levels_shift.
Print Assumptions shred_levels_nth.
Print Assumptions shred_first_rep.
Print Assumptions shred_row_rep_zero.
Print Assumptions shred_ncols.
Print Assumptions max_levels_length.
