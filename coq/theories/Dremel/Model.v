(** Dremel record shredding and assembly (row.go deconstructFuncOf* /
    reconstructFuncOf*, column_buffer_write.go).

    A schema is a tree of required / optional / repeated fields over leaves.
    A record value is shredded into one stream of (value option, repetition
    level, definition level) per leaf column, in depth-first order; assembly
    rebuilds the value from the streams.  No proofs here. *)
From Coq Require Import List Arith Bool.
Import ListNotations.

Inductive rep := Req | Opt | Rpt.

Inductive schema :=
| Leaf
| Group (fs : fields)
with fields :=
| FNil
| FCons (r : rep) (s : schema) (fs : fields).

Scheme schema_mut := Induction for schema Sort Prop
with fields_mut := Induction for fields Sort Prop.

Section Dremel.
  Variable V : Type.   (* leaf values: bit patterns / byte strings *)

  Inductive value :=
  | VLeaf (x : V)
  | VGroup (vs : list value)          (* one entry per field, in order *)
  | VOpt (o : option value)           (* an optional field *)
  | VList (l : list value).           (* a repeated field *)

  (* one entry of a column stream *)
  Definition entry := (option V * nat * nat)%type.   (* value, r, d *)
  Definition e_r (e : entry) : nat := snd (fst e).
  Definition e_d (e : entry) : nat := snd e.
  Definition column := list entry.

  Fixpoint nleaves (s : schema) : nat :=
    match s with
    | Leaf => 1
    | Group fs => nleaves_fields fs
    end
  with nleaves_fields (fs : fields) : nat :=
    match fs with
    | FNil => 0
    | FCons _ s fs' => nleaves s + nleaves_fields fs'
    end.

  (* column-wise concatenation of two lists of columns *)
  Fixpoint zipapp (a b : list column) : list column :=
    match a, b with
    | x :: a', y :: b' => (x ++ y) :: zipapp a' b'
    | _, _ => []
    end.

  Definition nulls (s : schema) (r d : nat) : list column := repeat [(None, r, d)] (nleaves s).

  (** [shred s v r d k]: the columns of [v]; [r] is the repetition level of the
      first entry of every column, [d] the definition level reached so far,
      [k] the number of repeated ancestors. *)
  Fixpoint shred (s : schema) (v : value) (r d k : nat) {struct s} : list column :=
    match s, v with
    | Leaf, VLeaf x => [[(Some x, r, d)]]
    | Group fs, VGroup vs => shred_fields fs vs r d k
    | _, _ => []
    end
  with shred_fields (fs : fields) (vs : list value) (r d k : nat) {struct fs} : list column :=
    match fs, vs with
    | FCons Req s fs', v :: vs' => shred s v r d k ++ shred_fields fs' vs' r d k
    | FCons Opt s fs', VOpt None :: vs' => nulls s r d ++ shred_fields fs' vs' r d k
    | FCons Opt s fs', VOpt (Some v) :: vs' => shred s v r (S d) k ++ shred_fields fs' vs' r d k
    | FCons Rpt s fs', VList [] :: vs' => nulls s r d ++ shred_fields fs' vs' r d k
    | FCons Rpt s fs', VList (x :: l) :: vs' =>
        fold_left zipapp (map (fun y => shred s y (S k) (S d) (S k)) l) (shred s x r (S d) (S k))
          ++ shred_fields fs' vs' r d k
    | _, _ => []
    end.

  (** well-formed values of a schema *)
  Fixpoint wf (s : schema) (v : value) {struct s} : Prop :=
    match s, v with
    | Leaf, VLeaf _ => True
    | Group fs, VGroup vs => wf_fields fs vs
    | _, _ => False
    end
  with wf_fields (fs : fields) (vs : list value) {struct fs} : Prop :=
    match fs, vs with
    | FNil, [] => True
    | FCons Req s fs', v :: vs' => wf s v /\ wf_fields fs' vs'
    | FCons Opt s fs', VOpt None :: vs' => wf_fields fs' vs'
    | FCons Opt s fs', VOpt (Some v) :: vs' => wf s v /\ wf_fields fs' vs'
    | FCons Rpt s fs', VList l :: vs' => Forall (wf s) l /\ wf_fields fs' vs'
    | _, _ => False
    end.

  (* every group has at least one leaf (the library rejects empty groups) *)
  Fixpoint wf_schema (s : schema) : Prop :=
    match s with
    | Leaf => True
    | Group fs => 0 < nleaves_fields fs /\ wf_schema_fields fs
    end
  with wf_schema_fields (fs : fields) : Prop :=
    match fs with
    | FNil => True
    | FCons _ s fs' => wf_schema s /\ wf_schema_fields fs'
    end.

  (** * Assembly *)

  Definition head_entry (cols : list column) : option entry :=
    match cols with
    | (e :: _) :: _ => Some e
    | _ => None
    end.

  Fixpoint drop_heads (cols : list column) : option (list column) :=
    match cols with
    | [] => Some []
    | [] :: _ => None
    | (_ :: c) :: rest =>
        match drop_heads rest with
        | Some r => Some (c :: r)
        | None => None
        end
    end.

  (* the repeated-field loop: [one] parses one element *)
  Fixpoint asm_list (fuel : nat) (one : list column -> option (value * list column))
           (k : nat) (cols : list column) : option (list value * list column) :=
    match fuel with
    | O => None
    | S f =>
        match one cols with
        | None => None
        | Some (x, cols') =>
            match head_entry cols' with
            | Some e =>
                if e_r e =? S k then
                  match asm_list f one k cols' with
                  | Some (l, cols'') => Some (x :: l, cols'')
                  | None => None
                  end
                else Some ([x], cols')
            | None => Some ([x], cols')
            end
        end
    end.

  (** [asm s d k fuel cols]: [cols] are the columns of the leaves of [s];
      returns the value and what is left of the columns. *)
  Fixpoint asm (s : schema) (d k fuel : nat) (cols : list column) {struct s} : option (value * list column) :=
    match s with
    | Leaf =>
        match cols with
        | [(Some x, _, _) :: rest] => Some (VLeaf x, [rest])
        | _ => None
        end
    | Group fs =>
        match asm_fields fs d k fuel cols with
        | Some (vs, rest) => Some (VGroup vs, rest)
        | None => None
        end
    end
  with asm_fields (fs : fields) (d k fuel : nat) (cols : list column) {struct fs} : option (list value * list column) :=
    match fs with
    | FNil => match cols with [] => Some ([], []) | _ => None end
    | FCons rp s fs' =>
        let c1 := firstn (nleaves s) cols in
        let c2 := skipn (nleaves s) cols in
        let field :=
          match rp with
          | Req => asm s d k fuel c1
          | Opt =>
              match head_entry c1 with
              | None => None
              | Some e =>
                  if d <? e_d e then
                    match asm s (S d) k fuel c1 with
                    | Some (v, r1) => Some (VOpt (Some v), r1)
                    | None => None
                    end
                  else
                    match drop_heads c1 with
                    | Some r1 => Some (VOpt None, r1)
                    | None => None
                    end
              end
          | Rpt =>
              match head_entry c1 with
              | None => None
              | Some e =>
                  if d <? e_d e then
                    match asm_list fuel (asm s (S d) (S k) fuel) k c1 with
                    | Some (l, r1) => Some (VList l, r1)
                    | None => None
                    end
                  else
                    match drop_heads c1 with
                    | Some r1 => Some (VList [], r1)
                    | None => None
                    end
              end
          end in
        match field with
        | None => None
        | Some (v, r1) =>
            match asm_fields fs' d k fuel c2 with
            | Some (vs, r2) => Some (v :: vs, r1 ++ r2)
            | None => None
            end
        end
    end.

  (** whole records: a row is a value of the root group; rows are shredded
      one after the other, each starting at repetition level 0 *)
  Definition shred_row (s : schema) (v : value) : list column := shred s v 0 0 0.

  Definition shred_rows (s : schema) (vs : list value) : list column :=
    fold_left zipapp (map (shred_row s) vs) (repeat [] (nleaves s)).

  Fixpoint asm_rows (n : nat) (s : schema) (fuel : nat) (cols : list column) : option (list value) :=
    match n with
    | O => Some []
    | S m =>
        match asm s 0 0 fuel cols with
        | Some (v, rest) =>
            match asm_rows m s fuel rest with
            | Some vs => Some (v :: vs)
            | None => None
            end
        | None => None
        end
    end.

  (* maximum levels of the leaves, in column order *)
  Fixpoint max_levels (s : schema) (r d : nat) : list (nat * nat) :=
    match s with
    | Leaf => [(r, d)]
    | Group fs => max_levels_fields fs r d
    end
  with max_levels_fields (fs : fields) (r d : nat) : list (nat * nat) :=
    match fs with
    | FNil => []
    | FCons Req s fs' => max_levels s r d ++ max_levels_fields fs' r d
    | FCons Opt s fs' => max_levels s r (S d) ++ max_levels_fields fs' r d
    | FCons Rpt s fs' => max_levels s (S r) (S d) ++ max_levels_fields fs' r d
    end.
End Dremel.

Arguments VLeaf {V}.
Arguments VGroup {V}.
Arguments VOpt {V}.
Arguments VList {V}.
Arguments shred {V}.
Arguments shred_fields {V}.
Arguments shred_row {V}.
Arguments shred_rows {V}.
Arguments asm {V}.
Arguments asm_fields {V}.
Arguments asm_rows {V}.
Arguments wf {V}.
Arguments wf_fields {V}.
Arguments zipapp {V}.
Arguments nulls {V}.
