(** The typed path with the real run scanner: the rows of a non-pointer
    `optional` field are cut into calls by running the bitmap scanner of
    Dremel/NullRuns.v on the bitmap nullIndex builds from the field's values
    (null.go: bit i = 1 iff row i is non-null; bitmap.go: ceil(n/64) words,
    cleared first).  No proofs here (BatchScanProofs.v). *)
From Coq Require Import List NArith Bool Arith.
From PQ Require Import Dremel.Model Dremel.Batch Dremel.NullRuns.
Import ListNotations.

Section BatchScan.
  Variable V : Type.
  Notation value := (value V).

  (* bits[x] |= 1 << y for the set flags, starting at bit [pos] *)
  Fixpoint pack_word (flags : list bool) (pos : N) : N :=
    match flags with
    | [] => 0%N
    | b :: t => N.lor (if b then N.shiftl 1 pos else 0%N) (pack_word t (pos + 1)%N)
    end.

  (* one word per 64 flags *)
  Fixpoint pack_words (fuel : nat) (flags : list bool) : list N :=
    match fuel with
    | O => []
    | S f =>
        match flags with
        | [] => []
        | _ :: _ => pack_word (firstn 64 flags) 0%N :: pack_words f (skipn 64 flags)
        end
    end.

  (* nullIndex over the values of an optional field *)
  Definition null_index (col : list value) : list N :=
    pack_words (S (length col)) (map (fun v => negb (is_null v)) col).

  (* rows.Slice(start, end) for every run *)
  Definition cut (rs : list run) (col : list value) : list (list value) :=
    map (fun r : run => let '(_, s, e) := r in firstn (N.to_nat (e - s)) (skipn (N.to_nat s) col)) rs.

  (* writeRowsFuncOfOptional: nullIndex, then the run scanner, then one call per run *)
  Definition scan_chunks (col : list value) : list (list value) :=
    cut (scan (null_index col) (N.of_nat (length col))) col.
End BatchScan.

Arguments pack_word : clear implicits.
Arguments pack_words : clear implicits.
Arguments null_index {V}.
Arguments cut {V}.
Arguments scan_chunks {V}.
