(** The run scanner of writeRowsFuncOfOptional (column_buffer_write.go:305-396).

    An `optional`-tagged field that is neither a pointer nor a slice is
    written by the typed path in runs: nullIndex fills a bitmap with one bit
    per row (1 = the row holds a non-zero value, 0 = null; null.go, the nullIndex functions),
    and the loop below cuts the rows [0,n) into maximal runs of nulls and of
    non-nulls, 64 rows at a time; each run is handed to the child writer in a
    single call with one definition level.

    The bitmap is a list of 64-bit words (each < 2^64).  acquireBitmap
    (bitmap.go) returns at least ceil(n/64) words (n words when freshly
    allocated), all zero before nullIndex runs.  The bits at positions >= n
    are not determined by the rows: the present kernels leave them zero (until
    commit f2cbf09 nullIndexStruct set every bit of every word).  The theorems
    do not depend on it: they quantify over arbitrary bits beyond n and any
    number of words >= ceil(n/64).

    No proofs here (NullRunsProofs.v). *)
From Coq Require Import List NArith Bool Arith.
Import ListNotations.
Local Open Scope N_scope.

(** a run: (is_null, start, end) = rows [start, end) *)
Definition run := (bool * N * N)%type.

Definition mask64 : N := 18446744073709551615.        (* ^uint64(0) *)
Definition not64 (w : N) : N := N.lxor w mask64.       (* ^w, for w < 2^64 *)

(** bits.TrailingZeros64 *)
Fixpoint tz_pos (p : positive) : N :=
  match p with
  | xO q => N.succ (tz_pos q)
  | _ => 0
  end.
Definition tz64 (w : N) : N :=
  match w with
  | N0 => 64
  | Npos p => tz_pos p
  end.

Definition word (bits : list N) (x : N) : N := nth (N.to_nat x) bits 0.   (* nulls.bits[x] *)
Definition nwords (bits : list N) : N := N.of_nat (length bits).           (* len(nulls.bits) *)

(** for x < len(nulls.bits) && nulls.bits[x] == v { x++ }      (lines 349, 377) *)
Fixpoint skip_words (fuel : nat) (bits : list N) (v : N) (x : N) : N :=
  match fuel with
  | O => x
  | S f =>
      if (x <? nwords bits) && (word bits x =? v)
      then skip_words f bits v (x + 1)
      else x
  end.

(** lines 339-355: from position (x, y) to the label writeNulls; returns (x, y) *)
Definition null_phase (bits : list N) (x y : N) : N * N :=
  let scan_from (x : N) :=                       (* here y = 0 *)
    let x' := skip_words (S (length bits)) bits 0 x in
    if x' <? nwords bits then (x', tz64 (word bits x') mod 64) else (x', 0) in
  if negb (y =? 0) then
    let b := N.shiftr (word bits x) y in
    if b =? 0 then scan_from (x + 1)             (* x++; y = 0 *)
    else (x, y + tz64 b)                         (* y += TrailingZeros64(b); goto writeNulls *)
  else scan_from x.

(** lines 367-383: from (x, y) to the label writeNonNulls.  [maskf y] is the
    constant the shifted word is compared with. *)
Definition nonnull_phase (maskf : N -> N) (bits : list N) (x y : N) : N * N :=
  let scan_from (x : N) :=
    let x' := skip_words (S (length bits)) bits mask64 x in
    if x' <? nwords bits then (x', tz64 (not64 (word bits x')) mod 64) else (x', 0) in
  if negb (y =? 0) then
    let b := N.shiftr (word bits x) y in
    if b =? maskf y then scan_from (x + 1)
    else (x, y + tz64 (not64 b))                 (* ^b is the 64-bit complement: its top y bits are set *)
  else scan_from x.

Definition mask_fixed (y : N) : N := N.shiftl 1 (64 - y) - 1.    (* (1<<uint(64-y))-1   current code *)
Definition mask_pinned (y : N) : N := N.shiftl 1 y - 1.          (* (1<<uint64(y))-1    before 697c643 *)

(** if j = x*64 + y; j > rows.Len() { j = rows.Len() } *)
Definition clamp (j n : N) : N := if n <? j then n else j.

(** for i := 0; i < rows.Len(); { ... }     (lines 334-394) *)
Fixpoint scan_loop (fuel : nat) (maskf : N -> N) (bits : list N) (n i : N) : list run :=
  match fuel with
  | O => []
  | S f =>
      if i <? n then
        let x := i / 64 in
        let y := i mod 64 in
        let '(x1, y1) := null_phase bits x y in
        let j1 := clamp (x1 * 64 + y1) n in
        let '(out1, i1) := if i <? j1 then ([(true, i, j1)], j1) else ([], i) in
        let '(x2, y2) := nonnull_phase maskf bits x1 y1 in
        let j2 := clamp (x2 * 64 + y2) n in
        let '(out2, i2) := if i1 <? j2 then ([(false, i1, j2)], j2) else ([], i1) in
        out1 ++ out2 ++ scan_loop f maskf bits n i2
      else []
  end.

(** every iteration of the outer loop advances i, so n+1 iterations suffice *)
Definition scan (bits : list N) (n : N) : list run :=
  scan_loop (S (N.to_nat n)) mask_fixed bits n 0.

Definition scan_pinned (bits : list N) (n : N) : list run :=
  scan_loop (S (N.to_nat n)) mask_pinned bits n 0.

(** * Specification vocabulary *)

(** bit i of the bitmap: true = row i is non-null *)
Definition bit_at (bits : list N) (i : N) : bool := N.testbit (word bits (i / 64)) (i mod 64).

(** what acquireBitmap + nullIndex guarantee: 64-bit words, enough of them *)
Definition wf_bitmap (bits : list N) (n : N) : Prop :=
  Forall (fun w => w < 2 ^ 64) bits /\ n <= 64 * nwords bits.

(** the runs are consecutive from [a] and end at [n] *)
Fixpoint chain (a n : N) (rs : list run) : Prop :=
  match rs with
  | [] => a = n
  | (_, s, e) :: rest => s = a /\ chain e n rest
  end.

(** non-empty and uniform: every row of a null run has bit 0, of a non-null run bit 1 *)
Definition run_ok (bits : list N) (r : run) : Prop :=
  let '(isnull, s, e) := r in
  s < e /\ forall i, s <= i < e -> bit_at bits i = negb isnull.

Definition runs_partition (bits : list N) (n : N) (rs : list run) : Prop :=
  chain 0 n rs /\ Forall (run_ok bits) rs.

(** the null flags of the rows a list of runs stands for *)
Definition expand (rs : list run) : list bool :=
  concat (map (fun '(isnull, s, e) => repeat isnull (N.to_nat (e - s))) rs).

(** the null flags of rows 0..n-1 read off the bitmap *)
Definition null_flags (bits : list N) (n : N) : list bool :=
  map (fun i => negb (bit_at bits (N.of_nat i))) (seq 0 (N.to_nat n)).

(* executable check of [runs_partition], used by Examples and by the harness tie *)
Definition run_okb (bits : list N) (r : run) : bool :=
  let '(isnull, s, e) := r in
  (s <? e) && forallb (fun k => Bool.eqb (bit_at bits (s + N.of_nat k)) (negb isnull)) (seq 0 (N.to_nat (e - s))).

Fixpoint chainb (a n : N) (rs : list run) : bool :=
  match rs with
  | [] => a =? n
  | (_, s, e) :: rest => (s =? a) && chainb e n rest
  end.

Definition runs_partitionb (bits : list N) (n : N) (rs : list run) : bool :=
  chainb 0 n rs && forallb (run_okb bits) rs.
