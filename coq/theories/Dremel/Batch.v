(** Column-at-a-time shredding of a batch of rows: the typed path of
    column_buffer_write.go (the writeRowsFuncOf... family).

    GenericWriter[T].Write / GenericBuffer[T].Write hand ALL rows of a batch
    to one writeRowsFunc (writer.go makeWriteFunc).  A struct writer
    (writeRowsFuncOfStruct) calls the writer of each field once with the
    array of that field of all rows (rows.Offset(field offset)); the writers
    of optional / repeated fields cut that array into sub-arrays and call the
    child writer once per sub-array, with ONE set of levels per call:

      - writeRowsFuncOfPointer: one call per row (nil: empty array at the
        current definition level; otherwise the one pointee at d+1);
      - writeRowsFuncOfOptional (non-pointer `optional` fields): one call per
        run of null rows (at d) and per run of non-null rows (at d+1), the runs
        being found by the 64-rows-at-a-time bitmap scan (Dremel/NullRuns.v);
      - writeRowsFuncOfSlice / writeRowsFuncOfMap: per row, an empty array at
        (r, d) when the slice is empty, else the first element alone at
        (r, d+1) and then ALL other elements in one call at (depth, d+1);
      - a leaf (ColumnBuffer.writeValues) appends one entry per row of the
        array, all with the levels of the call; an empty array stands for one
        null entry (optionalColumnBuffer.writeValues / repeatedColumnBuffer).

    How an optional field cuts its rows is a parameter ([chunks], indexed by
    the path of the field): any cutting into non-empty uniform chunks.  No
    proofs here (BatchProofs.v). *)
From Coq Require Import List Arith Bool.
From PQ Require Import Dremel.Model.
Import ListNotations.

Section Batch.
  Variable V : Type.
  Notation value := (value V).
  Notation entry := (entry V).
  Notation column := (column V).

  (** column-wise concatenation of several lists of [n] columns *)
  Definition cat_cols (n : nat) (l : list (list column)) : list column :=
    fold_right zipapp (repeat [] n) l.

  Definition row_fields (v : value) : list value := match v with VGroup l => l | _ => [] end.
  Definition leaf_entry (r d : nat) (v : value) : entry :=
    match v with VLeaf x => (Some x, r, d) | _ => (None, r, d) end.
  Definition is_null (v : value) : bool := match v with VOpt None => true | _ => false end.
  Definition unopt (v : value) : value := match v with VOpt (Some x) => x | _ => v end.
  Definition elems (v : value) : list value := match v with VList l => l | _ => [] end.
  Definition dummy : value := VGroup [].

  (** a run of [m] null rows written with one call at levels (r, d): every leaf
      below the field gets m null entries (the child writers forward the array
      unchanged down to the leaves, whose column buffers see a definition level
      below their maximum) *)
  Definition null_run (s : schema) (r d m : nat) : list column :=
    repeat (repeat (None, r, d) m) (nleaves s).

  (** how the rows of the optional field at path [p] are cut into calls *)
  Variable chunks : list nat -> list value -> list (list value).

  (** [wr s p vs r d k]: the writer of node [s] (at path [p], innermost field
      index first) called with the array [vs] and levels (r, d, depth k). *)
  Fixpoint wr (s : schema) (p : list nat) (vs : list value) (r d k : nat) {struct s} : list column :=
    match vs with
    | [] => nulls s r d       (* rows.Len() == 0: every writer forwards the empty array; each leaf appends one null *)
    | _ :: _ =>
        match s with
        | Leaf => [map (leaf_entry r d) vs]
        | Group fs => wr_fields fs p 0 (map row_fields vs) r d k
        end
    end
  with wr_fields (fs : fields) (p : list nat) (i : nat) (rows : list (list value)) (r d k : nat)
         {struct fs} : list column :=
    match fs with
    | FNil => []
    | FCons rp s fs' =>
        let col := map (hd dummy) rows in           (* rows.Offset(column.offset) *)
        let q := i :: p in
        (match rp with
         | Req => wr s q col r d k
         | Opt =>
             cat_cols (nleaves s)
               (map (fun ch =>
                       match ch with
                       | [] => repeat [] (nleaves s)
                       | c :: _ =>
                           if is_null c then null_run s r d (length ch)
                           else wr s q (map unopt ch) r (S d) k
                       end) (chunks q col))
         | Rpt =>
             cat_cols (nleaves s)
               (map (fun v =>
                       match elems v with
                       | [] => wr s q [] r d (S k)
                       | [x] => wr s q [x] r (S d) (S k)
                       | x :: l => zipapp (wr s q [x] r (S d) (S k)) (wr s q l (S k) (S d) (S k))
                       end) col)
         end) ++ wr_fields fs' p (S i) (map (@tl value) rows) r d k
    end.

  (** GenericWriter[T].Write(rows): nothing is written for an empty batch *)
  Definition shred_batch (s : schema) (rows : list value) : list column :=
    match rows with
    | [] => repeat [] (nleaves s)
    | _ :: _ => wr s [] rows 0 0 0
    end.

  (** admissible cuttings: the chunks are consecutive, non-empty and uniform *)
  Definition uniform (ch : list value) : Prop :=
    (forall v, In v ch -> is_null v = true) \/ (forall v, In v ch -> is_null v = false).

  Definition chunks_ok (chs : list (list value)) (col : list value) : Prop :=
    concat chs = col /\ Forall (fun ch => ch <> [] /\ uniform ch) chs.
End Batch.

Arguments cat_cols {V}.
Arguments is_null {V}.
Arguments unopt {V}.
Arguments null_run {V}.
Arguments wr {V}.
Arguments wr_fields {V}.
Arguments shred_batch {V}.
Arguments uniform {V}.
Arguments chunks_ok {V}.

(** Two cuttings used by the library. *)
Section Cuttings.
  Variable V : Type.
  Notation value := (value V).

  (* writeRowsFuncOfPointer: one call per row *)
  Definition singletons (col : list value) : list (list value) := map (fun v => [v]) col.

  (* writeRowsFuncOfOptional: maximal runs of nulls / non-nulls *)
  Fixpoint max_runs (col : list value) : list (list value) :=
    match col with
    | [] => []
    | v :: rest =>
        match max_runs rest with
        | (w :: ch) :: chs => if Bool.eqb (is_null v) (is_null w) then (v :: w :: ch) :: chs else [v] :: (w :: ch) :: chs
        | _ => [[v]]
        end
    end.
End Cuttings.

Arguments singletons {V}.
Arguments max_runs {V}.
