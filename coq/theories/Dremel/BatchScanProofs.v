(** The typed path with the real run scanner (Dremel/BatchScan.v): the bitmap
    nullIndex builds from the values of an optional field is well formed and
    holds bit i = 1 iff row i is non-null; the sub-arrays the run scanner cuts
    the rows into are consecutive, non-empty and uniform ([scan_chunks_ok]);
    hence column-at-a-time shredding with the run scanner produces exactly
    the streams of row-at-a-time shredding ([shred_batch_scan]). *)
From Coq Require Import List NArith Bool Arith Lia.
From PQ Require Import Dremel.Model Dremel.Proofs Dremel.Batch Dremel.BatchProofs
  Dremel.NullRuns Dremel.NullRunsProofs Dremel.BatchScan.
Import ListNotations.

(** * Lists *)

Section ListFacts.
  Variable A : Type.

  Lemma nth_firstn_lt : forall n i (l : list A) d, i < n -> nth i (firstn n l) d = nth i l d.
  Proof.
    induction n as [|n IH]; intros i l d Hi; [lia|].
    destruct l as [|a l]; [reflexivity|].
    destruct i as [|i]; [reflexivity|]. cbn [firstn nth]. apply IH. lia.
  Qed.

  Lemma nth_skipn_add : forall n i (l : list A) d, nth i (skipn n l) d = nth (n + i) l d.
  Proof.
    induction n as [|n IH]; intros i l d; [reflexivity|].
    destruct l as [|a l]; [now destruct i|].
    cbn [skipn Nat.add nth]. apply IH.
  Qed.

  Lemma skipn_skipn_add : forall a b (l : list A), skipn a (skipn b l) = skipn (b + a) l.
  Proof.
    intros a b. induction b as [|b IH]; intros l; [reflexivity|].
    destruct l as [|x l]; [now rewrite !skipn_nil|].
    cbn [skipn Nat.add]. apply IH.
  Qed.

  Lemma firstn_add : forall a b (l : list A), firstn (a + b) l = firstn a l ++ firstn b (skipn a l).
  Proof.
    induction a as [|a IH]; intros b l; [reflexivity|].
    destruct l as [|x l]; [now rewrite !firstn_nil|].
    cbn [Nat.add firstn skipn app]. now rewrite IH.
  Qed.
End ListFacts.

(** * Packing flags into words *)

Lemma pack_word_bit : forall flags pos k,
  N.testbit (pack_word flags pos) k =
  if (pos <=? k)%N && (k <? pos + N.of_nat (length flags))%N
  then nth (N.to_nat (k - pos)) flags false else false.
Proof.
  induction flags as [|b t IH]; intros pos k.
  - cbn [pack_word]. rewrite N.bits_0.
    destruct ((pos <=? k)%N && (k <? pos + N.of_nat (length (@nil bool)))%N); [|reflexivity].
    now destruct (N.to_nat (k - pos)).
  - cbn [pack_word]. rewrite N.lor_spec, IH. cbn [length].
    destruct (N.lt_trichotomy k pos) as [Hlt|[->|Hgt]].
    + assert (E1 : (pos <=? k)%N = false) by (apply N.leb_gt; lia).
      assert (E2 : (pos + 1 <=? k)%N = false) by (apply N.leb_gt; lia).
      rewrite E1, E2. cbn [andb]. rewrite orb_false_r.
      destruct b; [|apply N.bits_0].
      rewrite N.shiftl_1_l, N.pow2_bits_eqb. apply N.eqb_neq. lia.
    + assert (E1 : (pos <=? pos)%N = true) by (apply N.leb_le; lia).
      assert (E2 : (pos + 1 <=? pos)%N = false) by (apply N.leb_gt; lia).
      assert (E3 : (pos <? pos + N.of_nat (S (length t)))%N = true) by (apply N.ltb_lt; lia).
      rewrite E1, E2, E3. cbn [andb]. rewrite orb_false_r.
      replace (N.to_nat (pos - pos)) with 0 by lia. cbn [nth].
      destruct b; [|apply N.bits_0].
      rewrite N.shiftl_1_l, N.pow2_bits_eqb. apply N.eqb_refl.
    + assert (E1 : (pos <=? k)%N = true) by (apply N.leb_le; lia).
      assert (E2 : (pos + 1 <=? k)%N = true) by (apply N.leb_le; lia).
      assert (E0 : N.testbit (if b then N.shiftl 1 pos else 0%N) k = false).
      { destruct b; [|apply N.bits_0].
        rewrite N.shiftl_1_l, N.pow2_bits_eqb. apply N.eqb_neq. lia. }
      rewrite E0, E1, E2. cbn [andb orb].
      replace (pos + 1 + N.of_nat (length t))%N with (pos + N.of_nat (S (length t)))%N by lia.
      replace (N.to_nat (k - pos)) with (S (N.to_nat (k - (pos + 1)))) by lia.
      reflexivity.
Qed.

Lemma pack_word_lt : forall flags, length flags <= 64 -> (pack_word flags 0 < 2 ^ 64)%N.
Proof.
  intros flags Hlen.
  destruct (N.lt_ge_cases (pack_word flags 0) (2 ^ 64)) as [H|H]; [exact H|exfalso].
  set (w := pack_word flags 0) in *.
  assert (Hpos : (0 < 2 ^ 64)%N) by (apply N.neq_0_lt_0, N.pow_nonzero; discriminate).
  assert (Hw : (0 < w)%N) by lia.
  assert (Hlog : (64 <= N.log2 w)%N) by (apply N.log2_le_pow2; assumption).
  assert (Hbit : N.testbit w (N.log2 w) = true) by (apply N.bit_log2; lia).
  unfold w in Hbit. rewrite pack_word_bit in Hbit.
  assert (E : (N.log2 w <? 0 + N.of_nat (length flags))%N = false) by (apply N.ltb_ge; lia).
  fold w in Hbit. rewrite E, andb_false_r in Hbit. discriminate.
Qed.

Lemma pack_words_cons : forall f b t,
  pack_words (S f) (b :: t) = pack_word (firstn 64 (b :: t)) 0 :: pack_words f (skipn 64 (b :: t)).
Proof. reflexivity. Qed.

Lemma pack_words_nil : forall fuel, pack_words fuel [] = [].
Proof. now destruct fuel. Qed.

Lemma pack_words_lt : forall fuel flags, Forall (fun w => (w < 2 ^ 64)%N) (pack_words fuel flags).
Proof.
  induction fuel as [|f IH]; intros flags; [constructor|].
  destruct flags as [|b t]; [constructor|].
  rewrite pack_words_cons. constructor; [|apply IH].
  apply pack_word_lt, firstn_le_length.
Qed.

Lemma pack_words_length : forall fuel flags,
  length flags < fuel -> length flags <= 64 * length (pack_words fuel flags).
Proof.
  induction fuel as [|f IH]; intros flags Hf; [lia|].
  destruct flags as [|b t]; [cbn [length]; lia|].
  rewrite pack_words_cons. cbn [length] in Hf.
  assert (Hs : length (skipn 64 (b :: t)) = length (b :: t) - 64) by apply skipn_length.
  cbn [length] in Hs.
  specialize (IH (skipn 64 (b :: t))).
  change (length (pack_word (firstn 64 (b :: t)) 0 :: pack_words f (skipn 64 (b :: t))))
    with (S (length (pack_words f (skipn 64 (b :: t))))).
  change (length (b :: t)) with (S (length t)).
  lia.
Qed.

Lemma pack_words_nth : forall x fuel flags,
  length flags < fuel ->
  nth x (pack_words fuel flags) 0%N = pack_word (firstn 64 (skipn (64 * x) flags)) 0.
Proof.
  induction x as [|x IH]; intros fuel flags Hf.
  - change (64 * 0) with 0. rewrite skipn_O.
    destruct fuel as [|f]; [lia|].
    destruct flags as [|b t]; [reflexivity|].
    rewrite pack_words_cons. reflexivity.
  - destruct fuel as [|f]; [lia|].
    destruct flags as [|b t].
    + rewrite skipn_nil, firstn_nil. reflexivity.
    + rewrite pack_words_cons. cbn [nth].
      assert (Hs : length (skipn 64 (b :: t)) = length (b :: t) - 64) by apply skipn_length.
      cbn [length] in Hs, Hf.
      rewrite IH by lia.
      rewrite skipn_skipn_add.
      replace (64 + 64 * x) with (64 * S x) by lia. reflexivity.
Qed.

Section BatchScanProofs.
  Variable V : Type.
  Notation value := (value V).

  (** ** The bitmap of nullIndex *)

  Lemma null_index_wf : forall col : list value,
    wf_bitmap (null_index col) (N.of_nat (length col)).
  Proof.
    intros col. unfold wf_bitmap, null_index, nwords. split.
    - apply pack_words_lt.
    - pose proof (pack_words_length (S (length col)) (map (fun v => negb (is_null v)) col)) as H.
      rewrite map_length in H. specialize (H (Nat.lt_succ_diag_r _)). lia.
  Qed.

  Lemma null_index_bit : forall (col : list value) i,
    i < length col ->
    bit_at (null_index col) (N.of_nat i) = negb (is_null (nth i col (VOpt None))).
  Proof.
    intros col i Hi. unfold bit_at, word, null_index.
    set (flags := map (fun v : value => negb (is_null v)) col).
    assert (Hlen : length flags = length col) by apply map_length.
    pose proof (Nat.div_mod_eq i 64) as Hdm.
    assert (Hr : i mod 64 < 64) by (apply Nat.mod_upper_bound; discriminate).
    set (q := i / 64) in *. set (r := i mod 64) in *.
    assert (Eq : (N.of_nat i / 64)%N = N.of_nat q).
    { symmetry. apply (N.div_unique _ _ _ (N.of_nat r)); lia. }
    assert (Er : (N.of_nat i mod 64)%N = N.of_nat r).
    { symmetry. apply (N.mod_unique _ _ (N.of_nat q)); lia. }
    rewrite Eq, Er, Nat2N.id.
    rewrite pack_words_nth by lia.
    rewrite pack_word_bit.
    assert (Hl : length (firstn 64 (skipn (64 * q) flags)) = Nat.min 64 (length flags - 64 * q)).
    { rewrite firstn_length, skipn_length. reflexivity. }
    assert (E1 : (0 <=? N.of_nat r)%N = true) by (apply N.leb_le; lia).
    assert (E2 : (N.of_nat r <? 0 + N.of_nat (length (firstn 64 (skipn (64 * q) flags))))%N = true).
    { apply N.ltb_lt. rewrite Hl. lia. }
    rewrite E1, E2. cbn [andb].
    replace (N.to_nat (N.of_nat r - 0)) with r by lia.
    rewrite nth_firstn_lt by assumption.
    rewrite nth_skipn_add.
    replace (64 * q + r) with i by lia.
    exact (map_nth (fun v : value => negb (is_null v)) col (VOpt None) i).
  Qed.

  (** ** Cutting along a partition into runs *)

  Section Cut.
    Variable bits : list N.
    Variable col : list value.
    Hypothesis Hbits : forall i, i < length col ->
      bit_at bits (N.of_nat i) = negb (is_null (nth i col (VOpt None))).

    Lemma cut_concat : forall rs a n,
      chain a n rs -> Forall (run_ok bits) rs ->
      concat (cut rs col) = firstn (N.to_nat (n - a)) (skipn (N.to_nat a) col).
    Proof.
      induction rs as [|[[b s] e] rest IH]; intros a n Hc HF.
      - cbn in Hc. subst a. replace (N.to_nat (n - n)) with 0 by lia. reflexivity.
      - destruct Hc as [-> Hc]. inversion HF as [|? ? Hr HF']; subst.
        destruct Hr as [Hse _].
        pose proof (chain_le bits rest e n Hc HF') as Hen.
        unfold cut. cbn [map concat]. fold (cut rest col).
        rewrite (IH e n Hc HF').
        replace (N.to_nat (n - a)) with (N.to_nat (e - a) + N.to_nat (n - e)) by lia.
        rewrite firstn_add, skipn_skipn_add.
        replace (N.to_nat a + N.to_nat (e - a)) with (N.to_nat e) by lia.
        reflexivity.
    Qed.

    Lemma chunk_ok : forall b s e,
      (e <= N.of_nat (length col))%N -> run_ok bits (b, s, e) ->
      let ch := firstn (N.to_nat (e - s)) (skipn (N.to_nat s) col) in
      ch <> [] /\ uniform ch.
    Proof.
      intros b s e Hen [Hse Hrun] ch.
      assert (Hlen : length ch = N.to_nat (e - s)).
      { unfold ch. rewrite firstn_length, skipn_length. lia. }
      split.
      - intros E. rewrite E in Hlen. cbn [length] in Hlen. lia.
      - assert (Hall : forall v, In v ch -> is_null v = b).
        { intros v Hin.
          destruct (In_nth ch v (VOpt None) Hin) as (k & Hk & Hnth).
          unfold ch in Hnth. rewrite nth_firstn_lt in Hnth by lia.
          rewrite nth_skipn_add in Hnth.
          assert (Hi : N.to_nat s + k < length col) by lia.
          pose proof (Hbits _ Hi) as Hb. rewrite Hnth in Hb.
          rewrite Hrun in Hb by lia.
          destruct b, (is_null v); cbn in Hb; congruence. }
        destruct b; [left|right]; exact Hall.
    Qed.

    Lemma cut_forall : forall rs a n,
      (n <= N.of_nat (length col))%N ->
      chain a n rs -> Forall (run_ok bits) rs ->
      Forall (fun ch => ch <> [] /\ uniform ch) (cut rs col).
    Proof.
      induction rs as [|[[b s] e] rest IH]; intros a n Hn Hc HF; [constructor|].
      destruct Hc as [-> Hc]. inversion HF as [|? ? Hr HF']; subst.
      pose proof (chain_le bits rest e n Hc HF') as Hen.
      unfold cut. cbn [map]. fold (cut rest col). constructor.
      - apply (chunk_ok b a e); [lia|exact Hr].
      - exact (IH e n Hn Hc HF').
    Qed.
  End Cut.

  Lemma cut_ok : forall bits (col : list value) rs,
    runs_partition bits (N.of_nat (length col)) rs ->
    (forall i, i < length col ->
       bit_at bits (N.of_nat i) = negb (is_null (nth i col (VOpt None)))) ->
    chunks_ok (cut rs col) col.
  Proof.
    intros bits col rs [Hc HF] Hbits. split.
    - rewrite (cut_concat bits col rs 0%N _ Hc HF).
      rewrite N.sub_0_r, Nat2N.id. change (N.to_nat 0) with 0. rewrite skipn_O.
      apply firstn_all.
    - apply (cut_forall bits col Hbits rs 0%N (N.of_nat (length col))); [lia|exact Hc|exact HF].
  Qed.

  (** ** The run scanner yields an admissible cutting *)

  Theorem scan_chunks_ok : forall col : list value, chunks_ok (scan_chunks col) col.
  Proof.
    intros col. unfold scan_chunks. apply (cut_ok (null_index col)).
    - apply null_runs_partition, null_index_wf.
    - intros i Hi. apply null_index_bit, Hi.
  Qed.

  Theorem shred_batch_scan : forall s (rows : list value),
    Forall (wf s) rows -> shred_batch (fun _ => scan_chunks) s rows = shred_rows s rows.
  Proof.
    intros s rows Hr. apply shred_batch_rows; [|exact Hr].
    intros p col. apply scan_chunks_ok.
  Qed.
End BatchScanProofs.

Print Assumptions scan_chunks_ok.
Print Assumptions shred_batch_scan.
